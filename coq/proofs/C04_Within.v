(** C04: the unchecked copy-from-within never faults and appends exactly the requested bytes, for every chunk size. *)
From Coq Require Import String Arith Bool Lia ZArith List.
Import ListNotations.
From Coq Require Import ZifyBool ZifyNat.
Require Import Zrs.model.RingBuffer Zrs.proofs.C04_Basics.

Lemma len_eq s : len s = if head s <=? tail s then tail s - head s else cap s - head s + tail s.
Proof. unfold len, data_lens. destruct (head s <=? tail s); cbn; lia. Qed.
Lemma free_eq s : free s = if tail s <? head s then head s - tail s - 1 else head s + (cap s - tail s) - 1.
Proof. unfold free, free_lens. destruct (tail s <? head s); cbn; lia. Qed.

Lemma inv_live_some s i : Inv s -> live s i -> i < cap s /\ exists b, mem s i = Some b.
Proof. intros (_ & _ & H). apply H. Qed.

Lemma copy_over_nil k m c src sl dst dl n :
  1 <= k -> n = 0 -> Nat.min sl dl = 0 -> src <= c -> dst <= c ->
  exists m', copy_overshooting k m c (src, sl) (dst, dl) n = Some m' /\ (forall j, m' j = m j).
Proof.
  intros Hk -> Hmin Hs Hd. unfold copy_overshooting, touched. cbn [fst snd]. rewrite Hmin.
  assert (next_multiple 0 k = 0) as Hnm.
  { unfold next_multiple. replace (0 + k - 1) with (k - 1) by lia. rewrite Nat.div_small by lia. reflexivity. }
  assert ((k <=? 0) && (0 <=? k) = false) as -> by lia. rewrite Hnm. cbn [Nat.leb].
  unfold copy_region. cbn [all_init seq forallb disjoint Nat.eqb orb andb].
  assert ((src + 0 <=? c) && (dst + 0 <=? c) = true) as -> by lia. cbn [andb].
  eexists. split; [reflexivity|]. intros j. cbv beta. assert ((dst <=? j) && (j <? dst + 0) = false) as -> by lia. reflexivity.
Qed.

(** the heart of C04: the unchecked copy, under its two documented preconditions, never faults and
    appends exactly the requested bytes -- for every chunk size k *)
Lemma within_ok k s start n :
  Inv s -> 0 < cap s -> start + n <= len s -> n <= free s -> 1 <= k ->
  exists m', extend_from_within_unchecked k s start n
             = Done (mkrb (cap s) (head s) ((tail s + n) mod cap s) m') /\
    (forall i, i < len s -> m' (idx s i) = mem s (idx s i)) /\
    (forall i, i < n -> m' (idx s (len s + i)) = mem s (idx s (start + i))) /\
    (forall j, (exists b, mem s j = Some b) -> exists b, m' j = Some b).
Proof.
  intros HI Hc Hsl Hfr Hk. destruct s as [c h t m].
  rewrite len_eq in *. rewrite free_eq in Hfr. unfold idx. cbn [cap head tail mem] in *.
  destruct HI as (_ & HB & HL). cbn [cap head tail mem] in *. specialize (HB Hc). destruct HB as [Hh Ht].
  unfold live in HL. cbn [cap head tail mem] in HL.
  unfold extend_from_within_unchecked, advance_tail. cbn [cap head tail mem].
  assert (c =? 0 = false) as Ec by lia.
  destruct (h <? t) eqn:Eht.
  - (* contiguous source *)
    assert (h <=? t = true) as Ele by lia. rewrite Ele in *.
    assert (t <? h = false) as Eth by lia. rewrite Eth in Hfr.
    destruct (copy_over_ok k m c (h + start) (t - h - start) t (c - t) (Nat.min n (c - t)))
      as (m1 & E1 & A1 & B1 & C1); try lia.
    { intros i Hi. apply HL. lia. }
    rewrite E1.
    destruct (Nat.min n (c - t) <? n) eqn:Esplit.
    + cbn [fst snd].
      destruct (copy_over_ok k m1 c (h + start + Nat.min n (c - t)) (t - h - start - Nat.min n (c - t)) 0 h (n - Nat.min n (c - t)))
        as (m2 & E2 & A2 & B2 & C2); try lia.
      { intros i Hi. rewrite B1 by lia. apply HL. lia. }
      rewrite E2, Ec. eexists. split; [reflexivity|]. split; [|split].
      * intros i Hi. assert (h + i <? c = true) as -> by lia.
        rewrite B2 by lia. rewrite B1 by lia. reflexivity.
      * intros i Hi. assert (h + (start + i) <? c = true) as -> by lia.
        destruct (h + (t - h + i) <? c) eqn:Ew.
        -- rewrite B2 by lia. replace (h + (t - h + i)) with (t + i) by lia.
           rewrite A1 by lia. f_equal. lia.
        -- replace (h + (t - h + i) - c) with (0 + (i - (c - t))) by lia.
           rewrite A2 by lia. rewrite B1 by lia. f_equal. lia.
      * intros j Hj. destruct (Nat.lt_ge_cases j h).
        -- apply C2; [lia|]. destruct (Nat.lt_ge_cases j t); [|exfalso; lia]. rewrite B1 by lia. exact Hj.
        -- rewrite B2 by lia. destruct (Nat.lt_ge_cases j t); [rewrite B1 by lia; exact Hj|].
           destruct (Nat.lt_ge_cases j c); [apply C1; [lia|exact Hj]|rewrite B1 by lia; exact Hj].
    + rewrite Ec. eexists. split; [reflexivity|]. split; [|split].
      * intros i Hi. assert (h + i <? c = true) as -> by lia. rewrite B1 by lia. reflexivity.
      * intros i Hi. assert (h + (start + i) <? c = true) as -> by lia.
        assert (h + (t - h + i) <? c = true) as -> by lia.
        replace (h + (t - h + i)) with (t + i) by lia. rewrite A1 by lia. f_equal. lia.
      * intros j Hj. destruct (Nat.lt_ge_cases j t); [rewrite B1 by lia; exact Hj|].
        destruct (Nat.lt_ge_cases j c); [apply C1; [lia|exact Hj]|rewrite B1 by lia; exact Hj].
  - destruct (c <? h + start) eqn:Ewrap.
    + (* source entirely in the wrapped part *)
      rewrite Ec.
      destruct (h <=? t) eqn:Ele; [exfalso; lia|].
      assert (t <? h = true) as Eth by lia. rewrite Eth in Hfr.
      rewrite (mod_sub c (h + start)) by lia.
      assert (h + start <? c = false) as -> by lia.
      destruct (copy_over_ok k m c (h + start - c) (t - (h + start - c)) t (h - t) n)
        as (m1 & E1 & A1 & B1 & C1); try lia.
      { intros i Hi. apply HL. lia. }
      rewrite E1. eexists. split; [reflexivity|]. split; [|split].
      * intros i Hi. destruct (h + i <? c) eqn:E; rewrite B1 by lia; reflexivity.
      * intros i Hi. assert (h + (start + i) <? c = false) as -> by lia.
        assert (h + (c - h + t + i) <? c = false) as -> by lia.
        replace (h + (c - h + t + i) - c) with (t + i) by lia. rewrite A1 by lia. f_equal. lia.
      * intros j Hj. destruct (Nat.lt_ge_cases j t); [rewrite B1 by lia; exact Hj|].
        destruct (Nat.lt_ge_cases j h); [apply C1; [lia|exact Hj]|rewrite B1 by lia; exact Hj].
    + (* source starts before the end of the allocation *)
      destruct (h <=? t) eqn:Ele.
      * (* head = tail: empty buffer, nothing to copy (no cell is touched) *)
        assert (t = h) by lia. subst t. assert (n = 0) by lia. subst n. assert (start = 0) by lia. subst start.
        destruct (copy_over_nil k m c (h + 0) (c - h - 0) h (h - h) (Nat.min 0 (c - h - 0)))
          as (m1 & E1 & A1); try lia.
        rewrite E1. assert (Nat.min 0 (c - h - 0) <? 0 = false) as -> by lia. rewrite Ec.
        eexists. split; [reflexivity|]. split; [|split].
        -- intros i Hi. rewrite A1. reflexivity.
        -- intros i Hi. lia.
        -- intros j Hj. rewrite A1. exact Hj.
      * (* wrapped buffer, source starts in the upper part *)
        assert (t <? h = true) as Eth by lia. rewrite Eth in Hfr.
        destruct (copy_over_ok k m c (h + start) (c - h - start) t (h - t) (Nat.min n (c - h - start)))
          as (m1 & E1 & A1 & B1 & C1); try lia.
        { intros i Hi. apply HL. lia. }
        rewrite E1.
        destruct (Nat.min n (c - h - start) <? n) eqn:Esplit.
        -- cbn [fst snd].
           destruct (copy_over_ok k m1 c 0 t (t + Nat.min n (c - h - start)) (h - t - Nat.min n (c - h - start)) (n - Nat.min n (c - h - start)))
             as (m2 & E2 & A2 & B2 & C2); try lia.
           { intros i Hi. rewrite B1 by lia. apply HL. lia. }
           rewrite E2, Ec. eexists. split; [reflexivity|]. split; [|split].
           ++ intros i Hi. destruct (h + i <? c) eqn:E; rewrite B2 by lia; rewrite B1 by lia; reflexivity.
           ++ intros i Hi.
              assert (h + (c - h + t + i) <? c = false) as -> by lia.
              replace (h + (c - h + t + i) - c) with (t + i) by lia.
              destruct (h + (start + i) <? c) eqn:Ew.
              ** rewrite B2 by lia. rewrite A1 by lia. f_equal. lia.
              ** replace (t + i) with (t + Nat.min n (c - h - start) + (i - (c - h - start))) by lia.
                 rewrite A2 by lia. rewrite B1 by lia. f_equal. lia.
           ++ intros j Hj.
              destruct (Nat.lt_ge_cases j (t + Nat.min n (c - h - start))).
              ** rewrite B2 by lia. destruct (Nat.lt_ge_cases j t); [rewrite B1 by lia; exact Hj|].
                 apply C1; [lia|exact Hj].
              ** destruct (Nat.lt_ge_cases j h).
                 --- apply C2; [lia|]. apply C1; [lia|exact Hj].
                 --- rewrite B2 by lia. rewrite B1 by lia. exact Hj.
        -- rewrite Ec. eexists. split; [reflexivity|]. split; [|split].
           ++ intros i Hi. destruct (h + i <? c) eqn:E; rewrite B1 by lia; reflexivity.
           ++ intros i Hi.
              assert (h + (c - h + t + i) <? c = false) as -> by lia.
              replace (h + (c - h + t + i) - c) with (t + i) by lia.
              assert (h + (start + i) <? c = true) as -> by lia.
              rewrite A1 by lia. f_equal. lia.
           ++ intros j Hj. destruct (Nat.lt_ge_cases j t); [rewrite B1 by lia; exact Hj|].
              destruct (Nat.lt_ge_cases j h); [apply C1; [lia|exact Hj]|rewrite B1 by lia; exact Hj].
Qed.
