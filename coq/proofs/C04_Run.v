(** C04: the byte-queue specification, the per-operation theorem and its lift to all operation sequences. *)
From Coq Require Import String Arith Bool Lia ZArith List.
Import ListNotations.
From Coq Require Import ZifyBool ZifyNat.
Require Import Zrs.model.RingBuffer Zrs.proofs.C04_Basics Zrs.proofs.C04_Within Zrs.proofs.C04_Append Zrs.proofs.C04_Ops.

(** *** the specification: a plain byte queue *)
Inductive qstep : list Z -> op -> list Z -> Prop :=
| q_extend q d : qstep q (OExtend d) (q ++ d)
| q_fill q b n : qstep q (OFill b n) (q ++ repeat b n)
| q_reader_fail q n r1 r2 : qstep q (OReader n r1 r2) q
| q_reader_ok q n r1 r2 data : length data = n -> qstep q (OReader n r1 r2) (q ++ data)
| q_drop q n : qstep q (ODrop n) (skipn (Nat.min n (length q)) q)
| q_reserve q n : qstep q (OReserve n) q
| q_clear q : qstep q OClear []
| q_within q st n : st + n <= length q -> qstep q (OWithin st n) (q ++ firstn n (skipn st q)).

Inductive qrun : list Z -> list op -> list Z -> Prop :=
| qrun_nil q : qrun q [] q
| qrun_cons q o q1 ops q2 : qstep q o q1 -> qrun q1 ops q2 -> qrun q (o :: ops) q2.

(** contract of the reader oracle: a successful [read_exact] filled the slice it was given *)
Definition op_contract (o : op) : Prop :=
  match o with
  | OReader n r1 r2 => (forall d, r1 = Some d -> n <= length d) /\ (forall d, r2 = Some d -> n <= length d)
  | _ => True
  end.

(** documented preconditions (outside them the Rust code panics; it still never faults) *)
Definition op_pre (s : rb) (o : op) : Prop :=
  match o with
  | ODrop _ => 0 < cap s
  | OWithin st n => st + n <= len s /\ (0 < cap s \/ 0 < n)
  | _ => True
  end.

Lemma within_cap0_panics k s : Inv s -> cap s = 0 -> 1 <= k ->
  exists e, extend_from_within_unchecked k s 0 0 = Panic e.
Proof.
  intros (HZ & _ & _) Z0 Hk. destruct (HZ Z0) as [h0 t0]. destruct s as [c h t m]. cbn [cap head tail] in *. subst c h t.
  unfold extend_from_within_unchecked. cbn [cap head tail mem Nat.ltb Nat.leb Nat.add Nat.sub Nat.min].
  destruct (copy_over_nil k m 0 0 0 0 0 0 Hk eq_refl eq_refl (le_n 0) (le_n 0)) as (m1 & E1 & _).
  rewrite E1. unfold advance_tail. cbn [cap Nat.eqb]. eauto.
Qed.

Theorem step_ok k s o : 1 <= k -> Inv s -> op_contract o ->
  (exists s', step k s o = Done s' /\ Inv s' /\ qstep (abs s) o (abs s')) \/
  (exists e, step k s o = Panic e /\ ~ op_pre s o).
Proof.
  intros Hk HI HC. destruct o as [d|b n|n r1 r2|n|n| |st n]; cbn [step].
  - left. destruct (extend_ok s d HI) as (s' & E & I' & L' & A'). exists s'. rewrite A'. split; [assumption|]. split; [assumption|]. constructor.
  - left. destruct (fill_ok s b n HI) as (s' & E & I' & L' & A'). exists s'. rewrite A'. split; [assumption|]. split; [assumption|]. constructor.
  - left. destruct HC as [R1 R2]. destruct (reader_ok s n r1 r2 HI R1 R2) as (s' & ok & E & I' & F & T).
    exists s'. rewrite E. cbn [bind fst]. split; [reflexivity|]. split; [exact I'|].
    destruct ok.
    + destruct (T eq_refl) as (data & Ld & A' & _). rewrite A'. apply q_reader_ok. exact Ld.
    + destruct (F eq_refl) as [A' _]. rewrite A'. apply q_reader_fail.
  - destruct (Nat.eq_dec (cap s) 0) as [Z0|NZ].
    + right. unfold drop_first_n. rewrite Z0. cbn [Nat.eqb]. eexists. split; [reflexivity|]. cbn [op_pre]. lia.
    + left. destruct (drop_ok s n HI ltac:(lia)) as (s' & E & I' & L' & A'). exists s'. rewrite A'.
      split; [exact E|]. split; [exact I'|]. rewrite <- (abs_length s). constructor.
  - left. destruct (reserve_ok s n HI) as (s' & E & I' & A' & _). exists s'. rewrite A'. split; [assumption|]. split; [assumption|]. constructor.
  - left. destruct (clear_ok s HI) as (I' & A' & _). exists (clear s). rewrite A'. split; [reflexivity|]. split; [assumption|]. constructor.
  - unfold extend_from_within. destruct (len s <? st + n) eqn:E.
    + right. eexists. split; [reflexivity|]. cbn [op_pre]. lia.
    + destruct (reserve_ok s n HI) as (s1 & E1 & I1 & A1 & L1 & F1 & C1 & CM). rewrite E1. cbn [bind].
      destruct (Nat.eq_dec (cap s1) 0) as [Z0|NZ].
      * right. assert (n = 0) as -> by lia.
        assert (len s1 = 0) as L0.
        { destruct I1 as (HZ & _ & _). destruct (HZ Z0) as [h0 t0]. rewrite len_eq, h0, t0. reflexivity. }
        assert (st = 0) as -> by lia.
        destruct (within_cap0_panics k s1 I1 Z0 Hk) as [e Ee]. exists e. split; [exact Ee|]. cbn [op_pre]. lia.
      * left. destruct (within_refines k s1 st n I1 ltac:(lia) ltac:(lia) F1 Hk) as (s' & E' & I' & _ & _ & L' & A').
        exists s'. split; [exact E'|]. split; [exact I'|]. rewrite A', A1. constructor. rewrite abs_length. lia.
Qed.

Corollary step_no_fault k s o : 1 <= k -> Inv s -> op_contract o -> forall e, step k s o <> Fault e.
Proof.
  intros Hk HI HC e. destruct (step_ok k s o Hk HI HC) as [(s' & E & _)|(e' & E & _)]; rewrite E; discriminate.
Qed.

Corollary step_pre_done k s o : 1 <= k -> Inv s -> op_contract o -> op_pre s o ->
  exists s', step k s o = Done s' /\ Inv s' /\ qstep (abs s) o (abs s').
Proof.
  intros Hk HI HC HP. destruct (step_ok k s o Hk HI HC) as [H|(e & _ & N)]; [exact H|contradiction].
Qed.

(** *** every reachable state: induction over operation lists *)
Theorem run_ok k ops : 1 <= k -> Forall op_contract ops -> forall s, Inv s ->
  (forall e, run k s ops <> Fault e) /\
  (forall s', run k s ops = Done s' -> Inv s' /\ qrun (abs s) ops (abs s')).
Proof.
  intros Hk HC. induction HC as [|o ops Ho Hops IH]; intros s HI.
  - cbn [run]. split; [discriminate|]. intros s' E. inversion E. subst. split; [exact HI|constructor].
  - cbn [run]. destruct (step_ok k s o Hk HI Ho) as [(s1 & E1 & I1 & Q1)|(e & E & _)].
    + rewrite E1. cbn [bind]. destruct (IH s1 I1) as [NF D]. split; [exact NF|].
      intros s' E'. destruct (D s' E') as [I' Q']. split; [exact I'|]. econstructor; eassumption.
    + rewrite E. cbn [bind]. split; discriminate.
Qed.

Lemma new_inv : Inv new_rb.
Proof.
  unfold Inv, new_rb, live. cbn [cap head tail mem Nat.leb]. split; [auto|]. split; [lia|]. intros i Hi. lia.
Qed.

Lemma new_abs : abs new_rb = [].
Proof. reflexivity. Qed.
