(** C14: code tables, value <-> (code, extra bits) mappings. All definitions about the implementation come from
    [Generated] (Tie 1: regenerated from /repo on every run); reference values from [RefTables] (libzstd). *)
Require Import Zrs.lib.RsPrelude Zrs.lib.Sweep Zrs.lib.Bits Zrs.gen.RefTables Zrs.gen.Generated.
Open Scope Z_scope.

Definition res_eqb_ZZ (r : res (Z * Z)) (a b : Z) : bool :=
  match r with ROk (x, y) => (x =? a) && (y =? b) | _ => false end.

Lemma res_eqb_ZZ_spec r a b : res_eqb_ZZ r a b = true -> r = ROk (a, b).
Proof.
  destruct r as [[x y]| |]; cbn; try discriminate. intros H.
  apply andb_true_iff in H as [H1 H2]. apply Z.eqb_eq in H1, H2. subst. reflexivity.
Qed.

(** *** decoder tables equal the reference implementation's *)
Definition ll_table_check (c : Z) : bool := res_eqb_ZZ (lookup_ll_code c) (znth ref_LL_base c) (znth ref_LL_bits c).
Definition ml_table_check (c : Z) : bool := res_eqb_ZZ (lookup_ml_code c) (znth ref_ML_base c) (znth ref_ML_bits c).

Lemma ll_table_eq_ref c : 0 <= c <= 35 ->
  lookup_ll_code c = ROk (znth ref_LL_base c, znth ref_LL_bits c).
Proof.
  intros H. apply res_eqb_ZZ_spec. apply (sweep_spec ll_table_check 0 36); [vm_compute; reflexivity|lia].
Qed.

Lemma ml_table_eq_ref c : 0 <= c <= 52 ->
  lookup_ml_code c = ROk (znth ref_ML_base c, znth ref_ML_bits c).
Proof.
  intros H. apply res_eqb_ZZ_spec. apply (sweep_spec ml_table_check 0 53); [vm_compute; reflexivity|lia].
Qed.

Lemma ref_table_lengths :
  length ref_LL_base = 36%nat /\ length ref_LL_bits = 36%nat /\ length ref_ML_base = 53%nat /\
  length ref_ML_bits = 53%nat /\ length ref_OF_base = 32%nat /\ length ref_OF_bits = 32%nat.
Proof. repeat split; reflexivity. Qed.

Lemma max_codes : MAX_LITERAL_LENGTH_CODE = 35 /\ MAX_MATCH_LENGTH_CODE = 52 /\ MAX_OFFSET_CODE = 31.
Proof. repeat split; reflexivity. Qed.

(** codes above the maximum panic in the lookup (the sequence decoder must and does guard them) *)
Lemma ll_code_out_of_range_panics c : c < 0 \/ 35 < c -> is_panic (lookup_ll_code c) = true.
Proof.
  intros H. unfold lookup_ll_code.
  repeat match goal with |- context [if ?b then _ else _] => destruct b eqn:?; try lia end; reflexivity.
Qed.
Lemma ml_code_out_of_range_panics c : c < 0 \/ 52 < c -> is_panic (lookup_ml_code c) = true.
Proof.
  intros H. unfold lookup_ml_code.
  repeat match goal with |- context [if ?b then _ else _] => destruct b eqn:?; try lia end; reflexivity.
Qed.

(** *** encoder mapping and decoder table are mutual inverses over the whole range *)
Definition ll_fwd_check (v : Z) : bool :=
  match encode_literal_length v with
  | ROk (c, a, n) =>
      match lookup_ll_code c with
      | ROk (b, n') => (n =? n') && (0 <=? a) && (a <? 2 ^ n) && (b + a =? v) && (0 <=? c) && (c <=? 35)
      | _ => false
      end
  | _ => false
  end && encode_literal_length_safe v.

Definition ml_fwd_check (v : Z) : bool :=
  match encode_match_len v with
  | ROk (c, a, n) =>
      match lookup_ml_code c with
      | ROk (b, n') => (n =? n') && (0 <=? a) && (a <? 2 ^ n) && (b + a =? v) && (0 <=? c) && (c <=? 52)
      | _ => false
      end
  | _ => false
  end && encode_match_len_safe v.

Lemma ll_fwd_sweep : sweep ll_fwd_check 0 131072 = true.
Proof. vm_compute. reflexivity. Qed.
Lemma ml_fwd_sweep : sweep ml_fwd_check 3 131075 = true.
Proof. vm_compute. reflexivity. Qed.

Lemma ll_roundtrip v : 0 <= v <= 131071 ->
  exists c a n b, encode_literal_length v = ROk (c, a, n) /\ lookup_ll_code c = ROk (b, n) /\
                  0 <= c <= 35 /\ 0 <= a < 2 ^ n /\ b + a = v /\ encode_literal_length_safe v = true.
Proof.
  intros H. pose proof (sweep_spec _ _ _ ll_fwd_sweep v ltac:(lia)) as C. unfold ll_fwd_check in C.
  apply andb_true_iff in C as [C S].
  destruct (encode_literal_length v) as [[[c a] n]| |]; try discriminate.
  destruct (lookup_ll_code c) as [[b n']| |] eqn:L; try discriminate.
  repeat (apply andb_true_iff in C as [C ?]).
  exists c, a, n, b. assert (n = n') by lia. subst n'. repeat split; try lia; auto.
Qed.

Lemma ml_roundtrip v : 3 <= v <= 131074 ->
  exists c a n b, encode_match_len v = ROk (c, a, n) /\ lookup_ml_code c = ROk (b, n) /\
                  0 <= c <= 52 /\ 0 <= a < 2 ^ n /\ b + a = v /\ encode_match_len_safe v = true.
Proof.
  intros H. pose proof (sweep_spec _ _ _ ml_fwd_sweep v ltac:(lia)) as C. unfold ml_fwd_check in C.
  apply andb_true_iff in C as [C S].
  destruct (encode_match_len v) as [[[c a] n]| |]; try discriminate.
  destruct (lookup_ml_code c) as [[b n']| |] eqn:L; try discriminate.
  repeat (apply andb_true_iff in C as [C ?]).
  exists c, a, n, b. assert (n = n') by lia. subst n'. repeat split; try lia; auto.
Qed.

(** converse direction: every (code, extra) pair the decoder can see is what the encoder produces for its value *)
Definition res_eqb_ZZZ (r : res (Z * Z * Z)) (a b c : Z) : bool :=
  match r with ROk (x, y, z) => (x =? a) && (y =? b) && (z =? c) | _ => false end.
Lemma res_eqb_ZZZ_spec r a b c : res_eqb_ZZZ r a b c = true -> r = ROk (a, b, c).
Proof.
  destruct r as [[[x y] z]| |]; cbn; try discriminate. intros H.
  repeat (apply andb_true_iff in H as [H ?]). f_equal. f_equal; [f_equal|]; lia.
Qed.

Definition ll_bwd_check (c : Z) : bool :=
  match lookup_ll_code c with
  | ROk (b, n) => sweep (fun a => res_eqb_ZZZ (encode_literal_length (b + a)) c a n) 0 (2 ^ n)
  | _ => false
  end.
Definition ml_bwd_check (c : Z) : bool :=
  match lookup_ml_code c with
  | ROk (b, n) => sweep (fun a => res_eqb_ZZZ (encode_match_len (b + a)) c a n) 0 (2 ^ n)
  | _ => false
  end.
Lemma ll_bwd_sweep : sweep ll_bwd_check 0 36 = true.
Proof. vm_compute. reflexivity. Qed.
Lemma ml_bwd_sweep : sweep ml_bwd_check 0 53 = true.
Proof. vm_compute. reflexivity. Qed.

Lemma ll_roundtrip_conv c b n a : 0 <= c <= 35 -> lookup_ll_code c = ROk (b, n) -> 0 <= a < 2 ^ n ->
  encode_literal_length (b + a) = ROk (c, a, n).
Proof.
  intros Hc L Ha. pose proof (sweep_spec _ _ _ ll_bwd_sweep c ltac:(lia)) as C. unfold ll_bwd_check in C.
  rewrite L in C. apply res_eqb_ZZZ_spec. exact (sweep_spec _ _ _ C a Ha).
Qed.
Lemma ml_roundtrip_conv c b n a : 0 <= c <= 52 -> lookup_ml_code c = ROk (b, n) -> 0 <= a < 2 ^ n ->
  encode_match_len (b + a) = ROk (c, a, n).
Proof.
  intros Hc L Ha. pose proof (sweep_spec _ _ _ ml_bwd_sweep c ltac:(lia)) as C. unfold ml_bwd_check in C.
  rewrite L in C. apply res_eqb_ZZZ_spec. exact (sweep_spec _ _ _ C a Ha).
Qed.

(** *** offsets: symbolic over the whole u32 range (no sweep) *)
Lemma encode_offset_spec v : 1 <= v < 2 ^ 32 ->
  let '(c, a, n) := encode_offset v in
  c = n /\ 0 <= c <= 31 /\ 0 <= a < 2 ^ c /\ 2 ^ c + a = v /\ encode_offset_safe v = true.
Proof.
  intros H. unfold encode_offset, encode_offset_safe.
  pose proof (Z.log2_spec v ltac:(lia)) as [L1 L2].
  pose proof (Z.log2_nonneg v) as L0.
  assert (Z.log2 v < 32) as L3 by (apply Z.log2_lt_pow2; lia).
  assert (0 < 2 ^ Z.log2 v) by (apply Z.pow_pos_nonneg; lia).
  assert (2 ^ Z.log2 v <= 2 ^ 31) by (apply Z.pow_le_mono_r; lia).
  rewrite Z.mul_1_l.
  replace (4294967296) with (2 ^ 32) by reflexivity.
  rewrite (Z.mod_small (2 ^ Z.log2 v)) by (change (2 ^ 32) with (2 * 2 ^ 31); lia).
  rewrite land_ones_mod by lia.
  rewrite (Z.mod_small (Z.log2 v) 256) by lia.
  rewrite Z.pow_succ_r in L2 by lia.
  assert (v mod 2 ^ Z.log2 v = v - 2 ^ Z.log2 v) as E.
  { symmetry. apply Z.mod_unique_pos with 1; lia. }
  rewrite E.
  repeat split; try lia.
  unfold in_u.
  repeat match goal with |- context [?a <? ?b] => destruct (Z.ltb_spec a b); try lia end.
  repeat match goal with |- context [?a <=? ?b] => destruct (Z.leb_spec a b); try lia end.
  reflexivity.
Qed.

Lemma encode_offset_conv c a : 0 <= c <= 31 -> 0 <= a < 2 ^ c -> encode_offset (2 ^ c + a) = (c, a, c).
Proof.
  intros Hc Ha.
  assert (0 < 2 ^ c) by (apply Z.pow_pos_nonneg; lia).
  assert (2 ^ c <= 2 ^ 31) by (apply Z.pow_le_mono_r; lia).
  assert (Z.log2 (2 ^ c + a) = c) as L.
  { apply Z.log2_unique; [lia|]. rewrite Z.pow_succ_r by lia. lia. }
  unfold encode_offset. rewrite L, Z.mul_1_l.
  replace (4294967296) with (2 ^ 32) by reflexivity.
  rewrite (Z.mod_small (2 ^ c)) by (change (2 ^ 32) with (2 * 2 ^ 31); lia).
  rewrite land_ones_mod by lia. rewrite (Z.mod_small c 256) by lia.
  f_equal. f_equal. symmetry. apply Z.mod_unique_pos with 1; lia.
Qed.

(** reference (libzstd) offset tables: base = 2^c - 3 for the non-repeat codes, bits = c *)
Lemma of_table_ref c : 2 <= c <= 31 -> znth ref_OF_base c = 2 ^ c - 3 /\ znth ref_OF_bits c = c.
Proof.
  intros H.
  pose proof (sweep_spec (fun c => (znth ref_OF_base c =? 2 ^ c - 3) && (znth ref_OF_bits c =? c)) 2 32
                ltac:(vm_compute; reflexivity) c ltac:(lia)) as C.
  apply andb_true_iff in C. lia.
Qed.
