(** C12: FSE decoding tables.  The predefined tables equal the reference implementation's published tables; the
    per-symbol state ranges the decoder assigns partition the state space for every accuracy log and probability; the
    spreading step visits every state exactly once.  (Finite domains: complete sweeps by [vm_compute], lifted.) *)
Require Import Zrs.lib.RsPrelude Zrs.lib.Sweep Zrs.gen.RefTables Zrs.gen.Generated Zrs.model.BitIO Zrs.model.FseDec.
Open Scope Z_scope.

(** *** the three predefined tables *)
Definition dtable (max_symbol acc_log : Z) (dist : list Z) : list fse_entry :=
  match fse_build_from_probabilities (fse_new max_symbol) acc_log dist with ROk t => t_decode t | _ => [] end.

(** a reference row is (baseline, additional bits, nbBits, base value); the symbol is identified by (base, bits) *)
Fixpoint rows_agree (es : list fse_entry) (rows : list (Z * Z * Z * Z)) (sym_base sym_bits : list Z) : bool :=
  match es, rows with
  | [], [] => true
  | e :: es', (bl, add, nb, bv) :: rows' =>
      (e_base e =? bl) && (e_bits e =? nb) && (znth sym_base (e_sym e) =? bv) && (znth sym_bits (e_sym e) =? add)
      && rows_agree es' rows' sym_base sym_bits
  | _, _ => false
  end.

Lemma ll_predefined_eq_ref :
  rows_agree (dtable MAX_LITERAL_LENGTH_CODE LL_DEFAULT_ACC_LOG LITERALS_LENGTH_DEFAULT_DISTRIBUTION)
             ref_LL_defaultDTable ref_LL_base ref_LL_bits = true.
Proof. vm_compute. reflexivity. Qed.
Lemma ml_predefined_eq_ref :
  rows_agree (dtable MAX_MATCH_LENGTH_CODE ML_DEFAULT_ACC_LOG MATCH_LENGTH_DEFAULT_DISTRIBUTION)
             ref_ML_defaultDTable ref_ML_base ref_ML_bits = true.
Proof. vm_compute. reflexivity. Qed.
(** offsets: libzstd's base is the value minus 3 for the non-repeat codes; its table identifies the code by the number
    of additional bits, which equals the code *)
Fixpoint of_rows_agree (es : list fse_entry) (rows : list (Z * Z * Z * Z)) : bool :=
  match es, rows with
  | [], [] => true
  | e :: es', (bl, add, nb, bv) :: rows' =>
      (e_base e =? bl) && (e_bits e =? nb) && (e_sym e =? add) && (znth ref_OF_base (e_sym e) =? bv) && of_rows_agree es' rows'
  | _, _ => false
  end.
Lemma of_predefined_eq_ref :
  of_rows_agree (dtable MAX_OFFSET_CODE OF_DEFAULT_ACC_LOG OFFSET_DEFAULT_DISTRIBUTION) ref_OF_defaultDTable = true.
Proof. vm_compute. reflexivity. Qed.

Lemma predefined_sizes :
  length (dtable MAX_LITERAL_LENGTH_CODE LL_DEFAULT_ACC_LOG LITERALS_LENGTH_DEFAULT_DISTRIBUTION) = 64%nat /\
  length (dtable MAX_MATCH_LENGTH_CODE ML_DEFAULT_ACC_LOG MATCH_LENGTH_DEFAULT_DISTRIBUTION) = 64%nat /\
  length (dtable MAX_OFFSET_CODE OF_DEFAULT_ACC_LOG OFFSET_DEFAULT_DISTRIBUTION) = 32%nat.
Proof. repeat split; vm_compute; reflexivity. Qed.

(** the distributions on both sides of the crate equal the reference implementation's *)
Lemma distributions_eq_ref :
  LITERALS_LENGTH_DEFAULT_DISTRIBUTION = ref_LL_defaultNorm /\ MATCH_LENGTH_DEFAULT_DISTRIBUTION = ref_ML_defaultNorm /\
  OFFSET_DEFAULT_DISTRIBUTION = ref_OF_defaultNorm /\
  LL_DIST = ref_LL_defaultNorm /\ ML_DIST = ref_ML_defaultNorm /\ OF_DIST = ref_OF_defaultNorm /\
  LL_DEFAULT_ACC_LOG = 6 /\ ML_DEFAULT_ACC_LOG = 6 /\ OF_DEFAULT_ACC_LOG = 5 /\
  LL_MAX_LOG = 9 /\ ML_MAX_LOG = 9 /\ OF_MAX_LOG = 8.
Proof. repeat split; reflexivity. Qed.

(** *** state ranges of one symbol: for accuracy log al and probability p (1 <= p <= 2^al) the p states, taken in
    increasing order (state_number 0 .. p-1), get ranges [baseline, baseline + 2^nbits) that tile [0, 2^al) exactly:
    first the single-width ones from 0, then the double-width ones *)
Fixpoint ranges (size p : Z) (k : Z) (n : nat) : list (Z * Z) :=
  match n with O => [] | S n' => calc_baseline_and_numbits size p k :: ranges size p (k + 1) n' end.

(** walk ranges in the order single-width (k >= double) then double-width, checking contiguity *)
Fixpoint tile_from (start : Z) (rs : list (Z * Z)) : option Z :=
  match rs with
  | [] => Some start
  | (bl, nb) :: t => if bl =? start then tile_from (start + 2 ^ nb) t else None
  end.

Definition partition_check (al p : Z) : bool :=
  let size := 2 ^ al in
  let rs := ranges size p 0 (Z.to_nat p) in
  let slices := if 2 ^ (highest_bit_set p - 1) =? p then p else 2 ^ highest_bit_set p in
  let double := slices - p in
  let reordered := skipn (Z.to_nat double) rs ++ firstn (Z.to_nat double) rs in
  forallb (fun r => (0 <=? snd r) && (snd r <=? al) && (0 <=? fst r) && (fst r + 2 ^ snd r <=? size)) rs &&
  match tile_from 0 reordered with Some e => e =? size | None => false end.

Definition partition_check_al (al : Z) : bool := sweep (partition_check al) 1 (2 ^ al + 1).

Lemma partition_sweep : sweep partition_check_al 5 10 = true.
Proof. vm_compute. reflexivity. Qed.

Theorem state_ranges_partition al p : 5 <= al <= 9 -> 1 <= p <= 2 ^ al -> partition_check al p = true.
Proof.
  intros Ha Hp. pose proof (sweep_spec _ _ _ partition_sweep al ltac:(lia)) as C. unfold partition_check_al in C.
  apply (sweep_spec _ _ _ C p). lia.
Qed.

(** every state's range stays inside the table: what makes [decode[new_state]] in bounds *)
Corollary state_range_in_table al p k : 5 <= al <= 9 -> 1 <= p <= 2 ^ al -> 0 <= k < p ->
  let '(bl, nb) := calc_baseline_and_numbits (2 ^ al) p k in 0 <= nb <= al /\ 0 <= bl /\ bl + 2 ^ nb <= 2 ^ al.
Proof.
  intros Ha Hp Hk. pose proof (state_ranges_partition al p Ha Hp) as C. unfold partition_check in C.
  apply andb_true_iff in C as [C _]. rewrite forallb_forall in C.
  assert (In (calc_baseline_and_numbits (2 ^ al) p k) (ranges (2 ^ al) p 0 (Z.to_nat p))) as HIn.
  { assert (forall n start, start <= k < start + Z.of_nat n -> In (calc_baseline_and_numbits (2 ^ al) p k) (ranges (2 ^ al) p start n)) as G.
    { induction n as [|n IH]; intros start Hs; [lia|]. cbn [ranges].
      destruct (Z.eq_dec k start) as [->|Hne]; [left; reflexivity|right; apply IH; lia]. }
    apply G. lia. }
  specialize (C _ HIn). destruct (calc_baseline_and_numbits (2 ^ al) p k) as [bl nb]. cbn [fst snd] in C. lia.
Qed.

(** *** the spreading step is a generator: starting from 0 it visits every state exactly once before returning *)
Fixpoint orbit (n : nat) (pos size : Z) : list Z :=
  match n with O => [] | S k => pos :: orbit k (next_position pos size) size end.
Fixpoint mem_z (x : Z) (l : list Z) : bool := match l with [] => false | y :: t => (x =? y) || mem_z x t end.
Fixpoint nodup_z (l : list Z) : bool := match l with [] => true | x :: t => negb (mem_z x t) && nodup_z t end.

Definition orbit_check (al : Z) : bool :=
  let size := 2 ^ al in
  let o := orbit (Z.to_nat size) 0 size in
  nodup_z o && forallb (fun x => (0 <=? x) && (x <? size)) o && (next_position (last o 0) size =? 0).

Lemma orbit_sweep : sweep orbit_check 5 10 = true.
Proof. vm_compute. reflexivity. Qed.

Theorem spreading_step_is_a_permutation al : 5 <= al <= 9 -> orbit_check al = true.
Proof. intros H. apply (sweep_spec _ _ _ orbit_sweep al). lia. Qed.
