(** C02 / C16: a compressed block = literals section (any encoding the decoder reads back) + sequences part.  The
    raw-literals block of C02_Block.v and the Huffman-literals block are both instances. *)
Require Import Zrs.lib.RsPrelude Zrs.gen.Generated Zrs.model.Headers Zrs.model.BitIO Zrs.model.FseDec Zrs.model.HufDec Zrs.model.BlockDec.
Require Import Zrs.model.BitStream Zrs.model.SeqEnc Zrs.model.FseEnc Zrs.model.SeqSection Zrs.model.BlockEnc.
Require Import Zrs.proofs.C12_Stream Zrs.proofs.C12_SeqStream Zrs.proofs.C12_Section Zrs.proofs.C02_Block.
Open Scope Z_scope.

Section Gen.
  Variables (hdr payload : list Z) (ty regen : Z) (comp streams : option Z).
  Variable sc : scratch.
  Variables (ht' : huf_table) (lits : list Z).
  Hypothesis Hhdr : forall rest, lit_header_parse (hdr ++ rest) = ROk (zlen hdr, ty, regen, comp, streams).
  Hypothesis Hupper : match comp with Some x => x | None => if ty =? 1 then 1 else regen end = zlen payload.
  Hypothesis Hregen : regen = zlen lits /\ regen <= MAX_BLOCK_SIZE.
  Hypothesis Hlits : decode_literals {| ls_type := ty; ls_regen := regen; ls_comp := comp; ls_streams := streams |} (sc_huf sc) payload
                     = ROk (ht', lits, zlen payload).

  Theorem block_decodes dl do dm seqs sp :
    seq_part dl do dm seqs = ROk sp -> Z.of_nat (length seqs) <= 98047 ->
    (seqs <> [] -> section_hyps_b dl do dm seqs = true) ->
    t_max_symbol (fs_ll (sc_fse sc)) = MAX_LITERAL_LENGTH_CODE -> t_max_symbol (fs_of (sc_fse sc)) = MAX_OFFSET_CODE ->
    t_max_symbol (fs_ml (sc_fse sc)) = MAX_MATCH_LENGTH_CODE ->
    decompress_block (zlen (hdr ++ payload ++ sp)) sc (hdr ++ payload ++ sp) =
      match seqs with
      | [] => ROk {| sc_huf := ht'; sc_fse := sc_fse sc; sc_buf := db_push (sc_buf sc) lits; sc_hist := sc_hist sc |}
      | _ =>
          match build_table MAX_LITERAL_LENGTH_CODE dl, build_table MAX_MATCH_LENGTH_CODE dm, build_table MAX_OFFSET_CODE do with
          | ROk Dll, ROk Dml, ROk Dof =>
              let* (buf, hist) := execute_sequences seqs lits (sc_buf sc) (sc_hist sc) in
              ROk {| sc_huf := ht'; sc_fse := C12_SeqStream.sc Dll Dml Dof; sc_buf := buf; sc_hist := hist |}
          | _, _, _ => RErr "tables"
          end
      end.
  Proof.
    intros Hsp Hs Hh M1 M2 M3. destruct Hregen as (Hr & Hmax).
    unfold decompress_block. rewrite Hhdr. rewrite drop_app.
    destruct (Z.ltb_spec MAX_BLOCK_SIZE regen) as [H|_]; [lia|].
    rewrite Hupper.
    destruct (Z.ltb_spec (zlen (payload ++ sp)) (zlen payload)) as [H|_]; [rewrite zlen_app in H; unfold zlen in H; lia|].
    rewrite take_app, Hlits. cbn [rbind].
    rewrite Hr, Z.eqb_refl, Z.eqb_refl. cbn [negb]. rewrite drop_app.
    unfold seq_part in Hsp. destruct seqs as [|q qs].
    - assert (sp = [0]) by congruence. subst sp.
      unfold sequences_header_parse. cbv zeta. cbn [length Nat.eqb]. unfold znth. change (Z.to_nat 0) with 0%nat. cbn [nth].
      change (0 =? 0) with true. cbv iota. change (drop_z (0 + 1) [0]) with (@nil Z).
      match goal with |- context [negb (?a + ?b + ?c + ?d =? ?e)] => replace (a + b + c + d =? e) with true end.
      2:{ symmetry. apply Z.eqb_eq. unfold zlen. rewrite !app_length. cbn [length]. lia. }
      cbn [negb]. change (0 =? 0) with true. cbn [negb]. reflexivity.
    - remember (q :: qs) as sq eqn:Es.
      assert (Hne : sq <> []) by (rewrite Es; discriminate). specialize (Hh Hne).
      assert (Hn : 1 <= Z.of_nat (length sq) <= 98047) by (rewrite Es in *; cbn [length] in *; lia).
      rewrite (encode_seqnum_spec _ Hn) in Hsp. cbn [rbind] in Hsp.
      destruct (section_bytes dl do dm sq) as [sec|e|e] eqn:Esec; cbn [rbind] in Hsp; try discriminate.
      assert (Esp : sp = spec_seqnum_bytes (Z.of_nat (length sq)) ++ MODES_ALL_ENCODED :: sec) by congruence. subst sp. clear Hsp.
      destruct (section_bytes_roundtrip dl do dm sq sec (sc_fse sc) Hh Esec M1 M2 M3) as (Dll & Dml & Dof & B1 & B2 & B3 & Hdec).
      rewrite B1, B2, B3.
      rewrite seq_header_after_seqnum by exact Hn.
      replace (drop_z (zlen (spec_seqnum_bytes (Z.of_nat (length sq))) + 1) (spec_seqnum_bytes (Z.of_nat (length sq)) ++ MODES_ALL_ENCODED :: sec)) with sec.
      2:{ replace (spec_seqnum_bytes (Z.of_nat (length sq)) ++ MODES_ALL_ENCODED :: sec)
            with ((spec_seqnum_bytes (Z.of_nat (length sq)) ++ [MODES_ALL_ENCODED]) ++ sec) by (rewrite <- app_assoc; reflexivity).
          replace (zlen (spec_seqnum_bytes (Z.of_nat (length sq))) + 1) with (zlen (spec_seqnum_bytes (Z.of_nat (length sq)) ++ [MODES_ALL_ENCODED]))
            by (rewrite zlen_app; reflexivity).
          rewrite drop_app. reflexivity. }
      match goal with |- context [negb (?a + ?b + ?c + ?d =? ?e)] => replace (a + b + c + d =? e) with true end.
      2:{ symmetry. apply Z.eqb_eq. unfold zlen. rewrite !app_length. cbn [length]. rewrite ?app_length. cbn [length]. lia. }
      cbn [negb].
      destruct (Z.eqb_spec (Z.of_nat (length sq)) 0) as [H|_]; [lia|]. cbn [negb].
      rewrite Hdec. cbn [rbind]. reflexivity.
  Qed.
End Gen.
