(** C16: the any-matcher frame theorem of proofs/C16_AnyMatcher.v with the remembered Huffman table kept abstract, then
    instantiated with the modelled literals part (proofs/C02_LitPart.v, proofs/C02_Closed.v). *)
Require Import Zrs.lib.RsPrelude Zrs.gen.Generated Zrs.model.Headers Zrs.model.BitIO Zrs.model.FseDec Zrs.model.HufDec Zrs.model.BlockDec
  Zrs.model.FrameDec Zrs.model.FrameEnc Zrs.model.Matcher.
Require Import Zrs.model.SeqEnc Zrs.model.FseEnc Zrs.model.SeqSection Zrs.model.BlockEnc Zrs.model.LitEnc Zrs.model.SeqNorm.
Require Import Zrs.proofs.C06_Drain Zrs.proofs.C09_Lz Zrs.proofs.C17_Matcher Zrs.proofs.C12_SeqStream Zrs.proofs.C12_Desc Zrs.proofs.C12_Section
  Zrs.proofs.C13_Stream Zrs.proofs.C02_Block Zrs.proofs.C02_Roundtrip.
Require Import Zrs.proofs.C17_Shape Zrs.proofs.C02_Glue Zrs.proofs.C02_FastBlock.
Require Import Zrs.proofs.C02_BlockGen Zrs.proofs.C13_LitSection Zrs.proofs.C02_HufBlock Zrs.proofs.C02_FastGen Zrs.proofs.C02_Fastest Zrs.proofs.C02_Concrete Zrs.proofs.C02_O1.
Open Scope Z_scope.
Require Import Zrs.proofs.C16_AnyMatcher.

Section AnyMatcherClosed.
  Variable M : Type.
  Variable mrun : M -> list Z -> bool -> res (M * option (list mseq)).   (* commit a block, then start_matching / skip_matching *)
  Variable mreset : M -> M.
  Variable MI : M -> Prop.
  Variable mret : M -> list Z.          (* the bytes the matcher may still refer to *)
  Variable mwin : M -> nat.             (* its advertised window *)
  Hypothesis contract : forall m data skip, MI m -> (length data <= mwin m)%nat ->
    exists m' out, mrun m data skip = ROk (m', out) /\ MI m' /\ mwin m' = mwin m /\
      exists dropped H, mret m = dropped ++ H /\ mret m' = H ++ data /\
        if skip then out = None
        else exists seqs, out = Some seqs /\ apply_seqs H seqs = Some (H ++ data) /\ Forall (match_ok (mwin m)) seqs /\ block_shape seqs.
  Hypothesis reset_contract : forall m, MI m -> MI (mreset m) /\ mwin (mreset m) = mwin m /\ mret (mreset m) = [].

  Variable T : Type.
  Variable tnone : T.
  Variable trel : T -> huf_table -> Prop.
  Hypothesis trel_none : forall o h, trel o h -> trel tnone h.
  Hypothesis trel_init : trel tnone huf_new.
  Variable litenc : T -> list Z -> list Z * list Z * T.
  Record ucst2 := { u2_m : M; u2_ht : T }.
  Hypothesis O2 : forall o lits h, trel o h -> zlen lits <= MAX_BLOCK_SIZE ->
    let '(hdr, payload, o') := litenc o lits in
    exists ht', lit_ok h lits hdr payload ht' /\ trel o' ht'.

  Definition ublock2 (cs : ucst2) (blk : list Z) : list Z * ucst2 :=
    match mrun (u2_m cs) blk false with
    | ROk (m', Some ms) =>
        let lits := mseqs_lits ms in
        let seqs := mseqs_seqs ms in
        let '(hdr, payload, o') := litenc (u2_ht cs) lits in
        let '(dl, do, dm) := norm_model seqs in
        match seq_part dl do dm seqs with
        | ROk sp => (hdr ++ payload ++ sp, {| u2_m := m'; u2_ht := o' |})
        | _ => ([], {| u2_m := m'; u2_ht := o' |})
        end
    | _ => ([], cs)
    end.
  Definition uskip2 (cs : ucst2) (blk : list Z) : ucst2 :=
    match mrun (u2_m cs) blk true with
    | ROk (m', _) => {| u2_m := m'; u2_ht := u2_ht cs |}
    | _ => cs
    end.
  Definition ufallback2 (cs : ucst2) : ucst2 := {| u2_m := u2_m cs; u2_ht := tnone |}.
  Definition ureset2 (cs : ucst2) : ucst2 := {| u2_m := mreset (u2_m cs); u2_ht := tnone |}.

  Definition URel2 (cs : ucst2) (sc : scratch) : Prop :=
    MI (u2_m cs) /\ 131072 <= Z.of_nat (mwin (u2_m cs)) < 2 ^ 31 /\
    db_wf (sc_buf sc) /\ (exists pre, db_rev (sc_buf sc) = rev (mret (u2_m cs)) ++ pre) /\
    hist3 (sc_hist sc) /\ alphabets (sc_fse sc) /\ trel (u2_ht cs) (sc_huf sc).
  Definition UInit2 (cs : ucst2) : Prop := MI (u2_m cs) /\ 131072 <= Z.of_nat (mwin (u2_m cs)) < 2 ^ 31.

  Lemma ufits2 cs sc (blk : list Z) : URel2 cs sc -> Z.of_nat (length blk) <= 131072 -> (length blk <= mwin (u2_m cs))%nat.
  Proof. intros (_ & Hw & _) H. lia. Qed.

  Lemma upush_raw_rel2 cs sc blk m' (ht : T) dropped H :
    URel2 cs sc -> MI m' -> mwin m' = mwin (u2_m cs) ->
    mret (u2_m cs) = dropped ++ H -> mret m' = H ++ blk -> trel ht (sc_huf sc) ->
    URel2 {| u2_m := m'; u2_ht := ht |} (sc_push_raw sc blk).
  Proof.
    intros (HI & Hw & W & (pre & R) & H3 & Al & Ht) HI' Hmw R1 R2 Ht'.
    unfold URel2. cbn [u2_m u2_ht]. unfold sc_push_raw. cbn [sc_buf sc_hist sc_fse sc_huf].
    split; [exact HI'|]. split; [rewrite Hmw; exact Hw|]. split.
    { unfold db_wf, db_append_raw in *. cbn [db_len db_rev]. rewrite rev_append_rev, app_length, rev_length, W. lia. }
    split.
    { exists (rev dropped ++ pre). unfold db_append_raw. cbn [db_rev]. rewrite rev_append_rev, R, R1, R2, !rev_app_distr, <- !app_assoc. reflexivity. }
    split; [exact H3|]. split; [exact Al|exact Ht'].
  Qed.

  Lemma UH_skip2 : forall cs sc blk, URel2 cs sc -> blk <> [] -> Z.of_nat (length blk) <= 131072 ->
    all_same blk = true -> URel2 (uskip2 cs blk) (sc_push_raw sc blk).
  Proof.
    intros cs sc blk HR _ Hsz _. pose proof HR as (HI & Hw & W & (pre & R) & H3 & Al & Ht).
    destruct (contract (u2_m cs) blk true HI (ufits2 cs sc blk HR Hsz)) as (m' & out & E & HI' & Hmw & dr & H & R1 & R2 & _).
    unfold uskip2. rewrite E. eapply upush_raw_rel2; eassumption.
  Qed.

  Lemma ublock_spec2 cs sc blk : URel2 cs sc -> Z.of_nat (length blk) <= 131072 ->
    exists m' ms hdr payload o' dl do dm sp dr H,
      mrun (u2_m cs) blk false = ROk (m', Some ms) /\
      litenc (u2_ht cs) (mseqs_lits ms) = (hdr, payload, o') /\ norm_model (mseqs_seqs ms) = (dl, do, dm) /\
      seq_part dl do dm (mseqs_seqs ms) = ROk sp /\
      ublock2 cs blk = (hdr ++ payload ++ sp, {| u2_m := m'; u2_ht := o' |}) /\
      MI m' /\ mwin m' = mwin (u2_m cs) /\ mret (u2_m cs) = dr ++ H /\ mret m' = H ++ blk /\
      (mseqs_seqs ms <> [] -> section_hyps_b dl do dm (mseqs_seqs ms) = true) /\
      Z.of_nat (length (mseqs_seqs ms)) <= 98047 /\ zlen (mseqs_lits ms) <= MAX_BLOCK_SIZE /\
      apply_seqs H ms = Some (H ++ blk) /\ block_shape ms /\ Forall long_enough ms.
  Proof.
    intros HR Hsz. pose proof HR as (HI & Hw & W & (pre & R) & H3 & Al & Ht).
    destruct (contract (u2_m cs) blk false HI (ufits2 cs sc blk HR Hsz)) as (m' & out & E & HI' & Hmw & dr & H & R1 & R2 & ms & -> & A & B & Sh).
    pose proof (apply_seqs_length _ _ _ A) as Ltot. rewrite app_length in Ltot.
    assert (Hlong : Forall long_enough ms) by (eapply Forall_impl; [|exact B]; intros; eapply match_ok_long; eassumption).
    pose proof (mseqs_seqs_count _ Hlong) as Lseq. pose proof (mseqs_lits_length ms) as Llit.
    assert (Hcount : Z.of_nat (length (mseqs_seqs ms)) <= 98047) by lia.
    assert (Hrange : forallb seq_range_b (mseqs_seqs ms) = true) by (apply (user_seqs_in_range (mwin (u2_m cs))); [exact B|lia|lia]).
    destruct (litenc (u2_ht cs) (mseqs_lits ms)) as [[hdr payload] o'] eqn:El.
    destruct (norm_model (mseqs_seqs ms)) as [[dl do] dm] eqn:En.
    assert (Hh : mseqs_seqs ms <> [] -> section_hyps_b dl do dm (mseqs_seqs ms) = true).
    { intros Hne. pose proof (norm_model_meets_O1 (mseqs_seqs ms) Hne Hrange Hcount) as Ho. rewrite En in Ho. exact Ho. }
    destruct (seq_part_exists dl do dm (mseqs_seqs ms) Hcount Hh) as (sp & Esp).
    exists m', ms, hdr, payload, o', dl, do, dm, sp, dr, H.
    unfold ublock2. rewrite E, El, En, Esp. change MAX_BLOCK_SIZE with 131072. unfold zlen.
    split; [reflexivity|]. split; [reflexivity|]. split; [reflexivity|]. split; [reflexivity|]. split; [reflexivity|].
    split; [exact HI'|]. split; [exact Hmw|]. split; [exact R1|]. split; [exact R2|]. split; [exact Hh|]. split; [exact Hcount|].
    split; [lia|]. split; [exact A|]. split; [exact Sh|exact Hlong].
  Qed.

  Lemma UH_fallback2 : forall cs sc blk body cs', URel2 cs sc -> blk <> [] -> Z.of_nat (length blk) <= 131072 ->
    ublock2 cs blk = (body, cs') -> URel2 (ufallback2 cs') (sc_push_raw sc blk).
  Proof.
    intros cs sc blk body cs' HR _ Hsz Hc.
    destruct (ublock_spec2 cs sc blk HR Hsz) as (m' & ms & hdr & payload & o' & dl & do & dm & sp & dr & H & E & El & En & Esp & Ec & HI' & Hmw & R1 & R2 & _).
    rewrite Ec in Hc. injection Hc as _ <-. unfold ufallback2. cbn [u2_m u2_ht].
    pose proof HR as (_ & _ & _ & _ & _ & _ & Ht0). eapply upush_raw_rel2; try eassumption. eapply trel_none. exact Ht0.
  Qed.

  Lemma UH_block2 : forall cs sc blk body cs', URel2 cs sc -> blk <> [] -> Z.of_nat (length blk) <= 131072 ->
    ublock2 cs blk = (body, cs') -> all_same blk = false ->
    (length body < length blk)%nat -> Z.of_nat (length body) <= MAX_BLOCK_SIZE ->
    exists sc', decompress_block (Z.of_nat (length body)) sc body = ROk sc' /\
                sc_content sc' = sc_content sc ++ blk /\ URel2 cs' sc'.
  Proof.
    intros cs sc blk body cs' HR _ Hsz Hc _ _ _.
    destruct (ublock_spec2 cs sc blk HR Hsz) as (m' & ms & hdr & payload & o' & dl & do & dm & sp & dr & H & E & El & En & Esp & Ec & HI' & Hmw & R1 & R2 & Hh & Hcount & Hlit & A & (ts & tail & -> & Hts & Htail) & Hlong).
    rewrite Ec in Hc. injection Hc as <- <-.
    pose proof HR as (HI & Hw & W & (pre & R) & H3 & (M1 & M2 & M3) & Ht).
    pose proof (O2 (u2_ht cs) (mseqs_lits (ts ++ tail)) (sc_huf sc) Ht Hlit) as Ho. rewrite El in Ho.
    destruct Ho as (ht' & (ty & regen & comp & streams & L1 & L2 & L3 & L4) & Ho').
    rewrite R1, rev_app_distr, <- app_assoc in R.
    destruct (valid_parse_block hdr payload ty regen comp streams sc ht' (mseqs_lits (ts ++ tail)) L1 L2 L3 L4
                ts tail H blk dl do dm sp (rev dr ++ pre) eq_refl Hts Htail Hlong A ltac:(change MAX_BLOCK_SIZE with 131072; lia) Esp Hh M1 M2 M3 W R H3)
      as (sc' & Hdec & W' & R' & H3' & Hu & _ & _ & _ & N1 & N2 & N3).
    exists sc'. split; [exact Hdec|]. split.
    { unfold sc_content. rewrite R', R. rewrite !rev_app_distr, !rev_involutive, <- !app_assoc. reflexivity. }
    unfold URel2. cbn [u2_m u2_ht]. split; [exact HI'|]. split; [rewrite Hmw; exact Hw|]. split; [exact W'|].
    split; [exists (rev dr ++ pre); rewrite R2; exact R'|]. split; [exact H3'|]. split; [repeat split; assumption|].
    rewrite Hu. exact Ho'.
  Qed.

  Lemma UH_reset2 : forall cs w, UInit2 cs -> URel2 (ureset2 cs) (scratch_new w).
  Proof.
    intros cs w (HI & Hw). destruct (reset_contract (u2_m cs) HI) as (HI' & Hmw & Hr).
    unfold URel2, ureset2, scratch_new. cbn [u2_m u2_ht sc_buf sc_hist sc_fse sc_huf].
    split; [exact HI'|]. split; [rewrite Hmw; exact Hw|]. split; [reflexivity|].
    split; [exists []; rewrite Hr; reflexivity|]. split; [eexists _, _, _; reflexivity|].
    split; [repeat split|]. exact trel_init.
  Qed.

  (** level Fastest through ANY well-behaved matcher: every input, every fragmentation of the reads, every block size
      up to 128 KiB, every reuse history: the frame decodes completely to the input *)
  Theorem any_matcher_roundtrip2 slice wsize hash32 cs data script frame cs' r' :
    UInit2 cs -> 1 <= Z.of_nat slice <= 131072 -> 1 <= wsize <= 2 ^ 27 ->
    (forall h x, hash32 = Some h -> length (h x) = 4%nat) ->
    compress_frame (ucst2) ublock2 uskip2 ufallback2 ureset2 LFastest slice wsize hash32 cs
      {| rd_data := data; rd_script := script |} = ROk (frame, cs', r') ->
    exists d1 rest evs s1 d2 s2,
      fdec_reset fdec_new frame = ROk (d1, rest, evs) /\ fd_state d1 = Some s1 /\
      fdec_decode_blocks d1 rest SAll = ROk (d2, [], true) /\ fd_state d2 = Some s2 /\
      buf_content s2 = data /\
      fr_checksum s2 = match hash32 with Some h => Some (le_val (h data)) | None => None end.
  Proof.
    apply (fastest_roundtrip (ucst2) ublock2 uskip2 ufallback2 URel2 UH_block2 UH_skip2 UH_fallback2 ureset2 UInit2 UH_reset2).
  Qed.
End AnyMatcherClosed.

(** *** with the modelled literals part: no obligation left but the matcher's contract *)
Require Import Zrs.model.HufEnc Zrs.model.HufCounts Zrs.model.LitComp Zrs.proofs.C02_LitPart Zrs.proofs.C02_Closed.

Theorem any_matcher_roundtrip_closed (M : Type) (mrun : M -> list Z -> bool -> res (M * option (list mseq))) (mreset : M -> M)
    (MI : M -> Prop) (mret : M -> list Z) (mwin : M -> nat) :
  (forall m data skip, MI m -> (length data <= mwin m)%nat ->
     exists m' out, mrun m data skip = ROk (m', out) /\ MI m' /\ mwin m' = mwin m /\
       exists dropped H, mret m = dropped ++ H /\ mret m' = H ++ data /\
         if skip then out = None
         else exists seqs, out = Some seqs /\ apply_seqs H seqs = Some (H ++ data) /\ Forall (match_ok (mwin m)) seqs /\ block_shape seqs) ->
  (forall m, MI m -> MI (mreset m) /\ mwin (mreset m) = mwin m /\ mret (mreset m) = []) ->
  forall slice wsize hash32 cs data script frame cs' r',
  UInit2 M MI mwin _ cs -> 1 <= Z.of_nat slice <= 131072 -> 1 <= wsize <= 2 ^ 27 ->
  (forall h x, hash32 = Some h -> length (h x) = 4%nat) ->
  compress_frame (ucst2 M (option codes_t)) (ublock2 M mrun _ litenc_model) (uskip2 M mrun _) (ufallback2 M _ None) (ureset2 M mreset _ None) LFastest slice wsize hash32 cs
    {| rd_data := data; rd_script := script |} = ROk (frame, cs', r') ->
  exists d1 rest evs s1 d2 s2,
    fdec_reset fdec_new frame = ROk (d1, rest, evs) /\ fd_state d1 = Some s1 /\
    fdec_decode_blocks d1 rest SAll = ROk (d2, [], true) /\ fd_state d2 = Some s2 /\
    buf_content s2 = data /\
    fr_checksum s2 = match hash32 with Some h => Some (le_val (h data)) | None => None end.
Proof.
  intros Hc Hr. apply (any_matcher_roundtrip2 M mrun mreset MI mret mwin Hc Hr (option codes_t) None trel_model).
  - intros o h (A & B). split; [intros codes E; discriminate|exact B].
  - split; [intros codes E; discriminate|reflexivity].
  - exact litenc_model_meets_O2.
Qed.
