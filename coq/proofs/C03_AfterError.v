(** C03: continuing after an error with a decoder in ANY sound state.  A call that fails may leave the real decoder
    partly updated; whatever state that is, as long as it is sound (what the run observes on the real decoder after
    every call) no later call panics. *)
Require Import Zrs.lib.RsPrelude Zrs.model.FrameDec Zrs.proofs.C03_FrameTotal Zrs.proofs.C03_ApiTotal.

(** every call comes with the decoder it leaves behind in case it fails *)
Fixpoint api_run_any (d : fdec) (ops : list (api_op * fdec)) : res fdec :=
  match ops with
  | [] => ROk d
  | (op, after_error) :: t =>
      match api_step d op with
      | ROk d' => api_run_any d' t
      | RErr _ => api_run_any after_error t
      | RPanic e => RPanic e
      end
  end.

Theorem api_run_any_never_panics ops : forall d, dec_sound d -> Forall (fun oe => call_ok (fst oe) /\ dec_sound (snd oe)) ops ->
  match api_run_any d ops with ROk d' => dec_sound d' | RErr _ => True | RPanic _ => False end.
Proof.
  induction ops as [|[op de] t IH]; intros d Sd Ho; cbn [api_run_any]; [exact Sd|].
  inversion Ho as [|? ? (Hop & Hde) Ht]; subst. cbn [fst snd] in *. pose proof (api_step_sound d op Sd Hop) as ST.
  destruct (api_step d op) as [d'|e|e]; [apply IH; assumption|apply IH; assumption|contradiction].
Qed.
