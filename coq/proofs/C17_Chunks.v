(** C17: the chunked comparison of the source ([mismatch_chunks::<8>]) is the byte-wise common-prefix length the
    matcher model uses, for every chunk length N > 0 and all slices. *)
Require Import Zrs.lib.RsPrelude Zrs.model.Matcher Zrs.model.MatcherChunks.
Open Scope nat_scope.

Lemma zlist_eqb_eq : forall a b, zlist_eqb a b = true -> a = b.
Proof.
  induction a as [|x a IH]; intros [|y b] H; cbn in H; try discriminate; [reflexivity|].
  apply andb_true_iff in H. destruct H as [H1 H2]. apply Z.eqb_eq in H1. f_equal; [exact H1|apply IH; exact H2].
Qed.

Lemma common_prefix_chunk : forall N xs ys, N <= length xs -> N <= length ys -> firstn N xs = firstn N ys ->
  common_prefix xs ys = N + common_prefix (skipn N xs) (skipn N ys).
Proof.
  induction N as [|N IH]; intros xs ys Hx Hy E; [reflexivity|].
  destruct xs as [|x xs]; [cbn in Hx; lia|]. destruct ys as [|y ys]; [cbn in Hy; lia|].
  cbn [firstn] in E. assert (Exy : x = y) by congruence. assert (E' : firstn N xs = firstn N ys) by congruence.
  cbn [common_prefix skipn length] in *. subst y. rewrite Z.eqb_refl. rewrite (IH xs ys); [lia|lia|lia|exact E'].
Qed.

Lemma skipn_add : forall N k (xs : list Z), skipn (k + N) xs = skipn k (skipn N xs).
Proof.
  induction N as [|N IH]; intros k xs; [rewrite Nat.add_0_r; reflexivity|].
  rewrite Nat.add_succ_r. destruct xs as [|x xs]; [cbn [skipn]; destruct k; reflexivity|]. cbn [skipn]. apply IH.
Qed.

Lemma equal_chunks_spec : forall N fuel xs ys, 0 < N ->
  let off := equal_chunks N fuel xs ys * N in
  off + common_prefix (skipn off xs) (skipn off ys) = common_prefix xs ys.
Proof.
  intros N fuel. induction fuel as [|f IH]; intros xs ys HN; [reflexivity|].
  cbn [equal_chunks].
  destruct ((N <=? length xs) && (N <=? length ys) && zlist_eqb (firstn N xs) (firstn N ys)) eqn:C; [|reflexivity].
  apply andb_true_iff in C. destruct C as [C C3]. apply andb_true_iff in C. destruct C as [C1 C2].
  apply Nat.leb_le in C1. apply Nat.leb_le in C2. apply zlist_eqb_eq in C3.
  cbv zeta. cbv zeta in IH. specialize (IH (skipn N xs) (skipn N ys) HN).
  rewrite (common_prefix_chunk N xs ys C1 C2 C3).
  replace (S (equal_chunks N f (skipn N xs) (skipn N ys)) * N) with (equal_chunks N f (skipn N xs) (skipn N ys) * N + N) by lia.
  rewrite !skipn_add. rewrite <- IH. lia.
Qed.

Theorem mismatch_chunks_is_common_prefix : forall N xs ys, 0 < N -> mismatch_chunks N xs ys = common_prefix xs ys.
Proof. intros N xs ys HN. unfold mismatch_chunks. apply (equal_chunks_spec N (length xs) xs ys HN). Qed.

Theorem common_prefix_len_is_common_prefix : forall a b, common_prefix_len a b = common_prefix a b.
Proof. intros a b. apply mismatch_chunks_is_common_prefix. lia. Qed.

(** the count is the number of leading equal whole chunks (not cut short by the fuel): every counted chunk is equal,
    and the chunk after the last counted one is missing on one side or differs *)
Lemma equal_chunks_le : forall N fuel xs ys, 0 < N -> equal_chunks N fuel xs ys * N <= length xs.
Proof.
  intros N fuel. induction fuel as [|f IH]; intros xs ys HN; cbn [equal_chunks]; [lia|].
  destruct ((N <=? length xs) && (N <=? length ys) && zlist_eqb (firstn N xs) (firstn N ys)) eqn:C; [|lia].
  apply andb_true_iff in C. destruct C as [C _]. apply andb_true_iff in C. destruct C as [C1 _]. apply Nat.leb_le in C1.
  specialize (IH (skipn N xs) (skipn N ys) HN). rewrite skipn_length in IH. lia.
Qed.

Lemma fuel_enough : forall N fuel xs ys, 0 < N -> length xs <= fuel ->
  equal_chunks N fuel xs ys = equal_chunks N (S fuel) xs ys.
Proof.
  intros N fuel. induction fuel as [|f IH]; intros xs ys HN Hl.
  - cbn [equal_chunks]. destruct xs; [|cbn in Hl; lia]. cbn [length]. destruct N; [lia|]. reflexivity.
  - change (equal_chunks N (S (S f)) xs ys) with
      (if (N <=? length xs) && (N <=? length ys) && zlist_eqb (firstn N xs) (firstn N ys)
       then S (equal_chunks N (S f) (skipn N xs) (skipn N ys)) else O).
    change (equal_chunks N (S f) xs ys) with
      (if (N <=? length xs) && (N <=? length ys) && zlist_eqb (firstn N xs) (firstn N ys)
       then S (equal_chunks N f (skipn N xs) (skipn N ys)) else O).
    destruct ((N <=? length xs) && (N <=? length ys) && zlist_eqb (firstn N xs) (firstn N ys)) eqn:C; [|reflexivity].
    apply andb_true_iff in C. destruct C as [C _]. apply andb_true_iff in C. destruct C as [C1 _]. apply Nat.leb_le in C1.
    f_equal. apply IH; [exact HN|]. rewrite skipn_length. lia.
Qed.

Example chunks_non_vacuous :
  common_prefix_len [1;2;3;4;5;6;7;8;9;10;11;12;13;14;15;16;17;18;19]%Z [1;2;3;4;5;6;7;8;9;10;11;12;13;14;15;16;17;18;0;1]%Z = 18
  /\ equal_chunks 8 19 [1;2;3;4;5;6;7;8;9;10;11;12;13;14;15;16;17;18;19]%Z [1;2;3;4;5;6;7;8;9;10;11;12;13;14;15;16;17;18;0;1]%Z = 2.
Proof. vm_compute. split; reflexivity. Qed.
