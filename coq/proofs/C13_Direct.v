(** C13: the direct weight description (one header byte 127 + number of weights, then the weights as 4-bit fields, two per
    byte, the first in the high half; [HuffmanEncoder::write_table] for at most 16 weights, legal up to 128) is parsed
    by the decoder into exactly the weights that were written. *)
Require Import Zrs.lib.RsPrelude Zrs.model.BitIO Zrs.model.FseDec Zrs.model.HufDec Zrs.model.WeightEnc.
Open Scope Z_scope.


Lemma pack_length ws : Z.of_nat (length (pack_weights ws)) = (Z.of_nat (length ws) + 1) / 2.
Proof.
  assert (G : forall n ws, (length ws <= n)%nat -> Z.of_nat (length (pack_weights ws)) = (Z.of_nat (length ws) + 1) / 2).
  { induction n as [|n IH]; intros l Hl.
    - destruct l; [reflexivity|cbn in Hl; lia].
    - destruct l as [|w1 [|w2 t]]; [reflexivity|reflexivity|]. cbn [pack_weights length]. rewrite Nat2Z.inj_succ, IH by (cbn in Hl; lia).
      rewrite !Nat2Z.inj_succ. lia. }
  apply (G (length ws)). lia.
Qed.

Lemma direct_weights_pack ws : forall rest, Forall (fun w => 0 <= w < 16) ws ->
  forall pre, direct_weights (length ws) (2 * Z.of_nat (length pre)) (pre ++ pack_weights ws ++ rest) = ws.
Proof.
  assert (G : forall n ws, (length ws <= n)%nat -> forall rest, Forall (fun w => 0 <= w < 16) ws ->
            forall pre, direct_weights (length ws) (2 * Z.of_nat (length pre)) (pre ++ pack_weights ws ++ rest) = ws).
  { induction n as [|n IH]; intros l Hl rest Hw pre.
    - destruct l; [reflexivity|cbn in Hl; lia].
    - destruct l as [|w1 [|w2 t]]; [reflexivity| |].
      + inversion Hw as [|? ? H1 _]; subst. cbn [length direct_weights pack_weights app].
        replace ((2 * Z.of_nat (length pre)) mod 2) with 0 by lia. cbn [Z.eqb]. replace (2 * Z.of_nat (length pre) / 2) with (Z.of_nat (length pre)) by lia.
        unfold nth_z. rewrite Nat2Z.id, app_nth2 by lia. rewrite Nat.sub_diag. cbn [nth]. f_equal. lia.
      + inversion Hw as [|? ? H1 Hw']; subst. inversion Hw' as [|? ? H2 Hw'']; subst.
        cbn [length direct_weights pack_weights app].
        replace ((2 * Z.of_nat (length pre)) mod 2) with 0 by lia. cbn [Z.eqb]. replace (2 * Z.of_nat (length pre) / 2) with (Z.of_nat (length pre)) by lia.
        replace ((2 * Z.of_nat (length pre) + 1) mod 2) with 1 by lia. cbn [Z.eqb]. replace ((2 * Z.of_nat (length pre) + 1) / 2) with (Z.of_nat (length pre)) by lia.
        unfold nth_z. rewrite Nat2Z.id, app_nth2 by lia. rewrite Nat.sub_diag. cbn [nth].
        f_equal; [lia|]. f_equal; [lia|].
        specialize (IH t ltac:(cbn in Hl; lia) rest Hw'' (pre ++ [w1 * 16 + w2])).
        rewrite app_length in IH. cbn [length] in IH.
        replace (2 * Z.of_nat (length pre) + 1 + 1) with (2 * Z.of_nat (length pre + 1)) by lia.
        rewrite <- app_assoc in IH. cbn [app] in IH. exact IH. }
  intros rest Hw pre. apply (G (length ws)); [lia|exact Hw].
Qed.

Theorem direct_description_roundtrip t ws rest : (1 <= length ws <= 128)%nat -> Forall (fun w => 0 <= w < 16) ws ->
  read_weights t (direct_desc ws ++ rest) = ROk (ws, ht_fse t, Z.of_nat (length (direct_desc ws))).
Proof.
  intros Hl Hw. unfold direct_desc. cbn [app]. unfold read_weights.
  destruct (Z.ltb_spec (Z.of_nat (length ws) + 127) 128) as [|_]; [lia|].
  replace (Z.of_nat (length ws) + 127 - 127) with (Z.of_nat (length ws)) by lia. cbv zeta.
  pose proof (pack_length ws) as Lp.
  assert (Hneed : (if Z.of_nat (length ws) mod 2 =? 0 then Z.of_nat (length ws) / 2 else Z.of_nat (length ws) / 2 + 1) = (Z.of_nat (length ws) + 1) / 2).
  { destruct (Z.eqb_spec (Z.of_nat (length ws) mod 2) 0); lia. }
  rewrite Hneed. rewrite app_length.
  destruct (Z.ltb_spec (Z.of_nat (length (pack_weights ws) + length rest)) ((Z.of_nat (length ws) + 1) / 2)) as [|_]; [lia|].
  rewrite Nat2Z.id. pose proof (direct_weights_pack ws rest Hw []) as D. cbn [length app] in D. change (2 * Z.of_nat 0) with 0 in D. rewrite D.
  do 2 f_equal. cbn [length]. destruct (Z.eqb_spec ((8 + 4 * Z.of_nat (length ws)) mod 8) 0); lia.
Qed.

(** hence the table the decoder builds from a direct description is the table of those weights *)
Corollary direct_description_table t ws rest : (1 <= length ws <= 128)%nat -> Forall (fun w => 0 <= w < 16) ws ->
  huf_build_decoder t (direct_desc ws ++ rest) =
    let* (dec, max_bits, bits, ranks, idxs) := build_table_from_weights ws in
    ROk ({| ht_decode := dec; ht_len := 2 ^ max_bits; ht_weights := ws; ht_max_bits := max_bits; ht_bits := bits; ht_bit_ranks := ranks;
            ht_rank_indexes := idxs; ht_fse := ht_fse t |}, Z.of_nat (length (direct_desc ws))).
Proof. intros Hl Hw. unfold huf_build_decoder. rewrite (direct_description_roundtrip t ws rest Hl Hw). reflexivity. Qed.
