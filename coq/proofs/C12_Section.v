(** C12 / C02: a whole sequences section as the compressor lays it out -- three table descriptions (literal lengths,
    offsets, match lengths; mode byte 0xA8 = all three "FSE compressed") followed by the backward bit stream -- is
    decoded by [decode_sequences] into exactly the sequences that were coded, and the decoder is left with exactly the
    tables of the three distributions.  Composition of the description round trip (C12_Desc), the derived encoder
    agreement and the stream round trip (C12_SeqStream). *)
Require Import Zrs.lib.RsPrelude Zrs.gen.Generated Zrs.model.BitIO Zrs.model.FseDec Zrs.model.HufDec Zrs.model.BlockDec.
Require Import Zrs.model.BitStream Zrs.model.SeqEnc Zrs.model.FseEnc Zrs.model.SeqSection.
Require Import Zrs.proofs.C12_Stream Zrs.proofs.C12_SeqStream Zrs.proofs.C12_Predef Zrs.proofs.C12_Desc Zrs.proofs.C14_Tables.
Open Scope Z_scope.

Lemma stream_bytes_nonempty fs : stream_bytes fs <> [].
Proof.
  unfold stream_bytes. destruct (stream_bits fs) as [|b l] eqn:E.
  - unfold stream_bits in E. destruct (fields_bits fs); discriminate.
  - cbn [length bytes_of_bits]. discriminate.
Qed.

Lemma drop_app (a b : list Z) : drop_z (zlen a) (a ++ b) = b.
Proof.
  unfold drop_z, zlen. rewrite Nat2Z.id, skipn_app, Nat.sub_diag, skipn_all. reflexivity.
Qed.

(** the decoder building a table from a written description = building it from the distribution *)
Lemma build_decoder_of_description t acc_log probs max_log rest D d :
  5 <= acc_log <= 20 -> acc_log <= max_log -> dist_ok acc_log probs ->
  Z.of_nat (length probs) <= t_max_symbol t + 1 -> rest <> [] ->
  desc_bytes acc_log probs = Some d ->
  fse_build_from_probabilities t acc_log probs = ROk D ->
  fse_build_decoder t (d ++ rest) max_log = ROk (D, zlen d).
Proof.
  intros Hal Hml Hd Hlen Hrest Hdesc Hb.
  destruct (description_roundtrip acc_log probs (t_max_symbol t) max_log rest Hal Hml Hd Hlen Hrest) as (d' & Hd' & Hr).
  rewrite Hdesc in Hd'. injection Hd' as <-.
  unfold fse_build_decoder. rewrite Hr. cbn [rbind].
  unfold fse_build_from_probabilities in Hb.
  destruct (Z.eqb_spec acc_log 0) as [E|_]; [lia|].
  destruct (build_decoding_table (t_max_symbol t) acc_log probs) as [[dec counter]|e|e]; cbn [rbind] in *; try discriminate.
  injection Hb as <-. reflexivity.
Qed.


Section Section_.
  Variables (al_ll al_of al_ml : Z) (P_ll P_of P_ml : list Z) (d_ll d_of d_ml : list Z).
  Variable s : fse_scratch.
  Variables (Dll Dof Dml : fse_table).
  Hypothesis Hms : t_max_symbol (fs_ll s) = MAX_LITERAL_LENGTH_CODE /\ t_max_symbol (fs_of s) = MAX_OFFSET_CODE /\
                   t_max_symbol (fs_ml s) = MAX_MATCH_LENGTH_CODE.
  Hypothesis Hal : 5 <= al_ll <= LL_MAX_LOG /\ 5 <= al_of <= OF_MAX_LOG /\ 5 <= al_ml <= ML_MAX_LOG.
  Hypothesis Hdist : dist_ok al_ll P_ll /\ dist_ok al_of P_of /\ dist_ok al_ml P_ml.
  Hypothesis Hlen : Z.of_nat (length P_ll) <= MAX_LITERAL_LENGTH_CODE + 1 /\ Z.of_nat (length P_of) <= MAX_OFFSET_CODE + 1 /\
                    Z.of_nat (length P_ml) <= MAX_MATCH_LENGTH_CODE + 1.
  Hypothesis Hdesc : desc_bytes al_ll P_ll = Some d_ll /\ desc_bytes al_of P_of = Some d_of /\ desc_bytes al_ml P_ml = Some d_ml.
  Hypothesis Hbuild : fse_build_from_probabilities (fs_ll s) al_ll P_ll = ROk Dll /\
                      fse_build_from_probabilities (fs_of s) al_of P_of = ROk Dof /\
                      fse_build_from_probabilities (fs_ml s) al_ml P_ml = ROk Dml.

  Lemma tables_of_section rest : rest <> [] ->
    maybe_update_fse_tables (Some MODES_ALL_ENCODED) (d_ll ++ d_of ++ d_ml ++ rest) s =
      ROk (sc Dll Dml Dof, zlen d_ll + zlen d_of + zlen d_ml).
  Proof.
    intros Hrest.
    destruct Hms as (M1 & M2 & M3). destruct Hal as (A1 & A2 & A3). destruct Hdist as (D1 & D2 & D3).
    destruct Hlen as (L1 & L2 & L3). destruct Hdesc as (E1 & E2 & E3). destruct Hbuild as (B1 & B2 & B3).
    unfold LL_MAX_LOG, OF_MAX_LOG, ML_MAX_LOG in *.
    unfold maybe_update_fse_tables, MODES_ALL_ENCODED.
    change (168 / 64) with 2. change ((168 / 16) mod 4) with 2. change ((168 / 4) mod 4) with 2.
    unfold update_one_table. change (2 =? 2) with true. cbv iota.
    assert (R1 : d_of ++ d_ml ++ rest <> []) by (destruct d_of; destruct d_ml; destruct rest; cbn; congruence).
    assert (R2 : d_ml ++ rest <> []) by (destruct d_ml; destruct rest; cbn; congruence).
    rewrite (build_decoder_of_description (fs_ll s) al_ll P_ll LL_MAX_LOG _ Dll d_ll) by (try assumption; unfold LL_MAX_LOG; try lia; rewrite M1; exact L1).
    cbn [rbind].
    assert (Z1 : 0 <= zlen d_ll) by (unfold zlen; lia). assert (Z2 : 0 <= zlen d_of) by (unfold zlen; lia).
    assert (Z3 : 0 <= zlen d_ml) by (unfold zlen; lia).
    assert (ZL : forall a b : list Z, zlen (a ++ b) = zlen a + zlen b) by (intros; unfold zlen; rewrite app_length; lia).
    destruct (Z.ltb_spec (zlen (d_ll ++ d_of ++ d_ml ++ rest)) (zlen d_ll)) as [H|_]; [rewrite ZL in H; unfold zlen in *; lia|].
    rewrite drop_app.
    rewrite (build_decoder_of_description (fs_of s) al_of P_of OF_MAX_LOG _ Dof d_of) by (try assumption; unfold OF_MAX_LOG; try lia; rewrite M2; exact L2).
    cbn [rbind].
    destruct (Z.ltb_spec (zlen (d_ll ++ d_of ++ d_ml ++ rest)) (zlen d_ll + zlen d_of)) as [H|_]; [rewrite !ZL in H; unfold zlen in *; lia|].
    replace (drop_z (zlen d_ll + zlen d_of) (d_ll ++ d_of ++ d_ml ++ rest)) with (d_ml ++ rest).
    2:{ rewrite <- ZL, app_assoc, drop_app. reflexivity. }
    rewrite (build_decoder_of_description (fs_ml s) al_ml P_ml ML_MAX_LOG _ Dml d_ml) by (try assumption; unfold ML_MAX_LOG; try lia; rewrite M3; exact L3).
    cbn [rbind]. reflexivity.
  Qed.

  Variables (sl sm so : list Z).
  Hypothesis Hwf : table_wf Dll /\ table_wf Dml /\ table_wf Dof.
  Hypothesis Hcov : Forall (covers Dll) sl /\ Forall (covers Dml) sm /\ Forall (covers Dof) so.

  Theorem sequence_section_roundtrip qs : qs <> [] -> Forall cseq_ok qs -> Forall (q_in sl sm so) qs ->
    let stream := stream_bytes (enc_fields (enc_of_dec Dll) (enc_of_dec Dml) (enc_of_dec Dof) qs) in
    exists vals,
      decode_sequences (Z.of_nat (length qs)) (Some MODES_ALL_ENCODED) (d_ll ++ d_of ++ d_ml ++ stream) s =
        ROk (sc Dll Dml Dof, vals) /\
      Forall2 (fun q v => cseq_value q = Some v) qs vals.
  Proof.
    intros Hne Hok Hin stream.
    destruct Hwf as (W1 & W2 & W3). destruct Hcov as (C1 & C2 & C3).
    destruct (derived_encoder_roundtrip Dll Dml Dof sl sm so qs W1 W2 W3 C1 C2 C3 Hne Hok Hin)
      as (r0 & ll & r1 & of & r2 & ml & r3 & vals & rf & S0 & I1 & I2 & I3 & Hloop & Hv & Hrem).
    fold stream in S0.
    exists vals. split; [|exact Hv].
    unfold decode_sequences. rewrite tables_of_section by apply stream_bytes_nonempty. cbn [rbind].
    assert (ZL : forall a b : list Z, zlen (a ++ b) = zlen a + zlen b) by (intros; unfold zlen; rewrite app_length; lia).
    destruct (Z.ltb_spec (zlen (d_ll ++ d_of ++ d_ml ++ stream)) (zlen d_ll + zlen d_of + zlen d_ml)) as [H|_];
      [rewrite !ZL in H; unfold zlen in *; lia|].
    replace (drop_z (zlen d_ll + zlen d_of + zlen d_ml) (d_ll ++ d_of ++ d_ml ++ stream)) with stream.
    2:{ rewrite <- !ZL. replace (d_ll ++ d_of ++ d_ml ++ stream) with (((d_ll ++ d_of) ++ d_ml) ++ stream) by (rewrite <- !app_assoc; reflexivity).
        rewrite drop_app. reflexivity. }
    rewrite S0. unfold sc in *. cbn [fs_ll_rle fs_of_rle fs_ml_rle fs_ll fs_of fs_ml].
    rewrite I1. cbn [rbind]. rewrite I2. cbn [rbind]. rewrite I3. cbn [rbind].
    rewrite Nat2Z.id. rewrite Hloop. cbn [rbind]. rewrite Hrem.
    change (0 <? 0) with false. cbv iota. unfold rev'. rewrite <- rev_alt, rev_involutive. reflexivity.
  Qed.
End Section_.

(** *** the executable section writer: its side conditions are decidable, and under them it round-trips *)
Lemma build_indep t acc_log probs :
  fse_build_from_probabilities t acc_log probs = fse_build_from_probabilities (fse_new (t_max_symbol t)) acc_log probs.
Proof. reflexivity. Qed.

Lemma to_cseq_ok s q : seq_range_b s = true -> to_cseq s = ROk q -> cseq_ok q /\ cseq_value q = Some s.
Proof.
  unfold seq_range_b. intros Hr Hq.
  assert (R : 0 <= sq_ll s <= 131071 /\ 3 <= sq_ml s <= 131074 /\ 1 <= sq_of s < 2 ^ 32) by lia.
  destruct R as (Rl & Rm & Ro).
  destruct (ll_roundtrip (sq_ll s) Rl) as (cl & al & nl & bl & El & Ll & Cl & Al & Vl & _).
  destruct (ml_roundtrip (sq_ml s) Rm) as (cm & am & nm & bm & Em & Lm & Cm & Am & Vm & _).
  pose proof (encode_offset_spec (sq_of s) Ro) as Ho.
  unfold to_cseq in Hq. rewrite El, Em in Hq. cbn [rbind] in Hq.
  destruct (encode_offset (sq_of s)) as [[co ao] no]. destruct Ho as (Hn & Co & Ao & Vo & _).
  injection Hq as <-.
  assert (Nl : 0 <= nl) by (destruct (Z.ltb_spec nl 0) as [H|H]; [rewrite Z.pow_neg_r in Al by lia; lia|lia]).
  assert (Nm : 0 <= nm) by (destruct (Z.ltb_spec nm 0) as [H|H]; [rewrite Z.pow_neg_r in Am by lia; lia|lia]).
  unfold cseq_ok, cseq_value. cbn [c_ll a_ll n_ll c_ml a_ml n_ml c_of a_of].
  rewrite !Z2Nat.id by lia. rewrite Ll, Lm. unfold MAX_OFFSET_CODE.
  split.
  - repeat split; try lia; eexists; reflexivity.
  - destruct s as [l m o]. cbn [sq_ll sq_ml sq_of] in *. f_equal. f_equal; lia.
Qed.

Lemma map_res_to_cseq seqs : forall qs, forallb seq_range_b seqs = true -> map_res to_cseq seqs = ROk qs ->
  Forall cseq_ok qs /\ Forall2 (fun q v => cseq_value q = Some v) qs seqs /\ length qs = length seqs.
Proof.
  induction seqs as [|s t IH]; intros qs Hr Hm; cbn [map_res] in Hm.
  - injection Hm as <-. repeat split; constructor.
  - cbn [forallb] in Hr. apply andb_prop in Hr as [Hs Ht].
    destruct (to_cseq s) as [q|e|e] eqn:Eq; cbn [rbind] in Hm; try discriminate.
    destruct (map_res to_cseq t) as [r|e|e] eqn:Er; cbn [rbind] in Hm; try discriminate.
    injection Hm as <-. destruct (IH r Ht eq_refl) as (I1 & I2 & I3).
    destruct (to_cseq_ok s q Hs Eq) as (O1 & O2).
    repeat split; [constructor; assumption|constructor; assumption|cbn [length]; lia].
Qed.

Lemma forall2_value_unique qs : forall vals seqs,
  Forall2 (fun q v => cseq_value q = Some v) qs vals -> Forall2 (fun q v => cseq_value q = Some v) qs seqs -> vals = seqs.
Proof.
  induction qs as [|q t IH]; intros vals seqs H1 H2; inversion H1; inversion H2; subst; [reflexivity|].
  f_equal; [congruence|]. apply IH; assumption.
Qed.

Lemma dist_side_ok d max_log max_symbol : dist_side_b d max_log max_symbol = true ->
  dist_ok (fst d) (snd d) /\ 5 <= fst d <= max_log /\ Z.of_nat (length (snd d)) <= max_symbol + 1.
Proof.
  unfold dist_side_b. intros H. apply andb_prop in H as [H H4]. apply andb_prop in H as [H H3]. apply andb_prop in H as [H1 H2].
  split; [apply dist_okb_ok; exact H1|lia].
Qed.

Theorem section_bytes_roundtrip dl do dm seqs bytes s :
  section_hyps_b dl do dm seqs = true -> section_bytes dl do dm seqs = ROk bytes ->
  t_max_symbol (fs_ll s) = MAX_LITERAL_LENGTH_CODE -> t_max_symbol (fs_of s) = MAX_OFFSET_CODE ->
  t_max_symbol (fs_ml s) = MAX_MATCH_LENGTH_CODE ->
  exists Dll Dml Dof,
    build_table MAX_LITERAL_LENGTH_CODE dl = ROk Dll /\ build_table MAX_MATCH_LENGTH_CODE dm = ROk Dml /\
    build_table MAX_OFFSET_CODE do = ROk Dof /\
    decode_sequences (Z.of_nat (length seqs)) (Some MODES_ALL_ENCODED) bytes s = ROk (sc Dll Dml Dof, seqs).
Proof.
  unfold section_hyps_b, section_bytes. intros Hh Hb M1 M2 M3.
  destruct (map_res to_cseq seqs) as [qs|e|e] eqn:Eq; try discriminate.
  destruct (build_table MAX_LITERAL_LENGTH_CODE dl) as [Dll|e|e] eqn:B1; try discriminate.
  destruct (build_table MAX_OFFSET_CODE do) as [Dof|e|e] eqn:B2; try discriminate.
  destruct (build_table MAX_MATCH_LENGTH_CODE dm) as [Dml|e|e] eqn:B3; try discriminate.
  cbn [rbind] in Hb.
  destruct (desc_bytes (fst dl) (snd dl)) as [a|] eqn:E1; [|discriminate].
  destruct (desc_bytes (fst do) (snd do)) as [b|] eqn:E2; [|discriminate].
  destruct (desc_bytes (fst dm) (snd dm)) as [c|] eqn:E3; [|discriminate].
  injection Hb as <-.
  apply andb_prop in Hh as [Hh Hrange]. apply andb_prop in Hh as [Hh Hne]. apply andb_prop in Hh as [Hh Hcov].
  apply andb_prop in Hh as [Hh W3]. apply andb_prop in Hh as [Hh W2]. apply andb_prop in Hh as [Hh W1].
  apply andb_prop in Hh as [Hh S3]. apply andb_prop in Hh as [S1 S2].
  destruct (dist_side_ok _ _ _ S1) as (D1 & A1 & L1).
  destruct (dist_side_ok _ _ _ S2) as (D2 & A2 & L2).
  destruct (dist_side_ok _ _ _ S3) as (D3 & A3 & L3).
  destruct (map_res_to_cseq seqs qs Hrange Eq) as (Qok & Qv & Ql).
  exists Dll, Dml, Dof. repeat split; try reflexivity.
  assert (Hqs : qs <> []) by (destruct seqs; [discriminate Hne|destruct qs; [discriminate Ql|discriminate]]).
  assert (Cll : Forall (covers Dll) (map c_ll qs) /\ Forall (covers Dml) (map c_ml qs) /\ Forall (covers Dof) (map c_of qs)).
  { rewrite forallb_forall in Hcov. repeat split; apply Forall_forall; intros x Hx; apply in_map_iff in Hx as (q & <- & Hq);
      specialize (Hcov q Hq); apply andb_prop in Hcov as [Hc Hc3]; apply andb_prop in Hc as [Hc1 Hc2]; apply covers_b_sound; assumption. }
  assert (Hin : Forall (q_in (map c_ll qs) (map c_ml qs) (map c_of qs)) qs).
  { apply Forall_forall. intros q Hq. unfold q_in. repeat split; apply in_map; exact Hq. }
  unfold build_table in B1, B2, B3.
  destruct (sequence_section_roundtrip (fst dl) (fst do) (fst dm) (snd dl) (snd do) (snd dm) a b c s Dll Dof Dml
              (conj M1 (conj M2 M3)) (conj A1 (conj A2 A3)) (conj D1 (conj D2 D3)) (conj L1 (conj L2 L3))
              (conj E1 (conj E2 E3))
              ltac:(rewrite (build_indep (fs_ll s)), (build_indep (fs_of s)), (build_indep (fs_ml s)), M1, M2, M3; auto)
              (map c_ll qs) (map c_ml qs) (map c_of qs)
              (conj (table_wf_b_sound _ W1) (conj (table_wf_b_sound _ W3) (table_wf_b_sound _ W2))) Cll qs Hqs Qok Hin) as (vals & Hdec & Hv).
  rewrite <- Ql. rewrite Hdec. f_equal. f_equal. apply (forall2_value_unique qs); assumption.
Qed.
