(** C13: the Huffman-coded literal stream.  The compressor writes the codes of the symbols last symbol first
    (HuffmanEncoder::encode_stream), so that the decoder, reading from the end, meets the first symbol's code first; the
    decoder keeps a window of [max_bits] bits as its state, looks the symbol up, and shifts in as many new bits as
    the code was long, reading zeros past the beginning of the stream.  Theorem: for every symbol list and every
    decoding table that resolves each used code from any window starting with it (a decidable property; for the
    compressor's own tables it is C13_encoder_decoder_agree), [huf_decode_stream] returns exactly the symbols and
    ends with the end-of-stream check satisfied. *)
Require Import Zrs.lib.RsPrelude Zrs.lib.Bits Zrs.model.BitIO Zrs.model.BitStream Zrs.model.FseDec Zrs.model.HufDec.
Require Import Zrs.proofs.C12_Stream.
Open Scope Z_scope.

(** *** values of bit lists, most significant bit first *)
Lemma msb_acc_linear l : forall acc, bits_val_msb_acc acc l = acc * 2 ^ Z.of_nat (length l) + bits_val_msb l.
Proof.
  unfold bits_val_msb. induction l as [|b t IH]; intros acc; cbn [bits_val_msb_acc length]; [cbn; lia|].
  rewrite IH, (IH (2 * 0 + b2z b)). rewrite Nat2Z.inj_succ, Z.pow_succ_r by lia. lia.
Qed.

Lemma msb_app a b : bits_val_msb (a ++ b) = bits_val_msb a * 2 ^ Z.of_nat (length b) + bits_val_msb b.
Proof. unfold bits_val_msb at 1. rewrite bits_val_msb_acc_app. fold (bits_val_msb a). apply msb_acc_linear. Qed.

Lemma msb_bound l : 0 <= bits_val_msb l < 2 ^ Z.of_nat (length l).
Proof.
  induction l as [|b l IH] using rev_ind; [cbn; lia|].
  rewrite msb_app, app_length. cbn [length]. rewrite Nat2Z.inj_add, Z.pow_add_r by lia.
  assert (Hb : bits_val_msb [b] = b2z b) by (unfold bits_val_msb; cbn [bits_val_msb_acc]; lia).
  rewrite Hb. change (2 ^ Z.of_nat 1) with 2. remember (2 ^ Z.of_nat (length l)) as p. unfold b2z. destruct b; lia.
Qed.

Lemma msb_zeros n : bits_val_msb (repeat false n) = 0.
Proof. induction n as [|n IH]; [reflexivity|]. change (repeat false (S n)) with ([false] ++ repeat false n). rewrite msb_app, IH. cbn. lia. Qed.

Lemma skipn_skipn_bits (a : nat) : forall b (l : list bit), skipn b (skipn a l) = skipn (a + b) l.
Proof.
  induction a as [|a IH]; intros b l; [reflexivity|]. destruct l as [|x t]; [cbn; rewrite skipn_nil; reflexivity|].
  cbn [Nat.add skipn]. apply IH.
Qed.

Lemma firstn_repeat_false m z : firstn m (repeat false z) = repeat false (Nat.min m z).
Proof. revert z. induction m as [|m IH]; intros z; [reflexivity|]. destruct z as [|z]; [reflexivity|]. cbn [repeat firstn Nat.min]. rewrite IH. reflexivity. Qed.

Lemma skipn_repeat_false m z : skipn m (repeat false z) = repeat false (z - m).
Proof. revert z. induction m as [|m IH]; intros z; [rewrite Nat.sub_0_r; reflexivity|]. destruct z as [|z]; [reflexivity|]. cbn [repeat skipn Nat.sub]. apply IH. Qed.

(** *** a reader over a virtual stream: the real bits followed by zeros *)
Section Virtual.
  Variable R : list bit.            (* the real stream, in reading order *)
  Variable Z0 : nat.                (* how many zeros of the virtual stream we ever look at *)
  Definition V : list bit := R ++ repeat false Z0.
  Definition reader_at (k : nat) : rbr :=
    {| r_rest := skipn k R; r_left := Z.of_nat (length R - k); r_extra := Z.of_nat (k - length R) |}.

  Lemma reader_at_remaining k : rbr_bits_remaining (reader_at k) = Z.of_nat (length R) - Z.of_nat k.
  Proof. unfold rbr_bits_remaining, reader_at. cbn [r_left r_extra]. lia. Qed.

  Lemma get_bits_virtual k n : (k + n <= length R + Z0)%nat ->
    rbr_get_bits (reader_at k) (Z.of_nat n) = (bits_val_msb (firstn n (skipn k V)), reader_at (k + n)).
  Proof.
    intros Hb. unfold rbr_get_bits, reader_at. cbn [r_rest r_left r_extra].
    destruct (Z.leb_spec (Z.of_nat n) 0) as [H0|Hpos].
    - assert (n = 0%nat) by lia. subst n. cbn [firstn]. rewrite Nat.add_0_r. reflexivity.
    - destruct (Z.leb_spec (Z.of_nat n) (Z.of_nat (length R - k))) as [Hin|Hout].
      + (* entirely inside the real stream *)
        rewrite Nat2Z.id. f_equal.
        * f_equal. unfold V. rewrite skipn_app, firstn_app, skipn_length.
          replace (n - (length R - k))%nat with 0%nat by lia. cbn [firstn]. rewrite app_nil_r. reflexivity.
        * f_equal; [apply skipn_skipn_bits|lia|lia].
      + (* running past the beginning: the real bits are the high part *)
        f_equal.
        * unfold V. rewrite skipn_app, firstn_app, skipn_length.
          rewrite (firstn_all2 (n := n)) by (rewrite skipn_length; lia).
          rewrite msb_app.
          rewrite skipn_repeat_false, firstn_repeat_false, msb_zeros, repeat_length. rewrite Z.add_0_r. f_equal. f_equal. lia.
        * f_equal; [symmetry; apply skipn_all2; lia|lia|lia].
  Qed.
End Virtual.

(** *** the decoding loop *)
Section Decode.
  Variable t : huf_table.
  Variable Mn : nat.
  Hypothesis HM : ht_max_bits t = Z.of_nat Mn.
  Hypothesis HM1 : (1 <= Mn)%nat.
  Hypothesis Hlen : ht_len t = 2 ^ Z.of_nat Mn.
  Variable code : Z -> Z * nat.          (* the compressor's (code, number of bits) of a symbol *)

  Definition cw (s : Z) : list bit := rev (byte_bits_lsb (snd (code s)) (fst (code s))).
  Definition code_ok (s : Z) : Prop := (1 <= snd (code s) <= Mn)%nat /\ 0 <= fst (code s) < 2 ^ Z.of_nat (snd (code s)).
  (** the table resolves [s]: any window that starts with the code word of [s] is mapped to [s] and its length *)
  Definition resolves (s : Z) : Prop :=
    forall w, length w = Mn -> firstn (snd (code s)) w = cw s ->
      nth_h (ht_decode t) (bits_val_msb w) = {| h_sym := s; h_bits := Z.of_nat (snd (code s)) |}.

  Lemma cw_length s : length (cw s) = snd (code s).
  Proof. unfold cw. rewrite rev_length, byte_bits_lsb_length. reflexivity. Qed.

  (** sliding the window *)
  Lemma slide (a b c : list bit) : (length a + length b = Mn)%nat -> length c = length a ->
    Z.lor (Z.land (bits_val_msb (a ++ b) * 2 ^ Z.of_nat (length a)) (2 ^ Z.of_nat Mn - 1)) (bits_val_msb c)
    = bits_val_msb (b ++ c).
  Proof.
    intros Hab Hc. rewrite land_ones_mod by lia. rewrite !msb_app.
    pose proof (msb_bound a) as Ba. pose proof (msb_bound b) as Bb. pose proof (msb_bound c) as Bc.
    rewrite Hc in *.
    assert (HMn : Z.of_nat Mn = Z.of_nat (length a) + Z.of_nat (length b)) by lia.
    assert (E : (bits_val_msb a * 2 ^ Z.of_nat (length b) + bits_val_msb b) * 2 ^ Z.of_nat (length a)
                = bits_val_msb b * 2 ^ Z.of_nat (length a) + bits_val_msb a * 2 ^ Z.of_nat Mn).
    { rewrite HMn, Z.pow_add_r by lia. ring. }
    rewrite E, Z.mod_add by (apply Z.pow_nonzero; lia).
    rewrite Z.mod_small.
    - rewrite Z.lor_comm. rewrite lor_low_shifted by lia. lia.
    - rewrite HMn, Z.pow_add_r by lia. split; [apply Z.mul_nonneg_nonneg; lia|].
      rewrite (Z.mul_comm (2 ^ Z.of_nat (length a))). apply Z.mul_lt_mono_pos_r; [apply Z.pow_pos_nonneg; lia|lia].
  Qed.

  Lemma stream_loop_reads todo : forall pre out fuel Z0,
    Forall code_ok todo -> Forall resolves todo -> (Mn <= Z0)%nat -> (length todo < fuel)%nat ->
    let R := pre ++ flat_map cw todo in
    huf_stream_loop fuel t (bits_val_msb (firstn Mn (skipn (length pre) (V R Z0)))) (reader_at R (length pre + Mn)) out
    = ROk (rev todo ++ out, reader_at R (length R + Mn)).
  Proof.
    induction todo as [|s rest IH]; intros pre out fuel Z0 Hok Hres HZ Hf R; (destruct fuel as [|f]; [cbn in Hf; lia|]); cbn [huf_stream_loop].
    - unfold R. cbn [flat_map]. rewrite app_nil_r in *. rewrite reader_at_remaining, HM.
      destruct (Z.ltb_spec (- Z.of_nat Mn) (Z.of_nat (length pre) - Z.of_nat (length pre + Mn))) as [|_]; [lia|]. reflexivity.
    - inversion Hok as [|? ? (Hl & Hc) Hok']; subst. inversion Hres as [|? ? Hr Hres']; subst.
      set (l := snd (code s)) in *.
      assert (LR : length R = (length pre + l + length (flat_map cw rest))%nat).
      { unfold R. cbn [flat_map]. rewrite !app_length, cw_length. fold l. lia. }
      rewrite reader_at_remaining, HM.
      destruct (Z.ltb_spec (- Z.of_nat Mn) (Z.of_nat (length R) - Z.of_nat (length pre + Mn))) as [_|]; [|lia].
      (* the window *)
      set (w := firstn Mn (skipn (length pre) (V R Z0))).
      assert (Lw : length w = Mn).
      { unfold w, V. rewrite firstn_length, skipn_length, app_length, repeat_length. lia. }
      assert (Hsk : skipn (length pre) (V R Z0) = cw s ++ flat_map cw rest ++ repeat false Z0).
      { unfold V, R. cbn [flat_map]. rewrite <- !app_assoc. rewrite skipn_app, skipn_all, Nat.sub_diag. reflexivity. }
      assert (Hw : firstn l w = cw s).
      { unfold w. rewrite firstn_firstn, Nat.min_l by lia. rewrite Hsk, firstn_app, cw_length. fold l.
        rewrite Nat.sub_diag. cbn [firstn]. rewrite app_nil_r. apply firstn_all2. rewrite cw_length. fold l. lia. }
      unfold huf_decode_symbol, huf_next_state.
      pose proof (msb_bound w) as Bw. rewrite Lw in Bw. rewrite Hlen.
      destruct (Z.leb_spec (2 ^ Z.of_nat Mn) (bits_val_msb w)) as [|_]; [lia|]. cbn [rbind].
      rewrite (Hr w Lw Hw). cbn [h_sym h_bits]. fold l.
      rewrite (get_bits_virtual R Z0 (length pre + Mn) l) by lia.
      cbn [rbind].
      (* new state *)
      set (c := firstn l (skipn (length pre + Mn) (V R Z0))).
      assert (Lc : length c = l).
      { unfold c, V. rewrite firstn_length, skipn_length, app_length, repeat_length. lia. }
      assert (Hsplit : w = firstn l w ++ skipn l w) by (symmetry; apply firstn_skipn).
      assert (Hnext : firstn Mn (skipn (length (pre ++ cw s)) (V R Z0)) = skipn l w ++ c).
      { rewrite app_length, cw_length. fold l. unfold w, c.
        rewrite <- (skipn_skipn_bits (length pre) l), <- (skipn_skipn_bits (length pre) Mn).
        generalize (skipn (length pre) (V R Z0)). intros X.
        rewrite <- (firstn_skipn (Mn - l) (firstn Mn (skipn l X))).
        f_equal.
        - rewrite firstn_firstn, Nat.min_l by lia. rewrite skipn_firstn_comm. reflexivity.
        - rewrite skipn_firstn_comm, skipn_skipn_bits. f_equal; [lia|f_equal; lia]. }
      assert (Hstate : Z.lor (Z.land (bits_val_msb w * 2 ^ Z.of_nat l) (2 ^ Z.of_nat Mn - 1)) (bits_val_msb c)
                       = bits_val_msb (firstn Mn (skipn (length (pre ++ cw s)) (V R Z0)))).
      { rewrite Hnext. rewrite Hsplit at 1.
        replace (Z.of_nat l) with (Z.of_nat (length (firstn l w))) by (rewrite firstn_length; lia).
        apply slide; rewrite firstn_length, ?skipn_length; lia. }
      rewrite Hstate.
      replace (length pre + Mn + l)%nat with (length (pre ++ cw s) + Mn)%nat by (rewrite app_length, cw_length; fold l; lia).
      assert (HR' : R = (pre ++ cw s) ++ flat_map cw rest) by (unfold R; cbn [flat_map]; rewrite <- app_assoc; reflexivity).
      rewrite HR'. rewrite (IH (pre ++ cw s) (s :: out) f Z0 Hok' Hres' HZ ltac:(cbn [length] in Hf; lia)).
      cbn [rev]. rewrite <- (app_assoc (rev rest) [s] out). reflexivity.
  Qed.
End Decode.

(** *** the whole stream *)
Section Whole.
  Variable t : huf_table.
  Variable Mn : nat.
  Hypothesis HM : ht_max_bits t = Z.of_nat Mn.
  Hypothesis HM1 : (1 <= Mn)%nat.
  Hypothesis Hlen : ht_len t = 2 ^ Z.of_nat Mn.
  Variable code : Z -> Z * nat.

  (** what [encode_stream] writes for [data]: the codes, last symbol first, then the 1 bit and the padding *)
  Definition huf_stream_bytes (data : list Z) : list Z := stream_bytes (map code (rev data)).

  Lemma flat_map_map {A B C} (f : B -> list C) (g : A -> B) (l : list A) : flat_map f (map g l) = flat_map (fun x => f (g x)) l.
  Proof. induction l as [|x t0 IH]; [reflexivity|]. cbn [map flat_map]. rewrite IH. reflexivity. Qed.

  Lemma reading_order data : rev (fields_bits (map code (rev data))) = flat_map (cw code) data.
  Proof.
    unfold fields_bits. rewrite flat_map_map.
    rewrite <- (flat_map_rev (fun x => byte_bits_lsb (snd (code x)) (fst (code x))) (rev data)).
    rewrite rev_involutive. reflexivity.
  Qed.

  Lemma stream_len fs : Z.of_nat (length (stream_bits fs)) = 8 * Z.of_nat (length (stream_bytes fs)).
  Proof. pose proof (f_equal r_left (reader_of_stream fs)) as H. unfold rbr_new, rd in H. cbn [r_left] in H. rewrite rev_length in H. lia. Qed.

  Lemma cw_total data : Forall (code_ok Mn code) data -> (length data <= length (flat_map (cw code) data))%nat.
  Proof.
    induction data as [|s rest IH]; intros H; [cbn; lia|]. inversion H as [|? ? (Hl & _) H']; subst.
    cbn [flat_map length]. rewrite app_length, cw_length. specialize (IH H'). lia.
  Qed.

  Theorem huffman_stream_roundtrip data out : data <> [] ->
    Forall (code_ok Mn code) data -> Forall (resolves t Mn code) data ->
    huf_decode_stream t (huf_stream_bytes data) out true = ROk (rev data ++ out).
  Proof.
    intros Hne Hok Hres. unfold huf_decode_stream, huf_stream_bytes.
    set (fs := map code (rev data)).
    set (R := flat_map (cw code) data).
    assert (HR : rev (fields_bits fs) = R) by apply reading_order.
    (* skip the padding *)
    assert (Hskip : rbr_skip_padding (rbr_new (stream_bytes fs)) = Some (rd R)).
    { rewrite reader_of_stream. unfold stream_bits. rewrite rev_app_distr. cbn [rev]. rewrite <- app_assoc. cbn [app].
      unfold rbr_skip_padding. rewrite rev_repeat, HR. apply skip_zeros.
      - pose proof (Nat.mod_upper_bound (length (fields_bits fs)) 8 ltac:(lia)). lia.
      - lia. }
    rewrite Hskip.
    assert (Hrd : rd R = reader_at R 0).
    { unfold rd, reader_at. cbn [skipn]. f_equal; lia. }
    rewrite Hrd. unfold huf_init_state. rewrite HM.
    rewrite (get_bits_virtual R Mn 0 Mn) by lia. cbn [skipn Nat.add].
    pose proof (stream_loop_reads t Mn HM HM1 Hlen code data [] out (S (8 * length (stream_bytes fs) + 16)) Mn Hok Hres (le_n _)) as L.
    cbn [length app skipn Nat.add] in L. fold R in L. rewrite L.
    - cbn [rbind]. rewrite reader_at_remaining.
      destruct (Z.eqb_spec (Z.of_nat (length R) - Z.of_nat (length R + Mn)) (- Z.of_nat Mn)) as [_|]; [|lia].
      cbn [negb andb]. reflexivity.
    - pose proof (cw_total data Hok) as Hc. fold R in Hc.
      pose proof (stream_len fs) as Hs. unfold stream_bits in Hs. rewrite app_length in Hs.
      assert (length R = length (fields_bits fs)) by (rewrite <- HR, rev_length; reflexivity). lia.
  Qed.
End Whole.
