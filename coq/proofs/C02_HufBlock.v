(** C02 / C13 / C16: a compressed block whose literals are Huffman-coded (four streams, with a table description or
    treeless), as the compressor lays it out, decodes to "execute the coded sequences over the literals". *)
Require Import Zrs.lib.RsPrelude Zrs.gen.Generated Zrs.model.Headers Zrs.model.BitIO Zrs.model.FseDec Zrs.model.HufDec Zrs.model.BlockDec.
Require Import Zrs.model.BitStream Zrs.model.SeqEnc Zrs.model.FseEnc Zrs.model.SeqSection Zrs.model.BlockEnc Zrs.model.LitEnc.
Require Import Zrs.proofs.C12_Stream Zrs.proofs.C12_SeqStream Zrs.proofs.C13_Stream Zrs.proofs.C02_Block.
Require Import Zrs.proofs.C02_BlockGen Zrs.proofs.C13_LitSection.
Open Scope Z_scope.

Theorem huffman_literal_block_decodes t Mn code lits a b c d ty desc sc dl do dm seqs sp :
  ht_max_bits t = Z.of_nat Mn -> (1 <= Mn)%nat -> ht_len t = 2 ^ Z.of_nat Mn ->
  (16 <= length lits)%nat -> split4 lits = (a, b, c, d) ->
  Forall (code_ok Mn code) lits -> Forall (resolves t Mn code) lits ->
  zlen (hstream code a) < 65536 /\ zlen (hstream code b) < 65536 /\ zlen (hstream code c) < 65536 ->
  let payload := desc ++ huf4_bytes code lits in
  (ty = 2 /\ huf_build_decoder (sc_huf sc) payload = ROk (t, zlen desc)) \/ (ty = 3 /\ desc = [] /\ sc_huf sc = t) ->
  zlen payload < zlen lits -> zlen lits <= MAX_BLOCK_SIZE ->
  seq_part dl do dm seqs = ROk sp -> Z.of_nat (length seqs) <= 98047 ->
  (seqs <> [] -> section_hyps_b dl do dm seqs = true) ->
  t_max_symbol (fs_ll (sc_fse sc)) = MAX_LITERAL_LENGTH_CODE -> t_max_symbol (fs_of (sc_fse sc)) = MAX_OFFSET_CODE ->
  t_max_symbol (fs_ml (sc_fse sc)) = MAX_MATCH_LENGTH_CODE ->
  let body := huf_lit_section ty desc code lits ++ sp in
  decompress_block (zlen body) sc body =
    match seqs with
    | [] => ROk {| sc_huf := t; sc_fse := sc_fse sc; sc_buf := db_push (sc_buf sc) lits; sc_hist := sc_hist sc |}
    | _ =>
        match build_table MAX_LITERAL_LENGTH_CODE dl, build_table MAX_MATCH_LENGTH_CODE dm, build_table MAX_OFFSET_CODE do with
        | ROk Dll, ROk Dml, ROk Dof =>
            let* (buf, hist) := execute_sequences seqs lits (sc_buf sc) (sc_hist sc) in
            ROk {| sc_huf := t; sc_fse := C12_SeqStream.sc Dll Dml Dof; sc_buf := buf; sc_hist := hist |}
        | _, _, _ => RErr "tables"
        end
    end.
Proof.
  intros HM HM1 Hlen Hn Hsplit Hok Hres Hsz payload Hty Hpl Hmax Hsp Hs Hh M1 M2 M3 body.
  pose proof (split4_spec lits Hn) as Sp. rewrite Hsplit in Sp. destruct Sp as (El & Na & Nb & Nc & Nd).
  assert (E4 : huf4_bytes code lits = four_bytes code a b c d) by (unfold huf4_bytes; rewrite Hsplit; reflexivity).
  change MAX_BLOCK_SIZE with 131072 in *.
  assert (P0 : 0 <= zlen payload) by apply zlen_nonneg.
  assert (Ty : ty = 2 \/ ty = 3) by (destruct Hty as [(-> & _)|(-> & _)]; [left|right]; reflexivity).
  set (hdr := huf_lit_header ty (zlen lits) (zlen payload)).
  assert (Hhdr : forall rest, lit_header_parse (hdr ++ rest) = ROk (zlen hdr, ty, zlen lits, Some (zlen payload), Some 4)).
  { intros rest. unfold hdr. rewrite huf_header_length.
    assert (L16 : 16 <= zlen lits) by (unfold zlen; lia).
    destruct (Z.ltb_spec (zlen lits) 16384) as [Hsm|Hlg].
    - apply huf_header_parse_small; [exact Ty|lia|lia].
    - apply huf_header_parse_large; [exact Ty|lia|lia]. }
  assert (Hlits : decode_literals {| ls_type := ty; ls_regen := zlen lits; ls_comp := Some (zlen payload); ls_streams := Some 4 |} (sc_huf sc) payload
                  = ROk (t, lits, zlen payload)).
  { unfold payload. rewrite E4, El.
    apply (huffman_payload_decodes t Mn HM HM1 Hlen code a b c d (conj Na (conj Nb (conj Nc Nd)))).
    - rewrite <- El. exact Hok.
    - rewrite <- El. exact Hres.
    - exact Hsz.
    - unfold payload in Hty. rewrite E4 in Hty. exact Hty. }
  unfold body, huf_lit_section. fold payload. fold hdr. rewrite <- !app_assoc.
  assert (Hr : zlen lits = zlen lits /\ zlen lits <= MAX_BLOCK_SIZE) by (split; [reflexivity|change MAX_BLOCK_SIZE with 131072; lia]).
  apply (block_decodes hdr payload ty (zlen lits) (Some (zlen payload)) (Some 4) sc t lits Hhdr eq_refl Hr Hlits dl do dm seqs sp Hsp Hs Hh M1 M2 M3).
Qed.
