(** C03 at frame level: initialising a frame decoder on any bytes and decoding blocks from any bytes never panics, for
    every decoder whose dictionaries came out of the dictionary parser. *)
Require Import Zrs.lib.RsPrelude Zrs.gen.Generated Zrs.model.Headers Zrs.model.BitIO Zrs.model.FseDec Zrs.model.HufDec Zrs.model.BlockDec Zrs.model.FrameDec.
Require Import Zrs.proofs.C06_Drain Zrs.proofs.C05_Block Zrs.proofs.C11_Reset Zrs.proofs.C14_Headers Zrs.proofs.C03_Desc.
Require Import Zrs.proofs.C03_FseBuild Zrs.proofs.C03_HufBuild Zrs.proofs.C03_Literals Zrs.proofs.C03_Sequences Zrs.proofs.C03_Exec Zrs.proofs.C03_BlockTotal.
Open Scope Z_scope.

Theorem decode_block_content_never_panics ty dsize csize sc src :
  scratch_sound sc -> bytes_ok src = true -> 0 <= ty <= 2 -> 0 <= dsize -> 0 <= csize ->
  match decode_block_content ty dsize csize sc src with
  | ROk (sc', n, rest) => scratch_sound sc' /\ bytes_ok rest = true /\ (length rest <= length src)%nat
  | RErr _ => True
  | RPanic _ => False
  end.
Proof.
  intros S B Hty Hd Hc. unfold decode_block_content. pose proof S as ((W & Hh) & Gh & Gf).
  assert (RE : forall n a r, 0 <= n -> read_exact n src = Some (a, r) -> bytes_ok a = true /\ bytes_ok r = true /\ (length r <= length src)%nat /\ zlen a = n).
  { intros n a r Hn Hr. destruct (read_exact_spec n src a r Hn Hr) as [-> La]. destruct (bytes_ok_app _ _ B) as [Ba Br].
    rewrite app_length. unfold zlen. repeat split; try assumption; lia. }
  destruct (Z.eqb_spec ty 1) as [T1|T1].
  - destruct (read_exact 1 src) as [[b r]|] eqn:Er; [|exact I]. destruct (RE 1 b r ltac:(lia) Er) as (_ & Br & Lr & _).
    split; [|split; assumption]. split; [split; [apply (append_raw_inv (sc_buf sc) _ W)|exact Hh]|]. split; assumption.
  - destruct (Z.eqb_spec ty 0) as [T0|T0].
    + destruct (read_exact dsize src) as [[d r]|] eqn:Er; [|exact I]. destruct (RE dsize d r Hd Er) as (_ & Br & Lr & _).
      split; [|split; assumption]. split; [split; [apply (append_raw_inv (sc_buf sc) _ W)|exact Hh]|]. split; assumption.
    + destruct (Z.eqb_spec ty 2) as [T2|T2]; [|lia].
      destruct (read_exact csize src) as [[raw r]|] eqn:Er; [|exact I]. destruct (RE csize raw r Hc Er) as (Ba & Br & Lr & La).
      pose proof (decompress_block_never_panics sc raw S Ba) as DB. rewrite La in DB.
      destruct (decompress_block csize sc raw) as [sc'|e|e]; cbn [rbind]; [|exact I|contradiction].
      split; [exact DB|split; assumption].
Qed.

Definition state_sound (s : fstate) : Prop := scratch_sound (fr_scratch s).

Theorem decode_blocks_loop_never_panics fuel : forall s src strat lb bb,
  (length src < fuel)%nat -> state_sound s -> bytes_ok src = true ->
  match decode_blocks_loop fuel s src strat lb bb with
  | ROk (s', rest) => state_sound s'
  | RErr _ => True
  | RPanic _ => False
  end.
Proof.
  induction fuel as [|f IH]; intros s src strat lb bb Hf S B; [lia|]. cbn [decode_blocks_loop].
  assert (NPh : no_panic (read_block_header_src src)).
  { unfold read_block_header_src. destruct (read_exact 3 src) as [[hb r]|] eqn:Er; [|exact I].
    destruct (read_exact_spec 3 src hb r ltac:(lia) Er) as [-> _]. destruct (bytes_ok_app _ _ B) as [Bh _].
    unfold read_block_header. rewrite block_type_field by (apply bytes_ok_nth; exact Bh). cbn [rbind].
    destruct (_ =? 3); [exact I|]. unfold block_content_size. destruct (_ >? _); cbn [rbind]; exact I. }
  destruct (read_block_header_src src) as [[[[[last ty] dsize] csize] src1]|e|e] eqn:Eh; cbn [rbind]; [|exact I|contradiction].
  destruct (read_block_header_src_spec _ _ _ _ _ _ B Eh) as (Hd & Hc & Hty & Hlen & B1).
  cbn [fr_scratch set_scratch].
  pose proof (decode_block_content_never_panics ty dsize csize (fr_scratch s) src1 S B1 Hty ltac:(lia) ltac:(lia)) as DC.
  destruct (decode_block_content ty dsize csize (fr_scratch s) src1) as [[[sc n] src2]|e|e]; cbn [rbind]; [|exact I|contradiction].
  destruct DC as (S' & B2 & L2).
  destruct last.
  - destruct (checksum_flag _).
    + destruct (read_exact 4 src2) as [[ck r]|]; [|exact I]. exact S'.
    + exact S'.
  - match goal with |- context [if ?c then ROk _ else _] => destruct c end; [exact S'|].
    apply IH; [lia|exact S'|exact B2].
Qed.

(** *** decoders *)
Definition dict_sound (dd : dictionary) : Prop := dict_ok dd /\ huf_good (d_huf dd) /\ fscratch_ok (d_fse dd).
Definition dec_sound (d : fdec) : Prop :=
  Forall dict_sound (fd_dicts d) /\ match fd_state d with Some s => state_sound s | None => True end.

Theorem fdec_decode_blocks_never_panics d src strat : dec_sound d -> bytes_ok src = true ->
  match fdec_decode_blocks d src strat with
  | ROk (d', rest, fin) => dec_sound d'
  | RErr _ => True
  | RPanic _ => False
  end.
Proof.
  intros (HD & HS) B. unfold fdec_decode_blocks. destruct (fd_state d) as [s|]; [|exact I].
  pose proof (decode_blocks_loop_never_panics (S (S (length src))) s src strat (db_len (sc_buf (fr_scratch s))) (fr_blocks s) ltac:(lia) HS B) as NP.
  destruct (decode_blocks_loop _ s src strat _ _) as [[s' rest]|e|e]; cbn [rbind]; [|exact I|contradiction].
  split; [exact HD|exact NP].
Qed.

(** *** initialisation *)
Lemma did_np d : no_panic (dictionary_id_bytes d).
Proof. unfold dictionary_id_bytes. cbv zeta. repeat (match goal with |- no_panic (if ?c then _ else _) => destruct c end); exact I. Qed.
Lemma fcs_np d : no_panic (frame_content_size_bytes d).
Proof. unfold frame_content_size_bytes. cbv zeta. repeat (match goal with |- no_panic (if ?c then _ else _) => destruct c end); exact I. Qed.

Lemma rfh_tail_no_panic d wd r3 n : match rfh_tail d wd r3 n with FhPanic _ => False | _ => True end.
Proof.
  unfold rfh_tail. pose proof (did_np d) as N1. destruct (dictionary_id_bytes d) as [dl|e|e]; [|exact I|contradiction].
  destruct (Headers.take _ r3) as [[db r4]|]; [|exact I].
  pose proof (fcs_np d) as N2. destruct (frame_content_size_bytes d) as [fl|e|e]; [|exact I|contradiction].
  destruct (Headers.take _ r4) as [[fb r5]|]; exact I.
Qed.

Lemma read_frame_header_no_panic src : match read_frame_header src with FhPanic _ => False | _ => True end.
Proof.
  unfold read_frame_header. destruct (Headers.take 4 src) as [[m r1]|]; [|exact I].
  destruct (_ && _); [destruct (Headers.take 4 r1) as [[? ?]|]; exact I|].
  destruct (negb _); [exact I|].
  destruct (Headers.take 1 r1) as [[dl r2]|]; [|exact I].
  destruct (single_segment_flag (znth dl 0)).
  - apply (rfh_tail_no_panic (znth dl 0) 0 r2 0).
  - destruct (Headers.take 1 r2) as [[w r3]|]; [|exact I]. apply (rfh_tail_no_panic (znth dl 0) (znth w 0) r3 1).
Qed.

Lemma fse_reset_tab M t : t_max_symbol t = M -> tab_ok M (fse_reset t) None.
Proof. intros H. split; [exact H|]. split; [left; reflexivity|exact I]. Qed.
Lemma fse_reinit_tab M t o rle : t_max_symbol t = M -> tab_ok M o rle -> tab_ok M (fse_reinit_from t o) rle.
Proof.
  intros H (Ho & Hr & Hl). split; [exact H|]. split; [|exact Hl].
  destruct Hr as [E|(A & B & C)]; [left; exact E|right]. unfold fse_range, fse_reinit_from. cbn [t_acc_log t_decode t_max_symbol].
  split; [exact A|]. split; [exact B|]. intros e He. specialize (C e He). lia.
Qed.

Lemma huf_reset_good t : huf_good t -> huf_good (huf_reset t).
Proof. intros (Hm & _). split; [exact Hm|left; reflexivity]. Qed.
Lemma huf_reinit_good t o : huf_good t -> huf_good o -> huf_good (huf_reinit_from t o).
Proof.
  intros (Hm & _) (_ & Ho). split; [exact Hm|].
  destruct Ho as [E|(A & B & C)]; [left; exact E|right]. split; [exact A|]. split; [exact B|exact C].
Qed.

Lemma fscratch_reset_ok s : fscratch_ok s -> fscratch_ok (fse_scratch_reset s).
Proof. intros ((A & _) & (B & _) & (C & _)). unfold fscratch_ok, fse_scratch_reset. cbn [fs_ll fs_ll_rle fs_of fs_of_rle fs_ml fs_ml_rle]. repeat split; try (left; reflexivity); assumption. Qed.
Lemma fscratch_reinit_ok s o : fscratch_ok s -> fscratch_ok o -> fscratch_ok (fse_scratch_reinit_from s o).
Proof.
  intros ((A & _) & (B & _) & (C & _)) (X & Y & Z). unfold fscratch_ok, fse_scratch_reinit_from. cbn [fs_ll fs_ll_rle fs_of fs_of_rle fs_ml fs_ml_rle].
  split; [apply fse_reinit_tab; assumption|]. split; apply fse_reinit_tab; assumption.
Qed.

Lemma scratch_new_sound w : scratch_sound (scratch_new w).
Proof. split; [apply scratch_new_ok|]. split; [apply huf_new_good|apply fse_scratch_new_ok]. Qed.
Lemma scratch_reset_sound sc w : scratch_sound sc -> scratch_sound (scratch_reset sc w).
Proof. intros (_ & H & F). split; [apply scratch_reset_ok|]. split; [apply huf_reset_good; exact H|apply fscratch_reset_ok; exact F]. Qed.
Lemma scratch_init_from_dict_sound sc dd : scratch_sound sc -> dict_sound dd -> scratch_sound (scratch_init_from_dict sc dd).
Proof.
  intros (S & H & F) (D & DH & DF). split; [apply init_from_dict_ok; assumption|].
  split; [apply huf_reinit_good; assumption|apply fscratch_reinit_ok; assumption].
Qed.

Lemma find_sound id dicts dd : Forall dict_sound dicts -> find (fun x => d_id x =? id) dicts = Some dd -> dict_sound dd.
Proof. intros HD Hf. rewrite Forall_forall in HD. apply HD. eapply find_some. exact Hf. Qed.

Theorem fdec_reset_never_panics d src : dec_sound d ->
  match fdec_reset d src with
  | ROk (d', rest, evs) => dec_sound d'
  | RErr _ => True
  | RPanic _ => False
  end.
Proof.
  intros (HD & HS). unfold fdec_reset, frame_front. pose proof (read_frame_header_no_panic src) as NP.
  destruct (read_frame_header src) as [h n|m len|e|e]; [|exact I|exact I|contradiction].
  assert (NW : no_panic (fh_window_size h)).
  { unfold fh_window_size, window_size. destruct (single_segment_flag _); [exact I|]. cbv zeta. destruct (_ >=? _); [|exact I]. destruct (_ <=? _); exact I. }
  destruct (fh_window_size h) as [w|e|e]; cbn [rbind]; [|exact I|contradiction].
  unfold check_window_size. destruct (w >? fd_max_window d); cbn [rbind]; [exact I|].
  assert (SS : scratch_sound (fst (match fd_state d with
        | Some s => (scratch_reset (fr_scratch s) w, [EvHeader; EvWindowOk w; EvReserve w])
        | None => (scratch_new w, [EvHeader; EvWindowOk w]) end))).
  { destruct (fd_state d) as [s|]; cbn [fst]; [apply scratch_reset_sound; exact HS|apply scratch_new_sound]. }
  destruct (match fd_state d with Some s => _ | None => _ end) as [sc evs]. cbn [fst] in SS.
  destruct (fh_dict_id h) as [id|].
  - destruct (find (fun dd => d_id dd =? id) (fd_dicts d)) as [dd|] eqn:Ef; [|exact I].
    split; [exact HD|]. cbn [fd_state]. unfold state_sound. cbn [fr_scratch]. apply scratch_init_from_dict_sound; [exact SS|].
    apply (find_sound id (fd_dicts d) dd HD Ef).
  - split; [exact HD|]. cbn [fd_state]. exact SS.
Qed.

Theorem fdec_force_dict_sound d id : dec_sound d ->
  match fdec_force_dict d id with ROk d' => dec_sound d' | RErr _ => True | RPanic _ => False end.
Proof.
  intros (HD & HS). unfold fdec_force_dict. destruct (fd_state d) as [s|]; [|exact I].
  destruct (find (fun dd => d_id dd =? id) (fd_dicts d)) as [dd|] eqn:Ef; [|exact I].
  split; [exact HD|]. cbn [fd_state]. unfold state_sound. cbn [fr_scratch]. apply scratch_init_from_dict_sound; [exact HS|].
  apply (find_sound id (fd_dicts d) dd HD Ef).
Qed.

Theorem fdec_add_dict_sound d dd : dec_sound d -> dict_sound dd -> dec_sound (fdec_add_dict d dd).
Proof.
  intros (HD & HS) Hdd. split; [|exact HS]. cbn [fd_dicts fdec_add_dict]. constructor; [exact Hdd|].
  rewrite Forall_forall in *. intros x Hx. apply filter_In in Hx as [Hx _]. apply HD. exact Hx.
Qed.

Lemma fdec_new_sound : dec_sound fdec_new.
Proof. split; [constructor|exact I]. Qed.

(** *** the dictionary parser *)
Theorem decode_dict_never_panics raw : bytes_ok raw = true ->
  match decode_dict raw with ROk dd => dict_sound dd | RErr _ => True | RPanic _ => False end.
Proof.
  intros B. unfold decode_dict. destruct (zlen raw <? 8); [exact I|]. destruct (negb _); [exact I|].
  assert (B0 : bytes_ok (drop_z 8 raw) = true) by (apply bytes_ok_skipn; exact B).
  remember (drop_z 8 raw) as t0 eqn:E0.
  pose proof (huf_build_decoder_good huf_new t0 eq_refl (bytes_nonneg _ B0)) as HB.
  destruct (huf_build_decoder huf_new t0) as [[huf hsz]|e|e]; cbn [rbind]; [|exact I|contradiction].
  destruct HB as (_ & Gh & _).
  destruct (zlen t0 <? hsz); [exact I|].
  remember (drop_z hsz t0) as t1 eqn:E1.
  pose proof (fse_build_decoder_good (fse_new MAX_OFFSET_CODE) t1 OF_MAX_LOG ltac:(cbv; discriminate) ltac:(cbv; discriminate)) as F1.
  destruct (fse_build_decoder (fse_new MAX_OFFSET_CODE) t1 OF_MAX_LOG) as [[of osz]|e|e]; cbn [rbind]; [|exact I|contradiction].
  destruct F1 as (_ & R1 & M1 & _).
  destruct (zlen t1 <? osz); [exact I|].
  remember (drop_z osz t1) as t2 eqn:E2.
  pose proof (fse_build_decoder_good (fse_new MAX_MATCH_LENGTH_CODE) t2 ML_MAX_LOG ltac:(cbv; discriminate) ltac:(cbv; discriminate)) as F2.
  destruct (fse_build_decoder (fse_new MAX_MATCH_LENGTH_CODE) t2 ML_MAX_LOG) as [[ml msz]|e|e]; cbn [rbind]; [|exact I|contradiction].
  destruct F2 as (_ & R2 & M2 & _).
  destruct (zlen t2 <? msz); [exact I|].
  remember (drop_z msz t2) as t3 eqn:E3.
  pose proof (fse_build_decoder_good (fse_new MAX_LITERAL_LENGTH_CODE) t3 LL_MAX_LOG ltac:(cbv; discriminate) ltac:(cbv; discriminate)) as F3.
  destruct (fse_build_decoder (fse_new MAX_LITERAL_LENGTH_CODE) t3 LL_MAX_LOG) as [[ll lsz]|e|e]; cbn [rbind]; [|exact I|contradiction].
  destruct F3 as (_ & R3 & M3 & _).
  destruct (zlen t3 <? lsz); [exact I|].
  remember (drop_z lsz t3) as t4 eqn:E4.
  destruct (zlen t4 <? 12); [exact I|].
  assert (B4 : bytes_ok t4 = true) by (subst; repeat apply bytes_ok_skipn; exact B).
  split.
  - unfold dict_ok, hist_ok. cbn [d_hist]. do 3 eexists. split; [reflexivity|].
    split; [|split]; apply le_val_nonneg; repeat (first [apply bytes_ok_firstn | apply bytes_ok_skipn]); exact B4.
  - split; [exact Gh|]. unfold fscratch_ok, tab_ok. cbn [d_fse fs_ll fs_ll_rle fs_of fs_of_rle fs_ml fs_ml_rle].
    repeat split; try exact I; try (right; assumption); assumption.
Qed.
