(** C03: the sequences section never panics.  With the three FSE tables of the scratch space each unset or built from a
    normalised distribution (the only tables the decoder ever stores), updating the tables from any bytes, initialising
    the three states and decoding any number of sequences returns a result or an error, and leaves the tables in the
    same condition. *)
Require Import Zrs.lib.RsPrelude Zrs.lib.Sweep Zrs.gen.Generated Zrs.model.Headers Zrs.model.BitIO Zrs.model.FseDec Zrs.model.FseEnc Zrs.model.HufDec Zrs.model.BlockDec.
Require Import Zrs.proofs.C06_Drain Zrs.proofs.C05_Block Zrs.proofs.C11_Reset Zrs.proofs.C03_Desc Zrs.proofs.C03_HufStream.
Require Import Zrs.proofs.C03_FseBuild Zrs.proofs.C03_HufBuild Zrs.proofs.C03_Literals.
Open Scope Z_scope.

(** one table with its RLE byte: alphabet fixed, table unset or sound, RLE symbol inside the alphabet *)
Definition tab_ok (M : Z) (t : fse_table) (rle : option Z) : Prop :=
  t_max_symbol t = M /\ (t_acc_log t = 0 \/ fse_range t) /\ match rle with Some c => 0 <= c <= M | None => True end.
Definition fscratch_ok (s : fse_scratch) : Prop :=
  tab_ok MAX_LITERAL_LENGTH_CODE (fs_ll s) (fs_ll_rle s) /\ tab_ok MAX_OFFSET_CODE (fs_of s) (fs_of_rle s) /\
  tab_ok MAX_MATCH_LENGTH_CODE (fs_ml s) (fs_ml_rle s).

Lemma fse_scratch_new_ok : fscratch_ok fse_scratch_new.
Proof. unfold fscratch_ok, tab_ok, fse_scratch_new. cbn. repeat split; auto. Qed.

Lemma ge_m1_list l : forallb (fun p => -1 <=? p) l = true -> Forall (fun p => -1 <= p) l.
Proof. rewrite forallb_forall, Forall_forall. intros H x Hx. specialize (H x Hx). lia. Qed.

Lemma update_one_ok mode src t rle max_log M def_log def_dist err :
  bytes_ok src = true -> tab_ok M t rle -> M <= 255 -> max_log <= 9 ->
  5 <= def_log <= 9 -> Forall (fun p => -1 <= p) def_dist -> weight def_dist = 2 ^ def_log -> Z.of_nat (length def_dist) <= M + 1 ->
  match update_one_table mode src t rle max_log M def_log def_dist err with
  | ROk (t', rle', n) => tab_ok M t' rle' /\ 0 <= n <= zlen src
  | RErr _ => True
  | RPanic _ => False
  end.
Proof.
  intros B (Hms & Ht & Hr) HM Hml Hdl Hdp Hdw Hdn. unfold update_one_table.
  destruct (mode =? 2).
  - pose proof (fse_build_decoder_good t src max_log ltac:(lia) Hml) as FB.
    destruct (fse_build_decoder t src max_log) as [[D bytes]|e|e]; cbn [rbind]; [|exact I|contradiction].
    destruct FB as (_ & R & Hm & Hb). split; [|exact Hb]. split; [lia|]. split; [right; exact R|exact I].
  - destruct (mode =? 1).
    + destruct src as [|b rest]; [exact I|]. destruct (Z.ltb_spec M b); [exact I|].
      pose proof (bytes_ok_nth (b :: rest) 0 B) as Hb. unfold nth_z in Hb. cbn in Hb.
      split; [|unfold zlen; cbn [length]; lia]. split; [exact Hms|]. split; [exact Ht|lia].
    + destruct (mode =? 0).
      * destruct (build_from_probabilities_good t def_log def_dist ltac:(lia) Hdl Hdp Hdw ltac:(lia)) as (D & -> & _ & R & Hm).
        cbn [rbind]. split; [|unfold zlen; lia]. split; [lia|]. split; [right; exact R|exact I].
      * split; [|unfold zlen; lia]. split; [exact Hms|]. split; [exact Ht|exact Hr].
Qed.

Theorem maybe_update_ok modes source s : bytes_ok source = true -> fscratch_ok s ->
  match maybe_update_fse_tables modes source s with
  | ROk (s', n) => fscratch_ok s' /\ 0 <= n <= zlen source
  | RErr _ => True
  | RPanic _ => False
  end.
Proof.
  intros B (Hll & Hof & Hml). unfold maybe_update_fse_tables. destruct modes as [m|]; [|exact I]. cbv zeta.
  pose proof (update_one_ok (m / 64) source (fs_ll s) (fs_ll_rle s) LL_MAX_LOG MAX_LITERAL_LENGTH_CODE LL_DEFAULT_ACC_LOG
                LITERALS_LENGTH_DEFAULT_DISTRIBUTION "MissingByteForRleLlTable" B Hll ltac:(cbv; discriminate) ltac:(cbv; discriminate)
                ltac:(cbv; split; discriminate) ltac:(apply ge_m1_list; reflexivity) eq_refl ltac:(cbv; discriminate)) as U1.
  destruct (update_one_table (m / 64) source _ _ _ _ _ _ _) as [[[ll ll_rle] n1]|e|e]; cbn [rbind]; [|exact I|contradiction].
  destruct U1 as (T1 & N1).
  destruct (Z.ltb_spec (zlen source) n1); [lia|].
  pose proof (drop_len n1 source N1) as L1.
  assert (B1 : bytes_ok (drop_z n1 source) = true) by (apply bytes_ok_skipn; exact B).
  pose proof (update_one_ok ((m / 16) mod 4) (drop_z n1 source) (fs_of s) (fs_of_rle s) OF_MAX_LOG MAX_OFFSET_CODE OF_DEFAULT_ACC_LOG
                OFFSET_DEFAULT_DISTRIBUTION "MissingByteForRleOfTable" B1 Hof ltac:(cbv; discriminate) ltac:(cbv; discriminate)
                ltac:(cbv; split; discriminate) ltac:(apply ge_m1_list; reflexivity) eq_refl ltac:(cbv; discriminate)) as U2.
  destruct (update_one_table ((m / 16) mod 4) _ _ _ _ _ _ _ _) as [[[of of_rle] n2]|e|e]; cbn [rbind]; [|exact I|contradiction].
  destruct U2 as (T2 & N2).
  destruct (Z.ltb_spec (zlen source) (n1 + n2)); [lia|].
  pose proof (drop_len (n1 + n2) source ltac:(lia)) as L2.
  assert (B2 : bytes_ok (drop_z (n1 + n2) source) = true) by (apply bytes_ok_skipn; exact B).
  pose proof (update_one_ok ((m / 4) mod 4) (drop_z (n1 + n2) source) (fs_ml s) (fs_ml_rle s) ML_MAX_LOG MAX_MATCH_LENGTH_CODE ML_DEFAULT_ACC_LOG
                MATCH_LENGTH_DEFAULT_DISTRIBUTION "MissingByteForRleMlTable" B2 Hml ltac:(cbv; discriminate) ltac:(cbv; discriminate)
                ltac:(cbv; split; discriminate) ltac:(apply ge_m1_list; reflexivity) eq_refl ltac:(cbv; discriminate)) as U3.
  destruct (update_one_table ((m / 4) mod 4) _ _ _ _ _ _ _ _) as [[[ml ml_rle] n3]|e|e]; cbn [rbind]; [|exact I|contradiction].
  destruct U3 as (T3 & N3).
  split; [|lia]. unfold fscratch_ok. cbn [fs_ll fs_ll_rle fs_of fs_of_rle fs_ml fs_ml_rle]. tauto.
Qed.

(** *** the code tables: every code of the alphabet has an entry *)
Definition ll_code_check (c : Z) : bool := match lookup_ll_code c with RPanic _ => false | _ => true end.
Definition ml_code_check (c : Z) : bool := match lookup_ml_code c with RPanic _ => false | _ => true end.
Lemma ll_codes_total c : 0 <= c <= MAX_LITERAL_LENGTH_CODE -> no_panic (lookup_ll_code c).
Proof.
  intros H. assert (S : sweep ll_code_check 0 36 = true) by (vm_compute; reflexivity).
  pose proof (sweep_spec _ _ _ S c ltac:(unfold MAX_LITERAL_LENGTH_CODE in H; lia)) as F. unfold ll_code_check in F.
  destruct (lookup_ll_code c); try exact I. discriminate.
Qed.
Lemma ml_codes_total c : 0 <= c <= MAX_MATCH_LENGTH_CODE -> no_panic (lookup_ml_code c).
Proof.
  intros H. assert (S : sweep ml_code_check 0 53 = true) by (vm_compute; reflexivity).
  pose proof (sweep_spec _ _ _ S c ltac:(unfold MAX_MATCH_LENGTH_CODE in H; lia)) as F. unfold ml_code_check in F.
  destruct (lookup_ml_code c); try exact I. discriminate.
Qed.

(** a decoder state belonging to its table (irrelevant in RLE mode) *)
Definition dstate_ok (t : fse_table) (rle : option Z) (st : fse_entry) : Prop :=
  match rle with Some _ => True | None => fse_range t /\ In st (t_decode t) end.

Lemma code_of_range M t rle st : tab_ok M t rle -> dstate_ok t rle st -> 0 <= code_of rle st <= M.
Proof.
  intros (Hm & _ & Hr) Hs. unfold code_of. destruct rle as [c|]; [exact Hr|].
  destruct Hs as ((_ & _ & R) & Hin). destruct (R st Hin) as (_ & _ & _ & X). lia.
Qed.

Lemma step_state t rle st br : dstate_ok t rle st -> rwf br ->
  match (match rle with None => fse_update_state t st br | Some _ => ROk (st, br) end) with
  | ROk (st', br') => dstate_ok t rle st' /\ rwf br'
  | RErr _ => True
  | RPanic _ => False
  end.
Proof.
  intros Hs W. destruct rle as [c|]; [split; [exact I|exact W]|]. destruct Hs as (R & Hin).
  destruct (update_in t R st br Hin W) as (st' & br' & -> & Hin' & W'). split; [split; assumption|exact W'].
Qed.

Lemma triple_wf br a b c : rwf br -> 0 <= a -> 0 <= b -> 0 <= c ->
  let '(_, _, _, br') := rbr_get_bits_triple br a b c in rwf br'.
Proof.
  intros W Ha Hb Hc. unfold rbr_get_bits_triple.
  destruct (get_bits_wf br a W Ha) as (W1 & _). destruct (rbr_get_bits br a) as [v1 r1]. cbn [snd] in W1.
  destruct (get_bits_wf r1 b W1 Hb) as (W2 & _). destruct (rbr_get_bits r1 b) as [v2 r2]. cbn [snd] in W2.
  destruct (get_bits_wf r2 c W2 Hc) as (W3 & _). destruct (rbr_get_bits r2 c) as [v3 r3]. cbn [snd] in W3. exact W3.
Qed.

Lemma seq_loop_no_panic n : forall total s ll ml of br done acc, fscratch_ok s ->
  dstate_ok (fs_ll s) (fs_ll_rle s) ll -> dstate_ok (fs_ml s) (fs_ml_rle s) ml -> dstate_ok (fs_of s) (fs_of_rle s) of -> rwf br ->
  no_panic (seq_loop n total s ll ml of br done acc).
Proof.
  induction n as [|k IH]; intros total s ll ml of br done acc Hs Sll Sml Sof W; cbn [seq_loop]; [exact I|].
  destruct Hs as (Tll & Tof & Tml).
  pose proof (code_of_range _ _ _ _ Tll Sll) as Cll. pose proof (code_of_range _ _ _ _ Tml Sml) as Cml. pose proof (code_of_range _ _ _ _ Tof Sof) as Cof.
  pose proof (ll_codes_total _ Cll) as Nll.
  destruct (lookup_ll_code (code_of (fs_ll_rle s) ll)) as [[llv llb]|e|e] eqn:Ell; cbn [rbind]; [|exact I|contradiction].
  pose proof (ml_codes_total _ Cml) as Nml.
  destruct (lookup_ml_code (code_of (fs_ml_rle s) ml)) as [[mlv mlb]|e|e] eqn:Eml; cbn [rbind]; [|exact I|contradiction].
  destruct (MAX_OFFSET_CODE <? code_of (fs_of_rle s) of); [exact I|].
  apply lookup_ll_nonneg in Ell. apply lookup_ml_nonneg in Eml.
  pose proof (triple_wf br (code_of (fs_of_rle s) of) mlb llb W ltac:(lia) ltac:(lia) ltac:(lia)) as W3.
  destruct (rbr_get_bits_triple br (code_of (fs_of_rle s) of) mlb llb) as [[[ob mla] lla] br3].
  destruct (_ =? 0); [exact I|].
  destruct (done + 1 <? total).
  - pose proof (step_state _ _ ll br3 Sll W3) as S1.
    destruct (match fs_ll_rle s with None => fse_update_state (fs_ll s) ll br3 | Some _ => ROk (ll, br3) end) as [[ll' b1]|e|e]; cbn [rbind]; [|exact I|contradiction].
    destruct S1 as (Sll' & W4).
    pose proof (step_state _ _ ml b1 Sml W4) as S2.
    destruct (match fs_ml_rle s with None => fse_update_state (fs_ml s) ml b1 | Some _ => ROk (ml, b1) end) as [[ml' b2]|e|e]; cbn [rbind]; [|exact I|contradiction].
    destruct S2 as (Sml' & W5).
    pose proof (step_state _ _ of b2 Sof W5) as S3.
    destruct (match fs_of_rle s with None => fse_update_state (fs_of s) of b2 | Some _ => ROk (of, b2) end) as [[of' b3]|e|e]; cbn [rbind]; [|exact I|contradiction].
    destruct S3 as (Sof' & W6).
    destruct (rbr_bits_remaining b3 <? 0); [exact I|]. apply IH; try assumption. split; [exact Tll|]. split; assumption.
  - cbn [rbind]. destruct (rbr_bits_remaining br3 <? 0); [exact I|]. apply IH; try assumption. split; [exact Tll|]. split; assumption.
Qed.

Lemma init_state t M rle br : tab_ok M t rle -> rwf br ->
  match (match rle with None => fse_init_state t br | Some _ => ROk (fse_dec_new t, br) end) with
  | ROk (st, br') => dstate_ok t rle st /\ rwf br'
  | RErr _ => True
  | RPanic _ => False
  end.
Proof.
  intros (_ & Ht & _) W. destruct rle as [c|]; [split; [exact I|exact W]|].
  destruct Ht as [E0|R].
  - unfold fse_init_state. rewrite E0. cbn [Z.eqb]. exact I.
  - destruct (init_in t R br W) as (st & br' & -> & Hin & W'). split; [split; assumption|exact W'].
Qed.

Theorem decode_sequences_never_panics n modes source s : bytes_ok source = true -> fscratch_ok s ->
  match decode_sequences n modes source s with
  | ROk (s', seqs) => fscratch_ok s' /\ Forall seq_ok seqs
  | RErr _ => True
  | RPanic _ => False
  end.
Proof.
  intros B Hs. pose proof (decode_sequences_ok n modes source s) as SO. unfold decode_sequences in *.
  pose proof (maybe_update_ok modes source s B Hs) as MU.
  destruct (maybe_update_fse_tables modes source s) as [[s1 used]|e|e]; cbn [rbind] in *; [|exact I|contradiction].
  destruct MU as (Hs1 & Hu). destruct (Z.ltb_spec (zlen source) used); [lia|].
  destruct (rbr_skip_padding (rbr_new (drop_z used source))) as [br|] eqn:Esk; [|exact I].
  destruct (skip_padding_wf _ _ (rbr_new_wf _) Esk) as (W & _).
  pose proof Hs1 as (Tll & Tof & Tml).
  pose proof (init_state _ _ _ br Tll W) as I1.
  destruct (match fs_ll_rle s1 with None => _ | Some _ => _ end) as [[ll b1]|e|e]; cbn [rbind] in *; [|exact I|contradiction].
  destruct I1 as (Sll & W1).
  pose proof (init_state _ _ _ b1 Tof W1) as I2.
  destruct (match fs_of_rle s1 with None => _ | Some _ => _ end) as [[of b2]|e|e]; cbn [rbind] in *; [|exact I|contradiction].
  destruct I2 as (Sof & W2).
  pose proof (init_state _ _ _ b2 Tml W2) as I3.
  destruct (match fs_ml_rle s1 with None => _ | Some _ => _ end) as [[ml b3]|e|e]; cbn [rbind] in *; [|exact I|contradiction].
  destruct I3 as (Sml & W3).
  pose proof (seq_loop_no_panic (Z.to_nat n) n s1 ll ml of b3 0 [] Hs1 Sll Sml Sof W3) as NP.
  destruct (seq_loop (Z.to_nat n) n s1 ll ml of b3 0 []) as [[acc b4]|e|e]; cbn [rbind] in *; [|exact I|contradiction].
  destruct (0 <? rbr_bits_remaining b4); [exact I|]. split; [exact Hs1|]. eapply SO. reflexivity.
Qed.
