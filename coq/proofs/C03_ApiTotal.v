(** C03 at the level of the public entry points: decode_all, decode_from_to, the streaming read, read / collect /
    collect_to_writer never panic on any bytes, for every decoder in the sound condition; their loops end within their
    fuel because every round consumes input. *)
Require Import Zrs.lib.RsPrelude Zrs.gen.Generated Zrs.model.Headers Zrs.model.BitIO Zrs.model.FseDec Zrs.model.HufDec Zrs.model.BlockDec Zrs.model.FrameDec.
Require Import Zrs.proofs.C06_Drain Zrs.proofs.C05_Block Zrs.proofs.C06_Frame Zrs.proofs.C11_Reset Zrs.proofs.C14_Headers Zrs.proofs.C03_Desc.
Require Import Zrs.proofs.C03_FseBuild Zrs.proofs.C03_HufBuild Zrs.proofs.C03_Literals Zrs.proofs.C03_Sequences Zrs.proofs.C03_Exec Zrs.proofs.C03_BlockTotal Zrs.proofs.C03_FrameTotal.
Open Scope Z_scope.

Lemma sound_st_ok s : state_sound s -> C05_Block.st_ok s.
Proof. intros (A & _). exact A. Qed.
Lemma dicts_ok d : dec_sound d -> Forall dict_ok (fd_dicts d).
Proof. intros (HD & _). rewrite Forall_forall in *. intros x Hx. apply (HD x Hx). Qed.

(** every round of the block loop consumes at least the three header bytes *)
Lemma blocks_loop_progress fuel : forall s src strat lb bb s' rest, state_sound s -> bytes_ok src = true ->
  decode_blocks_loop fuel s src strat lb bb = ROk (s', rest) -> bytes_ok rest = true /\ (length rest + 3 <= length src)%nat.
Proof.
  induction fuel as [|f IH]; intros s src strat lb bb s' rest S B H; cbn [decode_blocks_loop] in H; [discriminate|].
  destruct (read_block_header_src src) as [[[[[last ty] dsize] csize] src1]|e|e] eqn:Eh; cbn [rbind] in H; try discriminate.
  destruct (read_block_header_src_spec _ _ _ _ _ _ B Eh) as (Hd & Hc & Hty & Hlen & B1).
  cbn [fr_scratch set_scratch] in H.
  pose proof (decode_block_content_never_panics ty dsize csize (fr_scratch s) src1 S B1 Hty ltac:(lia) ltac:(lia)) as DC.
  destruct (decode_block_content ty dsize csize (fr_scratch s) src1) as [[[sc n] src2]|e|e]; cbn [rbind] in H; try discriminate.
  destruct DC as (S' & B2 & L2).
  destruct last.
  - destruct (checksum_flag _).
    + destruct (read_exact 4 src2) as [[ck r]|] eqn:Er; [|discriminate]. injection H as _ <-.
      destruct (read_exact_spec 4 src2 ck r ltac:(lia) Er) as [-> _]. destruct (bytes_ok_app _ _ B2) as [_ Br].
      rewrite app_length in L2. split; [exact Br|lia].
    + injection H as _ <-. split; [exact B2|lia].
  - match type of H with (if ?c then _ else _) = _ => destruct c end.
    + injection H as _ <-. split; [exact B2|lia].
    + apply IH in H; [|exact S'|exact B2]. destruct H as (A & L). split; [exact A|lia].
Qed.

Lemma decode_blocks_step d src strat d' rest fin : dec_sound d -> bytes_ok src = true ->
  fdec_decode_blocks d src strat = ROk (d', rest, fin) ->
  dec_sound d' /\ bytes_ok rest = true /\ (length rest + 3 <= length src)%nat /\ is_some (fd_state d') = true.
Proof.
  intros HS B H. pose proof (fdec_decode_blocks_never_panics d src strat HS B) as NP. rewrite H in NP.
  unfold fdec_decode_blocks in H. destruct HS as (HD & HS). destruct (fd_state d) as [s|]; [|discriminate].
  destruct (decode_blocks_loop _ s src strat _ _) as [[s' r]|e|e] eqn:El; cbn [rbind] in H; try discriminate.
  injection H as <- <- _. destruct (blocks_loop_progress _ _ _ _ _ _ _ _ HS B El) as (A & L).
  split; [exact NP|]. split; [exact A|]. split; [exact L|reflexivity].
Qed.

(** draining keeps the decoder sound *)
Lemma drained_sound s s' out : state_sound s -> drained s s' out -> state_sound s'.
Proof.
  intros (_ & H & F) ((_ & _ & _ & _ & _ & _ & Eh & Ef & _) & Sok & _). split; [exact Sok|]. rewrite Eh, Ef. split; assumption.
Qed.

Lemma read_step d n out d' : dec_sound d -> 0 <= n -> fdec_read d n = (out, d') ->
  dec_sound d' /\ zlen out <= n /\ is_some (fd_state d') = is_some (fd_state d).
Proof.
  intros (HD & HS) Hn H. destruct (fd_state d) as [s|] eqn:Es.
  - destruct (read_spec d s n out d' Es (sound_st_ok s HS) Hn H) as (s' & Es' & Dr & Lo & _).
    assert (fd_dicts d' = fd_dicts d) as Ed.
    { unfold fdec_read in H. rewrite Es in H. destruct (if fr_finished s then _ else _) as [o b]. injection H as _ <-. reflexivity. }
    split; [split; [rewrite Ed; exact HD|rewrite Es'; apply (drained_sound s s' out HS Dr)]|]. split; [unfold zlen; lia|rewrite Es'; reflexivity].
  - unfold fdec_read in H. rewrite Es in H. injection H as <- <-. split; [split; [exact HD|rewrite Es; exact I]|]. split; [unfold zlen; cbn; lia|rewrite Es; reflexivity].
Qed.

(** *** decode_all *)
Lemma decode_all_inner_ok fuel : forall d input room w, (length input < fuel)%nat -> dec_sound d -> bytes_ok input = true -> 0 <= room ->
  match decode_all_inner fuel d input room w with
  | ROk (d', input', room', w') => dec_sound d' /\ bytes_ok input' = true /\ (length input' + 3 <= length input)%nat /\ 0 <= room'
  | RErr _ => True
  | RPanic _ => False
  end.
Proof.
  induction fuel as [|f IH]; intros d input room w Hf S B Hr; [lia|]. cbn [decode_all_inner].
  pose proof (fdec_decode_blocks_never_panics d input (SUptoBytes (1024 * 1024)) S B) as NP.
  destruct (fdec_decode_blocks d input (SUptoBytes (1024 * 1024))) as [[[d1 in1] fin]|e|e] eqn:Eb; cbn [rbind]; [|exact I|contradiction].
  destruct (decode_blocks_step _ _ _ _ _ _ S B Eb) as (S1 & B1 & L1 & _).
  destruct (fdec_read d1 room) as [out d2] eqn:Er. destruct (read_step _ _ _ _ S1 Hr Er) as (S2 & Lo & _).
  destruct (negb _); [exact I|]. destruct (fdec_is_finished d2).
  - split; [exact S2|]. split; [exact B1|]. split; [exact L1|lia].
  - specialize (IH d2 in1 (room - zlen out) (rev_append out w) ltac:(lia) S2 B1 ltac:(lia)).
    destruct (decode_all_inner f d2 in1 _ _) as [[[[d' i'] r'] w']|e|e]; [|exact I|contradiction].
    destruct IH as (A & B' & L & R). split; [exact A|]. split; [exact B'|]. split; [lia|exact R].
Qed.

Lemma reset_step d src d' rest evs : dec_sound d -> bytes_ok src = true -> fdec_reset d src = ROk (d', rest, evs) ->
  dec_sound d' /\ bytes_ok rest = true /\ (length rest <= length src)%nat /\ is_some (fd_state d') = true.
Proof.
  intros S B H. pose proof (fdec_reset_never_panics d src S) as NP. rewrite H in NP.
  destruct (fdec_reset_spec d src d' rest evs B (dicts_ok d S) H) as (s & hd & Es & _ & -> & _).
  destruct (bytes_ok_app _ _ B) as [_ Br]. rewrite app_length. split; [exact NP|]. split; [exact Br|]. split; [lia|rewrite Es; reflexivity].
Qed.

Lemma rfh_tail_not_skip d wd r n m l : rfh_tail d wd r n <> FhSkip m l.
Proof.
  unfold rfh_tail. destruct (dictionary_id_bytes d); try discriminate. destruct (Headers.take _ r) as [[? ?]|]; try discriminate.
  destruct (frame_content_size_bytes d); try discriminate. destruct (Headers.take _ _) as [[? ?]|]; discriminate.
Qed.

Lemma skip_frame_len input mx m len : frame_front input mx = inr (m, len) -> (8 <= length input)%nat.
Proof.
  unfold frame_front. destruct (read_frame_header input) as [h n|m' l'|e|e] eqn:E; try discriminate. intros _.
  unfold read_frame_header in E. destruct (Headers.take 4 input) as [[a r1]|] eqn:T1; [|discriminate].
  destruct (take_spec _ _ _ _ T1) as [-> L1].
  destruct (_ && _).
  - destruct (Headers.take 4 r1) as [[l r2]|] eqn:T2; [|discriminate]. destruct (take_spec _ _ _ _ T2) as [-> L2].
    rewrite !app_length. lia.
  - destruct (negb _); [discriminate|]. destruct (Headers.take 1 r1) as [[dl r2]|]; [|discriminate].
    exfalso. destruct (single_segment_flag _).
    + apply (rfh_tail_not_skip (znth dl 0) 0 r2 0 m' l'). exact E.
    + destruct (Headers.take 1 r2) as [[w r3]|]; [|discriminate]. apply (rfh_tail_not_skip (znth dl 0) (znth w 0) r3 1 m' l'). exact E.
Qed.

Lemma decode_all_outer_ok fuel : forall d input room w, (length input < fuel)%nat -> dec_sound d -> bytes_ok input = true -> 0 <= room ->
  match decode_all_outer fuel d input room w with
  | ROk (d', out) => dec_sound d'
  | RErr _ => True
  | RPanic _ => False
  end.
Proof.
  induction fuel as [|f IH]; intros d input room w Hf Sd B Hr; [lia|]. cbn [decode_all_outer].
  destruct input as [|x t] eqn:Ei; [exact Sd|]. rewrite <- Ei in *.
  destruct (frame_front input (fd_max_window d)) as [r|[m len]] eqn:Ef.
  - pose proof (fdec_reset_never_panics d input Sd) as NP.
    destruct (fdec_reset d input) as [[[d1 in1] evs]|e|e] eqn:Er; cbn [rbind]; [|exact I|contradiction].
    destruct (reset_step _ _ _ _ _ Sd B Er) as (S1 & B1 & L1 & _).
    pose proof (decode_all_inner_ok (S (S (length in1))) d1 in1 room w ltac:(lia) S1 B1 Hr) as IN.
    destruct (decode_all_inner _ d1 in1 room w) as [[[[d2 in2] room2] w2]|e|e]; cbn [rbind]; [|exact I|contradiction].
    destruct IN as (S2 & B2 & L2 & R2). apply IH; [lia|exact S2|exact B2|exact R2].
  - pose proof (skip_frame_len _ _ _ _ Ef) as L8.
    destruct (zlen (drop_z 8 input) <? len); [exact I|].
    apply IH; [|exact Sd|repeat apply bytes_ok_skipn; exact B|exact Hr].
    unfold drop_z. rewrite !skipn_length. change (Z.to_nat 8) with 8%nat. lia.
Qed.

Theorem fdec_decode_all_never_panics d input cap : dec_sound d -> bytes_ok input = true -> 0 <= cap ->
  match fdec_decode_all d input cap with
  | ROk (d', out) => dec_sound d'
  | RErr _ => True
  | RPanic _ => False
  end.
Proof. intros Sd B Hc. apply decode_all_outer_ok; [lia|exact Sd|exact B|exact Hc]. Qed.

(** *** the streaming decoder's read *)
Lemma stream_fill_ok fuel : forall d src want, (length src < fuel)%nat -> dec_sound d -> bytes_ok src = true ->
  match stream_fill fuel d src want with
  | ROk (d', src') => dec_sound d' /\ bytes_ok src' = true
  | RErr _ => True
  | RPanic _ => False
  end.
Proof.
  induction fuel as [|f IH]; intros d src want Hf Sd B; [lia|]. cbn [stream_fill].
  destruct (_ && _); [|split; assumption].
  pose proof (fdec_decode_blocks_never_panics d src (SUptoBytes (want - fdec_can_collect d)) Sd B) as NP.
  destruct (fdec_decode_blocks d src _) as [[[d1 s1] fin]|e|e] eqn:Eb; cbn [rbind]; [|exact I|contradiction].
  destruct (decode_blocks_step _ _ _ _ _ _ Sd B Eb) as (S1 & B1 & L1 & _). apply IH; [lia|exact S1|exact B1].
Qed.

Theorem stream_read_never_panics d src buf_len : dec_sound d -> bytes_ok src = true -> 0 <= buf_len ->
  match stream_read d src buf_len with
  | ROk (d', src', out) => dec_sound d' /\ bytes_ok src' = true /\ zlen out <= buf_len
  | RErr _ => True
  | RPanic _ => False
  end.
Proof.
  intros Sd B Hn. unfold stream_read. destruct (_ && _); [split; [exact Sd|]; split; [exact B|unfold zlen; cbn; lia]|].
  pose proof (stream_fill_ok (S (S (length src))) d src buf_len ltac:(lia) Sd B) as SF.
  destruct (stream_fill _ d src buf_len) as [[d1 s1]|e|e]; cbn [rbind]; [|exact I|contradiction].
  destruct SF as (S1 & B1). destruct (fdec_read d1 buf_len) as [out d2] eqn:Er.
  destruct (read_step _ _ _ _ S1 Hn Er) as (S2 & Lo & _). split; [exact S2|]. split; [exact B1|exact Lo].
Qed.

(** *** read, collect, collect_to_writer *)
Theorem fdec_read_sound d n : dec_sound d -> 0 <= n -> dec_sound (snd (fdec_read d n)) /\ zlen (fst (fdec_read d n)) <= n.
Proof. intros Sd Hn. destruct (fdec_read d n) as [out d'] eqn:E. destruct (read_step _ _ _ _ Sd Hn E) as (A & B & _). split; assumption. Qed.

Theorem fdec_collect_sound d : dec_sound d -> dec_sound (snd (fdec_collect d)).
Proof.
  intros (HD & HS). destruct (fdec_collect d) as [[out|] d'] eqn:E; cbn [snd].
  - destruct (fd_state d) as [s|] eqn:Es; [|unfold fdec_collect in E; rewrite Es in E; discriminate].
    destruct (collect_spec d s out d' Es (sound_st_ok s HS) E) as (s' & Es' & Dr & _).
    assert (fd_dicts d' = fd_dicts d) as Ed.
    { unfold fdec_collect in E. rewrite Es in E. destruct (st_is_finished s).
      - destruct (db_drain_all _) as [o b]. injection E as _ <-. reflexivity.
      - destruct (db_can_drain_to_window _); [|discriminate]. destruct (db_drain_amount _ _) as [o b]. injection E as _ <-. reflexivity. }
    split; [rewrite Ed; exact HD|rewrite Es'; apply (drained_sound s s' out HS Dr)].
  - assert (d' = d); [|subst d'; split; assumption].
    unfold fdec_collect in E. destruct (fd_state d) as [s|]; [|injection E as <-; reflexivity].
    destruct (st_is_finished s).
    + destruct (db_drain_all _) as [o b]. discriminate.
    + destruct (db_can_drain_to_window _); [destruct (db_drain_amount _ _) as [o b]; discriminate|injection E as <-; reflexivity].
Qed.

Theorem fdec_collect_to_writer_sound St (sstep : St -> Z -> sink_resp * St) d split st :
  dec_sound d -> (forall s, fd_state d = Some s -> 0 <= db_window (st_buf s)) ->
  let '(out, d', ok, st') := fdec_collect_to_writer sstep d split st in dec_sound d'.
Proof.
  intros (HD & HS) Hw. destruct (fdec_collect_to_writer sstep d split st) as [[[out d'] ok] st'] eqn:E.
  destruct (fd_state d) as [s|] eqn:Es.
  - destruct (collect_to_writer_spec St sstep d s split st out d' ok st' Es (sound_st_ok s HS) (Hw s eq_refl) E) as (s' & Es' & Dr & _).
    assert (fd_dicts d' = fd_dicts d) as Ed.
    { unfold fdec_collect_to_writer in E. rewrite Es in E. destruct (db_drain_to_sink _ _ _ _ _ _) as [[[o b] k] st2]. injection E as _ <- _ _. reflexivity. }
    split; [rewrite Ed; exact HD|rewrite Es'; apply (drained_sound s s' out HS Dr)].
  - unfold fdec_collect_to_writer in E. rewrite Es in E. injection E as _ <- _ _. split; [exact HD|rewrite Es; exact I].
Qed.

(** *** decode_from_to *)
Lemma dft_loop_ok fuel : forall s src, (length src < fuel)%nat -> state_sound s -> bytes_ok src = true ->
  match dft_loop fuel s src with
  | ROk (s', rest) => state_sound s'
  | RErr _ => True
  | RPanic _ => False
  end.
Proof.
  induction fuel as [|f IH]; intros s src Hf Sd B; [lia|]. cbn [dft_loop].
  destruct (zlen src <? 3); [exact Sd|].
  assert (NPh : no_panic (read_block_header_src src)).
  { unfold read_block_header_src. destruct (read_exact 3 src) as [[hb r]|] eqn:Er; [|exact I].
    destruct (read_exact_spec 3 src hb r ltac:(lia) Er) as [-> _]. destruct (bytes_ok_app _ _ B) as [Bh _].
    unfold read_block_header. rewrite block_type_field by (apply bytes_ok_nth; exact Bh). cbn [rbind].
    destruct (_ =? 3); [exact I|]. unfold block_content_size. destruct (_ >? _); cbn [rbind]; exact I. }
  destruct (read_block_header_src src) as [[[[[last ty] dsize] csize] src1]|e|e] eqn:Eh; cbn [rbind]; [|exact I|contradiction].
  destruct (read_block_header_src_spec _ _ _ _ _ _ B Eh) as (Hd & Hc & Hty & Hlen & B1).
  destruct (zlen src1 <? csize); [exact Sd|].
  cbn [fr_scratch set_scratch].
  pose proof (decode_block_content_never_panics ty dsize csize (fr_scratch s) src1 Sd B1 Hty ltac:(lia) ltac:(lia)) as DC.
  destruct (decode_block_content ty dsize csize (fr_scratch s) src1) as [[[sc n] src2]|e|e]; cbn [rbind]; [|exact I|contradiction].
  destruct DC as (S' & B2 & L2).
  destruct last.
  - destruct (checksum_flag _); [destruct (4 <=? zlen src2)|]; exact S'.
  - apply IH; [lia|exact S'|exact B2].
Qed.

Theorem fdec_decode_from_to_never_panics d source target_len : dec_sound d -> bytes_ok source = true -> 0 <= target_len ->
  match fdec_decode_from_to d source target_len with
  | ROk (d', consumed, out) => dec_sound d'
  | RErr _ => True
  | RPanic _ => False
  end.
Proof.
  intros Sd B Hn. unfold fdec_decode_from_to.
  set (first := if negb (fdec_is_finished d) || negb (is_some (fd_state d)) then _ else _).
  assert (HF : match first with
               | ROk (d1, early) => dec_sound d1 /\ is_some (fd_state d1) = true
               | RErr _ => True | RPanic _ => False end).
  { unfold first. clear first. destruct (negb (fdec_is_finished d) || negb (is_some (fd_state d))) eqn:Ec.
    - assert (H0 : match (match fd_state d with
                          | None => let* (d0, rest, _) := fdec_reset d source in ROk (d0, rest)
                          | Some _ => ROk (d, source) end) with
                   | ROk (d0, src) => dec_sound d0 /\ is_some (fd_state d0) = true /\ bytes_ok src = true
                   | RErr _ => True | RPanic _ => False end).
      { destruct (fd_state d) as [s|] eqn:Es.
        - split; [exact Sd|]. split; [rewrite Es; reflexivity|exact B].
        - pose proof (fdec_reset_never_panics d source Sd) as NP.
          destruct (fdec_reset d source) as [[[d0 rest] evs]|e|e] eqn:Er; cbn [rbind]; [|exact I|contradiction].
          destruct (reset_step _ _ _ _ _ Sd B Er) as (S0 & B0 & _ & I0). split; [exact S0|]. split; [exact I0|exact B0]. }
      destruct (match fd_state d with None => _ | Some _ => _ end) as [[d0 src]|e|e]; cbn [rbind]; [|exact I|contradiction].
      destruct H0 as (S0 & I0 & B0). destruct (fd_state d0) as [s|] eqn:Es0; [|discriminate].
      destruct (_ && _).
      + destruct (4 <=? zlen src).
        * split; [|reflexivity]. destruct S0 as (HD & HS). split; [exact HD|]. cbn [fd_state fdec_with_state]. rewrite Es0 in HS. exact HS.
        * split; [exact S0|rewrite Es0; reflexivity].
      + destruct S0 as (HD & HS). rewrite Es0 in HS.
        pose proof (dft_loop_ok (S (S (length src))) s src ltac:(lia) HS B0) as DL.
        destruct (dft_loop _ s src) as [[s' r]|e|e]; cbn [rbind]; [|exact I|contradiction].
        split; [split; [exact HD|exact DL]|reflexivity].
    - split; [exact Sd|]. apply orb_false_iff in Ec as [_ E2]. destruct (is_some (fd_state d)); [reflexivity|discriminate]. }
  destruct first as [[d1 early]|e|e]; cbn [rbind]; [|exact I|contradiction].
  destruct HF as (S1 & I1). destruct early as [[r w]|]; [exact S1|].
  destruct (fdec_read d1 target_len) as [out d2] eqn:Er. destruct (read_step _ _ _ _ S1 Hn Er) as (S2 & _ & I2).
  destruct (fd_state d2) as [s|] eqn:Es2; [exact S2|]. rewrite I1 in I2. discriminate.
Qed.

(** *** every history of calls *)
Inductive api_op :=
| OpAddDict (raw : list Z) | OpForceDict (id : Z) | OpSetMaxWindow (m : Z)
| OpReset (src : list Z) | OpDecodeBlocks (src : list Z) (strat : strategy)
| OpDecodeAll (input : list Z) (cap : Z) | OpDecodeFromTo (src : list Z) (n : Z)
| OpStreamRead (src : list Z) (n : Z) | OpRead (n : Z) | OpCollect.

(** arguments are byte strings and non-negative lengths (what the Rust types allow) *)
Definition call_ok (op : api_op) : Prop :=
  match op with
  | OpAddDict raw => bytes_ok raw = true
  | OpReset src | OpDecodeBlocks src _ => bytes_ok src = true
  | OpDecodeAll src n | OpDecodeFromTo src n | OpStreamRead src n => bytes_ok src = true /\ 0 <= n
  | OpRead n => 0 <= n
  | OpForceDict _ | OpSetMaxWindow _ | OpCollect => True
  end.

Definition api_step (d : fdec) (op : api_op) : res fdec :=
  match op with
  | OpAddDict raw => let* dd := decode_dict raw in ROk (fdec_add_dict d dd)
  | OpForceDict id => fdec_force_dict d id
  | OpSetMaxWindow m => ROk (fdec_set_max_window d m)
  | OpReset src => let* (d', _, _) := fdec_reset d src in ROk d'
  | OpDecodeBlocks src strat => let* (d', _, _) := fdec_decode_blocks d src strat in ROk d'
  | OpDecodeAll input cap => let* (d', _) := fdec_decode_all d input cap in ROk d'
  | OpDecodeFromTo src n => let* (d', _, _) := fdec_decode_from_to d src n in ROk d'
  | OpStreamRead src n => let* (d', _, _) := stream_read d src n in ROk d'
  | OpRead n => ROk (snd (fdec_read d n))
  | OpCollect => ROk (snd (fdec_collect d))
  end.

(** a call that fails leaves the caller with the decoder it had (the driver of the correspondence runs does the same) *)
Fixpoint api_run (d : fdec) (ops : list api_op) : res fdec :=
  match ops with
  | [] => ROk d
  | op :: t => match api_step d op with
               | ROk d' => api_run d' t
               | RErr _ => api_run d t
               | RPanic e => RPanic e
               end
  end.

Lemma api_step_sound d op : dec_sound d -> call_ok op ->
  match api_step d op with ROk d' => dec_sound d' | RErr _ => True | RPanic _ => False end.
Proof.
  intros Sd Ho. destruct op as [raw|id|m|src|src strat|input cap|src n|src n|n|]; cbn [api_step call_ok] in *.
  - pose proof (decode_dict_never_panics raw Ho) as NP. destruct (decode_dict raw) as [dd|e|e]; cbn [rbind]; [|exact I|contradiction].
    apply fdec_add_dict_sound; assumption.
  - apply fdec_force_dict_sound. exact Sd.
  - destruct Sd as (A & B). split; assumption.
  - pose proof (fdec_reset_never_panics d src Sd) as NP. destruct (fdec_reset d src) as [[[d' r] e]|e|e]; cbn [rbind]; [exact NP|exact I|contradiction].
  - pose proof (fdec_decode_blocks_never_panics d src strat Sd Ho) as NP. destruct (fdec_decode_blocks d src strat) as [[[d' r] f]|e|e]; cbn [rbind]; [exact NP|exact I|contradiction].
  - destruct Ho as (B & Hn). pose proof (fdec_decode_all_never_panics d input cap Sd B Hn) as NP. destruct (fdec_decode_all d input cap) as [[d' o]|e|e]; cbn [rbind]; [exact NP|exact I|contradiction].
  - destruct Ho as (B & Hn). pose proof (fdec_decode_from_to_never_panics d src n Sd B Hn) as NP. destruct (fdec_decode_from_to d src n) as [[[d' c] o]|e|e]; cbn [rbind]; [exact NP|exact I|contradiction].
  - destruct Ho as (B & Hn). pose proof (stream_read_never_panics d src n Sd B Hn) as NP. destruct (stream_read d src n) as [[[d' c] o]|e|e]; cbn [rbind]; [exact (proj1 NP)|exact I|contradiction].
  - apply (fdec_read_sound d n Sd Ho).
  - apply (fdec_collect_sound d Sd).
Qed.

Theorem api_run_never_panics ops : forall d, dec_sound d -> Forall call_ok ops ->
  match api_run d ops with ROk d' => dec_sound d' | RErr _ => True | RPanic _ => False end.
Proof.
  induction ops as [|op t IH]; intros d Sd Ho; cbn [api_run]; [exact Sd|].
  inversion Ho as [|? ? Hop Ht]; subst. pose proof (api_step_sound d op Sd Hop) as ST.
  destruct (api_step d op) as [d'|e|e]; [apply IH; assumption|apply IH; assumption|contradiction].
Qed.

Corollary no_history_panics ops : Forall call_ok ops -> no_panic (api_run fdec_new ops).
Proof.
  intros Ho. pose proof (api_run_never_panics ops fdec_new fdec_new_sound Ho) as H. destruct (api_run fdec_new ops); try exact I. contradiction.
Qed.
