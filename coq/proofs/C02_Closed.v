(** C02: the frame theorem of proofs/C02_Concrete.v with the compressor's remembered table kept abstract (a type [T]
    with a relation [trel] to the decoder's Huffman table), so that it can be instantiated with the code list the
    source remembers; then instantiated with the modelled normaliser and the modelled literals part. *)
Require Import Zrs.lib.RsPrelude Zrs.gen.Generated Zrs.model.Headers Zrs.model.BitIO Zrs.model.FseDec Zrs.model.HufDec Zrs.model.BlockDec
  Zrs.model.FrameDec Zrs.model.FrameEnc Zrs.model.Matcher.
Require Import Zrs.model.SeqEnc Zrs.model.FseEnc Zrs.model.SeqSection Zrs.model.BlockEnc Zrs.model.LitEnc.
Require Import Zrs.proofs.C06_Drain Zrs.proofs.C09_Lz Zrs.proofs.C17_Matcher Zrs.proofs.C12_SeqStream Zrs.proofs.C12_Desc Zrs.proofs.C12_Section
  Zrs.proofs.C13_Stream Zrs.proofs.C02_Block Zrs.proofs.C02_Roundtrip.
Require Import Zrs.proofs.C17_Shape Zrs.proofs.C02_Glue Zrs.proofs.C02_FastBlock.
Require Import Zrs.proofs.C02_BlockGen Zrs.proofs.C13_LitSection Zrs.proofs.C02_HufBlock Zrs.proofs.C02_FastGen Zrs.proofs.C02_Fastest.
Open Scope Z_scope.
Require Import Zrs.proofs.C02_Concrete.

Section Closed.
  (** the two table builders that are not modelled: the normaliser of the three code histograms, and the literals
      encoder (which also decides what table the compressor remembers) *)
  Variable norm : list sequence -> dist * dist * dist.
  Variable T : Type.
  Variable tnone : T.
  Variable trel : T -> huf_table -> Prop.
  Hypothesis trel_none : forall o h, trel o h -> trel tnone h.
  Hypothesis trel_init : trel tnone huf_new.
  Variable litenc : T -> list Z -> list Z * list Z * T.
  Record cst2 := { c2_d : mgd; c2_ht : T }.
  Hypothesis O1 : forall seqs, seqs <> [] -> forallb seq_range_b seqs = true -> Z.of_nat (length seqs) <= 98047 ->
    let '(dl, do, dm) := norm seqs in section_hyps_b dl do dm seqs = true.
  Hypothesis O2 : forall o lits h, trel o h -> zlen lits <= MAX_BLOCK_SIZE ->
    let '(hdr, payload, o') := litenc o lits in
    exists ht', lit_ok h lits hdr payload ht' /\ trel o' ht'.

  Definition cblock2 (cs : cst2) (blk : list Z) : list Z * cst2 :=
    match mstep (c2_d cs) (OpBlock blk false) with
    | ROk (d', Some ms) =>
        let lits := mseqs_lits ms in
        let seqs := mseqs_seqs ms in
        let '(hdr, payload, o') := litenc (c2_ht cs) lits in
        let '(dl, do, dm) := norm seqs in
        match seq_part dl do dm seqs with
        | ROk sp => (hdr ++ payload ++ sp, {| c2_d := d'; c2_ht := o' |})
        | _ => ([], {| c2_d := d'; c2_ht := o' |})
        end
    | _ => ([], cs)
    end.
  Definition cskip2 (cs : cst2) (blk : list Z) : cst2 :=
    match mstep (c2_d cs) (OpBlock blk true) with
    | ROk (d', _) => {| c2_d := d'; c2_ht := c2_ht cs |}
    | _ => cs
    end.
  Definition cfallback2 (cs : cst2) : cst2 := {| c2_d := c2_d cs; c2_ht := tnone |}.
  Definition creset2 (cs : cst2) : cst2 := {| c2_d := mgd_reset (c2_d cs); c2_ht := tnone |}.

  Definition alphabets2 (s : fse_scratch) : Prop :=
    t_max_symbol (fs_ll s) = MAX_LITERAL_LENGTH_CODE /\ t_max_symbol (fs_of s) = MAX_OFFSET_CODE /\
    t_max_symbol (fs_ml s) = MAX_MATCH_LENGTH_CODE.

  Definition Rel2 (cs : cst2) (sc : scratch) : Prop :=
    DInv (c2_d cs) /\ 131072 <= Z.of_nat (max_window (c2_d cs)) < 2 ^ 31 /\
    db_wf (sc_buf sc) /\ (exists pre, db_rev (sc_buf sc) = rev (retained (c2_d cs)) ++ pre) /\
    hist3 (sc_hist sc) /\ alphabets2 (sc_fse sc) /\ trel (c2_ht cs) (sc_huf sc).
  Definition Cinit2 (cs : cst2) : Prop := DInv (c2_d cs) /\ 131072 <= Z.of_nat (max_window (c2_d cs)) < 2 ^ 31.

  Lemma fits2 cs sc (blk : list Z) : Rel2 cs sc -> Z.of_nat (length blk) <= 131072 -> (length blk <= max_window (c2_d cs))%nat.
  Proof. intros (_ & Hw & _) H. lia. Qed.

  Lemma push_raw_rel2 cs sc blk d' (ht : T) dropped H :
    Rel2 cs sc -> DInv d' -> max_window d' = max_window (c2_d cs) ->
    retained (c2_d cs) = dropped ++ H -> retained d' = H ++ blk -> trel ht (sc_huf sc) ->
    Rel2 {| c2_d := d'; c2_ht := ht |} (sc_push_raw sc blk).
  Proof.
    intros (HI & Hw & W & (pre & R) & H3 & Al & Ht) HI' Hmw R1 R2 Ht'.
    unfold Rel2. cbn [c2_d c2_ht]. unfold sc_push_raw. cbn [sc_buf sc_hist sc_fse sc_huf].
    split; [exact HI'|]. split; [rewrite Hmw; exact Hw|]. split.
    { unfold db_wf, db_append_raw in *. cbn [db_len db_rev]. rewrite rev_append_rev, app_length, rev_length, W. lia. }
    split.
    { exists (rev dropped ++ pre). unfold db_append_raw. cbn [db_rev]. rewrite rev_append_rev, R, R1, R2, !rev_app_distr, <- !app_assoc. reflexivity. }
    split; [exact H3|]. split; [exact Al|exact Ht'].
  Qed.

  Lemma H_skip2 : forall cs sc blk, Rel2 cs sc -> blk <> [] -> Z.of_nat (length blk) <= 131072 ->
    all_same blk = true -> Rel2 (cskip2 cs blk) (sc_push_raw sc blk).
  Proof.
    intros cs sc blk HR _ Hsz _. pose proof HR as (HI & Hw & W & (pre & R) & H3 & Al & Ht).
    destruct (mstep_spec (c2_d cs) (OpBlock blk true) HI (fits2 cs sc blk HR Hsz)) as (d' & out & E & HI' & Hmw & dr & H & R1 & R2 & _).
    unfold cskip2. rewrite E. eapply push_raw_rel2; eassumption.
  Qed.

  Lemma cblock_spec2 cs sc blk : Rel2 cs sc -> Z.of_nat (length blk) <= 131072 ->
    exists d' ms hdr payload o' dl do dm sp dr H,
      mstep (c2_d cs) (OpBlock blk false) = ROk (d', Some ms) /\
      litenc (c2_ht cs) (mseqs_lits ms) = (hdr, payload, o') /\ norm (mseqs_seqs ms) = (dl, do, dm) /\
      seq_part dl do dm (mseqs_seqs ms) = ROk sp /\
      cblock2 cs blk = (hdr ++ payload ++ sp, {| c2_d := d'; c2_ht := o' |}) /\
      DInv d' /\ max_window d' = max_window (c2_d cs) /\ retained (c2_d cs) = dr ++ H /\ retained d' = H ++ blk /\
      (mseqs_seqs ms <> [] -> section_hyps_b dl do dm (mseqs_seqs ms) = true) /\
      Z.of_nat (length (mseqs_seqs ms)) <= 98047 /\ zlen (mseqs_lits ms) <= MAX_BLOCK_SIZE.
  Proof.
    intros HR Hsz. pose proof HR as (HI & Hw & W & (pre & R) & H3 & Al & Ht).
    destruct (mstep_spec (c2_d cs) (OpBlock blk false) HI (fits2 cs sc blk HR Hsz)) as (d' & out & E & HI' & Hmw & dr & H & R1 & R2 & R3 & ms & -> & A & B).
    pose proof (apply_seqs_length _ _ _ A) as Ltot. rewrite app_length in Ltot.
    assert (Hlong : Forall long_enough ms) by (eapply Forall_impl; [|exact B]; intros; eapply seq_bounds_long; eassumption).
    pose proof (mseqs_seqs_count _ Hlong) as Lseq. pose proof (mseqs_lits_length ms) as Llit.
    assert (Hcount : Z.of_nat (length (mseqs_seqs ms)) <= 98047) by lia.
    assert (Hrange : forallb seq_range_b (mseqs_seqs ms) = true) by (apply (matcher_seqs_in_range (max_window (c2_d cs))); [exact B|lia|lia]).
    destruct (litenc (c2_ht cs) (mseqs_lits ms)) as [[hdr payload] o'] eqn:El.
    destruct (norm (mseqs_seqs ms)) as [[dl do] dm] eqn:En.
    assert (Hh : mseqs_seqs ms <> [] -> section_hyps_b dl do dm (mseqs_seqs ms) = true).
    { intros Hne. pose proof (O1 (mseqs_seqs ms) Hne Hrange Hcount) as Ho. rewrite En in Ho. exact Ho. }
    destruct (seq_part_exists dl do dm (mseqs_seqs ms) Hcount Hh) as (sp & Esp).
    exists d', ms, hdr, payload, o', dl, do, dm, sp, dr, H.
    unfold cblock2. rewrite E, El, En, Esp. change MAX_BLOCK_SIZE with 131072. unfold zlen.
    split; [reflexivity|]. split; [reflexivity|]. split; [reflexivity|]. split; [reflexivity|]. split; [reflexivity|].
    split; [exact HI'|]. split; [exact Hmw|]. split; [exact R1|]. split; [exact R2|]. split; [exact Hh|]. split; [exact Hcount|]. lia.
  Qed.

  Lemma H_fallback2 : forall cs sc blk body cs', Rel2 cs sc -> blk <> [] -> Z.of_nat (length blk) <= 131072 ->
    cblock2 cs blk = (body, cs') -> Rel2 (cfallback2 cs') (sc_push_raw sc blk).
  Proof.
    intros cs sc blk body cs' HR _ Hsz Hc.
    destruct (cblock_spec2 cs sc blk HR Hsz) as (d' & ms & hdr & payload & o' & dl & do & dm & sp & dr & H & E & El & En & Esp & Ec & HI' & Hmw & R1 & R2 & _).
    rewrite Ec in Hc. injection Hc as _ <-. unfold cfallback2. cbn [c2_d c2_ht].
    pose proof HR as (_ & _ & _ & _ & _ & _ & Ht0). eapply push_raw_rel2; try eassumption. eapply trel_none. exact Ht0.
  Qed.

  Lemma H_block2 : forall cs sc blk body cs', Rel2 cs sc -> blk <> [] -> Z.of_nat (length blk) <= 131072 ->
    cblock2 cs blk = (body, cs') -> all_same blk = false ->
    (length body < length blk)%nat -> Z.of_nat (length body) <= MAX_BLOCK_SIZE ->
    exists sc', decompress_block (Z.of_nat (length body)) sc body = ROk sc' /\
                sc_content sc' = sc_content sc ++ blk /\ Rel2 cs' sc'.
  Proof.
    intros cs sc blk body cs' HR _ Hsz Hc _ _ _.
    destruct (cblock_spec2 cs sc blk HR Hsz) as (d' & ms & hdr & payload & o' & dl & do & dm & sp & dr & H & E & El & En & Esp & Ec & HI' & Hmw & R1 & R2 & Hh & Hcount & Hlit).
    rewrite Ec in Hc. injection Hc as <- <-.
    pose proof HR as (HI & Hw & W & (pre & R) & H3 & (M1 & M2 & M3) & Ht).
    pose proof (O2 (c2_ht cs) (mseqs_lits ms) (sc_huf sc) Ht Hlit) as Ho. rewrite El in Ho.
    destruct Ho as (ht' & (ty & regen & comp & streams & L1 & L2 & L3 & L4) & Ho').
    destruct (fastest_block_step hdr payload ty regen comp streams sc ht' (mseqs_lits ms) L1 L2 L3 L4
                (c2_d cs) blk d' ms dl do dm sp pre HI (fits2 cs sc blk HR Hsz) ltac:(change MAX_BLOCK_SIZE with 131072; lia) E eq_refl Esp Hh M1 M2 M3 W R H3)
      as (sc' & pre' & Hdec & Rd & W' & R' & H3' & Hu & _ & _ & N1 & N2 & N3).
    exists sc'. split; [exact Hdec|]. split.
    { unfold sc_content. rewrite Rd, rev_app_distr, rev_involutive. reflexivity. }
    unfold Rel2. cbn [c2_d c2_ht]. split; [exact HI'|]. split; [rewrite Hmw; exact Hw|]. split; [exact W'|].
    split; [exists pre'; exact R'|]. split; [exact H3'|]. split; [repeat split; assumption|].
    rewrite Hu. exact Ho'.
  Qed.

  Lemma H_reset2 : forall cs w, Cinit2 cs -> Rel2 (creset2 cs) (scratch_new w).
  Proof.
    intros cs w (HI & Hw).
    destruct (mstep_spec (c2_d cs) OpReset HI I) as (d' & out & E & HI' & Hmw & _ & Hr).
    cbn [mstep] in E. injection E as <- _.
    unfold Rel2, creset2, scratch_new. cbn [c2_d c2_ht sc_buf sc_hist sc_fse sc_huf].
    split; [exact HI'|]. split; [rewrite Hmw; exact Hw|]. split; [reflexivity|].
    split; [exists []; rewrite Hr; reflexivity|]. split; [eexists _, _, _; reflexivity|].
    split; [repeat split|]. exact trel_init.
  Qed.

  (** level Fastest, every input, every fragmentation of the reads, every block size, every reuse history of the
      compressor: the frame initialises a new decoder, decodes completely, leaves nothing behind, regenerates the input
      and carries the checksum *)
  Theorem fastest_roundtrip_concrete2 slice wsize hash32 cs data script frame cs' r' :
    Cinit2 cs -> 1 <= Z.of_nat slice <= 131072 -> 1 <= wsize <= 2 ^ 27 ->
    (forall h x, hash32 = Some h -> length (h x) = 4%nat) ->
    compress_frame cst2 cblock2 cskip2 cfallback2 creset2 LFastest slice wsize hash32 cs
      {| rd_data := data; rd_script := script |} = ROk (frame, cs', r') ->
    exists d1 rest evs s1 d2 s2,
      fdec_reset fdec_new frame = ROk (d1, rest, evs) /\ fd_state d1 = Some s1 /\
      fdec_decode_blocks d1 rest SAll = ROk (d2, [], true) /\ fd_state d2 = Some s2 /\
      buf_content s2 = data /\
      fr_checksum s2 = match hash32 with Some h => Some (le_val (h data)) | None => None end.
  Proof.
    apply (fastest_roundtrip cst2 cblock2 cskip2 cfallback2 Rel2 H_block2 H_skip2 H_fallback2 creset2 Cinit2 H_reset2).
  Qed.
End Closed.

(** *** instantiation: the modelled normaliser, the modelled literals part *)
Require Import Zrs.model.SeqNorm Zrs.proofs.C02_O1 Zrs.model.HufEnc Zrs.model.HufCounts Zrs.model.LitComp Zrs.proofs.C02_LitPart.

(** the literals part as a total function: where [literals_part] is not defined on bytes (the model's values are
    integers) or returns a panic value (the source's assertion that a compressed weight description stays below 128
    bytes), raw literals are written *)
Definition litenc_model (o : option codes_t) (lits : list Z) : list Z * list Z * option codes_t :=
  if forallb (fun s => (0 <=? s) && (s <=? 255)) lits then
    match literals_part o lits with
    | ROk r => r
    | _ => (raw_lit_header (zlen lits), lits, o)
    end
  else (raw_lit_header (zlen lits), lits, o).

Definition trel_model (o : option codes_t) (h : huf_table) : Prop := tab_rel o h /\ hinv h.

Lemma litenc_model_meets_O2 : forall o lits h, trel_model o h -> zlen lits <= MAX_BLOCK_SIZE ->
  let '(hdr, payload, o') := litenc_model o lits in
  exists ht', lit_ok h lits hdr payload ht' /\ trel_model o' ht'.
Proof.
  intros o lits h (Hrel & Hinv) Hlen. unfold litenc_model.
  assert (Raw : exists ht', lit_ok h lits (raw_lit_header (zlen lits)) lits ht' /\ trel_model o ht')
    by (exists h; split; [apply raw_lit_ok; exact Hlen|split; assumption]).
  destruct (forallb (fun s => (0 <=? s) && (s <=? 255)) lits) eqn:Eb; [|exact Raw].
  destruct (literals_part o lits) as [[[hdr payload] o']|e|e] eqn:El; [|exact Raw|exact Raw].
  assert (Hbytes : Forall (fun s => 0 <= s <= 255) lits).
  { apply Forall_forall. intros s Hs. rewrite forallb_forall in Eb. specialize (Eb s Hs). lia. }
  destruct (literals_part_meets_O2 o lits h hdr payload o' Hrel Hinv Hbytes Hlen El) as (ht' & A & B & C).
  exists ht'. split; [exact A|split; assumption].
Qed.

(** level Fastest with nothing left as a parameter: the match finder model, the normaliser model, the literals part *)
Theorem fastest_roundtrip_closed slice wsize hash32 cs data script frame cs' r' :
  Cinit2 _ cs -> 1 <= Z.of_nat slice <= 131072 -> 1 <= wsize <= 2 ^ 27 ->
  (forall h x, hash32 = Some h -> length (h x) = 4%nat) ->
  compress_frame (cst2 (option codes_t)) (cblock2 norm_model _ litenc_model) (cskip2 _) (cfallback2 _ None) (creset2 _ None) LFastest slice wsize hash32 cs
    {| rd_data := data; rd_script := script |} = ROk (frame, cs', r') ->
  exists d1 rest evs s1 d2 s2,
    fdec_reset fdec_new frame = ROk (d1, rest, evs) /\ fd_state d1 = Some s1 /\
    fdec_decode_blocks d1 rest SAll = ROk (d2, [], true) /\ fd_state d2 = Some s2 /\
    buf_content s2 = data /\
    fr_checksum s2 = match hash32 with Some h => Some (le_val (h data)) | None => None end.
Proof.
  apply (fastest_roundtrip_concrete2 norm_model (option codes_t) None trel_model).
  - intros o h (A & B). split; [intros codes E; discriminate|exact B].
  - split; [intros codes E; discriminate|reflexivity].
  - exact norm_model_meets_O1.
  - exact litenc_model_meets_O2.
Qed.
