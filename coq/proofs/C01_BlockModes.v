(** C01: a whole compressed block with ANY literals layout the literals decoder reads back and ANY combination of the four
    sequence-table modes decodes to the literals and sequences it was written from, which are then executed. *)
Require Import Zrs.lib.RsPrelude Zrs.gen.Generated Zrs.model.Headers Zrs.model.BitIO Zrs.model.FseDec Zrs.model.HufDec Zrs.model.BlockDec.
Require Import Zrs.model.BitStream Zrs.model.SeqEnc Zrs.model.FseEnc Zrs.model.SeqSection Zrs.model.BlockEnc.
Require Import Zrs.proofs.C12_Stream Zrs.proofs.C12_SeqStream Zrs.proofs.C12_Section Zrs.proofs.C02_Block Zrs.proofs.C12_SeqStreamR Zrs.proofs.C12_Modes.
Open Scope Z_scope.

Section GenModes.
  Variables (hdr payload : list Z) (ty regen : Z) (comp streams : option Z).
  Variable sc : scratch.
  Variables (ht' : huf_table) (lits : list Z).
  Hypothesis Hhdr : forall rest, lit_header_parse (hdr ++ rest) = ROk (zlen hdr, ty, regen, comp, streams).
  Hypothesis Hupper : match comp with Some x => x | None => if ty =? 1 then 1 else regen end = zlen payload.
  Hypothesis Hregen : regen = zlen lits /\ regen <= MAX_BLOCK_SIZE.
  Hypothesis Hlits : decode_literals {| ls_type := ty; ls_regen := regen; ls_comp := comp; ls_streams := streams |} (sc_huf sc) payload
                     = ROk (ht', lits, zlen payload).

  Variables (mll mof mml : tmode) (Dll Dof Dml : fse_table) (rll rof rml : option Z).
  Hypothesis Hll : mtable mll (fs_ll (sc_fse sc)) (fs_ll_rle (sc_fse sc)) LL_MAX_LOG MAX_LITERAL_LENGTH_CODE LL_DEFAULT_ACC_LOG LITERALS_LENGTH_DEFAULT_DISTRIBUTION Dll rll.
  Hypothesis Hof : mtable mof (fs_of (sc_fse sc)) (fs_of_rle (sc_fse sc)) OF_MAX_LOG MAX_OFFSET_CODE OF_DEFAULT_ACC_LOG OFFSET_DEFAULT_DISTRIBUTION Dof rof.
  Hypothesis Hml : mtable mml (fs_ml (sc_fse sc)) (fs_ml_rle (sc_fse sc)) ML_MAX_LOG MAX_MATCH_LENGTH_CODE ML_DEFAULT_ACC_LOG MATCH_LENGTH_DEFAULT_DISTRIBUTION Dml rml.
  Variables (sl sm so : list Z).
  Hypothesis Rll : tab_ready Dll rll sl.
  Hypothesis Rml : tab_ready Dml rml sm.
  Hypothesis Rof : tab_ready Dof rof so.

  Theorem block_decodes_modes qs : qs <> [] -> Forall cseq_ok qs -> Forall (q_in sl sm so) qs -> Z.of_nat (length qs) <= 98047 ->
    let stream := stream_bytes (enc_fields (enc_for Dll rll) (enc_for Dml rml) (enc_for Dof rof) qs) in
    let sp := spec_seqnum_bytes (Z.of_nat (length qs)) ++ modes_byte mll mof mml :: (mbytes mll ++ mbytes mof ++ mbytes mml ++ stream) in
    exists vals, Forall2 (fun q v => cseq_value q = Some v) qs vals /\
      decompress_block (zlen (hdr ++ payload ++ sp)) sc (hdr ++ payload ++ sp) =
        let* (buf, hist) := execute_sequences vals lits (sc_buf sc) (sc_hist sc) in
        ROk {| sc_huf := ht'; sc_fse := scr Dll rll Dml rml Dof rof; sc_buf := buf; sc_hist := hist |}.
  Proof.
    intros Hne Hok Hin Hs stream sp. destruct Hregen as (Hr & Hmax).
    destruct (sequence_section_roundtrip_modes mll mof mml (sc_fse sc) Dll Dof Dml rll rof rml Hll Hof Hml sl sm so Rll Rml Rof qs Hne Hok Hin) as (vals & Hdec & Hv).
    fold stream in Hdec. exists vals. split; [exact Hv|].
    unfold decompress_block. rewrite Hhdr. rewrite drop_app.
    destruct (Z.ltb_spec MAX_BLOCK_SIZE regen) as [H|_]; [lia|].
    rewrite Hupper.
    destruct (Z.ltb_spec (zlen (payload ++ sp)) (zlen payload)) as [H|_]; [rewrite zlen_app in H; unfold zlen in H; lia|].
    rewrite take_app, Hlits. cbn [rbind].
    rewrite Hr, Z.eqb_refl, Z.eqb_refl. cbn [negb]. rewrite drop_app.
    assert (Hn : 1 <= Z.of_nat (length qs) <= 98047) by (destruct qs; [congruence|cbn [length] in *; lia]).
    unfold sp. rewrite seq_header_after_seqnum by exact Hn.
    set (sec := mbytes mll ++ mbytes mof ++ mbytes mml ++ stream) in *.
    replace (drop_z (zlen (spec_seqnum_bytes (Z.of_nat (length qs))) + 1) (spec_seqnum_bytes (Z.of_nat (length qs)) ++ modes_byte mll mof mml :: sec)) with sec.
    2:{ replace (spec_seqnum_bytes (Z.of_nat (length qs)) ++ modes_byte mll mof mml :: sec)
          with ((spec_seqnum_bytes (Z.of_nat (length qs)) ++ [modes_byte mll mof mml]) ++ sec) by (rewrite <- app_assoc; reflexivity).
        replace (zlen (spec_seqnum_bytes (Z.of_nat (length qs))) + 1) with (zlen (spec_seqnum_bytes (Z.of_nat (length qs)) ++ [modes_byte mll mof mml]))
          by (rewrite zlen_app; reflexivity).
        rewrite drop_app. reflexivity. }
    match goal with |- context [negb (?a + ?b + ?c + ?d =? ?e)] => replace (a + b + c + d =? e) with true end.
    2:{ symmetry. apply Z.eqb_eq. unfold zlen. rewrite !app_length. cbn [length]. rewrite ?app_length. cbn [length]. lia. }
    cbn [negb].
    destruct (Z.eqb_spec (Z.of_nat (length qs)) 0) as [H|_]; [lia|]. cbn [negb].
    rewrite Hdec. cbn [rbind]. reflexivity.
  Qed.
End GenModes.
