(** C06: decoding does not depend on how much history older than the reach of the offsets the buffer still holds.
    Draining removes the oldest bytes of the buffer; the theorems below say that whatever a block decodes to with
    LESS history it decodes to with MORE history (the same new bytes, the same tables and offsets): so for a frame
    whose offsets stay within what is retained (every valid frame: offsets are at most the window, and the window is
    always retained), the decoded bytes are the same whether and when the caller drains.  (Frames without dictionary:
    with a dictionary the reach of the dictionary itself depends on the amount of output, see C09.) *)
Require Import Zrs.lib.RsPrelude Zrs.gen.Generated Zrs.model.Headers Zrs.model.BitIO Zrs.model.FseDec Zrs.model.HufDec Zrs.model.BlockDec.
Require Import Zrs.proofs.C06_Drain Zrs.proofs.C05_Block Zrs.proofs.C09_Lz.
Open Scope Z_scope.

(** the same buffer with [old] more bytes of history behind it *)
Definition extend (b : dbuf) (old : list Z) : dbuf :=
  {| db_rev := db_rev b ++ old; db_len := db_len b + zlen old; db_dict := db_dict b; db_window := db_window b;
     db_total_out := db_total_out b; db_hashed_rev := db_hashed_rev b |}.

Lemma extend_wf b old : db_wf b -> db_wf (extend b old).
Proof. unfold db_wf, extend, zlen. cbn. rewrite app_length. lia. Qed.

Lemma extend_push b old a : extend (db_push b a) old = db_push (extend b old) a.
Proof.
  unfold extend, db_push, db_add_total, db_append_raw. cbn. f_equal; [|lia].
  rewrite !rev_append_rev, app_assoc. reflexivity.
Qed.

Lemma db_repeat_extend b old off ml b' : db_wf b -> db_dict b = [] -> 1 <= off -> 0 <= ml ->
  db_repeat b off ml = ROk b' -> db_repeat (extend b old) off ml = ROk (extend b' old).
Proof.
  intros W D Ho Hm H. unfold db_repeat in *. cbn [extend db_len db_dict db_rev db_window db_total_out].
  unfold db_wf in W.
  destruct (Z.ltb_spec (db_len b) off) as [Hfar|Hnear].
  - (* without a dictionary an offset beyond the buffer is an error *)
    rewrite D in H. cbn [length Z.of_nat] in H. destruct (db_total_out b <=? db_window b); [|discriminate].
    destruct (Z.ltb_spec 0 (off - db_len b)) as [_|]; [discriminate|lia].
  - destruct ((off =? 0) && (0 <? ml)) eqn:E0; [discriminate|]. injection H as <-.
    destruct (Z.ltb_spec (db_len b + zlen old) off) as [|_]; [unfold zlen in *; lia|].
    f_equal. unfold extend, db_add_total, db_set_rev. cbn. f_equal; [|lia].
    rewrite !lz_copy_fast_eq by (rewrite ?app_length; lia). apply lz_copy_app; lia.
Qed.

Theorem exec_loop_more_history seqs : forall lits buf hist ssum buf' hist' rest ssum' old,
  db_wf buf -> db_dict buf = [] -> hist_ok hist -> Forall seq_ok seqs ->
  exec_loop seqs lits buf hist ssum = ROk (buf', hist', rest, ssum') ->
  exec_loop seqs lits (extend buf old) hist ssum = ROk (extend buf' old, hist', rest, ssum').
Proof.
  induction seqs as [|sq t IH]; intros lits buf hist ssum buf' hist' rest ssum' old W D Hh Hs H.
  - cbn [exec_loop] in *. injection H as <- <- <- <-. reflexivity.
  - inversion Hs as [|? ? (Hll & Hml & Hof) Hs']; subst. cbn [exec_loop] in *.
    destruct (MAX_BLOCK_SIZE <? ssum + sq_ll sq + sq_ml sq); [discriminate|].
    remember (if 0 <? sq_ll sq
              then match split_at (Z.to_nat (sq_ll sq)) lits with
                   | Some (a, rest0) => ROk (db_push buf a, rest0)
                   | None => RErr "NotEnoughBytesForSequence"
                   end
              else ROk (buf, lits)) as step1 eqn:E.
    destruct step1 as [[buf1 lits1]|e|e]; cbn [rbind] in H; [|discriminate|discriminate]. symmetry in E.
    assert (E1 : (if 0 <? sq_ll sq
              then match split_at (Z.to_nat (sq_ll sq)) lits with
                   | Some (a, rest0) => ROk (db_push (extend buf old) a, rest0)
                   | None => RErr "NotEnoughBytesForSequence"
                   end
              else ROk (extend buf old, lits)) = ROk (extend buf1 old, lits1) /\ db_wf buf1 /\ db_dict buf1 = []).
    { destruct (0 <? sq_ll sq).
      - destruct (split_at (Z.to_nat (sq_ll sq)) lits) as [[a r]|]; [|discriminate]. injection E as <- <-.
        rewrite extend_push. split; [reflexivity|]. split; [apply push_inv; exact W|exact D].
      - injection E as <- <-. repeat split; assumption. }
    destruct E1 as (E1 & W1 & D1). rewrite E1. cbn [rbind].
    pose proof (offhist_ok (sq_of sq) (sq_ll sq) hist Hof Hh) as [Ha Hh1].
    destruct (do_offset_history (sq_of sq) (sq_ll sq) hist) as [actual hist1]. cbn [fst snd] in *.
    destruct (Z.eqb_spec actual 0) as [|Hnz]; [discriminate|].
    remember (if 0 <? sq_ml sq then db_repeat buf1 actual (sq_ml sq) else ROk buf1) as step2 eqn:E2.
    destruct step2 as [buf2|e|e]; cbn [rbind] in H; [|discriminate|discriminate]. symmetry in E2.
    assert (E3 : (if 0 <? sq_ml sq then db_repeat (extend buf1 old) actual (sq_ml sq) else ROk (extend buf1 old)) = ROk (extend buf2 old)
                 /\ db_wf buf2 /\ db_dict buf2 = []).
    { destruct (0 <? sq_ml sq).
      - assert (Ha1 : 1 <= actual) by lia.
        rewrite (db_repeat_extend _ old _ _ _ W1 D1 Ha1 Hml E2). split; [reflexivity|].
        destruct (db_repeat_inv _ _ _ _ W1 Hml Ha E2) as (W2 & _ & (M2 & _)). split; [exact W2|]. rewrite M2. exact D1.
      - injection E2 as <-. repeat split; assumption. }
    destruct E3 as (E3 & W2 & D2). rewrite E3. cbn [rbind].
    destruct (2 ^ 32 <=? ssum + sq_ml sq + sq_ll sq); [discriminate|].
    apply IH; assumption.
Qed.

Theorem execute_sequences_more_history seqs lits buf hist buf' hist' old :
  db_wf buf -> db_dict buf = [] -> hist_ok hist -> Forall seq_ok seqs ->
  execute_sequences seqs lits buf hist = ROk (buf', hist') ->
  execute_sequences seqs lits (extend buf old) hist = ROk (extend buf' old, hist').
Proof.
  intros W D Hh Hs H. unfold execute_sequences in *.
  destruct (exec_loop seqs lits buf hist 0) as [[[[b1 h1] rest] ssum]|e|e] eqn:E; cbn [rbind] in H; [|discriminate|discriminate].
  rewrite (exec_loop_more_history _ _ _ _ _ _ _ _ _ old W D Hh Hs E). cbn [rbind].
  destruct ((0 <? zlen rest) && (MAX_BLOCK_SIZE <? ssum + zlen rest)); [discriminate|].
  assert (Hlen : forall x, db_len (extend x old) - db_len (extend buf old) = db_len x - db_len buf) by (intros; cbn; lia).
  destruct (0 <? zlen rest).
  - rewrite <- extend_push, Hlen. destruct (negb _); [discriminate|]. injection H as <- <-. reflexivity.
  - rewrite Hlen. destruct (negb _); [discriminate|]. injection H as <- <-. reflexivity.
Qed.

(** *** whole blocks *)
Definition sc_extend (sc : scratch) (old : list Z) : scratch :=
  {| sc_huf := sc_huf sc; sc_fse := sc_fse sc; sc_buf := extend (sc_buf sc) old; sc_hist := sc_hist sc |}.

Theorem decompress_block_more_history cs sc raw sc' old :
  scratch_ok sc -> db_dict (sc_buf sc) = [] ->
  decompress_block cs sc raw = ROk sc' -> decompress_block cs (sc_extend sc old) raw = ROk (sc_extend sc' old).
Proof.
  intros [W Hh] D H. unfold decompress_block in *. cbn [sc_extend sc_huf sc_fse sc_buf sc_hist].
  destruct (lit_header_parse raw) as [[[[[used ty] regen] comp] streams]|e|e]; try discriminate.
  cbv zeta in *. destruct (MAX_BLOCK_SIZE <? regen); [discriminate|].
  destruct (zlen (drop_z used raw) <? _); [discriminate|].
  destruct (decode_literals _ (sc_huf sc) _) as [[[ht lits] used_lit]|e|e]; cbn [rbind] in *; try discriminate.
  destruct (negb (regen =? zlen lits)); [discriminate|]. destruct (negb (used_lit =? _)); [discriminate|].
  destruct (sequences_header_parse 0 None _) as [[[useq nseq] modes]|e|e]; try discriminate.
  destruct (negb (_ =? cs)); [discriminate|].
  destruct (negb (nseq =? 0)).
  - destruct (decode_sequences nseq modes _ (sc_fse sc)) as [[fs seqs]|e|e] eqn:Es; cbn [rbind] in *; try discriminate.
    pose proof (decode_sequences_ok _ _ _ _ _ _ Es) as Hs.
    destruct (execute_sequences seqs lits (sc_buf sc) (sc_hist sc)) as [[buf hist]|e|e] eqn:Ex; cbn [rbind] in *; try discriminate.
    rewrite (execute_sequences_more_history _ _ _ _ _ _ old W D Hh Hs Ex). cbn [rbind].
    injection H as <-. reflexivity.
  - destruct (negb (_ =? 0)); [discriminate|]. injection H as <-. unfold sc_extend. cbn. rewrite extend_push. reflexivity.
Qed.

Lemma extend_append_raw b old a : extend (db_append_raw b a) old = db_append_raw (extend b old) a.
Proof.
  unfold extend, db_append_raw. cbn. f_equal; [|lia]. rewrite !rev_append_rev, app_assoc. reflexivity.
Qed.

Theorem decode_block_content_more_history ty d c sc src sc' n rest old :
  scratch_ok sc -> db_dict (sc_buf sc) = [] ->
  decode_block_content ty d c sc src = ROk (sc', n, rest) ->
  decode_block_content ty d c (sc_extend sc old) src = ROk (sc_extend sc' old, n, rest).
Proof.
  intros Hs D H. unfold decode_block_content in *.
  destruct (ty =? 1).
  { destruct (read_exact 1 src) as [[b r]|]; [|discriminate]. injection H as <- <- <-.
    unfold sc_extend. cbn. rewrite extend_append_raw. reflexivity. }
  destruct (ty =? 0).
  { destruct (read_exact d src) as [[b r]|]; [|discriminate]. injection H as <- <- <-.
    unfold sc_extend. cbn. rewrite extend_append_raw. reflexivity. }
  destruct (ty =? 2); [|discriminate].
  destruct (read_exact c src) as [[b r]|]; [|discriminate].
  destruct (decompress_block c sc b) as [x|e|e] eqn:E; cbn [rbind] in H; try discriminate.
  rewrite (decompress_block_more_history _ _ _ _ old Hs D E). cbn [rbind]. injection H as <- <- <-. reflexivity.
Qed.

(** *** the block loop (strategy All): a decoder that kept more history produces the same frame state, with the
    extra history still behind the buffer *)
Require Import Zrs.model.FrameDec.

Definition st_extend (s : fstate) (old : list Z) : fstate :=
  {| fr_header := fr_header s; fr_scratch := sc_extend (fr_scratch s) old; fr_finished := fr_finished s;
     fr_blocks := fr_blocks s; fr_bytes_read := fr_bytes_read s; fr_checksum := fr_checksum s; fr_using_dict := fr_using_dict s |}.

Theorem loop_more_history fuel : forall s src lb lb' bb s' rest old,
  st_ok s -> db_dict (sc_buf (fr_scratch s)) = [] -> bytes_ok src = true ->
  decode_blocks_loop fuel s src SAll lb bb = ROk (s', rest) ->
  decode_blocks_loop fuel (st_extend s old) src SAll lb' bb = ROk (st_extend s' old, rest).
Proof.
  induction fuel as [|f IH]; intros s src lb lb' bb s' rest old Hs D B H; [discriminate|].
  cbn [decode_blocks_loop] in *.
  destruct (read_block_header_src src) as [[[[[last ty] d] c] r1]|e|e] eqn:Eh; cbn [rbind] in *; try discriminate.
  destruct (read_block_header_src_spec _ _ _ _ _ _ B Eh) as (Hd & Hc & Hty & Hl1 & B1).
  cbn [set_scratch fr_scratch st_extend] in *.
  destruct (decode_block_content ty d c (fr_scratch s) r1) as [[[sc nb] r2]|e|e] eqn:Ec; cbn [rbind] in *; try discriminate.
  rewrite (decode_block_content_more_history _ _ _ _ _ _ _ _ old Hs D Ec). cbn [rbind].
  destruct (decode_block_content_inv _ _ _ _ _ _ _ _ Hs Hd (proj1 Hc) Ec) as (S1 & (M1 & _) & _ & _ & (cons_ & Hsplit & _)).
  assert (B2 : bytes_ok r2 = true) by (rewrite Hsplit in B1; apply (bytes_ok_app _ _ B1)).
  destruct last.
  - unfold checksum_flag in *. cbn [set_scratch fr_header st_extend] in *.
    destruct (content_checksum_flag (fh_desc (fr_header s))).
    + destruct (read_exact 4 r2) as [[ck r3]|]; [|discriminate]. injection H as <- <-. reflexivity.
    + injection H as <- <-. reflexivity.
  - cbn [negb] in *.
    specialize (IH (set_scratch (set_scratch s (fr_scratch s) 3 0) sc nb 1) r2 lb lb' bb s' rest old).
    cbn [set_scratch fr_scratch] in IH.
    assert (Hst : st_ok (set_scratch (set_scratch s (fr_scratch s) 3 0) sc nb 1)) by exact S1.
    specialize (IH Hst ltac:(rewrite M1; exact D) B2 H).
    exact IH.
Qed.
