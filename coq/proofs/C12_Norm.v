(** C12: the compressor's normaliser returns a normalised distribution -- every probability >= 0, total exactly
    2^accuracy_log, accuracy log within 5..max_log, symbols that occur keep a probability >= 1 (so the last entry is
    non-zero and the table description round trip C12_table_description_roundtrip applies to it). *)
Require Import Zrs.lib.RsPrelude Zrs.model.BitIO Zrs.model.FseDec Zrs.model.FseEnc Zrs.model.FseNorm.
Open Scope Z_scope.

Lemma upd_length {A} (l : list A) : forall i v, length (upd l i v) = length l.
Proof. induction l as [|h t IH]; intros i v; destruct i; cbn [upd length]; try reflexivity. rewrite IH. reflexivity. Qed.

Lemma zsum_upd l : forall i v, (i < length l)%nat -> zsum (upd l i v) = zsum l - nth i l 0 + v.
Proof.
  induction l as [|h t IH]; intros i v Hi; [cbn in Hi; lia|]. destruct i as [|i]; cbn [upd zsum fold_right nth].
  - lia.
  - fold (zsum (upd t i v)) (zsum t). rewrite IH by (cbn in Hi; lia). lia.
Qed.

Lemma nth_upd_same l : forall i (v : Z), (i < length l)%nat -> nth i (upd l i v) 0 = v.
Proof. induction l as [|h t IH]; intros i v Hi; [cbn in Hi; lia|]. destruct i; cbn [upd nth]; [reflexivity|]. apply IH. cbn in Hi. lia. Qed.
Lemma nth_upd_other l : forall i j (v : Z), i <> j -> nth j (upd l i v) 0 = nth j l 0.
Proof.
  induction l as [|h t IH]; intros i j v Hn; [destruct i; destruct j; reflexivity|].
  destruct i; destruct j; cbn [upd nth]; try reflexivity; try lia. apply IH. lia.
Qed.

(** a per-position property preserved by a point update *)
Lemma Forall2_upd {P : Z -> Z -> Prop} (a l : list Z) : forall i v, Forall2 P a l -> (forall x, nth_error a i = Some x -> P x v) -> Forall2 P a (upd l i v).
Proof.
  intros i v H. revert i. induction H as [|x y a' l' Hxy H IH]; intros i Hv.
  - destruct i; constructor.
  - destruct i; cbn [upd]; constructor; auto.
Qed.

(** [keeps c p]: the probability [p] of a symbol with count [c]: zero iff the symbol does not occur, else at least 1 *)
Definition keeps (c p : Z) : Prop := (c <= 0 -> p = 0) /\ (0 < c -> 1 <= p).

Lemma last_max_from_lt l : forall i best bv, (best < i)%nat -> (last_max_from l i best bv < i + length l)%nat.
Proof.
  induction l as [|x t IH]; intros i best bv Hb; cbn [last_max_from length]; [lia|].
  destruct (bv <=? x); [specialize (IH (S i) i x ltac:(lia))|specialize (IH (S i) best bv ltac:(lia))]; lia.
Qed.
Lemma last_max_idx_lt l : l <> [] -> (last_max_idx l < length l)%nat.
Proof. destruct l as [|x t]; [congruence|]. intros _. unfold last_max_idx. pose proof (last_max_from_lt t 1 0 x ltac:(lia)). cbn [length]. lia. Qed.

Lemma first_min_spec l : forall i best j m, first_min_gt1_from l i best = Some (j, m) ->
  (best = Some (j, m)) \/ ((i <= j < i + length l)%nat /\ nth (j - i) l 0 = m /\ 1 < m).
Proof.
  induction l as [|x t IH]; intros i best j m H; cbn [first_min_gt1_from] in H; [left; exact H|].
  assert (Step : forall b, first_min_gt1_from t (S i) b = Some (j, m) -> b = Some (i, x) -> 1 < x ->
            (i <= j < i + length (x :: t))%nat /\ nth (j - i) (x :: t) 0 = m /\ 1 < m).
  { intros b Hb Eb Hx. destruct (IH _ _ _ _ Hb) as [E|(A & B & C)].
    - rewrite Eb in E. injection E as <- <-. cbn [length]. rewrite Nat.sub_diag. cbn. repeat split; lia.
    - cbn [length]. split; [lia|]. split; [|exact C]. replace (j - i)%nat with (S (j - S i)) by lia. exact B. }
  assert (Skip : forall b, first_min_gt1_from t (S i) b = Some (j, m) -> b = best ->
            best = Some (j, m) \/ (i <= j < i + length (x :: t))%nat /\ nth (j - i) (x :: t) 0 = m /\ 1 < m).
  { intros b Hb Eb. destruct (IH _ _ _ _ Hb) as [E|(A & B & C)]; [left; congruence|right].
    cbn [length]. split; [lia|]. split; [|exact C]. replace (j - i)%nat with (S (j - S i)) by lia. exact B. }
  destruct (Z.ltb_spec 1 x) as [Hx|Hx].
  - destruct best as [[bi bv]|].
    + destruct (x <? bv); [right; eapply Step; eauto|eapply Skip; eauto].
    + right. eapply Step; eauto.
  - eapply Skip; eauto.
Qed.

(** the shrinking loop: total minus outstanding excess is invariant, occurring symbols keep a probability >= 1 *)
Lemma shrink_spec fuel : forall counts probs diff out, Forall2 keeps counts probs -> 0 <= diff ->
  shrink fuel probs diff = ROk out ->
  Forall2 keeps counts out /\ zsum out = zsum probs - diff /\ length out = length probs.
Proof.
  induction fuel as [|f IH]; intros counts probs diff out Hk Hd H; cbn [shrink] in H.
  - destruct (Z.leb_spec diff 0) as [H0|H0]; [|discriminate]. injection H as <-. repeat split; [exact Hk|lia].
  - destruct (Z.leb_spec diff 0) as [H0|H0]; [injection H as <-; repeat split; [exact Hk|lia]|].
    destruct (first_min_gt1_from probs 0 None) as [[i m]|] eqn:Em; [|discriminate].
    destruct (first_min_spec _ _ _ _ _ Em) as [E|(A & B & C)]; [discriminate|].
    rewrite Nat.sub_0_r in B.
    assert (Hdec : 0 <= Z.min (m - 1) diff <= diff /\ 1 <= m - Z.min (m - 1) diff) by lia.
    destruct (IH counts (upd probs i (m - Z.min (m - 1) diff)) (diff - Z.min (m - 1) diff) out) as (K & S & L).
    + apply Forall2_upd; [exact Hk|]. intros c Hc. unfold keeps. split; [|lia].
      intros Hc0. exfalso.
      assert (Hp : nth i probs 0 = 0).
      { clear - Hk Hc Hc0. revert i Hc. induction Hk as [|x y a l (K0 & _) _ IHk]; intros i Hc; [destruct i; discriminate|].
        destruct i; cbn [nth_error nth] in *; [injection Hc as <-; auto|apply IHk; exact Hc]. }
      lia.
    + lia.
    + exact H.
    + split; [exact K|]. rewrite S, zsum_upd, B by lia. rewrite L, upd_length. split; [lia|reflexivity].
Qed.

Lemma last_max_from_ge l : forall i best bv r, last_max_from l i best bv = r ->
  (r = best /\ Forall (fun x => x < bv) l) \/
  (exists k, r = (i + k)%nat /\ (k < length l)%nat /\ bv <= nth k l 0 /\ Forall (fun x => x <= nth k l 0) l).
Proof.
  induction l as [|x t IH]; intros i best bv r H; cbn [last_max_from] in H.
  - left. split; [congruence|constructor].
  - destruct (Z.leb_spec bv x) as [Hx|Hx].
    + destruct (IH _ _ _ _ H) as [(E & F)|(k & E & Lk & G & F)].
      * right. exists 0%nat. cbn [nth length]. repeat split; try lia. constructor; [lia|]. eapply Forall_impl; [|exact F]. cbn. intros; lia.
      * right. exists (S k). cbn [nth length]. repeat split; try lia. constructor; [lia|exact F].
    + destruct (IH _ _ _ _ H) as [(E & F)|(k & E & Lk & G & F)].
      * left. split; [exact E|]. constructor; [lia|exact F].
      * right. exists (S k). cbn [nth length]. repeat split; try lia. constructor; [lia|exact F].
Qed.

Lemma last_max_is_max l : l <> [] -> Forall (fun x => x <= nth (last_max_idx l) l 0) l.
Proof.
  destruct l as [|x t]; [congruence|]. intros _. unfold last_max_idx.
  destruct (last_max_from_ge t 1 0 x _ eq_refl) as [(E & F)|(k & E & Lk & G & F)].
  - rewrite E. cbn [nth]. constructor; [lia|]. eapply Forall_impl; [|exact F]. cbn. intros; lia.
  - rewrite E. cbn [Nat.add nth]. constructor; [lia|exact F].
Qed.

Lemma zsum_pos_max l : Forall (fun x => 0 <= x) l -> 0 < zsum l -> l <> [] /\ 0 < nth (last_max_idx l) l 0.
Proof.
  intros Hnn Hs. assert (Hne : l <> []) by (intros ->; cbn in Hs; lia). split; [exact Hne|].
  pose proof (last_max_is_max l Hne) as Hm.
  destruct (Z.ltb_spec 0 (nth (last_max_idx l) l 0)) as [|Hle]; [assumption|exfalso].
  assert (zsum l <= 0); [|lia].
  clear Hs Hne. induction l as [|x t IH]; [cbn; lia|].
  remember (nth (last_max_idx (x :: t)) (x :: t) 0) as M. inversion Hm; subst. inversion Hnn; subst.
  cbn [zsum fold_right]. fold (zsum t).
  assert (zsum t <= 0).
  { clear - H2 H4 Hle. set (M := nth (last_max_idx (x :: t)) (x :: t) 0) in *. clearbody M. induction t as [|y t IH]; [cbn; lia|].
    inversion H2; subst. inversion H4; subst. cbn [zsum fold_right]. fold (zsum t). specialize (IH H3 H6). lia. }
  lia.
Qed.

Lemma keeps_nth counts probs i : Forall2 keeps counts probs -> 0 < nth i probs 0 ->
  forall v, 1 <= v -> Forall2 keeps counts (upd probs i v).
Proof.
  intros Hk Hp v Hv. apply Forall2_upd; [exact Hk|]. intros c Hc. split; [|lia]. intros Hc0. exfalso.
  assert (nth i probs 0 = 0); [|lia].
  clear - Hk Hc Hc0. revert i Hc. induction Hk as [|x y a l (K0 & _) _ IHk]; intros i Hc; [destruct i; discriminate|].
  destruct i; cbn [nth_error nth] in *; [injection Hc as <-; auto|apply IHk; exact Hc].
Qed.

Lemma keeps_nonneg counts probs : Forall (fun c => 0 <= c) counts -> Forall2 keeps counts probs -> Forall (fun p => 0 <= p) probs.
Proof.
  intros Hc Hk. induction Hk as [|c p a l (K0 & K1) _ IH]; [constructor|]. inversion Hc; subst. constructor; [|apply IH; assumption].
  destruct (Z.ltb_spec 0 c); [specialize (K1 ltac:(lia)); lia|rewrite K0 by lia; lia].
Qed.

Lemma min_fold_spec counts : forall m0, 0 <= m0 -> Forall (fun c => 0 <= c) counts ->
  let m := fold_left (fun m c => if (0 <? c) && ((c <? m) || (m =? 0)) then c else m) counts m0 in
  0 <= m /\ (m = 0 -> m0 = 0 /\ Forall (fun c => c = 0) counts) /\ (0 < m -> (m0 = 0 \/ m <= m0) /\ Forall (fun c => 0 < c -> m <= c) counts).
Proof.
  induction counts as [|c t IH]; intros m0 H0 Hc; cbn [fold_left].
  - split; [lia|]. split; [intros E; split; [exact E|constructor]|]. intros Hm. split; [right; lia|constructor].
  - inversion Hc as [|? ? Hc0 Hct]; subst.
    destruct (Z.ltb_spec 0 c) as [Hp|Hp]; cbn [andb].
    + destruct (Z.ltb_spec c m0) as [Hlt|Hge]; cbn [orb].
      * destruct (IH c ltac:(lia) Hct) as (A & B & C). split; [exact A|]. split.
        -- intros E. destruct (B E) as (E1 & F). lia.
        -- intros Hm. destruct (C Hm) as (D & F). split; [right; lia|]. constructor; [intros; lia|exact F].
      * destruct (Z.eqb_spec m0 0) as [Hz|Hnz].
        -- destruct (IH c ltac:(lia) Hct) as (A & B & C). split; [exact A|]. split.
           ++ intros E. destruct (B E) as (E1 & F). lia.
           ++ intros Hm. destruct (C Hm) as (D & F). split; [left; exact Hz|]. constructor; [intros; lia|exact F].
        -- destruct (IH m0 H0 Hct) as (A & B & C). split; [exact A|]. split.
           ++ intros E. destruct (B E) as (E1 & F). lia.
           ++ intros Hm. destruct (C Hm) as (D & F). split; [right; lia|]. constructor; [intros; lia|exact F].
    + destruct (IH m0 H0 Hct) as (A & B & C). split; [exact A|]. split.
      * intros E. destruct (B E) as (E1 & F). split; [exact E1|]. constructor; [lia|exact F].
      * intros Hm. destruct (C Hm) as (D & F). split; [exact D|]. constructor; [intros; lia|exact F].
Qed.

Require Import Zrs.proofs.C12_Desc.

Lemma keeps_map cs : forall (f : Z -> Z), (forall c, 0 <= c -> In c cs -> keeps c (f c)) -> Forall (fun c => 0 <= c) cs -> Forall2 keeps cs (map f cs).
Proof.
  induction cs as [|c t IH]; intros f Hf Hc; [constructor|]. inversion Hc; subst. cbn [map]. constructor.
  - apply Hf; [assumption|left; reflexivity].
  - apply IH; [|assumption]. intros c0 H0 Hin. apply Hf; [assumption|right; exact Hin].
Qed.

Lemma keeps_map2 cs ps (g : Z -> Z) : (forall p, (p = 0 -> g p = 0) /\ (1 <= p -> 1 <= g p)) -> Forall (fun c => 0 <= c) cs ->
  Forall2 keeps cs ps -> Forall2 keeps cs (map g ps).
Proof.
  intros Hg Hc Hk. induction Hk as [|c p a l (K0 & K1) _ IH]; [constructor|]. inversion Hc; subst. cbn [map]. constructor; [|apply IH; assumption].
  destruct (Hg p) as (G0 & G1). split; intros Hx; [apply G0, K0, Hx|apply G1, K1, Hx].
Qed.

Lemma zeros_nonneg k : Forall (fun c => 0 <= c) (zeros k).
Proof. induction k; cbn [zeros]; constructor; [lia|assumption]. Qed.
Lemma zeros_length k : length (zeros k) = k.
Proof. induction k; cbn [zeros length]; congruence. Qed.

Lemma weight_is_sum l : Forall (fun p => 0 <= p) l -> weight l = zsum l.
Proof.
  induction 1 as [|p t Hp _ IH]; [reflexivity|]. cbn [weight zsum fold_right]. fold (zsum t). rewrite IH. unfold pw.
  destruct (Z.eqb_spec p (-1)); lia.
Qed.

Lemma last_is_nth (l : list Z) d : l <> [] -> last l d = nth (length l - 1) l d.
Proof.
  induction l as [|x t IH]; [congruence|]. intros _. destruct t as [|y t']; [reflexivity|].
  change (last (x :: y :: t') d) with (last (y :: t') d). rewrite IH by discriminate. cbn [length]. replace (S (S (length t')) - 1)%nat with (S (length t')) by lia.
  cbn [nth]. replace (S (length t') - 1)%nat with (length t') by lia. reflexivity.
Qed.

Lemma Forall2_len {A B} (P : A -> B -> Prop) a b : Forall2 P a b -> length a = length b.
Proof. induction 1; cbn [length]; congruence. Qed.

Lemma keeps_last counts probs : Forall2 keeps counts probs -> counts <> [] -> 0 < last counts 0 -> 1 <= nth (length probs - 1) probs 0.
Proof.
  intros Hk Hne Hl. rewrite last_is_nth in Hl by exact Hne.
  assert (Hlen : length counts = length probs) by (eapply Forall2_len; exact Hk). rewrite Hlen in Hl.
  clear Hne Hlen. remember (length probs - 1)%nat as k. clear Heqk. revert k Hl.
  induction Hk as [|c p a l (K0 & K1) _ IH]; intros k Hl; [destruct k; cbn in Hl; lia|].
  destruct k; cbn [nth] in *; [apply K1; exact Hl|apply IH; exact Hl].
Qed.

Lemma nth_nonneg (l : list Z) i : Forall (fun p => 0 <= p) l -> 0 <= nth i l 0.
Proof. intros H. revert i. induction H as [|x t Hx _ IH]; intros i; destruct i; cbn [nth]; try lia; try apply IH. Qed.

Lemma Forall_upd (P : Z -> Prop) l : forall i v, Forall P l -> P v -> Forall P (upd l i v).
Proof. induction l as [|h t IH]; intros i v Hl Hv; destruct i; cbn [upd]; inversion Hl; subst; constructor; auto. Qed.

Lemma first_idx_spec l : forall v i j, first_idx_of l v i = Some j -> (i <= j < i + length l)%nat /\ nth (j - i) l 0 = v.
Proof.
  induction l as [|x t IH]; intros v i j H; cbn [first_idx_of] in H; [discriminate|].
  destruct (Z.eqb_spec x v) as [E|E].
  - injection H as <-. cbn [length]. rewrite Nat.sub_diag. cbn. split; [lia|exact E].
  - destruct (IH _ _ _ H) as (A & B). cbn [length]. split; [lia|]. replace (j - i)%nat with (S (j - S i)) by lia. exact B.
Qed.

(** the final redistribution step (avoid_0_numbit), on any non-negative vector with the given total *)
Lemma avoid_step probs al al' out : 1 <= al -> probs <> [] -> Forall (fun p => 0 <= p) probs -> zsum probs = 2 ^ al ->
  (let i := last_max_idx probs in
   let mx := nth i probs 0 in
   if true && (2 ^ (al - 1) <? mx) then
     let redistribute := mx - 2 ^ (al - 1) in
     let probs' := upd probs i (mx - redistribute) in
     let mx' := mx - redistribute in
     let others := filter (fun x => negb (x =? mx')) probs' in
     match others with
     | [] => RPanic "called `Option::unwrap()` on a `None` value"
     | _ =>
         let second := nth (last_max_idx others) others 0 in
         match first_idx_of probs' second 0 with
         | None => RPanic "called `Option::unwrap()` on a `None` value"
         | Some j =>
             if mx' <? nth j probs' 0 + redistribute then RPanic "assertion failed: *second_max <= max"
             else ROk (al, upd probs' j (nth j probs' 0 + redistribute))
         end
     end
   else ROk (al, probs)) = ROk (al', out) ->
  al' = al /\ Forall (fun p => 0 <= p) out /\ zsum out = 2 ^ al /\ length out = length probs /\
  (forall k, 1 <= nth k probs 0 -> 1 <= nth k out 0).
Proof.
  intros Hal Hne Hnn Hs. cbv zeta. cbn [andb].
  pose proof (last_max_idx_lt probs Hne) as Hi.
  set (i := last_max_idx probs) in *. set (mx := nth i probs 0).
  assert (Hp : 0 < 2 ^ (al - 1)) by (apply Z.pow_pos_nonneg; lia).
  destruct (Z.ltb_spec (2 ^ (al - 1)) mx) as [Hbig|Hsmall].
  2:{ intros H. injection H as <- <-. repeat split; try assumption. auto. }
  replace (mx - (mx - 2 ^ (al - 1))) with (2 ^ (al - 1)) by lia.
  set (probs' := upd probs i (2 ^ (al - 1))).
  destruct (filter (fun x => negb (x =? 2 ^ (al - 1))) probs') as [|o os] eqn:Ef; [discriminate|].
  set (second := nth (last_max_idx (o :: os)) (o :: os) 0).
  destruct (first_idx_of probs' second 0) as [j|] eqn:Ej; [|discriminate].
  destruct (first_idx_spec _ _ _ _ Ej) as (Aj & Bj). rewrite Nat.sub_0_r in Bj. cbn [Nat.add] in Aj.
  destruct (Z.ltb_spec (2 ^ (al - 1)) (nth j probs' 0 + (mx - 2 ^ (al - 1)))) as [|Hle]; [discriminate|].
  intros H. injection H as <- <-. split; [reflexivity|].
  assert (Lp : length probs' = length probs) by apply upd_length.
  assert (Hnn' : Forall (fun p => 0 <= p) probs') by (apply Forall_upd; [exact Hnn|lia]).
  assert (Hsec_in : In second (o :: os)) by (apply nth_In; apply last_max_idx_lt; discriminate).
  rewrite <- Ef in Hsec_in. apply filter_In in Hsec_in as (Hin & Hneq).
  assert (Hji : j <> i).
  { intros ->. unfold probs' in Bj. rewrite nth_upd_same in Bj by exact Hi. rewrite <- Bj in Hneq.
    rewrite Z.eqb_refl in Hneq. discriminate. }
  assert (Hsec0 : 0 <= second) by (rewrite <- Bj; apply nth_nonneg; exact Hnn').
  split; [apply Forall_upd; [exact Hnn'|rewrite Bj; lia]|].
  split.
  { rewrite zsum_upd by lia. unfold probs' at 1. rewrite zsum_upd by exact Hi. fold mx. lia. }
  split; [rewrite upd_length; exact Lp|].
  intros k Hk. destruct (Nat.eq_dec k j) as [->|Hkj].
  - rewrite nth_upd_same by lia. rewrite Bj. lia.
  - rewrite nth_upd_other by congruence. unfold probs'. destruct (Nat.eq_dec k i) as [->|Hki].
    + rewrite nth_upd_same by exact Hi. lia.
    + rewrite nth_upd_other by congruence. exact Hk.
Qed.

Lemma zsum_nonneg l : Forall (fun p => 0 <= p) l -> 0 <= zsum l.
Proof. induction 1 as [|p t Hp _ IH]; [cbn; lia|]. cbn [zsum fold_right]. fold (zsum t). lia. Qed.

Theorem norm_counts_normalised counts max_log al probs :
  5 <= max_log -> Forall (fun c => 0 <= c) counts -> 0 < last counts 0 -> (2 <= length counts)%nat ->
  norm_counts counts max_log true = ROk (al, probs) ->
  dist_ok al probs /\ 5 <= al <= max_log /\ length probs = length counts /\ Forall (fun p => 0 <= p) probs /\
  zsum probs = 2 ^ al /\ (forall i, 0 < nth i counts 0 -> 1 <= nth i probs 0).
Proof.
  intros Hml Hc Hlast Hlen. unfold norm_counts.
  replace (Nat.max (length counts) 2) with (length counts) by lia. rewrite Nat.sub_diag. cbn [zeros]. rewrite app_nil_r.
  set (mc := fold_left (fun m c => if (0 <? c) && ((c <? m) || (m =? 0)) then c else m) counts 0).
  destruct (min_fold_spec counts 0 ltac:(lia) Hc) as (M0 & M1 & M2). fold mc in M0, M1, M2.
  destruct (Z.eqb_spec mc 0) as [E0|E0]; [discriminate|].
  destruct (M2 ltac:(lia)) as (_ & Mle).
  set (p1 := map (fun p => if 0 <? p then p - (mc - 1) else p) counts).
  assert (K1 : Forall2 keeps counts p1).
  { apply keeps_map; [|exact Hc]. intros c Hc0 Hin. rewrite Forall_forall in Mle. specialize (Mle c Hin).
    unfold keeps. destruct (Z.ltb_spec 0 c); split; intros; lia. }
  set (p2 := if (0 <? zmaxl p1) && (Z.of_nat (length counts) <? zmaxl p1)
             then map (fun p => if 0 <? p then Z.max (p / (zmaxl p1 / Z.of_nat (length counts))) 1 else p) p1 else p1).
  assert (K2 : Forall2 keeps counts p2).
  { unfold p2. destruct ((0 <? zmaxl p1) && (Z.of_nat (length counts) <? zmaxl p1)); [|exact K1].
    apply keeps_map2; [|exact Hc|exact K1]. intros p. split; intros Hp.
    - subst p. reflexivity.
    - destruct (Z.ltb_spec 0 p); lia. }
  assert (N2 : Forall (fun p => 0 <= p) p2) by exact (keeps_nonneg counts p2 Hc K2).
  assert (L2 : length p2 = length counts) by (symmetry; eapply Forall2_len; exact K2).
  destruct (Z.leb_spec (zsum p2) 0) as [Hs0|Hs0]; [discriminate|].
  set (al0 := Z.min (Z.max (Z.log2 (zsum p2) + 1) 5) max_log).
  assert (Hal : 5 <= al0 <= max_log) by (unfold al0; lia).
  assert (P0 : 0 < 2 ^ al0) by (apply Z.pow_pos_nonneg; lia).
  (* the two ways of reaching the total *)
  assert (Step3 : forall p3, (if zsum p2 <? 2 ^ al0
                              then ROk (upd p2 (last_max_idx p2) (nth (last_max_idx p2) p2 0 + (2 ^ al0 - zsum p2)))
                              else shrink (Z.to_nat (zsum p2 - 2 ^ al0)) p2 (zsum p2 - 2 ^ al0)) = ROk p3 ->
            Forall2 keeps counts p3 /\ zsum p3 = 2 ^ al0 /\ length p3 = length counts).
  { intros p3 H3. destruct (Z.ltb_spec (zsum p2) (2 ^ al0)) as [Hlt|Hge].
    - injection H3 as <-. destruct (zsum_pos_max p2 N2 Hs0) as (Hne & Hmax).
      pose proof (last_max_idx_lt p2 Hne) as Hi.
      split; [apply keeps_nth; [exact K2|exact Hmax|lia]|].
      split; [rewrite zsum_upd by exact Hi; lia|rewrite upd_length; exact L2].
    - assert (Hd0 : 0 <= zsum p2 - 2 ^ al0) by lia.
      destruct (shrink_spec _ counts p2 _ p3 K2 Hd0 H3) as (K3 & S3 & L3).
      split; [exact K3|]. split; [lia|congruence]. }
  destruct (if zsum p2 <? 2 ^ al0 then _ else _) as [p3|e|e] eqn:E3; cbn [rbind]; try discriminate.
  destruct (Step3 p3 eq_refl) as (K3 & S3 & L3).
  assert (N3 : Forall (fun p => 0 <= p) p3) by exact (keeps_nonneg counts p3 Hc K3).
  assert (Hne3 : p3 <> []) by (intros ->; cbn in L3; lia).
  intros Hfin.
  destruct (avoid_step p3 al0 al probs ltac:(lia) Hne3 N3 S3 Hfin) as (-> & N4 & S4 & L4 & Keep).
  assert (Hcne : counts <> []) by (intros ->; cbn in Hlen; lia).
  pose proof (keeps_last counts p3 K3 Hcne Hlast) as Hl3.
  pose proof Keep as Keep0. specialize (Keep _ Hl3). rewrite <- L4 in Keep.
  split.
  - unfold dist_ok. split; [eapply Forall_impl; [|exact N4]; cbn; intros; lia|].
    split; [rewrite weight_is_sum by exact N4; exact S4|].
    rewrite last_is_nth by (intros ->; cbn in L4; lia).
    replace (nth (length probs - 1) probs 1) with (nth (length probs - 1) probs 0) by (apply nth_indep; lia). lia.
  - split; [exact Hal|]. split; [congruence|]. split; [exact N4|]. split; [exact S4|].
    intros i Hi. apply Keep0. clear - K3 Hi. revert i Hi. induction K3 as [|c p a l (K0 & K1) _ IH]; intros i Hi; [destruct i; cbn in Hi; lia|].
    destruct i; cbn [nth] in *; [apply K1; exact Hi|apply IH; exact Hi].
Qed.
