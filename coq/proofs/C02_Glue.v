(** C02 / C16 / C17: the LZ layer closes.  [compress_block] turns the match finder's output into a literal buffer and
    a list of (literal length, match length, offset + 3) triples; executing those with the decoder's
    [execute_sequences] on a buffer that ends with the match finder's retained history appends exactly the bytes the
    match finder's sequences rebuild ([apply_seqs], the statement of C17) -- for every buffer, every offset history. *)
Require Import Zrs.lib.RsPrelude Zrs.gen.Generated Zrs.model.BitIO Zrs.model.FseDec Zrs.model.HufDec Zrs.model.BlockDec Zrs.model.Matcher.
Require Import Zrs.model.BlockEnc.
Require Import Zrs.proofs.C06_Drain Zrs.proofs.C09_Lz Zrs.proofs.C17_Matcher.
Require Import Zrs.proofs.C17_Shape.
Open Scope Z_scope.


Lemma offset_history_fresh ov ll h1 h2 h3 : 4 <= ov ->
  do_offset_history ov ll [h1; h2; h3] = (ov - 3, [ov - 3; h1; h2]).
Proof.
  intros H4. unfold do_offset_history.
  assert ((1 <=? ov) && (ov <=? 3) = false) as -> by lia.
  assert ((1 <=? ov) && (ov <=? 2) = false) as -> by lia.
  assert (ov =? 1 = false) as -> by lia. assert (ov =? 2 = false) as -> by lia.
  assert (ov =? 3 = false) as -> by lia.
  destruct (ll >? 0); reflexivity.
Qed.

Lemma split_at_app (a b : list Z) : split_at (length a) (a ++ b) = Some (a, b).
Proof. induction a as [|x a IH]; cbn [length split_at app]; [reflexivity|]. rewrite IH. reflexivity. Qed.

Definition hist3 (h : list Z) : Prop := exists a b c, h = [a; b; c].

Lemma exec_triples ts : forall h h' tail_lits buf hist ssum pre,
  Forall is_triple ts -> apply_seqs h ts = Some h' ->
  db_wf buf -> db_rev buf = rev h ++ pre -> hist3 hist ->
  0 <= ssum -> ssum + (Z.of_nat (length h') - Z.of_nat (length h)) <= MAX_BLOCK_SIZE ->
  exists buf' hist',
    exec_loop (mseqs_seqs ts) (mseqs_lits ts ++ tail_lits) buf hist ssum =
      ROk (buf', hist', tail_lits, ssum + (Z.of_nat (length h') - Z.of_nat (length h))) /\
    db_wf buf' /\ db_rev buf' = rev h' ++ pre /\ hist3 hist' /\ (length h <= length h')%nat /\
    db_dict buf' = db_dict buf /\ db_window buf' = db_window buf /\ db_hashed_rev buf' = db_hashed_rev buf.
Proof.
  induction ts as [|s ts IH]; intros h h' tail_lits buf hist ssum pre Ht Ha W R Hh S0 S1.
  - cbn [apply_seqs] in Ha. injection Ha as <-. cbn [mseqs_seqs mseqs_lits flat_map concat map app exec_loop].
    exists buf, hist. replace (ssum + (Z.of_nat (length h) - Z.of_nat (length h))) with ssum by lia.
    repeat split; try assumption; lia.
  - inversion Ht as [|? ? Hs Ht']; subst. destruct s as [l|l off ml]; [contradiction|].
    cbn [apply_seqs apply_seq] in Ha.
    destruct ((1 <=? off)%nat && (off <=? length (h ++ l))%nat) eqn:Eoff; [|discriminate].
    apply andb_prop in Eoff as [O1 O2]. apply Nat.leb_le in O1. apply Nat.leb_le in O2.
    remember (rev (lz_copy ml off (rev (h ++ l)))) as h1 eqn:Eh1.
    assert (L1 : length h1 = (length h + length l + ml)%nat).
    { rewrite Eh1, rev_length, lz_copy_length, rev_length, app_length. lia. }
    destruct hist as [|a [|b [|c [|? ?]]]]; try (destruct Hh as (x1 & x2 & x3 & Hh); discriminate).
    pose proof (apply_seqs_app h1 ts []) as _.
    assert (Hmono : (length h1 <= length h')%nat).
    { clear - Ha. revert h1 Ha. induction ts as [|s ts IH]; intros h1 Ha; cbn [apply_seqs] in Ha.
      - injection Ha as <-. lia.
      - destruct (apply_seq h1 s) as [h2|] eqn:E; [|discriminate]. specialize (IH h2 Ha).
        assert (length h1 <= length h2)%nat; [|lia].
        destruct s as [l|l off ml]; cbn [apply_seq] in E.
        + injection E as <-. rewrite app_length. lia.
        + destruct (_ && _); [|discriminate]. injection E as <-. rewrite rev_length, lz_copy_length, rev_length, app_length. lia. }
    change (mseqs_seqs (MTriple l off ml :: ts)) with ({| sq_ll := zlen l; sq_ml := Z.of_nat ml; sq_of := Z.of_nat off + 3 |} :: mseqs_seqs ts).
    change (mseqs_lits (MTriple l off ml :: ts)) with (l ++ mseqs_lits ts).
    cbn [exec_loop sq_ll sq_ml sq_of]. unfold zlen.
    change MAX_BLOCK_SIZE with 131072 in *.
    destruct (Z.ltb_spec 131072 (ssum + Z.of_nat (length l) + Z.of_nat ml)) as [H|_]; [lia|].
    (* literals *)
    set (buf1 := if 0 <? Z.of_nat (length l) then db_push buf l else buf).
    assert (E1 : (if 0 <? Z.of_nat (length l)
                  then match split_at (Z.to_nat (Z.of_nat (length l))) ((l ++ mseqs_lits ts) ++ tail_lits) with
                       | Some (a0, rest) => ROk (db_push buf a0, rest)
                       | None => RErr "NotEnoughBytesForSequence"
                       end
                  else ROk (buf, (l ++ mseqs_lits ts) ++ tail_lits)) = ROk (buf1, mseqs_lits ts ++ tail_lits)).
    { unfold buf1. destruct (Z.ltb_spec 0 (Z.of_nat (length l))) as [Hp|Hz].
      - rewrite Nat2Z.id, <- app_assoc, split_at_app. reflexivity.
      - destruct l; [reflexivity|cbn [length] in Hz; lia]. }
    rewrite E1. cbn [rbind].
    assert (W1 : db_wf buf1 /\ db_rev buf1 = rev (h ++ l) ++ pre /\ db_dict buf1 = db_dict buf /\ db_window buf1 = db_window buf /\
                 db_hashed_rev buf1 = db_hashed_rev buf).
    { unfold buf1. destruct (Z.ltb_spec 0 (Z.of_nat (length l))) as [Hp|Hz].
      - unfold db_wf, db_push, db_add_total, db_append_raw in *. cbn [db_len db_rev db_dict db_window db_hashed_rev].
        rewrite rev_append_rev, app_length, rev_length, R, rev_app_distr, <- app_assoc. repeat split; try reflexivity. rewrite W, R. lia.
      - destruct l; [|cbn [length] in Hz; lia]. rewrite app_nil_r. repeat split; assumption. }
    destruct W1 as (W1 & R1 & D1 & Wi1 & Hx1).
    rewrite offset_history_fresh by lia. replace (Z.of_nat off + 3 - 3) with (Z.of_nat off) by lia.
    destruct (Z.eqb_spec (Z.of_nat off) 0) as [H|_]; [lia|].
    (* the copy *)
    set (buf2 := if 0 <? Z.of_nat ml
                 then db_add_total (db_set_rev buf1 (lz_copy ml off (db_rev buf1)) (Z.of_nat ml)) (Z.of_nat ml) else buf1).
    assert (E2 : (if 0 <? Z.of_nat ml then db_repeat buf1 (Z.of_nat off) (Z.of_nat ml) else ROk buf1) = ROk buf2).
    { unfold buf2. destruct (Z.ltb_spec 0 (Z.of_nat ml)) as [Hp|Hz]; [|reflexivity].
      unfold db_repeat. unfold db_wf in W1. rewrite W1, R1, app_length, rev_length.
      destruct (Z.ltb_spec (Z.of_nat (length (h ++ l) + length pre)) (Z.of_nat off)) as [H|_]; [lia|].
      destruct (Z.eqb_spec (Z.of_nat off) 0) as [H|_]; [lia|]. cbn [andb].
      rewrite !Nat2Z.id. rewrite lz_copy_fast_eq by (rewrite ?app_length, ?rev_length; lia). reflexivity. }
    rewrite E2. cbn [rbind].
    destruct (Z.leb_spec (2 ^ 32) (ssum + Z.of_nat ml + Z.of_nat (length l))) as [H|_]; [lia|].
    assert (W2 : db_wf buf2 /\ db_rev buf2 = rev h1 ++ pre /\ db_dict buf2 = db_dict buf /\ db_window buf2 = db_window buf /\
                 db_hashed_rev buf2 = db_hashed_rev buf).
    { unfold buf2. destruct (Z.ltb_spec 0 (Z.of_nat ml)) as [Hp|Hz].
      - unfold db_wf, db_add_total, db_set_rev in *. cbn [db_len db_rev db_dict db_window db_hashed_rev].
        rewrite R1. rewrite lz_copy_app by (rewrite ?rev_length; lia).
        rewrite Eh1, rev_involutive. repeat split; try assumption.
        rewrite app_length, lz_copy_length, W1, R1, app_length. lia.
      - assert (ml = 0)%nat by lia. subst ml. cbn [lz_copy] in Eh1. rewrite rev_involutive in Eh1. subst h1.
        repeat split; assumption. }
    destruct W2 as (W2 & R2 & D2 & Wi2 & Hx2).
    destruct (IH h1 h' tail_lits buf2 [Z.of_nat off; a; b] (ssum + Z.of_nat ml + Z.of_nat (length l)) pre Ht' Ha W2 R2
                 ltac:(eexists _, _, _; reflexivity) ltac:(lia) ltac:(lia)) as (buf' & hist' & E & W' & R' & H3' & Lm & D' & Wi' & Hx').
    exists buf', hist'. rewrite E. split; [do 2 f_equal; lia|].
    repeat split; try assumption; try congruence. lia.
Qed.

(** the block: triples, then possibly one trailing literal run *)
Theorem matcher_output_executes ts tail H data buf hist pre :
  Forall is_triple ts -> (tail = [] \/ exists l, tail = [MLit l]) ->
  apply_seqs H (ts ++ tail) = Some (H ++ data) ->
  db_wf buf -> db_rev buf = rev H ++ pre -> hist3 hist -> Z.of_nat (length data) <= MAX_BLOCK_SIZE ->
  exists buf' hist',
    execute_sequences (mseqs_seqs (ts ++ tail)) (mseqs_lits (ts ++ tail)) buf hist = ROk (buf', hist') /\
    db_wf buf' /\ db_rev buf' = rev (H ++ data) ++ pre /\ hist3 hist' /\
    db_dict buf' = db_dict buf /\ db_window buf' = db_window buf /\ db_hashed_rev buf' = db_hashed_rev buf.
Proof.
  intros Ht Htail Ha W R Hh Hd.
  rewrite apply_seqs_app in Ha. destruct (apply_seqs H ts) as [h1|] eqn:E1; [|discriminate].
  assert (Etail : exists l, apply_seqs h1 tail = Some (h1 ++ l) /\ mseqs_seqs (ts ++ tail) = mseqs_seqs ts /\
                            mseqs_lits (ts ++ tail) = mseqs_lits ts ++ l).
  { destruct Htail as [->|(l & ->)].
    - exists []. rewrite !app_nil_r. repeat split; reflexivity.
    - exists l. unfold mseqs_seqs, mseqs_lits. rewrite flat_map_app, map_app, concat_app. cbn. rewrite !app_nil_r. repeat split; reflexivity. }
  destruct Etail as (l & Et & Es & El). rewrite Et in Ha. injection Ha as Ha. rewrite Es, El.
  assert (Ll : (length h1 + length l = length H + length data)%nat) by (rewrite <- !app_length; congruence).
  change MAX_BLOCK_SIZE with 131072 in *.
  destruct (exec_triples ts H h1 l buf hist 0 pre Ht E1 W R Hh ltac:(lia)) as (b1 & hist1 & E & W1 & R1 & H1 & Lm & D1 & Wi1 & Hx1).
  { change MAX_BLOCK_SIZE with 131072. lia. }
  unfold execute_sequences. rewrite E. cbn [rbind]. unfold zlen. change MAX_BLOCK_SIZE with 131072.
  destruct ((0 <? Z.of_nat (length l)) && (131072 <? 0 + (Z.of_nat (length h1) - Z.of_nat (length H)) + Z.of_nat (length l))) eqn:Eb.
  { apply andb_prop in Eb as [_ Eb]. lia. }
  set (b2 := if 0 <? Z.of_nat (length l) then db_push b1 l else b1).
  assert (W2 : db_wf b2 /\ db_rev b2 = rev (h1 ++ l) ++ pre /\ db_dict b2 = db_dict buf /\ db_window b2 = db_window buf /\
               db_hashed_rev b2 = db_hashed_rev buf).
  { unfold b2. destruct (Z.ltb_spec 0 (Z.of_nat (length l))) as [Hp|Hz].
    - unfold db_wf, db_push, db_add_total, db_append_raw in *. cbn [db_len db_rev db_dict db_window db_hashed_rev].
      rewrite rev_append_rev, app_length, rev_length, R1, rev_app_distr, <- app_assoc. repeat split; try assumption. rewrite W1, R1. lia.
    - destruct l; [|cbn [length] in Hz; lia]. rewrite app_nil_r. repeat split; assumption. }
  destruct W2 as (W2 & R2 & D2 & Wi2 & Hx2).
  assert (Elen : db_len b2 - db_len buf = Z.of_nat (length data)).
  { unfold db_wf in *. rewrite W2, W, R2, R, !app_length, !rev_length, !app_length. lia. }
  fold b2.
  destruct (Z.eqb_spec ((0 + (Z.of_nat (length h1) - Z.of_nat (length H)) + Z.of_nat (length l)) mod 2 ^ 32) (db_len b2 - db_len buf)) as [_|Hne].
  2:{ exfalso. apply Hne. rewrite Elen. rewrite Z.mod_small by lia. lia. }
  cbn [negb]. exists b2, hist1. split; [reflexivity|]. rewrite <- Ha. repeat split; assumption.
Qed.
