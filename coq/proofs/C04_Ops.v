(** C04: every operation of the ring buffer keeps the invariant, never faults and refines the byte queue. *)
From Coq Require Import String Arith Bool Lia ZArith List.
Import ListNotations.
From Coq Require Import ZifyBool ZifyNat.
Require Import Zrs.model.RingBuffer Zrs.proofs.C04_Basics Zrs.proofs.C04_Within Zrs.proofs.C04_Append.

Lemma npot_ge x : x <= npot x.
Proof.
  unfold npot. destruct (x <=? 1) eqn:E; [lia|].
  pose proof (Nat.log2_up_spec x ltac:(lia)). lia.
Qed.

(** changing only dead cells keeps the invariant and the represented queue *)
Lemma frame_lemma s m' :
  Inv s -> (forall i, i < len s -> m' (idx s i) = mem s (idx s i)) ->
  let s' := mkrb (cap s) (head s) (tail s) m' in Inv s' /\ abs s' = abs s /\ len s' = len s.
Proof.
  intros HI H s'. destruct HI as (HZ & HB & HL).
  assert (len s' = len s) as Hlen by reflexivity.
  split; [|split; [|exact Hlen]].
  - split; [exact HZ|]. split; [exact HB|].
    intros i Hi. destruct (Nat.eq_dec (cap s) 0) as [Z0|NZ].
    + exfalso. destruct (HZ Z0) as [h0 t0]. unfold live, s' in Hi. cbn [head tail cap] in Hi.
      rewrite h0, t0 in Hi. cbn in Hi. lia.
    + assert (0 < cap s) as Hc by lia. destruct (HB Hc) as [Hh Ht].
      change (live s i) in Hi. destruct (HL i Hi) as [Hi1 Hi2]. split; [exact Hi1|].
      apply (live_idx s i Hc Hh Ht) in Hi. destruct Hi as (k & Hk & ->).
      cbn [mem s']. rewrite H by exact Hk. exact Hi2.
  - apply list_eq_nth; [rewrite !abs_length; exact Hlen|].
    intros i Hi. rewrite abs_length, Hlen in Hi. rewrite !abs_nth by (try rewrite Hlen; exact Hi).
    unfold cell. change (idx s' i) with (idx s i). cbn [mem s']. rewrite H by exact Hi. reflexivity.
Qed.

Lemma reserve_ok s amount : Inv s ->
  exists s', reserve s amount = Done s' /\ Inv s' /\ abs s' = abs s /\ len s' = len s /\
             amount <= free s' /\ (0 < amount -> 0 < cap s') /\ cap s <= cap s'.
Proof.
  intros HI. unfold reserve. destruct (amount <=? free s) eqn:E.
  - exists s. split; [reflexivity|]. split; [exact HI|]. split; [reflexivity|]. split; [reflexivity|].
    split; [lia|]. split; [|lia].
    intros Ha. rewrite free_eq in E. destruct HI as (HZ & _ & _).
    destruct (Nat.eq_dec (cap s) 0) as [Z0|NZ]; [|lia]. destruct (HZ Z0) as [h0 t0]. rewrite h0, t0, Z0 in E. cbn in E. lia.
  - unfold reserve_amortized.
    set (nc := Nat.max (npot (cap s)) (npot (cap s + (amount - free s))) + 1).
    pose proof (npot_ge (cap s)). pose proof (npot_ge (cap s + (amount - free s))).
    destruct (0 <? cap s) eqn:Ec.
    + assert (0 < cap s) as Hc by lia.
      pose proof (len_free s HI Hc) as LF.
      destruct HI as (HZ & HB & HL). destruct (HB Hc) as [Hh Ht].
      destruct (data_lens s) as [l1 l2] eqn:DL.
      assert (len s = l1 + l2) as Hl by (unfold len; rewrite DL; reflexivity).
      assert (l1 = (if head s <=? tail s then tail s - head s else cap s - head s) /\
              l2 = (if head s <=? tail s then 0 else tail s)) as [Hl1 Hl2].
      { unfold data_lens in DL. destruct (head s <=? tail s); inversion DL; split; reflexivity. }
      assert (all_init (mem s) (head s) l1 = true) as ->.
      { apply all_init_spec. intros i Hi. apply HL. unfold live. destruct (head s <=? tail s); lia. }
      assert (all_init (mem s) 0 l2 = true) as ->.
      { apply all_init_spec. intros i Hi. apply HL. unfold live. destruct (head s <=? tail s); lia. }
      assert ((head s + l1 <=? cap s) && (l2 <=? cap s) = true) as -> by (destruct (head s <=? tail s); lia).
      assert (l1 + l2 <=? nc = true) as -> by (unfold nc; lia).
      cbn [andb].
      eexists. split; [reflexivity|].
      set (s' := mkrb nc 0 (l1 + l2) _).
      assert (len s' = len s) as Hlen by (unfold s'; rewrite len_eq; cbn [head tail cap Nat.leb]; lia).
      assert (forall i, i < len s -> mem s' (idx s' i) = mem s (idx s i)) as Hcells.
      { intros i Hi. unfold idx, s'. cbn [head cap mem]. assert (0 + i <? nc = true) as -> by (unfold nc; lia).
        cbn [Nat.add]. destruct (head s <=? tail s) eqn:E1.
        - assert (i <? l1 = true) as -> by lia. assert (head s + i <? cap s = true) as -> by lia. reflexivity.
        - destruct (i <? l1) eqn:E2.
          + assert (head s + i <? cap s = true) as -> by lia. reflexivity.
          + assert (i <? l1 + l2 = true) as -> by lia. assert (head s + i <? cap s = false) as -> by lia.
            f_equal. lia. }
      split; [|split; [|split; [exact Hlen|split; [|split]]]].
      * split; [unfold s'; cbn [cap]; unfold nc; lia|]. split.
        -- intros _. unfold s'. cbn [head tail cap]. unfold nc. lia.
        -- intros i Hi. unfold live, s' in Hi. cbn [head tail cap] in Hi. cbn [Nat.leb] in Hi.
           split; [unfold s'; cbn [cap]; unfold nc; lia|].
           unfold s'. cbn [mem].
           destruct (i <? l1) eqn:Q1.
           ++ apply HL. unfold live. destruct (head s <=? tail s); lia.
           ++ assert (i <? l1 + l2 = true) as -> by lia. apply HL. unfold live. destruct (head s <=? tail s); lia.
      * apply list_eq_nth; [rewrite !abs_length; exact Hlen|].
        intros i Hi. rewrite abs_length, Hlen in Hi. rewrite !abs_nth by (try rewrite Hlen; exact Hi).
        unfold cell. rewrite Hcells by exact Hi. reflexivity.
      * rewrite free_eq. unfold s'. cbn [head tail cap]. cbn [Nat.ltb Nat.leb]. unfold nc. lia.
      * intros _. unfold s'. cbn [cap]. unfold nc. lia.
      * unfold s'. cbn [cap]. unfold nc. lia.
    + destruct HI as (HZ & HB & HL). assert (cap s = 0) as Z0 by lia. destruct (HZ Z0) as [h0 t0].
      eexists. split; [reflexivity|]. rewrite h0, t0.
      set (s' := mkrb nc 0 0 _).
      assert (free s = 0) as F0 by (rewrite free_eq, h0, t0, Z0; reflexivity).
      split; [|split; [|split; [|split; [|split]]]].
      * split; [unfold s'; cbn [cap]; unfold nc; lia|]. split.
        -- intros _. unfold s'. cbn [head tail cap]. unfold nc. lia.
        -- intros i Hi. unfold live, s' in Hi. cbn [head tail cap Nat.leb] in Hi. lia.
      * unfold abs. rewrite !len_eq. unfold s'. cbn [head tail cap]. rewrite h0, t0. reflexivity.
      * rewrite !len_eq. unfold s'. cbn [head tail cap]. rewrite h0, t0. reflexivity.
      * rewrite free_eq. unfold s'. cbn [head tail cap]. cbn [Nat.ltb Nat.leb]. unfold nc. rewrite F0, Z0 in *. lia.
      * intros _. unfold s'. cbn [cap]. unfold nc. lia.
      * unfold s'. cbn [cap]. lia.
Qed.

(** growing operations write at most two parts: after the tail, then from the start of the allocation *)
Lemma two_part_lemma s n data m1 m2 :
  Inv s -> 0 < cap s -> n <= free s -> length data = n ->
  let f1 := Nat.min n (snd (free_lens s)) in
  (forall j, j < f1 -> m1 (tail s + j) = Some (nth j data 0%Z)) ->
  (forall j, ~ (tail s <= j < tail s + f1) -> m1 j = mem s j) ->
  (forall j, j < n - f1 -> m2 j = Some (nth (f1 + j) data 0%Z)) ->
  (forall j, ~ (j < n - f1) -> m2 j = m1 j) ->
  let s' := mkrb (cap s) (head s) ((tail s + n) mod cap s) m2 in
  Inv s' /\ len s' = len s + n /\ abs s' = abs s ++ data.
Proof.
  intros HI Hc Hn Hd f1 A1 B1 A2 B2.
  pose proof (len_free s HI Hc) as LF.
  assert (Inv s) as HI0 by exact HI.
  destruct HI as (HZ & HB & HL). destruct (HB Hc) as [Hh Ht].
  apply append_lemma; try assumption.
  - intros i Hi. unfold idx. rewrite len_eq in Hi, LF. rewrite free_eq in Hn, LF.
    unfold f1, free_lens in *.
    destruct (head s <=? tail s) eqn:E1; destruct (tail s <? head s) eqn:E2; try (exfalso; lia); cbn [snd] in *.
    + assert (head s + i <? cap s = true) as -> by lia. rewrite B2 by lia. rewrite B1 by lia. reflexivity.
    + destruct (head s + i <? cap s) eqn:E3; rewrite B2 by lia; rewrite B1 by lia; reflexivity.
  - intros i Hi. unfold idx. rewrite len_eq in LF |- *. rewrite free_eq in Hn, LF.
    unfold f1, free_lens in *.
    destruct (head s <=? tail s) eqn:E1; destruct (tail s <? head s) eqn:E2; try (exfalso; lia); cbn [snd] in *.
    + destruct (head s + (tail s - head s + i) <? cap s) eqn:E3.
      * rewrite B2 by lia. replace (head s + (tail s - head s + i)) with (tail s + i) by lia. rewrite A1 by lia. reflexivity.
      * replace (head s + (tail s - head s + i) - cap s) with (i - (cap s - tail s)) by lia.
        rewrite A2 by lia. do 2 f_equal. lia.
    + assert (head s + (cap s - head s + tail s + i) <? cap s = false) as -> by lia.
      replace (head s + (cap s - head s + tail s + i) - cap s) with (tail s + i) by lia.
      rewrite B2 by lia. rewrite A1 by lia. reflexivity.
Qed.

Lemma free_lens_bounds s : Inv s -> 0 < cap s ->
  tail s + snd (free_lens s) <= cap s /\ fst (free_lens s) <= cap s /\
  fst (free_lens s) + snd (free_lens s) = free s + 1.
Proof.
  intros (HZ & HB & HL) Hc. destruct (HB Hc) as [Hh Ht]. rewrite free_eq. unfold free_lens.
  destruct (tail s <? head s) eqn:E; cbn [fst snd]; lia.
Qed.

Definition extend_body (s : rb) (data : list Z) : out rb :=
      bind (reserve s (length data)) (fun s =>
      let '(to_head, after_tail) := free_lens s in
      let in_f1 := Nat.min (length data) after_tail in
      let in_f2 := length data - in_f1 in
      match write_region (mem s) (cap s) (tail s) (firstn in_f1 data) with
      | None => Fault "extend: first part out of bounds"
      | Some m1 =>
          match (if 0 <? in_f2 then write_region m1 (cap s) 0 (skipn in_f1 data) else Some m1) with
          | None => Fault "extend: second part out of bounds"
          | Some m2 => advance_tail s m2 (length data)
          end
      end).
Lemma extend_unfold s data : data <> [] -> extend s data = extend_body s data.
Proof. destruct data; [congruence|reflexivity]. Qed.

Theorem extend_ok s data : Inv s ->
  exists s', extend s data = Done s' /\ Inv s' /\ len s' = len s + length data /\ abs s' = abs s ++ data.
Proof.
  intros HI. destruct (list_eq_dec Z.eq_dec data []) as [->|Hne].
  - exists s. cbn [extend length]. rewrite app_nil_r. split; [reflexivity|]. split; [exact HI|]. split; [lia|reflexivity].
  - rewrite extend_unfold by exact Hne. unfold extend_body.
    assert (0 < length data) as Hpos by (destruct data; [congruence|cbn; lia]).
    destruct (reserve_ok s (length data) HI) as (s1 & E1 & I1 & A1 & L1 & F1 & C1 & _).
    specialize (C1 Hpos). rewrite E1. cbn [bind].
    destruct (free_lens s1) as [to_head after_tail] eqn:FL.
    pose proof (free_lens_bounds s1 I1 C1) as (Q1 & Q2 & Q3). rewrite FL in Q1, Q2, Q3. cbn [fst snd] in *.
    set (f1 := Nat.min (length data) after_tail).
    destruct (write_region_ok (mem s1) (cap s1) (tail s1) (firstn f1 data)) as (m1 & W1 & WA1 & WB1).
    { rewrite firstn_length. lia. }
    rewrite W1.
    assert (length (firstn f1 data) = f1) as Lf by (rewrite firstn_length; unfold f1; lia).
    assert (length (skipn f1 data) = length data - f1) as Ls by (rewrite skipn_length; reflexivity).
    destruct (0 <? length data - f1) eqn:E2.
    + destruct (write_region_ok m1 (cap s1) 0 (skipn f1 data)) as (m2 & W2 & WA2 & WB2).
      { rewrite Ls. unfold f1. lia. }
      rewrite W2. unfold advance_tail. assert (cap s1 =? 0 = false) as -> by lia.
      eexists. split; [reflexivity|].
      destruct (two_part_lemma s1 (length data) data m1 m2 I1 C1 F1 eq_refl) as (I' & L' & A').
      * rewrite FL. cbn [snd]. fold f1. intros j Hj. rewrite Lf in WA1. rewrite WA1 by exact Hj.
        rewrite nth_firstn_lt by exact Hj. reflexivity.
      * rewrite FL. cbn [snd]. fold f1. intros j Hj. apply WB1. rewrite Lf. exact Hj.
      * rewrite FL. cbn [snd]. fold f1. intros j Hj. rewrite Ls in WA2. specialize (WA2 j Hj). cbn [Nat.add] in WA2.
        rewrite WA2. rewrite nth_skipn_add. reflexivity.
      * rewrite FL. cbn [snd]. fold f1. intros j Hj. apply WB2. rewrite Ls. lia.
      * rewrite L', A', L1, A1. split; [exact I'|]. split; reflexivity.
    + unfold advance_tail. assert (cap s1 =? 0 = false) as -> by lia.
      eexists. split; [reflexivity|].
      destruct (two_part_lemma s1 (length data) data m1 m1 I1 C1 F1 eq_refl) as (I' & L' & A').
      * rewrite FL. cbn [snd]. fold f1. intros j Hj. rewrite Lf in WA1. rewrite WA1 by exact Hj.
        rewrite nth_firstn_lt by exact Hj. reflexivity.
      * rewrite FL. cbn [snd]. fold f1. intros j Hj. apply WB1. rewrite Lf. exact Hj.
      * rewrite FL. cbn [snd]. fold f1. intros j Hj. exfalso. lia.
      * reflexivity.
      * rewrite L', A', L1, A1. split; [exact I'|]. split; reflexivity.
Qed.

Lemma nth_repeat_lt (b : Z) n i : i < n -> nth i (repeat b n) 0%Z = b.
Proof. revert i. induction n as [|n IH]; intros i H; [lia|]. destruct i; cbn; [reflexivity|apply IH; lia]. Qed.

Theorem fill_ok s b n : Inv s ->
  exists s', extend_and_fill s b n = Done s' /\ Inv s' /\ len s' = len s + n /\ abs s' = abs s ++ repeat b n.
Proof.
  intros HI. unfold extend_and_fill. destruct (n =? 0) eqn:En.
  - assert (n = 0) as -> by lia. exists s. cbn [repeat]. rewrite app_nil_r.
    split; [reflexivity|]. split; [exact HI|]. split; [lia|reflexivity].
  - assert (0 < n) as Hpos by lia.
    destruct (reserve_ok s n HI) as (s1 & E1 & I1 & A1 & L1 & F1 & C1 & _).
    specialize (C1 Hpos). rewrite E1. cbn [bind].
    destruct (free_lens s1) as [to_head after_tail] eqn:FL.
    pose proof (free_lens_bounds s1 I1 C1) as (Q1 & Q2 & Q3). rewrite FL in Q1, Q2, Q3. cbn [fst snd] in *.
    rewrite (Nat.min_comm after_tail n).
    set (f1 := Nat.min n after_tail).
    destruct (fill_region_ok (mem s1) (cap s1) (tail s1) b f1) as (m1 & W1 & WA1 & WB1); [lia|].
    rewrite W1.
    assert (length (repeat b n) = n) as Lr by apply repeat_length.
    destruct (f1 <? n) eqn:E2.
    + destruct (fill_region_ok m1 (cap s1) 0 b (n - f1)) as (m2 & W2 & WA2 & WB2); [unfold f1; lia|].
      rewrite W2. unfold advance_tail. assert (cap s1 =? 0 = false) as -> by lia.
      eexists. split; [reflexivity|].
      destruct (two_part_lemma s1 n (repeat b n) m1 m2 I1 C1 F1 Lr) as (I' & L' & A').
      * rewrite FL. cbn [snd]. fold f1. intros j Hj. rewrite WA1 by exact Hj. rewrite nth_repeat_lt by lia. reflexivity.
      * rewrite FL. cbn [snd]. fold f1. exact WB1.
      * rewrite FL. cbn [snd]. fold f1. intros j Hj. specialize (WA2 j Hj). cbn [Nat.add] in WA2.
        rewrite WA2. rewrite nth_repeat_lt by lia. reflexivity.
      * rewrite FL. cbn [snd]. fold f1. intros j Hj. apply WB2. lia.
      * rewrite L', A', L1, A1. split; [exact I'|]. split; reflexivity.
    + unfold advance_tail. assert (cap s1 =? 0 = false) as -> by lia.
      eexists. split; [reflexivity|].
      destruct (two_part_lemma s1 n (repeat b n) m1 m1 I1 C1 F1 Lr) as (I' & L' & A').
      * rewrite FL. cbn [snd]. fold f1. intros j Hj. rewrite WA1 by exact Hj. rewrite nth_repeat_lt by lia. reflexivity.
      * rewrite FL. cbn [snd]. fold f1. exact WB1.
      * rewrite FL. cbn [snd]. fold f1. intros j Hj. exfalso. lia.
      * reflexivity.
      * rewrite L', A', L1, A1. split; [exact I'|]. split; reflexivity.
Qed.

Theorem drop_ok s amount : Inv s -> 0 < cap s ->
  exists s', drop_first_n s amount = Done s' /\ Inv s' /\
             len s' = len s - Nat.min amount (len s) /\ abs s' = skipn (Nat.min amount (len s)) (abs s).
Proof.
  intros HI Hc. unfold drop_first_n. assert (cap s =? 0 = false) as -> by lia.
  set (a := Nat.min amount (len s)).
  pose proof (len_free s HI Hc) as LF.
  assert (Inv s) as HI0 by exact HI.
  destruct HI as (HZ & HB & HL). destruct (HB Hc) as [Hh Ht].
  assert (a <= len s) as Ha by (unfold a; lia).
  eexists. split; [reflexivity|].
  set (s' := mkrb (cap s) ((head s + a) mod cap s) (tail s) (mem s)).
  assert (head s' = if head s + a <? cap s then head s + a else head s + a - cap s) as Hh'.
  { unfold s'. cbn [head]. apply mod_sub; lia. }
  assert (head s' < cap s) as Hhb by (rewrite Hh'; destruct (head s + a <? cap s) eqn:E; lia).
  assert (len s' = len s - a) as Hlen.
  { rewrite (len_eq s'). change (tail s') with (tail s). change (cap s') with (cap s). rewrite Hh'.
    rewrite len_eq in Ha, LF |- *.
    destruct (head s <=? tail s) eqn:E1; destruct (head s + a <? cap s) eqn:E2;
      match goal with |- context [?x <=? ?y] => destruct (x <=? y) eqn:E3 end; lia. }
  assert (forall i, i < len s' -> idx s' i = idx s (a + i)) as Hidx.
  { intros i Hi. unfold idx. change (cap s') with (cap s). rewrite Hh'. rewrite Hlen in Hi. rewrite len_eq in Ha, Hi, LF.
    destruct (head s <=? tail s) eqn:E1; destruct (head s + a <? cap s) eqn:E2;
      destruct (head s + (a + i) <? cap s) eqn:E3;
      match goal with |- context [?x <? ?y] => destruct (x <? y) eqn:E4 end; lia. }
  split; [|split; [exact Hlen|]].
  - split; [intros Z0; exfalso; change (cap s') with (cap s) in Z0; lia|]. split.
    + intros _. split; [exact Hhb|exact Ht].
    + intros i Hi. change (cap s') with (cap s). apply (live_idx s' i Hc Hhb Ht) in Hi.
      destruct Hi as (k & Hk & ->). rewrite Hidx by exact Hk. change (mem s') with (mem s).
      apply HL. apply live_idx; try assumption. exists (a + k). split; [lia|reflexivity].
  - apply list_eq_nth.
    + rewrite skipn_length, !abs_length. exact Hlen.
    + intros i Hi. rewrite abs_length in Hi. rewrite abs_nth by exact Hi. rewrite nth_skipn_add.
      rewrite abs_nth by lia. unfold cell. rewrite Hidx by exact Hi. reflexivity.
Qed.

Lemma clear_ok s : Inv s -> Inv (clear s) /\ abs (clear s) = [] /\ len (clear s) = 0.
Proof.
  intros (HZ & HB & HL). unfold clear. split; [|split].
  - split; [intros; split; reflexivity|]. split; [intros H; cbn [head tail cap] in *; lia|].
    intros i Hi. unfold live in Hi. cbn [head tail cap Nat.leb] in Hi. lia.
  - unfold abs. rewrite len_eq. cbn [head tail cap Nat.leb]. reflexivity.
  - rewrite len_eq. cbn [head tail cap Nat.leb]. reflexivity.
Qed.

Lemma live_not_in_parts s n i : Inv s -> 0 < cap s -> n <= free s -> i < len s ->
  let f1 := Nat.min n (snd (free_lens s)) in
  ~ (tail s <= idx s i < tail s + f1) /\ ~ (idx s i < n - f1).
Proof.
  intros HI Hc Hn Hi f1. pose proof (len_free s HI Hc) as LF.
  destruct HI as (HZ & HB & HL). destruct (HB Hc) as [Hh Ht].
  unfold idx. rewrite len_eq in Hi, LF. rewrite free_eq in Hn, LF. unfold f1, free_lens in *.
  destruct (head s <=? tail s) eqn:E1; destruct (tail s <? head s) eqn:E2; try (exfalso; lia); cbn [snd] in *;
  destruct (head s + i <? cap s) eqn:E3; lia.
Qed.

(** [extend_from_reader]: the reader is an oracle; [read_exact] either fills the slice it is given or fails *)
Theorem reader_ok s n r1 r2 : Inv s ->
  (forall d, r1 = Some d -> n <= length d) -> (forall d, r2 = Some d -> n <= length d) ->
  exists s' ok, extend_from_reader s n r1 r2 = Done (s', ok) /\ Inv s' /\
    (ok = false -> abs s' = abs s /\ len s' = len s) /\
    (ok = true -> exists data, length data = n /\ abs s' = abs s ++ data /\ len s' = len s + n /\
                  (n = 0 \/ exists f1 d1, r1 = Some d1 /\ f1 <= n /\
                     data = firstn f1 d1 ++ match r2 with Some d2 => firstn (n - f1) d2 | None => [] end)).
Proof.
  intros HI R1 R2. unfold extend_from_reader. destruct (n =? 0) eqn:En.
  - assert (n = 0) as -> by lia. exists s, true. split; [reflexivity|]. split; [exact HI|]. split; [discriminate|].
    intros _. exists []. rewrite app_nil_r. split; [reflexivity|]. split; [reflexivity|]. split; [lia|]. left; reflexivity.
  - assert (0 < n) as Hpos by lia.
    destruct (reserve_ok s n HI) as (s1 & E1 & I1 & A1 & L1 & F1 & C1 & _).
    specialize (C1 Hpos). rewrite E1. cbn [bind].
    destruct (free_lens s1) as [to_head after_tail] eqn:FL.
    pose proof (free_lens_bounds s1 I1 C1) as (Q1 & Q2 & Q3). rewrite FL in Q1, Q2, Q3. cbn [fst snd] in *.
    rewrite (Nat.min_comm after_tail n).
    set (f1 := Nat.min n after_tail).
    assert (forall i, i < len s1 -> ~ (tail s1 <= idx s1 i < tail s1 + f1) /\ ~ (idx s1 i < n - f1)) as NP.
    { intros i Hi. pose proof (live_not_in_parts s1 n i I1 C1 F1 Hi) as P. rewrite FL in P. exact P. }
    destruct (fill_region_ok (mem s1) (cap s1) (tail s1) 0%Z f1) as (m1 & W1 & WA1 & WB1); [lia|].
    rewrite W1.
    destruct r1 as [d1|].
    2:{ (* the first read_exact failed: only dead cells were zeroed *)
        eexists _, false. split; [reflexivity|].
        destruct (frame_lemma s1 m1 I1) as (I' & A' & L').
        { intros i Hi. apply WB1. apply (NP i Hi). }
        split; [exact I'|]. split; [intros _; rewrite A', L', A1, L1; split; reflexivity|discriminate]. }
    specialize (R1 d1 eq_refl).
    assert (length (firstn f1 d1) = f1) as Lf by (rewrite firstn_length; unfold f1; lia).
    destruct (write_region_ok m1 (cap s1) (tail s1) (firstn f1 d1)) as (m1' & W1' & WA1' & WB1'); [rewrite Lf; lia|].
    rewrite W1'. rewrite Lf in WA1', WB1'.
    destruct (f1 <? n) eqn:E2.
    + destruct (fill_region_ok m1' (cap s1) 0 0%Z (n - f1)) as (m2 & W2 & WA2 & WB2); [unfold f1; lia|].
      rewrite W2.
      destruct r2 as [d2|].
      2:{ eexists _, false. split; [reflexivity|].
          destruct (frame_lemma s1 m2 I1) as (I' & A' & L').
          { intros i Hi. destruct (NP i Hi) as [P1 P2]. rewrite WB2 by lia. rewrite WB1' by exact P1. apply WB1. exact P1. }
          split; [exact I'|]. split; [intros _; rewrite A', L', A1, L1; split; reflexivity|discriminate]. }
      specialize (R2 d2 eq_refl).
      assert (length (firstn (n - f1) d2) = n - f1) as Lf2 by (rewrite firstn_length; lia).
      destruct (write_region_ok m2 (cap s1) 0 (firstn (n - f1) d2)) as (m2' & W2' & WA2' & WB2'); [rewrite Lf2; unfold f1; lia|].
      rewrite W2'. rewrite Lf2 in WA2', WB2'.
      unfold advance_tail. assert (cap s1 =? 0 = false) as -> by lia. cbn [bind fst].
      eexists _, true. split; [reflexivity|].
      set (data := firstn f1 d1 ++ firstn (n - f1) d2).
      assert (length data = n) as Ld by (unfold data; rewrite app_length, Lf, Lf2; unfold f1; lia).
      destruct (two_part_lemma s1 n data m1' m2' I1 C1 F1 Ld) as (I' & L' & A').
      * rewrite FL. cbn [snd]. fold f1. intros j Hj. rewrite WA1' by exact Hj. unfold data.
        rewrite app_nth1 by lia. reflexivity.
      * rewrite FL. cbn [snd]. fold f1. intros j Hj. rewrite WB1' by exact Hj. apply WB1. exact Hj.
      * rewrite FL. cbn [snd]. fold f1. intros j Hj. specialize (WA2' j Hj). cbn [Nat.add] in WA2'. rewrite WA2'.
        unfold data. rewrite app_nth2 by lia. rewrite Lf. do 2 f_equal. lia.
      * rewrite FL. cbn [snd]. fold f1. intros j Hj. rewrite WB2' by lia. apply WB2. lia.
      * split; [exact I'|]. split; [discriminate|]. intros _. exists data. rewrite A', L', A1, L1.
        split; [exact Ld|]. split; [reflexivity|]. split; [reflexivity|]. right. exists f1, d1.
        split; [reflexivity|]. split; [unfold f1; lia|reflexivity].
    + unfold advance_tail. assert (cap s1 =? 0 = false) as -> by lia. cbn [bind fst].
      eexists _, true. split; [reflexivity|].
      assert (f1 = n) as Hf by (unfold f1 in *; lia).
      set (data := firstn f1 d1).
      assert (length data = n) as Ld by (unfold data; rewrite Lf; exact Hf).
      destruct (two_part_lemma s1 n data m1' m1' I1 C1 F1 Ld) as (I' & L' & A').
      * rewrite FL. cbn [snd]. fold f1. intros j Hj. rewrite WA1' by exact Hj. reflexivity.
      * rewrite FL. cbn [snd]. fold f1. intros j Hj. rewrite WB1' by exact Hj. apply WB1. exact Hj.
      * rewrite FL. cbn [snd]. fold f1. intros j Hj. exfalso. lia.
      * reflexivity.
      * split; [exact I'|]. split; [discriminate|]. intros _. exists data. rewrite A', L', A1, L1.
        split; [exact Ld|]. split; [reflexivity|]. split; [reflexivity|]. right. exists f1, d1.
        split; [reflexivity|]. split; [lia|].
        unfold data. replace (n - f1) with 0 by lia. destruct r2; cbn [firstn]; rewrite app_nil_r; reflexivity.
Qed.
