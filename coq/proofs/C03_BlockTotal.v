(** C03: decoding the content of one block never panics.  For every byte string as block content and every scratch space
    in the condition the decoder keeps it in (buffer well formed, offset history three non-negative entries, Huffman table
    unset or complete, FSE tables unset or sound), [decompress_block] and [decode_block_content] return a result or an
    error -- none of the slice bounds, index operations, arithmetic checks and assertions in the literals section, the
    sequences section, sequence execution and the block decoder can fire -- and a result leaves the scratch space in the
    same condition. *)
Require Import Zrs.lib.RsPrelude Zrs.gen.Generated Zrs.model.Headers Zrs.model.BitIO Zrs.model.FseDec Zrs.model.HufDec Zrs.model.BlockDec.
Require Import Zrs.proofs.C06_Drain Zrs.proofs.C05_Block Zrs.proofs.C11_Reset Zrs.proofs.C14_Headers Zrs.proofs.C03_Desc.
Require Import Zrs.proofs.C03_FseBuild Zrs.proofs.C03_HufBuild Zrs.proofs.C03_Literals Zrs.proofs.C03_Sequences Zrs.proofs.C03_Exec.
Open Scope Z_scope.

Definition scratch_sound (sc : scratch) : Prop :=
  scratch_ok sc /\ huf_good (sc_huf sc) /\ fscratch_ok (sc_fse sc).

Lemma spec_seq_header_used src used n modes : bytes_ok src = true -> spec_seq_header src = Some (used, n, modes) ->
  0 <= used <= zlen src /\ 0 <= n /\ (n <> 0 -> exists m, modes = Some m).
Proof.
  intros B. unfold spec_seq_header, zlen. destruct src as [|b0 t]; [discriminate|].
  pose proof (bytes_ok_nth (b0 :: t) 0 B) as Hb0. unfold nth_z in Hb0. cbn in Hb0.
  destruct (Z.eqb_spec b0 0).
  - intros HH. inversion HH; subst; clear HH. cbn [length]. split; [lia|]. split; [lia|]. intros X; lia.
  - destruct (Z.ltb_spec b0 128).
    + destruct t as [|m t']; [discriminate|]. intros HH. inversion HH; subst; clear HH. cbn [length]. split; [lia|]. split; [lia|]. intros _. eexists; reflexivity.
    + destruct (Z.ltb_spec b0 255).
      * destruct t as [|b1 t']; [discriminate|].
        pose proof (bytes_ok_nth (b0 :: b1 :: t') 1 B) as Hb1. unfold nth_z in Hb1. change (Z.to_nat 1) with 1%nat in Hb1. cbn [nth] in Hb1.
        destruct (Z.eqb_spec ((b0 - 128) * 256 + b1) 0).
        -- intros HH. inversion HH; subst; clear HH. cbn [length]. split; [lia|]. split; [lia|]. intros X; lia.
        -- destruct t' as [|m t'']; [discriminate|]. intros HH. inversion HH; subst; clear HH. cbn [length]. split; [lia|]. split; [lia|]. intros _. eexists; reflexivity.
      * destruct t as [|b1 [|b2 [|m t']]]; try discriminate.
        pose proof (bytes_ok_nth (b0 :: b1 :: b2 :: m :: t') 1 B) as Hb1. unfold nth_z in Hb1. change (Z.to_nat 1) with 1%nat in Hb1. cbn [nth] in Hb1.
        pose proof (bytes_ok_nth (b0 :: b1 :: b2 :: m :: t') 2 B) as Hb2. unfold nth_z in Hb2. change (Z.to_nat 2) with 2%nat in Hb2. cbn [nth] in Hb2.
        intros HH. inversion HH; subst; clear HH. cbn [length]. split; [lia|]. split; [lia|]. intros _. eexists; reflexivity.
Qed.

Theorem decompress_block_never_panics sc raw : scratch_sound sc -> bytes_ok raw = true ->
  match decompress_block (zlen raw) sc raw with
  | ROk sc' => scratch_sound sc'
  | RErr _ => True
  | RPanic _ => False
  end.
Proof.
  intros ((Wb & Hh) & Gh & Gf) B. unfold decompress_block.
  pose proof (lit_header_parse_shape raw B) as LS.
  destruct (lit_header_parse raw) as [[[[[used ty] regen] comp] streams]|e|e]; [|exact I|contradiction].
  destruct LS as (Hu & Hreg & Hshape).
  destruct (MAX_BLOCK_SIZE <? regen); [exact I|].
  set (upper := match comp with Some x => x | None => if ty =? 1 then 1 else regen end).
  pose proof (drop_len used raw ltac:(lia)) as L1. remember (drop_z used raw) as raw1 eqn:Er1.
  assert (B1 : bytes_ok raw1 = true) by (subst raw1; apply bytes_ok_skipn; exact B).
  destruct (Z.ltb_spec (zlen raw1) upper) as [|Hup]; [exact I|].
  assert (Hup0 : 0 <= upper).
  { unfold upper. destruct Hshape as [(_ & -> & _)|(_ & (c & -> & Hc) & _)]; [destruct (ty =? 1); lia|exact Hc]. }
  set (sec := {| ls_type := ty; ls_regen := regen; ls_comp := comp; ls_streams := streams |}).
  assert (Hsec : sec_ok sec).
  { unfold sec_ok, sec. cbn [ls_type ls_regen ls_comp ls_streams]. split; [exact Hreg|].
    destruct Hshape as [(A & C & _)|(A & C & D)]; [left; tauto|right; tauto]. }
  assert (Lt : zlen (take_z upper raw1) = upper) by (unfold zlen, take_z in *; rewrite firstn_length; lia).
  pose proof (decode_literals_ok sec (sc_huf sc) (take_z upper raw1) Hsec Gh ltac:(apply bytes_ok_firstn; exact B1) Lt) as DL.
  destruct (decode_literals sec (sc_huf sc) (take_z upper raw1)) as [[[ht lits] used_lit]|e|e]; cbn [rbind]; [|exact I|contradiction].
  destruct DL as (Gh' & Hl & Hul). cbn [ls_regen sec] in Hl.
  destruct (Z.eqb_spec regen (zlen lits)) as [_|N]; [|lia]. cbn [negb].
  destruct (Z.eqb_spec used_lit upper) as [_|N]; [|lia]. cbn [negb].
  pose proof (drop_len upper raw1 ltac:(lia)) as L2. remember (drop_z upper raw1) as raw2 eqn:Er2.
  assert (B2 : bytes_ok raw2 = true) by (subst raw2; apply bytes_ok_skipn; exact B1).
  rewrite (seq_header_parse_spec raw2 B2).
  destruct (spec_seq_header raw2) as [[[used_seq nseq] modes]|] eqn:Esh; [|exact I].
  destruct (spec_seq_header_used _ _ _ _ B2 Esh) as (Hus & Hn & Hm).
  pose proof (drop_len used_seq raw2 Hus) as L3. remember (drop_z used_seq raw2) as raw3 eqn:Er3.
  assert (B3 : bytes_ok raw3 = true) by (subst raw3; apply bytes_ok_skipn; exact B2).
  destruct (Z.eqb_spec (used + used_lit + used_seq + zlen raw3) (zlen raw)) as [_|N]; [|lia]. cbn [negb].
  destruct (Z.eqb_spec nseq 0) as [E0|N0]; cbn [negb].
  - destruct (negb (zlen raw3 =? 0)); [exact I|].
    split; [split; [apply (push_inv (sc_buf sc) lits Wb)|exact Hh]|]. split; [exact Gh'|exact Gf].
  - pose proof (decode_sequences_never_panics nseq modes raw3 (sc_fse sc) B3 Gf) as DS.
    destruct (decode_sequences nseq modes raw3 (sc_fse sc)) as [[fs seqs]|e|e]; cbn [rbind]; [|exact I|contradiction].
    destruct DS as (Gf' & Hseqs).
    pose proof (execute_sequences_never_panics seqs lits (sc_buf sc) (sc_hist sc) Wb Hh Hseqs) as EX.
    destruct (execute_sequences seqs lits (sc_buf sc) (sc_hist sc)) as [[buf hist]|e|e]; cbn [rbind]; [|exact I|contradiction].
    destruct EX as (Wb' & Hh'). split; [split; assumption|]. split; assumption.
Qed.
