(** C02: obligation O2 for the compressor's own literals part, block by block.  [literals_part] (model/LitComp.v) is the
    literals part of [compress_block] with [compress_literals]: raw literals, Huffman-coded literals with a new table
    (direct or FSE-compressed description) or with the remembered table of an earlier block (treeless).  Whatever table
    the compressor remembers -- provided the decoder holds the table built from the description that table was written
    with -- the section it writes is read back as exactly the literals, and the same relation holds afterwards. *)
Require Import Zrs.lib.RsPrelude Zrs.gen.Generated Zrs.model.Headers Zrs.model.BitIO Zrs.model.BitStream Zrs.model.FseDec Zrs.model.HufDec Zrs.model.BlockDec Zrs.model.LitEnc Zrs.model.BlockEnc Zrs.model.HufEnc Zrs.model.SeqEnc Zrs.model.FseEnc Zrs.model.FseNorm Zrs.model.WeightEnc Zrs.model.HufCounts Zrs.model.LitComp.
Require Import Zrs.proofs.C13_Huffman Zrs.proofs.C13_EncCanon Zrs.proofs.C13_EncWeights Zrs.proofs.C13_Accepted Zrs.proofs.C13_Direct Zrs.proofs.C13_WeightModel Zrs.proofs.C13_WeightTotal.
Require Import Zrs.proofs.C13_LitSection Zrs.proofs.C02_Concrete Zrs.proofs.C02_O2Table Zrs.proofs.C02_O2Huffman Zrs.proofs.C02_O2Complete Zrs.proofs.C02_O2Treeless Zrs.proofs.C02_O2Counts Zrs.proofs.C02_O2Compressor.
Open Scope Z_scope.

(** the full weight list [ws ++ [lw]] is a complete code of depth [M] and [codes] is the compressor's code for it *)
Definition complete_for (ws : list Z) (lw M : Z) (codes : codes_t) : Prop :=
  Forall (fun w => 0 <= w <= MAX_MAX_NUM_BITS) ws /\ (length ws <= 255)%nat /\ 1 <= lw <= M /\ M <= MAX_MAX_NUM_BITS /\
  0 < kraft ws /\ kraft (ws ++ [lw]) = 2 ^ M /\ enc_build_from_weights (ws ++ [lw]) = ROk codes.

(** the table the compressor remembers is the code of the weights the decoder's table was built from *)
Definition tab_rel (last : option codes_t) (h : huf_table) : Prop :=
  forall codes, last = Some codes -> built h /\ exists lw M, complete_for (ht_weights h) lw M codes.
Definition hinv (h : huf_table) : Prop := t_max_symbol (ht_fse h) = 255.

(** *** the last weight of a complete code is determined by the others *)
Lemma gap_lt x a b M1 M2 : 0 < x -> 0 <= a < b -> x + 2 ^ a = 2 ^ M1 -> x + 2 ^ b = 2 ^ M2 -> False.
Proof.
  intros Hx Hab E1 E2.
  assert (Pa : 0 < 2 ^ a) by (apply Z.pow_pos_nonneg; lia).
  assert (Hlt : 2 ^ a < 2 ^ b) by (apply Z.pow_lt_mono_r; lia).
  assert (HM1 : 0 <= M1) by (destruct (Z.lt_ge_cases M1 0) as [Hn|]; [rewrite (Z.pow_neg_r 2 M1 Hn) in E1; lia|lia]).
  assert (HM2 : 0 <= M2) by (destruct (Z.lt_ge_cases M2 0) as [Hn|]; [rewrite (Z.pow_neg_r 2 M2 Hn) in E2; lia|lia]).
  assert (HaM : a < M1) by (apply (Z.pow_lt_mono_r_iff 2); lia).
  assert (HMM : M1 < M2) by (apply (Z.pow_lt_mono_r_iff 2); lia).
  replace b with (a + 1 + (b - a - 1)) in E2 by lia. replace M1 with (a + 1 + (M1 - a - 1)) in E1 by lia. replace M2 with (a + 1 + (M2 - a - 1)) in E2 by lia.
  rewrite (Z.pow_add_r 2 (a + 1) (M1 - a - 1)) in E1 by lia. rewrite (Z.pow_add_r 2 (a + 1) (M2 - a - 1)) in E2 by lia.
  rewrite (Z.pow_add_r 2 (a + 1) (b - a - 1)) in E2 by lia. rewrite (Z.pow_add_r 2 a 1) in E1, E2 by lia. change (2 ^ 1) with 2 in *.
  remember (2 ^ a) as P. remember (2 ^ (b - a - 1)) as k3. remember (2 ^ (M1 - a - 1)) as k1. remember (2 ^ (M2 - a - 1)) as k2.
  assert (E : P * (2 * (k1 - k2 + k3) - 1) = 0) by nia.
  apply Z.mul_eq_0 in E as [E|E]; lia.
Qed.
Lemma gap_unique x a b M1 M2 : 0 < x -> 0 <= a -> 0 <= b -> x + 2 ^ a = 2 ^ M1 -> x + 2 ^ b = 2 ^ M2 -> a = b.
Proof.
  intros Hx Ha Hb E1 E2. destruct (Z.lt_trichotomy a b) as [H|[H|H]]; [exfalso; apply (gap_lt x a b M1 M2); auto; lia|exact H|exfalso; apply (gap_lt x b a M2 M1); auto; lia].
Qed.

Lemma enc_build_pow2 W codes : enc_build_from_weights W = ROk codes -> kraft W = 2 ^ Z.log2 (kraft W).
Proof.
  unfold enc_build_from_weights. destruct (is_pow2z (kraft W)) eqn:E; cbn [negb]; [|discriminate]. intros _.
  unfold is_pow2z in E. apply andb_prop in E as [_ E]. lia.
Qed.
Lemma kraft_snoc ws lw : 1 <= lw -> kraft (ws ++ [lw]) = kraft ws + 2 ^ (lw - 1).
Proof. intros H. rewrite kraft_app. unfold kraft at 2. cbn [fold_right]. destruct (Z.ltb_spec 0 lw); lia. Qed.

(** a treeless section coded with the remembered code is read back by the table the decoder still holds *)
Lemma treeless_for_complete_weights t lw M codes : built t -> complete_for (ht_weights t) lw M codes ->
  forall lits,
    Forall (fun s => 0 <= s <= Z.of_nat (length (ht_weights t)) /\ 0 < nth (Z.to_nat s) (ht_weights t ++ [lw]) 0) lits ->
    16 <= Z.of_nat (length lits) <= 131072 ->
    let payload := huf4_bytes (code_fn codes) lits in
    zlen payload < zlen lits ->
    lit_ok t lits (huf_lit_header 3 (zlen lits) (zlen payload)) payload t.
Proof.
  intros ((ht0 & src & used & Hb) & Hw & Hl) (Hw11 & _ & Hlw & HM & Kpos & Kall & Henc) lits Hlits Hn.
  destruct (treeless_section_meets_O2_strong ht0 src t used Hb Hw Hl) as (lw' & codes' & Hlw' & Henc' & Hall).
  assert (lw' = lw).
  { pose proof (enc_build_pow2 _ _ Henc') as P'. rewrite kraft_snoc in P' by lia. rewrite kraft_snoc in Kall by lia.
    assert (lw' - 1 = lw - 1) by (eapply gap_unique; [exact Kpos| | |exact P'|exact Kall]; lia). lia. }
  subst lw'. rewrite Henc in Henc'. injection Henc' as <-. apply Hall; assumption.
Qed.

(** what a successful [decode_literals] of a section with a table description leaves behind: the table built from it *)
Lemma decode_literals_new_table regen streams h src ht' lits n :
  decode_literals {| ls_type := 2; ls_regen := regen; ls_comp := Some (zlen src); ls_streams := streams |} h src = ROk (ht', lits, n) ->
  exists used, huf_build_decoder h src = ROk (ht', used).
Proof.
  unfold decode_literals. cbn [ls_type ls_regen ls_comp ls_streams]. change (2 =? 0) with false. change (2 =? 1) with false. change (2 =? 2) with true. cbv iota.
  destruct streams as [ns|]; [|discriminate].
  destruct (Z.ltb_spec (zlen src) (zlen src)) as [H|_]; [lia|].
  assert (Et : take_z (zlen src) src = src) by (unfold take_z, zlen; rewrite Nat2Z.id; apply firstn_all).
  rewrite Et. destruct (huf_build_decoder h src) as [[t b]|e|e]; cbn [rbind]; try discriminate.
  destruct (zlen src <? b); [discriminate|].
  match goal with |- (let* _ := ?X in _) = _ -> _ => destruct X as [[o br]|e|e] end; cbn [rbind]; try discriminate.
  destruct (negb (zlen o =? regen)); [discriminate|]. intros E. injection E as <- _ _. exists b. reflexivity.
Qed.

Lemma can_encode_loop_covers : forall self other sum d, can_encode_loop self other sum = Some d ->
  forall i, (i < length other)%nat -> (i < length self)%nat -> snd (nth i other (0, 0)) <> 0 -> snd (nth i self (0, 0)) <> 0.
Proof.
  induction self as [|s st IH]; intros other sum d H i Hi Hs; [cbn [length] in Hs; lia|].
  destruct other as [|o ot]; [cbn [length] in Hi; lia|]. cbn [can_encode_loop] in H.
  destruct (negb (snd o =? 0) && (snd s =? 0)) eqn:E; [discriminate|].
  destruct i as [|i]; cbn [nth length] in *.
  - intros Ho Hz. rewrite Hz in E. destruct (Z.eqb_spec (snd o) 0); [congruence|]. cbn in E. discriminate.
  - apply (IH ot _ d H i); lia.
Qed.

(** *** a section with a table description: what the decoder holds afterwards *)
Lemma lit_ok_type2 h lits payload t : 16 <= zlen lits <= 131072 -> zlen payload < zlen lits ->
  lit_ok h lits (huf_lit_header 2 (zlen lits) (zlen payload)) payload t -> exists used, huf_build_decoder h payload = ROk (t, used).
Proof.
  intros Hn Hp (ty & regen & comp & streams & Hparse & Hc & _ & Hd).
  specialize (Hparse []). pose proof (zlen_nonneg payload) as P0.
  destruct (Z.ltb_spec (zlen lits) 16384) as [Hsm|Hlg].
  - rewrite huf_header_parse_small in Hparse by (try lia; left; reflexivity). injection Hparse as _ <- <- <- <-.
    eapply decode_literals_new_table. exact Hd.
  - rewrite huf_header_parse_large in Hparse by (try lia; left; reflexivity). injection Hparse as _ <- <- <- <-.
    eapply decode_literals_new_table. exact Hd.
Qed.

Lemma fse_build_max_symbol_only t1 t2 al probs : t_max_symbol t1 = t_max_symbol t2 ->
  fse_build_from_probabilities t1 al probs = fse_build_from_probabilities t2 al probs.
Proof. intros E. unfold fse_build_from_probabilities. rewrite E. reflexivity. Qed.
Lemma fse_build_keeps_max_symbol t al probs D : fse_build_from_probabilities t al probs = ROk D -> t_max_symbol D = t_max_symbol t.
Proof.
  unfold fse_build_from_probabilities. destruct (al =? 0); [discriminate|].
  destruct (build_decoding_table (t_max_symbol t) al probs) as [[dec counter]|e|e]; cbn [rbind]; try discriminate.
  intros E. injection E as <-. reflexivity.
Qed.

(** the description [write_table] writes is read back as the written weights, whatever follows it *)
Lemma write_table_reads_back h W fresh desc : hinv h -> enc_weights fresh = W -> (2 <= length W <= 256)%nat ->
  Forall (fun w => 0 <= w <= 11) W -> 1 <= zmax_list (removelast W) ->
  write_table_model fresh = ROk desc ->
  forall rest, exists ft, read_weights h (desc ++ rest) = ROk (removelast W, ft, zlen desc) /\ t_max_symbol ft = 255.
Proof.
  intros Hinv EW LW H11 Hz Hwt rest. unfold write_table_model in Hwt. rewrite EW in Hwt.
  assert (LR : length (removelast W) = (length W - 1)%nat) by apply removelast_length.
  assert (Hw11 : Forall (fun w => 0 <= w <= 11) (removelast W)) by (apply removelast_forall; exact H11).
  destruct (Nat.ltb_spec 16 (length (removelast W))) as [Hmany|Hfew].
  - destruct (norm_counts (weight_hist (removelast W)) 6 true) as [[al probs]|e|e] eqn:En; cbn [rbind] in Hwt; try discriminate.
    destruct (desc_bytes al probs) as [d|] eqn:Ed; [|discriminate].
    destruct (fse_build_from_probabilities (fse_new 255) al probs) as [D|e|e] eqn:ED; cbn [rbind] in Hwt; try discriminate.
    destruct (Z.leb_spec 128 (zlen d + zlen (stream_bytes (weight_fields (enc_of_dec D) (removelast W))))) as [|Hhb]; [discriminate|].
    injection Hwt as <-.
    destruct (model_weight_description_roundtrip h (removelast W) al probs d rest Hinv ltac:(lia)
                ltac:(eapply Forall_impl; [|exact Hw11]; cbn; intros; lia) Hz En Ed) as (D' & ED' & Hread).
    rewrite (fse_build_max_symbol_only (ht_fse h) (fse_new 255)) in ED' by (rewrite Hinv; reflexivity). rewrite ED in ED'. injection ED' as <-.
    exists D. split.
    + cbv zeta in Hread. specialize (Hread Hhb). cbn [app]. rewrite <- app_assoc. rewrite Hread. f_equal. f_equal.
      unfold zlen. cbn [length]. rewrite app_length. lia.
    + rewrite (fse_build_keeps_max_symbol _ _ _ _ ED). reflexivity.
  - injection Hwt as <-. exists (ht_fse h). split; [|exact Hinv].
    rewrite (direct_description_roundtrip h (removelast W) rest ltac:(lia)
               ltac:(eapply Forall_impl; [|exact Hw11]; cbn; intros; lia)). reflexivity.
Qed.

(** *** the two ways [compress_literals] can end *)
Definition finish (last : option codes_t) (lits : list Z) (fresh codes : codes_t) (new_table : bool) : res (list Z * list Z * option codes_t) :=
  let n := zlen lits in
  if 262144 <=? n then RPanic "not implemented: too many literals" else
  let* desc := (if new_table then write_table_model codes else ROk []) in
  let '(a, b, c, _) := split4 lits in
  if (65535 <? zlen (hstream (code_fn codes) a)) || (65535 <? zlen (hstream (code_fn codes) b)) || (65535 <? zlen (hstream (code_fn codes) c))
  then RPanic "assertion failed: size <= u16::MAX" else
  let payload := desc ++ huf4_bytes (code_fn codes) lits in
  let header := huf_lit_header (if new_table then 2 else 3) n (zlen payload) in
  if n <=? zlen header + zlen payload then ROk (raw_lit_header n, lits, last)
  else ROk (header, payload, if new_table then Some fresh else last).

Lemma literals_part_unfold last lits : literals_part last lits =
  if (zlen lits <=? 1024) || single_symbol lits then ROk (raw_lit_header (zlen lits), lits, last)
  else
    let* fresh := build_from_data lits in
    let '(codes, new_table) :=
      match last with
      | Some t => match can_encode t fresh with
                  | Some diff => if 5 <? diff then (fresh, true) else (t, false)
                  | None => (fresh, true)
                  end
      | None => (fresh, true)
      end in
    finish last lits fresh codes new_table.
Proof. reflexivity. Qed.

Lemma finish_shape last lits fresh codes nt hdr payload last' :
  finish last lits fresh codes nt = ROk (hdr, payload, last') ->
  (hdr = raw_lit_header (zlen lits) /\ payload = lits /\ last' = last) \/
  (exists desc, (if nt then write_table_model codes else ROk []) = ROk desc /\
     payload = desc ++ huf4_bytes (code_fn codes) lits /\ hdr = huf_lit_header (if nt then 2 else 3) (zlen lits) (zlen payload) /\
     zlen payload < zlen lits /\ last' = (if nt then Some fresh else last)).
Proof.
  unfold finish. destruct (262144 <=? zlen lits); [discriminate|].
  destruct (if nt then write_table_model codes else ROk []) as [desc|e|e]; cbn [rbind]; try discriminate.
  destruct (split4 lits) as [[[a b] c] d].
  destruct ((65535 <? zlen (hstream (code_fn codes) a)) || (65535 <? zlen (hstream (code_fn codes) b)) || (65535 <? zlen (hstream (code_fn codes) c))); [discriminate|].
  destruct (Z.leb_spec (zlen lits) (zlen (huf_lit_header (if nt then 2 else 3) (zlen lits) (zlen (desc ++ huf4_bytes (code_fn codes) lits))) + zlen (desc ++ huf4_bytes (code_fn codes) lits))) as [|Hlt];
    intros E; injection E as <- <- <-.
  - left. repeat split.
  - right. exists desc. split; [reflexivity|]. split; [reflexivity|]. split; [reflexivity|]. split; [|reflexivity].
    pose proof (zlen_nonneg (huf_lit_header (if nt then 2 else 3) (zlen lits) (zlen (desc ++ huf4_bytes (code_fn codes) lits)))). lia.
Qed.

Lemma single_symbol_false lits : single_symbol lits = false -> exists a b, In a lits /\ In b lits /\ a <> b.
Proof.
  destruct lits as [|x t]; [discriminate|]. cbn [single_symbol]. intros H.
  assert (exists y, In y t /\ y <> x) as (y & Hy & Hne).
  { induction t as [|y u IH]; [discriminate|]. cbn [forallb] in H. destruct (Z.eqb_spec x y) as [->|Hn]; cbn [andb] in H.
    - destruct (IH H) as (z & Hz & Hzn). exists z. split; [right; exact Hz|exact Hzn].
    - exists y. split; [left; reflexivity|congruence]. }
  exists x, y. split; [left; reflexivity|]. split; [right; exact Hy|congruence].
Qed.

Theorem literals_part_meets_O2 prev lits h hdr payload last' :
  tab_rel prev h -> hinv h -> Forall (fun s => 0 <= s <= 255) lits -> zlen lits <= MAX_BLOCK_SIZE ->
  literals_part prev lits = ROk (hdr, payload, last') ->
  exists ht', lit_ok h lits hdr payload ht' /\ tab_rel last' ht' /\ hinv ht'.
Proof.
  intros Hrel Hinv Hbytes Hlen H. rewrite literals_part_unfold in H.
  assert (Raw : exists ht', lit_ok h lits (raw_lit_header (zlen lits)) lits ht' /\ tab_rel prev ht' /\ hinv ht')
    by (exists h; split; [apply raw_lit_ok; exact Hlen|split; assumption]).
  destruct ((zlen lits <=? 1024) || single_symbol lits) eqn:Esmall.
  { injection H as <- <- <-. exact Raw. }
  apply orb_false_iff in Esmall as [Hbig Hsingle].
  destruct (single_symbol_false lits Hsingle) as (a & b & Ha & Hb & Hab).
  assert (Hn : 16 <= zlen lits <= 131072) by (change MAX_BLOCK_SIZE with 131072 in Hlen; lia).
  destruct (build_from_data_meets_O2 lits a b Hbytes Ha Hb Hab Hn) as (W & fresh & _ & Efresh & LW & H11 & EW & Hpos & (M & HWM & HlwM & HM11 & Kws & KW & EncW) & Hall).
  rewrite Efresh in H. cbn [rbind] in H.
  remember (fold_right Z.max 0 lits) as mx eqn:Emx.
  assert (Hrange : forall s, In s lits -> 0 <= s <= mx).
  { intros s Hs. rewrite Forall_forall in Hbytes. pose proof (Hbytes s Hs). split; [lia|]. rewrite Emx. apply fold_max_ge. exact Hs. }
  assert (Hmx255 : 0 <= mx <= 255).
  { assert (In mx lits) by (rewrite Emx; apply fold_max_in; [intros ->; contradiction|eapply Forall_impl; [|exact Hbytes]; cbn; intros; lia]).
    rewrite Forall_forall in Hbytes. apply (Hbytes mx H0). }
  assert (Hmx1 : 1 <= mx) by (pose proof (Hrange a Ha); pose proof (Hrange b Hb); lia).
  assert (LW2 : (2 <= length W <= 256)%nat) by lia.
  assert (HWne : W <> []) by (intros ->; cbn [length] in LW; lia).
  assert (EWs : W = removelast W ++ [last W 0]) by (apply app_removelast_last; exact HWne).
  assert (LR : length (removelast W) = Z.to_nat mx) by (rewrite removelast_length, LW; lia).
  (* the new-table ending *)
  assert (New : finish prev lits fresh fresh true = ROk (hdr, payload, last') ->
                exists ht', lit_ok h lits hdr payload ht' /\ tab_rel last' ht' /\ hinv ht').
  { intros F. destruct (finish_shape _ _ _ _ _ _ _ _ F) as [(-> & -> & ->)|(desc & Edesc & Epl & Ehdr & Hshort & ->)]; [exact Raw|].
    assert (Hz : 1 <= zmax_list (removelast W)).
    { assert (exists s, In s lits /\ s < mx) as (s & Hs & Hlt).
      { pose proof (Hrange a Ha). pose proof (Hrange b Hb). destruct (Z.eq_dec a mx); [exists b; split; [exact Hb|lia]|exists a; split; [exact Ha|lia]]. }
      pose proof (Hrange s Hs). pose proof (Hpos s Hs) as Hp. rewrite <- (nth_removelast W) in Hp by lia.
      assert (Hin : In (nth (Z.to_nat s) (removelast W) 0) (removelast W)) by (apply nth_In; lia).
      pose proof (zmax_ge _ _ Hin). lia. }
    destruct (write_table_reads_back h W fresh desc Hinv EW LW2 H11 Hz Edesc (huf4_bytes (code_fn fresh) lits)) as (ft & Hrw & Hft).
    rewrite <- Epl in Hrw.
    destruct (Hall h desc ft ltac:(rewrite <- Epl; exact Hrw) ltac:(rewrite <- Epl; exact Hshort)) as (t & Hok).
    rewrite <- Epl in Hok. exists t. split; [rewrite Ehdr; exact Hok|].
    destruct (lit_ok_type2 h lits payload t Hn Hshort Hok) as (used & Hbuild).
    pose proof Hbuild as Hb0. unfold huf_build_decoder in Hbuild. rewrite Hrw in Hbuild. cbn [rbind] in Hbuild.
    destruct (build_table_from_weights (removelast W)) as [[[[[dec M0] bits] ranks] idxs]|e|e]; cbn [rbind] in Hbuild; try discriminate.
    injection Hbuild as Et _.
    assert (Ew : ht_weights t = removelast W) by (rewrite <- Et; reflexivity).
    assert (Ef : ht_fse t = ft) by (rewrite <- Et; reflexivity).
    split; [|unfold hinv; rewrite Ef; exact Hft].
    intros codes Ec. injection Ec as <-.
    assert (Hw0 : Forall (fun w => 0 <= w <= MAX_MAX_NUM_BITS) (removelast W)) by (apply removelast_forall; exact H11).
    split.
    - split; [exists h, payload, used; exact Hb0|]. rewrite Ew. split; [eapply Forall_impl; [|exact Hw0]; cbn; intros; lia|lia].
    - exists (last W 0), M. rewrite Ew. unfold complete_for. rewrite <- EWs.
      repeat split; try assumption; try lia. }
  destruct prev as [t|].
  2:{ apply New. exact H. }
  destruct (can_encode t fresh) as [diff|] eqn:Ecan.
  2:{ apply New. exact H. }
  destruct (5 <? diff); [apply New; exact H|].
  (* treeless *)
  destruct (finish_shape _ _ _ _ _ _ _ _ H) as [(-> & -> & ->)|(desc & Edesc & Epl & Ehdr & Hshort & ->)]; [exact Raw|].
  injection Edesc as <-. cbn [app] in Epl.
  destruct (Hrel t eq_refl) as (Hbuilt & lw & Mt & Hcomp).
  exists h. split; [|split; [exact Hrel|exact Hinv]].
  rewrite Ehdr, Epl. rewrite Epl in Hshort.
  apply (treeless_for_complete_weights h lw Mt t Hbuilt Hcomp lits); [|exact Hn|exact Hshort].
  (* every literal has a code in the remembered table *)
  destruct Hcomp as (Hw11 & Hl255 & Hlw & HMt & Kpos & Kall & Henc).
  set (Wt := ht_weights h ++ [lw]) in *.
  assert (HWt : Forall (fun w => 0 <= w <= Z.of_nat 11) Wt).
  { unfold Wt. apply Forall_app. split; [eapply Forall_impl; [|exact Hw11]; unfold MAX_MAX_NUM_BITS; cbn; intros; lia|].
    constructor; [unfold MAX_MAX_NUM_BITS in *; lia|constructor]. }
  pose proof (enc_codes_length Wt 11 t HWt Henc) as Lt.
  assert (HW' : Forall (fun w => 0 <= w <= Z.of_nat 11) W) by (eapply Forall_impl; [|exact H11]; cbn; intros; lia).
  pose proof (enc_codes_length W 11 fresh HW' EncW) as Lf.
  unfold can_encode in Ecan. destruct (Nat.ltb_spec (length t) (length fresh)) as [|Hle]; [discriminate|].
  apply Forall_forall. intros s Hs. pose proof (Hrange s Hs) as Hsr. pose proof (Hpos s Hs) as Hp.
  assert (Hsf : (Z.to_nat s < length fresh)%nat) by lia.
  (* the new table has a code for s *)
  assert (Hfs : snd (nth (Z.to_nat s) fresh (0, 0)) <> 0).
  { pose proof (enc_codes_closed_form W 11 fresh HW' EncW s ltac:(lia)) as CF. cbv zeta in CF.
    rewrite (nth_indep W (-1) 0) in CF by lia. rewrite (CF Hp). cbn [snd].
    assert (HsW : (Z.to_nat s < length W)%nat) by lia.
    rewrite Forall_forall in HWM. pose proof (HWM _ (nth_In W 0 HsW)) as Hb1.
    rewrite KW. rewrite Z.log2_pow2 by lia. lia. }
  pose proof (can_encode_loop_covers t fresh 0 diff Ecan (Z.to_nat s) Hsf ltac:(lia) Hfs) as Hts.
  assert (Hlen_t : length t = S (length (ht_weights h))) by (rewrite Lt; unfold Wt; rewrite app_length; cbn [length]; lia).
  split; [lia|].
  destruct (Z_lt_le_dec 0 (nth (Z.to_nat s) Wt 0)) as [Hpos_t|Hz]; [exact Hpos_t|exfalso].
  assert (Hin : (Z.to_nat s < length Wt)%nat) by lia.
  rewrite Forall_forall in HWt. pose proof (HWt _ (nth_In Wt 0 Hin)) as Hb2.
  pose proof (enc_codes_unused Wt 11 t ltac:(apply Forall_forall; exact HWt) Henc s ltac:(lia)) as Eun.
  rewrite (nth_indep Wt (-1) 0) in Eun by lia. rewrite Eun in Hts by lia. cbn [snd] in Hts. congruence.
Qed.
