(** C12 / C01 / C14: the sequences section with ANY combination of the four table modes -- predefined, RLE, FSE
    compressed, repeat -- for the three tables.  Whatever the modes, the decoder ends up with the tables and RLE bytes
    the writer meant (built from the written description, from the default distribution, a single RLE byte, or kept from
    the previous block), and decodes the stream written with the encoders belonging to them into exactly the sequences
    that were coded. *)
Require Import Zrs.lib.RsPrelude Zrs.gen.Generated Zrs.model.BitIO Zrs.model.FseDec Zrs.model.HufDec Zrs.model.BlockDec.
Require Import Zrs.model.BitStream Zrs.model.SeqEnc Zrs.model.FseEnc Zrs.model.SeqSection.
Require Import Zrs.proofs.C12_Stream Zrs.proofs.C12_SeqStream Zrs.proofs.C12_Predef Zrs.proofs.C12_Desc Zrs.proofs.C12_Section Zrs.proofs.C12_SeqStreamR.
Open Scope Z_scope.

Inductive tmode := MFse (al : Z) (P : list Z) (d : list Z) | MPredef | MRle (c : Z) | MRepeat.
Definition mcode (m : tmode) : Z := match m with MFse _ _ _ => 2 | MPredef => 0 | MRle _ => 1 | MRepeat => 3 end.
Definition mbytes (m : tmode) : list Z := match m with MFse _ _ d => d | MRle c => [c] | _ => [] end.
Definition modes_byte (mll mof mml : tmode) : Z := 64 * mcode mll + 16 * mcode mof + 4 * mcode mml.

(** the table [D] and RLE byte [rle] the decoder is meant to hold for a mode, given what it held before *)
Definition mtable (m : tmode) (prev : fse_table) (prev_rle : option Z) (max_log max_code def_log : Z) (def_dist : list Z)
           (D : fse_table) (rle : option Z) : Prop :=
  match m with
  | MFse al P d => 5 <= al <= max_log /\ max_log <= 20 /\ dist_ok al P /\ Z.of_nat (length P) <= t_max_symbol prev + 1 /\
                   desc_bytes al P = Some d /\ fse_build_from_probabilities prev al P = ROk D /\ rle = None
  | MPredef => fse_build_from_probabilities prev def_log def_dist = ROk D /\ rle = None
  | MRle c => D = prev /\ rle = Some c /\ c <= max_code
  | MRepeat => D = prev /\ rle = prev_rle
  end.

Lemma update_one_mode m prev prev_rle max_log M def_log def_dist err D rle rest :
  mtable m prev prev_rle max_log M def_log def_dist D rle -> rest <> [] ->
  update_one_table (mcode m) (mbytes m ++ rest) prev prev_rle max_log M def_log def_dist err = ROk (D, rle, zlen (mbytes m)).
Proof.
  intros Hm Hrest. unfold update_one_table. destruct m as [al P d| |c|]; cbn [mcode mbytes mtable] in *.
  - destruct Hm as (Hal & Hml & Hd & Hlen & Hdesc & Hb & ->). change (2 =? 2) with true. cbv iota.
    rewrite (build_decoder_of_description prev al P max_log rest D d) by (try assumption; lia). reflexivity.
  - destruct Hm as (Hb & ->). change (0 =? 2) with false. change (0 =? 1) with false. change (0 =? 0) with true. cbv iota. cbn [app]. rewrite Hb. reflexivity.
  - destruct Hm as (-> & -> & Hc). change (1 =? 2) with false. change (1 =? 1) with true. cbv iota. cbn [app].
    destruct (Z.ltb_spec M c); [lia|]. reflexivity.
  - destruct Hm as (-> & ->). change (3 =? 2) with false. change (3 =? 1) with false. change (3 =? 0) with false. cbv iota. reflexivity.
Qed.

Lemma mcode_range m : 0 <= mcode m <= 3.
Proof. destruct m; cbn; lia. Qed.

(** the writer's encoder table for a decoder table with its RLE byte *)
Definition enc_for (D : fse_table) (rle : option Z) : enc_table := match rle with None => enc_of_dec D | Some _ => E_rle end.
(** and what makes them agree on the symbols used *)
Definition tab_ready (D : fse_table) (rle : option Z) (syms : list Z) : Prop :=
  match rle with None => table_wf D /\ Forall (covers D) syms | Some c => syms = [c] end.
Lemma ready_agrees D rle syms : tab_ready D rle syms -> tagree D rle (enc_for D rle) syms.
Proof.
  unfold tab_ready, tagree, enc_for. destruct rle as [c|]; [intros ->; split; reflexivity|].
  intros (W & C). apply derived_encoder_agrees; assumption.
Qed.

Section Modes.
  Variables (mll mof mml : tmode).
  Variable s : fse_scratch.
  Variables (Dll Dof Dml : fse_table) (rll rof rml : option Z).
  Hypothesis Hll : mtable mll (fs_ll s) (fs_ll_rle s) LL_MAX_LOG MAX_LITERAL_LENGTH_CODE LL_DEFAULT_ACC_LOG LITERALS_LENGTH_DEFAULT_DISTRIBUTION Dll rll.
  Hypothesis Hof : mtable mof (fs_of s) (fs_of_rle s) OF_MAX_LOG MAX_OFFSET_CODE OF_DEFAULT_ACC_LOG OFFSET_DEFAULT_DISTRIBUTION Dof rof.
  Hypothesis Hml : mtable mml (fs_ml s) (fs_ml_rle s) ML_MAX_LOG MAX_MATCH_LENGTH_CODE ML_DEFAULT_ACC_LOG MATCH_LENGTH_DEFAULT_DISTRIBUTION Dml rml.

  Lemma tables_of_modes rest : rest <> [] ->
    maybe_update_fse_tables (Some (modes_byte mll mof mml)) (mbytes mll ++ mbytes mof ++ mbytes mml ++ rest) s =
      ROk (scr Dll rll Dml rml Dof rof, zlen (mbytes mll) + zlen (mbytes mof) + zlen (mbytes mml)).
  Proof.
    intros Hrest. unfold maybe_update_fse_tables, modes_byte.
    pose proof (mcode_range mll) as R1. pose proof (mcode_range mof) as R2. pose proof (mcode_range mml) as R3.
    assert (E1 : (64 * mcode mll + 16 * mcode mof + 4 * mcode mml) / 64 = mcode mll) by lia.
    assert (E2 : ((64 * mcode mll + 16 * mcode mof + 4 * mcode mml) / 16) mod 4 = mcode mof) by lia.
    assert (E3 : ((64 * mcode mll + 16 * mcode mof + 4 * mcode mml) / 4) mod 4 = mcode mml) by lia.
    cbv zeta. rewrite E1, E2, E3.
    assert (N1 : mbytes mof ++ mbytes mml ++ rest <> []) by (destruct (mbytes mof); destruct (mbytes mml); destruct rest; cbn; congruence).
    assert (N2 : mbytes mml ++ rest <> []) by (destruct (mbytes mml); destruct rest; cbn; congruence).
    rewrite (update_one_mode mll _ _ _ _ _ _ _ Dll rll _ Hll N1). cbn [rbind].
    assert (ZL : forall a b : list Z, zlen (a ++ b) = zlen a + zlen b) by (intros; unfold zlen; rewrite app_length; lia).
    assert (Z0 : forall a : list Z, 0 <= zlen a) by (intros; unfold zlen; lia).
    pose proof (Z0 (mbytes mll)). pose proof (Z0 (mbytes mof)). pose proof (Z0 (mbytes mml)). pose proof (Z0 rest).
    destruct (Z.ltb_spec (zlen (mbytes mll ++ mbytes mof ++ mbytes mml ++ rest)) (zlen (mbytes mll))) as [H'|_]; [rewrite !ZL in H'; lia|].
    rewrite drop_app.
    rewrite (update_one_mode mof _ _ _ _ _ _ _ Dof rof _ Hof N2). cbn [rbind].
    destruct (Z.ltb_spec (zlen (mbytes mll ++ mbytes mof ++ mbytes mml ++ rest)) (zlen (mbytes mll) + zlen (mbytes mof))) as [H'|_]; [rewrite !ZL in H'; lia|].
    replace (drop_z (zlen (mbytes mll) + zlen (mbytes mof)) (mbytes mll ++ mbytes mof ++ mbytes mml ++ rest)) with (mbytes mml ++ rest).
    2:{ rewrite <- ZL, app_assoc, drop_app. reflexivity. }
    rewrite (update_one_mode mml _ _ _ _ _ _ _ Dml rml _ Hml Hrest). cbn [rbind]. reflexivity.
  Qed.

  Variables (sl sm so : list Z).
  Hypothesis Rll : tab_ready Dll rll sl.
  Hypothesis Rml : tab_ready Dml rml sm.
  Hypothesis Rof : tab_ready Dof rof so.

  Theorem sequence_section_roundtrip_modes qs : qs <> [] -> Forall cseq_ok qs -> Forall (q_in sl sm so) qs ->
    let stream := stream_bytes (enc_fields (enc_for Dll rll) (enc_for Dml rml) (enc_for Dof rof) qs) in
    exists vals,
      decode_sequences (Z.of_nat (length qs)) (Some (modes_byte mll mof mml)) (mbytes mll ++ mbytes mof ++ mbytes mml ++ stream) s =
        ROk (scr Dll rll Dml rml Dof rof, vals) /\
      Forall2 (fun q v => cseq_value q = Some v) qs vals.
  Proof.
    intros Hne Hok Hin stream.
    destruct (sequences_stream_roundtrip_r _ _ _ Dll Dml Dof rll rml rof sl sm so (ready_agrees _ _ _ Rll) (ready_agrees _ _ _ Rml) (ready_agrees _ _ _ Rof) qs Hne Hok Hin)
      as (r0 & ll & r1 & of & r2 & ml & r3 & vals & rf & S0 & I1 & I2 & I3 & Hloop & Hv & Hrem).
    fold stream in S0.
    exists vals. split; [|exact Hv].
    unfold decode_sequences. rewrite tables_of_modes by apply stream_bytes_nonempty. cbn [rbind].
    assert (ZL : forall a b : list Z, zlen (a ++ b) = zlen a + zlen b) by (intros; unfold zlen; rewrite app_length; lia).
    assert (Z0 : forall a : list Z, 0 <= zlen a) by (intros; unfold zlen; lia).
    pose proof (Z0 (mbytes mll)). pose proof (Z0 (mbytes mof)). pose proof (Z0 (mbytes mml)). pose proof (Z0 stream).
    destruct (Z.ltb_spec (zlen (mbytes mll ++ mbytes mof ++ mbytes mml ++ stream)) (zlen (mbytes mll) + zlen (mbytes mof) + zlen (mbytes mml))) as [H'|_];
      [rewrite !ZL in H'; lia|].
    replace (drop_z (zlen (mbytes mll) + zlen (mbytes mof) + zlen (mbytes mml)) (mbytes mll ++ mbytes mof ++ mbytes mml ++ stream)) with stream.
    2:{ rewrite <- !ZL. replace (mbytes mll ++ mbytes mof ++ mbytes mml ++ stream) with (((mbytes mll ++ mbytes mof) ++ mbytes mml) ++ stream) by (rewrite <- !app_assoc; reflexivity).
        rewrite drop_app. reflexivity. }
    rewrite S0. cbn [scr fs_ll_rle fs_of_rle fs_ml_rle fs_ll fs_of fs_ml].
    unfold start_of in I1, I2, I3. rewrite I1. cbn [rbind]. rewrite I2. cbn [rbind]. rewrite I3. cbn [rbind].
    rewrite Nat2Z.id. fold (scr Dll rll Dml rml Dof rof). rewrite Hloop. cbn [rbind]. rewrite Hrem.
    change (0 <? 0) with false. cbv iota. unfold rev'. rewrite <- rev_alt, rev_involutive. reflexivity.
  Qed.
End Modes.

(** *** each mode meets the hypotheses *)
Lemma predef_mode_ll prev rle : t_max_symbol prev = MAX_LITERAL_LENGTH_CODE ->
  mtable MPredef prev rle LL_MAX_LOG MAX_LITERAL_LENGTH_CODE LL_DEFAULT_ACC_LOG LITERALS_LENGTH_DEFAULT_DISTRIBUTION D_ll None /\ tab_ready D_ll None (codes 36).
Proof.
  intros Hm. destruct predefined_tables_ok as (W1 & W2 & W3 & C1 & C2 & C3). split; [|split; assumption].
  cbn [mtable]. rewrite build_indep, Hm. split; [vm_compute|]; reflexivity.
Qed.
Lemma predef_mode_of prev rle : t_max_symbol prev = MAX_OFFSET_CODE ->
  mtable MPredef prev rle OF_MAX_LOG MAX_OFFSET_CODE OF_DEFAULT_ACC_LOG OFFSET_DEFAULT_DISTRIBUTION D_of None /\ tab_ready D_of None (codes 29).
Proof.
  intros Hm. destruct predefined_tables_ok as (W1 & W2 & W3 & C1 & C2 & C3). split; [|split; assumption].
  cbn [mtable]. rewrite build_indep, Hm. split; [vm_compute|]; reflexivity.
Qed.
Lemma predef_mode_ml prev rle : t_max_symbol prev = MAX_MATCH_LENGTH_CODE ->
  mtable MPredef prev rle ML_MAX_LOG MAX_MATCH_LENGTH_CODE ML_DEFAULT_ACC_LOG MATCH_LENGTH_DEFAULT_DISTRIBUTION D_ml None /\ tab_ready D_ml None (codes 53).
Proof.
  intros Hm. destruct predefined_tables_ok as (W1 & W2 & W3 & C1 & C2 & C3). split; [|split; assumption].
  cbn [mtable]. rewrite build_indep, Hm. split; [vm_compute|]; reflexivity.
Qed.
Lemma rle_mode c prev prev_rle max_log max_code def_log def_dist : c <= max_code ->
  mtable (MRle c) prev prev_rle max_log max_code def_log def_dist prev (Some c) /\ tab_ready prev (Some c) [c].
Proof. intros H. split; [split; [reflexivity|split; [reflexivity|exact H]]|reflexivity]. Qed.
(** repeat: whatever the decoder held -- a table or an RLE byte -- is used again *)
Lemma repeat_mode prev prev_rle max_log max_code def_log def_dist :
  mtable MRepeat prev prev_rle max_log max_code def_log def_dist prev prev_rle.
Proof. split; reflexivity. Qed.

(** example: literal lengths in RLE mode (code 3), offsets repeated from the block before (here: a predefined table),
    match lengths predefined; two sequences *)
Definition ex_q : cseq := {| c_ll := 3; a_ll := 0; n_ll := 0%nat; c_ml := 2; a_ml := 0; n_ml := 0%nat; c_of := 5; a_of := 17 |}.
Definition ex_stream : list Z := stream_bytes (enc_fields E_rle (enc_of_dec D_ml) (enc_of_dec D_of) [ex_q; ex_q]).
Example modes_example :
  match decode_sequences 2 (Some (modes_byte (MRle 3) MRepeat MPredef)) (3 :: ex_stream) (sc D_ll D_ml D_of) with
  | ROk (s', vals) => vals = [{| sq_ll := 3; sq_ml := 5; sq_of := 49 |}; {| sq_ll := 3; sq_ml := 5; sq_of := 49 |}] /\ fs_ll_rle s' = Some 3
  | _ => False
  end.
Proof. vm_compute. split; reflexivity. Qed.
