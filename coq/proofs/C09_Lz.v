(** C09 / C01: the match copy of the decode buffer.  [lz_copy] is the textbook LZ77 copy (one byte at a time, each
    equal to the byte [off] positions back).  Proved here:
    - the chunked copy [repeat_in_chunks] (model: [lz_copy_fast]) equals [lz_copy] for every length and offset;
    - [DecodeBuffer::repeat] with a dictionary is the plain LZ77 copy on the history "dictionary content followed by
      the output so far" (so dictionary content behaves exactly like earlier output), for every alignment of the match
      with the dictionary/output boundary;
    - offsets beyond dictionary plus output are rejected, and the dictionary is out of reach once the output has
      passed the window. *)
Require Import Zrs.lib.RsPrelude Zrs.gen.Generated Zrs.model.BlockDec.
Require Import Zrs.proofs.C06_Drain Zrs.proofs.C05_Block.
Open Scope Z_scope.

Lemma firstn_S_nth (d : Z) k : forall l, (k < length l)%nat -> firstn (S k) l = firstn k l ++ [nth k l d].
Proof.
  induction k as [|k IH]; intros [|x t] H; cbn [length] in H; try lia; [reflexivity|].
  change (firstn (S (S k)) (x :: t)) with (x :: firstn (S k) t). rewrite (IH t) by lia. reflexivity.
Qed.

Lemma nth_skipn_z (d : Z) m : forall l k, nth k (skipn m l) d = nth (m + k) l d.
Proof.
  induction m as [|m IH]; intros l k; [reflexivity|].
  destruct l as [|x t]; [destruct k; reflexivity|]. cbn [skipn]. rewrite IH. reflexivity.
Qed.

Lemma lz_copy_length n : forall off r, length (lz_copy n off r) = (length r + n)%nat.
Proof. induction n as [|k IH]; intros off r; cbn [lz_copy]; [lia|]. rewrite IH. cbn [length]. lia. Qed.

Lemma lz_copy_add a : forall b off r, lz_copy (a + b) off r = lz_copy b off (lz_copy a off r).
Proof. induction a as [|a IH]; intros b off r; [reflexivity|]. cbn [Nat.add lz_copy]. apply IH. Qed.

(** a copy no longer than the offset is a plain slice of the history *)
Lemma lz_copy_short_gen c : forall off pre r, (length pre + c <= off)%nat -> (off <= length pre + length r)%nat ->
  lz_copy c off (pre ++ r) = firstn c (skipn (off - length pre - c) r) ++ pre ++ r.
Proof.
  induction c as [|k IH]; intros off pre r H1 H2; [reflexivity|].
  cbn [lz_copy].
  assert (Hn : nth (off - 1) (pre ++ r) 0 = nth (off - 1 - length pre) r 0) by (rewrite app_nth2; [reflexivity|lia]).
  rewrite Hn.
  change (nth (off - 1 - length pre) r 0 :: pre ++ r) with ((nth (off - 1 - length pre) r 0 :: pre) ++ r).
  rewrite IH by (cbn [length]; lia). cbn [length].
  set (m := (off - length pre - S k)%nat).
  replace (off - S (length pre) - k)%nat with m by lia.
  rewrite (firstn_S_nth 0 k (skipn m r)) by (rewrite skipn_length; lia).
  rewrite nth_skipn_z. replace (m + k)%nat with (off - 1 - length pre)%nat by lia.
  rewrite <- app_assoc. reflexivity.
Qed.

Lemma lz_copy_short c off r : (c <= off)%nat -> (off <= length r)%nat ->
  lz_copy c off r = firstn c (skipn (off - c) r) ++ r.
Proof.
  intros H1 H2. pose proof (lz_copy_short_gen c off [] r) as H. cbn [length app Nat.add] in H.
  rewrite H by lia. f_equal. f_equal. f_equal. lia.
Qed.

(** the history behind the reach of the offset does not matter *)
Lemma lz_copy_app n : forall off r d, (1 <= off)%nat -> (off <= length r)%nat ->
  lz_copy n off (r ++ d) = lz_copy n off r ++ d.
Proof.
  induction n as [|k IH]; intros off r d H1 H2; [reflexivity|].
  cbn [lz_copy]. rewrite app_nth1 by lia.
  change (nth (off - 1) r 0 :: r ++ d) with ((nth (off - 1) r 0 :: r) ++ d).
  apply IH; cbn [length]; lia.
Qed.

(** *** repeat_in_chunks = byte-wise copy *)
Theorem lz_copy_chunks_eq fuel : forall n off r, (n <= fuel)%nat -> (1 <= off)%nat -> (off <= length r)%nat ->
  lz_copy_chunks fuel n off r = lz_copy n off r.
Proof.
  induction fuel as [|f IH]; intros n off r Hn Ho Hl.
  - assert (n = 0)%nat by lia. subst. reflexivity.
  - cbn [lz_copy_chunks]. destruct n as [|n']; [reflexivity|].
    destruct (Nat.min off (S n')) as [|c'] eqn:Ec; [lia|].
    set (c := S c') in *.
    rewrite <- (lz_copy_short c off r) by lia.
    rewrite IH; try lia.
    + replace (S n') with (c + (S n' - c))%nat at 2 by lia. rewrite lz_copy_add. reflexivity.
    + rewrite lz_copy_length. lia.
Qed.

Corollary lz_copy_fast_eq n off r : (1 <= off)%nat -> (off <= length r)%nat -> lz_copy_fast n off r = lz_copy n off r.
Proof. intros. unfold lz_copy_fast. apply lz_copy_chunks_eq; lia. Qed.

(** *** DecodeBuffer::repeat, with and without dictionary, is the LZ77 copy on dictionary ++ output *)
Theorem db_repeat_spec b off ml b' : db_wf b -> 1 <= off -> 0 <= ml ->
  db_repeat b off ml = ROk b' ->
  off <= db_len b + zlen (db_dict b) /\
  db_rev b' ++ rev (db_dict b) = lz_copy (Z.to_nat ml) (Z.to_nat off) (db_rev b ++ rev (db_dict b)) /\
  db_dict b' = db_dict b.
Proof.
  intros W Ho Hm H. unfold db_repeat in H. unfold db_wf in W. unfold zlen.
  destruct b as [r blen dict win tot hsh].
  cbn [db_rev db_len db_dict db_window db_total_out db_hashed_rev db_add_total db_set_rev db_append_raw] in *.
  destruct (blen <? off) eqn:Efar.
  - destruct (tot <=? win) eqn:Ewin; [|discriminate].
    destruct (Z.of_nat (length dict) <? off - blen) eqn:Edl; [discriminate|].
    remember (Z.to_nat (off - blen)) as BF eqn:HBFd.
    assert (HR : Z.to_nat off = (length r + BF)%nat) by lia.
    assert (HBF : (1 <= BF <= length dict)%nat) by lia.
    destruct (off - blen <? ml) eqn:Esplit.
    + (* the match starts in the dictionary and runs into the output *)
      destruct (_ =? 0) eqn:Ez in H; [discriminate|].
      injection H as <-. cbn [db_rev db_dict db_add_total db_set_rev db_append_raw db_len].
      split; [lia|]. split; [|reflexivity].
      replace (Z.to_nat (Z.of_nat (length dict) - (off - blen))) with (length dict - BF)%nat by lia.
      remember (skipn (length dict - BF) dict) as slice eqn:Hsd.
      assert (Hsl : length slice = BF) by (subst slice; rewrite skipn_length; lia).
      rewrite rev_append_rev.
      replace (Z.to_nat (blen + Z.of_nat (length slice))) with (Z.to_nat off) by lia.
      replace (Z.to_nat (ml - (off - blen))) with (Z.to_nat ml - BF)%nat by lia.
      rewrite lz_copy_fast_eq by (try rewrite app_length, rev_length; lia).
      replace (Z.to_nat ml) with (BF + (Z.to_nat ml - BF))%nat at 2 by lia.
      rewrite lz_copy_add.
      rewrite (lz_copy_short BF (Z.to_nat off) (r ++ rev dict)) by (try rewrite app_length, rev_length; lia).
      replace (Z.to_nat off - BF)%nat with (length r) by lia.
      rewrite skipn_app, skipn_all, Nat.sub_diag. cbn [app skipn].
      rewrite firstn_rev, <- Hsd.
      rewrite app_assoc.
      rewrite (lz_copy_app _ _ (rev slice ++ r) (rev dict)) by (try rewrite app_length, rev_length; lia). reflexivity.
    + (* the whole match lies in the dictionary *)
      injection H as <-. cbn [db_rev db_dict db_append_raw]. split; [lia|]. split; [|reflexivity].
      replace (Z.to_nat (Z.of_nat (length dict) - (off - blen))) with (length dict - BF)%nat by lia.
      remember (Z.to_nat ml) as ML eqn:HMLd. assert (HML : (ML <= BF)%nat) by lia.
      rewrite rev_append_rev.
      rewrite (lz_copy_short ML (Z.to_nat off) (r ++ rev dict)) by (try rewrite app_length, rev_length; lia).
      rewrite skipn_app. rewrite (skipn_all2 r) by lia. cbn [app].
      replace (Z.to_nat off - ML - length r)%nat with (BF - ML)%nat by lia.
      rewrite skipn_rev, firstn_rev, firstn_length.
      replace (Nat.min (length dict - (BF - ML)) (length dict) - ML)%nat with (length dict - BF)%nat by lia.
      rewrite skipn_firstn_comm.
      replace (length dict - (BF - ML) - (length dict - BF))%nat with ML by lia.
      rewrite <- app_assoc. reflexivity.
  - destruct ((off =? 0) && (0 <? ml)) eqn:E0; [lia|].
    injection H as <-. cbn [db_rev db_dict db_add_total db_set_rev]. split; [lia|]. split; [|reflexivity].
    rewrite lz_copy_fast_eq by lia. rewrite lz_copy_app by lia. reflexivity.
Qed.

(** offsets reaching beyond dictionary plus output are refused *)
Theorem db_repeat_rejects_far b off ml : db_wf b -> db_len b + zlen (db_dict b) < off ->
  exists e, db_repeat b off ml = RErr e.
Proof.
  intros W H. unfold db_repeat, zlen in *.
  destruct (db_len b <? off) eqn:E; [|lia].
  destruct (db_total_out b <=? db_window b); [|eexists; reflexivity].
  destruct (Z.of_nat (length (db_dict b)) <? off - db_len b) eqn:E2; [eexists; reflexivity|lia].
Qed.

(** once more output than one window was produced the dictionary is out of reach *)
Theorem db_repeat_dict_out_of_window b off ml : db_window b < db_total_out b -> db_len b < off ->
  db_repeat b off ml = RErr "OffsetTooBig".
Proof.
  intros H1 H2. unfold db_repeat.
  destruct (db_len b <? off) eqn:E; [|lia]. destruct (db_total_out b <=? db_window b) eqn:E2; [lia|reflexivity].
Qed.

(** without a dictionary, an offset beyond the retained output is always an error *)
Corollary db_repeat_no_dict b off ml : db_wf b -> db_dict b = [] -> db_len b < off -> exists e, db_repeat b off ml = RErr e.
Proof. intros W D H. apply db_repeat_rejects_far; [exact W|]. rewrite D. cbn. lia. Qed.

(** *** sequence execution with a dictionary = sequence execution on a buffer whose earlier output is the dictionary
    content.  [flat_of b f]: [f] has no dictionary, and holds dictionary content followed by [b]'s contents. *)
Definition flat_of (b f : dbuf) : Prop :=
  db_rev f = db_rev b ++ rev (db_dict b) /\ db_len f = db_len b + zlen (db_dict b) /\ db_dict f = [].

Lemma flat_wf b f : db_wf b -> flat_of b f -> db_wf f.
Proof. intros W (R & L & _). unfold db_wf, zlen in *. rewrite R, L, app_length, rev_length. lia. Qed.

Lemma flat_push b f a : flat_of b f -> flat_of (db_push b a) (db_push f a).
Proof.
  intros (R & L & D). unfold flat_of, db_push, db_add_total, db_append_raw, zlen in *. cbn.
  rewrite !rev_append_rev, R, L, D. rewrite <- app_assoc. repeat split. lia.
Qed.

Lemma flat_repeat b f off ml b' : db_wf b -> flat_of b f -> 1 <= off -> 0 <= ml ->
  db_repeat b off ml = ROk b' -> exists f', db_repeat f off ml = ROk f' /\ flat_of b' f'.
Proof.
  intros W F Ho Hm H. pose proof (flat_wf _ _ W F) as Wf. destruct F as (R & L & D).
  destruct (db_repeat_spec _ _ _ _ W Ho Hm H) as (Hreach & Hrev & Hd).
  assert (Ho0 : 0 <= off) by lia.
  destruct (db_repeat_inv _ _ _ _ W Hm Ho0 H) as (_ & Hlen & _).
  unfold db_repeat. destruct (db_len f <? off) eqn:E; [lia|].
  destruct ((off =? 0) && (0 <? ml)) eqn:E0; [lia|].
  eexists. split; [reflexivity|]. unfold flat_of. cbn [db_rev db_len db_dict db_add_total db_set_rev].
  unfold db_wf in Wf.
  rewrite lz_copy_fast_eq by lia. rewrite R, <- Hrev, Hd, Hlen, L, D. repeat split. lia.
Qed.

Theorem exec_loop_dict_is_history seqs : forall lits buf flat hist ssum buf' hist' rest ssum',
  db_wf buf -> hist_ok hist -> Forall seq_ok seqs -> flat_of buf flat ->
  exec_loop seqs lits buf hist ssum = ROk (buf', hist', rest, ssum') ->
  exists flat', exec_loop seqs lits flat hist ssum = ROk (flat', hist', rest, ssum') /\ flat_of buf' flat'.
Proof.
  induction seqs as [|sq t IH]; intros lits buf flat hist ssum buf' hist' rest ssum' W Hh Hs F H; cbn [exec_loop] in *.
  - inversion H; subst. eexists. split; [reflexivity|exact F].
  - inversion Hs as [|? ? (Hll & Hml & Hof) Hs']; subst.
    destruct (MAX_BLOCK_SIZE <? ssum + sq_ll sq + sq_ml sq) eqn:Ecap; [discriminate|].
    bind_inv H. destruct a as [buf1 lits1].
    assert (exists flat1, (if 0 <? sq_ll sq
              then match split_at (Z.to_nat (sq_ll sq)) lits with
                   | Some (a, rest0) => ROk (db_push flat a, rest0)
                   | None => RErr "NotEnoughBytesForSequence"
                   end
              else ROk (flat, lits)) = ROk (flat1, lits1) /\ flat_of buf1 flat1 /\ db_wf buf1) as (flat1 & E1 & F1 & W1).
    { destruct (0 <? sq_ll sq).
      - destruct (split_at (Z.to_nat (sq_ll sq)) lits) as [[a r]|]; [|discriminate].
        inversion E; subst. eexists. split; [reflexivity|]. split; [apply flat_push; exact F|].
        apply (push_inv buf a W).
      - inversion E; subst. eexists. split; [reflexivity|]. split; assumption. }
    rewrite E1. cbn [rbind].
    pose proof (offhist_ok (sq_of sq) (sq_ll sq) hist Hof Hh) as [Ha Hh1].
    destruct (do_offset_history (sq_of sq) (sq_ll sq) hist) as [actual hist1]. cbn [fst snd] in *.
    destruct (actual =? 0) eqn:Ez; [discriminate|].
    bind_inv H. rename a into buf2.
    assert (exists flat2, (if 0 <? sq_ml sq then db_repeat flat1 actual (sq_ml sq) else ROk flat1) = ROk flat2
                          /\ flat_of buf2 flat2 /\ db_wf buf2) as (flat2 & E2 & F2 & W2).
    { destruct (0 <? sq_ml sq).
      - assert (Ha1 : 1 <= actual) by lia.
        destruct (flat_repeat _ _ _ _ _ W1 F1 Ha1 Hml E0) as (f' & Hf & Ff).
        exists f'. split; [exact Hf|]. split; [exact Ff|].
        apply (db_repeat_inv buf1 actual (sq_ml sq) buf2 W1 Hml Ha E0).
      - inversion E0; subst. eexists. split; [reflexivity|]. split; assumption. }
    rewrite E2. cbn [rbind].
    destruct (2 ^ 32 <=? ssum + sq_ml sq + sq_ll sq); [discriminate|].
    eapply IH; eassumption.
Qed.
