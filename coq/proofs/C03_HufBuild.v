(** C03: building a Huffman decoding table from its serialized description never panics, whatever the bytes are
    (weights given directly or FSE-compressed), and what it returns is a complete table. *)
Require Import Zrs.lib.RsPrelude Zrs.model.BitIO Zrs.model.FseDec Zrs.model.FseEnc Zrs.model.HufDec.
Require Import Zrs.proofs.C03_Desc Zrs.proofs.C03_HufTable Zrs.proofs.C03_HufComplete Zrs.proofs.C03_HufStream.
Require Import Zrs.proofs.C03_FseStates Zrs.proofs.C03_FseBuild.
Open Scope Z_scope.

Lemma skip_padding_wf r br : rwf r -> rbr_skip_padding r = Some br -> rwf br /\ rbr_bits_remaining br <= rbr_bits_remaining r.
Proof.
  unfold rbr_skip_padding. generalize 0 10%nat. intros sk fuel. revert r sk.
  induction fuel as [|f IH]; intros r sk W Esk; cbn [skip_padding] in Esk; [discriminate|].
  destruct (get_bits_wf r 1 W ltac:(lia)) as (W' & _ & Rm).
  destruct (rbr_get_bits r 1) as [v r'] eqn:Eg. cbn [snd] in *.
  destruct ((v =? 1) || (8 <? sk + 1)).
  - destruct (8 <? sk + 1); [discriminate|]. injection Esk as <-. split; [exact W'|lia].
  - destruct (IH _ _ W' Esk) as (A & B). split; [exact A|lia].
Qed.

Section Weights.
  Variable ft : fse_table.
  Hypothesis R : fse_range ft.

  Lemma init_in br : rwf br -> exists st br', fse_init_state ft br = ROk (st, br') /\ In st (t_decode ft) /\ rwf br'.
  Proof.
    destruct R as (A & B & C). apply (init_state_in_table ft (t_acc_log ft) A eq_refl B).
  Qed.
  Lemma update_in st br : In st (t_decode ft) -> rwf br ->
    exists st' br', fse_update_state ft st br = ROk (st', br') /\ In st' (t_decode ft) /\ rwf br'.
  Proof.
    destruct R as (A & B & C). apply (update_state_in_table ft (t_acc_log ft) A eq_refl B).
    intros e He. destruct (C e He) as (X & Y & Z & _). tauto.
  Qed.
  Lemma sym_nonneg st : In st (t_decode ft) -> 0 <= e_sym st.
  Proof. destruct R as (A & B & C). intros H. destruct (C st H) as (_ & _ & _ & X). lia. Qed.

  Lemma weights_loop_ok fuel : forall s1 s2 br ws n, In s1 (t_decode ft) -> In s2 (t_decode ft) -> rwf br ->
    Forall (fun w => 0 <= w) ws -> n <= 255 -> 257 <= n + 2 * Z.of_nat fuel ->
    match fse_weights_loop fuel ft s1 s2 br ws n with
    | ROk ws' => Forall (fun w => 0 <= w) ws'
    | RErr _ => True
    | RPanic _ => False
    end.
  Proof.
    induction fuel as [|f IH]; intros s1 s2 br ws n H1 H2 W Hws Hn Hf; [lia|]. cbn [fse_weights_loop].
    destruct (update_in s1 br H1 W) as (s1' & br1 & -> & H1' & W1). cbn [rbind].
    pose proof (sym_nonneg s1 H1) as P1. pose proof (sym_nonneg s2 H2) as P2. pose proof (sym_nonneg s1' H1') as P1'.
    destruct (rbr_bits_remaining br1 <=? -1); [repeat constructor; assumption|].
    destruct (update_in s2 br1 H2 W1) as (s2' & br2 & -> & H2' & W2). cbn [rbind].
    destruct (rbr_bits_remaining br2 <=? -1); [repeat constructor; assumption|].
    destruct (Z.ltb_spec 255 (n + 2)); [exact I|].
    apply IH; [exact H1'|exact H2'|exact W2|repeat constructor; assumption|lia|lia].
  Qed.
End Weights.

Lemma direct_weights_nonneg n : forall idx raw, Forall (fun b => 0 <= b) raw -> Forall (fun w => 0 <= w) (direct_weights n idx raw).
Proof.
  induction n as [|n IH]; intros idx raw Hr; cbn [direct_weights]; constructor; [|apply IH; exact Hr].
  assert (H0 : 0 <= nth_z raw (idx / 2)).
  { unfold nth_z. destruct (nth_in_or_default (Z.to_nat (idx / 2)) raw 0) as [Hin| ->]; [|lia]. rewrite Forall_forall in Hr. apply Hr. exact Hin. }
  destruct (idx mod 2 =? 0); [apply Z.div_pos; lia|apply Z.mod_pos_bound; lia].
Qed.

Theorem read_weights_ok t source : t_max_symbol (ht_fse t) <= 255 -> Forall (fun b => 0 <= b) source ->
  match read_weights t source with
  | ROk (ws, ft, bytes) => Forall (fun w => 0 <= w) ws /\ t_max_symbol ft = t_max_symbol (ht_fse t) /\ 0 <= bytes <= Z.of_nat (length source)
  | RErr _ => True
  | RPanic _ => False
  end.
Proof.
  intros G Hsrc. unfold read_weights. destruct source as [|header fse_stream]; [exact I|].
  inversion Hsrc as [|? ? Hh Hrest]; subst.
  destruct (Z.ltb_spec header 128) as [Hlt|Hge].
  - destruct (Z.ltb_spec (Z.of_nat (length fse_stream)) header) as [|Hlen]; [exact I|].
    pose proof (fse_build_decoder_good (ht_fse t) fse_stream 6 G ltac:(lia)) as FB.
    destruct (fse_build_decoder (ht_fse t) fse_stream 6) as [[ft used]|e|e]; cbn [rbind]; [|exact I|contradiction].
    destruct FB as (_ & R & G' & Hu).
    destruct (Z.ltb_spec header used); [exact I|].
    destruct (_ <? _); [exact I|].
    set (cw := firstn _ _).
    destruct (rbr_skip_padding (rbr_new cw)) as [br|] eqn:Esk; [|exact I].
    destruct (skip_padding_wf _ _ (rbr_new_wf cw) Esk) as (W & _).
    destruct (init_in ft R br W) as (s1 & br1 & -> & H1 & W1). cbn [rbind].
    destruct (init_in ft R br1 W1) as (s2 & br2 & -> & H2 & W2). cbn [rbind].
    pose proof (weights_loop_ok ft R (S (8 * length cw + 256)) s1 s2 br2 [] 0 H1 H2 W2 ltac:(constructor) ltac:(lia) ltac:(lia)) as WL.
    destruct (fse_weights_loop _ ft s1 s2 br2 [] 0) as [ws|e|e]; cbn [rbind]; [|exact I|contradiction].
    split; [apply Forall_rev; exact WL|]. split; [exact G'|]. cbn [length]. lia.
  - cbv zeta.
    destruct (Z.ltb_spec (Z.of_nat (length fse_stream)) (if (header - 127) mod 2 =? 0 then (header - 127) / 2 else (header - 127) / 2 + 1)) as [|Hlen]; [exact I|].
    split; [apply direct_weights_nonneg; exact Hrest|]. split; [reflexivity|].
    cbn [length].
    destruct (Z.eqb_spec ((header - 127) mod 2) 0); destruct (Z.eqb_spec ((8 + 4 * (header - 127)) mod 8) 0); lia.
Qed.

(** *** the invariant of the Huffman table held in the decoder's scratch space *)
Definition huf_complete (t : huf_table) : Prop :=
  1 <= ht_max_bits t /\ ht_len t = 2 ^ ht_max_bits t /\
  forall i, 0 <= i < 2 ^ ht_max_bits t -> 1 <= h_bits (nth_h (ht_decode t) i) <= ht_max_bits t.
Definition huf_good (t : huf_table) : Prop := t_max_symbol (ht_fse t) = 255 /\ (ht_max_bits t = 0 \/ huf_complete t).

Lemma huf_new_good : huf_good huf_new.
Proof. split; [reflexivity|left; reflexivity]. Qed.

Theorem huf_build_decoder_good t source : t_max_symbol (ht_fse t) = 255 -> Forall (fun b => 0 <= b) source ->
  match huf_build_decoder t source with
  | ROk (t', bytes) => huf_complete t' /\ huf_good t' /\ 0 <= bytes <= Z.of_nat (length source)
  | RErr _ => True
  | RPanic _ => False
  end.
Proof.
  intros G Hsrc. unfold huf_build_decoder.
  pose proof (read_weights_ok t source ltac:(lia) Hsrc) as RW.
  destruct (read_weights t source) as [[[ws ft] bytes]|e|e]; cbn [rbind]; [|exact I|contradiction].
  destruct RW as (Hws & Gf & Hb).
  pose proof (build_table_from_weights_never_panics ws Hws) as NP.
  destruct (build_table_from_weights ws) as [[[[[dec M] bits] ranks] idxs]|e|e] eqn:Eb; cbn [rbind]; [|exact I|contradiction].
  destruct (built_huffman_table_complete ws dec M bits ranks idxs Hws Eb) as (Ld & HM & Hbits).
  assert (C : huf_complete {| ht_decode := dec; ht_len := 2 ^ M; ht_weights := ws; ht_max_bits := M; ht_bits := bits;
                               ht_bit_ranks := ranks; ht_rank_indexes := idxs; ht_fse := ft |}).
  { unfold huf_complete. cbn [ht_max_bits ht_len ht_decode]. split; [lia|]. split; [reflexivity|exact Hbits]. }
  split; [exact C|]. split; [split; [cbn [ht_fse]; lia|right; exact C]|exact Hb].
Qed.

(** decoding a stream with a complete table never panics *)
Lemma complete_stream_no_panic t stream out check : huf_complete t ->
  match huf_decode_stream t stream out check with RPanic _ => False | _ => True end.
Proof.
  intros (A & B & C). apply (decode_stream_no_panic t (ht_max_bits t) A eq_refl B C).
Qed.
