(** C20: the dictionary builder never writes more than the requested size, whatever the training data, the pool of
    candidate segments and the size estimate; its sizing arithmetic never divides by zero or fails an assertion. *)
Require Import Zrs.lib.RsPrelude Zrs.model.DictBuilder.
Open Scope Z_scope.

Lemma total_nonneg pool : 0 <= total pool.
Proof. induction pool as [|s t IH]; cbn [total]; lia. Qed.

Lemma prune_bound pool : forall tot d, tot = total pool -> 0 <= d -> total (prune pool tot d) <= d.
Proof.
  induction pool as [|s t IH]; intros tot d Ht Hd; cbn [prune].
  - destruct (d <? tot); cbn [total]; lia.
  - destruct (Z.ltb_spec d tot) as [Hover|Hfit].
    + apply IH; [cbn [total] in Ht; lia|exact Hd].
    + rewrite <- Ht. exact Hfit.
Qed.

Lemma prune_suffix pool : forall tot d, exists dropped, pool = dropped ++ prune pool tot d.
Proof.
  induction pool as [|s t IH]; intros tot d; cbn [prune].
  - destruct (d <? tot); exists []; reflexivity.
  - destruct (d <? tot).
    + destruct (IH (tot - Z.of_nat (length s)) d) as (dr & E). exists (s :: dr). cbn [app]. f_equal. exact E.
    + exists []. reflexivity.
Qed.

Lemma concat_length pool : Z.of_nat (length (concat pool)) = total pool.
Proof. induction pool as [|s t IH]; cbn [concat total length]; [reflexivity|]. rewrite app_length. lia. Qed.

Ltac Zify.zify_post_hook ::= idtac.   (* divisions by variables: treat quotients as atoms *)

Theorem sizing_never_panics source_size dict_size : 16 <= source_size -> 0 <= dict_size ->
  exists seg sample epoch, sizing source_size dict_size = ROk (seg, sample, epoch) /\
    16 <= seg <= 2048 /\ 16 <= sample /\ 1 <= epoch.
Proof.
  intros Hs Hd. unfold sizing, compute_epoch_info, checked_div, K.
  remember (Z.min 2048 source_size) as seg eqn:Eseg.
  assert (Hseg : 16 <= seg <= 2048 /\ seg <= source_size) by lia.
  destruct (Z.eqb_spec seg 0) as [|_]; [lia|]. cbn [rbind].
  assert (Hns : 1 <= source_size / seg) by (apply Z.div_le_lower_bound; lia).
  assert (Hmul : seg * (source_size / seg) <= source_size) by (apply Z.mul_div_le; lia).
  remember (source_size / seg) as ns eqn:Ens. clear Ens.
  assert (H2ns : 2 * ns <= source_size).
  { assert (2 * ns <= seg * ns) by (apply Z.mul_le_mono_nonneg_r; lia). lia. }
  destruct (Z.eqb_spec (2 * ns) 0) as [|_]; [lia|]. cbn [rbind].
  assert (Hper : 1 <= source_size / (2 * ns)) by (apply Z.div_le_lower_bound; lia).
  remember (source_size / (2 * ns)) as per eqn:Eper. clear Eper.
  destruct (Z.eqb_spec (Z.min per 256) 0) as [|_]; [lia|]. cbn [rbind].
  remember (source_size / Z.min per 256) as smp eqn:Esmp. clear Esmp.
  destruct (Z.ltb_spec (Z.max 16 smp) 16) as [|_]; [lia|]. cbn [rbind].
  assert (Hk : 1 <= source_size / 16) by (apply Z.div_le_lower_bound; lia).
  remember (source_size / 16) as nk eqn:Enk. clear Enk.
  remember (dict_size / seg) as q eqn:Eq. clear Eq.
  destruct (Z.eqb_spec (Z.max 1 q) 0) as [|_]; [lia|]. cbn [rbind].
  assert (Hm2 : Z.max 1 q * (nk / Z.max 1 q) <= nk) by (apply Z.mul_div_le; lia).
  remember (nk / Z.max 1 q) as es eqn:Ees. clear Ees.
  destruct (Z.leb_spec 10000 es) as [Hbig|Hsmall].
  - destruct (Z.leb_spec (es * Z.max 1 q) nk) as [_|Hc]; [|rewrite Z.mul_comm in Hc; lia]. cbn [rbind].
    destruct (Z.eqb_spec es 0) as [|_]; [lia|]. cbn [rbind].
    eexists _, _, _. split; [reflexivity|]. repeat split; lia.
  - destruct (Z.eqb_spec (Z.min 10000 nk) 0) as [|_]; [lia|]. cbn [rbind].
    destruct (Z.eqb_spec (Z.min 10000 nk) 0) as [|_]; [lia|]. cbn [rbind].
    eexists _, _, _. split; [reflexivity|]. repeat split; lia.
Qed.

(** whatever the source, the estimate, the pool: at most [dict_size] bytes are written, and they are whole segments
    from the high-scoring end of the pool (or a prefix of the source on the small-source path) *)
Theorem build_dict_size_bound source source_size dict_size pool : 0 <= dict_size ->
  exists out, build_dict source source_size dict_size pool = ROk out /\ Z.of_nat (length out) <= dict_size.
Proof.
  intros Hd. unfold build_dict. destruct (Z.ltb_spec source_size 16) as [Hsmall|Hbig].
  - eexists. split; [reflexivity|]. rewrite firstn_length. lia.
  - destruct (sizing_never_panics source_size dict_size Hbig Hd) as (a & b & c & E & _). rewrite E. cbn [rbind].
    eexists. split; [reflexivity|]. rewrite concat_length. apply prune_bound; [reflexivity|exact Hd].
Qed.

Theorem build_dict_keeps_best_segments source source_size dict_size pool out : 16 <= source_size -> 0 <= dict_size ->
  build_dict source source_size dict_size pool = ROk out -> exists dropped kept, pool = dropped ++ kept /\ out = concat kept.
Proof.
  intros Hs Hd. unfold build_dict. destruct (Z.ltb_spec source_size 16) as [|_]; [lia|].
  destruct (sizing_never_panics source_size dict_size Hs Hd) as (a & b & c & E & _). rewrite E. cbn [rbind].
  intros [= <-]. destruct (prune_suffix pool (total pool) dict_size) as (dr & Ep). exists dr, (prune pool (total pool) dict_size).
  split; [exact Ep|reflexivity].
Qed.
