(** C16: compression is correct for EVERY well-behaved matcher.  The matcher is a parameter: any state type, step
    function and invariant meeting the contract of the property -- each block's report consists of matches (length at
    least 3, distance at least 1, within the advertised window and the bytes retained) with their preceding literals
    followed by at most one trailing literal run, and rebuilds the block from the retained bytes ([apply_seqs]).
    Everything else is as in C02_Concrete.v: the split into literal buffer and triples, the sequences part with the
    modelled normaliser (obligation O1 proved), any literals encoder meeting O2.  The built-in match finder is one
    instance (C17). *)
Require Import Zrs.lib.RsPrelude Zrs.gen.Generated Zrs.model.Headers Zrs.model.BitIO Zrs.model.FseDec Zrs.model.HufDec Zrs.model.BlockDec
  Zrs.model.FrameDec Zrs.model.FrameEnc Zrs.model.Matcher.
Require Import Zrs.model.SeqEnc Zrs.model.FseEnc Zrs.model.SeqSection Zrs.model.BlockEnc Zrs.model.LitEnc Zrs.model.SeqNorm.
Require Import Zrs.proofs.C06_Drain Zrs.proofs.C09_Lz Zrs.proofs.C17_Matcher Zrs.proofs.C12_SeqStream Zrs.proofs.C12_Desc Zrs.proofs.C12_Section
  Zrs.proofs.C13_Stream Zrs.proofs.C02_Block Zrs.proofs.C02_Roundtrip.
Require Import Zrs.proofs.C17_Shape Zrs.proofs.C02_Glue Zrs.proofs.C02_FastBlock.
Require Import Zrs.proofs.C02_BlockGen Zrs.proofs.C13_LitSection Zrs.proofs.C02_HufBlock Zrs.proofs.C02_FastGen Zrs.proofs.C02_Fastest Zrs.proofs.C02_Concrete Zrs.proofs.C02_O1.
Open Scope Z_scope.

(** what the property demands of a reported match *)
Definition match_ok (w : nat) (s : mseq) : Prop :=
  match s with MLit _ => True | MTriple _ off ml => (1 <= off <= w)%nat /\ (3 <= ml)%nat end.

Lemma match_ok_long w s : match_ok w s -> long_enough s.
Proof. destruct s as [l|l off ml]; cbn; [trivial|]. lia. Qed.

Lemma user_seqs_in_range w ms : Forall (match_ok w) ms -> Z.of_nat w < 2 ^ 31 -> Z.of_nat (mseqs_bytes ms) <= 131072 ->
  forallb seq_range_b (mseqs_seqs ms) = true.
Proof.
  intros Hb Hw. induction Hb as [|s t Hs _ IH]; intros Hl; [reflexivity|].
  cbn [mseqs_bytes] in Hl. unfold mseqs_seqs in *. cbn [flat_map]. rewrite forallb_app. rewrite IH by lia. rewrite andb_true_r.
  destruct s as [l|l off ml]; [reflexivity|]. cbn [match_ok mseq_bytes] in *.
  cbn [forallb]. unfold seq_range_b. cbn [sq_ll sq_ml sq_of]. unfold zlen.
  rewrite andb_true_r. repeat (apply andb_true_intro; split); lia.
Qed.

Record ucst (M : Type) := { u_m : M; u_ht : option huf_table }.
Arguments u_m {M}. Arguments u_ht {M}.

Section AnyMatcher.
  Variable M : Type.
  Variable mrun : M -> list Z -> bool -> res (M * option (list mseq)).   (* commit a block, then start_matching / skip_matching *)
  Variable mreset : M -> M.
  Variable MI : M -> Prop.
  Variable mret : M -> list Z.          (* the bytes the matcher may still refer to *)
  Variable mwin : M -> nat.             (* its advertised window *)
  Hypothesis contract : forall m data skip, MI m -> (length data <= mwin m)%nat ->
    exists m' out, mrun m data skip = ROk (m', out) /\ MI m' /\ mwin m' = mwin m /\
      exists dropped H, mret m = dropped ++ H /\ mret m' = H ++ data /\
        if skip then out = None
        else exists seqs, out = Some seqs /\ apply_seqs H seqs = Some (H ++ data) /\ Forall (match_ok (mwin m)) seqs /\ block_shape seqs.
  Hypothesis reset_contract : forall m, MI m -> MI (mreset m) /\ mwin (mreset m) = mwin m /\ mret (mreset m) = [].

  Variable litenc : option huf_table -> list Z -> list Z * list Z * option huf_table.
  Hypothesis O2 : forall o lits h, (forall t, o = Some t -> h = t) -> zlen lits <= MAX_BLOCK_SIZE ->
    let '(hdr, payload, o') := litenc o lits in
    exists ht', lit_ok h lits hdr payload ht' /\ (forall t, o' = Some t -> ht' = t).

  Definition ublock (cs : ucst M) (blk : list Z) : list Z * ucst M :=
    match mrun (u_m cs) blk false with
    | ROk (m', Some ms) =>
        let lits := mseqs_lits ms in
        let seqs := mseqs_seqs ms in
        let '(hdr, payload, o') := litenc (u_ht cs) lits in
        let '(dl, do, dm) := norm_model seqs in
        match seq_part dl do dm seqs with
        | ROk sp => (hdr ++ payload ++ sp, {| u_m := m'; u_ht := o' |})
        | _ => ([], {| u_m := m'; u_ht := o' |})
        end
    | _ => ([], cs)
    end.
  Definition uskip (cs : ucst M) (blk : list Z) : ucst M :=
    match mrun (u_m cs) blk true with
    | ROk (m', _) => {| u_m := m'; u_ht := u_ht cs |}
    | _ => cs
    end.
  Definition ufallback (cs : ucst M) : ucst M := {| u_m := u_m cs; u_ht := None |}.
  Definition ureset (cs : ucst M) : ucst M := {| u_m := mreset (u_m cs); u_ht := None |}.

  Definition URel (cs : ucst M) (sc : scratch) : Prop :=
    MI (u_m cs) /\ 131072 <= Z.of_nat (mwin (u_m cs)) < 2 ^ 31 /\
    db_wf (sc_buf sc) /\ (exists pre, db_rev (sc_buf sc) = rev (mret (u_m cs)) ++ pre) /\
    hist3 (sc_hist sc) /\ alphabets (sc_fse sc) /\ (forall t, u_ht cs = Some t -> sc_huf sc = t).
  Definition UInit (cs : ucst M) : Prop := MI (u_m cs) /\ 131072 <= Z.of_nat (mwin (u_m cs)) < 2 ^ 31.

  Lemma ufits cs sc (blk : list Z) : URel cs sc -> Z.of_nat (length blk) <= 131072 -> (length blk <= mwin (u_m cs))%nat.
  Proof. intros (_ & Hw & _) H. lia. Qed.

  Lemma upush_raw_rel cs sc blk m' (ht : option huf_table) dropped H :
    URel cs sc -> MI m' -> mwin m' = mwin (u_m cs) ->
    mret (u_m cs) = dropped ++ H -> mret m' = H ++ blk -> (forall t, ht = Some t -> sc_huf sc = t) ->
    URel {| u_m := m'; u_ht := ht |} (sc_push_raw sc blk).
  Proof.
    intros (HI & Hw & W & (pre & R) & H3 & Al & Ht) HI' Hmw R1 R2 Ht'.
    unfold URel. cbn [u_m u_ht]. unfold sc_push_raw. cbn [sc_buf sc_hist sc_fse sc_huf].
    split; [exact HI'|]. split; [rewrite Hmw; exact Hw|]. split.
    { unfold db_wf, db_append_raw in *. cbn [db_len db_rev]. rewrite rev_append_rev, app_length, rev_length, W. lia. }
    split.
    { exists (rev dropped ++ pre). unfold db_append_raw. cbn [db_rev]. rewrite rev_append_rev, R, R1, R2, !rev_app_distr, <- !app_assoc. reflexivity. }
    split; [exact H3|]. split; [exact Al|exact Ht'].
  Qed.

  Lemma UH_skip : forall cs sc blk, URel cs sc -> blk <> [] -> Z.of_nat (length blk) <= 131072 ->
    all_same blk = true -> URel (uskip cs blk) (sc_push_raw sc blk).
  Proof.
    intros cs sc blk HR _ Hsz _. pose proof HR as (HI & Hw & W & (pre & R) & H3 & Al & Ht).
    destruct (contract (u_m cs) blk true HI (ufits cs sc blk HR Hsz)) as (m' & out & E & HI' & Hmw & dr & H & R1 & R2 & _).
    unfold uskip. rewrite E. eapply upush_raw_rel; eassumption.
  Qed.

  Lemma ublock_spec cs sc blk : URel cs sc -> Z.of_nat (length blk) <= 131072 ->
    exists m' ms hdr payload o' dl do dm sp dr H,
      mrun (u_m cs) blk false = ROk (m', Some ms) /\
      litenc (u_ht cs) (mseqs_lits ms) = (hdr, payload, o') /\ norm_model (mseqs_seqs ms) = (dl, do, dm) /\
      seq_part dl do dm (mseqs_seqs ms) = ROk sp /\
      ublock cs blk = (hdr ++ payload ++ sp, {| u_m := m'; u_ht := o' |}) /\
      MI m' /\ mwin m' = mwin (u_m cs) /\ mret (u_m cs) = dr ++ H /\ mret m' = H ++ blk /\
      (mseqs_seqs ms <> [] -> section_hyps_b dl do dm (mseqs_seqs ms) = true) /\
      Z.of_nat (length (mseqs_seqs ms)) <= 98047 /\ zlen (mseqs_lits ms) <= MAX_BLOCK_SIZE /\
      apply_seqs H ms = Some (H ++ blk) /\ block_shape ms /\ Forall long_enough ms.
  Proof.
    intros HR Hsz. pose proof HR as (HI & Hw & W & (pre & R) & H3 & Al & Ht).
    destruct (contract (u_m cs) blk false HI (ufits cs sc blk HR Hsz)) as (m' & out & E & HI' & Hmw & dr & H & R1 & R2 & ms & -> & A & B & Sh).
    pose proof (apply_seqs_length _ _ _ A) as Ltot. rewrite app_length in Ltot.
    assert (Hlong : Forall long_enough ms) by (eapply Forall_impl; [|exact B]; intros; eapply match_ok_long; eassumption).
    pose proof (mseqs_seqs_count _ Hlong) as Lseq. pose proof (mseqs_lits_length ms) as Llit.
    assert (Hcount : Z.of_nat (length (mseqs_seqs ms)) <= 98047) by lia.
    assert (Hrange : forallb seq_range_b (mseqs_seqs ms) = true) by (apply (user_seqs_in_range (mwin (u_m cs))); [exact B|lia|lia]).
    destruct (litenc (u_ht cs) (mseqs_lits ms)) as [[hdr payload] o'] eqn:El.
    destruct (norm_model (mseqs_seqs ms)) as [[dl do] dm] eqn:En.
    assert (Hh : mseqs_seqs ms <> [] -> section_hyps_b dl do dm (mseqs_seqs ms) = true).
    { intros Hne. pose proof (norm_model_meets_O1 (mseqs_seqs ms) Hne Hrange Hcount) as Ho. rewrite En in Ho. exact Ho. }
    destruct (seq_part_exists dl do dm (mseqs_seqs ms) Hcount Hh) as (sp & Esp).
    exists m', ms, hdr, payload, o', dl, do, dm, sp, dr, H.
    unfold ublock. rewrite E, El, En, Esp. change MAX_BLOCK_SIZE with 131072. unfold zlen.
    split; [reflexivity|]. split; [reflexivity|]. split; [reflexivity|]. split; [reflexivity|]. split; [reflexivity|].
    split; [exact HI'|]. split; [exact Hmw|]. split; [exact R1|]. split; [exact R2|]. split; [exact Hh|]. split; [exact Hcount|].
    split; [lia|]. split; [exact A|]. split; [exact Sh|exact Hlong].
  Qed.

  Lemma UH_fallback : forall cs sc blk body cs', URel cs sc -> blk <> [] -> Z.of_nat (length blk) <= 131072 ->
    ublock cs blk = (body, cs') -> URel (ufallback cs') (sc_push_raw sc blk).
  Proof.
    intros cs sc blk body cs' HR _ Hsz Hc.
    destruct (ublock_spec cs sc blk HR Hsz) as (m' & ms & hdr & payload & o' & dl & do & dm & sp & dr & H & E & El & En & Esp & Ec & HI' & Hmw & R1 & R2 & _).
    rewrite Ec in Hc. injection Hc as _ <-. unfold ufallback. cbn [u_m u_ht].
    eapply upush_raw_rel; try eassumption. discriminate.
  Qed.

  Lemma UH_block : forall cs sc blk body cs', URel cs sc -> blk <> [] -> Z.of_nat (length blk) <= 131072 ->
    ublock cs blk = (body, cs') -> all_same blk = false ->
    (length body < length blk)%nat -> Z.of_nat (length body) <= MAX_BLOCK_SIZE ->
    exists sc', decompress_block (Z.of_nat (length body)) sc body = ROk sc' /\
                sc_content sc' = sc_content sc ++ blk /\ URel cs' sc'.
  Proof.
    intros cs sc blk body cs' HR _ Hsz Hc _ _ _.
    destruct (ublock_spec cs sc blk HR Hsz) as (m' & ms & hdr & payload & o' & dl & do & dm & sp & dr & H & E & El & En & Esp & Ec & HI' & Hmw & R1 & R2 & Hh & Hcount & Hlit & A & (ts & tail & -> & Hts & Htail) & Hlong).
    rewrite Ec in Hc. injection Hc as <- <-.
    pose proof HR as (HI & Hw & W & (pre & R) & H3 & (M1 & M2 & M3) & Ht).
    pose proof (O2 (u_ht cs) (mseqs_lits (ts ++ tail)) (sc_huf sc) Ht Hlit) as Ho. rewrite El in Ho.
    destruct Ho as (ht' & (ty & regen & comp & streams & L1 & L2 & L3 & L4) & Ho').
    rewrite R1, rev_app_distr, <- app_assoc in R.
    destruct (valid_parse_block hdr payload ty regen comp streams sc ht' (mseqs_lits (ts ++ tail)) L1 L2 L3 L4
                ts tail H blk dl do dm sp (rev dr ++ pre) eq_refl Hts Htail Hlong A ltac:(change MAX_BLOCK_SIZE with 131072; lia) Esp Hh M1 M2 M3 W R H3)
      as (sc' & Hdec & W' & R' & H3' & Hu & _ & _ & _ & N1 & N2 & N3).
    exists sc'. split; [exact Hdec|]. split.
    { unfold sc_content. rewrite R', R. rewrite !rev_app_distr, !rev_involutive, <- !app_assoc. reflexivity. }
    unfold URel. cbn [u_m u_ht]. split; [exact HI'|]. split; [rewrite Hmw; exact Hw|]. split; [exact W'|].
    split; [exists (rev dr ++ pre); rewrite R2; exact R'|]. split; [exact H3'|]. split; [repeat split; assumption|].
    intros t Et. rewrite Hu. apply Ho'. exact Et.
  Qed.

  Lemma UH_reset : forall cs w, UInit cs -> URel (ureset cs) (scratch_new w).
  Proof.
    intros cs w (HI & Hw). destruct (reset_contract (u_m cs) HI) as (HI' & Hmw & Hr).
    unfold URel, ureset, scratch_new. cbn [u_m u_ht sc_buf sc_hist sc_fse sc_huf].
    split; [exact HI'|]. split; [rewrite Hmw; exact Hw|]. split; [reflexivity|].
    split; [exists []; rewrite Hr; reflexivity|]. split; [eexists _, _, _; reflexivity|].
    split; [repeat split|]. discriminate.
  Qed.

  (** level Fastest through ANY well-behaved matcher: every input, every fragmentation of the reads, every block size
      up to 128 KiB, every reuse history: the frame decodes completely to the input *)
  Theorem any_matcher_roundtrip slice wsize hash32 cs data script frame cs' r' :
    UInit cs -> 1 <= Z.of_nat slice <= 131072 -> 1 <= wsize <= 2 ^ 27 ->
    (forall h x, hash32 = Some h -> length (h x) = 4%nat) ->
    compress_frame (ucst M) ublock uskip ufallback ureset LFastest slice wsize hash32 cs
      {| rd_data := data; rd_script := script |} = ROk (frame, cs', r') ->
    exists d1 rest evs s1 d2 s2,
      fdec_reset fdec_new frame = ROk (d1, rest, evs) /\ fd_state d1 = Some s1 /\
      fdec_decode_blocks d1 rest SAll = ROk (d2, [], true) /\ fd_state d2 = Some s2 /\
      buf_content s2 = data /\
      fr_checksum s2 = match hash32 with Some h => Some (le_val (h data)) | None => None end.
  Proof.
    apply (fastest_roundtrip (ucst M) ublock uskip ufallback URel UH_block UH_skip UH_fallback ureset UInit UH_reset).
  Qed.
End AnyMatcher.

(** the contract is satisfiable: the built-in match finder (model/Matcher.v, property C17) meets it *)
Lemma builtin_meets_contract : forall m data skip, DInv m -> (length data <= max_window m)%nat ->
  exists m' out, mstep m (OpBlock data skip) = ROk (m', out) /\ DInv m' /\ max_window m' = max_window m /\
    exists dropped H, retained m = dropped ++ H /\ retained m' = H ++ data /\
      if skip then out = None
      else exists seqs, out = Some seqs /\ apply_seqs H seqs = Some (H ++ data) /\ Forall (match_ok (max_window m)) seqs /\ block_shape seqs.
Proof.
  intros m data skip HI Hfit.
  destruct (mstep_spec m (OpBlock data skip) HI Hfit) as (m' & out & E & HI' & Hmw & dr & H & R1 & R2 & R3 & Hout).
  exists m', out. split; [exact E|]. split; [exact HI'|]. split; [exact Hmw|]. exists dr, H. split; [exact R1|]. split; [exact R2|].
  destruct skip; [exact Hout|]. destruct Hout as (seqs & -> & A & B). exists seqs. split; [reflexivity|]. split; [exact A|]. split.
  - eapply Forall_impl; [|exact B]. intros s Hs. destruct s as [l|l off ml]; cbn in *; [trivial|]. unfold MIN_MATCH in Hs. lia.
  - eapply mstep_block_shape. exact E.
Qed.
Lemma builtin_reset_contract : forall m, DInv m -> DInv (mgd_reset m) /\ max_window (mgd_reset m) = max_window m /\ retained (mgd_reset m) = [].
Proof.
  intros m HI. destruct (mstep_spec m OpReset HI I) as (m' & out & E & HI' & Hmw & _ & Hr).
  cbn [mstep] in E. injection E as <- _. split; [exact HI'|]. split; [exact Hmw|exact Hr].
Qed.
