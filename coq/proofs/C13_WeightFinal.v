(** C13: the FSE-compressed weight description round-trips for every normalised distribution in which no probability
    exceeds half the table size (accuracy logs 5 and 6, the ones the weight description may use). *)
Require Import Zrs.lib.RsPrelude Zrs.gen.Generated Zrs.model.BitIO Zrs.model.BitStream Zrs.model.FseDec Zrs.model.HufDec Zrs.model.BlockDec Zrs.model.SeqEnc Zrs.model.FseEnc Zrs.model.WeightEnc.
Require Import Zrs.proofs.C12_Stream Zrs.proofs.C12_SeqStream Zrs.proofs.C12_Desc Zrs.proofs.C12_Section Zrs.proofs.C13_WeightStream Zrs.proofs.C13_WeightDesc.
Require Import Zrs.proofs.C12_General Zrs.proofs.C12_AvoidBits Zrs.proofs.C13_WeightTable.
Open Scope Z_scope.

Theorem fse_weight_description_for_every_half_bounded_distribution t al probs d data rest :
  t_max_symbol (ht_fse t) = 255 -> 5 <= al <= 6 ->
  Forall (fun p => -1 <= p <= 2 ^ (al - 1)) probs -> weight probs = 2 ^ al -> last probs 1 <> 0 -> (length probs <= 256)%nat ->
  desc_bytes al probs = Some d ->
  (2 <= length data <= 257)%nat ->
  Forall (fun x => exists i, x = Z.of_nat i /\ (i < length probs)%nat /\ nth i probs 0 <> 0) data ->
  exists D, fse_build_from_probabilities (ht_fse t) al probs = ROk D /\
    let stream := stream_bytes (weight_fields (enc_of_dec D) data) in
    let header := zlen d + zlen stream in
    (header < 128 -> read_weights t (header :: d ++ stream ++ rest) = ROk (data, D, 1 + header)).
Proof.
  intros Hms Hal Hp Hw Hlast Hlen Hdesc Hl Hdata.
  destruct (half_bounded_distribution_carries_bits al probs 255 ltac:(lia) Hp Hw Hlen ltac:(lia)) as (D & Eb & Hbit & Hwf & Hcov).
  assert (Eb' : fse_build_from_probabilities (ht_fse t) al probs = ROk D) by (rewrite build_indep, Hms; exact Eb).
  exists D. split; [exact Eb'|]. intros stream header Hh.
  assert (Hc : Forall (covers D) data).
  { apply Forall_forall. intros x Hx. rewrite Forall_forall in Hdata. destruct (Hdata x Hx) as (i & -> & Hi & Hn). apply Hcov; assumption. }
  destruct (derived_states_carry_a_bit D data Hwf Hbit Hc) as (A & B).
  assert (Hd : dist_ok al probs).
  { split; [|split; [exact Hw|exact Hlast]]. eapply Forall_impl; [|exact Hp]. intros a Ha. cbv beta in *. lia. }
  apply (fse_weight_description_roundtrip t al probs d D data data rest Hal Hd ltac:(rewrite Hms; lia) Hdesc Eb' Hwf Hc A B Hl
           ltac:(apply Forall_forall; intros x Hx; exact Hx) Hh).
Qed.
