(** C05 (and the consumption half of C10, the hashing half of C08): invariants of block decoding -- the buffer stays well formed, only bytes are appended, one block adds at most 128 KiB, the byte counter equals the bytes taken from the source. *)
Require Import Zrs.lib.RsPrelude Zrs.gen.Generated Zrs.model.Headers Zrs.model.BitIO Zrs.model.FseDec Zrs.model.HufDec Zrs.model.BlockDec Zrs.model.FrameDec.
Require Import Zrs.proofs.C06_Drain Zrs.proofs.C14_Headers.
Open Scope Z_scope.

Ltac bind_inv H :=
  match type of H with
  | rbind ?r _ = ROk _ => let E := fresh "E" in destruct r eqn:E; cbn [rbind] in H; [|discriminate H|discriminate H]
  end.

(** buffers related by "only bytes were appended": same dictionary, window, hasher state *)
Definition db_same_meta (b b' : dbuf) : Prop :=
  db_dict b' = db_dict b /\ db_window b' = db_window b /\ db_hashed_rev b' = db_hashed_rev b.

Lemma same_meta_refl b : db_same_meta b b.
Proof. repeat split. Qed.
Lemma same_meta_trans a b c : db_same_meta a b -> db_same_meta b c -> db_same_meta a c.
Proof. intros (A1 & A2 & A3) (B1 & B2 & B3). repeat split; congruence. Qed.

Lemma append_raw_inv b data : db_wf b ->
  db_wf (db_append_raw b data) /\ db_len (db_append_raw b data) = db_len b + Z.of_nat (length data) /\
  db_same_meta b (db_append_raw b data) /\ db_total_out (db_append_raw b data) = db_total_out b.
Proof.
  intros W. unfold db_wf, db_append_raw in *. cbn. rewrite rev_append_rev, app_length, rev_length.
  repeat split. lia.
Qed.

Lemma add_total_inv b n : db_wf b -> db_wf (db_add_total b n) /\ db_len (db_add_total b n) = db_len b /\
  db_same_meta b (db_add_total b n).
Proof. intros W. unfold db_wf, db_add_total in *. cbn. repeat split. exact W. Qed.

Lemma push_inv b data : db_wf b ->
  db_wf (db_push b data) /\ db_len (db_push b data) = db_len b + Z.of_nat (length data) /\ db_same_meta b (db_push b data).
Proof.
  intros W. unfold db_push. destruct (append_raw_inv b data W) as (W1 & L1 & M1 & _).
  destruct (add_total_inv (db_append_raw b data) (Z.of_nat (length data)) W1) as (W2 & L2 & M2).
  split; [exact W2|]. split; [lia|]. eapply same_meta_trans; eassumption.
Qed.

Lemma lz_chunks_length fuel : forall n off r, (1 <= off)%nat -> (off <= length r)%nat -> (n <= fuel)%nat ->
  length (lz_copy_chunks fuel n off r) = (length r + n)%nat.
Proof.
  induction fuel as [|f IH]; intros n off r Ho Hl Hn.
  - assert (n = 0)%nat by lia. subst. cbn. lia.
  - cbn [lz_copy_chunks]. destruct n as [|n']; [lia|].
    destruct (Nat.min off (S n')) as [|c'] eqn:Ec; [lia|].
    set (c := S c') in *.
    rewrite IH; try lia.
    + rewrite app_length, firstn_length, skipn_length. lia.
    + rewrite app_length, firstn_length, skipn_length. lia.
Qed.

Lemma set_rev_lz_inv b n off : db_wf b -> 0 <= n -> 1 <= off <= db_len b ->
  let b' := db_add_total (db_set_rev b (lz_copy_fast (Z.to_nat n) (Z.to_nat off) (db_rev b)) n) n in
  db_wf b' /\ db_len b' = db_len b + n /\ db_same_meta b b'.
Proof.
  intros W Hn Ho. unfold db_wf, db_add_total, db_set_rev, lz_copy_fast in *. cbn.
  rewrite lz_chunks_length by lia. repeat split. lia.
Qed.

Lemma db_repeat_inv b off ml b' : db_wf b -> 0 <= ml -> 0 <= off ->
  db_repeat b off ml = ROk b' -> db_wf b' /\ db_len b' = db_len b + ml /\ db_same_meta b b'.
Proof.
  intros W Hml Hoff H. unfold db_repeat in H.
  assert (0 <= db_len b) as L by (unfold db_wf in W; lia).
  destruct (db_len b <? off) eqn:E1.
  - destruct (db_total_out b <=? db_window b); [|discriminate].
    destruct (Z.of_nat (length (db_dict b)) <? off - db_len b) eqn:E2; [discriminate|].
    destruct (off - db_len b <? ml) eqn:E3.
    + set (slice := skipn (Z.to_nat (Z.of_nat (length (db_dict b)) - (off - db_len b))) (db_dict b)) in *.
      assert (Z.of_nat (length slice) = off - db_len b) as Ls by (unfold slice; rewrite skipn_length; lia).
      destruct (append_raw_inv b slice W) as (W1 & L1 & M1 & _).
      destruct (add_total_inv (db_append_raw b slice) (off - db_len b) W1) as (W2 & L2 & M2).
      set (b1 := db_add_total (db_append_raw b slice) (off - db_len b)) in *.
      destruct (db_len b1 =? 0) eqn:E4; [discriminate|]. inversion H; subst b'; clear H.
      destruct (set_rev_lz_inv b1 (ml - (off - db_len b)) (db_len b1) W2 ltac:(lia) ltac:(lia)) as (W3 & L3 & M3).
      split; [exact W3|]. split; [cbn [db_len db_add_total db_set_rev] in *; lia|].
      eapply same_meta_trans; [|exact M3]. eapply same_meta_trans; eassumption.
    + inversion H; subst b'; clear H.
      set (d := firstn (Z.to_nat ml) (skipn (Z.to_nat (Z.of_nat (length (db_dict b)) - (off - db_len b))) (db_dict b))).
      assert (Z.of_nat (length d) = ml) as Ld by (unfold d; rewrite firstn_length, skipn_length; lia).
      destruct (append_raw_inv b d W) as (W1 & L1 & M1 & _).
      split; [exact W1|]. split; [lia|exact M1].
  - destruct ((off =? 0) && (0 <? ml)) eqn:E2; [discriminate|]. inversion H; subst b'; clear H.
    destruct (Z.eq_dec ml 0) as [->|Hnz].
    + unfold db_wf, db_add_total, db_set_rev, lz_copy_fast in *. cbn. repeat split. lia.
    + apply set_rev_lz_inv; try assumption; lia.
Qed.

(** *** values read from bit streams are non-negative *)
Lemma bits_val_msb_acc_nonneg l : forall acc, 0 <= acc -> 0 <= bits_val_msb_acc acc l.
Proof. induction l as [|b t IH]; intros acc H; cbn [bits_val_msb_acc]; [exact H|]. apply IH. unfold b2z. destruct b; lia. Qed.
Lemma bits_val_msb_nonneg l : 0 <= bits_val_msb l.
Proof. apply bits_val_msb_acc_nonneg. lia. Qed.

Lemma rbr_get_bits_nonneg r n : 0 <= fst (rbr_get_bits r n).
Proof.
  unfold rbr_get_bits. destruct (n <=? 0); [cbn [fst]; lia|]. destruct (n <=? r_left r); cbn [fst].
  - apply bits_val_msb_nonneg.
  - apply Z.mul_nonneg_nonneg; [apply bits_val_msb_nonneg|]. apply Z.pow_nonneg. lia.
Qed.

Definition seq_ok (sq : sequence) : Prop := 0 <= sq_ll sq /\ 0 <= sq_ml sq /\ 1 <= sq_of sq.

Lemma lookup_ll_nonneg c v n : lookup_ll_code c = ROk (v, n) -> 0 <= v /\ 0 <= n.
Proof.
  unfold lookup_ll_code. intros H.
  repeat match type of H with
  | (if ?b then _ else _) = _ => destruct b eqn:?; [inversion H; subst; lia|]
  | (let _ := _ in _) = _ => cbv zeta in H
  end. discriminate.
Qed.
Lemma lookup_ml_nonneg c v n : lookup_ml_code c = ROk (v, n) -> 0 <= v /\ 0 <= n.
Proof.
  unfold lookup_ml_code. intros H.
  repeat match type of H with
  | (if ?b then _ else _) = _ => destruct b eqn:?; [inversion H; subst; lia|]
  | (let _ := _ in _) = _ => cbv zeta in H
  end. discriminate.
Qed.

Lemma seq_loop_ok n : forall total s ll ml of br done acc acc' br',
  Forall seq_ok acc -> seq_loop n total s ll ml of br done acc = ROk (acc', br') -> Forall seq_ok acc'.
Proof.
  induction n as [|k IH]; intros total s ll ml of br done acc acc' br' HA H; cbn [seq_loop] in H.
  - inversion H; subst. exact HA.
  - bind_inv H. destruct a as [llv llb]. bind_inv H. destruct a as [mlv mlb].
    destruct (MAX_OFFSET_CODE <? code_of (fs_of_rle s) of) eqn:Eo; [discriminate|].
    unfold rbr_get_bits_triple in H.
    pose proof (rbr_get_bits_nonneg br (code_of (fs_of_rle s) of)) as N1.
    destruct (rbr_get_bits br (code_of (fs_of_rle s) of)) as [v1 r1].
    pose proof (rbr_get_bits_nonneg r1 mlb) as N2. destruct (rbr_get_bits r1 mlb) as [v2 r2].
    pose proof (rbr_get_bits_nonneg r2 llb) as N3. destruct (rbr_get_bits r2 llb) as [v3 r3].
    cbn [fst] in *.
    destruct (v1 + 2 ^ code_of (fs_of_rle s) of =? 0) eqn:Ez; [discriminate|].
    bind_inv H. destruct a as [[[ll' ml'] of'] br2].
    destruct (rbr_bits_remaining br2 <? 0); [discriminate|].
    apply (IH _ _ _ _ _ _ _ _ _ _ ) in H; [exact H|].
    constructor; [|exact HA]. unfold seq_ok. cbn [sq_ll sq_ml sq_of].
    apply lookup_ll_nonneg in E. apply lookup_ml_nonneg in E0.
    assert (0 <= 2 ^ code_of (fs_of_rle s) of) by (apply Z.pow_nonneg; lia). lia.
Qed.

Lemma Forall_rev' {A} (P : A -> Prop) l : Forall P l -> Forall P (rev' l).
Proof. rewrite rev'_rev. apply Forall_rev. Qed.

Lemma decode_sequences_ok n modes src s s' seqs :
  decode_sequences n modes src s = ROk (s', seqs) -> Forall seq_ok seqs.
Proof.
  unfold decode_sequences. intros H. bind_inv H. destruct a as [s1 used].
  destruct (zlen src <? used); [discriminate|].
  destruct (rbr_skip_padding (rbr_new (drop_z used src))) as [br|]; [|discriminate].
  bind_inv H. destruct a as [ll br1]. bind_inv H. destruct a as [of br2]. bind_inv H. destruct a as [ml br3].
  bind_inv H. destruct a as [acc br4]. destruct (0 <? rbr_bits_remaining br4); [discriminate|].
  inversion H; subst. apply Forall_rev'. eapply seq_loop_ok; [|eassumption]. constructor.
Qed.

(** *** offset history stays a triple of non-negative numbers *)
Definition hist_ok (h : list Z) : Prop := exists a b c, h = [a; b; c] /\ 0 <= a /\ 0 <= b /\ 0 <= c.

Lemma offhist_ok ov ll h : 1 <= ov -> hist_ok h ->
  0 <= fst (do_offset_history ov ll h) /\ hist_ok (snd (do_offset_history ov ll h)).
Proof.
  intros Hov (a & b & c & -> & Ha & Hb & Hc). unfold do_offset_history, hist_ok.
  assert (ov = 1 \/ ov = 2 \/ ov = 3 \/ 4 <= ov) as [->|[->|[->|H4]]] by lia.
  - destruct (ll >? 0); unfold znth, zupd; simpl; (split; [lia|]); do 3 eexists; (split; [reflexivity|lia]).
  - destruct (ll >? 0); unfold znth, zupd; simpl; (split; [lia|]); do 3 eexists; (split; [reflexivity|lia]).
  - destruct (ll >? 0); unfold znth, zupd; simpl; (split; [lia|]); do 3 eexists; (split; [reflexivity|lia]).
  - assert ((1 <=? ov) && (ov <=? 3) = false) as -> by lia.
    assert ((1 <=? ov) && (ov <=? 2) = false) as -> by lia.
    assert (ov =? 1 = false) as -> by lia. assert (ov =? 2 = false) as -> by lia.
    assert (ov =? 3 = false) as -> by lia.
    destruct (ll >? 0); unfold znth, zupd; simpl; (split; [lia|]); do 3 eexists; (split; [reflexivity|lia]).
Qed.

Lemma split_at_spec n l a b : split_at n l = Some (a, b) -> l = a ++ b /\ length a = n.
Proof.
  revert l a b. induction n as [|n IH]; intros l a b H; cbn in H.
  - inversion H. subst. split; reflexivity.
  - destruct l as [|x t]; [discriminate|]. destruct (split_at n t) as [[a' b']|] eqn:E; [|discriminate].
    inversion H. subst. destruct (IH t a' b E) as [-> L]. split; [reflexivity|cbn; lia].
Qed.

(** the sequence execution loop: the buffer grows by exactly the running sum, which the F1 check keeps <= 128 KiB *)
Lemma exec_loop_inv seqs : forall lits buf hist ssum buf' hist' rest ssum',
  db_wf buf -> hist_ok hist -> Forall seq_ok seqs -> 0 <= ssum ->
  exec_loop seqs lits buf hist ssum = ROk (buf', hist', rest, ssum') ->
  db_wf buf' /\ hist_ok hist' /\ db_same_meta buf buf' /\
  db_len buf' - db_len buf = ssum' - ssum /\ ssum <= ssum' /\ (seqs <> [] -> ssum' <= MAX_BLOCK_SIZE).
Proof.
  induction seqs as [|sq t IH]; intros lits buf hist ssum buf' hist' rest ssum' W Hh Hs Hsum H; cbn [exec_loop] in H.
  - inversion H; subst. repeat split; try assumption; try lia. congruence.
  - inversion Hs as [|? ? (Hll & Hml & Hof) Hs']; subst.
    destruct (MAX_BLOCK_SIZE <? ssum + sq_ll sq + sq_ml sq) eqn:Ecap; [discriminate|].
    bind_inv H. destruct a as [buf1 lits1].
    assert (db_wf buf1 /\ db_same_meta buf buf1 /\ db_len buf1 = db_len buf + sq_ll sq) as (W1 & M1 & L1).
    { destruct (0 <? sq_ll sq) eqn:El.
      - destruct (split_at (Z.to_nat (sq_ll sq)) lits) as [[a r]|] eqn:Es; [|discriminate].
        inversion E; subst. destruct (split_at_spec _ _ _ _ Es) as [_ La].
        destruct (push_inv buf a W) as (P1 & P2 & P3). repeat split; try assumption; try apply P3. lia.
      - inversion E; subst. repeat split; try assumption. lia. }
    pose proof (offhist_ok (sq_of sq) (sq_ll sq) hist Hof Hh) as [Ha Hh1].
    destruct (do_offset_history (sq_of sq) (sq_ll sq) hist) as [actual hist1]. cbn [fst snd] in *.
    destruct (actual =? 0) eqn:Ez; [discriminate|].
    bind_inv H. rename a into buf2.
    assert (db_wf buf2 /\ db_same_meta buf1 buf2 /\ db_len buf2 = db_len buf1 + sq_ml sq) as (W2 & M2 & L2).
    { destruct (0 <? sq_ml sq) eqn:Em.
      - destruct (db_repeat_inv buf1 actual (sq_ml sq) buf2 W1 Hml Ha E0) as (R1 & R2 & R3). repeat split; try assumption; apply R3.
      - inversion E0; subst. repeat split; try assumption. lia. }
    destruct (2 ^ 32 <=? ssum + sq_ml sq + sq_ll sq); [discriminate|].
    assert (0 <= ssum + sq_ml sq + sq_ll sq) as Hs2 by lia.
    destruct (IH _ _ _ _ _ _ _ _ W2 Hh1 Hs' Hs2 H) as (W' & Hh' & M' & L' & Le' & Cap').
    split; [exact W'|]. split; [exact Hh'|]. split; [eapply same_meta_trans; [|exact M']; eapply same_meta_trans; eassumption|].
    split; [lia|]. split; [lia|]. intros _.
    destruct t as [|sq2 t2]; [|apply Cap'; discriminate].
    cbn [exec_loop] in H. inversion H; subst. lia.
Qed.

Lemma max_block_size_val : MAX_BLOCK_SIZE = 131072.
Proof. reflexivity. Qed.

Theorem execute_sequences_inv seqs lits buf hist buf' hist' :
  db_wf buf -> hist_ok hist -> Forall seq_ok seqs ->
  execute_sequences seqs lits buf hist = ROk (buf', hist') ->
  db_wf buf' /\ hist_ok hist' /\ db_same_meta buf buf' /\
  0 <= db_len buf' - db_len buf <= MAX_BLOCK_SIZE.
Proof.
  intros W Hh Hs H. unfold execute_sequences in H. bind_inv H. destruct a as [[[buf1 hist1] rest] ssum].
  destruct (exec_loop_inv _ _ _ _ _ _ _ _ _ W Hh Hs (Z.le_refl 0) E) as (W1 & Hh1 & M1 & L1 & Le1 & Cap1).
  destruct ((0 <? zlen rest) && (MAX_BLOCK_SIZE <? ssum + zlen rest)) eqn:Ecap; [discriminate|].
  destruct (negb _) eqn:Eneg in H; [discriminate|]. inversion H; subst.
  unfold zlen in *.
  destruct (0 <? Z.of_nat (length rest)) eqn:Er.
  - destruct (push_inv buf1 rest W1) as (P1 & P2 & P3).
    split; [exact P1|]. split; [exact Hh1|]. split; [eapply same_meta_trans; eassumption|].
    cbn [andb] in Ecap. lia.
  - split; [exact W1|]. split; [exact Hh1|]. split; [exact M1|].
    destruct seqs as [|sq t].
    + cbn [exec_loop] in E. inversion E; subst. rewrite max_block_size_val. lia.
    + specialize (Cap1 ltac:(discriminate)). lia.
Qed.

(** *** one block never grows the buffer by more than 128 KiB (property C05's core; needs the F1 repair) *)
Definition scratch_ok (sc : scratch) : Prop := db_wf (sc_buf sc) /\ hist_ok (sc_hist sc).

Lemma lit_header_regen raw used ty regen comp streams :
  lit_header_parse raw = ROk (used, ty, regen, comp, streams) -> True.
Proof. trivial. Qed.

Theorem decompress_block_inv content_size sc raw sc' :
  scratch_ok sc -> decompress_block content_size sc raw = ROk sc' ->
  scratch_ok sc' /\ db_same_meta (sc_buf sc) (sc_buf sc') /\
  0 <= db_len (sc_buf sc') - db_len (sc_buf sc) <= MAX_BLOCK_SIZE.
Proof.
  intros [W Hh] H. unfold decompress_block in H.
  destruct (lit_header_parse raw) as [[[[[used ty] regen] comp] streams]| |]; try discriminate.
  destruct (MAX_BLOCK_SIZE <? regen) eqn:Ereg; [discriminate|].
  match type of H with (if ?c then _ else _) = _ => destruct c; [discriminate|] end.
  bind_inv H. destruct a as [[ht lits] used_lit].
  destruct (negb (regen =? zlen lits)) eqn:E1; [discriminate|].
  match type of H with (if ?c then _ else _) = _ => destruct c; [discriminate|] end.
  match type of H with match ?x with _ => _ end = _ => destruct x as [[[used_seq nseq] modes]| |]; try discriminate end.
  match type of H with (if ?c then _ else _) = _ => destruct c; [discriminate|] end.
  destruct (negb (nseq =? 0)) eqn:En.
  - bind_inv H. destruct a as [fs seqs]. bind_inv H. destruct a as [buf hist]. inversion H; subst. cbn [sc_buf sc_hist].
    pose proof (decode_sequences_ok _ _ _ _ _ _ E0) as Hs.
    destruct (execute_sequences_inv _ _ _ _ _ _ W Hh Hs E2) as (W' & Hh' & M' & G').
    split; [split; assumption|]. split; assumption.
  - match type of H with (if ?c then _ else _) = _ => destruct c; [discriminate|] end.
    inversion H; subst. cbn [sc_buf sc_hist].
    destruct (push_inv (sc_buf sc) lits W) as (P1 & P2 & P3).
    split; [split; assumption|]. split; [exact P3|]. unfold zlen in *. lia.
Qed.

Lemma repeat_z_length b n : length (repeat_z b n) = n.
Proof. induction n; cbn; congruence. Qed.

Lemma read_exact_spec n src a rest : 0 <= n -> read_exact n src = Some (a, rest) ->
  src = a ++ rest /\ Z.of_nat (length a) = n.
Proof.
  unfold read_exact, zlen, take_z, drop_z. intros Hn H. destruct (Z.of_nat (length src) <? n) eqn:E; [discriminate|].
  inversion H; subst. split; [symmetry; apply firstn_skipn|]. rewrite firstn_length. lia.
Qed.

(** any block type: the decoded size of a block is at most 128 KiB when the header sizes are (the header reader
    guarantees it, see [read_block_header_sizes]) *)
Theorem decode_block_content_inv ty dsize csize sc src sc' n rest :
  scratch_ok sc -> 0 <= dsize <= MAX_BLOCK_SIZE -> 0 <= csize ->
  decode_block_content ty dsize csize sc src = ROk (sc', n, rest) ->
  scratch_ok sc' /\ db_same_meta (sc_buf sc) (sc_buf sc') /\
  0 <= db_len (sc_buf sc') - db_len (sc_buf sc) <= MAX_BLOCK_SIZE /\
  0 <= n /\ exists c, src = c ++ rest /\ Z.of_nat (length c) = n.
Proof.
  intros [W Hh] Hd Hc H. unfold decode_block_content in H.
  destruct (ty =? 1) eqn:E1.
  - destruct (read_exact 1 src) as [[b r]|] eqn:Er; [|discriminate]. injection H as Hsc Hn Hrest; subst sc' n rest. cbn [sc_buf sc_hist].
    destruct (read_exact_spec 1 src b r ltac:(lia) Er) as [-> Lb].
    destruct (append_raw_inv (sc_buf sc) (repeat_z (nth_z b 0) (Z.to_nat dsize)) W) as (P1 & P2 & P3 & _).
    rewrite repeat_z_length in P2.
    split; [split; assumption|]. split; [exact P3|]. split; [lia|]. split; [lia|]. exists b. split; [reflexivity|lia].
  - destruct (ty =? 0) eqn:E0.
    + destruct (read_exact dsize src) as [[d r]|] eqn:Er; [|discriminate]. injection H as Hsc Hn Hrest; subst sc' n rest. cbn [sc_buf sc_hist].
      destruct (read_exact_spec dsize src d r ltac:(lia) Er) as [-> Ld].
      destruct (append_raw_inv (sc_buf sc) d W) as (P1 & P2 & P3 & _).
      split; [split; assumption|]. split; [exact P3|]. split; [lia|]. split; [lia|]. exists d. split; [reflexivity|lia].
    + destruct (ty =? 2) eqn:E2; [|discriminate].
      destruct (read_exact csize src) as [[raw r]|] eqn:Er; [|discriminate].
      bind_inv H. injection H as Hsc Hn Hrest; subst sc' n rest.
      destruct (read_exact_spec csize src raw r Hc Er) as [-> Lr].
      destruct (decompress_block_inv _ _ _ _ (conj W Hh) E) as (S' & M' & G').
      split; [exact S'|]. split; [exact M'|]. split; [exact G'|]. split; [lia|]. exists raw. split; [reflexivity|lia].
Qed.

(** the block header reader only lets sizes up to 128 KiB through (uses the generated [block_content_size]) *)
Lemma read_block_header_sizes b0 b1 b2 last ty dsize csize :
  0 <= b0 < 256 -> 0 <= b1 < 256 -> 0 <= b2 < 256 ->
  read_block_header b0 b1 b2 = ROk (last, ty, dsize, csize) ->
  0 <= dsize <= MAX_BLOCK_SIZE /\ 0 <= csize <= MAX_BLOCK_SIZE /\ 0 <= ty <= 2.
Proof.
  intros H0 H1 H2 H. unfold read_block_header in H.
  rewrite block_type_field in H by assumption. cbn [rbind] in H.
  destruct ((b0 / 2) mod 4 =? 3) eqn:E3; [discriminate|].
  unfold block_content_size in H. rewrite block_size_field in H by assumption.
  destruct ((b0 + 256 * b1 + 65536 * b2) / 8 >? MAX_BLOCK_SIZE) eqn:Eg; [discriminate|]. cbn [rbind] in H.
  rewrite max_block_size_val in *.
  assert (0 <= (b0 + 256 * b1 + 65536 * b2) / 8) as Hsz by (apply Z.div_pos; lia).
  pose proof (Z.mod_pos_bound (b0 / 2) 4 ltac:(lia)) as Ht.
  set (t := (b0 / 2) mod 4) in *. set (sz := (b0 + 256 * b1 + 65536 * b2) / 8) in *.
  inversion H; subst.
  destruct (Z.eqb_spec t 0); destruct (Z.eqb_spec t 1); cbn [orb]; lia.
Qed.

(** *** the block loop of [decode_blocks] *)
Definition st_ok (s : fstate) : Prop := scratch_ok (fr_scratch s).

Lemma bytes_ok_nth src i : bytes_ok src = true -> 0 <= nth_z src i < 256.
Proof.
  unfold bytes_ok, nth_z. intros H. rewrite forallb_forall in H.
  destruct (Nat.lt_ge_cases (Z.to_nat i) (length src)) as [L|L].
  - specialize (H _ (nth_In src 0 L)). unfold byte_ok in H. lia.
  - rewrite nth_overflow by exact L. lia.
Qed.
Lemma bytes_ok_app a b : bytes_ok (a ++ b) = true -> bytes_ok a = true /\ bytes_ok b = true.
Proof. unfold bytes_ok. rewrite forallb_app. intros H. apply andb_true_iff in H. exact H. Qed.

Lemma read_block_header_src_spec src last ty dsize csize rest :
  bytes_ok src = true -> read_block_header_src src = ROk (last, ty, dsize, csize, rest) ->
  0 <= dsize <= MAX_BLOCK_SIZE /\ 0 <= csize <= MAX_BLOCK_SIZE /\ 0 <= ty <= 2 /\
  Z.of_nat (length src) = 3 + Z.of_nat (length rest) /\ bytes_ok rest = true.
Proof.
  intros B H. unfold read_block_header_src in H.
  destruct (read_exact 3 src) as [[hb r]|] eqn:Er; [|discriminate].
  destruct (read_exact_spec 3 src hb r ltac:(lia) Er) as [-> Lh].
  destruct (bytes_ok_app _ _ B) as [Bh Br].
  bind_inv H. destruct a as [[[l t] d] c]. inversion H; subst.
  destruct (read_block_header_sizes _ _ _ _ _ _ _ (bytes_ok_nth hb 0 Bh) (bytes_ok_nth hb 1 Bh) (bytes_ok_nth hb 2 Bh) E)
    as (A1 & A2 & A3).
  repeat split; try lia; try assumption. rewrite app_length. lia.
Qed.

Definition strat_bound (strat : strategy) (s : fstate) (len_before blocks_before : Z) : Z :=
  match strat with
  | SAll => -1
  | SUptoBytes n => Z.max (db_len (st_buf s)) (len_before + n) + MAX_BLOCK_SIZE
  | SUptoBlocks k => db_len (st_buf s) + MAX_BLOCK_SIZE * Z.max 1 (k - (fr_blocks s - blocks_before))
  end.

Theorem decode_blocks_loop_inv fuel : forall s src strat len_before blocks_before s' rest,
  st_ok s -> bytes_ok src = true ->
  decode_blocks_loop fuel s src strat len_before blocks_before = ROk (s', rest) ->
  st_ok s' /\ db_same_meta (st_buf s) (st_buf s') /\ fr_header s' = fr_header s /\
  fr_bytes_read s' - fr_bytes_read s = Z.of_nat (length src) - Z.of_nat (length rest) /\
  db_len (st_buf s) <= db_len (st_buf s') /\ fr_blocks s < fr_blocks s' /\
  (strat <> SAll -> db_len (st_buf s') <= strat_bound strat s len_before blocks_before).
Proof.
  induction fuel as [|f IH]; intros s src strat lb bb s' rest Hs B H; cbn [decode_blocks_loop] in H; [discriminate|].
  bind_inv H. destruct a as [[[[last ty] dsize] csize] src1].
  destruct (read_block_header_src_spec _ _ _ _ _ _ B E) as (Hd & Hc & Hty & Hl1 & B1).
  bind_inv H. destruct a as [[sc nbytes] src2].
  cbn [set_scratch fr_scratch] in E0.
  destruct (decode_block_content_inv _ _ _ _ _ _ _ _ Hs Hd (proj1 Hc) E0) as (S1 & M1 & G1 & Hn & (cons_ & Hsplit & Hcl)).
  assert (bytes_ok src2 = true) as B2 by (rewrite Hsplit in B1; apply (bytes_ok_app _ _ B1)).
  assert (Z.of_nat (length src1) = nbytes + Z.of_nat (length src2)) as Hl2 by (rewrite Hsplit, app_length; lia).
  set (s1 := set_scratch (set_scratch s (fr_scratch s) 3 0) sc nbytes 1) in *.
  assert (st_ok s1 /\ st_buf s1 = sc_buf sc /\ fr_header s1 = fr_header s /\
          fr_bytes_read s1 = fr_bytes_read s + 3 + nbytes /\ fr_blocks s1 = fr_blocks s + 1 /\
          checksum_flag s1 = checksum_flag s) as (Hs1 & Hb1 & Hh1 & Hr1 & Hk1 & Hc1).
  { unfold s1, st_ok, st_buf, set_scratch, checksum_flag. cbn. repeat split; try apply S1; lia. }
  unfold st_buf in *.
  destruct last.
  - assert (forall bytes ck, let s2 := finish s1 bytes ck in
        st_ok s2 /\ st_buf s2 = sc_buf sc /\ fr_header s2 = fr_header s /\ fr_bytes_read s2 = fr_bytes_read s1 + bytes /\
        fr_blocks s2 = fr_blocks s1) as HF.
    { intros. unfold s2, finish, st_ok, st_buf. cbn. repeat split; try apply Hs1; try assumption. }
    assert (strat <> SAll -> db_len (sc_buf sc) <= strat_bound strat s lb bb) as HB.
    { intros NS. unfold strat_bound, st_buf. destruct strat; [exfalso; apply NS; reflexivity| |]; rewrite ?max_block_size_val in *; lia. }
    destruct (checksum_flag s1).
    + destruct (read_exact 4 src2) as [[ck src3]|] eqn:Ec; [|discriminate].
      injection H as Hs' Hrest. subst s' rest.
      destruct (read_exact_spec 4 src2 ck src3 ltac:(lia) Ec) as [Hsp Lck].
      assert (Z.of_nat (length src2) = 4 + Z.of_nat (length src3)) as Hl3 by (rewrite Hsp, app_length; lia).
      destruct (HF 4 (Some (le_val ck))) as (F1 & F2 & F3 & F4 & F5). unfold st_buf in *.
      rewrite F2, F3, F4, F5.
      split; [exact F1|]. split; [exact M1|]. split; [reflexivity|]. split; [lia|]. split; [lia|]. split; [lia|]. exact HB.
    + injection H as Hs' Hrest. subst s' rest.
      destruct (HF 0 (fr_checksum s)) as (F1 & F2 & F3 & F4 & F5). unfold st_buf in *.
      rewrite F2, F3, F4, F5.
      split; [exact F1|]. split; [exact M1|]. split; [reflexivity|]. split; [lia|]. split; [lia|]. split; [lia|]. exact HB.
  - match type of H with (if ?c then _ else _) = _ => destruct c eqn:Estop end.
    + injection H as Hs' Hrest. subst s' rest. unfold st_buf. rewrite Hb1, Hh1, Hr1, Hk1.
      split; [exact Hs1|]. split; [exact M1|]. split; [reflexivity|]. split; [lia|]. split; [lia|]. split; [lia|].
      intros NS. unfold strat_bound, st_buf. destruct strat; [exfalso; apply NS; reflexivity| |]; rewrite ?max_block_size_val in *; lia.
    + destruct (IH _ _ _ _ _ _ _ Hs1 B2 H) as (I1 & I2 & I3 & I4 & I5 & I6 & I7).
      unfold st_buf in *. rewrite Hb1 in *.
      split; [exact I1|]. split; [eapply same_meta_trans; eassumption|]. split; [congruence|].
      split; [lia|]. split; [lia|]. split; [lia|].
      intros NS. specialize (I7 NS). unfold strat_bound, st_buf in *. rewrite Hb1, Hk1 in I7.
      destruct strat; [exfalso; apply NS; reflexivity| |]; rewrite ?max_block_size_val in *; lia.
Qed.
