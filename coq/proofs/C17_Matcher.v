(** C17: the built-in match finder.  For every state satisfying the invariant [MInv] (base offsets are the
    distances between entry starts, stored indices lie before the current position / inside their entry, the window
    size is the sum of the entry sizes and at most the maximum) every operation keeps the invariant and never
    panics; the sequences reported for a block, executed with the decoder's own LZ77 copy [lz_copy] on the retained
    data, reproduce exactly the block; every distance is at most the advertised window and the retained data.
    Nothing here depends on the hash function ([hkey] is never unfolded). *)
Require Import Zrs.lib.RsPrelude Zrs.model.BlockDec Zrs.model.Matcher Zrs.proofs.C06_Drain Zrs.proofs.C09_Lz.
Open Scope nat_scope.

(** *** list facts *)
Lemma common_prefix_spec a : forall b, common_prefix a b <= length a /\ common_prefix a b <= length b /\
  firstn (common_prefix a b) a = firstn (common_prefix a b) b.
Proof.
  induction a as [|x a IH]; intros [|y b]; cbn [common_prefix length firstn]; try (repeat split; lia).
  destruct (Z.eqb_spec x y) as [->|Hne]; cbn [firstn]; [|repeat split; lia].
  destruct (IH b) as (A & B & C). repeat split; try lia. f_equal. exact C.
Qed.

Lemma lz_copy_fwd ml off (h : list Z) : ml <= off -> off <= length h ->
  rev (lz_copy ml off (rev h)) = h ++ firstn ml (skipn (length h - off) h).
Proof.
  intros H1 H2. rewrite lz_copy_short by (rewrite ?rev_length; lia).
  rewrite rev_app_distr, rev_involutive. f_equal.
  rewrite skipn_rev, firstn_rev, rev_involutive, firstn_length.
  replace (Nat.min (length h - (off - ml)) (length h) - ml) with (length h - off) by lia.
  rewrite firstn_skipn_comm. f_equal. f_equal. lia.
Qed.

(** *** sequences executed on a history (oldest byte first), with the decoder's copy *)
Definition apply_seq (h : list Z) (s : mseq) : option (list Z) :=
  match s with
  | MLit l => Some (h ++ l)
  | MTriple l off ml =>
      let h1 := h ++ l in
      if (1 <=? off) && (off <=? length h1) then Some (rev (lz_copy ml off (rev h1))) else None
  end.
Fixpoint apply_seqs (h : list Z) (l : list mseq) : option (list Z) :=
  match l with
  | [] => Some h
  | s :: t => match apply_seq h s with Some h' => apply_seqs h' t | None => None end
  end.

Lemma apply_seqs_app h l1 l2 : apply_seqs h (l1 ++ l2) = match apply_seqs h l1 with Some h' => apply_seqs h' l2 | None => None end.
Proof. revert h. induction l1 as [|s t IH]; intros h; cbn [apply_seqs app]; [reflexivity|]. destruct (apply_seq h s); [apply IH|reflexivity]. Qed.

(** what a reported match must satisfy: minimum length, distance within the window size and the data before the
    match position *)
Definition seq_bounds (maxw : nat) (s : mseq) : Prop :=
  match s with MLit _ => True | MTriple _ off ml => 1 <= off /\ off <= maxw /\ MIN_MATCH <= ml end.

(** *** window bookkeeping *)
Fixpoint total_len (l : list wentry) : nat := match l with [] => 0 | e :: t => length (we_data e) + total_len t end.
Definition older_fwd (older : list wentry) : list Z := concat (rev (map we_data older)).

Lemma total_len_app a b : total_len (a ++ b) = total_len a + total_len b.
Proof. induction a as [|x a IH]; cbn [total_len app]; lia. Qed.
Lemma total_len_rev a : total_len (rev a) = total_len a.
Proof. induction a as [|x a IH]; cbn [total_len rev]; [reflexivity|]. rewrite total_len_app. cbn [total_len]. lia. Qed.
Lemma older_fwd_length l : length (older_fwd l) = total_len l.
Proof.
  unfold older_fwd. induction l as [|e t IH]; cbn [map rev total_len]; [reflexivity|].
  rewrite concat_app, app_length, IH. cbn [concat]. rewrite app_nil_r. lia.
Qed.
Lemma older_fwd_split pre e post : older_fwd (pre ++ e :: post) = older_fwd post ++ we_data e ++ older_fwd pre.
Proof.
  unfold older_fwd. rewrite map_app, rev_app_distr. cbn [map rev]. rewrite concat_app, concat_app. cbn [concat].
  rewrite app_nil_r, <- app_assoc. reflexivity.
Qed.

(** base offsets: each entry's base is the previous (newer) entry's base plus its own length *)
Fixpoint bases_ok (base : nat) (older : list wentry) : Prop :=
  match older with
  | [] => True
  | e :: t => we_base e = base + length (we_data e) /\ bases_ok (we_base e) t
  end.

Lemma bases_ok_split pre : forall b e post, bases_ok b (pre ++ e :: post) -> we_base e = b + total_len pre + length (we_data e).
Proof.
  induction pre as [|x pre IH]; intros b e post H; cbn [app bases_ok total_len] in *.
  - destruct H as [H _]. lia.
  - destruct H as [Hx H]. rewrite (IH _ _ _ H), Hx. lia.
Qed.
Lemma bases_ok_prefix pre : forall b post, bases_ok b (pre ++ post) -> bases_ok b pre.
Proof.
  induction pre as [|x pre IH]; intros b post H; cbn [app bases_ok] in *; [exact I|].
  destruct H as [Hx H]. split; [exact Hx|]. eapply IH. exact H.
Qed.
Lemma bases_ok_shift n l : forall b, bases_ok b l -> bases_ok (b + n) (map (add_base n) l).
Proof.
  induction l as [|x l IH]; intros b H; cbn [map bases_ok] in *; [exact I|].
  destruct H as [Hx H]. cbn [add_base we_base we_data]. split; [lia|]. rewrite Hx in *.
  replace (b + length (we_data x) + n) with (b + length (we_data x) + n) by reflexivity. apply IH. exact H.
Qed.

Definition store_lt (bound : nat) (s : sstore) : Prop := forall k i, ss_get s k = Some i -> i < bound.
Definition store_le (bound : nat) (s : sstore) : Prop := forall k i, ss_get s k = Some i -> i <= bound.
Definition store_empty (s : sstore) : Prop := forall k, ss_get s k = None.

Lemma store_lt_le b s : store_lt b s -> store_le b s.
Proof. intros H k i E. specialize (H k i E). lia. Qed.
Lemma store_lt_mono b b' s : b <= b' -> store_lt b s -> store_lt b' s.
Proof. intros L H k i E. specialize (H k i E). lia. Qed.
Lemma store_empty_lt b s : store_empty s -> store_lt b s.
Proof. intros H k i E. rewrite H in E. discriminate. Qed.
Lemma ss_new_empty c : store_empty (ss_new c).
Proof. intros k. reflexivity. Qed.

Lemma insert_lt b s key i : store_lt b s -> i < b -> store_lt b (ss_insert_if_absent s key i).
Proof.
  intros H Hi. unfold ss_insert_if_absent. destruct (ss_get s (ss_key s key)) eqn:E; [exact H|].
  intros k j. cbn [ss_get]. destruct (Z.eqb k (ss_key s key)); [intros [= <-]; exact Hi|apply H].
Qed.

Lemma add_suf_lt cnt : forall slice pos s b, store_lt b s -> pos + cnt <= b -> store_lt b (add_suf cnt slice pos s).
Proof.
  induction cnt as [|c IH]; intros slice pos s b H Hb; cbn [add_suf]; [exact H|].
  destruct slice as [|x t]; [exact H|]. apply IH; [apply insert_lt; [exact H|lia]|lia].
Qed.

(** *** the invariant *)
Definition MInv (st : mg) : Prop :=
  mg_wsize st = total_len (mg_win st) /\ mg_wsize st <= mg_max st /\
  match mg_win st with
  | [] => True
  | e0 :: older =>
      we_base e0 = 0 /\ bases_ok 0 older /\ store_lt (mg_sidx st) (we_suf e0) /\
      Forall (fun e => store_le (length (we_data e)) (we_suf e)) older /\
      mg_last st <= mg_sidx st /\ mg_sidx st <= length (we_data e0)
  end.

(** a candidate (offset, length) at position [sidx] of the current entry: [H] is everything retained before the
    position, [cur] the rest of the block *)
Definition good_match (H cur : list Z) (wsize : nat) (c : nat * nat) : Prop :=
  let '(off, ml) := c in
  MIN_MATCH <= ml /\ ml <= off /\ off <= length H /\ off <= wsize /\ ml <= length cur /\
  firstn ml (skipn (length H - off) H) = firstn ml cur.
Definition good_opt (H cur : list Z) (wsize : nat) (c : option (nat * nat)) : Prop :=
  match c with None => True | Some x => good_match H cur wsize x end.

Lemma cand_better_good H cur w c off ml : good_opt H cur w c -> good_match H cur w (off, ml) ->
  good_opt H cur w (cand_better c off ml).
Proof.
  intros Hc Hn. unfold cand_better. destruct c as [[o m]|]; [|exact Hn].
  destruct ((m <? ml) || ((ml =? m) && (off <? o))); [exact Hn|exact Hc].
Qed.

(** the current entry as a source *)
Lemma entry_cand_current e0 older sidx cur :
  store_lt sidx (we_suf e0) -> we_base e0 = 0 -> sidx <= length (we_data e0) -> cur = skipn sidx (we_data e0) ->
  exists r, entry_cand true e0 sidx cur = ROk r /\
            good_opt (older_fwd older ++ firstn sidx (we_data e0)) cur (total_len (e0 :: older)) r.
Proof.
  intros Hs Hb Hl Hc. unfold entry_cand.
  destruct (ss_lookup (we_suf e0) (firstn MIN_MATCH cur)) as [mi|] eqn:E; [|eexists; split; [reflexivity|exact I]].
  assert (Hmi : mi < sidx) by (apply (Hs _ _ E)).
  cbn [andb]. destruct (Nat.ltb_spec sidx mi) as [|_]; [lia|].
  destruct (Nat.ltb_spec (length (we_data e0)) mi) as [|_]; [lia|].
  remember (we_data e0) as d eqn:Hd.
  remember (firstn (sidx - mi) (skipn mi d)) as ms eqn:Hms.
  destruct (common_prefix_spec ms cur) as (L1 & L2 & Eq). remember (common_prefix ms cur) as ml eqn:Hml.
  destruct (Nat.leb_spec MIN_MATCH ml) as [Hmin|_]; [|eexists; split; [reflexivity|exact I]].
  eexists. split; [reflexivity|]. cbn [good_opt good_match].
  assert (Lms : length ms = sidx - mi) by (subst ms; rewrite firstn_length, skipn_length; lia).
  rewrite Hb. cbn [Nat.add].
  rewrite app_length, older_fwd_length, firstn_length, Nat.min_l by lia. cbn [total_len]. rewrite <- ?Hd.
  repeat split; try lia.
  replace (total_len older + sidx - (sidx - mi)) with (total_len older + mi) by lia.
  rewrite skipn_app, older_fwd_length, skipn_all2 by (rewrite older_fwd_length; lia). cbn [app].
  replace (total_len older + mi - total_len older) with mi by lia.
  rewrite skipn_firstn_comm, <- Hms. exact Eq.
Qed.

(** an older entry as a source *)
Lemma entry_cand_older e0 pre e post sidx cur :
  bases_ok 0 (pre ++ e :: post) -> store_le (length (we_data e)) (we_suf e) -> sidx <= length (we_data e0) ->
  exists r, entry_cand false e sidx cur = ROk r /\
            good_opt (older_fwd (pre ++ e :: post) ++ firstn sidx (we_data e0)) cur (total_len (e0 :: pre ++ e :: post)) r.
Proof.
  intros Hb Hs Hl. unfold entry_cand.
  destruct (ss_lookup (we_suf e) (firstn MIN_MATCH cur)) as [mi|] eqn:E; [|eexists; split; [reflexivity|exact I]].
  assert (Hmi : mi <= length (we_data e)) by (apply (Hs _ _ E)).
  cbn [andb]. destruct (Nat.ltb_spec (length (we_data e)) mi) as [|_]; [lia|].
  remember (we_data e) as d eqn:Hd. remember (skipn mi d) as ms eqn:Hms.
  destruct (common_prefix_spec ms cur) as (L1 & L2 & Eq). remember (common_prefix ms cur) as ml eqn:Hml.
  destruct (Nat.leb_spec MIN_MATCH ml) as [Hmin|_]; [|eexists; split; [reflexivity|exact I]].
  eexists. split; [reflexivity|]. cbn [good_opt good_match].
  assert (Lms : length ms = length d - mi) by (subst ms; rewrite skipn_length; lia).
  rewrite (bases_ok_split _ _ _ _ Hb), <- Hd. cbn [Nat.add].
  rewrite older_fwd_split, <- Hd.
  rewrite !app_length, !older_fwd_length, firstn_length, Nat.min_l by lia.
  cbn [total_len]. rewrite total_len_app. cbn [total_len]. rewrite <- Hd.
  repeat split; try lia.
  replace (total_len post + (length d + total_len pre) + sidx - (total_len pre + length d + sidx - mi))
    with (total_len post + mi) by lia.
  rewrite <- !app_assoc.
  rewrite skipn_app, older_fwd_length, skipn_all2 by (rewrite older_fwd_length; lia). cbn [app].
  replace (total_len post + mi - total_len post) with mi by lia.
  rewrite skipn_app, <- Hms, firstn_app.
  replace (ml - length ms) with 0 by lia. cbn [firstn]. rewrite app_nil_r. exact Eq.
Qed.

Lemma find_cand_good H cur w sidx es : forall c,
  (forall b e, In (b, e) es -> exists r, entry_cand b e sidx cur = ROk r /\ good_opt H cur w r) ->
  good_opt H cur w c ->
  exists c', find_cand es sidx cur c = ROk c' /\ good_opt H cur w c'.
Proof.
  induction es as [|[b e] t IH]; intros c Hes Hc; cbn [find_cand].
  - eexists. split; [reflexivity|exact Hc].
  - destruct (Hes b e (or_introl eq_refl)) as (r & Er & Gr). rewrite Er.
    assert (Ht : forall b0 e1, In (b0, e1) t -> exists r0, entry_cand b0 e1 sidx cur = ROk r0 /\ good_opt H cur w r0)
      by (intros; apply Hes; right; assumption).
    destruct r as [[o m]|]; [|apply IH; assumption].
    apply IH; [exact Ht|]. apply cand_better_good; assumption.
Qed.

Lemma tagged_in e0 older b e : In (b, e) (tagged (e0 :: older)) -> (b = true /\ e = e0) \/ (b = false /\ In e older).
Proof.
  unfold tagged. rewrite in_app_iff, <- in_rev, in_map_iff. intros [(x & [= <- <-] & Hx)|[[= <- <-]|[]]].
  - right. split; [reflexivity|exact Hx].
  - left. split; reflexivity.
Qed.

Lemma find_cand_window st e0 older cur :
  MInv st -> mg_win st = e0 :: older -> cur = skipn (mg_sidx st) (we_data e0) ->
  exists c, find_cand (tagged (mg_win st)) (mg_sidx st) cur None = ROk c /\
            good_opt (older_fwd older ++ firstn (mg_sidx st) (we_data e0)) cur (mg_wsize st) c.
Proof.
  intros (Hw & Hmax & Hi) Ewin Hcur. rewrite Ewin in *. destruct Hi as (B0 & Bs & S0 & Ss & L1 & L2).
  rewrite Hw. apply find_cand_good; [|exact I].
  intros b e Hin. destruct (tagged_in _ _ _ _ Hin) as [[-> ->]|[-> Hin']].
  - apply entry_cand_current; assumption.
  - destruct (in_split _ _ Hin') as (pre & post & ->).
    apply entry_cand_older; [exact Bs| |exact L2].
    rewrite Forall_forall in Ss. apply Ss. exact Hin'.
Qed.

(** *** next_sequence *)
Definition win_data (st : mg) : list (list Z) := map we_data (mg_win st).
Definition win_bases (st : mg) : list nat := map we_base (mg_win st).

Lemma add_suffixes_till_ok e sidx idx : sidx <= idx -> idx <= length (we_data e) -> store_lt sidx (we_suf e) ->
  exists e', add_suffixes_till e sidx idx = ROk e' /\ we_data e' = we_data e /\ we_base e' = we_base e /\
             store_lt idx (we_suf e').
Proof.
  intros H1 H2 Hs. unfold add_suffixes_till.
  destruct (Nat.ltb_spec (length (we_data e)) MIN_MATCH) as [_|_].
  - eexists. repeat split. eapply store_lt_mono; [|exact Hs]. exact H1.
  - destruct (Nat.ltb_spec idx sidx) as [|_]; [lia|]. destruct (Nat.ltb_spec (length (we_data e)) idx) as [|_]; [lia|].
    cbn [orb]. eexists. split; [reflexivity|]. cbn [we_data we_base we_suf]. repeat split.
    apply add_suf_lt; [eapply store_lt_mono; [|exact Hs]; exact H1|].
    rewrite firstn_length, skipn_length. unfold MIN_MATCH. lia.
Qed.

(** result of one [next_sequence] call, in terms of the history: [older] then the first [last] bytes of the block *)
Definition seq_result (st st' : mg) (r : option mseq) : Prop :=
  match mg_win st with
  | [] => False
  | e0 :: older =>
      let d := we_data e0 in
      match r with
      | None => mg_last st = length d /\ st' = st
      | Some sq =>
          apply_seq (older_fwd older ++ firstn (mg_last st) d) sq = Some (older_fwd older ++ firstn (mg_last st') d) /\
          mg_last st < mg_last st' /\ seq_bounds (mg_wsize st) sq
      end
  end.

Definition same_frame (st st' : mg) : Prop :=
  win_data st' = win_data st /\ win_bases st' = win_bases st /\ mg_max st' = mg_max st /\ mg_wsize st' = mg_wsize st /\
  tl (mg_win st') = tl (mg_win st).

Lemma same_frame_refl st : same_frame st st.
Proof. repeat split. Qed.
Lemma same_frame_trans a b c : same_frame a b -> same_frame b c -> same_frame a c.
Proof. intros (A1 & A2 & A3 & A4 & A5) (B1 & B2 & B3 & B4 & B5). repeat split; congruence. Qed.

Lemma next_seq_spec fuel : forall st e0 older,
  MInv st -> mg_win st = e0 :: older -> length (we_data e0) - mg_sidx st < fuel ->
  exists r st', next_seq fuel st = ROk (r, st') /\ MInv st' /\ same_frame st st' /\ seq_result st st' r /\
                mg_last st' = mg_sidx st' /\ (r <> None -> mg_sidx st' <= length (we_data e0)) /\
                (r = None -> mg_sidx st = length (we_data e0)).
Proof.
  induction fuel as [|f IH]; intros st e0 older HI Ewin Hf; [lia|].
  pose proof HI as (Hw & Hmax & Hi). rewrite Ewin in Hi. destruct Hi as (B0 & Bs & S0 & Ss & L1 & L2).
  cbn [next_seq]. rewrite Ewin.
  remember (we_data e0) as d eqn:Hd. remember (mg_sidx st) as sidx eqn:Hsidx. remember (mg_last st) as last eqn:Hlast.
  destruct (Nat.leb_spec (length d) sidx) as [Hend|Hmore].
  - (* the block is exhausted *)
    assert (sidx = length d) by lia.
    destruct (Nat.eqb_spec last sidx) as [Heq|Hne]; cbn [negb].
    + exists None, st. split; [reflexivity|]. split; [exact HI|]. split; [apply same_frame_refl|].
      split; [unfold seq_result; rewrite Ewin, <- Hd; split; [lia|reflexivity]|].
      split; [lia|]. split; [congruence|intros _; lia].
    + destruct (Nat.ltb_spec (length d) last) as [|_]; [lia|].
      eexists _, _. split; [reflexivity|].
      split.
      { unfold MInv, set_cur. cbn [mg_wsize mg_win mg_max mg_sidx mg_last]. rewrite <- Ewin at 1.
        split; [exact Hw|]. split; [exact Hmax|]. repeat split; try assumption; rewrite <- ?Hd; lia. }
      split; [unfold same_frame, win_data, win_bases, set_cur; cbn; rewrite Ewin; repeat split|].
      split.
      { unfold seq_result. rewrite Ewin, <- Hd, <- Hlast. unfold set_cur. cbn [mg_last mg_wsize apply_seq seq_bounds].
        split; [|split; [lia|exact I]].
        rewrite <- app_assoc. f_equal. f_equal. subst sidx. rewrite H, firstn_all, firstn_skipn. reflexivity. }
      unfold set_cur; cbn [mg_last mg_sidx]. split; [reflexivity|]. split; [intros _; lia|discriminate].
  - remember (skipn sidx d) as cur eqn:Hcur.
    assert (Lcur : length cur = length d - sidx) by (subst cur; apply skipn_length).
    destruct (Nat.ltb_spec (length cur) MIN_MATCH) as [Hshort|Hlong].
    + (* fewer than 5 bytes left *)
      destruct (Nat.ltb_spec (length d) last) as [|_]; [lia|].
      eexists _, _. split; [reflexivity|].
      split.
      { unfold MInv, set_cur. cbn [mg_wsize mg_win mg_max mg_sidx mg_last]. rewrite <- Ewin at 1.
        split; [exact Hw|]. split; [exact Hmax|]. repeat split; try assumption; rewrite <- ?Hd; try lia.
        eapply store_lt_mono; [|exact S0]. lia. }
      split; [unfold same_frame, win_data, win_bases, set_cur; cbn; rewrite Ewin; repeat split|].
      split.
      { unfold seq_result. rewrite Ewin, <- Hd, <- Hlast. unfold set_cur. cbn [mg_last mg_wsize apply_seq seq_bounds].
        split; [|split; [lia|exact I]].
        rewrite <- app_assoc. f_equal. f_equal. rewrite firstn_all, firstn_skipn. reflexivity. }
      unfold set_cur; cbn [mg_last mg_sidx]. split; [reflexivity|]. split; [intros _; lia|discriminate].
    + destruct (find_cand_window st e0 older cur HI Ewin) as (c & Ec & Gc); [subst; reflexivity|].
      rewrite <- Hsidx in Ec, Gc. rewrite <- Hd in Gc. rewrite Ewin in Ec. rewrite Ec.
      destruct c as [[off ml]|].
      * (* a match *)
        cbn [good_opt good_match] in Gc. destruct Gc as (G1 & G2 & G3 & G4 & G5 & G6).
        destruct (add_suffixes_till_ok e0 sidx (sidx + ml)) as (e0' & Ea & Da & Ba & Sa); [lia|rewrite <- Hd; lia|exact S0|].
        rewrite Ea. cbn [rbind]. destruct (Nat.ltb_spec sidx last) as [|_]; [lia|].
        eexists _, _. split; [reflexivity|].
        split.
        { unfold MInv, set_cur. cbn [mg_wsize mg_win mg_max mg_sidx mg_last total_len]. rewrite Da, <- Hd.
          split; [rewrite Hw, Ewin; cbn [total_len]; rewrite <- Hd; reflexivity|]. split; [exact Hmax|].
          rewrite Ba. repeat split; try assumption; rewrite <- ?Hd; try lia. }
        split; [unfold same_frame, win_data, win_bases, set_cur; cbn; rewrite Ewin; cbn [map tl]; rewrite Da, Ba; repeat split|].
        split.
        { unfold seq_result. rewrite Ewin, <- Hd, <- Hlast. unfold set_cur. cbn [mg_last mg_wsize apply_seq seq_bounds].
          rewrite app_length, older_fwd_length, firstn_length in G3. rewrite Nat.min_l in G3 by lia.
          assert (Hh : (older_fwd older ++ firstn last d) ++ firstn (sidx - last) (skipn last d) = older_fwd older ++ firstn sidx d).
          { rewrite <- app_assoc. f_equal.
            symmetry. rewrite <- (firstn_skipn last (firstn sidx d)) at 1. rewrite firstn_firstn, Nat.min_l by lia.
            f_equal. rewrite skipn_firstn_comm. reflexivity. }
          rewrite Hh.
          rewrite app_length, older_fwd_length, firstn_length, Nat.min_l by lia.
          destruct (Nat.leb_spec 1 off) as [_|]; [|unfold MIN_MATCH in *; lia].
          destruct (Nat.leb_spec off (total_len older + sidx)) as [_|]; [|lia]. cbn [andb].
          split; [|split; [unfold MIN_MATCH in *; lia|unfold MIN_MATCH in *; lia]].
          f_equal. rewrite lz_copy_fwd by (rewrite ?app_length, ?older_fwd_length, ?firstn_length; lia).
          rewrite G6, <- app_assoc. f_equal.
          rewrite Hcur. symmetry. rewrite <- (firstn_skipn sidx (firstn (sidx + ml) d)) at 1.
          rewrite firstn_firstn, Nat.min_l by lia. f_equal.
          rewrite skipn_firstn_comm. f_equal. lia. }
        unfold set_cur; cbn [mg_last mg_sidx]. split; [reflexivity|]. split; [intros _; lia|discriminate].
      * (* no match at this position: register it and go on *)
        set (e0' := {| we_data := d; we_suf := ss_insert_if_absent (we_suf e0) (firstn MIN_MATCH cur) sidx; we_base := we_base e0 |}).
        set (st1 := set_cur st e0' older (S sidx) last).
        assert (HI1 : MInv st1).
        { unfold MInv, st1, set_cur. cbn [mg_wsize mg_win mg_max mg_sidx mg_last total_len e0' we_data we_suf we_base].
          split; [rewrite Hw, Ewin; cbn [total_len]; rewrite <- Hd; reflexivity|]. split; [exact Hmax|].
          repeat split; try assumption; rewrite <- ?Hd; try lia.
          apply insert_lt; [eapply store_lt_mono; [|exact S0]; lia|lia]. }
        destruct (IH st1 e0' older HI1 eq_refl) as (r & st' & En & HI' & SF & SR & Hls & Hb1 & Hb2).
        { unfold st1, set_cur, e0'. cbn [mg_sidx we_data]. lia. }
        fold e0'. fold st1. rewrite En.
        exists r, st'. split; [reflexivity|]. split; [exact HI'|].
        assert (SF1 : same_frame st st1) by (unfold same_frame, win_data, win_bases, st1, set_cur, e0'; cbn; rewrite Ewin, Hd; repeat split).
        split; [eapply same_frame_trans; eassumption|].
        split.
        { unfold seq_result in *. rewrite Ewin. unfold st1, set_cur in SR. cbn [mg_win mg_last mg_wsize e0' we_data] in SR.
          rewrite <- Hd, <- Hlast. destruct r as [sq|]; [exact SR|]. destruct SR as [SR1 SR2].
          unfold e0' in Hb2. cbn [we_data] in Hb2. specialize (Hb2 eq_refl). unfold st1, set_cur in Hb2. cbn [mg_sidx] in Hb2. unfold MIN_MATCH in *. lia. }
        split; [exact Hls|]. unfold e0' in Hb1, Hb2. cbn [we_data] in Hb1, Hb2.
        split; [exact Hb1|]. intros Hr. specialize (Hb2 Hr). unfold st1, set_cur in Hb2. cbn [mg_sidx] in Hb2. unfold MIN_MATCH in *. lia.
Qed.

(** *** start_matching: the sequences of a block reproduce the block *)
Lemma start_loop_spec fuel : forall st e0 older acc,
  MInv st -> mg_win st = e0 :: older -> length (we_data e0) - mg_last st < fuel ->
  (mg_last st = mg_sidx st \/ mg_last st < length (we_data e0)) ->
  exists seqs st', start_loop fuel st acc = ROk (rev acc ++ seqs, st') /\ MInv st' /\ same_frame st st' /\
    apply_seqs (older_fwd older ++ firstn (mg_last st) (we_data e0)) seqs = Some (older_fwd older ++ we_data e0) /\
    Forall (seq_bounds (mg_wsize st)) seqs /\
    mg_sidx st' = length (we_data e0) /\ mg_last st' = length (we_data e0).
Proof.
  induction fuel as [|f IH]; intros st e0 older acc HI Ewin Hf Hl; [lia|].
  cbn [start_loop]. rewrite Ewin.
  destruct (next_seq_spec (S (length (we_data e0) - mg_sidx st)) st e0 older HI Ewin) as (r & st1 & En & HI1 & SF1 & SR & Hls & Hb1 & Hb2); [lia|].
  rewrite En. cbn [rbind].
  unfold seq_result in SR. rewrite Ewin in SR.
  destruct r as [sq|].
  - destruct SR as (Ap & Prog & Bd).
    assert (Ewin1 : exists e0', mg_win st1 = e0' :: older /\ we_data e0' = we_data e0).
    { destruct SF1 as (D1 & _ & _ & _ & T1). unfold win_data in D1. rewrite Ewin in D1, T1. cbn [map tl] in *.
      destruct (mg_win st1) as [|x t]; [discriminate|]. cbn [map tl] in *. exists x. split; [congruence|congruence]. }
    destruct Ewin1 as (e0' & Ewin1 & Hd1).
    specialize (Hb1 ltac:(discriminate)).
    destruct (IH st1 e0' older (sq :: acc) HI1 Ewin1) as (seqs & st' & El & HI' & SF' & Aps & Bds & F1 & F2).
    { rewrite Hd1. lia. }
    { left. exact Hls. }
    exists (sq :: seqs), st'. split.
    { rewrite El. cbn [rev]. rewrite <- app_assoc. reflexivity. }
    split; [exact HI'|]. split; [eapply same_frame_trans; eassumption|].
    rewrite Hd1 in *. split.
    { cbn [apply_seqs]. rewrite Ap. exact Aps. }
    split; [|split; assumption].
    constructor; [exact Bd|]. destruct SF1 as (_ & _ & _ & W1 & _). rewrite W1 in Bds. exact Bds.
  - destruct SR as (Hlast & ->).
    exists [], st. split; [rewrite app_nil_r, rev'_rev; reflexivity|]. split; [exact HI|]. split; [apply same_frame_refl|].
    cbn [apply_seqs]. split; [rewrite Hlast, firstn_all; reflexivity|]. split; [constructor|].
    split; [apply Hb2; reflexivity|exact Hlast].
Qed.

Theorem start_matching_spec st e0 older :
  MInv st -> mg_win st = e0 :: older -> mg_last st = mg_sidx st ->
  exists seqs st', start_matching st = ROk (seqs, st') /\ MInv st' /\ same_frame st st' /\
    apply_seqs (older_fwd older ++ firstn (mg_last st) (we_data e0)) seqs = Some (older_fwd older ++ we_data e0) /\
    Forall (seq_bounds (mg_wsize st)) seqs /\
    mg_sidx st' = length (we_data e0) /\ mg_last st' = length (we_data e0).
Proof.
  intros HI Ewin Hl. unfold start_matching. rewrite Ewin.
  destruct (start_loop_spec (S (S (length (we_data e0)))) st e0 older [] HI Ewin) as (seqs & st' & E & R); [lia|left; exact Hl|].
  exists seqs, st'. split; [exact E|exact R].
Qed.

(** *** skip_matching *)
Theorem skip_matching_spec st e0 older :
  MInv st -> mg_win st = e0 :: older ->
  exists st', skip_matching st = ROk st' /\ MInv st' /\ same_frame st st' /\
              mg_sidx st' = length (we_data e0) /\ mg_last st' = length (we_data e0).
Proof.
  intros HI Ewin. pose proof HI as (Hw & Hmax & Hi). rewrite Ewin in Hi. destruct Hi as (B0 & Bs & S0 & Ss & L1 & L2).
  unfold skip_matching. rewrite Ewin.
  destruct (add_suffixes_till_ok e0 (mg_sidx st) (length (we_data e0)) L2 (le_n _) S0) as (e0' & Ea & Da & Ba & Sa).
  rewrite Ea. cbn [rbind]. eexists. split; [reflexivity|].
  split.
  { unfold MInv, set_cur. cbn [mg_wsize mg_win mg_max mg_sidx mg_last total_len]. rewrite Da, Ba.
    split; [rewrite Hw, Ewin; reflexivity|]. split; [exact Hmax|]. repeat split; try assumption; lia. }
  split; [unfold same_frame, win_data, win_bases, set_cur; cbn; rewrite Ewin; cbn [map tl]; rewrite Da, Ba; repeat split|].
  unfold set_cur; cbn [mg_sidx mg_last]. split; reflexivity.
Qed.

(** *** add_data / reserve *)
Lemma evict_spec l : forall wsize amount max ev, wsize = total_len l -> amount <= max ->
  exists dropped kept, evict l wsize amount max ev = ROk (kept, total_len kept, ev ++ dropped) /\
                       l = dropped ++ kept /\ total_len kept + amount <= max.
Proof.
  induction l as [|o t IH]; intros wsize amount max ev Hw Ha; cbn [evict].
  - cbn [total_len] in Hw. subst wsize. destruct (Nat.ltb_spec max (0 + amount)) as [|_]; [lia|].
    exists [], []. rewrite app_nil_r. repeat split. cbn; lia.
  - destruct (Nat.ltb_spec max (wsize + amount)) as [Hover|Hfit].
    + cbn [total_len] in Hw. destruct (Nat.ltb_spec wsize (length (we_data o))) as [|_]; [lia|].
      destruct (IH (wsize - length (we_data o)) amount max (ev ++ [o])) as (dr & kept & E & Hl & Hk); [lia|exact Ha|].
      exists (o :: dr), kept. rewrite E, <- app_assoc. cbn [app]. repeat split; [rewrite Hl; reflexivity|exact Hk].
    + exists [], (o :: t). rewrite app_nil_r, <- Hw. repeat split. lia.
Qed.

Definition ready (st : mg) : Prop :=
  match mg_win st with [] => True | e0 :: _ => mg_sidx st = length (we_data e0) end.

Theorem add_data_spec st data suf :
  MInv st -> ready st -> length data <= mg_max st -> store_empty suf ->
  exists st' evicted kept,
    add_data st data suf = ROk (st', evicted) /\ MInv st' /\ mg_max st' = mg_max st /\
    mg_win st = kept ++ rev evicted /\
    map we_data (mg_win st') = data :: map we_data kept /\
    mg_sidx st' = 0 /\ mg_last st' = 0 /\ mg_wsize st' <= mg_max st.
Proof.
  intros HI Hr Hlen Hemp. pose proof HI as (Hw & Hmax & Hi). unfold add_data.
  assert (Hready : negb (match mg_win st with [] => true | e0 :: _ => mg_sidx st =? length (we_data e0) end) = false).
  { unfold ready in Hr. destruct (mg_win st); [reflexivity|]. rewrite Hr, Nat.eqb_refl. reflexivity. }
  rewrite Hready. destruct (Nat.ltb_spec (mg_max st) (length data)) as [|_]; [lia|].
  destruct (evict_spec (rev (mg_win st)) (mg_wsize st) (length data) (mg_max st) []) as (dr & kept_of & Ee & Hl & Hk).
  { rewrite total_len_rev. exact Hw. } { exact Hlen. }
  rewrite Ee. cbn [rbind app].
  assert (Hwin : mg_win st = rev kept_of ++ rev dr).
  { rewrite <- (rev_involutive (mg_win st)), Hl, rev_app_distr. reflexivity. }
  exists (* st' *) {| mg_max := mg_max st;
     mg_win := {| we_data := data; we_suf := suf; we_base := 0 |} ::
               match rev kept_of with [] => [] | e0 :: _ => map (add_base (length (we_data e0))) (rev kept_of) end;
     mg_wsize := total_len kept_of + length data; mg_sidx := 0; mg_last := 0 |}, dr, (rev kept_of).
  split; [reflexivity|].
  assert (Hmapdata : forall n l, map we_data (map (add_base n) l) = map we_data l).
  { intros n l. rewrite map_map. reflexivity. }
  assert (Htl : forall n l, total_len (map (add_base n) l) = total_len l).
  { intros n l. induction l as [|x l IHl]; cbn [map total_len add_base we_data]; [reflexivity|]. rewrite IHl. reflexivity. }
  split.
  { unfold MInv. cbn [mg_wsize mg_win mg_max mg_sidx mg_last total_len we_data we_base we_suf].
    split.
    { destruct (rev kept_of) as [|k0 kt] eqn:Ek.
      - cbn [total_len]. rewrite <- (total_len_rev kept_of), Ek. cbn [total_len]. lia.
      - rewrite Htl, <- Ek, total_len_rev. lia. }
    split; [lia|].
    split; [reflexivity|].
    rewrite Hwin in Hi. 
    destruct (rev kept_of) as [|k0 kt] eqn:Ek.
    - repeat split; try lia; try constructor. apply store_empty_lt. exact Hemp.
    - cbn [app] in Hi. destruct Hi as (B0 & Bs & S0 & Ss & L1 & L2).
      split.
      { cbn [map bases_ok add_base we_base we_data]. split; [lia|].
        rewrite B0. cbn [Nat.add].
        pose proof (bases_ok_prefix kt 0 (rev dr) Bs) as Bk.
        apply (bases_ok_shift (length (we_data k0)) kt 0) in Bk. cbn [Nat.add] in Bk. exact Bk. }
      split; [apply store_empty_lt; exact Hemp|].
      split.
      { cbn [map]. constructor.
        - cbn [add_base we_data we_suf]. apply store_lt_le.
          unfold ready in Hr. rewrite Hwin in Hr. cbn [app] in Hr. rewrite <- Hr. exact S0.
        - rewrite Forall_forall. intros x Hx. rewrite in_map_iff in Hx. destruct Hx as (y & <- & Hy).
          cbn [add_base we_data we_suf]. rewrite Forall_forall in Ss. apply Ss. rewrite in_app_iff. left. exact Hy. }
      lia. }
  split; [reflexivity|]. split; [exact Hwin|].
  cbn [mg_win mg_sidx mg_last mg_wsize map we_data].
  split.
  { f_equal. destruct (rev kept_of) as [|k0 kt]; [reflexivity|]. apply Hmapdata. }
  repeat split. lia.
Qed.

Theorem reset_spec st : MInv st -> MInv (fst (mg_reset st)) /\ mg_win (fst (mg_reset st)) = [] /\ mg_max (fst (mg_reset st)) = mg_max st.
Proof. intros (Hw & Hmax & _). unfold mg_reset, MInv. cbn. repeat split; lia. Qed.

(** *** the driver over arbitrary histories of blocks (matched or skipped) and resets *)
Inductive mop := OpBlock (data : list Z) (skip : bool) | OpReset.

Definition mstep (d : mgd) (op : mop) : res (mgd * option (list mseq)) :=
  match op with
  | OpReset => ROk (mgd_reset d, None)
  | OpBlock data skip =>
      let* d1 := commit_space d data in
      if skip then (let* d2 := mgd_skip d1 in ROk (d2, None))
      else (let* (sq, d2) := mgd_start d1 in ROk (d2, Some sq))
  end.

(** everything the matcher still holds, oldest byte first *)
Definition retained (d : mgd) : list Z := older_fwd (mg_win (md_gen d)).
Definition DInv (d : mgd) : Prop := MInv (md_gen d) /\ ready (md_gen d).
Definition max_window (d : mgd) : nat := mg_max (md_gen d).
Definition op_fits (maxw : nat) (op : mop) : Prop := match op with OpBlock data _ => length data <= maxw | OpReset => True end.

(** what a step must deliver: [H] is the retained data before the block (a suffix of what was retained before:
    eviction only drops the oldest bytes), [H ++ data] fits the window, and the reported sequences rebuild the block
    from [H] with distances inside [H ++ block so far] (enforced by [apply_seq]) and inside the window *)
Definition step_good (d : mgd) (op : mop) (d' : mgd) (out : option (list mseq)) : Prop :=
  max_window d' = max_window d /\
  match op with
  | OpReset => out = None /\ retained d' = []
  | OpBlock data skip =>
      exists dropped H, retained d = dropped ++ H /\ retained d' = H ++ data /\ length H + length data <= max_window d /\
        if skip then out = None
        else exists seqs, out = Some seqs /\ apply_seqs H seqs = Some (H ++ data) /\ Forall (seq_bounds (max_window d)) seqs
  end.

Lemma older_fwd_app a b : older_fwd (a ++ b) = older_fwd b ++ older_fwd a.
Proof. unfold older_fwd. rewrite map_app, rev_app_distr, concat_app. reflexivity. Qed.
Lemma older_fwd_data a b : map we_data a = map we_data b -> older_fwd a = older_fwd b.
Proof. unfold older_fwd. intros ->. reflexivity. Qed.
Lemma older_fwd_cons e l : older_fwd (e :: l) = older_fwd l ++ we_data e.
Proof. unfold older_fwd. cbn [map rev]. rewrite concat_app. cbn [concat]. rewrite app_nil_r. reflexivity. Qed.

Lemma seq_bounds_mono a b s : a <= b -> seq_bounds a s -> seq_bounds b s.
Proof. intros L. destruct s as [|l o m]; cbn [seq_bounds]; [trivial|]. intros (A & B & C). repeat split; lia. Qed.

Theorem mstep_spec d op : DInv d -> op_fits (max_window d) op ->
  exists d' out, mstep d op = ROk (d', out) /\ DInv d' /\ step_good d op d' out.
Proof.
  intros (HI & Hr) Hfit. destruct op as [data skip|]; cbn [mstep op_fits] in *.
  - unfold commit_space.
    set (cap := fst (match pool_take (md_pool d) (Z.log2 (Z.max 1024 (npot (Z.of_nat (length data))))) with
                     | Some (c, p) => (c, p) | None => (Z.max 1024 (npot (Z.of_nat (length data))), md_pool d) end)).
    destruct (add_data_spec (md_gen d) data (ss_new cap) HI Hr Hfit (ss_new_empty cap))
      as (g1 & ev & kept & Ea & HI1 & M1 & Hwin & Hdata & Hs1 & Hl1 & Hw1).
    assert (Ecs : exists pool1, (let '(cap0, pool) := match pool_take (md_pool d) (Z.log2 (Z.max 1024 (npot (Z.of_nat (length data))))) with
                     | Some (c, p) => (c, p) | None => (Z.max 1024 (npot (Z.of_nat (length data))), md_pool d) end in
                   let* (g, evicted) := add_data (md_gen d) data (ss_new cap0) in
                   ROk {| md_gen := g; md_pool := pool ++ map (fun e => ss_cap (we_suf e)) evicted |})
                = ROk {| md_gen := g1; md_pool := pool1 |}).
    { unfold cap in Ea. destruct (match pool_take (md_pool d) _ with Some (c, p) => (c, p) | None => _ end) as [c0 p0].
      cbn [fst] in Ea. rewrite Ea. cbn [rbind]. eexists. reflexivity. }
    destruct Ecs as (pool1 & Ecs). rewrite Ecs. cbn [rbind].
    destruct (mg_win g1) as [|e1 older1] eqn:Ew1; [discriminate|]. cbn [map] in Hdata. injection Hdata as Hd1 Hold1.
    assert (Hret : older_fwd older1 = older_fwd kept) by (apply older_fwd_data; exact Hold1).
    assert (Hsplit : retained d = older_fwd (rev ev) ++ older_fwd kept).
    { unfold retained. rewrite Hwin. apply older_fwd_app. }
    assert (Hroom : length (older_fwd kept) + length data <= max_window d).
    { unfold max_window. destruct HI1 as (Hws & _ & _). rewrite Ew1 in Hws. cbn [total_len] in Hws.
      rewrite older_fwd_length, <- (older_fwd_length older1), Hret, older_fwd_length in *.
      rewrite Hd1 in Hws. lia. }
    destruct skip.
    + unfold mgd_skip. cbn [md_gen md_pool].
      destruct (skip_matching_spec g1 e1 older1 HI1 Ew1) as (g2 & Es & HI2 & SF & F1 & F2).
      rewrite Es. cbn [rbind]. eexists _, _. split; [reflexivity|].
      destruct SF as (D2 & _ & M2 & _ & _).
      assert (Ew2 : exists e2, mg_win g2 = e2 :: tl (mg_win g2) /\ we_data e2 = data /\ map we_data (tl (mg_win g2)) = map we_data older1).
      { unfold win_data in D2. rewrite Ew1 in D2. destruct (mg_win g2) as [|x t]; [discriminate|]. cbn [map tl] in *.
        exists x. injection D2 as Dx Dt. repeat split; congruence. }
      destruct Ew2 as (e2 & Ew2 & Hd2 & Ho2).
      split.
      { split; [exact HI2|]. unfold ready. cbn [md_gen]. rewrite Ew2, Hd2, F1, Hd1. reflexivity. }
      unfold step_good, max_window, retained. cbn [md_gen]. split; [congruence|].
      exists (older_fwd (rev ev)), (older_fwd kept). split; [exact Hsplit|]. split; [|split; [exact Hroom|reflexivity]].
      rewrite Ew2, older_fwd_cons, Hd2. f_equal. rewrite <- Hret. apply older_fwd_data. exact Ho2.
    + unfold mgd_start. cbn [md_gen md_pool].
      destruct (start_matching_spec g1 e1 older1 HI1 Ew1) as (seqs & g2 & Es & HI2 & SF & Ap & Bd & F1 & F2); [congruence|].
      rewrite Es. cbn [rbind]. eexists _, _. split; [reflexivity|].
      destruct SF as (D2 & _ & M2 & _ & _).
      assert (Ew2 : exists e2, mg_win g2 = e2 :: tl (mg_win g2) /\ we_data e2 = data /\ map we_data (tl (mg_win g2)) = map we_data older1).
      { unfold win_data in D2. rewrite Ew1 in D2. destruct (mg_win g2) as [|x t]; [discriminate|]. cbn [map tl] in *.
        exists x. injection D2 as Dx Dt. repeat split; congruence. }
      destruct Ew2 as (e2 & Ew2 & Hd2 & Ho2).
      split.
      { split; [exact HI2|]. unfold ready. cbn [md_gen]. rewrite Ew2, Hd2, F1, Hd1. reflexivity. }
      unfold step_good, max_window, retained. cbn [md_gen]. split; [congruence|].
      exists (older_fwd (rev ev)), (older_fwd kept). split; [exact Hsplit|].
      split; [rewrite Ew2, older_fwd_cons, Hd2; f_equal; rewrite <- Hret; apply older_fwd_data; exact Ho2|].
      split; [exact Hroom|].
      exists seqs. split; [reflexivity|]. rewrite Hl1, Hd1, Hret in Ap. cbn [firstn] in Ap. rewrite app_nil_r in Ap.
      split; [exact Ap|].
      eapply Forall_impl; [|exact Bd]. intros s. apply seq_bounds_mono. unfold max_window. lia.
  - eexists _, _. split; [reflexivity|].
    destruct (reset_spec (md_gen d) HI) as (R1 & R2 & R3).
    unfold mgd_reset. destruct (mg_reset (md_gen d)) as [g fr] eqn:Er. cbn [fst] in *.
    split; [split; [exact R1|unfold ready; cbn [md_gen]; rewrite R2; exact I]|].
    unfold step_good, max_window, retained. cbn [md_gen]. rewrite R2. repeat split. exact R3.
Qed.

Fixpoint mrun_good (d : mgd) (ops : list mop) : Prop :=
  match ops with
  | [] => True
  | op :: t => exists d' out, mstep d op = ROk (d', out) /\ step_good d op d' out /\ mrun_good d' t
  end.

Theorem mrun_spec ops : forall d, DInv d -> Forall (op_fits (max_window d)) ops -> mrun_good d ops.
Proof.
  induction ops as [|op t IH]; intros d HI Hf; cbn [mrun_good]; [exact I|].
  inversion Hf as [|? ? Hop Ht]; subst.
  destruct (mstep_spec d op HI Hop) as (d' & out & E & HI' & G).
  exists d', out. split; [exact E|]. split; [exact G|]. apply IH; [exact HI'|].
  destruct G as [Gm _]. rewrite Gm. exact Ht.
Qed.

Lemma mgd_new_inv s n : DInv (mgd_new s n) /\ max_window (mgd_new s n) = n * s /\ retained (mgd_new s n) = [].
Proof. unfold DInv, MInv, ready, mgd_new, mg_new, max_window, retained. cbn. repeat split; lia. Qed.

(** *** what "executed with the LZ77 copy" means byte by byte: every copied byte equals the byte [off] positions
    before it (lists newest first) *)
Lemma lz_copy_suffix n : forall off r, exists p, length p = n /\ lz_copy n off r = p ++ r.
Proof.
  induction n as [|k IH]; intros off r; cbn [lz_copy]; [exists []; split; reflexivity|].
  destruct (IH off (nth (off - 1) r 0%Z :: r)) as (p & Lp & E). exists (p ++ [nth (off - 1) r 0%Z]).
  rewrite app_length, Lp, E, <- app_assoc. cbn. split; [lia|reflexivity].
Qed.

Theorem lz_copy_pointwise n : forall off r i, 1 <= off -> i < n ->
  nth i (lz_copy n off r) 0%Z = nth (i + off) (lz_copy n off r) 0%Z.
Proof.
  induction n as [|k IH]; intros off r i Ho Hi; [lia|]. cbn [lz_copy].
  destruct (Nat.eq_dec i k) as [->|Hne].
  - destruct (lz_copy_suffix k off (nth (off - 1) r 0%Z :: r)) as (p & Lp & E). rewrite E.
    rewrite !app_nth2 by lia. rewrite Lp. replace (k - k) with 0 by lia. replace (k + off - k) with (S (off - 1)) by lia.
    reflexivity.
  - apply IH; lia.
Qed.
