(** C02 / C13: the weights [build_from_data] assigns.  The histogram is sorted by count and the weights of the shape
    are handed out by rank; whatever the counts are, the resulting weight list carries exactly the weights of the
    shape on exactly the symbols that occur, so it is one of the assignments of
    [huffman_section_for_every_assignment_of_the_shape] and the literals section coded with the table of
    [build_from_data] is read back. *)
Require Import Zrs.lib.RsPrelude Zrs.gen.Generated Zrs.model.Headers Zrs.model.BitIO Zrs.model.BitStream Zrs.model.FseDec Zrs.model.HufDec Zrs.model.BlockDec Zrs.model.LitEnc Zrs.model.BlockEnc Zrs.model.HufEnc Zrs.model.HufCounts.
Require Import Permutation.
Require Import Zrs.proofs.C13_Huffman Zrs.proofs.C13_EncWeights Zrs.proofs.C02_Concrete Zrs.proofs.C02_O2Table Zrs.proofs.C02_O2Huffman Zrs.proofs.C02_O2Shape.
Open Scope Z_scope.

Definition posw (w : Z) : bool := 0 <? w.
Definition nzc (c : Z) : bool := negb (c =? 0).

(** *** the sort is a permutation of the enumerated counts *)
Lemma ins_count_perm e l : Permutation (ins_count e l) (e :: l).
Proof.
  induction l as [|h t IH]; cbn [ins_count]; [apply Permutation_refl|].
  destruct (snd h <=? snd e); [|apply Permutation_refl].
  eapply perm_trans; [apply perm_skip; exact IH|apply perm_swap].
Qed.
Lemma fold_ins_perm l : forall acc, Permutation (fold_left (fun acc e => ins_count e acc) l acc) (l ++ acc).
Proof.
  induction l as [|e t IH]; intros acc; cbn [fold_left app]; [apply Permutation_refl|].
  eapply perm_trans; [apply IH|]. eapply perm_trans; [apply Permutation_app_head; apply ins_count_perm|].
  apply Permutation_sym, Permutation_middle.
Qed.
Lemma counts_sorted_perm counts : Permutation (counts_sorted counts) (enumerate_from 0 counts).
Proof. unfold counts_sorted. eapply perm_trans; [apply fold_ins_perm|]. rewrite app_nil_r. apply Permutation_refl. Qed.

Lemma enumerate_fst l : forall i, map fst (enumerate_from i l) = seq i (length l).
Proof. induction l as [|c t IH]; intros i; cbn [enumerate_from map length seq fst]; [reflexivity|]. rewrite IH. reflexivity. Qed.
Lemma enumerate_snd l : forall i, map snd (enumerate_from i l) = l.
Proof. induction l as [|c t IH]; intros i; cbn [enumerate_from map snd]; [reflexivity|]. rewrite IH. reflexivity. Qed.
Lemma enumerate_in l : forall i idx c, In (idx, c) (enumerate_from i l) -> (i <= idx < i + length l)%nat /\ nth (idx - i) l 0 = c.
Proof.
  induction l as [|c0 t IH]; intros i idx c H; cbn [enumerate_from In length] in *; [contradiction|].
  destruct H as [H|H].
  - injection H as <- <-. split; [lia|]. replace (i - i)%nat with 0%nat by lia. reflexivity.
  - apply IH in H as [H1 H2]. split; [lia|]. replace (idx - i)%nat with (S (idx - S i)) by lia. exact H2.
Qed.

(** *** updates at positions that still hold 0 *)
Lemma upd_n_length (l : list Z) : forall i v, length (upd_n l i v) = length l.
Proof. induction l as [|h t IH]; intros [|i] v; cbn [upd_n length]; try reflexivity. rewrite IH. reflexivity. Qed.
Lemma upd_n_nth_eq (l : list Z) : forall i v, (i < length l)%nat -> nth i (upd_n l i v) 0 = v.
Proof. induction l as [|h t IH]; intros [|i] v H; cbn [upd_n length nth] in *; try lia; try reflexivity. apply IH. lia. Qed.
Lemma upd_n_nth_neq (l : list Z) : forall i j v, i <> j -> nth j (upd_n l i v) 0 = nth j l 0.
Proof.
  induction l as [|h t IH]; intros [|i] [|j] v H; cbn [upd_n nth]; try reflexivity; try lia.
  apply IH. lia.
Qed.
Lemma filter_upd_zero (l : list Z) : forall i, (i < length l)%nat -> nth i l 0 = 0 -> filter posw (upd_n l i 0) = filter posw l.
Proof.
  induction l as [|h t IH]; intros [|i] Hi Hz; cbn [upd_n length nth filter] in *; try lia.
  - subst h. reflexivity.
  - rewrite IH by (try lia; exact Hz). reflexivity.
Qed.
Lemma filter_upd_pos (l : list Z) : forall i w, (i < length l)%nat -> nth i l 0 = 0 -> 0 < w ->
  Permutation (filter posw (upd_n l i w)) (w :: filter posw l).
Proof.
  induction l as [|h t IH]; intros [|i] w Hi Hz Hw; cbn [upd_n length nth filter] in *; try lia.
  - subst h. unfold posw at 1 3. destruct (Z.ltb_spec 0 w); [|lia]. cbn [Z.ltb Z.compare]. apply Permutation_refl.
  - destruct (posw h).
    + eapply perm_trans; [apply perm_skip; apply IH; try lia; assumption|apply perm_swap].
    + apply IH; try lia; assumption.
Qed.

(** *** the assignment by rank *)
Lemma assign_rank_spec : forall sorted stack W,
  NoDup (map fst sorted) ->
  (forall idx c, In (idx, c) sorted -> (idx < length W)%nat /\ nth idx W 0 = 0) ->
  Forall (fun w => 0 < w) stack ->
  (length (filter nzc (map snd sorted)) <= length stack)%nat ->
  exists W', assign_rank sorted stack W = ROk W' /\ length W' = length W /\
    Permutation (filter posw W') (filter posw W ++ firstn (length (filter nzc (map snd sorted))) stack) /\
    (forall i, ~ In i (map fst sorted) -> nth i W' 0 = nth i W 0) /\
    (forall idx c, In (idx, c) sorted -> (0 < nth idx W' 0 <-> c <> 0)) /\
    (forall i, 0 <= nth i W 0 -> 0 <= nth i W' 0).
Proof.
  induction sorted as [|[idx c] t IH]; intros stack W Hnd Hin Hst Hlen.
  - exists W. cbn [assign_rank map filter length firstn]. rewrite app_nil_r.
    repeat split; try reflexivity; try (intros; assumption); try contradiction; try (apply Permutation_refl).
  - cbn [map fst] in Hnd. apply NoDup_cons_iff in Hnd as [Hni Hnd].
    destruct (Hin idx c (or_introl eq_refl)) as [Hidx Hz].
    assert (Hin' : forall v idx' c', In (idx', c') t -> (idx' < length (upd_n W idx v))%nat /\ nth idx' (upd_n W idx v) 0 = 0).
    { intros v idx' c' H. destruct (Hin idx' c' (or_intror H)) as [A B]. rewrite upd_n_length. split; [exact A|].
      rewrite upd_n_nth_neq; [exact B|]. intros ->. apply Hni. change idx' with (fst (idx', c')). apply in_map. exact H. }
    cbn [assign_rank map snd filter] in Hlen |- *. change (nzc c) with (negb (c =? 0)) in *. destruct (Z.eqb_spec c 0) as [->|Hc]; cbn [negb] in Hlen |- *.
    + destruct (IH stack (upd_n W idx 0) Hnd (Hin' 0) Hst Hlen) as (W' & E & L & P & Hout & Hiff & Hnn).
      exists W'. split; [exact E|]. split; [rewrite L; apply upd_n_length|]. split; [rewrite filter_upd_zero in P by assumption; exact P|].
      split; [|split].
      * intros i Hi. cbn [map fst In] in Hi. rewrite Hout by tauto. apply upd_n_nth_neq. tauto.
      * intros idx' c' [H|H].
        -- injection H as <- <-. rewrite Hout by exact Hni. rewrite upd_n_nth_eq by exact Hidx. split; [lia|congruence].
        -- apply Hiff. exact H.
      * intros i H. apply Hnn. destruct (Nat.eq_dec idx i) as [<-|Hne]; [rewrite upd_n_nth_eq by exact Hidx; lia|rewrite upd_n_nth_neq by exact Hne; exact H].
    + cbn [length] in Hlen. destruct stack as [|w st]; [cbn [length] in Hlen; lia|].
      apply Forall_cons_iff in Hst as [Hw Hst]. cbn [length] in Hlen.
      destruct (IH st (upd_n W idx w) Hnd (Hin' w) Hst ltac:(lia)) as (W' & E & L & P & Hout & Hiff & Hnn).
      exists W'. split; [exact E|]. split; [rewrite L; apply upd_n_length|]. split; [|split; [|split]].
      * cbn [length firstn]. eapply perm_trans; [exact P|].
        eapply perm_trans; [apply Permutation_app_tail; apply filter_upd_pos; assumption|].
        cbn [app]. apply Permutation_middle.
      * intros i Hi. cbn [map fst In] in Hi. rewrite Hout by tauto. apply upd_n_nth_neq. tauto.
      * intros idx' c' [H|H].
        -- injection H as <- <-. rewrite Hout by exact Hni. rewrite upd_n_nth_eq by exact Hidx. split; [intros _; exact Hc|intros _; exact Hw].
        -- apply Hiff. exact H.
      * intros i H. apply Hnn. destruct (Nat.eq_dec idx i) as [<-|Hne]; [rewrite upd_n_nth_eq by exact Hidx; lia|rewrite upd_n_nth_neq by exact Hne; exact H].
Qed.

Lemma filter_nzc_perm a b : Permutation a b -> length (filter nzc a) = length (filter nzc b).
Proof. induction 1 as [|x l l' _ IH|x y l|l l' l'' _ IH1 _ IH2]; cbn [filter]; [reflexivity| | |congruence]; repeat destruct (nzc _); cbn [length]; congruence. Qed.
Lemma filter_len_le {A} (f : A -> bool) l : (length (filter f l) <= length l)%nat.
Proof. induction l as [|h t IH]; cbn [filter length]; [lia|]. destruct (f h); cbn [length]; lia. Qed.
Lemma nth_zeros (l : list Z) i : nth i (map (fun _ => 0) l) 0 = 0.
Proof. revert i; induction l as [|h t IH]; intros [|i]; cbn [map nth]; auto. Qed.
Lemma filter_zeros (l : list Z) : filter posw (map (fun _ => 0) l) = [].
Proof. induction l as [|h t IH]; cbn [map filter]; [reflexivity|]. exact IH. Qed.

(** the weights assigned to a histogram with [n >= 2] non-zero counts: the shape of [n], on exactly those symbols *)
Theorem weights_from_counts_spec counts : (length counts <= 256)%nat ->
  let n := Z.of_nat (length (filter nzc counts)) in 2 <= n ->
  exists sh W, shape n = ROk sh /\ weights_from_counts counts = ROk W /\ length W = length counts /\
    Permutation (filter posw W) sh /\ Forall (fun w => 0 <= w) W /\
    (forall i, (i < length counts)%nat -> (0 < nth i W 0 <-> nth i counts 0 <> 0)).
Proof.
  intros Hlen n Hn.
  assert (Hn256 : n <= 256).
  { unfold n. pose proof (filter_len_le nzc counts) as F. lia. }
  destruct (shape_valid n ltac:(lia)) as (sh & Esh & Lsh & _ & Hrange & _).
  pose proof (counts_sorted_perm counts) as Hperm.
  assert (Hk : length (filter nzc (map snd (counts_sorted counts))) = length (filter nzc counts)).
  { rewrite (filter_nzc_perm _ _ (Permutation_map snd Hperm)), enumerate_snd. reflexivity. }
  destruct (assign_rank_spec (counts_sorted counts) sh (map (fun _ => 0) counts)) as (W & E & L & P & _ & Hiff & Hnn).
  - eapply Permutation_NoDup; [apply Permutation_sym, (Permutation_map fst Hperm)|]. rewrite enumerate_fst. apply seq_NoDup.
  - intros idx c H. apply (Permutation_in _ Hperm) in H. apply enumerate_in in H as [H _]. rewrite map_length. split; [lia|apply nth_zeros].
  - apply Forall_forall. intros w Hw. rewrite Forall_forall in Hrange. specialize (Hrange w Hw). lia.
  - rewrite Hk. unfold n in Lsh. lia.
  - exists sh, W. split; [exact Esh|]. split.
    { unfold weights_from_counts. destruct (Z.ltb_spec 256 (Z.of_nat (length counts))) as [Hc|_]; [lia|].
      fold nzc. fold n. rewrite Esh. cbn [rbind]. exact E. }
    split; [rewrite L; apply map_length|]. split.
    { rewrite filter_zeros in P. cbn [app] in P. rewrite Hk in P. replace (length (filter nzc counts)) with (length sh) in P by (unfold n in Lsh; lia).
      rewrite firstn_all in P. exact P. }
    split.
    { apply Forall_forall. intros w Hw. destruct (In_nth _ _ 0 Hw) as (i & Hi & <-). apply Hnn. rewrite nth_zeros. lia. }
    intros i Hi. assert (Hin : In (i, nth i counts 0) (counts_sorted counts)).
    { apply (Permutation_in _ (Permutation_sym Hperm)). clear -Hi. 
      assert (G : forall l k j, (j < length l)%nat -> In ((k + j)%nat, nth j l 0) (enumerate_from k l)).
      { induction l as [|c t IH]; intros k [|j] H; cbn [length enumerate_from nth In] in *; try lia.
        - left. f_equal. lia.
        - right. replace (k + S j)%nat with (S k + j)%nat by lia. apply IH. lia. }
      apply (G counts 0%nat i Hi). }
    apply Hiff. exact Hin.
Qed.

(** *** the histogram of [build_from_data] *)
Lemma count_z_pos s data : 0 < count_z s data <-> In s data.
Proof.
  unfold count_z. induction data as [|h t IH]; cbn [filter length In]; [split; [lia|contradiction]|].
  destruct (Z.eqb_spec s h) as [->|Hne]; cbn [length].
  - split; [intros _; left; reflexivity|lia].
  - rewrite IH. split; [intros H; right; exact H|intros [H|H]; [congruence|exact H]].
Qed.
Lemma fold_max_ge data : forall b, In b data -> b <= fold_right Z.max 0 data.
Proof. induction data as [|h t IH]; intros b H; cbn [fold_right In] in *; [contradiction|]. destruct H as [->|H]; [lia|]. specialize (IH b H). lia. Qed.
Lemma fold_max_in data : data <> [] -> Forall (fun s => 0 <= s) data -> In (fold_right Z.max 0 data) data.
Proof.
  induction data as [|h t IH]; intros Hne Hnn; [congruence|]. apply Forall_cons_iff in Hnn as [Hh Ht]. cbn [fold_right In].
  destruct t as [|h2 t2].
  - left. cbn [fold_right]. lia.
  - specialize (IH ltac:(discriminate) Ht). remember (fold_right Z.max 0 (h2 :: t2)) as m eqn:Em.
    destruct (Z.max_spec h m) as [[_ E]|[_ E]]; rewrite E; [right; exact IH|left; reflexivity].
Qed.
Lemma nth_map_seq (f : nat -> Z) : forall len a i, (i < len)%nat -> nth i (map f (seq a len)) 0 = f (a + i)%nat.
Proof.
  induction len as [|len IH]; intros a [|i] H; cbn [seq map nth]; try lia.
  - f_equal. lia.
  - rewrite IH by lia. f_equal. lia.
Qed.
Lemma one_nonzero (l : list Z) : forall b, nth b l 0 <> 0 -> (1 <= length (filter nzc l))%nat.
Proof.
  induction l as [|h t IH]; intros [|b] H; cbn [nth filter] in *; try congruence.
  - unfold nzc at 1. destruct (Z.eqb_spec h 0); [congruence|]. cbn [negb length]. lia.
  - specialize (IH b H). destruct (nzc h); cbn [length]; lia.
Qed.
Lemma two_nonzero (l : list Z) : forall a b, (a < b)%nat -> nth a l 0 <> 0 -> nth b l 0 <> 0 -> (2 <= length (filter nzc l))%nat.
Proof.
  induction l as [|h t IH]; intros [|a] [|b] Hab Ha Hb; cbn [nth filter] in *; try congruence; try lia.
  - unfold nzc at 1. destruct (Z.eqb_spec h 0); [congruence|]. cbn [negb length]. pose proof (one_nonzero t b Hb). lia.
  - specialize (IH a b ltac:(lia) Ha Hb). destruct (nzc h); cbn [length]; lia.
Qed.

Lemma nth_last_z (l : list Z) : l <> [] -> nth (length l - 1) l 0 = last l 0.
Proof.
  induction l as [|h t IH]; intros H; [congruence|]. destruct t as [|h2 t2]; [reflexivity|].
  cbn [length] in *. replace (S (S (length t2)) - 1)%nat with (S (length t2)) by lia. change (nth (S (length t2)) (h :: h2 :: t2) 0) with (nth (length t2) (h2 :: t2) 0).
  change (last (h :: h2 :: t2) 0) with (last (h2 :: t2) 0). rewrite <- IH by discriminate. f_equal. lia.
Qed.

(** the literals section whose table is the one [build_from_data] computes from the literals themselves *)
Theorem build_from_data_meets_O2 data a b :
  Forall (fun s => 0 <= s <= 255) data -> In a data -> In b data -> a <> b ->
  16 <= zlen data <= 131072 ->
  exists W codes, weights_from_data data = ROk W /\ build_from_data data = ROk codes /\
    length W = S (Z.to_nat (fold_right Z.max 0 data)) /\
    Forall (fun w => 0 <= w <= 11) W /\ enc_weights codes = W /\
    (forall s, In s data -> 0 < nth (Z.to_nat s) W 0) /\
    (exists M, Forall (fun w => 0 <= w <= M) W /\ 1 <= last W 0 <= M /\ M <= 11 /\ 0 < kraft (removelast W) /\ kraft W = 2 ^ M /\ enc_build_from_weights W = ROk codes) /\
    forall h desc ft, let payload := desc ++ huf4_bytes (code_fn codes) data in
      read_weights h payload = ROk (removelast W, ft, zlen desc) -> zlen payload < zlen data ->
      exists t, lit_ok h data (huf_lit_header 2 (zlen data) (zlen payload)) payload t.
Proof.
  intros Hbytes Ha Hb Hab Hlen.
  remember (fold_right Z.max 0 data) as mx eqn:Emx.
  assert (Hnn : Forall (fun s => 0 <= s) data) by (eapply Forall_impl; [|exact Hbytes]; cbn; intros; lia).
  assert (Hmx_in : In mx data) by (rewrite Emx; apply fold_max_in; [intros ->; contradiction|exact Hnn]).
  assert (Hmx : 0 <= mx <= 255) by (rewrite Forall_forall in Hbytes; apply (Hbytes mx Hmx_in)).
  assert (Hle : forall s, In s data -> 0 <= s <= mx) by (intros s Hs; rewrite Forall_forall in Hnn; split; [apply Hnn; exact Hs|rewrite Emx; apply fold_max_ge; exact Hs]).
  remember (counts_of_data data) as counts eqn:Ec.
  assert (Lc : length counts = S (Z.to_nat mx)) by (rewrite Ec; unfold counts_of_data; rewrite <- Emx, map_length, seq_length; reflexivity).
  assert (Nc : forall s, 0 <= s <= mx -> nth (Z.to_nat s) counts 0 = count_z s data).
  { intros s Hs. rewrite Ec. unfold counts_of_data. rewrite <- Emx. rewrite nth_map_seq by lia. cbn [Nat.add]. rewrite Z2Nat.id by lia. reflexivity. }
  assert (Nz : forall s, In s data -> nth (Z.to_nat s) counts 0 <> 0).
  { intros s Hs. rewrite (Nc s (Hle s Hs)). apply count_z_pos in Hs. lia. }
  assert (Hn2 : 2 <= Z.of_nat (length (filter nzc counts))).
  { pose proof (Hle a Ha). pose proof (Hle b Hb).
    destruct (Z.lt_total a b) as [Hlt|[Heq|Hgt]]; [|congruence|].
    - pose proof (two_nonzero counts (Z.to_nat a) (Z.to_nat b) ltac:(lia) (Nz a Ha) (Nz b Hb)). lia.
    - pose proof (two_nonzero counts (Z.to_nat b) (Z.to_nat a) ltac:(lia) (Nz b Hb) (Nz a Ha)). lia. }
  assert (Lc256 : (length counts <= 256)%nat) by (rewrite Lc; lia).
  destruct (weights_from_counts_spec counts Lc256 Hn2) as (sh & W & Esh & EW & LW & P & Wnn & Hiff).
  assert (Hn256 : Z.of_nat (length (filter nzc counts)) <= 256) by (pose proof (filter_len_le nzc counts); lia).
  assert (Hlast : 0 < last W 0).
  { assert (W <> []) by (intros ->; cbn [length] in LW; lia).
    rewrite <- (nth_last_z W) by assumption. rewrite LW, Lc. replace (S (Z.to_nat mx) - 1)%nat with (Z.to_nat mx) by lia.
    apply Hiff; [lia|]. apply Nz. exact Hmx_in. }
  assert (LW256 : (length W <= 256)%nat) by lia.
  destruct (huffman_section_for_every_assignment_of_the_shape (Z.of_nat (length (filter nzc counts))) sh W (conj Hn2 Hn256) Esh P Wnn LW256 Hlast) as (codes & Ecodes & Hall).
  exists W, codes. split; [unfold weights_from_data; rewrite <- Ec; exact EW|]. split.
  { unfold build_from_data, build_from_counts. rewrite <- Ec, EW. cbn [rbind]. exact Ecodes. }
  split; [lia|].
  assert (Hpos : forall s, In s data -> 0 < nth (Z.to_nat s) W 0).
  { intros s Hs. pose proof (Hle s Hs). apply Hiff; [lia|]. apply Nz. exact Hs. }
  destruct (shape_valid _ (conj Hn2 Hn256)) as (sh' & Esh' & _ & _ & Hrange & _ & H11). rewrite Esh in Esh'. injection Esh' as <-.
  assert (KW : kraft W = kraft sh) by (rewrite <- (kraft_filter W); apply kraft_perm; exact P).
  assert (HWr : Forall (fun w => 0 <= w <= Z.log2 (kraft W)) W).
  { apply Forall_forall. intros w Hw. rewrite Forall_forall in Wnn. pose proof (Wnn w Hw) as H0. rewrite KW.
    destruct (Z.ltb_spec 0 w) as [Hp|Hp]; [|pose proof (Z.log2_nonneg (kraft sh)); lia].
    assert (In w sh) by (apply (Permutation_in _ P); apply filter_In; split; [exact Hw|unfold posw; lia]).
    rewrite Forall_forall in Hrange. specialize (Hrange w H). lia. }
  split.
  { eapply Forall_impl; [|exact HWr]. cbn. intros w Hw. rewrite KW in Hw. lia. }
  split.
  { apply enc_weights_are_the_weights; [exact HWr| |exact Ecodes].
    pose proof (shape_has_one _ sh (conj Hn2 Hn256) Esh) as H1. apply (Permutation_in _ (Permutation_sym P)) in H1. apply filter_In in H1. tauto. }
  split; [exact Hpos|].
  split.
  { exists (Z.log2 (kraft W)).
    assert (HWne : W <> []) by (intros ->; cbn [length] in LW; lia).
    assert (Hpow : is_pow2z (kraft W) = true).
    { unfold enc_build_from_weights in Ecodes. destruct (is_pow2z (kraft W)); [reflexivity|cbn [negb] in Ecodes; discriminate]. }
    unfold is_pow2z in Hpow. apply andb_prop in Hpow as [_ Hp2].
    assert (Hlw : In (last W 0) W) by (rewrite (app_removelast_last 0 HWne) at 2; apply in_or_app; right; left; reflexivity).
    rewrite Forall_forall in HWr. pose proof (HWr _ Hlw) as Hl1.
    split; [apply Forall_forall; exact HWr|]. split; [lia|]. split; [rewrite KW; exact H11|]. split; [|split; [lia|exact Ecodes]].
    (* one of the two symbols is not the largest byte: its weight is written *)
    assert (exists s, In s data /\ s < mx) as (s & Hs & Hlt).
    { pose proof (Hle a Ha). pose proof (Hle b Hb). destruct (Z.eq_dec a mx); [exists b; split; [exact Hb|lia]|exists a; split; [exact Ha|lia]]. }
    pose proof (Hle s Hs) as Hs'. pose proof (Hpos s Hs) as Hp.
    assert (Hin : In (nth (Z.to_nat s) W 0) (removelast W)).
    { rewrite (app_removelast_last 0 HWne) in Hp at 1. rewrite (app_removelast_last 0 HWne) at 1.
      assert (Lr : length (removelast W) = Z.to_nat mx).
      { rewrite (app_removelast_last 0 HWne) in LW at 1. rewrite app_length in LW. cbn [length] in LW. lia. }
      rewrite app_nth1 by lia. apply nth_In. lia. }
    clear - Hin Hp. revert Hin. generalize (nth (Z.to_nat s) W 0) Hp. intros w Hw. induction (removelast W) as [|x t IH]; intros Hin; [contradiction|].
    unfold kraft in *. cbn [fold_right].
    assert (0 <= fold_right (fun w acc => (if 0 <? w then 2 ^ (w - 1) else 0) + acc) 0 t).
    { clear. induction t as [|y u IHu]; cbn [fold_right]; [lia|]. destruct (0 <? y); [pose proof (Z.pow_nonneg 2 (y - 1) ltac:(lia))|]; lia. }
    destruct Hin as [->|Hin].
    - destruct (Z.ltb_spec 0 w); [|lia]. pose proof (Z.pow_pos_nonneg 2 (w - 1) ltac:(lia) ltac:(lia)). lia.
    - specialize (IH Hin). destruct (0 <? x); [pose proof (Z.pow_nonneg 2 (x - 1) ltac:(lia))|]; lia. }
  intros h desc ft. apply Hall; [|exact Hlen].
  apply Forall_forall. intros s Hs. pose proof (Hle s Hs) as Hs'.
  assert (LR : length (removelast W) = Z.to_nat mx).
  { assert (W <> []) by (intros ->; cbn [length] in LW; lia). rewrite (app_removelast_last 0 H) in LW at 1. rewrite app_length in LW. cbn [length] in LW. lia. }
  split; [rewrite LR; lia|]. apply Hiff; [lia|]. apply Nz. exact Hs.
Qed.
