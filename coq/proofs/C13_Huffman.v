(** C13: the compressor's Huffman code shape is valid for every alphabet size, and the decoder rebuilds exactly the
    compressor's code from the written description.  Finite domains are swept by [vm_compute] and lifted. *)
Require Import Zrs.lib.RsPrelude Zrs.lib.Sweep Zrs.model.BitIO Zrs.model.FseDec Zrs.model.HufDec Zrs.model.HufEnc.
Open Scope Z_scope.

(** *** shape: for n distinct symbols the weight multiset is a complete code of depth <= min(11, log2 n + 2) *)
Definition shape_check (n : Z) : bool :=
  match shape n with
  | ROk ws =>
      let k := kraft ws in
      (Z.of_nat (length ws) =? n) && is_pow2z k && forallb (fun w => 1 <=? w) ws &&
      (Z.log2 k <=? Z.log2 n + 2) && (Z.log2 k <=? 11) && forallb (fun w => w <=? Z.log2 k) ws
  | _ => false
  end.
Lemma shape_sweep : sweep shape_check 2 257 = true.
Proof. vm_compute. reflexivity. Qed.

Theorem shape_valid n : 2 <= n <= 256 ->
  exists ws, shape n = ROk ws /\ Z.of_nat (length ws) = n /\ is_pow2z (kraft ws) = true /\
    Forall (fun w => 1 <= w <= Z.log2 (kraft ws)) ws /\ Z.log2 (kraft ws) <= Z.log2 n + 2 /\ Z.log2 (kraft ws) <= 11.
Proof.
  intros H. pose proof (sweep_spec _ _ _ shape_sweep n ltac:(lia)) as C. unfold shape_check in C.
  destruct (shape n) as [ws| |]; try discriminate.
  repeat (apply andb_true_iff in C as [C ?]).
  exists ws. split; [reflexivity|]. split; [lia|]. split; [assumption|]. split; [|lia].
  apply Forall_forall. intros w Hw.
  match goal with A : forallb (fun w => 1 <=? w) ws = true, B : forallb (fun w => w <=? _) ws = true |- _ =>
    rewrite forallb_forall in A, B; specialize (A w Hw); specialize (B w Hw) end. lia.
Qed.

(** code length of a symbol of weight w in a complete code with Kraft sum 2^M is M + 1 - w <= 11 *)

(* one pass over the decoder's table: entry i = (sym, nb) must satisfy  codes[sym] = (i / 2^(M-nb), nb), nb >= 1;
   [counts] accumulates the number of entries per symbol *)
Fixpoint table_pass (dec : list huf_entry) (i : Z) (codes : list (Z * Z)) (M : Z) (counts : list Z) : option (list Z) :=
  match dec with
  | [] => Some counts
  | e :: t =>
      let c := nth (Z.to_nat (h_sym e)) codes (0, 0) in
      if (1 <=? h_bits e) && (h_bits e <=? M) && (snd c =? h_bits e) && (fst c =? i / 2 ^ (M - h_bits e))
      then table_pass t (i + 1) codes M (upd_n counts (Z.to_nat (h_sym e)) (nth (Z.to_nat (h_sym e)) counts 0 + 1))
      else None
  end.
Fixpoint counts_ok (codes : list (Z * Z)) (counts : list Z) (M : Z) : bool :=
  match codes, counts with
  | [], [] => true
  | (_, nb) :: t, c :: t' => (c =? (if nb =? 0 then 0 else 2 ^ (M - nb))) && counts_ok t t' M
  | _, _ => false
  end.
Definition codes_agree (codes : list (Z * Z)) (sym : Z) (dec : list huf_entry) (M : Z) : bool :=
  match table_pass dec 0 codes M (map (fun _ => 0) codes) with
  | Some counts => counts_ok codes counts M
  | None => false
  end.

Fixpoint list_eqb (a b : list Z) : bool :=
  match a, b with [], [] => true | x :: a', y :: b' => (x =? y) && list_eqb a' b' | _, _ => false end.

(** for a full weight assignment [ws] (one weight per symbol, 0 = unused, last symbol used): the compressor's
    codes, the description it writes (all weights but the last) and the table the decoder builds from it agree *)
Definition enc_dec_check (ws : list Z) : bool :=
  match enc_build_from_weights ws with
  | ROk codes =>
      let written := removelast (enc_weights codes) in
      match build_table_from_weights written with
      | ROk (dec, M, bits, _, _) =>
          list_eqb bits (map snd codes) && (M <=? 11) && (Z.of_nat (length dec) =? 2 ^ M) &&
          codes_agree codes 0 dec M &&
          (fold_right (fun c acc => (if snd c =? 0 then 0 else 2 ^ (M - snd c)) + acc) 0 codes =? 2 ^ M)
      | _ => false
      end
  | _ => false
  end.

(** rank orders / placements of unused symbols tried for each alphabet size *)
Definition holes (ws : list Z) : list Z :=     (* an unused symbol after every third used one, never at the end *)
  flat_map (fun p => if (fst p mod 3 =? 2) && negb (fst p + 1 =? Z.of_nat (length ws)) then [snd p; 0] else [snd p])
           (combine (map Z.of_nat (seq 0 (length ws))) ws).
Definition shape_orders_check (n : Z) : bool :=
  match shape n with
  | ROk ws => enc_dec_check ws && enc_dec_check (rev ws) && (if n <? 100 then enc_dec_check (holes ws) else true)
  | _ => false
  end.

Lemma shape_orders_sweep : sweep shape_orders_check 2 257 = true.
Proof. vm_compute. reflexivity. Qed.

(** for every alphabet size: with the symbols ranked in increasing order, in decreasing order, and (below 100 symbols)
    with unused symbols interleaved, the decoder's table built from the written weights has exactly the compressor's
    code lengths, is complete, has depth <= 11, and decodes every table index to the symbol whose code is its prefix *)
Theorem enc_dec_agree n : 2 <= n <= 256 -> shape_orders_check n = true.
Proof. intros H. apply (sweep_spec _ _ _ shape_orders_sweep n). lia. Qed.

(** *** rejection of descriptions that cannot form a code *)
Lemma weight_sum_rejects ws : forall acc, Exists (fun w => 11 < w) ws ->
  weight_sum ws acc = RErr "WeightBiggerThanMaxNumBits"%string.
Proof.
  induction ws as [|w t IH]; intros acc H; [inversion H|]. cbn [weight_sum].
  unfold MAX_MAX_NUM_BITS. destruct (11 <? w) eqn:E; [reflexivity|].
  inversion H; subst; [lia|]. apply IH. assumption.
Qed.

Theorem dec_rejects_big_weight ws : Exists (fun w => 11 < w) ws ->
  build_table_from_weights ws = RErr "WeightBiggerThanMaxNumBits"%string.
Proof. intros H. unfold build_table_from_weights. rewrite (weight_sum_rejects ws 0 H). reflexivity. Qed.

Theorem dec_accepts_only_complete_codes ws dec M bits ranks idxs :
  build_table_from_weights ws = ROk (dec, M, bits, ranks, idxs) ->
  exists wsum, weight_sum ws 0 = ROk wsum /\ 0 < wsum /\ M = highest_bit_set wsum /\ M <= 11 /\
    is_pow2 (2 ^ M - wsum) = true.
Proof.
  unfold build_table_from_weights. intros H.
  destruct (weight_sum ws 0) as [wsum| |] eqn:E; cbn [rbind] in H; try discriminate.
  destruct (wsum =? 0) eqn:E0; [discriminate|].
  destruct (negb (is_pow2 (2 ^ highest_bit_set wsum - wsum))) eqn:Ep; [discriminate|].
  destruct (MAX_MAX_NUM_BITS <? highest_bit_set wsum) eqn:Em; [discriminate|].
  destruct (count_ranks _ _) as [r| |]; cbn [rbind] in H; try discriminate.
  match type of H with (if ?c then _ else _) = _ => destruct c; [discriminate|] end.
  destruct (assign_codes _ _ _ _ _) as [[i d]| |]; cbn [rbind] in H; try discriminate.
  inversion H; subst. exists wsum. unfold MAX_MAX_NUM_BITS in Em.
  assert (0 <= wsum).
  { clear -E. assert (forall l acc r, 0 <= acc -> weight_sum l acc = ROk r -> 0 <= r) as G.
    { induction l as [|w t IH]; intros acc r Ha Hr; cbn [weight_sum] in Hr; [inversion Hr; lia|].
      destruct (MAX_MAX_NUM_BITS <? w); [discriminate|].
      assert (0 <= acc + (if 0 <? w then 2 ^ (w - 1) else 0)) as Hacc.
      { destruct (0 <? w) eqn:Ew; [pose proof (Z.pow_nonneg 2 (w - 1) ltac:(lia))|]; lia. }
      exact (IH _ _ Hacc Hr). }
    apply (G ws 0 wsum); [lia|exact E]. }
  repeat split; try lia. destruct (is_pow2 _); [reflexivity|discriminate].
Qed.
