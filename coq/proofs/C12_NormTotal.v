(** C12: the normaliser returns (does not panic) on every histogram the block encoder gives it. *)
Require Import Zrs.lib.RsPrelude Zrs.model.BitIO Zrs.model.FseDec Zrs.model.FseEnc Zrs.model.FseNorm.
Require Import Zrs.proofs.C12_Norm.
Open Scope Z_scope.

Lemma first_min_exists l : forall i best, Exists (fun x => 1 < x) l -> first_min_gt1_from l i best <> None.
Proof.
  assert (Keep : forall l0 i b, b <> None -> first_min_gt1_from l0 i b <> None).
  { induction l0 as [|x t IH]; intros i b Hb; cbn [first_min_gt1_from]; [exact Hb|].
    destruct (1 <? x); [|apply IH; exact Hb]. destruct b as [[bi bv]|]; [destruct (x <? bv); apply IH; discriminate|apply IH; discriminate]. }
  induction l as [|x t IH]; intros i best He; [inversion He|]. cbn [first_min_gt1_from].
  inversion He as [? ? Hx|? ? Ht]; subst.
  - destruct (Z.ltb_spec 1 x); [|lia]. destruct best as [[bi bv]|]; [destruct (x <? bv); apply Keep; discriminate|apply Keep; discriminate].
  - destruct (1 <? x); [destruct best as [[bi bv]|]; [destruct (x <? bv)|]|]; apply IH; exact Ht.
Qed.

Lemma all_le1_sum l : Forall (fun p => 0 <= p) l -> ~ Exists (fun x => 1 < x) l -> zsum l <= Z.of_nat (length l).
Proof.
  induction 1 as [|p t Hp _ IH]; intros Hn; [cbn; lia|]. cbn [zsum fold_right length]. fold (zsum t).
  assert (p <= 1) by (destruct (Z.ltb_spec 1 p); [exfalso; apply Hn; left; assumption|lia]).
  specialize (IH ltac:(intros He; apply Hn; right; exact He)). lia.
Qed.

Lemma shrink_total fuel : forall probs diff, Forall (fun p => 0 <= p) probs -> diff <= Z.of_nat fuel ->
  Z.of_nat (length probs) <= zsum probs - diff -> exists out, shrink fuel probs diff = ROk out.
Proof.
  induction fuel as [|f IH]; intros probs diff Hnn Hf Hlen; cbn [shrink].
  - destruct (Z.leb_spec diff 0); [eexists; reflexivity|lia].
  - destruct (Z.leb_spec diff 0) as [|Hd]; [eexists; reflexivity|].
    destruct (first_min_gt1_from probs 0 None) as [[i m]|] eqn:Em.
    + destruct (first_min_spec _ _ _ _ _ Em) as [E|(A & B & C)]; [discriminate|]. rewrite Nat.sub_0_r in B.
      apply IH.
      * apply Forall_upd; [exact Hnn|lia].
      * lia.
      * rewrite upd_length, zsum_upd, B by lia. lia.
    + exfalso. destruct (Exists_dec (fun x => 1 < x) probs) as [He|Hne].
      * intros x. destruct (Z_lt_dec 1 x); [left|right]; assumption.
      * apply (first_min_exists probs 0 None He). exact Em.
      * pose proof (all_le1_sum probs Hnn Hne). lia.
Qed.

Lemma first_idx_exists l : forall v i, In v l -> first_idx_of l v i <> None.
Proof.
  induction l as [|x t IH]; intros v i Hin; [contradiction|]. cbn [first_idx_of].
  destruct (Z.eqb_spec x v); [discriminate|]. destruct Hin as [->|Hin]; [congruence|]. apply IH. exact Hin.
Qed.

Lemma zsum_filter_le l (f : Z -> bool) : Forall (fun p => 0 <= p) l -> zsum (filter f l) <= zsum l.
Proof.
  induction 1 as [|p t Hp _ IH]; [cbn; lia|]. cbn [filter]. destruct (f p); cbn [zsum fold_right]; fold (zsum t); fold (zsum (filter f t)); lia.
Qed.
Lemma zsum_ge_elem l x : Forall (fun p => 0 <= p) l -> In x l -> x <= zsum l.
Proof.
  induction 1 as [|p t Hp Ht IH]; intros Hin; [contradiction|]. cbn [zsum fold_right]. fold (zsum t).
  pose proof (zsum_nonneg t Ht). destruct Hin as [->|Hin]; [lia|specialize (IH Hin); lia].
Qed.

Lemma zsum_split_filter l v : Forall (fun p => 0 <= p) l ->
  zsum l = zsum (filter (fun x => negb (x =? v)) l) + v * Z.of_nat (length (filter (fun x => x =? v) l)).
Proof.
  induction 1 as [|p t Hp _ IH]; [cbn; lia|]. cbn [filter zsum fold_right]. fold (zsum t). destruct (Z.eqb_spec p v) as [->|Hn]; cbn [negb].
  - cbn [length]. fold (zsum (filter (fun x => negb (x =? v)) t)). lia.
  - cbn [zsum fold_right]. fold (zsum (filter (fun x => negb (x =? v)) t)). lia.
Qed.

(** the redistribution step never panics on a vector of at least two non-negative entries with total 2^al *)
Lemma avoid_total probs al : 1 <= al -> (2 <= length probs)%nat -> Forall (fun p => 0 <= p) probs -> zsum probs = 2 ^ al ->
  exists out,
  (let i := last_max_idx probs in
   let mx := nth i probs 0 in
   if true && (2 ^ (al - 1) <? mx) then
     let redistribute := mx - 2 ^ (al - 1) in
     let probs' := upd probs i (mx - redistribute) in
     let mx' := mx - redistribute in
     let others := filter (fun x => negb (x =? mx')) probs' in
     match others with
     | [] => RPanic "called `Option::unwrap()` on a `None` value"
     | _ =>
         let second := nth (last_max_idx others) others 0 in
         match first_idx_of probs' second 0 with
         | None => RPanic "called `Option::unwrap()` on a `None` value"
         | Some j =>
             if mx' <? nth j probs' 0 + redistribute then RPanic "assertion failed: *second_max <= max"
             else ROk (al, upd probs' j (nth j probs' 0 + redistribute))
         end
     end
   else ROk (al, probs)) = ROk (al, out).
Proof.
  intros Hal Hlen Hnn Hs. cbv zeta. cbn [andb].
  assert (Hne : probs <> []) by (intros ->; cbn in Hlen; lia).
  pose proof (last_max_idx_lt probs Hne) as Hi.
  set (i := last_max_idx probs) in *. set (mx := nth i probs 0).
  assert (Hp : 0 < 2 ^ (al - 1)) by (apply Z.pow_pos_nonneg; lia).
  assert (H2 : 2 ^ al = 2 * 2 ^ (al - 1)) by (replace al with (1 + (al - 1)) at 1 by lia; rewrite Z.pow_add_r by lia; reflexivity).
  destruct (Z.ltb_spec (2 ^ (al - 1)) mx) as [Hbig|Hsmall]; [|eexists; reflexivity].
  replace (mx - (mx - 2 ^ (al - 1))) with (2 ^ (al - 1)) by lia.
  set (h := 2 ^ (al - 1)) in *. set (r := mx - h).
  set (probs' := upd probs i h).
  assert (Lp : length probs' = length probs) by apply upd_length.
  assert (Hnn' : Forall (fun p => 0 <= p) probs') by (apply Forall_upd; [exact Hnn|lia]).
  assert (Hs' : zsum probs' = 2 * h - r) by (unfold probs'; rewrite zsum_upd by exact Hi; fold mx; unfold r; lia).
  pose proof (zsum_split_filter probs' h Hnn') as Hsplit.
  set (others := filter (fun x => negb (x =? h)) probs') in *.
  set (cnt := length (filter (fun x => x =? h) probs')) in *.
  assert (Hcnt : (1 <= cnt)%nat).
  { unfold cnt. assert (In h (filter (fun x => x =? h) probs')) as Hin.
    { apply filter_In. split; [|apply Z.eqb_refl]. unfold probs'. rewrite <- (nth_upd_same probs i h Hi) at 1. apply nth_In. rewrite upd_length. exact Hi. }
    destruct (filter (fun x => x =? h) probs'); [contradiction|cbn [length]; lia]. }
  assert (Hon : Forall (fun p => 0 <= p) others) by (unfold others; apply Forall_forall; intros x Hx; apply filter_In in Hx as [Hx _]; rewrite Forall_forall in Hnn'; apply Hnn'; exact Hx).
  pose proof (zsum_nonneg others Hon) as Hos.
  assert (Hcnt1 : cnt = 1%nat).
  { destruct cnt as [|[|c]]; [lia|reflexivity|exfalso]. rewrite !Nat2Z.inj_succ in Hsplit. unfold r in Hs'. nia. }
  destruct others as [|o os] eqn:Eo.
  { exfalso. (* everything equals h: then there is exactly one entry *)
    assert (length probs' = cnt).
    { unfold cnt. clear - Eo. induction probs' as [|x t IH]; [reflexivity|]. cbn [filter] in *. destruct (Z.eqb_spec x h); cbn [negb] in Eo; [cbn [length]; rewrite IH by exact Eo; reflexivity|discriminate]. }
    lia. }
  set (second := nth (last_max_idx (o :: os)) (o :: os) 0).
  assert (Hsec_in : In second (o :: os)) by (apply nth_In; apply last_max_idx_lt; discriminate).
  assert (Hsec_in' : In second probs') by (rewrite <- Eo in Hsec_in; apply filter_In in Hsec_in as [H _]; exact H).
  destruct (first_idx_of probs' second 0) as [j|] eqn:Ej; [|exfalso; exact (first_idx_exists _ _ _ Hsec_in' Ej)].
  destruct (first_idx_spec _ _ _ _ Ej) as (Aj & Bj). rewrite Nat.sub_0_r in Bj. rewrite Bj.
  assert (second <= zsum (o :: os)) by (apply zsum_ge_elem; [exact Hon|exact Hsec_in]).
  rewrite Hcnt1 in Hsplit. change (Z.of_nat 1) with 1 in Hsplit.
  destruct (Z.ltb_spec h (second + r)) as [Hbad|_]; [lia|]. eexists. reflexivity.
Qed.

Lemma zsum_ge1 l : Forall (fun p => 0 <= p) l -> (exists k, 1 <= nth k l 0) -> 1 <= zsum l.
Proof.
  intros Hnn (k & Hk). revert k Hk. induction Hnn as [|p t Hp Ht IH]; intros k Hk; [destruct k; cbn in Hk; lia|].
  cbn [zsum fold_right]. fold (zsum t). pose proof (zsum_nonneg t Ht). destruct k; cbn [nth] in Hk; [lia|specialize (IH k Hk); lia].
Qed.

(** the table of the largest permitted size must have room for every symbol: then the normaliser is total *)
Theorem norm_counts_total_gen counts max_log :
  5 <= max_log -> Forall (fun c => 0 <= c) counts -> 0 < last counts 0 -> (2 <= length counts)%nat ->
  Z.of_nat (length counts) <= 2 ^ max_log ->
  exists al probs, norm_counts counts max_log true = ROk (al, probs).
Proof.
  intros Hml Hc Hlast Hlen Hroom. unfold norm_counts.
  replace (Nat.max (length counts) 2) with (length counts) by lia. rewrite Nat.sub_diag. cbn [zeros]. rewrite app_nil_r.
  set (mc := fold_left (fun m c => if (0 <? c) && ((c <? m) || (m =? 0)) then c else m) counts 0).
  destruct (min_fold_spec counts 0 ltac:(lia) Hc) as (M0 & M1 & M2). fold mc in M0, M1, M2.
  assert (Hcne : counts <> []) by (intros ->; cbn in Hlen; lia).
  destruct (Z.eqb_spec mc 0) as [E0|E0].
  { exfalso. destruct (M1 E0) as (_ & Hall). rewrite last_is_nth in Hlast by exact Hcne.
    rewrite Forall_forall in Hall. specialize (Hall (nth (length counts - 1) counts 0) ltac:(apply nth_In; lia)). lia. }
  destruct (M2 ltac:(lia)) as (_ & Mle).
  set (p1 := map (fun p => if 0 <? p then p - (mc - 1) else p) counts).
  assert (K1 : Forall2 keeps counts p1).
  { apply keeps_map; [|exact Hc]. intros c Hc0 Hin. rewrite Forall_forall in Mle. specialize (Mle c Hin).
    unfold keeps. destruct (Z.ltb_spec 0 c); split; intros; lia. }
  set (p2 := if (0 <? zmaxl p1) && (Z.of_nat (length counts) <? zmaxl p1)
             then map (fun p => if 0 <? p then Z.max (p / (zmaxl p1 / Z.of_nat (length counts))) 1 else p) p1 else p1).
  assert (K2 : Forall2 keeps counts p2).
  { unfold p2. destruct ((0 <? zmaxl p1) && (Z.of_nat (length counts) <? zmaxl p1)); [|exact K1].
    apply keeps_map2; [|exact Hc|exact K1]. intros p. split; intros Hp.
    - subst p. reflexivity.
    - destruct (Z.ltb_spec 0 p); lia. }
  assert (N2 : Forall (fun p => 0 <= p) p2) by exact (keeps_nonneg counts p2 Hc K2).
  assert (L2 : length p2 = length counts) by (symmetry; eapply Forall2_len; exact K2).
  pose proof (keeps_last counts p2 K2 Hcne Hlast) as Hl2.
  assert (Hs1 : 1 <= zsum p2) by (apply zsum_ge1; [exact N2|eexists; exact Hl2]).
  destruct (Z.leb_spec (zsum p2) 0) as [Hs0|Hs0]; [lia|].
  set (al0 := Z.min (Z.max (Z.log2 (zsum p2) + 1) 5) max_log).
  assert (Hal : 5 <= al0 <= max_log) by (unfold al0; lia).
  assert (P0 : 0 < 2 ^ al0) by (apply Z.pow_pos_nonneg; lia).
  assert (Step3 : exists p3, (if zsum p2 <? 2 ^ al0
                              then ROk (upd p2 (last_max_idx p2) (nth (last_max_idx p2) p2 0 + (2 ^ al0 - zsum p2)))
                              else shrink (Z.to_nat (zsum p2 - 2 ^ al0)) p2 (zsum p2 - 2 ^ al0)) = ROk p3 /\
            Forall2 keeps counts p3 /\ zsum p3 = 2 ^ al0 /\ length p3 = length counts).
  { destruct (Z.ltb_spec (zsum p2) (2 ^ al0)) as [Hlt|Hge].
    - eexists. split; [reflexivity|]. destruct (zsum_pos_max p2 N2 Hs0) as (Hne & Hmax).
      pose proof (last_max_idx_lt p2 Hne) as Hi.
      split; [apply keeps_nth; [exact K2|exact Hmax|lia]|].
      split; [rewrite zsum_upd by exact Hi; lia|rewrite upd_length; exact L2].
    - (* the excess branch is only reached with the largest table, which has room for every symbol *)
      assert (Eal : al0 = max_log).
      { destruct (Z.leb_spec (Z.max (Z.log2 (zsum p2) + 1) 5) max_log) as [Hle|Hgt]; [|unfold al0; lia]. exfalso.
        assert (E : al0 = Z.max (Z.log2 (zsum p2) + 1) 5) by (unfold al0; lia).
        rewrite E in Hge.
        pose proof (Z.log2_spec (zsum p2) Hs0) as (_ & Hup). change (Z.succ (Z.log2 (zsum p2))) with (Z.log2 (zsum p2) + 1) in Hup.
        pose proof (Z.log2_nonneg (zsum p2)).
        assert (2 ^ (Z.log2 (zsum p2) + 1) <= 2 ^ Z.max (Z.log2 (zsum p2) + 1) 5) by (apply Z.pow_le_mono_r; lia).
        lia. }
      assert (H256 : Z.of_nat (length counts) <= 2 ^ al0) by (rewrite Eal; exact Hroom).
      destruct (shrink_total (Z.to_nat (zsum p2 - 2 ^ al0)) p2 (zsum p2 - 2 ^ al0) N2 ltac:(lia) ltac:(rewrite L2; lia)) as (p3 & E3).
      exists p3. split; [exact E3|].
      assert (Hd0 : 0 <= zsum p2 - 2 ^ al0) by lia.
      destruct (shrink_spec _ counts p2 _ p3 K2 Hd0 E3) as (K3 & S3 & L3). split; [exact K3|]. split; [lia|congruence]. }
  destruct Step3 as (p3 & E3 & K3 & S3 & L3). rewrite E3. cbn [rbind].
  assert (N3 : Forall (fun p => 0 <= p) p3) by exact (keeps_nonneg counts p3 Hc K3).
  destruct (avoid_total p3 al0 ltac:(lia) ltac:(lia) N3 S3) as (out & Eo).
  exists al0, out. exact Eo.
Qed.

Theorem norm_counts_total counts max_log :
  8 <= max_log -> Forall (fun c => 0 <= c) counts -> 0 < last counts 0 -> (2 <= length counts <= 256)%nat ->
  exists al probs, norm_counts counts max_log true = ROk (al, probs).
Proof.
  intros Hml Hc Hlast Hlen. apply norm_counts_total_gen; [lia|exact Hc|exact Hlast|lia|].
  assert (2 ^ 8 <= 2 ^ max_log) by (apply Z.pow_le_mono_r; lia). change (2 ^ 8) with 256 in H. lia.
Qed.
