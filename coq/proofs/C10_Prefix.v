(** C10: a strict prefix of a frame that decodes completely never decodes completely.
    Method: every reader of the decoder model is stable under extension of the source (what it returns for [src] it
    returns for [src ++ t], with [t] appended to the unread rest), the block loop is monotone in its fuel, and
    decoding is a function; a prefix that finished would therefore finish the whole frame with unread bytes left. *)
Require Import Zrs.lib.RsPrelude Zrs.gen.Generated Zrs.model.Headers Zrs.model.FseDec Zrs.model.BlockDec Zrs.model.FrameDec.
Open Scope Z_scope.

Lemma read_exact_ext n src a r t : read_exact n src = Some (a, r) -> read_exact n (src ++ t) = Some (a, r ++ t).
Proof.
  unfold read_exact, zlen, take_z, drop_z. rewrite app_length.
  destruct (Z.ltb_spec (Z.of_nat (length src)) n) as [|H]; [discriminate|]. intros [= <- <-].
  destruct (Z.ltb_spec (Z.of_nat (length src + length t)) n) as [|_]; [lia|].
  assert (Hn : (Z.to_nat n <= length src)%nat) by lia.
  rewrite firstn_app, skipn_app.
  replace (Z.to_nat n - length src)%nat with 0%nat by lia. cbn [firstn skipn]. rewrite app_nil_r. reflexivity.
Qed.

Lemma read_block_header_src_ext src x r t : read_block_header_src src = ROk (x, r) ->
  read_block_header_src (src ++ t) = ROk (x, r ++ t).
Proof.
  unfold read_block_header_src. destruct (read_exact 3 src) as [[hb rest]|] eqn:E; [|discriminate].
  rewrite (read_exact_ext _ _ _ _ t E).
  destruct (read_block_header (nth_z hb 0) (nth_z hb 1) (nth_z hb 2)) as [[[[l ty] d] c]|e|e]; cbn [rbind]; try discriminate.
  intros [= <- <-]. reflexivity.
Qed.

Lemma decode_block_content_ext ty d c sc src sc' nb rest t :
  decode_block_content ty d c sc src = ROk (sc', nb, rest) ->
  decode_block_content ty d c sc (src ++ t) = ROk (sc', nb, rest ++ t).
Proof.
  unfold decode_block_content.
  destruct (ty =? 1).
  { destruct (read_exact 1 src) as [[b r]|] eqn:E; [|discriminate]. rewrite (read_exact_ext _ _ _ _ t E).
    intros [= <- <- <-]. reflexivity. }
  destruct (ty =? 0).
  { destruct (read_exact d src) as [[b r]|] eqn:E; [|discriminate]. rewrite (read_exact_ext _ _ _ _ t E).
    intros [= <- <- <-]. reflexivity. }
  destruct (ty =? 2); [|discriminate].
  destruct (read_exact c src) as [[b r]|] eqn:E; [|discriminate]. rewrite (read_exact_ext _ _ _ _ t E).
  destruct (decompress_block c sc b) as [x|e|e]; cbn [rbind]; try discriminate.
  intros [= <- <- <-]. reflexivity.
Qed.

(** the block loop with strategy All: stable under extension, and a normal return means the frame is finished *)
Lemma loop_ext fuel : forall s src lb bb s' rest t,
  decode_blocks_loop fuel s src SAll lb bb = ROk (s', rest) ->
  decode_blocks_loop fuel s (src ++ t) SAll lb bb = ROk (s', rest ++ t) /\ fr_finished s' = true.
Proof.
  induction fuel as [|f IH]; intros s src lb bb s' rest t H; [discriminate|].
  cbn [decode_blocks_loop] in *.
  destruct (read_block_header_src src) as [[[[[last ty] d] c] r1]|e|e] eqn:Eh; cbn [rbind] in H; try discriminate.
  rewrite (read_block_header_src_ext _ _ _ t Eh). cbn [rbind].
  destruct (decode_block_content ty d c (fr_scratch (set_scratch s (fr_scratch s) 3 0)) r1) as [[[sc nb] r2]|e|e] eqn:Ec;
    cbn [rbind] in H; try discriminate.
  rewrite (decode_block_content_ext _ _ _ _ _ _ _ _ t Ec). cbn [rbind].
  destruct last.
  - destruct (checksum_flag (set_scratch (set_scratch s (fr_scratch s) 3 0) sc nb 1)).
    + destruct (read_exact 4 r2) as [[ck r3]|] eqn:Ek; [|discriminate]. rewrite (read_exact_ext _ _ _ _ t Ek).
      injection H as <- <-. split; reflexivity.
    + injection H as <- <-. split; reflexivity.
  - cbn [negb] in *. apply IH. exact H.
Qed.

Lemma loop_fuel_mono fuel : forall s src strat lb bb x k,
  decode_blocks_loop fuel s src strat lb bb = ROk x -> decode_blocks_loop (fuel + k) s src strat lb bb = ROk x.
Proof.
  induction fuel as [|f IH]; intros s src strat lb bb x k H; [discriminate|].
  cbn [Nat.add decode_blocks_loop] in *.
  destruct (read_block_header_src src) as [[[[[last ty] d] c] r1]|e|e]; cbn [rbind] in *; try discriminate.
  destruct (decode_block_content ty d c (fr_scratch (set_scratch s (fr_scratch s) 3 0)) r1) as [[[sc nb] r2]|e|e]; cbn [rbind] in *; try discriminate.
  destruct last; [exact H|].
  match goal with |- (if ?c then _ else _) = _ => destruct c; [exact H|] end. apply IH. exact H.
Qed.

Theorem prefix_never_finishes fuel s src lb bb s' :
  decode_blocks_loop fuel s src SAll lb bb = ROk (s', []) ->
  forall p t, src = p ++ t -> t <> [] ->
  forall fuel2 s2 r2, decode_blocks_loop fuel2 s p SAll lb bb <> ROk (s2, r2).
Proof.
  intros Hfull p t -> Ht fuel2 s2 r2 Hp.
  destruct (loop_ext _ _ _ _ _ _ _ t Hp) as [Hext _].
  pose proof (loop_fuel_mono _ _ _ _ _ _ _ fuel Hext) as H1.
  pose proof (loop_fuel_mono _ _ _ _ _ _ _ fuel2 Hfull) as H2.
  rewrite Nat.add_comm in H2. rewrite H1 in H2. injection H2 as _ E.
  destruct r2; destruct t; cbn in E; congruence.
Qed.

(** the frame header reader is stable under extension as well *)
Lemma take_ext n (src : list Z) a r t : take n src = Some (a, r) -> take n (src ++ t) = Some (a, r ++ t).
Proof.
  unfold take. rewrite app_length. destruct (Nat.ltb_spec (length src) n) as [|H]; [discriminate|]. intros [= <- <-].
  destruct (Nat.ltb_spec (length src + length t) n) as [|_]; [lia|].
  rewrite firstn_app, skipn_app. replace (n - length src)%nat with 0%nat by lia. cbn [firstn skipn]. rewrite app_nil_r. reflexivity.
Qed.

Lemma read_frame_header_ext src h n t : read_frame_header src = FhOk h n -> read_frame_header (src ++ t) = FhOk h n.
Proof.
  unfold read_frame_header.
  destruct (take 4 src) as [[m r1]|] eqn:E1; [|discriminate]. rewrite (take_ext _ _ _ _ t E1).
  destruct ((407710288 <=? le_val m) && (le_val m <=? 407710303)).
  { destruct (take 4 r1) as [[l r]|]; discriminate. }
  destruct (negb (le_val m =? MAGIC_NUM)); [discriminate|].
  destruct (take 1 r1) as [[dl r2]|] eqn:E2; [|discriminate]. rewrite (take_ext _ _ _ _ t E2).
  cbv zeta.
  destruct (single_segment_flag (znth dl 0)).
  - destruct (dictionary_id_bytes (znth dl 0)) as [dn|e|e]; try discriminate.
    destruct (take (Z.to_nat dn) r2) as [[db r4]|] eqn:E4; [|discriminate]. rewrite (take_ext _ _ _ _ t E4).
    destruct (frame_content_size_bytes (znth dl 0)) as [fn|e|e]; try discriminate.
    destruct (take (Z.to_nat fn) r4) as [[fb r5]|] eqn:E5; [|discriminate]. rewrite (take_ext _ _ _ _ t E5).
    intros H. exact H.
  - destruct (take 1 r2) as [[w r3]|] eqn:E3; [|discriminate]. rewrite (take_ext _ _ _ _ t E3).
    destruct (dictionary_id_bytes (znth dl 0)) as [dn|e|e]; try discriminate.
    destruct (take (Z.to_nat dn) r3) as [[db r4]|] eqn:E4; [|discriminate]. rewrite (take_ext _ _ _ _ t E4).
    destruct (frame_content_size_bytes (znth dl 0)) as [fn|e|e]; try discriminate.
    destruct (take (Z.to_nat fn) r4) as [[fb r5]|] eqn:E5; [|discriminate]. rewrite (take_ext _ _ _ _ t E5).
    intros H. exact H.
Qed.

Require Import Zrs.proofs.C11_Reset.

Lemma drop_z_app n (a b : list Z) : 0 <= n <= Z.of_nat (length a) -> drop_z n (a ++ b) = drop_z n a ++ b.
Proof.
  intros H. unfold drop_z. rewrite skipn_app. replace (Z.to_nat n - length a)%nat with 0%nat by lia. reflexivity.
Qed.

Lemma frame_front_ext src mw h n w rest t :
  frame_front src mw = inl (ROk (h, n, w, rest)) -> frame_front (src ++ t) mw = inl (ROk (h, n, w, rest ++ t)).
Proof.
  unfold frame_front. destruct (read_frame_header src) as [h0 n0| | |] eqn:E; try discriminate.
  rewrite (read_frame_header_ext _ _ _ t E).
  destruct (read_frame_header_consumed _ _ _ E) as (hd & rs & Es & Ln & Hn & _).
  destruct (fh_window_size h0) as [w0|e|e]; cbn [rbind]; try discriminate.
  destruct (check_window_size w0 mw) as [u|e|e]; cbn [rbind]; try discriminate.
  intros [= <- <- <- <-]. rewrite drop_z_app; [reflexivity|]. rewrite Es, app_length. lia.
Qed.

Lemma fdec_reset_ext d src d1 rest ev t :
  fdec_reset d src = ROk (d1, rest, ev) -> fdec_reset d (src ++ t) = ROk (d1, rest ++ t, ev).
Proof.
  unfold fdec_reset.
  destruct (frame_front src (fd_max_window d)) as [[[[[h n] w] r]|e|e]|?] eqn:E; try discriminate.
  rewrite (frame_front_ext _ _ _ _ _ _ t E).
  destruct (fd_state d); cbv beta iota zeta;
    (destruct (fh_dict_id h) as [id|]; [destruct (find (fun dd => d_id dd =? id) (fd_dicts d)); [|discriminate]|]);
    intros [= <- <- <-]; reflexivity.
Qed.

(** the whole decoding of a frame: a strict prefix of a frame that a new decoder decodes completely (nothing left
    over) is never decoded to a normal return by a new decoder, at whatever point it was cut *)
Theorem frame_prefix_never_finishes d frame d1 rest ev d2 :
  fdec_reset d frame = ROk (d1, rest, ev) -> fdec_decode_blocks d1 rest SAll = ROk (d2, [], true) ->
  forall p t, frame = p ++ t -> t <> [] ->
  forall d1' rest' ev', fdec_reset d p = ROk (d1', rest', ev') ->
  forall x, fdec_decode_blocks d1' rest' SAll <> ROk x.
Proof.
  intros Hr Hd p t -> Ht d1' rest' ev' Hr' x Hd'.
  rewrite (fdec_reset_ext _ _ _ _ _ t Hr') in Hr. injection Hr as <- <- <-.
  unfold fdec_decode_blocks in *. destruct (fd_state d1') as [s|]; [|discriminate].
  destruct (decode_blocks_loop (S (S (length (rest' ++ t)))) s (rest' ++ t) SAll (db_len (sc_buf (fr_scratch s))) (fr_blocks s))
    as [[s1 r1]|e|e] eqn:E1; cbn [rbind] in Hd; try discriminate.
  injection Hd as _ -> _.
  destruct (decode_blocks_loop (S (S (length rest'))) s rest' SAll (db_len (sc_buf (fr_scratch s))) (fr_blocks s))
    as [[s2 r2]|e|e] eqn:E2; cbn [rbind] in Hd'; try discriminate.
  exact (prefix_never_finishes _ _ _ _ _ _ E1 rest' t eq_refl Ht _ _ _ E2).
Qed.
