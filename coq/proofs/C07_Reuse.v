(** C07: initialising a decoder for a new frame yields the same per-frame state whether or not it was used before. *)
Require Import Zrs.lib.RsPrelude Zrs.gen.Generated Zrs.model.Headers Zrs.model.BitIO Zrs.model.FseDec Zrs.model.HufDec
               Zrs.model.BlockDec Zrs.model.FrameDec.
Open Scope Z_scope.

(** every table of a scratch area still has the alphabet bound it was created with *)
Definition scratch_alphabets_ok (sc : scratch) : Prop :=
  t_max_symbol (fs_of (sc_fse sc)) = MAX_OFFSET_CODE /\
  t_max_symbol (fs_ll (sc_fse sc)) = MAX_LITERAL_LENGTH_CODE /\
  t_max_symbol (fs_ml (sc_fse sc)) = MAX_MATCH_LENGTH_CODE /\
  t_max_symbol (ht_fse (sc_huf sc)) = 255.

Lemma scratch_new_alphabets w : scratch_alphabets_ok (scratch_new w).
Proof. repeat split. Qed.

(** the field-by-field reset of scratch.rs / decode_buffer.rs / fse_decoder.rs / huff0_decoder.rs gives exactly the
    state a new scratch area has *)
Theorem scratch_reset_eq_new sc w : scratch_alphabets_ok sc -> scratch_reset sc w = scratch_new w.
Proof.
  intros (A & B & C & D). unfold scratch_reset, scratch_new, huf_reset, huf_new, fse_scratch_reset, fse_scratch_new,
    fse_reset, db_reset. rewrite A, B, C, D. reflexivity.
Qed.

(** consequently reset and first use produce the same decoder, for every source *)
Theorem reset_eq_fresh d src :
  (forall s, fd_state d = Some s -> scratch_alphabets_ok (fr_scratch s)) ->
  match fdec_reset d src,
        fdec_reset {| fd_state := None; fd_dicts := fd_dicts d; fd_max_window := fd_max_window d |} src with
  | ROk (d1, r1, _), ROk (d2, r2, _) => d1 = d2 /\ r1 = r2
  | RErr e1, RErr e2 => e1 = e2
  | RPanic e1, RPanic e2 => e1 = e2
  | _, _ => False
  end.
Proof.
  intros H. unfold fdec_reset. cbn [fd_state fd_dicts fd_max_window].
  destruct (frame_front src (fd_max_window d)) as [[[[[h n] w] rest]|e|e]|?]; try reflexivity.
  destruct (fd_state d) as [s|] eqn:Es; cbv beta iota zeta.
  - rewrite (scratch_reset_eq_new _ w (H s eq_refl)).
    destruct (fh_dict_id h) as [id|]; [destruct (find _ (fd_dicts d))|]; try reflexivity; split; reflexivity.
  - destruct (fh_dict_id h) as [id|]; [destruct (find _ (fd_dicts d))|]; try reflexivity; split; reflexivity.
Qed.
