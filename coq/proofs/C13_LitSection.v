(** C13 / C02: the Huffman-coded literals section round trip.  For every literal buffer the compressor Huffman-codes
    (1025 .. 128 Ki literals), every code/table pair in which the table resolves the code words of the literals, and
    any table description the decoder turns into that table: header, description, jump table and the four streams are
    read back by [decode_literals] as exactly the literals. *)
Require Import Zrs.lib.RsPrelude Zrs.gen.Generated Zrs.model.Headers Zrs.model.BitIO Zrs.model.FseDec Zrs.model.HufDec Zrs.model.BlockDec.
Require Import Zrs.model.BitStream Zrs.model.LitEnc.
Require Import Zrs.proofs.C12_Stream Zrs.proofs.C13_Stream.
Open Scope Z_scope.
Ltac Zify.zify_post_hook ::= Z.div_mod_to_equations.

(** *** header *)
Lemma huf_header_parse_small ty regen comp rest : (ty = 2 \/ ty = 3) -> 0 <= regen < 16384 -> 0 <= comp < 16384 ->
  lit_header_parse (huf_lit_header ty regen comp ++ rest) = ROk (4, ty, regen, Some comp, Some 4).
Proof.
  intros Hty Hr Hc. unfold huf_lit_header, lit_header_value.
  destruct (Z.ltb_spec regen 16384) as [_|H]; [|lia].
  remember (ty + 4 * 2 + 16 * regen + 16 * 16384 * comp) as V eqn:EV.
  cbn [le_bytes app].
  remember (V mod 256) as r0. remember (V / 256 mod 256) as r1. remember (V / 256 / 256 mod 256) as r2.
  remember (V / 256 / 256 / 256 mod 256) as r3.
  assert (HV : 0 <= V < 2 ^ 32) by lia.
  assert (F0 : r0 mod 4 = ty) by lia.
  assert (F1 : (r0 / 4) mod 4 = 2) by lia.
  assert (F2 : r0 / 16 + r1 * 16 + (r2 mod 4) * 4096 = regen) by lia.
  assert (F3 : r2 / 4 + r3 * 64 = comp) by lia.
  unfold lit_header_parse, header_bytes_needed, literals_section_type. cbv zeta.
  rewrite Z.mod_mod by lia. rewrite F0. change (2 ^ 2) with 4. rewrite F1.
  unfold znth. change (Z.to_nat 1) with 1%nat. change (Z.to_nat 2) with 2%nat. change (Z.to_nat 3) with 3%nat. change (Z.to_nat 4) with 4%nat.
  cbn [nth length].
  destruct Hty as [-> | ->]; cbn [Z.eqb Pos.eqb orb rbind];
    (destruct (Z.ltb_spec (Z.of_nat (S (S (S (S (length rest)))))) 4) as [H|_]; [lia|]);
    rewrite F2, F3; reflexivity.
Qed.

Lemma huf_header_parse_large ty regen comp rest : (ty = 2 \/ ty = 3) -> 16384 <= regen < 262144 -> 0 <= comp < 262144 ->
  lit_header_parse (huf_lit_header ty regen comp ++ rest) = ROk (5, ty, regen, Some comp, Some 4).
Proof.
  intros Hty Hr Hc. unfold huf_lit_header, lit_header_value.
  destruct (Z.ltb_spec regen 16384) as [H|_]; [lia|].
  remember (ty + 4 * 3 + 16 * regen + 16 * 262144 * comp) as V eqn:EV.
  cbn [le_bytes app].
  remember (V mod 256) as r0. remember (V / 256 mod 256) as r1. remember (V / 256 / 256 mod 256) as r2.
  remember (V / 256 / 256 / 256 mod 256) as r3. remember (V / 256 / 256 / 256 / 256 mod 256) as r4.
  assert (HV : 0 <= V < 2 ^ 40) by lia.
  assert (F0 : r0 mod 4 = ty) by lia.
  assert (F1 : (r0 / 4) mod 4 = 3) by lia.
  assert (F2 : r0 / 16 + r1 * 16 + (r2 mod 64) * 4096 = regen) by lia.
  assert (F3 : r2 / 64 + r3 * 4 + r4 * 1024 = comp) by lia.
  unfold lit_header_parse, header_bytes_needed, literals_section_type. cbv zeta.
  rewrite Z.mod_mod by lia. rewrite F0. change (2 ^ 2) with 4. rewrite F1.
  unfold znth. change (Z.to_nat 1) with 1%nat. change (Z.to_nat 2) with 2%nat. change (Z.to_nat 3) with 3%nat. change (Z.to_nat 4) with 4%nat.
  cbn [nth length].
  destruct Hty as [-> | ->]; cbn [Z.eqb Pos.eqb orb rbind];
    (destruct (Z.ltb_spec (Z.of_nat (S (S (S (S (S (length rest))))))) 5) as [H|_]; [lia|]);
    rewrite F2, F3; reflexivity.
Qed.

Lemma huf_header_length ty regen comp : zlen (huf_lit_header ty regen comp) = if regen <? 16384 then 4 else 5.
Proof. unfold huf_lit_header, lit_header_value. destruct (regen <? 16384); reflexivity. Qed.

(** *** four streams *)
Lemma skipn_add' {A} (x y : nat) : forall l : list A, skipn x (skipn y l) = skipn (y + x) l.
Proof. induction y as [|y IH]; intros l; [reflexivity|]. destruct l as [|h tl]; [rewrite !skipn_nil; reflexivity|]. cbn [skipn Nat.add]. apply IH. Qed.
Lemma split4_spec lits : (16 <= length lits)%nat ->
  let '(a, b, c, d) := split4 lits in
  lits = a ++ b ++ c ++ d /\ a <> [] /\ b <> [] /\ c <> [] /\ d <> [].
Proof.
  intros Hn. unfold split4. set (s := quarter (length lits)).
  assert (Hs : (4 <= s /\ 3 * s < length lits)%nat) by (unfold s, quarter; lia).
  assert (E : lits = firstn s lits ++ firstn s (skipn s lits) ++ firstn s (skipn (2 * s) lits) ++ skipn (3 * s) lits).
  { rewrite <- (firstn_skipn s lits) at 1. f_equal.
    rewrite <- (firstn_skipn s (skipn s lits)) at 1. f_equal.
    rewrite skipn_add'. replace (s + s)%nat with (2 * s)%nat by lia.
    rewrite <- (firstn_skipn s (skipn (2 * s) lits)) at 1. f_equal.
    rewrite skipn_add'. f_equal. lia. }
  split; [exact E|].
  assert (L : forall k, (k + s <= length lits)%nat -> length (firstn s (skipn k lits)) = s)
    by (intros k Hk; rewrite firstn_length, skipn_length; lia).
  repeat split; intros H0; apply (f_equal (@length Z)) in H0; cbn [length] in H0.
  - rewrite firstn_length in H0. lia.
  - rewrite L in H0; lia.
  - rewrite L in H0; lia.
  - rewrite skipn_length in H0. lia.
Qed.

Lemma le16_read n rest : 0 <= n < 65536 -> nth_z (le16 n ++ rest) 0 + nth_z (le16 n ++ rest) 1 * 256 = n.
Proof. intros H. unfold le16, nth_z. cbn [app]. change (Z.to_nat 0) with 0%nat. change (Z.to_nat 1) with 1%nat. cbn [nth]. lia. Qed.

Lemma drop_app2 (x y r : list Z) : drop_z (zlen x + zlen y) (x ++ y ++ r) = r.
Proof. rewrite app_assoc. replace (zlen x + zlen y) with (zlen (x ++ y)) by (unfold zlen; rewrite app_length; lia). unfold drop_z, zlen. rewrite Nat2Z.id, skipn_app, Nat.sub_diag, skipn_all. reflexivity. Qed.
Lemma drop_app1 (x r : list Z) : drop_z (zlen x) (x ++ r) = r.
Proof. unfold drop_z, zlen. rewrite Nat2Z.id, skipn_app, Nat.sub_diag, skipn_all. reflexivity. Qed.
Lemma take_app1 (x r : list Z) : take_z (zlen x) (x ++ r) = x.
Proof. unfold take_z, zlen. rewrite Nat2Z.id, firstn_app, Nat.sub_diag, firstn_O, app_nil_r, firstn_all. reflexivity. Qed.
Lemma zlen_app' (x y : list Z) : zlen (x ++ y) = zlen x + zlen y.
Proof. unfold zlen. rewrite app_length. lia. Qed.
Lemma zlen_nonneg (x : list Z) : 0 <= zlen x.
Proof. unfold zlen. lia. Qed.

Section Four.
  Variable t : huf_table.
  Variable Mn : nat.
  Hypothesis HM : ht_max_bits t = Z.of_nat Mn.
  Hypothesis HM1 : (1 <= Mn)%nat.
  Hypothesis Hlen : ht_len t = 2 ^ Z.of_nat Mn.
  Variable code : Z -> hcode.
  Variables a b c d : list Z.
  Hypothesis Hne : a <> [] /\ b <> [] /\ c <> [] /\ d <> [].
  Hypothesis Hok : Forall (code_ok Mn code) (a ++ b ++ c ++ d).
  Hypothesis Hres : Forall (resolves t Mn code) (a ++ b ++ c ++ d).
  Hypothesis Hsizes : zlen (hstream code a) < 65536 /\ zlen (hstream code b) < 65536 /\ zlen (hstream code c) < 65536.

  Definition four_bytes : list Z :=
    le16 (zlen (hstream code a)) ++ le16 (zlen (hstream code b)) ++ le16 (zlen (hstream code c)) ++
    hstream code a ++ hstream code b ++ hstream code c ++ hstream code d.

  (** the compressed-literals branch of [decode_literals] on description + four streams *)
  Lemma huffman_payload_decodes ty desc ht :
    (ty = 2 /\ huf_build_decoder ht (desc ++ four_bytes) = ROk (t, zlen desc)) \/ (ty = 3 /\ desc = [] /\ ht = t) ->
    decode_literals {| ls_type := ty; ls_regen := zlen (a ++ b ++ c ++ d); ls_comp := Some (zlen (desc ++ four_bytes)); ls_streams := Some 4 |}
                    ht (desc ++ four_bytes) = ROk (t, a ++ b ++ c ++ d, zlen (desc ++ four_bytes)).
  Proof.
    intros Hty. destruct Hne as (Na & Nb & Nc & Nd). destruct Hsizes as (S1 & S2 & S3).
    apply Forall_app in Hok as (Oa & Hok1). apply Forall_app in Hok1 as (Ob & Hok2). apply Forall_app in Hok2 as (Oc & Od).
    apply Forall_app in Hres as (Ra & Hr1). apply Forall_app in Hr1 as (Rb & Hr2). apply Forall_app in Hr2 as (Rc & Rd).
    unfold decode_literals. cbn [ls_type ls_regen ls_comp ls_streams].
    assert (T0 : ty =? 0 = false) by (destruct Hty as [(-> & _)|(-> & _)]; reflexivity).
    assert (T1 : ty =? 1 = false) by (destruct Hty as [(-> & _)|(-> & _)]; reflexivity).
    rewrite T0, T1.
    destruct (Z.ltb_spec (zlen (desc ++ four_bytes)) (zlen (desc ++ four_bytes))) as [H|_]; [lia|].
    replace (take_z (zlen (desc ++ four_bytes)) (desc ++ four_bytes)) with (desc ++ four_bytes)
      by (unfold take_z, zlen; rewrite Nat2Z.id, firstn_all; reflexivity).
    assert (Etab : (if ty =? 2 then huf_build_decoder ht (desc ++ four_bytes)
                    else if ht_max_bits ht =? 0 then RErr "UninitializedHuffmanTable" else ROk (ht, 0)) = ROk (t, zlen desc)).
    { destruct Hty as [(-> & Hb)|(-> & -> & ->)].
      - exact Hb.
      - change (3 =? 2) with false. cbv iota. rewrite HM. destruct (Z.eqb_spec (Z.of_nat Mn) 0) as [H|_]; [lia|]. reflexivity. }
    rewrite Etab. cbn [rbind].
    destruct (Z.ltb_spec (zlen (desc ++ four_bytes)) (zlen desc)) as [H|_]; [rewrite zlen_app' in H; pose proof (zlen_nonneg four_bytes); lia|].
    rewrite drop_app1. change (4 =? 4) with true. cbv iota.
    pose proof (zlen_nonneg (hstream code a)) as P1. pose proof (zlen_nonneg (hstream code b)) as P2.
    pose proof (zlen_nonneg (hstream code c)) as P3.
    remember (zlen (desc ++ four_bytes)) as total eqn:Etot.
    unfold four_bytes, le16. cbn [app].
    set (z1 := zlen (hstream code a)) in *. set (z2 := zlen (hstream code b)) in *. set (z3 := zlen (hstream code c)) in *.
    set (body := hstream code a ++ hstream code b ++ hstream code c ++ hstream code d).
    assert (Hz : zlen (z1 mod 256 :: z1 / 256 :: z2 mod 256 :: z2 / 256 :: z3 mod 256 :: z3 / 256 :: body) = 6 + zlen body)
      by (unfold zlen; cbn [length]; lia).
    rewrite Hz. destruct (Z.ltb_spec (6 + zlen body) 6) as [H|_]; [pose proof (zlen_nonneg body); lia|].
    unfold nth_z. change (Z.to_nat 0) with 0%nat. change (Z.to_nat 1) with 1%nat. change (Z.to_nat 2) with 2%nat.
    change (Z.to_nat 3) with 3%nat. change (Z.to_nat 4) with 4%nat. change (Z.to_nat 5) with 5%nat. cbn [nth].
    replace (z1 mod 256 + z1 / 256 * 256) with z1 by lia.
    replace (z1 + z2 mod 256 + z2 / 256 * 256) with (z1 + z2) by lia.
    replace (z1 + z2 + z3 mod 256 + z3 / 256 * 256) with (z1 + z2 + z3) by lia.
    change (drop_z 6 (z1 mod 256 :: z1 / 256 :: z2 mod 256 :: z2 / 256 :: z3 mod 256 :: z3 / 256 :: body)) with body.
    assert (Hb : zlen body = z1 + z2 + z3 + zlen (hstream code d)) by (unfold body; rewrite !zlen_app'; lia).
    destruct (Z.ltb_spec (zlen body) (z1 + z2 + z3)) as [H|_]; [pose proof (zlen_nonneg (hstream code d)); lia|].
    unfold body, z1, z2, z3.
    rewrite take_app1, drop_app1.
    replace (zlen (hstream code a) + zlen (hstream code b) - zlen (hstream code a)) with (zlen (hstream code b)) by lia.
    rewrite take_app1. rewrite drop_app2.
    replace (zlen (hstream code a) + zlen (hstream code b) + zlen (hstream code c) - (zlen (hstream code a) + zlen (hstream code b)))
      with (zlen (hstream code c)) by lia.
    rewrite take_app1.
    replace (drop_z (zlen (hstream code a) + zlen (hstream code b) + zlen (hstream code c))
               (hstream code a ++ hstream code b ++ hstream code c ++ hstream code d)) with (hstream code d).
    2:{ replace (hstream code a ++ hstream code b ++ hstream code c ++ hstream code d)
          with ((hstream code a ++ hstream code b) ++ hstream code c ++ hstream code d) by (rewrite <- app_assoc; reflexivity).
        replace (zlen (hstream code a) + zlen (hstream code b) + zlen (hstream code c))
          with (zlen (hstream code a ++ hstream code b) + zlen (hstream code c)) by (rewrite zlen_app'; lia).
        rewrite drop_app2. reflexivity. }
    change (hstream code) with (huf_stream_bytes code).
    rewrite (huffman_stream_roundtrip t Mn HM HM1 Hlen code a []) by assumption. cbn [rbind].
    rewrite (huffman_stream_roundtrip t Mn HM HM1 Hlen code b) by assumption. cbn [rbind].
    rewrite (huffman_stream_roundtrip t Mn HM HM1 Hlen code c) by assumption. cbn [rbind].
    rewrite (huffman_stream_roundtrip t Mn HM HM1 Hlen code d) by assumption. cbn [rbind].
    rewrite !app_nil_r.
    assert (Er : rev d ++ rev c ++ rev b ++ rev a = rev (a ++ b ++ c ++ d)) by (rewrite !rev_app_distr, <- !app_assoc; reflexivity).
    rewrite Er. unfold zlen at 1. rewrite rev_length. fold (zlen (a ++ b ++ c ++ d)). rewrite Z.eqb_refl. cbn [negb].
    unfold rev'. rewrite <- rev_alt, rev_involutive.
    do 2 f_equal. rewrite Etot, zlen_app'. unfold four_bytes, le16. rewrite !zlen_app'. change (huf_stream_bytes code) with (hstream code).
    unfold zlen. cbn [length]. lia.
  Qed.
End Four.

(** *** the side conditions are decidable *)
Lemma code_ok_b_sound mn code s : code_ok_b mn code s = true -> code_ok mn code s.
Proof.
  unfold code_ok_b, code_ok. intros H. apply andb_prop in H as [H H4]. apply andb_prop in H as [H H3]. apply andb_prop in H as [H1 H2].
  apply Nat.leb_le in H1. apply Nat.leb_le in H2. split; [lia|lia].
Qed.

Lemma resolves_b_sound t mn code s : code_ok mn code s -> resolves_b t mn code s = true -> resolves t mn code s.
Proof.
  intros (Hl & Hc) H. unfold resolves. intros w Lw Hw. unfold resolves_b in H. rewrite forallb_forall in H.
  set (n := snd (code s)) in *.
  assert (Ew : w = cw code s ++ skipn n w) by (rewrite <- Hw; symmetry; apply firstn_skipn).
  assert (Lc : length (cw code s) = n) by apply cw_length.
  assert (Ls : length (skipn n w) = (mn - n)%nat) by (rewrite skipn_length; lia).
  assert (Vc : bits_val_msb (cw code s) = fst (code s)).
  { unfold cw. rewrite bits_val_msb_rev. apply val_of_byte_bits. exact Hc. }
  pose proof (msb_bound (skipn n w)) as Bk. rewrite Ls in Bk.
  assert (Ev : bits_val_msb w = fst (code s) * 2 ^ Z.of_nat (mn - n) + bits_val_msb (skipn n w)).
  { rewrite Ew at 1. rewrite msb_app, Ls, Vc. reflexivity. }
  specialize (H (Z.to_nat (bits_val_msb (skipn n w)))).
  rewrite Z2Nat.id in H by lia. rewrite <- Ev in H.
  assert (Hin : In (Z.to_nat (bits_val_msb (skipn n w))) (seq 0 (Z.to_nat (2 ^ Z.of_nat (mn - n))))) by (apply in_seq; lia).
  specialize (H Hin). apply andb_prop in H as [E1 E2].
  destruct (nth_h (ht_decode t) (bits_val_msb w)) as [sy bi]. cbn [h_sym h_bits] in *. f_equal; lia.
Qed.

Lemma table_side_b_sound t mn : table_side_b t mn = true ->
  ht_max_bits t = Z.of_nat mn /\ (1 <= mn)%nat /\ ht_len t = 2 ^ Z.of_nat mn.
Proof.
  unfold table_side_b. intros H. apply andb_prop in H as [H H3]. apply andb_prop in H as [H1 H2].
  apply Nat.leb_le in H2. repeat split; lia.
Qed.
