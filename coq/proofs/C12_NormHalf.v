(** C12 / C13: with the "avoid zero bits" option the normaliser never leaves a probability above half the table size --
    for every histogram.  (With C12_AvoidBits: every state of the table built from its output carries a bit.) *)
Require Import Zrs.lib.RsPrelude Zrs.model.FseDec Zrs.model.FseEnc Zrs.model.FseNorm.
Require Import Zrs.proofs.C12_Desc Zrs.proofs.C12_Norm.
Open Scope Z_scope.

Lemma pair_le_zsum l : Forall (fun p => 0 <= p) l -> forall i k, (i < length l)%nat -> (k < length l)%nat -> i <> k -> nth i l 0 + nth k l 0 <= zsum l.
Proof.
  induction 1 as [|p t Hp Ht IH]; intros i k Hi Hk Hne; [cbn in Hi; lia|].
  pose proof (zsum_nonneg t Ht) as Hz. cbn [zsum fold_right]. fold (zsum t).
  destruct i as [|i]; destruct k as [|k]; cbn [nth length] in *; try lia.
  - assert (nth k t 0 <= zsum t); [|lia]. clear - Ht Hk. revert k Hk. induction Ht as [|q u Hq Hu IHu]; intros k Hk; [cbn in Hk; lia|].
    pose proof (zsum_nonneg u Hu). cbn [zsum fold_right]. fold (zsum u). destruct k; cbn [nth length] in *; [lia|]. specialize (IHu k ltac:(lia)). lia.
  - assert (nth i t 0 <= zsum t); [|lia]. clear - Ht Hi. revert i Hi. induction Ht as [|q u Hq Hu IHu]; intros i Hi; [cbn in Hi; lia|].
    pose proof (zsum_nonneg u Hu). cbn [zsum fold_right]. fold (zsum u). destruct i; cbn [nth length] in *; [lia|]. specialize (IHu i ltac:(lia)). lia.
  - specialize (IH i k ltac:(lia) ltac:(lia) ltac:(lia)). lia.
Qed.

Lemma avoid_step_half probs al al' out : 1 <= al -> probs <> [] -> Forall (fun p => 0 <= p) probs -> zsum probs = 2 ^ al ->
  (let i := last_max_idx probs in
   let mx := nth i probs 0 in
   if true && (2 ^ (al - 1) <? mx) then
     let redistribute := mx - 2 ^ (al - 1) in
     let probs' := upd probs i (mx - redistribute) in
     let mx' := mx - redistribute in
     let others := filter (fun x => negb (x =? mx')) probs' in
     match others with
     | [] => RPanic "called `Option::unwrap()` on a `None` value"
     | _ =>
         let second := nth (last_max_idx others) others 0 in
         match first_idx_of probs' second 0 with
         | None => RPanic "called `Option::unwrap()` on a `None` value"
         | Some j =>
             if mx' <? nth j probs' 0 + redistribute then RPanic "assertion failed: *second_max <= max"
             else ROk (al, upd probs' j (nth j probs' 0 + redistribute))
         end
     end
   else ROk (al, probs)) = ROk (al', out) ->
  Forall (fun p => p <= 2 ^ (al - 1)) out.
Proof.
  intros Hal Hne Hnn Hs. cbv zeta. cbn [andb].
  pose proof (last_max_idx_lt probs Hne) as Hi. pose proof (last_max_is_max probs Hne) as Hmax.
  set (i := last_max_idx probs) in *. set (mx := nth i probs 0) in *.
  assert (Hp : 0 < 2 ^ (al - 1)) by (apply Z.pow_pos_nonneg; lia).
  assert (E2 : 2 ^ al = 2 * 2 ^ (al - 1)) by (rewrite <- Z.pow_succ_r by lia; f_equal; lia).
  destruct (Z.ltb_spec (2 ^ (al - 1)) mx) as [Hbig|Hsmall].
  2:{ intros H. injection H as _ <-. eapply Forall_impl; [|exact Hmax]. intros a Ha. cbv beta in *. lia. }
  replace (mx - (mx - 2 ^ (al - 1))) with (2 ^ (al - 1)) by lia.
  set (probs' := upd probs i (2 ^ (al - 1))).
  destruct (filter (fun x => negb (x =? 2 ^ (al - 1))) probs') as [|o os] eqn:Ef; [discriminate|].
  set (second := nth (last_max_idx (o :: os)) (o :: os) 0).
  destruct (first_idx_of probs' second 0) as [j|] eqn:Ej; [|discriminate].
  destruct (Z.ltb_spec (2 ^ (al - 1)) (nth j probs' 0 + (mx - 2 ^ (al - 1)))) as [|Hle]; [discriminate|].
  intros H. injection H as _ <-.
  (* every entry other than the maximum is below half, because the maximum is above half *)
  assert (Hoth : forall k, (k < length probs)%nat -> k <> i -> nth k probs 0 <= 2 ^ (al - 1)).
  { intros k Hk Hki. pose proof (pair_le_zsum probs Hnn i k Hi Hk ltac:(congruence)) as P. fold mx in P. lia. }
  assert (Hall' : Forall (fun p => p <= 2 ^ (al - 1)) probs').
  { apply Forall_forall. intros x Hx. apply (In_nth _ _ 0) in Hx as (k & Hk & <-). unfold probs' in *. rewrite upd_length in Hk.
    destruct (Nat.eq_dec k i) as [->|Hki]; [rewrite nth_upd_same by exact Hi; lia|rewrite nth_upd_other by congruence; apply Hoth; assumption]. }
  apply Forall_upd; [exact Hall'|lia].
Qed.

Theorem norm_counts_half_bounded counts max_log al probs :
  5 <= max_log -> Forall (fun c => 0 <= c) counts -> 0 < last counts 0 -> (2 <= length counts)%nat ->
  norm_counts counts max_log true = ROk (al, probs) ->
  Forall (fun p => p <= 2 ^ (al - 1)) probs.
Proof.
  intros Hml Hc Hlast Hlen. unfold norm_counts.
  replace (Nat.max (length counts) 2) with (length counts) by lia. rewrite Nat.sub_diag. cbn [zeros]. rewrite app_nil_r.
  set (mc := fold_left (fun m c => if (0 <? c) && ((c <? m) || (m =? 0)) then c else m) counts 0).
  destruct (min_fold_spec counts 0 ltac:(lia) Hc) as (M0 & M1 & M2). fold mc in M0, M1, M2.
  destruct (Z.eqb_spec mc 0) as [E0|E0]; [discriminate|].
  destruct (M2 ltac:(lia)) as (_ & Mle).
  set (p1 := map (fun p => if 0 <? p then p - (mc - 1) else p) counts).
  assert (K1 : Forall2 keeps counts p1).
  { apply keeps_map; [|exact Hc]. intros c Hc0 Hin. rewrite Forall_forall in Mle. specialize (Mle c Hin).
    unfold keeps. destruct (Z.ltb_spec 0 c); split; intros; lia. }
  set (p2 := if (0 <? zmaxl p1) && (Z.of_nat (length counts) <? zmaxl p1)
             then map (fun p => if 0 <? p then Z.max (p / (zmaxl p1 / Z.of_nat (length counts))) 1 else p) p1 else p1).
  assert (K2 : Forall2 keeps counts p2).
  { unfold p2. destruct ((0 <? zmaxl p1) && (Z.of_nat (length counts) <? zmaxl p1)); [|exact K1].
    apply keeps_map2; [|exact Hc|exact K1]. intros p. split; intros Hp.
    - subst p. reflexivity.
    - destruct (Z.ltb_spec 0 p); lia. }
  assert (N2 : Forall (fun p => 0 <= p) p2) by exact (keeps_nonneg counts p2 Hc K2).
  assert (L2 : length p2 = length counts) by (symmetry; eapply Forall2_len; exact K2).
  destruct (Z.leb_spec (zsum p2) 0) as [Hs0|Hs0]; [discriminate|].
  set (al0 := Z.min (Z.max (Z.log2 (zsum p2) + 1) 5) max_log).
  assert (Hal : 5 <= al0 <= max_log) by (unfold al0; lia).
  assert (P0 : 0 < 2 ^ al0) by (apply Z.pow_pos_nonneg; lia).
  (* the two ways of reaching the total *)
  assert (Step3 : forall p3, (if zsum p2 <? 2 ^ al0
                              then ROk (upd p2 (last_max_idx p2) (nth (last_max_idx p2) p2 0 + (2 ^ al0 - zsum p2)))
                              else shrink (Z.to_nat (zsum p2 - 2 ^ al0)) p2 (zsum p2 - 2 ^ al0)) = ROk p3 ->
            Forall2 keeps counts p3 /\ zsum p3 = 2 ^ al0 /\ length p3 = length counts).
  { intros p3 H3. destruct (Z.ltb_spec (zsum p2) (2 ^ al0)) as [Hlt|Hge].
    - injection H3 as <-. destruct (zsum_pos_max p2 N2 Hs0) as (Hne & Hmax).
      pose proof (last_max_idx_lt p2 Hne) as Hi.
      split; [apply keeps_nth; [exact K2|exact Hmax|lia]|].
      split; [rewrite zsum_upd by exact Hi; lia|rewrite upd_length; exact L2].
    - assert (Hd0 : 0 <= zsum p2 - 2 ^ al0) by lia.
      destruct (shrink_spec _ counts p2 _ p3 K2 Hd0 H3) as (K3 & S3 & L3).
      split; [exact K3|]. split; [lia|congruence]. }
  destruct (if zsum p2 <? 2 ^ al0 then _ else _) as [p3|e|e] eqn:E3; cbn [rbind]; try discriminate.
  destruct (Step3 p3 eq_refl) as (K3 & S3 & L3).
  assert (N3 : Forall (fun p => 0 <= p) p3) by exact (keeps_nonneg counts p3 Hc K3).
  assert (Hne3 : p3 <> []) by (intros ->; cbn in L3; lia).
  intros Hfin.
  apply (avoid_step_half p3 al0 al probs ltac:(lia) Hne3 N3 S3) in Hfin as Hhalf.
  destruct (avoid_step p3 al0 al probs ltac:(lia) Hne3 N3 S3 Hfin) as (-> & _). exact Hhalf.
Qed.
