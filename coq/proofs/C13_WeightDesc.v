(** C13: the whole FSE-compressed weight description -- header byte (its length), FSE table description, two-state stream
    -- is parsed by [read_weights] into exactly the weights that were written. *)
Require Import Zrs.lib.RsPrelude Zrs.gen.Generated Zrs.model.BitIO Zrs.model.BitStream Zrs.model.FseDec Zrs.model.HufDec Zrs.model.BlockDec Zrs.model.SeqEnc Zrs.model.FseEnc Zrs.model.WeightEnc.
Require Import Zrs.proofs.C12_Stream Zrs.proofs.C12_SeqStream Zrs.proofs.C12_Desc Zrs.proofs.C12_Section Zrs.proofs.C13_WeightStream.
Open Scope Z_scope.

Theorem fse_weight_description_roundtrip t al probs d D syms data rest :
  5 <= al <= 6 -> dist_ok al probs -> Z.of_nat (length probs) <= t_max_symbol (ht_fse t) + 1 ->
  desc_bytes al probs = Some d -> fse_build_from_probabilities (ht_fse t) al probs = ROk D ->
  table_wf D -> Forall (covers D) syms ->
  (forall sym, In sym syms -> (1 <= es_bits (et_start (enc_of_dec D) sym))%nat /\
                              forall idx, 0 <= idx < t_len D -> (1 <= es_bits (et_next (enc_of_dec D) sym idx))%nat) ->
  (forall sym, In sym syms -> es_base (et_start (enc_of_dec D) sym) < t_len D) ->
  (2 <= length data <= 257)%nat -> Forall (fun x => In x syms) data ->
  let stream := stream_bytes (weight_fields (enc_of_dec D) data) in
  let header := zlen d + zlen stream in
  header < 128 ->
  read_weights t (header :: d ++ stream ++ rest) = ROk (data, D, 1 + header).
Proof.
  intros Hal Hd Hlen Hdesc Hb Hwf Hcov Hbits Hbase Hl Hin stream header Hh.
  pose proof (derived_encoder_agrees D syms Hwf Hcov) as Hag.
  destruct (weight_stream_roundtrip D (enc_of_dec D) syms data Hag Hbits Hbase Hl Hin) as (br0 & s1 & br1 & s2 & br2 & Hskip & I1 & I2 & Hloop).
  fold stream in Hskip, Hloop.
  assert (Z0 : forall a : list Z, 0 <= zlen a) by (intros; unfold zlen; lia).
  assert (ZL : forall a b : list Z, zlen (a ++ b) = zlen a + zlen b) by (intros; unfold zlen; rewrite app_length; lia).
  pose proof (Z0 d). pose proof (Z0 stream). pose proof (Z0 rest).
  unfold read_weights. destruct (Z.ltb_spec header 128) as [_|]; [|lia].
  fold (zlen (d ++ stream ++ rest)). rewrite !ZL.
  destruct (Z.ltb_spec (zlen d + (zlen stream + zlen rest)) header) as [|_]; [unfold header in *; lia|].
  assert (Hne : stream ++ rest <> []).
  { pose proof (stream_bytes_nonempty (weight_fields (enc_of_dec D) data)) as N. fold stream in N. destruct stream; [congruence|discriminate]. }
  rewrite (build_decoder_of_description (ht_fse t) al probs 6 (stream ++ rest) D d ltac:(lia) ltac:(lia) Hd Hlen Hne Hdesc Hb). cbn [rbind].
  destruct (Z.ltb_spec header (zlen d)) as [|_]; [unfold header in *; lia|].
  replace (header - zlen d) with (zlen stream) by (unfold header; lia).
  assert (Esk : skipn (Z.to_nat (zlen d)) (d ++ stream ++ rest) = stream ++ rest).
  { unfold zlen. rewrite Nat2Z.id, skipn_app, Nat.sub_diag, skipn_all. reflexivity. }
  rewrite Esk. fold (zlen (stream ++ rest)). rewrite ZL.
  destruct (Z.ltb_spec (zlen stream + zlen rest) (zlen stream)) as [|_]; [lia|].
  assert (Efn : firstn (Z.to_nat (zlen stream)) (stream ++ rest) = stream).
  { unfold zlen. rewrite Nat2Z.id, firstn_app, Nat.sub_diag, firstn_all. cbn [firstn]. apply app_nil_r. }
  rewrite Efn, Hskip, I1. cbn [rbind]. rewrite I2. cbn [rbind]. rewrite Hloop. cbn [rbind].
  rewrite rev_involutive. do 2 f_equal. unfold header. rewrite Z.mul_add_distr_r.
  replace (8 + (zlen d * 8 + zlen stream * 8)) with ((1 + (zlen d + zlen stream)) * 8) by lia. apply Z.div_mul. lia.
Qed.
