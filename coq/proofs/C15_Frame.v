(** C15 / C02: structure of the frames the compressor emits, for EVERY block-level encoder ([cblock] etc. are
    universally quantified): how the input is cut into blocks whatever the reader's fragmentation, what each block
    looks like, the size bound. *)
Require Import Zrs.lib.RsPrelude Zrs.gen.Generated Zrs.model.FrameEnc Zrs.proofs.C14_Headers.
Open Scope Z_scope.

(** *** the read loop delivers the next [slice] bytes (or what is left), however the reader fragments *)
Lemma rd_read_spec r space : (1 <= space)%nat ->
  exists want, (1 <= want <= space)%nat /\
    rd_read r space = (firstn want (rd_data r), {| rd_data := skipn want (rd_data r); rd_script := tl (rd_script r) |}).
Proof.
  intros H. unfold rd_read. destruct (rd_script r) as [|n t].
  - exists space. split; [lia|reflexivity].
  - exists (Nat.min space (S n)). split; [lia|reflexivity].
Qed.

Lemma firstn_split (a : nat) : forall b (l : list Z), firstn (a + b) l = firstn a l ++ firstn b (skipn a l).
Proof.
  induction a as [|a IH]; intros b l; [reflexivity|]. destruct l as [|x t]; [cbn; rewrite firstn_nil; reflexivity|].
  cbn [Nat.add firstn skipn app]. f_equal. apply IH.
Qed.

Lemma skipn_add (a : nat) : forall b (l : list Z), skipn b (skipn a l) = skipn (a + b) l.
Proof.
  induction a as [|a IH]; intros b l; [reflexivity|]. destruct l as [|x t]; [cbn; rewrite skipn_nil; reflexivity|].
  cbn [Nat.add skipn]. apply IH.
Qed.

Lemma fill_block_spec fuel : forall slice acc r,
  (length acc < slice)%nat -> (slice - length acc < fuel)%nat ->
  exists r', fill_block fuel slice acc r =
    (if (slice - length acc <=? length (rd_data r))%nat
     then ROk (acc ++ firstn (slice - length acc) (rd_data r), false, r')
     else ROk (acc ++ rd_data r, true, r')) /\
    rd_data r' = skipn (slice - length acc) (rd_data r).
Proof.
  induction fuel as [|f IH]; intros slice acc r Hacc Hf; [lia|].
  cbn [fill_block].
  destruct (rd_read_spec r (slice - length acc)) as (want & Hw & E); [lia|]. rewrite E.
  destruct (firstn want (rd_data r)) as [|g0 gt] eqn:Eg.
  - (* the source is exhausted *)
    assert (rd_data r = []) as Hd.
    { destruct (rd_data r) as [|x t]; [reflexivity|]. destruct want; [lia|]. discriminate. }
    rewrite Hd. cbn [length]. destruct (Nat.leb_spec (slice - length acc) 0) as [|_]; [lia|].
    eexists. split; [rewrite app_nil_r; reflexivity|]. cbn [rd_data]. rewrite !skipn_nil. reflexivity.
  - rewrite <- Eg.
    assert (Lg : length (firstn want (rd_data r)) = Nat.min want (length (rd_data r))) by apply firstn_length.
    assert (Hpos : (1 <= length (firstn want (rd_data r)))%nat) by (rewrite Eg; cbn; lia).
    rewrite app_length.
    destruct (Nat.eqb_spec (length acc + length (firstn want (rd_data r))) slice) as [Hfull|Hpart].
    + assert (want = slice - length acc)%nat by lia. subst want.
      destruct (Nat.leb_spec (slice - length acc) (length (rd_data r))) as [_|]; [|lia].
      eexists. split; [reflexivity|]. reflexivity.
    + set (r1 := {| rd_data := skipn want (rd_data r); rd_script := tl (rd_script r) |}).
      assert (P1 : (length (acc ++ firstn want (rd_data r)) < slice)%nat) by (rewrite app_length; lia).
      assert (P2 : (slice - length (acc ++ firstn want (rd_data r)) < f)%nat) by (rewrite app_length; lia).
      destruct (IH slice (acc ++ firstn want (rd_data r)) r1 P1 P2) as (r' & E1 & D1).
      rewrite E1. exists r'. rewrite app_length. cbn [rd_data r1] in *. rewrite skipn_length.
      assert (Hgw : (length (firstn want (rd_data r)) = want \/ length (rd_data r) < want)%nat) by lia.
      destruct Hgw as [Hgw|Hshort].
      * (* a full chunk was delivered *)
        rewrite Hgw in *.
        assert (Hwd : (want <= length (rd_data r))%nat) by lia.
        replace (slice - (length acc + want))%nat with (slice - length acc - want)%nat by lia.
        split.
        { destruct (Nat.leb_spec (slice - length acc - want) (length (rd_data r) - want)) as [A|A];
            destruct (Nat.leb_spec (slice - length acc) (length (rd_data r))) as [B|B]; try lia.
          - rewrite <- app_assoc.
            replace (slice - length acc)%nat with (want + (slice - length acc - want))%nat at 2 by lia.
            rewrite firstn_split. reflexivity.
          - rewrite <- app_assoc, firstn_skipn. reflexivity. }
        rewrite D1, skipn_add. f_equal. rewrite app_length, Hgw. lia.
      * (* the reader had fewer bytes than asked for: everything was delivered *)
        assert (Hall : firstn want (rd_data r) = rd_data r) by (apply firstn_all2; lia).
        rewrite Hall in *. rewrite (skipn_all2 (n := want)) in * by lia. cbn [length] in *.
        replace (length (rd_data r) - want)%nat with 0%nat by lia.
        destruct (Nat.leb_spec (slice - (length acc + length (rd_data r))) 0) as [|_]; [lia|].
        destruct (Nat.leb_spec (slice - length acc) (length (rd_data r))) as [|_]; [lia|].
        split; [rewrite app_nil_r; reflexivity|].
        rewrite D1, skipn_nil. symmetry. apply skipn_all2. rewrite ?app_length; lia.
Qed.

(** *** the blocks a frame is made of *)
Fixpoint blocks_of (fuel : nat) (slice : nat) (data : list Z) : list (list Z * bool) :=
  match fuel with
  | O => []
  | S f => if (slice <=? length data)%nat then (firstn slice data, false) :: blocks_of f slice (skipn slice data)
           else [(data, true)]
  end.

Section Structure.
  Variable cstate : Type.
  Variable cblock : cstate -> list Z -> list Z * cstate.
  Variable cskip : cstate -> list Z -> cstate.
  Variable cfallback : cstate -> cstate.
  Variable creset : cstate -> cstate.
  Notation enc_block := (enc_block cstate cblock cskip cfallback).
  Notation compress_loop := (compress_loop cstate cblock cskip cfallback).

  (** encoding of a list of blocks, threading the encoder state; the empty block is the special raw last block *)
  Fixpoint enc_blocks (lv : level) (cs : cstate) (bl : list (list Z * bool)) : res (list Z * cstate) :=
    match bl with
    | [] => ROk ([], cs)
    | (blk, last) :: t =>
        match blk with
        | [] => let* b := block_bytes 0 0 true [] in ROk (b, cs)
        | _ => let* (b, cs') := enc_block lv cs last blk in
               if last then ROk (b, cs')
               else let* (rest, cs'') := enc_blocks lv cs' t in ROk (b ++ rest, cs'')
        end
    end.

  Definition drop_reader (x : res (list Z * cstate * reader)) : res (list Z * cstate) :=
    match x with ROk (o, c, _) => ROk (o, c) | RErr e => RErr e | RPanic e => RPanic e end.

  Lemma compress_loop_spec fuel : forall lv slice cs r out,
    (1 <= slice)%nat -> (length (rd_data r) < fuel)%nat ->
    drop_reader (compress_loop fuel lv slice cs r out) =
      (let* (bs, cs') := enc_blocks lv cs (blocks_of fuel slice (rd_data r)) in ROk (out ++ bs, cs')).
  Proof.
    induction fuel as [|f IH]; intros lv slice cs r out Hs Hf; [lia|].
    cbn [FrameEnc.compress_loop blocks_of].
    destruct (fill_block_spec (S slice) slice [] r) as (r1 & Ef & Dr); [cbn; lia|cbn; lia|].
    cbn [length app] in Ef, Dr. rewrite Nat.sub_0_r in Ef, Dr. rewrite Ef.
    destruct (Nat.leb_spec slice (length (rd_data r))) as [Hfull|Hlast]; cbn [rbind enc_blocks].
    - (* a full block, not the last *)
      destruct (firstn slice (rd_data r)) as [|b0 bt] eqn:Eb.
      { apply (f_equal (@length Z)) in Eb. rewrite firstn_length in Eb. cbn in Eb. lia. }
      destruct (enc_block lv cs false (b0 :: bt)) as [[b cs1]|e|e]; cbn [rbind drop_reader]; try reflexivity.
      rewrite IH; [|exact Hs|rewrite Dr, skipn_length; lia]. rewrite Dr.
      destruct (enc_blocks lv cs1 (blocks_of f slice (skipn slice (rd_data r)))) as [[rest cs2]|e|e]; cbn [rbind]; try reflexivity.
      rewrite app_assoc. reflexivity.
    - destruct (rd_data r) as [|d0 dt] eqn:Ed.
      + destruct (block_bytes 0 0 true []) as [b|e|e]; cbn [rbind drop_reader]; reflexivity.
      + destruct (enc_block lv cs true (d0 :: dt)) as [[b cs1]|e|e]; cbn [rbind drop_reader]; reflexivity.
  Qed.
End Structure.

(** *** sizes *)
Lemma block_header_len ty size last hdr : block_header_serialize ty size last [] = ROk (tt, hdr) -> length hdr = 3%nat.
Proof.
  unfold block_header_serialize. cbv zeta.
  destruct (ty =? 0); [intros [= <-]; reflexivity|]. destruct (ty =? 1); [intros [= <-]; reflexivity|].
  destruct (ty =? 2); [intros [= <-]; reflexivity|]. destruct (ty =? 3); discriminate.
Qed.

Lemma block_bytes_len ty size last payload b : block_bytes ty size last payload = ROk b -> length b = (3 + length payload)%nat.
Proof.
  unfold block_bytes. destruct (block_header_serialize ty (Z.of_nat size) last []) as [[[] hdr]|e|e] eqn:E; cbn [rbind]; [|discriminate|discriminate].
  intros [= <-]. rewrite app_length, (block_header_len _ _ _ _ E). reflexivity.
Qed.

Lemma blocks_of_total fuel : forall slice data, (1 <= slice)%nat -> (length data < fuel)%nat ->
  concat (map fst (blocks_of fuel slice data)) = data /\
  length (blocks_of fuel slice data) = (length data / slice + 1)%nat /\
  Forall (fun b => (length (fst b) <= slice)%nat) (blocks_of fuel slice data).
Proof.
  induction fuel as [|f IH]; intros slice data Hs Hf; [lia|]. cbn [blocks_of].
  destruct (Nat.leb_spec slice (length data)) as [Hfull|Hlast].
  - destruct (IH slice (skipn slice data) Hs) as (C & L & F); [rewrite skipn_length; lia|].
    cbn [map concat fst length]. rewrite C, L, firstn_skipn, skipn_length. split; [reflexivity|]. split.
    + replace (length data) with ((length data - slice) + 1 * slice)%nat at 2 by lia.
      rewrite Nat.div_add by lia. lia.
    + constructor; [cbn [fst]; rewrite firstn_length; lia|exact F].
  - cbn [map concat fst length]. rewrite app_nil_r, Nat.div_small by lia. repeat split. constructor; [cbn [fst]; lia|constructor].
Qed.

Section Sizes.
  Variable cstate : Type.
  Variable cblock : cstate -> list Z -> list Z * cstate.
  Variable cskip : cstate -> list Z -> cstate.
  Variable cfallback : cstate -> cstate.
  Variable creset : cstate -> cstate.

  (** whatever the block encoder returns, an emitted block is never larger than the raw block *)
  Lemma enc_block_size lv cs last blk b cs' : blk <> [] ->
    enc_block cstate cblock cskip cfallback lv cs last blk = ROk (b, cs') -> (length b <= 3 + length blk)%nat.
  Proof.
    intros Hne. destruct lv; cbn [enc_block].
    - destruct (block_bytes 0 (length blk) last blk) as [x|e|e] eqn:E; cbn [rbind]; [|discriminate|discriminate].
      intros [= <- _]. rewrite (block_bytes_len _ _ _ _ _ E). lia.
    - unfold enc_block_fastest. destruct (all_same blk).
      + destruct (block_bytes 1 (length blk) last [nth 0 blk 0]) as [x|e|e] eqn:E; cbn [rbind]; [|discriminate|discriminate].
        intros [= <- _]. rewrite (block_bytes_len _ _ _ _ _ E). destruct blk; [congruence|]. cbn [length]. lia.
      + destruct (cblock cs blk) as [body cs1].
        destruct ((length blk <=? length body)%nat || (MAX_BLOCK_SIZE <? Z.of_nat (length body))) eqn:Efb.
        * destruct (block_bytes 0 (length blk) last blk) as [x|e|e] eqn:E; cbn [rbind]; [|discriminate|discriminate].
          intros [= <- _]. rewrite (block_bytes_len _ _ _ _ _ E). lia.
        * destruct (block_bytes 2 (length body) last body) as [x|e|e] eqn:E; cbn [rbind]; [|discriminate|discriminate].
          intros [= <- _]. rewrite (block_bytes_len _ _ _ _ _ E).
          apply Bool.orb_false_iff in Efb. destruct Efb as [E1 _]. apply Nat.leb_gt in E1. lia.
  Qed.

  Lemma enc_blocks_size lv : forall bl cs out cs',
    enc_blocks cstate cblock cskip cfallback lv cs bl = ROk (out, cs') ->
    (length out <= 3 * length bl + length (concat (map fst bl)))%nat.
  Proof.
    induction bl as [|[blk last] t IH]; intros cs out cs' H; cbn [enc_blocks] in H.
    - injection H as <- _. cbn. lia.
    - cbn [map concat fst length]. rewrite app_length.
      destruct blk as [|b0 bt].
      + destruct (block_bytes 0 0 true []) as [x|e|e] eqn:E; cbn [rbind] in H; [|discriminate|discriminate].
        injection H as <- _. rewrite (block_bytes_len _ _ _ _ _ E). cbn. lia.
      + destruct (enc_block cstate cblock cskip cfallback lv cs last (b0 :: bt)) as [[b cs1]|e|e] eqn:E; cbn [rbind] in H; [|discriminate|discriminate].
        assert (Hne : b0 :: bt <> []) by discriminate.
        pose proof (enc_block_size _ _ _ _ _ _ Hne E) as Hb.
        destruct last; cbv beta iota in H.
        * injection H as <- _. lia.
        * destruct (enc_blocks cstate cblock cskip cfallback lv cs1 t) as [[rest cs2]|e|e] eqn:Er; cbn [rbind] in H; [|discriminate|discriminate].
          injection H as <- _. rewrite app_length. specialize (IH _ _ _ Er). lia.
  Qed.

  (** the frame is never larger than the input plus fixed framing: 6 header bytes, 3 per block, the checksum *)
  Theorem frame_size_bound lv slice wsize hash32 cs data script out cs' r' :
    (1 <= slice)%nat -> (forall h x, hash32 = Some h -> length (h x) = 4%nat) ->
    compress_frame cstate cblock cskip cfallback creset lv slice wsize hash32 cs {| rd_data := data; rd_script := script |} = ROk (out, cs', r') ->
    (length out <= 6 + length data + 3 * (length data / slice + 1) + (if is_some hash32 then 4 else 0))%nat.
  Proof.
    intros Hs Hh. unfold compress_frame. cbn [rd_data].
    pose proof (compress_loop_spec cstate cblock cskip cfallback creset (S (length data)) lv slice (creset cs)
                  {| rd_data := data; rd_script := script |} (frame_header_bytes (Z.max wsize MAX_BLOCK_SIZE) (is_some hash32)) Hs) as L.
    cbn [rd_data] in L. specialize (L (Nat.lt_succ_diag_r _)).
    destruct (compress_loop cstate cblock cskip cfallback (S (length data)) lv slice (creset cs) _ _) as [[[o c] rr]|e|e]; cbn [rbind]; [|discriminate|discriminate].
    intros [= <- _ _]. cbn [drop_reader] in L.
    destruct (enc_blocks cstate cblock cskip cfallback lv (creset cs) (blocks_of (S (length data)) slice data)) as [[bs cs2]|e|e] eqn:Eb; cbn [rbind] in L; [|discriminate|discriminate].
    injection L as -> _.
    pose proof (enc_blocks_size _ _ _ _ _ Eb) as Hsz.
    destruct (blocks_of_total (S (length data)) slice data Hs (Nat.lt_succ_diag_r _)) as (C & Ln & _).
    rewrite C, Ln in Hsz. rewrite !app_length. cbn [length].
    revert Hsz. generalize (length data / slice)%nat. intros q Hsz.
    destruct hash32 as [h|]; cbn [is_some]; [rewrite (Hh h data eq_refl)|cbn [length]]; lia.
  Qed.
End Sizes.

(** *** the shape of a frame; the hash feature only sets the flag and appends the trailer *)
Section Shape.
  Variable cstate : Type.
  Variable cblock : cstate -> list Z -> list Z * cstate.
  Variable cskip : cstate -> list Z -> cstate.
  Variable cfallback : cstate -> cstate.
  Variable creset : cstate -> cstate.

  Theorem compress_frame_shape lv slice wsize hash32 cs data script out cs' r' : (1 <= slice)%nat ->
    compress_frame cstate cblock cskip cfallback creset lv slice wsize hash32 cs {| rd_data := data; rd_script := script |} = ROk (out, cs', r') ->
    exists bs, enc_blocks cstate cblock cskip cfallback lv (creset cs) (blocks_of (S (length data)) slice data) = ROk (bs, cs') /\
      out = frame_header_bytes (Z.max wsize MAX_BLOCK_SIZE) (is_some hash32) ++ bs ++ match hash32 with Some h => h data | None => [] end.
  Proof.
    intros Hs. unfold compress_frame. cbn [rd_data].
    pose proof (compress_loop_spec cstate cblock cskip cfallback creset (S (length data)) lv slice (creset cs)
                  {| rd_data := data; rd_script := script |} (frame_header_bytes (Z.max wsize MAX_BLOCK_SIZE) (is_some hash32)) Hs) as L.
    cbn [rd_data] in L. specialize (L (Nat.lt_succ_diag_r _)).
    destruct (compress_loop cstate cblock cskip cfallback (S (length data)) lv slice (creset cs) _ _) as [[[o c] rr]|e|e]; cbn [rbind]; [|discriminate|discriminate].
    intros [= <- <- _]. cbn [drop_reader] in L.
    destruct (enc_blocks cstate cblock cskip cfallback lv (creset cs) (blocks_of (S (length data)) slice data)) as [[bs cs2]|e|e]; cbn [rbind] in L; [|discriminate|discriminate].
    injection L as -> ->. exists bs. split; [reflexivity|]. unfold frame_header_bytes. cbn [app]. reflexivity.
  Qed.

  (** same input, same compressor state: the frame built with the hash feature is the frame built without it, with
      descriptor bit 2 set and the four checksum bytes appended; blocks are identical *)
  Theorem hash_feature_only_adds_flag_and_trailer lv slice wsize h cs data script out1 c1 r1 out0 c0 r0 : (1 <= slice)%nat ->
    compress_frame cstate cblock cskip cfallback creset lv slice wsize (Some h) cs {| rd_data := data; rd_script := script |} = ROk (out1, c1, r1) ->
    compress_frame cstate cblock cskip cfallback creset lv slice wsize None cs {| rd_data := data; rd_script := script |} = ROk (out0, c0, r0) ->
    exists bs, out0 = frame_header_bytes (Z.max wsize MAX_BLOCK_SIZE) false ++ bs /\
               out1 = frame_header_bytes (Z.max wsize MAX_BLOCK_SIZE) true ++ bs ++ h data /\ c0 = c1.
  Proof.
    intros Hs H1 H0.
    destruct (compress_frame_shape _ _ _ _ _ _ _ _ _ _ Hs H1) as (bs1 & E1 & O1).
    destruct (compress_frame_shape _ _ _ _ _ _ _ _ _ _ Hs H0) as (bs0 & E0 & O0).
    rewrite E1 in E0. injection E0 as <- <-. exists bs1. cbn [is_some] in *. rewrite app_nil_r in O0. repeat split; assumption.
  Qed.
End Shape.
