(** C14: repeat-offset state machine, sequence counts, block headers, window descriptor. *)
Require Import Zrs.lib.RsPrelude Zrs.lib.Sweep Zrs.lib.Bits Zrs.gen.Generated.
Open Scope Z_scope.

(** *** repeat offsets (RFC 8878, 3.1.1.5) written as a table *)
Definition spec_offset_history (ov ll h1 h2 h3 : Z) : Z * list Z :=
  if 0 <? ll then
    if ov =? 1 then (h1, [h1; h2; h3])
    else if ov =? 2 then (h2, [h2; h1; h3])
    else if ov =? 3 then (h3, [h3; h1; h2])
    else (ov - 3, [ov - 3; h1; h2])
  else
    if ov =? 1 then (h2, [h2; h1; h3])
    else if ov =? 2 then (h3, [h3; h1; h2])
    else if ov =? 3 then (h1 - 1, [h1 - 1; h1; h2])
    else (ov - 3, [ov - 3; h1; h2]).

Lemma offset_history_spec ov ll h1 h2 h3 :
  1 <= ov -> 0 <= ll -> 1 <= h1 ->
  do_offset_history ov ll [h1; h2; h3] = spec_offset_history ov ll h1 h2 h3.
Proof.
  intros Hov Hll Hh. unfold do_offset_history, spec_offset_history.
  replace (ll >? 0) with (0 <? ll) by (rewrite Z.gtb_ltb; reflexivity).
  assert (ov = 1 \/ ov = 2 \/ ov = 3 \/ 4 <= ov) as [->|[->|[->|H4]]] by lia.
  - destruct (0 <? ll); reflexivity.
  - destruct (0 <? ll); reflexivity.
  - destruct (0 <? ll); [reflexivity|]. cbn. rewrite Z.max_r by lia. reflexivity.
  - assert ((1 <=? ov) && (ov <=? 3) = false) as -> by lia.
    assert ((1 <=? ov) && (ov <=? 2) = false) as -> by lia.
    assert (ov =? 1 = false) as -> by lia. assert (ov =? 2 = false) as -> by lia.
    assert (ov =? 3 = false) as -> by lia.
    destruct (0 <? ll); reflexivity.
Qed.

(** a zero first history entry (only a malformed dictionary can seed one) saturates to the invalid offset 0,
    which the caller rejects; it never underflows *)
Lemma offset_history_saturates h2 h3 : fst (do_offset_history 3 0 [0; h2; h3]) = 0.
Proof. reflexivity. Qed.

Lemma offset_history_safe ov ll h1 h2 h3 :
  1 <= ov < 2 ^ 32 -> 0 <= ll -> 0 <= h1 < 2 ^ 32 ->
  do_offset_history_safe ov ll [h1; h2; h3] = true.
Proof.
  intros Hov Hll Hh. unfold do_offset_history_safe, in_u.
  change (2 ^ 32) with 4294967296 in *. change (2 ^ 64) with 18446744073709551616.
  assert (ov = 1 \/ ov = 2 \/ ov = 3 \/ 4 <= ov) as [->|[->|[->|H4]]] by lia.
  - destruct (ll >? 0); reflexivity.
  - destruct (ll >? 0); reflexivity.
  - destruct (ll >? 0); reflexivity.
  - assert ((1 <=? ov) && (ov <=? 3) = false) as -> by lia.
    assert ((1 <=? ov) && (ov <=? 2) = false) as -> by lia.
    assert (ov =? 1 = false) as -> by lia. assert (ov =? 2 = false) as -> by lia.
    assert (ov =? 3 = false) as -> by lia.
    assert ((0 <=? ov - 3) && (ov - 3 <? 4294967296) = true) as -> by lia.
    destruct (ll >? 0); reflexivity.
Qed.

(** *** sequence counts *)
Definition seqnum_rt_check (n : Z) : bool :=
  match encode_seqnum n [] with
  | ROk (_, bytes) =>
      bytes_ok bytes &&
      match sequences_header_parse 0 None (bytes ++ [228]) with   (* 228: an arbitrary modes byte *)
      | ROk (used, n', modes) => (n' =? n) && (used =? Z.of_nat (length bytes) + 1) &&
                                 match modes with Some m => m =? 228 | None => false end
      | _ => false
      end
  | _ => false
  end && encode_seqnum_safe n [].

Lemma seqnum_rt_sweep : sweep seqnum_rt_check 1 98048 = true.
Proof. vm_compute. reflexivity. Qed.

Lemma seqnum_roundtrip n : 1 <= n <= 98047 ->
  exists bytes, encode_seqnum n [] = ROk (tt, bytes) /\ bytes_ok bytes = true /\
    sequences_header_parse 0 None (bytes ++ [228]) = ROk (Z.of_nat (length bytes) + 1, n, Some 228) /\
    encode_seqnum_safe n [] = true.
Proof.
  intros H. pose proof (sweep_spec _ _ _ seqnum_rt_sweep n ltac:(lia)) as C. unfold seqnum_rt_check in C.
  apply andb_true_iff in C as [C S].
  destruct (encode_seqnum n []) as [[[] bytes]| |]; try discriminate.
  apply andb_true_iff in C as [B C].
  destruct (sequences_header_parse 0 None (bytes ++ [228])) as [[[used n'] modes]| |] eqn:E; try discriminate.
  destruct modes as [m|]; [|repeat (apply andb_true_iff in C as [C ?]); discriminate].
  repeat (apply andb_true_iff in C as [C ?]).
  exists bytes. rewrite E. repeat split; auto. repeat f_equal; lia.
Qed.

Lemma seqnum_upper_limit : 65535 + 32512 = 98047.
Proof. reflexivity. Qed.

(** what every header byte pattern means (RFC 8878, 3.1.1.3.2.1) *)
Definition spec_seq_header (src : list Z) : option (Z * Z * option Z) :=   (* bytes used, count, modes *)
  match src with
  | [] => None
  | b0 :: t =>
      if b0 =? 0 then Some (1, 0, None)
      else if b0 <? 128 then match t with m :: _ => Some (2, b0, Some m) | _ => None end
      else if b0 <? 255 then
        match t with
        | b1 :: t' =>
            let n := (b0 - 128) * 256 + b1 in
            if n =? 0 then Some (2, 0, None)
            else match t' with m :: _ => Some (3, n, Some m) | _ => None end
        | _ => None
        end
      else match t with b1 :: b2 :: m :: _ => Some (4, b1 + b2 * 256 + 32512, Some m) | _ => None end
  end.

Lemma seq_header_parse_spec src : bytes_ok src = true ->
  sequences_header_parse 0 None src =
  match spec_seq_header src with Some r => ROk r | None => RErr "NotEnoughBytes"%string end.
Proof.
  intros B. destruct src as [|b0 t]; [reflexivity|].
  cbn [bytes_ok forallb] in B. apply andb_true_iff in B as [B0 Bt]. unfold byte_ok in B0.
  unfold spec_seq_header, sequences_header_parse.
  cbn [List.length Nat.eqb].
  change (znth (b0 :: t) 0) with b0. change (2 ^ 8) with 256.
  assert (b0 = 0 \/ 1 <= b0 <= 127 \/ 128 <= b0 <= 254 \/ b0 = 255) as [ -> | [R | [R | -> ]]] by lia.
  - reflexivity.
  - assert (b0 =? 0 = false) as -> by lia. assert ((1 <=? b0) && (b0 <=? 127) = true) as -> by lia.
    assert (b0 <? 128 = true) as -> by lia.
    destruct t as [|m t']; [reflexivity|]. cbn [List.length].
    assert (Z.of_nat (S (S (length t'))) <? 2 = false) as -> by lia. reflexivity.
  - assert (b0 =? 0 = false) as -> by lia. assert ((1 <=? b0) && (b0 <=? 127) = false) as -> by lia.
    assert ((128 <=? b0) && (b0 <=? 254) = true) as -> by lia.
    assert (b0 <? 128 = false) as -> by lia. assert (b0 <? 255 = true) as -> by lia.
    destruct t as [|b1 t']; [reflexivity|]. cbn [List.length].
    assert (Z.of_nat (S (S (length t'))) <? 2 = false) as -> by lia.
    cbn [bytes_ok forallb] in Bt. apply andb_true_iff in Bt as [B1 Bt]. unfold byte_ok in B1.
    change (znth (b0 :: b1 :: t') 1) with b1.
    rewrite (Z.mod_small ((b0 - 128) * 256)) by lia.
    destruct (Z.eqb_spec ((b0 - 128) * 256 + b1) 0) as [E|NE]; cbn [negb].
    + rewrite E. reflexivity.
    + destruct t' as [|m t'']; [reflexivity|]. cbn [List.length].
      assert (Z.of_nat (S (S (S (length t'')))) <? 3 = false) as -> by lia. reflexivity.
  - cbn [Z.eqb Z.leb Z.ltb Z.compare Pos.compare Pos.compare_cont andb].
    destruct t as [|b1 [|b2 [|m t']]]; try reflexivity.
    cbn [List.length].
    assert (Z.of_nat (S (S (S (S (length t'))))) <? 4 = false) as -> by lia.
    cbn [bytes_ok forallb] in Bt. repeat (apply andb_true_iff in Bt as [? Bt]). unfold byte_ok in *.
    change (znth (255 :: b1 :: b2 :: m :: t') 1) with b1. change (znth (255 :: b1 :: b2 :: m :: t') 2) with b2.
    change (znth (255 :: b1 :: b2 :: m :: t') 3) with m.
    rewrite (Z.mod_small (b2 * 256)) by lia. reflexivity.
Qed.

(** *** block header *)
Lemma block_size_field b0 b1 b2 : 0 <= b0 < 256 -> 0 <= b1 < 256 -> 0 <= b2 < 256 ->
  block_content_size_unchecked b0 b1 b2 = (b0 + 256 * b1 + 65536 * b2) / 8.
Proof.
  intros H0 H1 H2. unfold block_content_size_unchecked.
  change (2 ^ 3) with 8. change 4294967296 with (2 ^ 32).
  rewrite (Z.mod_small (b1 * 2 ^ 5)) by (change (2 ^ 5) with 32; change (2 ^ 32) with 4294967296; lia).
  rewrite (Z.mod_small (b2 * 2 ^ 13)) by (change (2 ^ 13) with 8192; change (2 ^ 32) with 4294967296; lia).
  rewrite (lor_low_shifted (b0 / 8) b1 5) by (change (2 ^ 5) with 32; lia).
  replace (b2 * 2 ^ 13) with (b2 * 2 ^ 13) by reflexivity.
  rewrite (lor_low_shifted (b0 / 8 + b1 * 2 ^ 5) b2 13) by (change (2 ^ 5) with 32; change (2 ^ 13) with 8192; lia).
  change (2 ^ 5) with 32. change (2 ^ 13) with 8192. lia.
Qed.

Lemma block_type_field b0 : 0 <= b0 < 256 -> block_type b0 = ROk ((b0 / 2) mod 4).
Proof.
  intros H. unfold block_type. change (2 ^ 1) with 2.
  pose proof (Z.mod_pos_bound (b0 / 2) 4 ltac:(lia)) as M.
  destruct (Z.eqb_spec ((b0 / 2) mod 4) 0) as [->|]; [reflexivity|].
  destruct (Z.eqb_spec ((b0 / 2) mod 4) 1) as [->|]; [reflexivity|].
  destruct (Z.eqb_spec ((b0 / 2) mod 4) 2) as [->|]; [reflexivity|].
  destruct (Z.eqb_spec ((b0 / 2) mod 4) 3) as [->|]; [reflexivity|]. lia.
Qed.

Lemma block_last_field b0 : is_last b0 = (b0 mod 2 =? 1).
Proof. reflexivity. Qed.

Lemma block_too_large_refused b0 b1 b2 : 0 <= b0 < 256 -> 0 <= b1 < 256 -> 0 <= b2 < 256 ->
  (b0 + 256 * b1 + 65536 * b2) / 8 > 131072 -> block_content_size b0 b1 b2 = RErr "BlockSizeTooLarge"%string.
Proof.
  intros H0 H1 H2 H. unfold block_content_size. rewrite block_size_field by assumption.
  change MAX_BLOCK_SIZE with 131072. destruct (Z.gtb_spec ((b0 + 256 * b1 + 65536 * b2) / 8) 131072); [reflexivity|lia].
Qed.

Lemma block_size_accepted b0 b1 b2 : 0 <= b0 < 256 -> 0 <= b1 < 256 -> 0 <= b2 < 256 ->
  (b0 + 256 * b1 + 65536 * b2) / 8 <= 131072 ->
  block_content_size b0 b1 b2 = ROk ((b0 + 256 * b1 + 65536 * b2) / 8).
Proof.
  intros H0 H1 H2 H. unfold block_content_size. rewrite block_size_field by assumption.
  change MAX_BLOCK_SIZE with 131072. destruct (Z.gtb_spec ((b0 + 256 * b1 + 65536 * b2) / 8) 131072); [lia|reflexivity].
Qed.

(** the compressor's block header, read back *)
Lemma block_header_roundtrip ty size last :
  0 <= ty <= 2 -> 0 <= size < 2 ^ 21 ->
  exists b0 b1 b2, block_header_serialize ty size last [] = ROk (tt, [b0; b1; b2]) /\
    0 <= b0 < 256 /\ 0 <= b1 < 256 /\ 0 <= b2 < 256 /\
    is_last b0 = last /\ block_type b0 = ROk ty /\ block_content_size_unchecked b0 b1 b2 = size.
Proof.
  intros Hty Hsz. change (2 ^ 21) with 2097152 in Hsz.
  set (h := size * 8 + ty * 2 + (if last then 1 else 0)).
  assert (block_header_serialize ty size last [] = ROk (tt, le_bytes 3 h)) as E.
  { unfold block_header_serialize, h. change (2 ^ 3) with 8. change (2 ^ 1) with 2.
    assert (forall t, 0 <= t <= 2 ->
      Z.lor (Z.lor ((size * 8) mod 4294967296) ((t * 2) mod 4294967296)) (if last then 1 else 0)
      = size * 8 + t * 2 + (if last then 1 else 0)) as L.
    { intros t Ht. rewrite !Z.mod_small by lia.
      rewrite (Z.lor_comm (size * 8) (t * 2)).
      change 8 with (2 ^ 3).
      rewrite (lor_low_shifted (t * 2) size 3) by (change (2 ^ 3) with 8; lia).
      replace (t * 2 + size * 2 ^ 3) with ((t + size * 4) * 2 ^ 1) by (change (2 ^ 3) with 8; change (2 ^ 1) with 2; lia).
      rewrite Z.lor_comm. rewrite (lor_low_shifted _ (t + size * 4) 1) by (destruct last; change (2 ^ 1) with 2; lia).
      change (2 ^ 1) with 2. change (2 ^ 3) with 8. lia. }
    destruct (Z.eqb_spec ty 0) as [->|]; [cbn [app]; rewrite (L 0) by lia; reflexivity|].
    destruct (Z.eqb_spec ty 1) as [->|]; [cbn [app]; rewrite (L 1) by lia; reflexivity|].
    destruct (Z.eqb_spec ty 2) as [->|]; [cbn [app]; rewrite (L 2) by lia; reflexivity|]. lia. }
  assert (0 <= h < 2 ^ 24) as Hh by (unfold h; change (2 ^ 24) with 16777216; destruct last; lia).
  change (2 ^ 24) with 16777216 in Hh.
  exists (h mod 256), ((h / 256) mod 256), ((h / 256 / 256) mod 256).
  split; [rewrite E; reflexivity|].
  pose proof (Z.mod_pos_bound h 256 ltac:(lia)).
  pose proof (Z.mod_pos_bound (h / 256) 256 ltac:(lia)).
  pose proof (Z.mod_pos_bound (h / 256 / 256) 256 ltac:(lia)).
  repeat split; try lia.
  - unfold is_last. unfold h. destruct last.
    + assert ((size * 8 + ty * 2 + 1) mod 256 mod 2 = 1) as -> by lia. reflexivity.
    + assert ((size * 8 + ty * 2 + 0) mod 256 mod 2 = 0) as -> by lia. reflexivity.
  - rewrite block_type_field by lia. f_equal. unfold h. destruct last; lia.
  - rewrite block_size_field by lia. unfold h. destruct last; lia.
Qed.

Lemma block_header_reserved_type_panics size last : is_panic (block_header_serialize 3 size last []) = true.
Proof. reflexivity. Qed.

(** *** window descriptor *)
Definition spec_window (wd : Z) : Z :=
  let e := wd / 8 in let m := wd mod 8 in 2 ^ (10 + e) + (2 ^ (10 + e) / 8) * m.

Definition window_check (wd : Z) : bool :=
  (match window_size wd 0 0 with
   | ROk w => (w =? spec_window wd) && (MIN_WINDOW_SIZE <=? w) && (w <=? MAX_WINDOW_SIZE)
   | _ => false
   end) && window_size_safe wd 0 0.

Lemma window_sweep : sweep window_check 0 256 = true.
Proof. vm_compute. reflexivity. Qed.

Lemma single_segment_bit d : single_segment_flag d = ((d / 32) mod 2 =? 1).
Proof. reflexivity. Qed.

(** every window descriptor byte is legal and means the RFC's formula (minimum 1 KiB at 0x00, maximum
    2^41 + 7 * 2^38 at 0xFF); with the single-segment flag the window is the content size *)
Lemma window_size_spec wd d fcs : 0 <= wd < 256 ->
  window_size wd d fcs = if single_segment_flag d then ROk fcs else ROk (spec_window wd).
Proof.
  intros H. unfold window_size. destruct (single_segment_flag d); [reflexivity|].
  pose proof (sweep_spec _ _ _ window_sweep wd ltac:(lia)) as C. unfold window_check in C.
  apply andb_true_iff in C as [C _]. unfold window_size in C. cbn [single_segment_flag] in C.
  change (single_segment_flag 0) with false in C. cbv iota in C.
  match type of C with (match ?x with _ => _ end) = true => destruct x as [w| |] eqn:E; try discriminate end.
  repeat (apply andb_true_iff in C as [C ?]). f_equal. lia.
Qed.

Lemma window_bounds wd : 0 <= wd < 256 -> 1024 <= spec_window wd <= 2 ^ 41 + 7 * 2 ^ 38.
Proof.
  intros H.
  pose proof (sweep_spec (fun wd => (1024 <=? spec_window wd) && (spec_window wd <=? 2 ^ 41 + 7 * 2 ^ 38)) 0 256
                ltac:(vm_compute; reflexivity) wd ltac:(lia)) as C.
  apply andb_true_iff in C. lia.
Qed.

Lemma window_consts : MIN_WINDOW_SIZE = 1024 /\ MAX_WINDOW_SIZE = 2 ^ 41 + 7 * 2 ^ 38 /\ MAX_BLOCK_SIZE = 131072 /\
                      MAGIC_NUM = 4247762216 /\ DEFAULT_MAX_WINDOW_SIZE = 128 * 1024 * 1024.
Proof. repeat split; reflexivity. Qed.
