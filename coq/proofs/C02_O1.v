(** C02 / C12: obligation O1 of the Fastest round trip is met by the modelled normaliser: for the sequences of any block,
    the three distributions [norm_model] computes satisfy the side conditions of the sequences-section theorem. *)
Require Import Zrs.lib.RsPrelude Zrs.gen.Generated Zrs.model.BitIO Zrs.model.FseDec Zrs.model.HufDec Zrs.model.BlockDec.
Require Import Zrs.model.BitStream Zrs.model.SeqEnc Zrs.model.FseEnc Zrs.model.FseNorm Zrs.model.SeqSection Zrs.model.SeqNorm.
Require Import Zrs.proofs.C14_Tables Zrs.proofs.C12_Stream Zrs.proofs.C12_SeqStream Zrs.proofs.C12_Predef Zrs.proofs.C12_Desc Zrs.proofs.C12_Section.
Require Import Zrs.proofs.C12_Norm Zrs.proofs.C12_NormTotal Zrs.proofs.C12_TableWf Zrs.proofs.C12_Covers.
Open Scope Z_scope.

(** *** histograms *)
Lemma count_code_nonneg c codes : 0 <= count_code c codes.
Proof. induction codes as [|x t IH]; cbn [count_code]; [lia|]. destruct (x =? c); lia. Qed.
Lemma count_code_pos c codes : In c codes -> 1 <= count_code c codes.
Proof.
  induction codes as [|x t IH]; intros Hin; [contradiction|]. cbn [count_code]. pose proof (count_code_nonneg c t).
  destruct Hin as [->|Hin]; [rewrite Z.eqb_refl; lia|specialize (IH Hin); destruct (x =? c); lia].
Qed.
Lemma max_code_ge codes c : In c codes -> c <= max_code codes.
Proof. induction codes as [|x t IH]; intros Hin; [contradiction|]. cbn [max_code fold_right]. fold (max_code t). destruct Hin as [->|Hin]; [lia|specialize (IH Hin); lia]. Qed.
Lemma max_code_in codes : codes <> [] -> Forall (fun c => 0 <= c) codes -> In (max_code codes) codes.
Proof.
  induction codes as [|x t IH]; intros Hne Hnn; [congruence|]. inversion Hnn; subst. cbn [max_code fold_right]. fold (max_code t).
  destruct t as [|y t'].
  - cbn. left. lia.
  - specialize (IH ltac:(discriminate) ltac:(assumption)). destruct (Z.max_spec x (max_code (y :: t'))) as [(A & ->)|(A & ->)]; [right; exact IH|left; reflexivity].
Qed.
Lemma max_code_nonneg codes : 0 <= max_code codes.
Proof. induction codes as [|x t IH]; cbn [max_code fold_right]; [lia|]. fold (max_code t). lia. Qed.

Lemma code_hist_props codes M : codes <> [] -> Forall (fun c => 0 <= c <= M) codes ->
  let h := code_hist codes in
  length h = S (Z.to_nat (max_code codes)) /\ Z.of_nat (length h) <= M + 1 /\ Forall (fun c => 0 <= c) h /\ 0 < last h 0 /\
  (forall c, In c codes -> 1 <= nth (Z.to_nat c) h 0).
Proof.
  intros Hne Hr h. unfold h, code_hist.
  assert (Hnn : Forall (fun c => 0 <= c) codes) by (eapply Forall_impl; [|exact Hr]; cbn; intros; lia).
  pose proof (max_code_in codes Hne Hnn) as Hmi. pose proof (max_code_nonneg codes) as Hm0.
  assert (HmM : max_code codes <= M) by (rewrite Forall_forall in Hr; specialize (Hr _ Hmi); lia).
  split; [rewrite map_length, seq_length; reflexivity|].
  split; [rewrite map_length, seq_length; lia|].
  split; [apply Forall_forall; intros x Hx; apply in_map_iff in Hx as (k & <- & _); apply count_code_nonneg|].
  set (g := fun k : nat => count_code (Z.of_nat k) codes).
  assert (Nth : forall k, (k < S (Z.to_nat (max_code codes)))%nat ->
            nth k (map g (seq 0 (S (Z.to_nat (max_code codes))))) 0 = count_code (Z.of_nat k) codes).
  { intros k Hk. rewrite (nth_indep _ 0 (g 0%nat)) by (rewrite map_length, seq_length; exact Hk).
    rewrite map_nth, seq_nth by exact Hk. reflexivity. }
  split.
  - rewrite last_is_nth by (intros E; apply (f_equal (@length Z)) in E; rewrite map_length, seq_length in E; cbn in E; lia).
    rewrite map_length, seq_length. replace (S (Z.to_nat (max_code codes)) - 1)%nat with (Z.to_nat (max_code codes)) by lia.
    rewrite Nth by lia. rewrite Z2Nat.id by lia. pose proof (count_code_pos _ _ Hmi). lia.
  - intros c Hc. pose proof (max_code_ge codes c Hc). rewrite Forall_forall in Hnn. specialize (Hnn c Hc).
    rewrite Nth by lia. rewrite Z2Nat.id by lia. apply count_code_pos. exact Hc.
Qed.

(** *** a single code: the zero-bit avoidance gives the second slot the other half *)
Lemma norm_counts_single c max_log : 0 < c -> 5 <= max_log -> norm_counts [c] max_log true = ROk (5, [16; 16]).
Proof.
  intros Hc Hml. unfold norm_counts. cbn [length Nat.max Nat.sub zeros app fold_left].
  destruct (Z.ltb_spec 0 c) as [_|]; [|lia]. cbn [andb orb Z.eqb Z.ltb].
  replace ((c <? 0) || true) with true by (destruct (c <? 0); reflexivity). cbv iota.
  destruct (Z.eqb_spec c 0); [lia|]. cbn [map].
  destruct (Z.ltb_spec 0 c) as [_|]; [|lia]. replace (c - (c - 1)) with 1 by lia.
  change (0 <? 0) with false. cbv iota.
  change (zmaxl [1; 0]) with 1. change ((0 <? 1) && (Z.of_nat 2 <? 1)) with false. cbv iota.
  change (zsum [1; 0]) with 1. change (1 <=? 0) with false. cbv iota.
  change (Z.log2 1 + 1) with 1. change (Z.max 1 5) with 5. rewrite Z.min_l by lia.
  change (1 <? 2 ^ 5) with true. cbv iota. cbn [rbind].
  vm_compute. reflexivity.
Qed.

(** *** the boolean side conditions are complete as well as sound *)
Lemma dist_okb_complete al probs : dist_ok al probs -> dist_okb al probs = true.
Proof.
  intros (A & B & C). unfold dist_okb. apply andb_true_intro. split; [apply andb_true_intro; split|].
  - apply forallb_forall. intros p Hp. rewrite Forall_forall in A. specialize (A p Hp). lia.
  - lia.
  - destruct (Z.eqb_spec (last probs 1) 0); [contradiction|reflexivity].
Qed.
Lemma table_wf_b_complete D : table_wf D -> table_wf_b D = true.
Proof.
  intros (A & B & C). unfold table_wf_b. apply andb_true_intro. split; [apply andb_true_intro; split|]; try lia.
  apply forallb_forall. intros e He. rewrite Forall_forall in B. specialize (B e He). lia.
Qed.
Lemma covers_b_complete D s : covers D s -> covers_b D s = true.
Proof.
  intros (A & B). unfold covers_b. apply andb_true_intro. split.
  - destruct (min_base (t_decode D) 0 s None); [reflexivity|congruence].
  - apply forallb_forall. intros n Hn. apply in_seq in Hn. specialize (B (Z.of_nat n) ltac:(lia)).
    destruct (find_entry _ _ _); [reflexivity|congruence].
Qed.

(** *** one table *)
Lemma dist_from_ok codes max_log ms : codes <> [] -> Forall (fun c => 0 <= c <= ms) codes -> 8 <= max_log <= 9 -> 1 <= ms <= 255 ->
  exists D, build_table ms (dist_from codes max_log) = ROk D /\ dist_side_b (dist_from codes max_log) max_log ms = true /\
            table_wf_b D = true /\ (forall c, In c codes -> covers_b D c = true).
Proof.
  intros Hne Hr Hml Hms.
  destruct (code_hist_props codes ms Hne Hr) as (HL & HLm & Hnn & Hlast & Hocc).
  set (h := code_hist codes) in *.
  assert (Core : exists al probs, norm_counts h max_log true = ROk (al, probs) /\ dist_ok al probs /\ 5 <= al <= max_log /\
                   Z.of_nat (length probs) <= ms + 1 /\ (length probs <= 256)%nat /\ Forall (fun p => 0 <= p) probs /\ zsum probs = 2 ^ al /\
                   (forall c, In c codes -> (Z.to_nat c < length probs)%nat /\ 1 <= nth (Z.to_nat c) probs 0)).
  { destruct (Nat.eq_dec (length h) 1) as [E1|E1].
    - (* only code 0 occurs *)
      destruct h as [|c0 [|]] eqn:Eh; cbn in E1; try lia.
      assert (Hc0 : 0 < c0) by (cbn in Hlast; exact Hlast).
      exists 5, [16; 16]. rewrite norm_counts_single by lia.
      assert (Hm0 : max_code codes = 0) by (pose proof (max_code_nonneg codes); cbn in HL; lia).
      split; [reflexivity|]. split; [apply dist_okb_ok; vm_compute; reflexivity|]. split; [lia|].
      assert (Hms0 : 0 <= ms).
      { destruct codes as [|c t]; [congruence|]. inversion Hr; subst. lia. }
      split; [cbn; lia|]. split; [cbn; lia|]. split; [repeat constructor; lia|]. split; [reflexivity|].
      intros c Hc. pose proof (max_code_ge codes c Hc). rewrite Forall_forall in Hr. specialize (Hr c Hc).
      assert (c = 0) by lia. subst c. cbn. lia.
    - assert (H2 : (2 <= length h <= 256)%nat) by (rewrite HL in *; lia).
      destruct (norm_counts_total h max_log ltac:(lia) Hnn Hlast H2) as (al & probs & En).
      destruct (norm_counts_normalised h max_log al probs ltac:(lia) Hnn Hlast ltac:(lia) En) as (D1 & D2 & D3 & D4 & D5 & D6).
      exists al, probs. split; [exact En|]. split; [exact D1|]. split; [exact D2|]. split; [lia|]. split; [lia|]. split; [exact D4|]. split; [exact D5|].
      intros c Hc. pose proof (max_code_ge codes c Hc). rewrite Forall_forall in Hr. pose proof (Hr c Hc).
      split; [rewrite D3, HL; lia|]. apply D6. specialize (Hocc c Hc). lia. }
  destruct Core as (al & probs & En & Dok & Hal & Hlen & H256 & Hpn & Hsum & Hcodes).
  unfold dist_from. fold h. rewrite En.
  destruct (built_table_covers al probs ms ltac:(lia) Hpn Hsum H256 Hlen) as (D & Eb & Hcov).
  exists D. unfold build_table. cbn [fst snd]. split; [exact Eb|]. split.
  - unfold dist_side_b. cbn [fst snd]. rewrite (dist_okb_complete _ _ Dok). cbn [andb].
    apply andb_true_intro. split; [apply andb_true_intro; split|]; lia.
  - split.
    + apply table_wf_b_complete. eapply built_table_is_well_formed; [|exact Eb]. lia.
    + intros c Hc. destruct (Hcodes c Hc) as (C1 & C2). apply covers_b_complete.
      rewrite Forall_forall in Hr. pose proof (Hr c Hc). specialize (Hcov (Z.to_nat c) C1 C2). rewrite Z2Nat.id in Hcov by lia. exact Hcov.
Qed.

(** *** the codes of a block's sequences are within the alphabets *)
Lemma to_cseq_codes s q : seq_range_b s = true -> to_cseq s = ROk q ->
  0 <= c_ll q <= 35 /\ 0 <= c_ml q <= 52 /\ 0 <= c_of q <= 31.
Proof.
  unfold seq_range_b. intros Hr Hq.
  assert (R : 0 <= sq_ll s <= 131071 /\ 3 <= sq_ml s <= 131074 /\ 1 <= sq_of s < 2 ^ 32) by lia.
  destruct R as (Rl & Rm & Ro).
  destruct (ll_roundtrip (sq_ll s) Rl) as (cl & al & nl & bl & El & Ll & Cl & _).
  destruct (ml_roundtrip (sq_ml s) Rm) as (cm & am & nm & bm & Em & Lm & Cm & _).
  pose proof (encode_offset_spec (sq_of s) Ro) as Ho.
  unfold to_cseq in Hq. rewrite El, Em in Hq. cbn [rbind] in Hq.
  destruct (encode_offset (sq_of s)) as [[co ao] no]. destruct Ho as (_ & Co & _).
  injection Hq as <-. cbn [c_ll c_ml c_of]. lia.
Qed.

Lemma map_res_codes seqs : forall qs, forallb seq_range_b seqs = true -> map_res to_cseq seqs = ROk qs ->
  Forall (fun q => 0 <= c_ll q <= 35 /\ 0 <= c_ml q <= 52 /\ 0 <= c_of q <= 31) qs /\ length qs = length seqs.
Proof.
  induction seqs as [|s t IH]; intros qs Hr Hm; cbn [map_res] in Hm.
  - injection Hm as <-. split; [constructor|reflexivity].
  - cbn [forallb] in Hr. apply andb_prop in Hr as [Hs Ht].
    destruct (to_cseq s) as [q|e|e] eqn:Eq; cbn [rbind] in Hm; try discriminate.
    destruct (map_res to_cseq t) as [r|e|e] eqn:Er; cbn [rbind] in Hm; try discriminate.
    injection Hm as <-. destruct (IH r Ht eq_refl) as (I1 & I2). split; [constructor; [eapply to_cseq_codes; eassumption|exact I1]|cbn [length]; lia].
Qed.

Lemma map_res_total seqs : forallb seq_range_b seqs = true -> exists qs, map_res to_cseq seqs = ROk qs.
Proof.
  induction seqs as [|s t IH]; intros Hr; [eexists; reflexivity|]. cbn [forallb] in Hr. apply andb_prop in Hr as [Hs Ht].
  destruct (IH Ht) as (r & Er). cbn [map_res]. rewrite Er.
  unfold seq_range_b in Hs.
  assert (R : 0 <= sq_ll s <= 131071 /\ 3 <= sq_ml s <= 131074 /\ 1 <= sq_of s < 2 ^ 32) by lia.
  destruct R as (Rl & Rm & Ro).
  destruct (ll_roundtrip (sq_ll s) Rl) as (cl & al & nl & bl & El & _).
  destruct (ml_roundtrip (sq_ml s) Rm) as (cm & am & nm & bm & Em & _).
  unfold to_cseq. rewrite El, Em. cbn [rbind]. destruct (encode_offset (sq_of s)) as [[co ao] no]. cbn [rbind]. eexists. reflexivity.
Qed.

(** *** obligation O1 holds for the modelled normaliser *)
Theorem norm_model_meets_O1 seqs : seqs <> [] -> forallb seq_range_b seqs = true -> Z.of_nat (length seqs) <= 98047 ->
  let '(dl, do, dm) := norm_model seqs in section_hyps_b dl do dm seqs = true.
Proof.
  intros Hne Hr _. unfold norm_model. destruct (map_res_total seqs Hr) as (qs & Eq). rewrite Eq.
  destruct (map_res_codes seqs qs Hr Eq) as (Hc & Hl).
  assert (Hqne : qs <> []) by (destruct seqs; [congruence|destruct qs; [discriminate|discriminate]]).
  assert (Nll : map c_ll qs <> []) by (destruct qs; [congruence|discriminate]).
  assert (Nof : map c_of qs <> []) by (destruct qs; [congruence|discriminate]).
  assert (Nml : map c_ml qs <> []) by (destruct qs; [congruence|discriminate]).
  assert (Rll : Forall (fun c => 0 <= c <= MAX_LITERAL_LENGTH_CODE) (map c_ll qs)).
  { apply Forall_forall. intros c Hin. apply in_map_iff in Hin as (q & <- & Hq). rewrite Forall_forall in Hc. specialize (Hc q Hq). unfold MAX_LITERAL_LENGTH_CODE. lia. }
  assert (Rof : Forall (fun c => 0 <= c <= MAX_OFFSET_CODE) (map c_of qs)).
  { apply Forall_forall. intros c Hin. apply in_map_iff in Hin as (q & <- & Hq). rewrite Forall_forall in Hc. specialize (Hc q Hq). unfold MAX_OFFSET_CODE. lia. }
  assert (Rml : Forall (fun c => 0 <= c <= MAX_MATCH_LENGTH_CODE) (map c_ml qs)).
  { apply Forall_forall. intros c Hin. apply in_map_iff in Hin as (q & <- & Hq). rewrite Forall_forall in Hc. specialize (Hc q Hq). unfold MAX_MATCH_LENGTH_CODE. lia. }
  destruct (dist_from_ok (map c_ll qs) LL_MAX_LOG MAX_LITERAL_LENGTH_CODE Nll Rll ltac:(unfold LL_MAX_LOG; lia) ltac:(unfold MAX_LITERAL_LENGTH_CODE; lia)) as (Dll & B1 & S1 & W1 & C1).
  destruct (dist_from_ok (map c_of qs) OF_MAX_LOG MAX_OFFSET_CODE Nof Rof ltac:(unfold OF_MAX_LOG; lia) ltac:(unfold MAX_OFFSET_CODE; lia)) as (Dof & B2 & S2 & W2 & C2).
  destruct (dist_from_ok (map c_ml qs) ML_MAX_LOG MAX_MATCH_LENGTH_CODE Nml Rml ltac:(unfold ML_MAX_LOG; lia) ltac:(unfold MAX_MATCH_LENGTH_CODE; lia)) as (Dml & B3 & S3 & W3 & C3).
  unfold section_hyps_b. rewrite Eq, B1, B2, B3, S1, S2, S3, W1, W2, W3. cbn [andb]. rewrite Hr, andb_true_r.
  destruct seqs as [|s0 t0]; [congruence|]. cbn [negb]. rewrite andb_true_r.
  apply forallb_forall. intros q Hq. rewrite (C1 (c_ll q)), (C3 (c_ml q)), (C2 (c_of q)) by (apply in_map; exact Hq). reflexivity.
Qed.
