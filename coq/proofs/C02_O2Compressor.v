(** C02 / C13: the Huffman-coded literals section of the compressor, from the literals alone.  For every literal
    buffer with at least two different bytes the table of [build_from_data], the description [write_table] writes for
    the weights it derives back from the code lengths (the direct form for up to 16 written weights, the
    FSE-compressed form above that) and the four streams coded with that table form a section the decoder reads back
    as exactly the literals.  For the FSE-compressed form one fact about the compressor remains a hypothesis: the
    compressed description is shorter than 128 bytes (the compressor asserts it; the header byte could not express
    more).  That the normaliser returns a distribution for the histogram of the weights and that it has a table
    description is proved ([weight_description_exists]). *)
Require Import Zrs.lib.RsPrelude Zrs.gen.Generated Zrs.model.Headers Zrs.model.BitIO Zrs.model.BitStream Zrs.model.FseDec Zrs.model.HufDec Zrs.model.BlockDec Zrs.model.LitEnc Zrs.model.BlockEnc Zrs.model.HufEnc Zrs.model.SeqEnc Zrs.model.FseEnc Zrs.model.FseNorm Zrs.model.WeightEnc Zrs.model.HufCounts.
Require Import Zrs.proofs.C02_Concrete Zrs.proofs.C02_O2Huffman Zrs.proofs.C13_Direct Zrs.proofs.C13_WeightModel Zrs.proofs.C13_WeightTotal Zrs.proofs.C02_O2Counts.
Open Scope Z_scope.

Lemma nth_removelast (l : list Z) i : (S i < length l)%nat -> nth i (removelast l) 0 = nth i l 0.
Proof.
  revert i; induction l as [|h t IH]; intros i H; [cbn [length] in H; lia|].
  destruct t as [|h2 t2]; [cbn [length] in H; lia|]. change (removelast (h :: h2 :: t2)) with (h :: removelast (h2 :: t2)).
  destruct i as [|i]; [reflexivity|]. cbn [nth]. apply IH. cbn [length] in *. lia.
Qed.
Lemma removelast_length (l : list Z) : length (removelast l) = (length l - 1)%nat.
Proof. induction l as [|h t IH]; [reflexivity|]. destruct t as [|h2 t2]; [reflexivity|]. change (removelast (h :: h2 :: t2)) with (h :: removelast (h2 :: t2)). cbn [length] in *. lia. Qed.
Lemma removelast_forall (P : Z -> Prop) l : Forall P l -> Forall P (removelast l).
Proof. induction l as [|h t IH]; intros H; [constructor|]. destruct t as [|h2 t2]; [constructor|]. change (removelast (h :: h2 :: t2)) with (h :: removelast (h2 :: t2)). inversion H; subst. constructor; auto. Qed.

Theorem compressor_huffman_section data a b h :
  Forall (fun s => 0 <= s <= 255) data -> In a data -> In b data -> a <> b ->
  16 <= zlen data <= 131072 ->
  exists codes, build_from_data data = ROk codes /\
    let written := removelast (enc_weights codes) in
    (1 <= length written <= 255)%nat /\
    ((length written <= 16)%nat ->
       let payload := direct_desc written ++ huf4_bytes (code_fn codes) data in
       zlen payload < zlen data ->
       exists t, lit_ok h data (huf_lit_header 2 (zlen data) (zlen payload)) payload t) /\
    ((16 < length written)%nat -> t_max_symbol (ht_fse h) = 255 ->
       exists al probs d D, norm_counts (weight_hist written) 6 true = ROk (al, probs) /\ desc_bytes al probs = Some d /\
         fse_build_from_probabilities (ht_fse h) al probs = ROk D /\
         let stream := stream_bytes (weight_fields (enc_of_dec D) written) in
         let hb := zlen d + zlen stream in
         hb < 128 ->
         let payload := (hb :: d ++ stream) ++ huf4_bytes (code_fn codes) data in
         zlen payload < zlen data ->
         exists t, lit_ok h data (huf_lit_header 2 (zlen data) (zlen payload)) payload t).
Proof.
  intros Hbytes Ha Hb Hab Hlen.
  destruct (build_from_data_meets_O2 data a b Hbytes Ha Hb Hab Hlen) as (W & codes & _ & Ecodes & LW & H11 & EW & Hpos & _ & Hall).
  exists codes. split; [exact Ecodes|]. cbv zeta. rewrite EW.
  remember (fold_right Z.max 0 data) as mx eqn:Emx.
  assert (Hrange : forall s, In s data -> 0 <= s <= mx).
  { intros s Hs. rewrite Forall_forall in Hbytes. pose proof (Hbytes s Hs). split; [lia|]. rewrite Emx. apply fold_max_ge. exact Hs. }
  assert (Hmx255 : 0 <= mx <= 255).
  { assert (In mx data) by (rewrite Emx; apply fold_max_in; [intros ->; contradiction|eapply Forall_impl; [|exact Hbytes]; cbn; intros; lia]).
    rewrite Forall_forall in Hbytes. apply (Hbytes mx H). }
  assert (Hmx1 : 1 <= mx) by (pose proof (Hrange a Ha); pose proof (Hrange b Hb); lia).
  assert (LR : length (removelast W) = Z.to_nat mx) by (rewrite removelast_length, LW; lia).
  split; [rewrite LR; lia|].
  assert (Hw16 : Forall (fun w => 0 <= w < 16) (removelast W)) by (apply removelast_forall; eapply Forall_impl; [|exact H11]; cbn; intros; lia).
  split.
  - intros Hfew Hshort.
    apply (Hall h (direct_desc (removelast W)) (ht_fse h)); [|exact Hshort].
    rewrite (direct_description_roundtrip h (removelast W) _ ltac:(rewrite LR; lia) Hw16). reflexivity.
  - intros Hmany Hsym.
    (* one of the two symbols is not the last one, so a written weight is positive *)
    assert (Hz : 1 <= zmax_list (removelast W)).
    { assert (exists s, In s data /\ s < mx) as (s & Hs & Hlt).
      { pose proof (Hrange a Ha). pose proof (Hrange b Hb). destruct (Z.eq_dec a mx); [exists b; split; [exact Hb|lia]|exists a; split; [exact Ha|lia]]. }
      pose proof (Hrange s Hs). pose proof (Hpos s Hs) as Hp. rewrite <- (nth_removelast W) in Hp by lia.
      assert (In (nth (Z.to_nat s) (removelast W) 0) (removelast W)) by (apply nth_In; lia).
      pose proof (zmax_ge _ _ H0). lia. }
    assert (Hw11 : Forall (fun w => 0 <= w <= 11) (removelast W)) by (apply removelast_forall; exact H11).
    destruct (weight_description_exists (removelast W) ltac:(lia) Hw11 Hz) as (al & probs & d & Hnorm & Hdesc).
    destruct (model_weight_description_roundtrip h (removelast W) al probs d (huf4_bytes (code_fn codes) data) Hsym ltac:(rewrite LR; lia)
                ltac:(eapply Forall_impl; [|exact Hw16]; cbn; intros; lia) Hz Hnorm Hdesc) as (D & ED & Hread).
    exists al, probs, d, D. split; [exact Hnorm|]. split; [exact Hdesc|]. split; [exact ED|]. cbv zeta in Hread |- *. intros Hhb Hshort.
    apply (Hall h (zlen d + zlen (stream_bytes (weight_fields (enc_of_dec D) (removelast W))) :: d ++ stream_bytes (weight_fields (enc_of_dec D) (removelast W))) D); [|exact Hshort].
    cbn [app]. rewrite <- app_assoc. rewrite (Hread Hhb). f_equal. f_equal. unfold zlen. cbn [length]. rewrite app_length. lia.
Qed.
