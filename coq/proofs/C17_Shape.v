(** C17 / C02: the shape of the match finder's output for one block: matches (each with its preceding literal run),
    then at most one trailing literal run -- what [compress_block] relies on when it accumulates the literals of all
    sequences in one buffer. *)
Require Import Zrs.lib.RsPrelude Zrs.model.BlockDec Zrs.model.Matcher Zrs.proofs.C17_Matcher.
Open Scope nat_scope.

Definition is_triple (s : mseq) : Prop := match s with MTriple _ _ _ => True | MLit _ => False end.
Definition block_shape (seqs : list mseq) : Prop :=
  exists ts tail, seqs = ts ++ tail /\ Forall is_triple ts /\ (tail = [] \/ exists l, tail = [MLit l]).

(** a literal run is only reported when the block is used up *)
Lemma next_seq_lit fuel : forall st l st', next_seq fuel st = ROk (Some (MLit l), st') ->
  exists e0 older, mg_win st' = e0 :: older /\ length (we_data e0) <= mg_sidx st' /\ mg_last st' = mg_sidx st'.
Proof.
  induction fuel as [|f IH]; intros st l st' H; cbn [next_seq] in H; [discriminate|].
  destruct (mg_win st) as [|e0 older] eqn:Ew; [discriminate|].
  destruct (length (we_data e0) <=? mg_sidx st) eqn:E1.
  - destruct (negb (mg_last st =? mg_sidx st)); [|discriminate].
    destruct (length (we_data e0) <? mg_last st); [discriminate|].
    injection H as _ <-. exists e0, older. cbn [set_cur mg_win mg_sidx mg_last]. apply Nat.leb_le in E1. repeat split; lia.
  - destruct (length (skipn (mg_sidx st) (we_data e0)) <? MIN_MATCH).
    + destruct (length (we_data e0) <? mg_last st); [discriminate|].
      injection H as _ <-. exists e0, older. cbn [set_cur mg_win mg_sidx mg_last]. repeat split; lia.
    + destruct (find_cand _ _ _ _) as [[[off ml]|]|e|e]; try discriminate.
      * destruct (add_suffixes_till e0 (mg_sidx st) (mg_sidx st + ml)) as [e0'|e|e]; cbn [rbind] in H; try discriminate.
        destruct (mg_sidx st <? mg_last st); discriminate.
      * apply IH in H. exact H.
Qed.

Lemma next_seq_done f st e0 older : mg_win st = e0 :: older -> length (we_data e0) <= mg_sidx st -> mg_last st = mg_sidx st ->
  next_seq (S f) st = ROk (None, st).
Proof.
  intros Ew H1 H2. cbn [next_seq]. rewrite Ew.
  destruct (Nat.leb_spec (length (we_data e0)) (mg_sidx st)) as [_|H]; [|lia].
  rewrite H2, Nat.eqb_refl. reflexivity.
Qed.

Lemma start_loop_shape fuel : forall st acc out st', start_loop fuel st acc = ROk (out, st') ->
  exists ts tail, out = rev acc ++ ts ++ tail /\ Forall is_triple ts /\ (tail = [] \/ exists l, tail = [MLit l]).
Proof.
  induction fuel as [|f IH]; intros st acc out st' H; cbn [start_loop] in H; [discriminate|].
  destruct (next_seq _ st) as [[[sq|] st1]|e|e] eqn:En; cbn [rbind] in H; try discriminate.
  - destruct sq as [l|l off ml].
    + (* a literal run: the next call reports the end *)
      destruct (next_seq_lit _ _ _ _ En) as (e0 & older & Ew & L1 & L2).
      destruct f as [|f']; [discriminate|]. cbn [start_loop] in H. rewrite Ew in H.
      rewrite (next_seq_done _ st1 e0 older Ew L1 L2) in H. cbn [rbind] in H. injection H as <- _.
      exists [], [MLit l]. unfold rev'. rewrite <- rev_alt. cbn [rev app]. split; [reflexivity|]. split; [constructor|right; eexists; reflexivity].
    + destruct (IH _ _ _ _ H) as (ts & tail & -> & Ht & Htail).
      exists (MTriple l off ml :: ts), tail. cbn [rev]. rewrite <- !app_assoc. cbn [app].
      split; [reflexivity|]. split; [constructor; [exact I|exact Ht]|exact Htail].
  - injection H as <- _. exists [], []. unfold rev'. rewrite <- rev_alt, !app_nil_r. split; [reflexivity|]. split; [constructor|left; reflexivity].
Qed.

Theorem mstep_block_shape d data d' seqs : mstep d (OpBlock data false) = ROk (d', Some seqs) -> block_shape seqs.
Proof.
  unfold mstep, mgd_start, start_matching. intros H.
  destruct (commit_space d data) as [d1|e|e]; cbn [rbind] in H; try discriminate.
  destruct (start_loop _ (md_gen d1) []) as [[sq g]|e|e] eqn:El; cbn [rbind] in H; try discriminate.
  injection H as _ <-. destruct (start_loop_shape _ _ _ _ _ El) as (ts & tail & -> & Ht & Htail).
  exists ts, tail. cbn [rev app]. repeat split; assumption.
Qed.

Definition long_enough (s : mseq) : Prop := match s with MTriple _ _ ml => 2 <= ml | MLit _ => True end.
Lemma seq_bounds_long w s : seq_bounds w s -> long_enough s.
Proof. destruct s as [l|l off ml]; cbn; [trivial|]. unfold MIN_MATCH. lia. Qed.
