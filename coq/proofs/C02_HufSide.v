(** C02 / C16: the side conditions [huf_side_b] of the Huffman literal block theorem hold for EVERY table the decoder
    builds and every literal string made of symbols that table delivers (16 .. 128 Ki literals): the code read off the
    table is well formed and resolved, and no stream reaches the 64 KiB jump-table limit. *)
Require Import Zrs.lib.RsPrelude Zrs.gen.Generated Zrs.model.Headers Zrs.model.BitIO Zrs.model.BitStream Zrs.model.FseDec Zrs.model.HufDec Zrs.model.BlockDec Zrs.model.LitEnc Zrs.model.BlockEnc.
Require Import Zrs.proofs.C13_Stream Zrs.proofs.C13_Canonical Zrs.proofs.C13_CanonCode.
Open Scope Z_scope.

Lemma firstn_In' {A} n (l : list A) x : In x (firstn n l) -> In x l.
Proof. intros H. rewrite <- (firstn_skipn n l). apply in_or_app. left. exact H. Qed.
Lemma skipn_In' {A} n (l : list A) x : In x (skipn n l) -> In x l.
Proof. intros H. rewrite <- (firstn_skipn n l). apply in_or_app. right. exact H. Qed.

Lemma byte_bits_len n : forall v, length (byte_bits_lsb n v) = n.
Proof. induction n as [|n IH]; intros v; cbn [byte_bits_lsb length]; [reflexivity|]. rewrite IH. reflexivity. Qed.

Lemma fields_bits_bound fs b : Forall (fun f => (snd f <= b)%nat) fs -> (length (fields_bits fs) <= b * length fs)%nat.
Proof.
  induction fs as [|f t IH]; intros H; cbn [fields_bits flat_map length]; [lia|]. inversion H; subst.
  rewrite app_length, byte_bits_len. fold (fields_bits t). specialize (IH ltac:(assumption)). lia.
Qed.

Lemma stream_bytes_bound fs b : Forall (fun f => (snd f <= b)%nat) fs -> 8 * zlen (stream_bytes fs) <= Z.of_nat (b * length fs) + 8.
Proof.
  intros H. unfold zlen. rewrite <- (stream_len 1%nat (le_n 1%nat) fs). unfold stream_bits. rewrite app_length. cbn [length]. rewrite repeat_length.
  pose proof (fields_bits_bound fs b H). pose proof (Nat.mod_upper_bound (length (fields_bits fs)) 8 ltac:(lia)). lia.
Qed.

Lemma hstream_bound code data mn : (mn <= 11)%nat -> Z.of_nat (length data) <= 32768 ->
  Forall (fun s => code_ok_b mn code s = true) data -> zlen (hstream code data) < 65536.
Proof.
  intros Hmn Hlen Hok. unfold hstream.
  assert (F : Forall (fun f : field => (snd f <= 11)%nat) (map code (rev data))).
  { apply Forall_forall. intros f Hf. apply in_map_iff in Hf as (s & <- & Hs). apply in_rev in Hs.
    rewrite Forall_forall in Hok. specialize (Hok s Hs). unfold code_ok_b in Hok.
    apply andb_true_iff in Hok as [Hok _]. apply andb_true_iff in Hok as [Hok _]. apply andb_true_iff in Hok as [_ Hok]. apply Nat.leb_le in Hok. lia. }
  pose proof (stream_bytes_bound _ 11 F) as B. rewrite map_length, rev_length in B. lia.
Qed.

Theorem huf_side_holds ht src t used lits : huf_build_decoder ht src = ROk (t, used) ->
  Forall (fun w => 0 <= w) (ht_weights t) -> (length (ht_weights t) <= 255)%nat ->
  16 <= Z.of_nat (length lits) <= 131072 ->
  Forall (fun s => exists i, 0 <= i < 2 ^ ht_max_bits t /\ h_sym (nth_h (ht_decode t) i) = s) lits ->
  huf_side_b t (code_of_dec t) lits = true.
Proof.
  intros Hb Hw Hl Hn Hsyms.
  destruct (decoder_table_side_conditions ht src t used Hb Hw Hl) as (Hts & Hall). cbn zeta in Hall.
  assert (HM : 1 <= ht_max_bits t <= 11).
  { unfold huf_build_decoder in Hb. destruct (read_weights ht src) as [[[ws ft] bytes]|e|e]; cbn [rbind] in Hb; try discriminate.
    destruct (build_table_from_weights ws) as [[[[[dec M] bits] ranks] idxs]|e|e] eqn:Eb; cbn [rbind] in Hb; try discriminate.
    injection Hb as <- _. cbn [ht_weights ht_max_bits] in *.
    destruct (C03_HufComplete.built_huffman_table_complete ws dec M bits ranks idxs Hw Eb) as (_ & HM & _). exact HM. }
  assert (Hok : forall s, In s lits -> code_ok_b (Z.to_nat (ht_max_bits t)) (code_of_dec t) s = true /\ resolves_b t (Z.to_nat (ht_max_bits t)) (code_of_dec t) s = true).
  { intros s Hs. rewrite Forall_forall in Hsyms. destruct (Hsyms s Hs) as (i & Hi & <-). apply Hall. exact Hi. }
  unfold huf_side_b. unfold split4.
  set (q := quarter (length lits)). assert (Hq : Z.of_nat q <= 32768).
  { unfold q, quarter. rewrite Nat2Z.inj_div. change (Z.of_nat 4) with 4. rewrite Nat2Z.inj_add. change (Z.of_nat 3) with 3.
    assert (Z.of_nat (length lits) + 3 < 4 * 32769) by lia. apply Z.lt_succ_r. apply Z.div_lt_upper_bound; lia. }
  rewrite Hts. assert ((16 <=? length lits)%nat = true) as -> by (apply Nat.leb_le; lia). cbn [andb].
  assert (Hsub : forall l, (forall x, In x l -> In x lits) -> Forall (fun s => code_ok_b (Z.to_nat (ht_max_bits t)) (code_of_dec t) s = true) l).
  { intros l Hin. apply Forall_forall. intros x Hx. apply (Hok x (Hin x Hx)). }
  assert (S1 : zlen (hstream (code_of_dec t) (firstn q lits)) < 65536).
  { apply (hstream_bound _ _ (Z.to_nat (ht_max_bits t))); [lia|rewrite firstn_length; lia|]. apply Hsub. intros x Hx. apply (firstn_In' _ _ _ Hx). }
  assert (S2 : zlen (hstream (code_of_dec t) (firstn q (skipn q lits))) < 65536).
  { apply (hstream_bound _ _ (Z.to_nat (ht_max_bits t))); [lia|rewrite firstn_length; lia|]. apply Hsub. intros x Hx. apply firstn_In' in Hx. apply (skipn_In' _ _ _ Hx). }
  assert (S3 : zlen (hstream (code_of_dec t) (firstn q (skipn (2 * q) lits))) < 65536).
  { apply (hstream_bound _ _ (Z.to_nat (ht_max_bits t))); [lia|rewrite firstn_length; lia|]. apply Hsub. intros x Hx. apply firstn_In' in Hx. apply (skipn_In' _ _ _ Hx). }
  apply Z.ltb_lt in S1, S2, S3. rewrite S1, S2, S3. rewrite !andb_true_r.
  apply forallb_forall. intros s Hs. apply nodup_In in Hs. destruct (Hok s Hs) as (A & B). rewrite A, B. reflexivity.
Qed.
