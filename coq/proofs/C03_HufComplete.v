(** C03: every Huffman decoding table the decoder builds is complete -- each of its 2^max_bits entries carries a code
    length between 1 and max_bits -- so that decoding a stream with it can neither index out of the table nor stand
    still: [huf_decode_stream] returns a result or an error for every table built from non-negative weights and every
    byte string. *)
Require Import Zrs.lib.RsPrelude Zrs.model.BitIO Zrs.model.FseDec Zrs.model.HufDec.
Require Import Zrs.proofs.C03_HufTable.
Open Scope Z_scope.

(** *** filling a range *)
Lemma fill_range_length n : forall base e dec, length (fill_range n base e dec) = length dec.
Proof. induction n as [|n IH]; intros base e dec; cbn [fill_range]; [reflexivity|]. rewrite IH. apply upd_len. Qed.

Lemma nth_h_upd dec i e j : 0 <= i -> 0 <= j -> nth_h (upd dec (Z.to_nat i) e) j = if (j =? i) && (j <? Z.of_nat (length dec)) then e else nth_h dec j.
Proof.
  intros Hi Hj. unfold nth_h. destruct (Z.eqb_spec j i) as [->|Hn]; cbn [andb].
  - destruct (Z.ltb_spec i (Z.of_nat (length dec))) as [Hlt|Hge].
    + assert (Hk : (Z.to_nat i < length dec)%nat) by lia. revert Hk. generalize (Z.to_nat i). clear. intros k. revert k.
      induction dec as [|h t IH]; intros k Hk; [cbn in Hk; lia|]. destruct k; cbn [upd nth]; [reflexivity|]. apply IH. cbn in Hk. lia.
    + assert (Hk : (length dec <= Z.to_nat i)%nat) by lia. revert Hk. generalize (Z.to_nat i). clear. intros k. revert k.
      induction dec as [|h t IH]; intros k Hk; [destruct k; reflexivity|]. destruct k; [cbn in Hk; lia|]. cbn [upd nth]. apply IH. cbn in Hk. lia.
  - assert (Hne : Z.to_nat i <> Z.to_nat j) by lia. revert Hne. generalize (Z.to_nat i) (Z.to_nat j). clear. intros a b. revert a b.
    induction dec as [|h t IH]; intros a b Hn; [destruct a; destruct b; reflexivity|].
    destruct a; destruct b; cbn [upd nth]; try reflexivity; try lia. apply IH. lia.
Qed.

Lemma fill_range_spec n : forall base e dec j, 0 <= base -> 0 <= j -> base + Z.of_nat n <= Z.of_nat (length dec) ->
  nth_h (fill_range n base e dec) j = if (base <=? j) && (j <? base + Z.of_nat n) then e else nth_h dec j.
Proof.
  induction n as [|n IH]; intros base e dec j Hb Hj Hl; cbn [fill_range].
  - destruct (Z.leb_spec base j); destruct (Z.ltb_spec j (base + Z.of_nat 0)); cbn [andb]; try reflexivity; lia.
  - rewrite IH by (rewrite ?upd_len; lia). rewrite nth_h_upd by lia.
    destruct (Z.leb_spec (base + 1) j); destruct (Z.ltb_spec j (base + 1 + Z.of_nat n)); cbn [andb];
      destruct (Z.eqb_spec j base); destruct (Z.ltb_spec j (Z.of_nat (length dec))); cbn [andb];
      destruct (Z.leb_spec base j); destruct (Z.ltb_spec j (base + Z.of_nat (S n))); cbn [andb]; try reflexivity; lia.
Qed.

(** *** the regions of the code lengths tile the table *)
Section Tiling.
  Variable M : Z.
  Variable ranks : list Z.
  Hypothesis HM : 1 <= M.
  Let R (n : nat) : Z := region M ranks n.
  Hypothesis Rnn : forall c, 0 <= nth_z ranks c.

  Lemma R_mono a b : (a <= b)%nat -> R a <= R b.
  Proof. apply region_mono. exact Rnn. Qed.

  (** entries [R n .. cur) of class n (code length M - n) are filled *)
  Definition class_ok (bits : list Z) (cur : list Z) (dec : list huf_entry) : Prop :=
    forall n, (n < Z.to_nat M)%nat ->
      let b := M - Z.of_nat n in
      nth_z cur b + cnt b bits * 2 ^ Z.of_nat n = R (S n) /\ R n <= nth_z cur b /\
      forall i, R n <= i < nth_z cur b -> h_bits (nth_h dec i) = b.

  Lemma assign_codes_complete bits : forall sym cur dec,
    Z.of_nat (length cur) = M + 1 -> Z.of_nat (length dec) = 2 ^ M -> R (Z.to_nat M) = 2 ^ M ->
    Forall (fun b => 0 <= b <= M) bits -> (forall n, (n <= Z.to_nat M)%nat -> nth_z ranks (M - Z.of_nat n) = nth_z ranks (M - Z.of_nat n)) ->
    class_ok bits cur dec ->
    exists cur' dec', assign_codes bits sym M cur dec = ROk (cur', dec') /\ Z.of_nat (length dec') = 2 ^ M /\ class_ok [] cur' dec'.
  Proof.
    induction bits as [|x t IH]; intros sym cur dec Hlc Hld Htot Hb _ Hok; cbn [assign_codes].
    - exists cur, dec. split; [reflexivity|]. split; [exact Hld|exact Hok].
    - inversion Hb as [|? ? Hx Ht]; subst.
      destruct (Z.eqb_spec x 0) as [E0|E0].
      + apply IH; try assumption; [trivial|]. intros n Hn. destruct (Hok n Hn) as (A & B & C). cbn [cnt] in A.
        destruct (Z.eqb_spec x (M - Z.of_nat n)); [lia|]. split; [lia|]. split; assumption.
      + destruct (Z.leb_spec (Z.of_nat (length cur)) x) as [H|_]; [lia|].
        set (n := Z.to_nat (M - x)). assert (Hn : (n < Z.to_nat M)%nat) by (unfold n; lia).
        assert (Ex : M - Z.of_nat n = x) by (unfold n; lia).
        destruct (Hok n Hn) as (A & B & C). rewrite Ex in A, B, C. cbn [cnt] in A. rewrite Z.eqb_refl in A.
        replace (M - x) with (Z.of_nat n) by lia.
        pose proof (cnt_nonneg x t) as Hc. assert (P : 0 < 2 ^ Z.of_nat n) by (apply Z.pow_pos_nonneg; lia).
        pose proof (R_mono (S n) (Z.to_nat M) ltac:(lia)) as Hle. rewrite Htot in Hle.
        destruct (Z.ltb_spec (2 ^ M) (nth_z cur x + 2 ^ Z.of_nat n)) as [Hbad|_]; [nia|].
        assert (R0 : 0 <= R n).
        { pose proof (R_mono 0 n ltac:(lia)) as H0. unfold R in H0 at 1. cbn [region] in H0. exact H0. }
        apply IH; try assumption; [rewrite upd_len; exact Hlc|rewrite fill_range_length; exact Hld|trivial|].
        intros k Hk. cbn zeta. rewrite nthz_upd by lia.
        destruct (Hok k Hk) as (Ak & Bk & Ck). cbn [cnt] in Ak.
        destruct (Z.eqb_spec (M - Z.of_nat k) x) as [Ekx|Ekx].
        * assert (k = n) by lia. subst k. rewrite Ex in *. rewrite Z.eqb_refl in Ak.
          split; [nia|]. split; [lia|]. intros i Hi.
          rewrite fill_range_spec by (rewrite ?Z2Nat.id by lia; lia). rewrite Z2Nat.id by lia.
          destruct (Z.leb_spec (nth_z cur x) i); destruct (Z.ltb_spec i (nth_z cur x + 2 ^ Z.of_nat n)); cbn [andb]; try (cbn [h_bits]; reflexivity); try lia.
          apply C. lia.
        * destruct (Z.eqb_spec x (M - Z.of_nat k)); [lia|]. split; [lia|]. split; [exact Bk|]. intros i Hi.
          assert (Rk0 : 0 <= R k) by (pose proof (R_mono 0 k ltac:(lia)) as H0; unfold R in H0 at 1; cbn [region] in H0; exact H0).
          rewrite fill_range_spec by (rewrite ?Z2Nat.id by lia; lia). rewrite Z2Nat.id by lia.
          (* the filled interval lies in class n, [i] in class k <> n *)
          pose proof (cnt_nonneg (M - Z.of_nat k) t) as Hck. assert (Pk : 0 < 2 ^ Z.of_nat k) by (apply Z.pow_pos_nonneg; lia).
          assert (Hik : i < R (S k)) by nia.
          destruct (Nat.lt_ge_cases k n) as [Hkn|Hkn].
          -- pose proof (R_mono (S k) n ltac:(lia)). destruct (Z.leb_spec (nth_z cur x) i); [lia|]. cbn [andb]. apply Ck. exact Hi.
          -- assert (n < k)%nat by lia. pose proof (R_mono (S n) k ltac:(lia)).
             assert (nth_z cur x + 2 ^ Z.of_nat n <= R (S n)) by nia.
             destruct (Z.ltb_spec i (nth_z cur x + 2 ^ Z.of_nat n)); [lia|]. rewrite andb_false_r. apply Ck. exact Hi.
  Qed.

  (** every index of a table whose classes are all filled has a code length in 1..M *)
  Lemma filled_table_bits cur dec : R (Z.to_nat M) = 2 ^ M -> class_ok [] cur dec ->
    forall i, 0 <= i < 2 ^ M -> 1 <= h_bits (nth_h dec i) <= M.
  Proof.
    intros Htot Hok i Hi.
    assert (Hfind : forall m, (m <= Z.to_nat M)%nat -> i < R m -> exists n, (n < m)%nat /\ R n <= i < R (S n)).
    { induction m as [|m IHm]; intros Hm Hlt; [unfold R in Hlt; cbn [region] in Hlt; lia|].
      destruct (Z.lt_ge_cases i (R m)) as [Hl|Hg].
      - destruct (IHm ltac:(lia) Hl) as (n & Hn & Hr). exists n. split; [lia|exact Hr].
      - exists m. split; [lia|lia]. }
    destruct (Hfind (Z.to_nat M) (le_n _) ltac:(rewrite Htot; lia)) as (n & Hn & Hr).
    destruct (Hok n Hn) as (A & B & C). cbn [cnt] in A. rewrite (C i ltac:(lia)). lia.
  Qed.
End Tiling.

(** *** the table of [build_table_from_weights] *)
Theorem built_huffman_table_complete ws dec0 M0 bits0 ranks0 idxs0 : Forall (fun w => 0 <= w) ws ->
  build_table_from_weights ws = ROk (dec0, M0, bits0, ranks0, idxs0) ->
  Z.of_nat (length dec0) = 2 ^ M0 /\ 1 <= M0 <= MAX_MAX_NUM_BITS /\ forall i, 0 <= i < 2 ^ M0 -> 1 <= h_bits (nth_h dec0 i) <= M0.
Proof.
  intros Hnn Hres. revert Hres.
  unfold build_table_from_weights.
  destruct (weight_sum ws 0) as [wsum|e|e] eqn:Ew; cbn [rbind]; [|discriminate|discriminate].
  destruct (weight_sum_spec ws 0 wsum Ew Hnn) as (Hmaxw & Esum). cbn [Z.add] in Esum.
  destruct (Z.eqb_spec wsum 0) as [|Hs0]; [discriminate|].
  set (M := highest_bit_set wsum). set (lo := 2 ^ M - wsum).
  destruct (is_pow2 lo) eqn:Ep; cbn [negb]; [|discriminate].
  destruct (Z.ltb_spec MAX_MAX_NUM_BITS M) as [|HM11]; [discriminate|].
  (* facts about the sizes *)
  assert (Hsum_nn : 0 <= wsum).
  { rewrite Esum. clear. induction ws as [|w t IH]; cbn [fold_right]; [lia|]. destruct (0 <? w); [|lia]. pose proof (Z.pow_nonneg 2 (w - 1) ltac:(lia)). lia. }
  assert (Hsp : 0 < wsum) by lia.
  pose proof (Z.log2_spec wsum Hsp) as (Llo & Lup). pose proof (Z.log2_nonneg wsum) as L0.
  unfold highest_bit_set in M. change (Z.succ (Z.log2 wsum)) with (Z.log2 wsum + 1) in Lup. fold M in Lup.
  assert (HM1 : 1 <= M) by (unfold M; lia).
  unfold is_pow2 in Ep. apply andb_prop in Ep as [Ep1 Ep2].
  assert (Hlo : 0 < lo) by lia. assert (Elo : 2 ^ Z.log2 lo = lo) by lia.
  pose proof (Z.log2_nonneg lo) as Llo0.
  assert (Hlw : 1 <= highest_bit_set lo <= M).
  { unfold highest_bit_set. split; [lia|]. assert (Z.log2 lo < M); [|lia]. apply Z.log2_lt_pow2; [exact Hlo|]. unfold lo. lia. }
  set (lw := highest_bit_set lo) in *.
  set (bits := map (fun w => if 0 <? w then M + 1 - w else 0) ws ++ [M + 1 - lw]).
  (* every positive weight is at most M: 2^(w-1) <= wsum < 2^M *)
  assert (Hw_le : forall w, In w ws -> 0 < w -> w <= M).
  { intros w Hw Hpos.
    assert (2 ^ (w - 1) <= wsum).
    { rewrite Esum. clear - Hw Hpos. induction ws as [|v t IH]; [contradiction|]. cbn [fold_right].
      assert (0 <= fold_right (fun w a => (if 0 <? w then 2 ^ (w - 1) else 0) + a) 0 t).
      { clear. induction t as [|u t IH]; cbn [fold_right]; [lia|]. destruct (0 <? u); [|lia]. pose proof (Z.pow_nonneg 2 (u - 1) ltac:(lia)). lia. }
      destruct Hw as [->|Hw]; [destruct (Z.ltb_spec 0 w); lia|]. specialize (IH Hw).
      destruct (0 <? v); [|lia]. pose proof (Z.pow_nonneg 2 (v - 1) ltac:(lia)). lia. }
    assert (w - 1 < M); [|lia]. apply (Z.pow_lt_mono_r_iff 2); lia. }
  (* every code length is within 0..M *)
  assert (Hbits : Forall (fun b => 0 <= b <= M) bits).
  { unfold bits. apply Forall_app. split; [|constructor; [lia|constructor]].
    apply Forall_forall. intros b Hb. apply in_map_iff in Hb as (w & <- & Hw).
    pose proof Hnn as Hnn'. rewrite Forall_forall in Hnn'. specialize (Hnn' w Hw).
    destruct (Z.ltb_spec 0 w) as [Hpos|]; [|lia]. specialize (Hw_le w Hw Hpos). lia. }
  destruct (count_ranks_spec bits (zeros (Z.to_nat (M + 1))) M ltac:(rewrite zeros_len; lia) Hbits) as (ranks & -> & Lr & Gr).
  cbn [rbind].
  assert (Gr' : forall b, 0 <= b -> nth_z ranks b = cnt b bits) by (intros b Hb0; rewrite Gr, nthz_zeros by exact Hb0; lia).
  destruct (rank_idx_loop_inv (Z.to_nat M) M ranks (zeros (Z.to_nat (M + 1))) 0 ltac:(rewrite zeros_len; lia) ltac:(lia) ltac:(lia)) as (Li & Gi).
  { intros k Hk. assert (k = 0%nat) by lia. subst k. rewrite nthz_zeros. reflexivity. }
  cbn [Nat.add Z.of_nat] in Gi, Li. replace (M - 0) with M in * by lia.
  set (idxs := rank_idx_loop (Z.to_nat M) M M ranks (zeros (Z.to_nat (M + 1)))) in *.
  (* the total weight is the table size *)
  assert (Hwt : wt M bits = 2 ^ M).
  { unfold bits. assert (Wapp : forall a b, wt M (a ++ b) = wt M a + wt M b) by (induction a as [|y a IHa]; intros b; cbn [app wt]; [lia|rewrite IHa; lia]).
    rewrite Wapp. cbn [wt]. destruct (Z.ltb_spec 0 (M + 1 - lw)); [|lia].
    replace (M - (M + 1 - lw)) with (lw - 1) by lia. unfold lw, highest_bit_set. replace (Z.log2 lo + 1 - 1) with (Z.log2 lo) by lia. rewrite Elo.
    assert (wt M (map (fun w => if 0 <? w then M + 1 - w else 0) ws) = wsum); [|unfold lo; lia].
    rewrite Esum.
    clear - Hw_le. induction ws as [|w t IH]; cbn [map wt fold_right]; [reflexivity|].
    rewrite IH by (intros; apply Hw_le; [right|]; assumption).
    destruct (Z.ltb_spec 0 w) as [Hpos|]; [|reflexivity].
    specialize (Hw_le w (or_introl eq_refl) Hpos). destruct (Z.ltb_spec 0 (M + 1 - w)); [|lia]. replace (M - (M + 1 - w)) with (w - 1) by lia. reflexivity. }
  assert (Htot : nth_z idxs 0 = 2 ^ M).
  { replace 0 with (M - Z.of_nat (Z.to_nat M)) at 1 by lia. rewrite Gi by lia. rewrite (region_total M bits ltac:(lia) Hbits ranks Gr'). exact Hwt. }
  rewrite Htot, Z.eqb_refl. cbn [negb].
  assert (Hrank0 : forall c, 0 <= nth_z ranks c).
  { intros c. destruct (Z.ltb_spec c 0).
    - replace (nth_z ranks c) with (nth_z ranks 0) by (unfold nth_z; f_equal; lia). rewrite Gr' by lia. apply cnt_nonneg.
    - rewrite Gr' by lia. apply cnt_nonneg. }
  assert (Hreg : region M ranks (Z.to_nat M) = 2 ^ M) by (rewrite (region_total M bits ltac:(lia) Hbits ranks Gr'); exact Hwt).
  assert (Ldec : Z.of_nat (length (hentries0 (Z.to_nat (2 ^ M)))) = 2 ^ M).
  { assert (forall n, length (hentries0 n) = n) as Hl by (induction n; cbn [hentries0 length]; congruence). rewrite Hl. pose proof (Z.pow_pos_nonneg 2 M ltac:(lia) ltac:(lia)). lia. }
  destruct (assign_codes_complete M ranks HM1 Hrank0 bits 0 idxs (hentries0 (Z.to_nat (2 ^ M))) Li Ldec Hreg Hbits ltac:(trivial)) as (cur' & dec' & Ea & Ld' & Hok').
  { intros n Hn. cbn zeta. rewrite Gi by lia. split; [cbn [region]; rewrite Gr' by lia; reflexivity|]. split; [lia|]. intros i Hi. lia. }
  rewrite Ea. cbn [rbind]. intros H. injection H as <- <- _ _ _.
  split; [exact Ld'|]. split; [lia|]. apply (filled_table_bits M ranks HM1 Hrank0 cur' dec' Hreg Hok').
Qed.
