(** C10: decode_all never accepts leftover bytes that cannot start a frame: an input of one to three bytes (what remains
    after the last frame when a concatenation is cut inside the next magic number, or trailing garbage) is an error;
    and the empty input is the only one on which the frame loop stops. *)
Require Import Zrs.lib.RsPrelude Zrs.gen.Generated Zrs.model.Headers Zrs.model.BitIO Zrs.model.FseDec Zrs.model.HufDec Zrs.model.BlockDec Zrs.model.FrameDec.
Open Scope Z_scope.

Lemma read_frame_header_short src : (length src < 4)%nat -> read_frame_header src = FhErr "MagicNumberReadError".
Proof. intros H. unfold read_frame_header, take. destruct (Nat.ltb_spec (length src) 4); [reflexivity|lia]. Qed.

Theorem decode_all_rejects_short_tail d input cap : (1 <= length input < 4)%nat ->
  fdec_decode_all d input cap = RErr "MagicNumberReadError".
Proof.
  intros H. unfold fdec_decode_all. cbn [decode_all_outer].
  destruct input as [|x t]; [cbn in H; lia|].
  unfold frame_front at 1. rewrite read_frame_header_short by lia.
  unfold fdec_reset, frame_front. rewrite read_frame_header_short by lia. reflexivity.
Qed.

(** the loop only returns normally at a frame boundary with nothing left: a normal return on a non-empty input means
    a first frame (or skippable frame) was fully consumed and the rest was processed by the same loop *)
Theorem decode_all_ok_unfolds fuel d input room w d' out : input <> [] ->
  decode_all_outer (S fuel) d input room w = ROk (d', out) ->
  (exists m len, frame_front input (fd_max_window d) = inr (m, len) /\ len <= zlen (drop_z 8 input) /\
     decode_all_outer fuel d (drop_z len (drop_z 8 input)) room w = ROk (d', out)) \/
  (exists d1 rest ev d2 rest2 room2 w2,
     fdec_reset d input = ROk (d1, rest, ev) /\
     decode_all_inner (S (S (length rest))) d1 rest room w = ROk (d2, rest2, room2, w2) /\
     decode_all_outer fuel d2 rest2 room2 w2 = ROk (d', out)).
Proof.
  intros Hne H. cbn [decode_all_outer] in H. destruct input as [|x t]; [congruence|].
  destruct (frame_front (x :: t) (fd_max_window d)) as [r|[m len]] eqn:Ef.
  - right. destruct (fdec_reset d (x :: t)) as [[[d1 rest] ev]|e|e] eqn:Er; cbn [rbind] in H; try discriminate.
    destruct (decode_all_inner _ d1 rest room w) as [[[[d2 rest2] room2] w2]|e|e] eqn:Ei; cbn [rbind] in H; try discriminate.
    exists d1, rest, ev, d2, rest2, room2, w2. repeat split; assumption.
  - left. destruct (Z.ltb_spec (zlen (drop_z 8 (x :: t))) len) as [Hl|Hl]; [discriminate|].
    exists m, len. repeat split; [lia|exact H].
Qed.
