(** C18: the hand-written I/O layer behaves like the documented contract of std::io (io_read_exact, Take, read_to_end,
    io_write_all), for every script of inner-reader / inner-writer behaviour (short reads, interruptions, failures). *)
Require Import Zrs.lib.RsPrelude Zrs.model.IoNoStd.
Open Scope nat_scope.

Lemma firstn_split (a : nat) : forall b (l : list Z), firstn (a + b) l = firstn a l ++ firstn b (skipn a l).
Proof.
  induction a as [|a IH]; intros b l; [reflexivity|]. destruct l as [|x t]; [cbn; rewrite firstn_nil; reflexivity|].
  cbn [Nat.add firstn skipn app]. f_equal. apply IH.
Qed.
Lemma skipn_add (a : nat) : forall b (l : list Z), skipn b (skipn a l) = skipn (a + b) l.
Proof.
  induction a as [|a IH]; intros b l; [reflexivity|]. destruct l as [|x t]; [cbn; rewrite skipn_nil; reflexivity|].
  cbn [Nat.add skipn]. apply IH.
Qed.

Lemma sr_read_spec r space :
  match sr_read r space with
  | (inl bytes, r') => exists k, k <= space /\ bytes = firstn k (sr_data r) /\ sr_data r' = skipn k (sr_data r) /\
                                 length (sr_script r') <= length (sr_script r) /\
                                 (bytes = [] -> space = 0 \/ sr_data r = []) /\
                                 (forall c, In c (sr_script r') -> In c (sr_script r))
  | (inr e, r') => sr_data r' = sr_data r /\ S (length (sr_script r')) = length (sr_script r) /\ (e = EInterrupted \/ e = EOther) /\
                   (e = EOther -> In RFail (sr_script r)) /\ (forall c, In c (sr_script r') -> In c (sr_script r))
  end.
Proof.
  unfold sr_read. destruct (sr_script r) as [|c t] eqn:E.
  - exists space. cbn [sr_data sr_script length]. split; [lia|]. split; [reflexivity|]. split; [reflexivity|]. split; [lia|].
    split; [|intros c []].
    intros H. destruct space; [left; reflexivity|]. right. destruct (sr_data r); [reflexivity|discriminate].
  - destruct c as [n| |].
    + exists (Nat.min space (S n)). cbn [sr_data sr_script length]. split; [lia|]. split; [reflexivity|]. split; [reflexivity|]. split; [lia|].
      split; [|intros c Hc; right; exact Hc].
      intros H. destruct space; [left; reflexivity|]. right. destruct (sr_data r); [reflexivity|].
      replace (Nat.min (S space) (S n)) with (S (Nat.min space n)) in H by lia. discriminate.
    + cbn [sr_data sr_script length]. split; [reflexivity|]. split; [reflexivity|]. split; [left; reflexivity|].
      split; [intros; discriminate|intros c Hc; right; exact Hc].
    + cbn [sr_data sr_script length]. split; [reflexivity|]. split; [reflexivity|]. split; [right; reflexivity|].
      split; [intros _; left; reflexivity|intros c Hc; right; exact Hc].
Qed.

(** *** io_read_exact *)
Theorem read_exact_spec fuel : forall r need got got' err r',
  need + length (sr_script r) < fuel ->
  io_read_exact fuel r need got = ((got', err), r') ->
  exists k, got' = got ++ firstn k (sr_data r) /\ sr_data r' = skipn k (sr_data r) /\ k <= need /\
    match err with
    | None => k = need /\ need <= length (sr_data r)
    | Some EUnexpectedEof => k = length (sr_data r) /\ length (sr_data r) < need
    | Some EOther => In RFail (sr_script r)
    | Some _ => False
    end.
Proof.
  induction fuel as [|f IH]; intros r need got got' err r' Hf H; [lia|].
  destruct need as [|need'].
  - cbn [io_read_exact] in H. injection H as <- <- <-. exists 0. cbn. rewrite app_nil_r. repeat split; lia.
  - cbn [io_read_exact] in H. remember (S need') as need eqn:Hneed.
    pose proof (sr_read_spec r need) as Sp. destruct (sr_read r need) as [[bytes|e] r1].
    + destruct Sp as (k & Hk & Eb & Er & Ls & Hz & Hin).
      destruct bytes as [|b0 bt] eqn:Ebytes.
      * injection H as <- <- <-. destruct (Hz eq_refl) as [Hs|Hd]; [lia|].
        exists 0. rewrite Hd. cbn. rewrite app_nil_r. repeat split; try lia. rewrite Er, Hd. destruct k; reflexivity.
      * rewrite <- Ebytes in *. assert (Lb : length bytes = Nat.min k (length (sr_data r))) by (rewrite Eb; apply firstn_length).
        assert (Lpos : 1 <= length bytes) by (rewrite Ebytes; cbn; lia).
        destruct (IH r1 (need - length bytes) (got ++ bytes) got' err r') as (k2 & G & R & K2 & Herr); [lia|exact H|].
        exists (length bytes + k2). rewrite G, R, Er.
        assert (Ebl : bytes = firstn (length bytes) (sr_data r)).
        { rewrite Eb at 1. rewrite Lb. destruct (Nat.le_ge_cases k (length (sr_data r))).
          - rewrite Nat.min_l by lia. reflexivity.
          - rewrite Nat.min_r by lia. rewrite !firstn_all2 by lia. reflexivity. }
        assert (Esk : skipn k (sr_data r) = skipn (length bytes) (sr_data r)).
        { rewrite Lb. destruct (Nat.le_ge_cases k (length (sr_data r))).
          - rewrite Nat.min_l by lia. reflexivity.
          - rewrite Nat.min_r by lia. rewrite !skipn_all2 by lia. reflexivity. }
        rewrite Esk in *.
        split; [rewrite <- app_assoc; f_equal; rewrite firstn_split, <- Ebl; reflexivity|].
        split; [apply skipn_add|]. split; [lia|].
        destruct err as [[| | |]|]; try exact Herr.
        -- apply Hin. exact Herr.
        -- rewrite Er, skipn_length in Herr. lia.
        -- rewrite Er, skipn_length in Herr. lia.
    + destruct Sp as (Ed & Ls & He & Hfail & Hin).
      destruct e.
      * destruct (IH r1 need got got' err r') as (k2 & G & R & K2 & Herr); [lia|exact H|].
        exists k2. rewrite Ed in *. repeat split; try assumption.
        destruct err as [[| | |]|]; try exact Herr. apply Hin. exact Herr.
      * injection H as <- <- <-. exists 0. cbn [firstn skipn]. rewrite app_nil_r. split; [reflexivity|]. split; [exact Ed|]. split; [lia|]. apply Hfail. reflexivity.
      * destruct He; discriminate.
      * destruct He; discriminate.
Qed.

(** with no failing call in the script and enough data, io_read_exact succeeds (and never reports Interrupted) *)
Corollary read_exact_succeeds fuel r need got : need + length (sr_script r) < fuel -> ~ In RFail (sr_script r) ->
  need <= length (sr_data r) ->
  exists r', io_read_exact fuel r need got = ((got ++ firstn need (sr_data r), None), r') /\ sr_data r' = skipn need (sr_data r).
Proof.
  intros Hf Hnf Hd. destruct (io_read_exact fuel r need got) as [[got' err] r'] eqn:E.
  destruct (read_exact_spec fuel r need got got' err r' Hf E) as (k & G & R & K & Herr).
  destruct err as [[| | |]|]; try contradiction; try lia.
  destruct Herr as [-> _]. exists r'. rewrite G. split; [reflexivity|exact R].
Qed.

(** *** Take *)
Theorem take_read_spec t space : (0 <= tk_limit t)%Z ->
  match io_take_read t space with
  | (inl bytes, t') => exists k, k <= space /\ (Z.of_nat k <= tk_limit t)%Z /\ bytes = firstn k (sr_data (tk_inner t)) /\
                                 sr_data (tk_inner t') = skipn k (sr_data (tk_inner t)) /\
                                 (tk_limit t' = tk_limit t - Z.of_nat (length bytes))%Z /\ (0 <= tk_limit t')%Z /\
                                 (bytes = [] -> space = 0 \/ tk_limit t = 0%Z \/ sr_data (tk_inner t) = [])
  | (inr e, t') => tk_limit t' = tk_limit t /\ sr_data (tk_inner t') = sr_data (tk_inner t)
  end.
Proof.
  intros Hl. unfold io_take_read. destruct (Z.eqb_spec (tk_limit t) 0) as [H0|Hn0].
  - exists 0. cbn. repeat split; try lia.
  - pose proof (sr_read_spec (tk_inner t) (Z.to_nat (Z.min (tk_limit t) (Z.of_nat space)))) as Sp.
    destruct (sr_read (tk_inner t) (Z.to_nat (Z.min (tk_limit t) (Z.of_nat space)))) as [[bytes|e] r'].
    + destruct Sp as (k & Hk & Eb & Er & _ & Hz & _). exists k. cbn [tk_inner tk_limit].
      assert (Lb : length bytes <= k) by (rewrite Eb, firstn_length; lia).
      repeat split; try lia; try assumption.
      intros Hb. destruct (Hz Hb) as [Hs|Hd]; [|right; right; exact Hd]. left. lia.
    + destruct Sp as (Ed & _). cbn [tk_inner tk_limit]. split; [reflexivity|exact Ed].
Qed.

(** everything read through a Take, over any sequence of calls, is a prefix of the inner data no longer than the
    limit; without failing / interrupted calls, read_to_end delivers exactly min(limit, available) bytes *)
Theorem take_read_to_end_spec fuel : forall t out out' err t', (0 <= tk_limit t)%Z ->
  io_take_read_to_end fuel t out = ((out', err), t') ->
  exists k, out' = out ++ firstn k (sr_data (tk_inner t)) /\ (Z.of_nat k <= tk_limit t)%Z /\
            sr_data (tk_inner t') = skipn k (sr_data (tk_inner t)) /\
            (err = None -> Z.of_nat k = Z.min (tk_limit t) (Z.of_nat (length (sr_data (tk_inner t)))))%Z.
Proof.
  induction fuel as [|f IH]; intros t out out' err t' Hl H; cbn [io_take_read_to_end] in H.
  - injection H as <- <- <-. exists 0. cbn. rewrite app_nil_r. repeat split; try lia. discriminate.
  - pose proof (take_read_spec t (Z.to_nat 16384) Hl) as Sp.
    destruct (io_take_read t (Z.to_nat 16384)) as [[bytes|e] t1].
    + destruct Sp as (k & Hk & Hkl & Eb & Er & El & El0 & Hz).
      destruct bytes as [|b0 bt] eqn:Ebytes.
      * injection H as <- <- <-. exists 0. cbn [firstn skipn]. rewrite app_nil_r. split; [reflexivity|]. split; [lia|].
        split; [rewrite Er; destruct k; [reflexivity|]; destruct (sr_data (tk_inner t)); [reflexivity|discriminate]|].
        intros _. destruct (Hz eq_refl) as [Hs|[H0|Hd]]; [change (Z.to_nat 16384) with (Pos.to_nat 16384) in Hs; lia|lia|rewrite Hd; cbn; lia].
      * rewrite <- Ebytes in *.
        assert (Lb : length bytes = Nat.min k (length (sr_data (tk_inner t)))) by (rewrite Eb; apply firstn_length).
        destruct (IH t1 (out ++ bytes) out' err t' El0 H) as (k2 & G & K2 & R & Hn).
        assert (Ebl : bytes = firstn (length bytes) (sr_data (tk_inner t))).
        { rewrite Eb at 1. rewrite Lb. destruct (Nat.le_ge_cases k (length (sr_data (tk_inner t)))).
          - rewrite Nat.min_l by lia. reflexivity.
          - rewrite Nat.min_r by lia. rewrite !firstn_all2 by lia. reflexivity. }
        assert (Esk : skipn k (sr_data (tk_inner t)) = skipn (length bytes) (sr_data (tk_inner t))).
        { rewrite Lb. destruct (Nat.le_ge_cases k (length (sr_data (tk_inner t)))).
          - rewrite Nat.min_l by lia. reflexivity.
          - rewrite Nat.min_r by lia. rewrite !skipn_all2 by lia. reflexivity. }
        exists (length bytes + k2). rewrite G, R, Er, Esk in *.
        split; [rewrite <- app_assoc; f_equal; rewrite firstn_split, <- Ebl; reflexivity|].
        split; [lia|]. split; [apply skipn_add|].
        intros He. specialize (Hn He). rewrite skipn_length in Hn. lia.
    + destruct Sp as (El & Ed). injection H as <- <- <-. exists 0. cbn [firstn skipn]. rewrite app_nil_r.
      split; [reflexivity|]. split; [lia|]. split; [exact Ed|discriminate].
Qed.

(** *** io_write_all *)
Lemma sw_write_spec w buf :
  match sw_write w buf with
  | (inl n, w') => n <= length buf /\ sw_out w' = sw_out w ++ firstn n buf /\ length (sw_script w') <= length (sw_script w) /\
                   (n = 0 -> buf = [] \/ In WZero (sw_script w)) /\ (forall c, In c (sw_script w') -> In c (sw_script w))
  | (inr e, w') => sw_out w' = sw_out w /\ S (length (sw_script w')) = length (sw_script w) /\ (e = EInterrupted \/ e = EOther) /\
                   (e = EOther -> In WFail (sw_script w)) /\ (forall c, In c (sw_script w') -> In c (sw_script w))
  end.
Proof.
  unfold sw_write. destruct (sw_script w) as [|c t].
  - cbn [sw_out sw_script length]. split; [lia|]. split; [rewrite firstn_all; reflexivity|]. split; [lia|].
    split; [|intros c []]. intros H. left. destruct buf; [reflexivity|discriminate].
  - destruct c as [n| | |]; cbn [sw_out sw_script length].
    + split; [lia|]. split; [reflexivity|]. split; [lia|]. split; [|intros c Hc; right; exact Hc].
      intros H. left. destruct buf; [reflexivity|]. cbn [length] in H. lia.
    + split; [lia|]. split; [cbn; rewrite app_nil_r; reflexivity|]. split; [lia|]. split; [intros _; right; left; reflexivity|intros c Hc; right; exact Hc].
    + split; [reflexivity|]. split; [reflexivity|]. split; [left; reflexivity|]. split; [intros; discriminate|intros c Hc; right; exact Hc].
    + split; [reflexivity|]. split; [reflexivity|]. split; [right; reflexivity|]. split; [intros _; left; reflexivity|intros c Hc; right; exact Hc].
Qed.

Theorem write_all_spec fuel : forall w buf err w', length buf + length (sw_script w) < fuel ->
  io_write_all fuel w buf = (err, w') ->
  exists k, sw_out w' = sw_out w ++ firstn k buf /\
    match err with
    | None => k = length buf
    | Some EWriteZero => In WZero (sw_script w)
    | Some EOther => In WFail (sw_script w)
    | Some _ => False
    end.
Proof.
  induction fuel as [|f IH]; intros w buf err w' Hf H; [lia|].
  destruct buf as [|b0 bt].
  - cbn [io_write_all] in H. injection H as <- <-. exists 0. cbn. rewrite app_nil_r. split; reflexivity.
  - cbn [io_write_all] in H. remember (b0 :: bt) as buf eqn:Hbuf.
    pose proof (sw_write_spec w buf) as Sp. destruct (sw_write w buf) as [[n|e] w1].
    + destruct Sp as (Hn & Eo & Ls & Hz & Hin).
      destruct n as [|n'].
      * injection H as <- <-. exists 0. cbn [firstn]. rewrite Eo. cbn [firstn]. split; [reflexivity|].
        destruct (Hz eq_refl) as [Hb|Hw]; [subst; discriminate|exact Hw].
      * destruct (IH w1 (skipn (S n') buf) err w') as (k2 & G & Herr); [rewrite skipn_length; lia|exact H|].
        exists (S n' + k2). rewrite G, Eo, <- app_assoc, firstn_split. split; [reflexivity|].
        destruct err as [[| | |]|]; try exact Herr; try (apply Hin; exact Herr).
        rewrite skipn_length in Herr. lia.
    + destruct Sp as (Eo & Ls & He & Hfail & Hin). destruct e.
      * destruct (IH w1 buf err w') as (k2 & G & Herr); [lia|exact H|].
        exists k2. rewrite G, Eo. split; [reflexivity|].
        destruct err as [[| | |]|]; try exact Herr; apply Hin; exact Herr.
      * injection H as <- <-. exists 0. cbn [firstn]. rewrite Eo, app_nil_r. split; [reflexivity|]. apply Hfail. reflexivity.
      * destruct He; discriminate.
      * destruct He; discriminate.
Qed.
