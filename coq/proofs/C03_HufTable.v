(** C03: building the Huffman decoding table from a weight list never panics -- for EVERY list of non-negative weights
    the construction either refuses the list (weight too big, no weights, leftover not a power of two, too deep) or
    returns a table: the rank counters are indexed in range, the region start computed for the shortest codes equals the
    table size (the assertion of the source), and no symbol's region reaches past the table.  (Finding F12 was a panic
    in a caller of this function.) *)
Require Import Zrs.lib.RsPrelude Zrs.model.BitIO Zrs.model.FseDec Zrs.model.HufDec.
Open Scope Z_scope.

Definition no_panic {A} (r : res A) : Prop := match r with RPanic _ => False | _ => True end.

Lemma upd_len {A} (l : list A) : forall i v, length (upd l i v) = length l.
Proof. induction l as [|h t IH]; intros i v; destruct i; cbn [upd length]; try reflexivity. rewrite IH. reflexivity. Qed.
Lemma nth_upd_eq' (l : list Z) : forall i v, (i < length l)%nat -> nth i (upd l i v) 0 = v.
Proof. induction l as [|h t IH]; intros i v Hi; [cbn in Hi; lia|]. destruct i; cbn [upd nth]; [reflexivity|]. apply IH. cbn in Hi. lia. Qed.
Lemma nth_upd_neq' (l : list Z) : forall i j v, i <> j -> nth j (upd l i v) 0 = nth j l 0.
Proof.
  induction l as [|h t IH]; intros i j v Hn; [destruct i; destruct j; reflexivity|].
  destruct i; destruct j; cbn [upd nth]; try reflexivity; try lia. apply IH. lia.
Qed.
Lemma nthz_upd (l : list Z) s v x : 0 <= s < Z.of_nat (length l) -> 0 <= x ->
  nth_z (upd l (Z.to_nat s) v) x = if x =? s then v else nth_z l x.
Proof.
  intros Hs Hx. unfold nth_z. destruct (Z.eqb_spec x s) as [->|Hn]; [apply nth_upd_eq'; lia|apply nth_upd_neq'; lia].
Qed.
Lemma nthz_zeros n x : nth_z (zeros n) x = 0.
Proof. unfold nth_z. generalize (Z.to_nat x). intros k. revert k. induction n as [|n IH]; intros k; destruct k; cbn [zeros nth]; auto. Qed.
Lemma zeros_len n : length (zeros n) = n.
Proof. induction n; cbn [zeros length]; congruence. Qed.

(** how many entries of [bits] equal [b] *)
Fixpoint cnt (b : Z) (bits : list Z) : Z := match bits with [] => 0 | x :: t => (if x =? b then 1 else 0) + cnt b t end.
Lemma cnt_nonneg b bits : 0 <= cnt b bits.
Proof. induction bits as [|x t IH]; cbn [cnt]; [lia|]. destruct (x =? b); lia. Qed.

Lemma count_ranks_spec bits : forall ranks M, Z.of_nat (length ranks) = M + 1 -> Forall (fun b => 0 <= b <= M) bits ->
  exists r, count_ranks bits ranks = ROk r /\ Z.of_nat (length r) = M + 1 /\ forall b, 0 <= b -> nth_z r b = nth_z ranks b + cnt b bits.
Proof.
  induction bits as [|x t IH]; intros ranks M Hl Hb; cbn [count_ranks].
  - exists ranks. split; [reflexivity|]. split; [exact Hl|]. intros b _. cbn [cnt]. lia.
  - inversion Hb; subst. destruct (Z.leb_spec (Z.of_nat (length ranks)) x) as [H|_]; [lia|].
    destruct (IH (upd ranks (Z.to_nat x) (nth_z ranks x + 1)) M ltac:(rewrite upd_len; exact Hl) ltac:(assumption)) as (r & E & L & G).
    exists r. split; [exact E|]. split; [exact L|]. intros b Hb0. rewrite G by exact Hb0. rewrite nthz_upd by lia. cbn [cnt].
    destruct (Z.eqb_spec b x) as [->|Hn]; [rewrite Z.eqb_refl; lia|]. destruct (Z.eqb_spec x b); [lia|lia].
Qed.

(** the start of the region of codes longer than [b]: sum over the longer lengths *)
Fixpoint region (M : Z) (ranks : list Z) (n : nat) : Z :=     (* n = M - b *)
  match n with
  | O => 0
  | S k => region M ranks k + nth_z ranks (M - Z.of_nat k) * 2 ^ Z.of_nat k
  end.

(** after the loop has run from [M] down to [lo + 1]: entries [lo .. M] hold the region starts *)
Lemma rank_idx_loop_inv n : forall M ranks idxs done,
  Z.of_nat (length idxs) = M + 1 -> (done + n <= Z.to_nat M)%nat -> 0 <= M ->
  (forall k, (k <= done)%nat -> nth_z idxs (M - Z.of_nat k) = region M ranks k) ->
  let out := rank_idx_loop n (M - Z.of_nat done) M ranks idxs in
  Z.of_nat (length out) = M + 1 /\ forall k, (k <= done + n)%nat -> nth_z out (M - Z.of_nat k) = region M ranks k.
Proof.
  induction n as [|n IH]; intros M ranks idxs done Hl Hd HM Hinv; cbn [rank_idx_loop].
  - rewrite Nat.add_0_r. split; assumption.
  - replace (M - Z.of_nat done - 1) with (M - Z.of_nat (S done)) by lia.
    replace (done + S n)%nat with (S done + n)%nat by lia.
    apply IH; [rewrite upd_len; exact Hl|lia|exact HM|].
    intros k Hk. rewrite nthz_upd by lia.
    destruct (Z.eqb_spec (M - Z.of_nat k) (M - Z.of_nat (S done))) as [E|E].
    + assert (k = S done) by lia. subst k. cbn [region]. rewrite (Hinv done (le_n _)).
      replace (M - (M - Z.of_nat done)) with (Z.of_nat done) by lia. reflexivity.
    + apply Hinv. lia.
Qed.

Lemma region_mono M ranks : (forall b, 0 <= nth_z ranks b) -> forall a b, (a <= b)%nat -> region M ranks a <= region M ranks b.
Proof.
  intros Hr a b Hab. induction Hab as [|b Hab IH]; [lia|]. cbn [region].
  assert (0 <= nth_z ranks (M - Z.of_nat b) * 2 ^ Z.of_nat b) by (apply Z.mul_nonneg_nonneg; [apply Hr|apply Z.pow_nonneg; lia]). lia.
Qed.

(** weight of a list of code lengths: sum of 2^(M - b) over the non-zero lengths *)
Fixpoint wt (M : Z) (bits : list Z) : Z := match bits with [] => 0 | x :: t => (if 0 <? x then 2 ^ (M - x) else 0) + wt M t end.

Lemma region_total M bits : 0 <= M -> Forall (fun b => 0 <= b <= M) bits ->
  forall r, (forall b, 0 <= b -> nth_z r b = cnt b bits) -> region M r (Z.to_nat M) = wt M bits.
Proof.
  intros HM Hb. induction Hb as [|x t Hx Ht IH]; intros r Hr.
  - cbn [wt]. assert (forall n, (n <= Z.to_nat M)%nat -> region M r n = 0) as H0; [|apply H0; lia].
    induction n as [|n IHn]; intros Hn; cbn [region]; [reflexivity|]. rewrite IHn by lia. rewrite Hr by lia. cbn [cnt]. lia.
  - cbn [wt].
    (* a vector with x removed *)
    set (r0 := map (fun b => cnt (Z.of_nat b) t) (seq 0 (S (Z.to_nat M)))).
    assert (Hr0 : forall b, 0 <= b <= M -> nth_z r0 b = cnt b t).
    { intros b Hb0. unfold nth_z, r0. rewrite (nth_indep _ 0 ((fun b => cnt (Z.of_nat b) t) 0%nat)) by (rewrite map_length, seq_length; lia).
      rewrite (map_nth (fun b => cnt (Z.of_nat b) t)), seq_nth by lia. f_equal. lia. }
    assert (Ereg : forall n, (n <= Z.to_nat M)%nat -> region M r n = region M r0 n + (if (M - Z.of_nat n <? x) then 2 ^ (M - x) else 0)).
    { induction n as [|n IHn]; intros Hn; cbn [region].
      - destruct (Z.ltb_spec (M - Z.of_nat 0) x); lia.
      - rewrite IHn by lia. rewrite Hr by lia. rewrite Hr0 by lia. cbn [cnt].
        destruct (Z.eqb_spec x (M - Z.of_nat n)) as [E|E].
        + destruct (Z.ltb_spec (M - Z.of_nat n) x); [lia|]. destruct (Z.ltb_spec (M - Z.of_nat (S n)) x); [|lia].
          replace (M - x) with (Z.of_nat n) by lia. lia.
        + destruct (Z.ltb_spec (M - Z.of_nat n) x); destruct (Z.ltb_spec (M - Z.of_nat (S n)) x); lia. }
    rewrite Ereg by lia.
    assert (E0 : region M r0 (Z.to_nat M) = wt M t).
    { clear Ereg. assert (G : forall r1 r2 n, (n <= Z.to_nat M)%nat -> (forall b, 0 < b <= M -> nth_z r1 b = nth_z r2 b) -> region M r1 n = region M r2 n).
      { intros r1 r2 n. induction n as [|n IHn]; intros Hn He; cbn [region]; [reflexivity|]. rewrite IHn by (try lia; exact He). rewrite He by lia. reflexivity. }
      destruct (count_ranks_spec t (zeros (Z.to_nat (M + 1))) M ltac:(rewrite zeros_len; lia) Ht) as (rt & _ & _ & Grt).
      rewrite (G r0 rt) by (try lia; intros b Hb0; rewrite Hr0 by lia; rewrite Grt, nthz_zeros by lia; lia).
      apply IH. intros b Hb0. rewrite Grt, nthz_zeros by lia. lia. }
    rewrite E0. replace (M - Z.of_nat (Z.to_nat M)) with 0 by lia. destruct (Z.ltb_spec 0 x); lia.
Qed.

(** *** assigning the regions never reaches past the table *)
Lemma assign_codes_no_panic bits : forall sym M idxs dec,
  0 <= M -> Z.of_nat (length idxs) = M + 1 -> Forall (fun b => 0 <= b <= M) bits ->
  (forall b, 1 <= b <= M -> nth_z idxs b + cnt b bits * 2 ^ (M - b) <= 2 ^ M) ->
  no_panic (assign_codes bits sym M idxs dec).
Proof.
  induction bits as [|x t IH]; intros sym M idxs dec HM Hl Hb Hinv; cbn [assign_codes]; [exact I|].
  inversion Hb as [|? ? Hx Ht]; subst.
  destruct (Z.eqb_spec x 0) as [E0|E0].
  - apply IH; try assumption. intros b Hb1. specialize (Hinv b Hb1). cbn [cnt] in Hinv. destruct (Z.eqb_spec x b); [lia|lia].
  - destruct (Z.leb_spec (Z.of_nat (length idxs)) x) as [H|_]; [lia|].
    pose proof (Hinv x ltac:(lia)) as Hx1. cbn [cnt] in Hx1. rewrite Z.eqb_refl in Hx1.
    pose proof (cnt_nonneg x t) as Hc. assert (P : 0 < 2 ^ (M - x)) by (apply Z.pow_pos_nonneg; lia).
    destruct (Z.ltb_spec (2 ^ M) (nth_z idxs x + 2 ^ (M - x))) as [Hbad|_]; [nia|].
    apply IH; try assumption; [rewrite upd_len; exact Hl|].
    intros b Hb1. rewrite nthz_upd by lia. specialize (Hinv b Hb1). cbn [cnt] in Hinv.
    destruct (Z.eqb_spec b x) as [->|Hn]; [rewrite Z.eqb_refl in Hinv; lia|]. destruct (Z.eqb_spec x b); [lia|lia].
Qed.

Lemma weight_sum_spec ws : forall acc r, weight_sum ws acc = ROk r -> Forall (fun w => 0 <= w) ws ->
  Forall (fun w => w <= MAX_MAX_NUM_BITS) ws /\
  r = acc + fold_right (fun w a => (if 0 <? w then 2 ^ (w - 1) else 0) + a) 0 ws.
Proof.
  induction ws as [|w t IH]; intros acc r H Hnn; cbn [weight_sum] in H.
  - injection H as <-. split; [constructor|cbn; lia].
  - inversion Hnn; subst. destruct (Z.ltb_spec MAX_MAX_NUM_BITS w) as [|Hle]; [discriminate|].
    destruct (IH _ _ H ltac:(assumption)) as (A & B). split; [constructor; assumption|]. cbn [fold_right]. lia.
Qed.

Theorem build_table_from_weights_never_panics ws : Forall (fun w => 0 <= w) ws -> no_panic (build_table_from_weights ws).
Proof.
  intros Hnn. unfold build_table_from_weights.
  destruct (weight_sum ws 0) as [wsum|e|e] eqn:Ew; cbn [rbind]; [|exact I|].
  2:{ exfalso. clear - Ew. revert Ew. generalize 0. induction ws as [|w t IH]; intros acc H; cbn [weight_sum] in H; [discriminate|].
      destruct (MAX_MAX_NUM_BITS <? w); [discriminate|]. eapply IH. exact H. }
  destruct (weight_sum_spec ws 0 wsum Ew Hnn) as (Hmaxw & Esum). cbn [Z.add] in Esum.
  destruct (Z.eqb_spec wsum 0) as [|Hs0]; [exact I|].
  set (M := highest_bit_set wsum). set (lo := 2 ^ M - wsum).
  destruct (is_pow2 lo) eqn:Ep; cbn [negb]; [|exact I].
  destruct (Z.ltb_spec MAX_MAX_NUM_BITS M) as [|HM11]; [exact I|].
  (* facts about the sizes *)
  assert (Hsum_nn : 0 <= wsum).
  { rewrite Esum. clear. induction ws as [|w t IH]; cbn [fold_right]; [lia|]. destruct (0 <? w); [|lia]. pose proof (Z.pow_nonneg 2 (w - 1) ltac:(lia)). lia. }
  assert (Hsp : 0 < wsum) by lia.
  pose proof (Z.log2_spec wsum Hsp) as (Llo & Lup). pose proof (Z.log2_nonneg wsum) as L0.
  unfold highest_bit_set in M. change (Z.succ (Z.log2 wsum)) with (Z.log2 wsum + 1) in Lup. fold M in Lup.
  assert (HM1 : 1 <= M) by (unfold M; lia).
  unfold is_pow2 in Ep. apply andb_prop in Ep as [Ep1 Ep2].
  assert (Hlo : 0 < lo) by lia. assert (Elo : 2 ^ Z.log2 lo = lo) by lia.
  pose proof (Z.log2_nonneg lo) as Llo0.
  assert (Hlw : 1 <= highest_bit_set lo <= M).
  { unfold highest_bit_set. split; [lia|]. assert (Z.log2 lo < M); [|lia]. apply Z.log2_lt_pow2; [exact Hlo|]. unfold lo. lia. }
  set (lw := highest_bit_set lo) in *.
  set (bits := map (fun w => if 0 <? w then M + 1 - w else 0) ws ++ [M + 1 - lw]).
  (* every positive weight is at most M: 2^(w-1) <= wsum < 2^M *)
  assert (Hw_le : forall w, In w ws -> 0 < w -> w <= M).
  { intros w Hw Hpos.
    assert (2 ^ (w - 1) <= wsum).
    { rewrite Esum. clear - Hw Hpos. induction ws as [|v t IH]; [contradiction|]. cbn [fold_right].
      assert (0 <= fold_right (fun w a => (if 0 <? w then 2 ^ (w - 1) else 0) + a) 0 t).
      { clear. induction t as [|u t IH]; cbn [fold_right]; [lia|]. destruct (0 <? u); [|lia]. pose proof (Z.pow_nonneg 2 (u - 1) ltac:(lia)). lia. }
      destruct Hw as [->|Hw]; [destruct (Z.ltb_spec 0 w); lia|]. specialize (IH Hw).
      destruct (0 <? v); [|lia]. pose proof (Z.pow_nonneg 2 (v - 1) ltac:(lia)). lia. }
    assert (w - 1 < M); [|lia]. apply (Z.pow_lt_mono_r_iff 2); lia. }
  (* every code length is within 0..M *)
  assert (Hbits : Forall (fun b => 0 <= b <= M) bits).
  { unfold bits. apply Forall_app. split; [|constructor; [lia|constructor]].
    apply Forall_forall. intros b Hb. apply in_map_iff in Hb as (w & <- & Hw).
    pose proof Hnn as Hnn'. rewrite Forall_forall in Hnn'. specialize (Hnn' w Hw).
    destruct (Z.ltb_spec 0 w) as [Hpos|]; [|lia]. specialize (Hw_le w Hw Hpos). lia. }
  destruct (count_ranks_spec bits (zeros (Z.to_nat (M + 1))) M ltac:(rewrite zeros_len; lia) Hbits) as (ranks & -> & Lr & Gr).
  cbn [rbind].
  assert (Gr' : forall b, 0 <= b -> nth_z ranks b = cnt b bits) by (intros b Hb0; rewrite Gr, nthz_zeros by exact Hb0; lia).
  destruct (rank_idx_loop_inv (Z.to_nat M) M ranks (zeros (Z.to_nat (M + 1))) 0 ltac:(rewrite zeros_len; lia) ltac:(lia) ltac:(lia)) as (Li & Gi).
  { intros k Hk. assert (k = 0%nat) by lia. subst k. rewrite nthz_zeros. reflexivity. }
  cbn [Nat.add Z.of_nat] in Gi, Li. replace (M - 0) with M in * by lia.
  set (idxs := rank_idx_loop (Z.to_nat M) M M ranks (zeros (Z.to_nat (M + 1)))) in *.
  (* the total weight is the table size *)
  assert (Hwt : wt M bits = 2 ^ M).
  { unfold bits. assert (Wapp : forall a b, wt M (a ++ b) = wt M a + wt M b) by (induction a as [|y a IHa]; intros b; cbn [app wt]; [lia|rewrite IHa; lia]).
    rewrite Wapp. cbn [wt]. destruct (Z.ltb_spec 0 (M + 1 - lw)); [|lia].
    replace (M - (M + 1 - lw)) with (lw - 1) by lia. unfold lw, highest_bit_set. replace (Z.log2 lo + 1 - 1) with (Z.log2 lo) by lia. rewrite Elo.
    assert (wt M (map (fun w => if 0 <? w then M + 1 - w else 0) ws) = wsum); [|unfold lo; lia].
    rewrite Esum.
    clear - Hw_le. induction ws as [|w t IH]; cbn [map wt fold_right]; [reflexivity|].
    rewrite IH by (intros; apply Hw_le; [right|]; assumption).
    destruct (Z.ltb_spec 0 w) as [Hpos|]; [|reflexivity].
    specialize (Hw_le w (or_introl eq_refl) Hpos). destruct (Z.ltb_spec 0 (M + 1 - w)); [|lia]. replace (M - (M + 1 - w)) with (w - 1) by lia. reflexivity. }
  assert (Htot : nth_z idxs 0 = 2 ^ M).
  { replace 0 with (M - Z.of_nat (Z.to_nat M)) at 1 by lia. rewrite Gi by lia. rewrite (region_total M bits ltac:(lia) Hbits ranks Gr'). exact Hwt. }
  rewrite Htot, Z.eqb_refl. cbn [negb].
  pose proof (assign_codes_no_panic bits 0 M idxs (hentries0 (Z.to_nat (2 ^ M))) ltac:(lia) Li Hbits) as NP.
  destruct (assign_codes bits 0 M idxs _) as [[i2 d2]|e|e]; cbn [rbind]; try exact I.
  apply NP. intros b Hb1.
  (* region start of length b plus its own symbols = region start of length b-1 <= the whole *)
  assert (Hrank0 : forall c, 0 <= nth_z ranks c).
  { intros c. destruct (Z.ltb_spec c 0).
    - replace (nth_z ranks c) with (nth_z ranks 0) by (unfold nth_z; f_equal; lia). rewrite Gr' by lia. apply cnt_nonneg.
    - rewrite Gr' by lia. apply cnt_nonneg. }
  replace b with (M - Z.of_nat (Z.to_nat (M - b))) at 1 by lia. rewrite Gi by lia.
  pose proof (region_mono M ranks Hrank0 (S (Z.to_nat (M - b))) (Z.to_nat M) ltac:(lia)) as Hmono.
  cbn [region] in Hmono. replace (M - Z.of_nat (Z.to_nat (M - b))) with b in Hmono by lia.
  rewrite Gr' in Hmono by lia. replace (Z.of_nat (Z.to_nat (M - b))) with (M - b) in Hmono by lia.
  rewrite <- (Gi (Z.to_nat M)) in Hmono by lia. replace (M - Z.of_nat (Z.to_nat M)) with 0 in Hmono by lia. lia.
Qed.
