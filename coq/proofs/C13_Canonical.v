(** C13: the structure of every decoding table [build_table_from_weights] returns.  Each symbol with a non-zero weight
    owns one aligned block of 2^(max_bits - length) consecutive entries, all carrying that symbol and that code length;
    the blocks of different symbols are disjoint and together cover the table.  So the table is the decoding table of a
    complete prefix code (the canonical one: blocks in order of decreasing length, then increasing symbol), and the code
    word read off the table for a symbol -- its first index, shortened to the code length -- is resolved by exactly the
    indices that start with it. *)
Require Import Zrs.lib.RsPrelude Zrs.model.BitIO Zrs.model.FseDec Zrs.model.HufDec.
Require Import Zrs.proofs.C03_HufTable Zrs.proofs.C03_HufComplete.
Open Scope Z_scope.

Definition blk := (Z * Z * nat)%type.      (* symbol, first index, log2 of the block size *)
Definition blk_sym (b : blk) : Z := fst (fst b).

Section Canon.
  Variable M : Z.
  Variable ranks : list Z.
  Hypothesis HM : 1 <= M.
  Let R (n : nat) : Z := region M ranks n.
  Hypothesis Rnn : forall c, 0 <= nth_z ranks c.
  Hypothesis Htot : R (Z.to_nat M) = 2 ^ M.

  Lemma Rm a b : (a <= b)%nat -> R a <= R b.
  Proof. apply region_mono. exact Rnn. Qed.
  Lemma R0 n : 0 <= R n.
  Proof. pose proof (Rm 0 n ltac:(lia)) as H. unfold R in H at 1. cbn [region] in H. exact H. Qed.

  (** the start of class n is a multiple of the block size of class n: the classes above it are made of larger blocks
      and the total is 2^M *)
  Lemma R_div : forall n, (n <= Z.to_nat M)%nat -> (R n mod 2 ^ Z.of_nat n = 0).
  Proof.
    assert (G : forall k n, (n + k = Z.to_nat M)%nat -> R n mod 2 ^ Z.of_nat n = 0).
    { induction k as [|k IH]; intros n Hn.
      - replace n with (Z.to_nat M) by lia. rewrite Htot. rewrite Z2Nat.id by lia. apply Z.mod_same. pose proof (Z.pow_pos_nonneg 2 M ltac:(lia) ltac:(lia)). lia.
      - specialize (IH (S n) ltac:(lia)). unfold R in *. cbn [region] in IH.
        assert (P : 0 < 2 ^ Z.of_nat n) by (apply Z.pow_pos_nonneg; lia).
        assert (E : 2 ^ Z.of_nat (S n) = 2 * 2 ^ Z.of_nat n) by (rewrite Nat2Z.inj_succ, Z.pow_succ_r by lia; reflexivity).
        rewrite E in IH. 
        (* region n + c * 2^n = 0 mod 2 * 2^n  ->  region n = 0 mod 2^n *)
        apply Z.mod_divide in IH; [|lia]. destruct IH as (q & Hq).
        apply Z.mod_divide; [lia|]. exists (2 * q - nth_z ranks (M - Z.of_nat n)). lia. }
    intros n Hn. apply (G (Z.to_nat M - n)%nat). lia.
  Qed.

  Definition blk_ok (sym : Z) (cur : list Z) (dec : list huf_entry) (b : blk) : Prop :=
    let '(s, base, n) := b in
    (n < Z.to_nat M)%nat /\ 0 <= s < sym /\ R n <= base /\ base + 2 ^ Z.of_nat n <= nth_z cur (M - Z.of_nat n) /\
    base mod 2 ^ Z.of_nat n = 0 /\
    forall i, base <= i < base + 2 ^ Z.of_nat n -> nth_h dec i = {| h_sym := s; h_bits := M - Z.of_nat n |}.

  Definition canon_inv (bits : list Z) (sym : Z) (cur : list Z) (dec : list huf_entry) (placed : list blk) : Prop :=
    (forall n, (n < Z.to_nat M)%nat -> let b := M - Z.of_nat n in
       nth_z cur b + cnt b bits * 2 ^ Z.of_nat n = R (S n) /\ R n <= nth_z cur b /\ nth_z cur b mod 2 ^ Z.of_nat n = 0) /\
    Forall (blk_ok sym cur dec) placed /\
    (forall n i, (n < Z.to_nat M)%nat -> R n <= i < nth_z cur (M - Z.of_nat n) ->
       exists s base, In (s, base, n) placed /\ base <= i < base + 2 ^ Z.of_nat n) /\
    NoDup (map blk_sym placed).

  Lemma canon_step bits : forall sym cur dec placed,
    Z.of_nat (length cur) = M + 1 -> Z.of_nat (length dec) = 2 ^ M -> 0 <= sym -> sym + Z.of_nat (length bits) <= 256 ->
    Forall (fun b => 0 <= b <= M) bits -> canon_inv bits sym cur dec placed ->
    exists cur' dec' placed', assign_codes bits sym M cur dec = ROk (cur', dec') /\ Z.of_nat (length dec') = 2 ^ M /\
      canon_inv [] (sym + Z.of_nat (length bits)) cur' dec' placed' /\
      (forall b, In b placed -> In b placed') /\
      (forall j, (j < length bits)%nat -> 0 < nth j bits 0 -> exists base, In (sym + Z.of_nat j, base, Z.to_nat (M - nth j bits 0)) placed' /\
         base + cnt (nth j bits 0) (skipn j bits) * 2 ^ (M - nth j bits 0) = R (S (Z.to_nat (M - nth j bits 0)))).
  Proof.
    induction bits as [|x t IH]; intros sym cur dec placed Hlc Hld Hs0 Hs Hb Hinv; cbn [assign_codes].
    - exists cur, dec, placed. split; [reflexivity|]. split; [exact Hld|]. cbn [length]. rewrite Z.add_0_r. split; [exact Hinv|]. split; [auto|]. intros j Hj. cbn in Hj. lia.
    - inversion Hb as [|? ? Hx Ht]; subst. cbn [length] in Hs. destruct Hinv as (IA & IB & IC & ID).
      destruct (Z.eqb_spec x 0) as [E0|E0].
      + (* symbol without a code *)
        assert (Inv1 : canon_inv t (sym + 1) cur dec placed).
        { split; [|split; [|split; [exact IC|exact ID]]].
          - intros n Hn. destruct (IA n Hn) as (A & B & C). cbn [cnt] in A. destruct (Z.eqb_spec x (M - Z.of_nat n)); [lia|]. split; [lia|]. split; assumption.
          - eapply Forall_impl; [|exact IB]. intros [[s base] n] (B1 & B2 & B3). split; [exact B1|]. split; [lia|exact B3]. }
        destruct (IH (sym + 1) cur dec placed Hlc Hld ltac:(lia) ltac:(lia) Ht Inv1) as (cur' & dec' & placed' & E & L & Inv' & Hmono & Hpl).
        exists cur', dec', placed'. split; [exact E|]. split; [exact L|]. split; [replace (sym + Z.of_nat (length (x :: t))) with (sym + 1 + Z.of_nat (length t)) by (cbn [length]; lia); exact Inv'|]. split; [exact Hmono|].
        intros j Hj Hpos. destruct j as [|j]; [cbn [nth] in Hpos; lia|]. cbn [nth skipn] in *. destruct (Hpl j ltac:(cbn in Hj; lia) Hpos) as (base & Hin & Hcl).
        exists base. replace (sym + Z.of_nat (S j)) with (sym + 1 + Z.of_nat j) by lia. split; [exact Hin|exact Hcl].
      + destruct (Z.leb_spec (Z.of_nat (length cur)) x) as [H|_]; [lia|].
        set (n := Z.to_nat (M - x)). assert (Hn : (n < Z.to_nat M)%nat) by (unfold n; lia).
        assert (Ex : M - Z.of_nat n = x) by (unfold n; lia).
        destruct (IA n Hn) as (A & B & C). rewrite Ex in A, B, C. cbn [cnt] in A. rewrite Z.eqb_refl in A.
        replace (M - x) with (Z.of_nat n) by lia.
        pose proof (cnt_nonneg x t) as Hc. assert (P : 0 < 2 ^ Z.of_nat n) by (apply Z.pow_pos_nonneg; lia).
        pose proof (Rm (S n) (Z.to_nat M) ltac:(lia)) as Hle. rewrite Htot in Hle.
        destruct (Z.ltb_spec (2 ^ M) (nth_z cur x + 2 ^ Z.of_nat n)) as [Hbad|_]; [nia|].
        pose proof (R0 n) as R0n.
        set (base := nth_z cur x) in *.
        set (cur1 := upd cur (Z.to_nat x) (base + 2 ^ Z.of_nat n)).
        set (dec1 := fill_range (Z.to_nat (2 ^ Z.of_nat n)) base {| h_sym := sym mod 256; h_bits := x |} dec).
        assert (Hfill : forall i, 0 <= i -> nth_h dec1 i = if (base <=? i) && (i <? base + 2 ^ Z.of_nat n) then {| h_sym := sym mod 256; h_bits := x |} else nth_h dec i).
        { intros i Hi. unfold dec1. rewrite fill_range_spec by (rewrite ?Z2Nat.id by lia; lia). rewrite Z2Nat.id by lia. reflexivity. }
        assert (Hcur1 : forall b, 0 <= b -> nth_z cur1 b = if b =? x then base + 2 ^ Z.of_nat n else nth_z cur b).
        { intros b Hb0. unfold cur1. rewrite nthz_upd by lia. reflexivity. }
        assert (Esym : sym mod 256 = sym) by (apply Z.mod_small; lia).
        assert (Inv1 : canon_inv t (sym + 1) cur1 dec1 ((sym, base, n) :: placed)).
        { split; [|split; [|split]].
          - intros k Hk. cbn zeta. rewrite Hcur1 by lia. destruct (IA k Hk) as (Ak & Bk & Ck). cbn [cnt] in Ak.
            destruct (Z.eqb_spec (M - Z.of_nat k) x) as [Ekx|Ekx].
            + assert (k = n) by lia. subst k. rewrite Ex in *. rewrite Z.eqb_refl in Ak. split; [nia|]. split; [lia|].
              rewrite <- Zplus_mod_idemp_l, C, Z.add_0_l. apply Z.mod_same. lia.
            + destruct (Z.eqb_spec x (M - Z.of_nat k)); [lia|]. split; [lia|]. split; assumption.
          - constructor.
            + unfold blk_ok. split; [exact Hn|]. split; [lia|]. split; [exact B|]. rewrite Hcur1 by lia. rewrite Ex, Z.eqb_refl. split; [lia|]. split; [exact C|].
              intros i Hi. rewrite Hfill by lia. destruct (Z.leb_spec base i); destruct (Z.ltb_spec i (base + 2 ^ Z.of_nat n)); cbn [andb]; try lia.
              rewrite Esym. reflexivity.
            + rewrite Forall_forall in *. intros [[s b0] k] Hin. specialize (IB _ Hin). destruct IB as (B1 & B2 & B3 & B4 & B5 & B6).
              unfold blk_ok. split; [exact B1|]. split; [lia|]. split; [exact B3|]. rewrite Hcur1 by lia.
              split; [destruct (Z.eqb_spec (M - Z.of_nat k) x) as [Ek|Ek]; [assert (k = n) by lia; subst k; rewrite Ex in B4; unfold base; lia|lia]|]. split; [exact B5|].
              intros i Hi. pose proof (R0 k) as R0k. rewrite Hfill by lia.
              assert (Pk : 0 < 2 ^ Z.of_nat k) by (apply Z.pow_pos_nonneg; lia).
              destruct (Nat.eq_dec k n) as [->|Hkn].
              * rewrite Ex in B4. destruct (Z.leb_spec base i); [lia|]. cbn [andb]. apply B6. exact Hi.
              * destruct (IA k B1) as (Ak & Bk & _). pose proof (cnt_nonneg (M - Z.of_nat k) (x :: t)) as Hck.
                assert (Hik : i < R (S k)) by nia.
                destruct (Nat.lt_ge_cases k n) as [Hlt|Hge].
                -- pose proof (Rm (S k) n ltac:(lia)). destruct (Z.leb_spec base i); [lia|]. cbn [andb]. apply B6. exact Hi.
                -- assert (n < k)%nat by lia. pose proof (Rm (S n) k ltac:(lia)).
                   assert (base + 2 ^ Z.of_nat n <= R (S n)) by nia.
                   destruct (Z.ltb_spec i (base + 2 ^ Z.of_nat n)); [lia|]. rewrite andb_false_r. apply B6. exact Hi.
          - intros k i Hk Hi. rewrite Hcur1 in Hi by lia.
            destruct (Z.eqb_spec (M - Z.of_nat k) x) as [Ekx|Ekx].
            + assert (k = n) by lia. subst k. destruct (Z.lt_ge_cases i base) as [Hlt|Hge].
              * destruct (IC n i Hn ltac:(rewrite Ex; lia)) as (s & b0 & Hin & Hr). exists s, b0. split; [right; exact Hin|exact Hr].
              * exists sym, base. split; [left; reflexivity|lia].
            + destruct (IC k i Hk Hi) as (s & b0 & Hin & Hr). exists s, b0. split; [right; exact Hin|exact Hr].
          - cbn [map blk_sym fst]. constructor; [|exact ID]. intros Hin. apply in_map_iff in Hin as ([[s b0] k] & Es & Hin). cbn in Es. subst s.
            rewrite Forall_forall in IB. specialize (IB _ Hin). destruct IB as (_ & B2 & _). lia. }
        destruct (IH (sym + 1) cur1 dec1 ((sym, base, n) :: placed) ltac:(unfold cur1; rewrite upd_len; exact Hlc) ltac:(unfold dec1; rewrite fill_range_length; exact Hld) ltac:(lia) ltac:(lia) Ht Inv1)
          as (cur' & dec' & placed' & E & L & Inv' & Hmono & Hpl).
        exists cur', dec', placed'. split; [exact E|]. split; [exact L|]. split; [replace (sym + Z.of_nat (length (x :: t))) with (sym + 1 + Z.of_nat (length t)) by (cbn [length]; lia); exact Inv'|].
        split; [intros b0 Hb0; apply Hmono; right; exact Hb0|].
        intros j Hj Hpos. destruct j as [|j].
        * cbn [nth skipn]. exists base. rewrite Z.add_0_r. split; [apply Hmono; left; reflexivity|].
          cbn [cnt]. rewrite Z.eqb_refl. replace (M - x) with (Z.of_nat n) by lia. rewrite Nat2Z.id. unfold base. lia.
        * cbn [nth skipn] in *. destruct (Hpl j ltac:(cbn in Hj; lia) Hpos) as (b0 & Hin & Hcl). exists b0. replace (sym + Z.of_nat (S j)) with (sym + 1 + Z.of_nat j) by lia. split; [exact Hin|exact Hcl].
  Qed.
End Canon.
Lemma build_table_setup ws dec0 M0 bits0 ranks0 idxs0 : Forall (fun w => 0 <= w) ws ->
  build_table_from_weights ws = ROk (dec0, M0, bits0, ranks0, idxs0) ->
  1 <= M0 <= MAX_MAX_NUM_BITS /\ length bits0 = S (length ws) /\ Forall (fun b => 0 <= b <= M0) bits0 /\
  (forall c, 0 <= nth_z ranks0 c) /\ region M0 ranks0 (Z.to_nat M0) = 2 ^ M0 /\
  exists idxs, Z.of_nat (length idxs) = M0 + 1 /\ (forall k, (k <= Z.to_nat M0)%nat -> nth_z idxs (M0 - Z.of_nat k) = region M0 ranks0 k) /\
    (forall b, 0 <= b -> nth_z ranks0 b = cnt b bits0) /\
    assign_codes bits0 0 M0 idxs (hentries0 (Z.to_nat (2 ^ M0))) = ROk (idxs0, dec0) /\
    (* the code lengths come from the weights, the last one from the weight that completes the sum *)
    exists lw, 1 <= lw <= M0 /\ bits0 = map (fun w => if 0 <? w then M0 + 1 - w else 0) ws ++ [M0 + 1 - lw] /\
      fold_right (fun w a => (if 0 <? w then 2 ^ (w - 1) else 0) + a) 0 (ws ++ [lw]) = 2 ^ M0.
Proof.
  intros Hnn Hres. revert Hres.
  unfold build_table_from_weights.
  destruct (weight_sum ws 0) as [wsum|e|e] eqn:Ew; cbn [rbind]; [|discriminate|discriminate].
  destruct (weight_sum_spec ws 0 wsum Ew Hnn) as (Hmaxw & Esum). cbn [Z.add] in Esum.
  destruct (Z.eqb_spec wsum 0) as [|Hs0]; [discriminate|].
  set (M := highest_bit_set wsum). set (lo := 2 ^ M - wsum).
  destruct (is_pow2 lo) eqn:Ep; cbn [negb]; [|discriminate].
  destruct (Z.ltb_spec MAX_MAX_NUM_BITS M) as [|HM11]; [discriminate|].
  (* facts about the sizes *)
  assert (Hsum_nn : 0 <= wsum).
  { rewrite Esum. clear. induction ws as [|w t IH]; cbn [fold_right]; [lia|]. destruct (0 <? w); [|lia]. pose proof (Z.pow_nonneg 2 (w - 1) ltac:(lia)). lia. }
  assert (Hsp : 0 < wsum) by lia.
  pose proof (Z.log2_spec wsum Hsp) as (Llo & Lup). pose proof (Z.log2_nonneg wsum) as L0.
  unfold highest_bit_set in M. change (Z.succ (Z.log2 wsum)) with (Z.log2 wsum + 1) in Lup. fold M in Lup.
  assert (HM1 : 1 <= M) by (unfold M; lia).
  unfold is_pow2 in Ep. apply andb_prop in Ep as [Ep1 Ep2].
  assert (Hlo : 0 < lo) by lia. assert (Elo : 2 ^ Z.log2 lo = lo) by lia.
  pose proof (Z.log2_nonneg lo) as Llo0.
  assert (Hlw : 1 <= highest_bit_set lo <= M).
  { unfold highest_bit_set. split; [lia|]. assert (Z.log2 lo < M); [|lia]. apply Z.log2_lt_pow2; [exact Hlo|]. unfold lo. lia. }
  set (lw := highest_bit_set lo) in *.
  set (bits := map (fun w => if 0 <? w then M + 1 - w else 0) ws ++ [M + 1 - lw]).
  (* every positive weight is at most M: 2^(w-1) <= wsum < 2^M *)
  assert (Hw_le : forall w, In w ws -> 0 < w -> w <= M).
  { intros w Hw Hpos.
    assert (2 ^ (w - 1) <= wsum).
    { rewrite Esum. clear - Hw Hpos. induction ws as [|v t IH]; [contradiction|]. cbn [fold_right].
      assert (0 <= fold_right (fun w a => (if 0 <? w then 2 ^ (w - 1) else 0) + a) 0 t).
      { clear. induction t as [|u t IH]; cbn [fold_right]; [lia|]. destruct (0 <? u); [|lia]. pose proof (Z.pow_nonneg 2 (u - 1) ltac:(lia)). lia. }
      destruct Hw as [->|Hw]; [destruct (Z.ltb_spec 0 w); lia|]. specialize (IH Hw).
      destruct (0 <? v); [|lia]. pose proof (Z.pow_nonneg 2 (v - 1) ltac:(lia)). lia. }
    assert (w - 1 < M); [|lia]. apply (Z.pow_lt_mono_r_iff 2); lia. }
  (* every code length is within 0..M *)
  assert (Hbits : Forall (fun b => 0 <= b <= M) bits).
  { unfold bits. apply Forall_app. split; [|constructor; [lia|constructor]].
    apply Forall_forall. intros b Hb. apply in_map_iff in Hb as (w & <- & Hw).
    pose proof Hnn as Hnn'. rewrite Forall_forall in Hnn'. specialize (Hnn' w Hw).
    destruct (Z.ltb_spec 0 w) as [Hpos|]; [|lia]. specialize (Hw_le w Hw Hpos). lia. }
  destruct (count_ranks_spec bits (zeros (Z.to_nat (M + 1))) M ltac:(rewrite zeros_len; lia) Hbits) as (ranks & -> & Lr & Gr).
  cbn [rbind].
  assert (Gr' : forall b, 0 <= b -> nth_z ranks b = cnt b bits) by (intros b Hb0; rewrite Gr, nthz_zeros by exact Hb0; lia).
  destruct (rank_idx_loop_inv (Z.to_nat M) M ranks (zeros (Z.to_nat (M + 1))) 0 ltac:(rewrite zeros_len; lia) ltac:(lia) ltac:(lia)) as (Li & Gi).
  { intros k Hk. assert (k = 0%nat) by lia. subst k. rewrite nthz_zeros. reflexivity. }
  cbn [Nat.add Z.of_nat] in Gi, Li. replace (M - 0) with M in * by lia.
  set (idxs := rank_idx_loop (Z.to_nat M) M M ranks (zeros (Z.to_nat (M + 1)))) in *.
  (* the total weight is the table size *)
  assert (Hwt : wt M bits = 2 ^ M).
  { unfold bits. assert (Wapp : forall a b, wt M (a ++ b) = wt M a + wt M b) by (induction a as [|y a IHa]; intros b; cbn [app wt]; [lia|rewrite IHa; lia]).
    rewrite Wapp. cbn [wt]. destruct (Z.ltb_spec 0 (M + 1 - lw)); [|lia].
    replace (M - (M + 1 - lw)) with (lw - 1) by lia. unfold lw, highest_bit_set. replace (Z.log2 lo + 1 - 1) with (Z.log2 lo) by lia. rewrite Elo.
    assert (wt M (map (fun w => if 0 <? w then M + 1 - w else 0) ws) = wsum); [|unfold lo; lia].
    rewrite Esum.
    clear - Hw_le. induction ws as [|w t IH]; cbn [map wt fold_right]; [reflexivity|].
    rewrite IH by (intros; apply Hw_le; [right|]; assumption).
    destruct (Z.ltb_spec 0 w) as [Hpos|]; [|reflexivity].
    specialize (Hw_le w (or_introl eq_refl) Hpos). destruct (Z.ltb_spec 0 (M + 1 - w)); [|lia]. replace (M - (M + 1 - w)) with (w - 1) by lia. reflexivity. }
  assert (Htot : nth_z idxs 0 = 2 ^ M).
  { replace 0 with (M - Z.of_nat (Z.to_nat M)) at 1 by lia. rewrite Gi by lia. rewrite (region_total M bits ltac:(lia) Hbits ranks Gr'). exact Hwt. }
  rewrite Htot, Z.eqb_refl. cbn [negb].
  assert (Hrank0 : forall c, 0 <= nth_z ranks c).
  { intros c. destruct (Z.ltb_spec c 0).
    - replace (nth_z ranks c) with (nth_z ranks 0) by (unfold nth_z; f_equal; lia). rewrite Gr' by lia. apply cnt_nonneg.
    - rewrite Gr' by lia. apply cnt_nonneg. }
  assert (Hreg : region M ranks (Z.to_nat M) = 2 ^ M) by (rewrite (region_total M bits ltac:(lia) Hbits ranks Gr'); exact Hwt).
  assert (Ldec : Z.of_nat (length (hentries0 (Z.to_nat (2 ^ M)))) = 2 ^ M).
  { assert (forall n, length (hentries0 n) = n) as Hl by (induction n; cbn [hentries0 length]; congruence). rewrite Hl. pose proof (Z.pow_pos_nonneg 2 M ltac:(lia) ltac:(lia)). lia. }
  destruct (assign_codes bits 0 M idxs (hentries0 (Z.to_nat (2 ^ M)))) as [[ci di]|e|e] eqn:Ea; cbn [rbind]; try discriminate.
  intros H. injection H as <- <- <- <- <-.
  split; [lia|]. split; [unfold bits; rewrite app_length, map_length; cbn [length]; lia|]. split; [exact Hbits|]. split; [exact Hrank0|]. split; [exact Hreg|].
  exists idxs. split; [exact Li|]. split; [intros k Hk; apply Gi; lia|]. split; [exact Gr'|]. split; [exact Ea|].
  exists lw. split; [exact Hlw|]. split; [reflexivity|].
  assert (Fapp : forall a b, fold_right (fun w a => (if 0 <? w then 2 ^ (w - 1) else 0) + a) 0 (a ++ b) =
                 fold_right (fun w a => (if 0 <? w then 2 ^ (w - 1) else 0) + a) 0 a + fold_right (fun w a => (if 0 <? w then 2 ^ (w - 1) else 0) + a) 0 b).
  { induction a as [|y a IHa]; intros b; cbn [app fold_right]; [lia|]. rewrite IHa. lia. }
  rewrite Fapp, <- Esum. cbn [fold_right]. destruct (Z.ltb_spec 0 lw); [|lia].
  assert (E1 : 2 ^ (lw - 1) = lo) by (unfold lw, highest_bit_set; replace (Z.log2 lo + 1 - 1) with (Z.log2 lo) by lia; exact Elo). rewrite E1. unfold lo. lia.
Qed.

Lemma hentries0_len n : length (hentries0 n) = n.
Proof. induction n; cbn [hentries0 length]; congruence. Qed.

(** *** the table of [build_table_from_weights]: blocks *)
Theorem built_table_blocks ws dec M bits ranks idxs : Forall (fun w => 0 <= w) ws -> (length ws <= 255)%nat ->
  build_table_from_weights ws = ROk (dec, M, bits, ranks, idxs) ->
  exists placed : list blk,
    NoDup (map blk_sym placed) /\
    (* every block: aligned, inside the table, uniformly filled with its symbol and length *)
    (forall s base n, In (s, base, n) placed ->
       (n < Z.to_nat M)%nat /\ 0 <= s < Z.of_nat (length bits) /\ 0 <= base /\ base + 2 ^ Z.of_nat n <= 2 ^ M /\ base mod 2 ^ Z.of_nat n = 0 /\
       forall i, base <= i < base + 2 ^ Z.of_nat n -> nth_h dec i = {| h_sym := s; h_bits := M - Z.of_nat n |}) /\
    (* the blocks cover the table *)
    (forall i, 0 <= i < 2 ^ M -> exists s base n, In (s, base, n) placed /\ base <= i < base + 2 ^ Z.of_nat n) /\
    (* every symbol with a code length has its block, at the canonical place: after the blocks of all longer codes and of the
       smaller symbols with the same length *)
    (forall j, (j < length bits)%nat -> 0 < nth j bits 0 -> exists base, In (Z.of_nat j, base, Z.to_nat (M - nth j bits 0)) placed /\
       base = region M ranks (Z.to_nat (M - nth j bits 0)) + cnt (nth j bits 0) (firstn j bits) * 2 ^ (M - nth j bits 0)).
Proof.
  intros Hnn Hlen Hb.
  destruct (build_table_setup ws dec M bits ranks idxs Hnn Hb) as (HM & Lb & Hbits & Hr0 & Hreg & idxs0 & Li & Gi & Gr & Ea & _).
  assert (HM1 : 1 <= M) by lia.
  assert (Ldec : Z.of_nat (length (hentries0 (Z.to_nat (2 ^ M)))) = 2 ^ M).
  { rewrite hentries0_len. pose proof (Z.pow_pos_nonneg 2 M ltac:(lia) ltac:(lia)). lia. }
  assert (Inv0 : canon_inv M ranks bits 0 idxs0 (hentries0 (Z.to_nat (2 ^ M))) []).
  { split; [|split; [constructor|split; [|constructor]]].
    - intros n Hn. cbn zeta. rewrite Gi by lia. split; [cbn [region]; rewrite Gr by lia; reflexivity|]. split; [lia|].
      apply (R_div M ranks HM1 Hr0 Hreg). lia.
    - intros n i Hn Hi. rewrite Gi in Hi by lia. lia. }
  destruct (canon_step M ranks HM1 Hr0 Hreg bits 0 idxs0 _ [] Li Ldec ltac:(lia) ltac:(rewrite Lb; lia) Hbits Inv0)
    as (cur' & dec' & placed & Ea' & Ld' & (IA & IB & IC & ID) & _ & Hpl).
  rewrite Ea in Ea'. injection Ea' as <- <-.
  exists placed. split; [exact ID|].
  assert (Rm' : forall a b, (a <= b)%nat -> region M ranks a <= region M ranks b) by (apply region_mono; exact Hr0).
  assert (Hcur : forall n, (n < Z.to_nat M)%nat -> nth_z idxs (M - Z.of_nat n) = region M ranks (S n)).
  { intros n Hn. destruct (IA n Hn) as (A & _). cbn [cnt] in A. lia. }
  split; [|split].
  - intros s base n Hin. rewrite Forall_forall in IB. specialize (IB _ Hin). cbn [blk_ok] in IB. destruct IB as (B1 & B2 & B3 & B4 & B5 & B6).
    rewrite Hcur in B4 by exact B1.
    pose proof (Rm' 0%nat n ltac:(lia)) as R0n. cbn [region] in R0n.
    pose proof (Rm' (S n) (Z.to_nat M) ltac:(lia)) as Rn. rewrite Hreg in Rn.
    split; [exact B1|]. split; [lia|]. split; [lia|]. split; [lia|]. split; [exact B5|exact B6].
  - intros i Hi.
    assert (Hfind : forall m, (m <= Z.to_nat M)%nat -> i < region M ranks m -> exists n, (n < m)%nat /\ region M ranks n <= i < region M ranks (S n)).
    { induction m as [|m IHm]; intros Hm Hlt; [cbn [region] in Hlt; lia|].
      destruct (Z.lt_ge_cases i (region M ranks m)) as [Hl|Hg].
      - destruct (IHm ltac:(lia) Hl) as (n & Hn & Hr). exists n. split; [lia|exact Hr].
      - exists m. split; [lia|lia]. }
    destruct (Hfind (Z.to_nat M) (le_n _) ltac:(rewrite Hreg; lia)) as (n & Hn & Hr).
    destruct (IC n i Hn ltac:(rewrite Hcur by exact Hn; lia)) as (s & base & Hin & Hrange). exists s, base, n. split; assumption.
  - intros j Hj Hpos. destruct (Hpl j Hj Hpos) as (base & Hin & Hcl). exists base. split; [exact Hin|].
    rewrite Forall_forall in Hbits. pose proof (Hbits _ (nth_In bits 0 Hj)) as Hle.
    set (x := nth j bits 0) in *. set (n := Z.to_nat (M - x)) in *.
    assert (Ecnt : cnt x bits = cnt x (firstn j bits) + cnt x (skipn j bits)).
    { rewrite <- (firstn_skipn j bits) at 1. generalize (firstn j bits) (skipn j bits). intros a b.
      induction a as [|y a IHa]; cbn [app cnt]; [lia|]. rewrite IHa. lia. }
    cbn [region] in Hcl. fold n in Hcl. replace (M - Z.of_nat n) with x in Hcl by (unfold n; lia). rewrite Gr in Hcl by lia.
    rewrite Ecnt in Hcl. replace (2 ^ Z.of_nat n) with (2 ^ (M - x)) in Hcl by (f_equal; unfold n; lia). nia.
Qed.
