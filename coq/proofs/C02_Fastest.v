(** C02 / C16, level Fastest: the frame-level compressor composed with the decoder model, given what the block-level
    encoder must guarantee.  [Rel cs sc] relates the encoder state (matcher window, remembered Huffman table) to the
    decoder state it assumes on the other side.  The four hypotheses are exactly the obligations of compress_block and
    of the state handling around it; they are NOT discharged here (compress_block is not modelled): every run validates
    them on the emitted frames with libzstd and this crate's decoder.  [H_fallback] is the obligation finding F5
    violated (a discarded block's Huffman table must not stay "known to the decoder"). *)
Require Import Zrs.lib.RsPrelude Zrs.gen.Generated Zrs.model.Headers Zrs.model.BitIO Zrs.model.FseDec Zrs.model.HufDec
  Zrs.model.BlockDec Zrs.model.FrameDec Zrs.model.FrameEnc.
Require Import Zrs.proofs.C14_Headers Zrs.proofs.C15_Frame Zrs.proofs.C06_Drain Zrs.proofs.C02_Roundtrip.
Open Scope Z_scope.

Definition sc_content (sc : scratch) : list Z := rev (db_rev (sc_buf sc)).

Section Fastest.
  Variable cstate : Type.
  Variable cblock : cstate -> list Z -> list Z * cstate.
  Variable cskip : cstate -> list Z -> cstate.
  Variable cfallback : cstate -> cstate.
  Variable Rel : cstate -> scratch -> Prop.

  (** a compressed block that is actually emitted decodes to its input and keeps the states related *)
  Hypothesis H_block : forall cs sc blk body cs', Rel cs sc -> blk <> [] -> Z.of_nat (length blk) <= 131072 ->
    cblock cs blk = (body, cs') -> all_same blk = false ->
    (length body < length blk)%nat -> Z.of_nat (length body) <= MAX_BLOCK_SIZE ->
    exists sc', decompress_block (Z.of_nat (length body)) sc body = ROk sc' /\
                sc_content sc' = sc_content sc ++ blk /\ Rel cs' sc'.
  (** a run goes out as an RLE block: the decoder only appends the bytes *)
  Hypothesis H_skip : forall cs sc blk, Rel cs sc -> blk <> [] -> Z.of_nat (length blk) <= 131072 ->
    all_same blk = true -> Rel (cskip cs blk) (sc_push_raw sc blk).
  (** a block whose compressed form was discarded goes out raw: the decoder only appends the bytes *)
  Hypothesis H_fallback : forall cs sc blk body cs', Rel cs sc -> blk <> [] -> Z.of_nat (length blk) <= 131072 ->
    cblock cs blk = (body, cs') ->
    Rel (cfallback cs') (sc_push_raw sc blk).

  Notation enc_blocks_f := (enc_blocks cstate cblock cskip cfallback LFastest).

  Lemma sc_push_content sc d : sc_content (sc_push_raw sc d) = sc_content sc ++ d.
  Proof. apply push_raw_content. Qed.

  (** one non-empty block at level Fastest, read back: the decoder state afterwards holds the block and is related to
      the encoder state afterwards *)
  Lemma fastest_block_decodes cs sc last blk b cs' rest : Rel cs sc -> blk <> [] -> Z.of_nat (length blk) <= 131072 ->
    enc_block_fastest cstate cblock cskip cfallback cs last blk = ROk (b, cs') ->
    exists ty d c sc' n, read_block_header_src (b ++ rest) = ROk (last, ty, d, c, skipn 3 b ++ rest) /\
      decode_block_content ty d c sc (skipn 3 b ++ rest) = ROk (sc', n, rest) /\
      sc_content sc' = sc_content sc ++ blk /\ Rel cs' sc'.
  Proof.
    intros HR Hne Hsz H. unfold enc_block_fastest in H.
    destruct (all_same blk) eqn:Eall.
    - (* RLE *)
      destruct (block_header_read 1 (length blk) last [nth 0 blk 0] rest) as (hdr & E1 & L1 & R1); [lia|exact Hsz|].
      rewrite E1 in H. cbn [rbind] in H. injection H as <- <-.
      assert (Hsk : skipn 3 (hdr ++ [nth 0 blk 0]) = [nth 0 blk 0]).
      { rewrite skipn_app, <- L1, skipn_all, Nat.sub_diag. reflexivity. }
      rewrite Hsk. eexists 1, _, _, _, _. split; [exact R1|]. cbn [Z.eqb orb].
      split; [apply rle_content|]. rewrite sc_push_content. split.
      + f_equal. symmetry. apply all_same_repeat. exact Eall.
      + rewrite <- (all_same_repeat blk Eall). apply H_skip; assumption.
    - destruct (cblock cs blk) as [body cs1] eqn:Ec.
      destruct ((length blk <=? length body)%nat || (MAX_BLOCK_SIZE <? Z.of_nat (length body))) eqn:Efb.
      + (* raw fall-back *)
        destruct (block_header_read 0 (length blk) last blk rest) as (hdr & E1 & L1 & R1); [lia|exact Hsz|].
        rewrite E1 in H. cbn [rbind] in H. injection H as <- <-.
        assert (Hsk : skipn 3 (hdr ++ blk) = blk) by (rewrite skipn_app, <- L1, skipn_all, Nat.sub_diag; reflexivity).
        rewrite Hsk. eexists 0, _, _, _, _. split; [exact R1|]. cbn [Z.eqb orb].
        split; [apply raw_content|]. split; [apply sc_push_content|]. eapply H_fallback; eassumption.
      + (* compressed *)
        apply Bool.orb_false_iff in Efb. destruct Efb as [E1 E2]. apply Nat.leb_gt in E1. apply Z.ltb_ge in E2.
        assert (Hb : Z.of_nat (length body) <= 131072) by (change MAX_BLOCK_SIZE with 131072 in E2; exact E2).
        destruct (block_header_read 2 (length body) last body rest) as (hdr & E3 & L3 & R3); [lia|exact Hb|].
        rewrite E3 in H. cbn [rbind] in H. injection H as <- <-.
        assert (Hsk : skipn 3 (hdr ++ body) = body) by (rewrite skipn_app, <- L3, skipn_all, Nat.sub_diag; reflexivity).
        destruct (H_block cs sc blk body cs1 HR Hne Hsz Ec Eall E1 E2) as (sc' & Ed & Econt & HR').
        rewrite Hsk. eexists 2, _, _, _, _. split; [exact R3|]. cbn [Z.eqb orb].
        unfold decode_block_content. cbn [Z.eqb]. rewrite read_exact_app, Ed. cbn [rbind].
        split; [reflexivity|]. split; assumption.
  Qed.

  Lemma blocks_loop_fastest bl : forall fuel s cs out cs' tail lb bb,
    Rel cs (fr_scratch s) ->
    enc_blocks_f cs bl = ROk (out, cs') ->
    Forall (fun b => Z.of_nat (length (fst b)) <= 131072) bl ->
    (exists pre blk, bl = pre ++ [(blk, true)] /\ Forall (fun b => snd b = false /\ fst b <> []) pre) ->
    (length bl < fuel)%nat -> tail_ok s tail ->
    exists s', decode_blocks_loop fuel s (out ++ tail) SAll lb bb = ROk (s', []) /\
               fr_finished s' = true /\ fr_header s' = fr_header s /\
               sc_content (fr_scratch s') = sc_content (fr_scratch s) ++ concat (map fst bl) /\
               fr_checksum s' = (if checksum_flag s then Some (le_val tail) else fr_checksum s).
  Proof.
    induction bl as [|[blk last] t IH]; intros fuel s cs out cs' tail lb bb HR He Hsz Hshape Hf Htail.
    - destruct Hshape as (pre & b & E & _). destruct pre; discriminate.
    - destruct fuel as [|f]; [cbn in Hf; lia|].
      inversion Hsz as [|? ? Hb Hsz']; subst. cbn [fst] in Hb. cbn [enc_blocks] in He.
      assert (Hcase : (last = true /\ t = []) \/ (last = false /\ blk <> [] /\
                exists pre b, t = pre ++ [(b, true)] /\ Forall (fun x => snd x = false /\ fst x <> []) pre)).
      { destruct Hshape as (pre & b & E & Fp). destruct pre as [|p0 pre].
        - cbn [app] in E. injection E as -> -> ->. left. split; reflexivity.
        - cbn [app] in E. injection E as <- ->. inversion Fp as [|? ? [P1 P2] Fp']; subst. cbn [snd fst] in *.
          right. split; [exact P1|]. split; [exact P2|]. exists pre, b. split; [reflexivity|exact Fp']. }
      cbn [decode_blocks_loop].
      assert (Hfin : forall s1 : fstate, checksum_flag s1 = checksum_flag s -> fr_header s1 = fr_header s ->
                exists s', (if checksum_flag s1
                            then match read_exact 4 tail with Some (ck, src) => ROk (finish s1 4 (Some (le_val ck)), src) | None => RErr "FailedToReadChecksum" end
                            else ROk (finish s1 0 (fr_checksum s1), tail)) = ROk (s', []) /\ fr_finished s' = true /\
                           fr_header s' = fr_header s /\ fr_scratch s' = fr_scratch s1 /\
                           fr_checksum s' = (if checksum_flag s then Some (le_val tail) else fr_checksum s1)).
      { intros s1 Ck Hh. unfold tail_ok in Htail. rewrite Ck. destruct (checksum_flag s).
        - unfold read_exact, zlen. rewrite Htail. cbn [Z.of_nat Z.ltb Z.compare Pos.compare Pos.compare_cont].
          unfold take_z, drop_z. change (Z.to_nat 4) with 4%nat. rewrite <- Htail, firstn_all, skipn_all.
          eexists. split; [reflexivity|]. cbn [finish fr_finished fr_header fr_scratch fr_checksum]. repeat split; assumption.
        - subst tail. eexists. split; [reflexivity|]. cbn [finish fr_finished fr_header fr_scratch fr_checksum]. repeat split; assumption. }
      destruct Hcase as [[-> ->]|(-> & Hne & Hshape')].
      + (* the last block *)
        destruct blk as [|b0 bt].
        * (* the empty final block *)
          destruct (block_header_read 0 0 true [] tail) as (hdr & E1 & L1 & R1); [lia|cbn; lia|].
          rewrite E1 in He. cbn [rbind] in He. injection He as <- <-. rewrite R1. cbn [rbind Z.eqb orb].
          cbn [fr_scratch set_scratch]. change (Z.of_nat 0) with (Z.of_nat (length (@nil Z))). rewrite (raw_content _ [] tail). cbn [rbind].
          set (s1 := set_scratch (set_scratch s (fr_scratch s) 3 0) (sc_push_raw (fr_scratch s) []) (Z.of_nat (length (@nil Z))) 1).
          destruct (Hfin s1 eq_refl eq_refl) as (s' & Es & F1 & F2 & F3 & F4). rewrite Es.
          exists s'. split; [reflexivity|]. split; [exact F1|]. split; [exact F2|]. rewrite F3. split.
          { unfold s1. cbn [set_scratch fr_scratch map concat fst]. rewrite sc_push_content. reflexivity. }
          rewrite F4. unfold s1. cbn [set_scratch fr_checksum]. reflexivity.
        * cbn [enc_block] in He.
          destruct (enc_block_fastest cstate cblock cskip cfallback cs true (b0 :: bt)) as [[b cs1]|e|e] eqn:Eb; cbn [rbind] in He; [|discriminate|discriminate].
          injection He as <- <-.
          destruct (fastest_block_decodes cs (fr_scratch s) true (b0 :: bt) b cs1 tail HR ltac:(discriminate) Hb Eb)
            as (ty & d & c & sc' & n & Rh & Dc & Cont & HR').
          rewrite Rh. cbn [rbind]. cbn [fr_scratch set_scratch]. rewrite Dc. cbn [rbind].
          set (s1 := set_scratch (set_scratch s (fr_scratch s) 3 0) sc' n 1).
          destruct (Hfin s1 eq_refl eq_refl) as (s' & Es & F1 & F2 & F3 & F4). rewrite Es.
          exists s'. split; [reflexivity|]. split; [exact F1|]. split; [exact F2|]. rewrite F3. split.
          { unfold s1. cbn [set_scratch fr_scratch map concat fst]. rewrite Cont, app_nil_r. reflexivity. }
          rewrite F4. unfold s1. cbn [set_scratch fr_checksum]. reflexivity.
      + destruct blk as [|b0 bt]; [congruence|]. cbn [enc_block] in He.
        destruct (enc_block_fastest cstate cblock cskip cfallback cs false (b0 :: bt)) as [[b cs1]|e|e] eqn:Eb; cbn [rbind] in He; [|discriminate|discriminate].
        destruct (enc_blocks_f cs1 t) as [[rest cs2]|e|e] eqn:Er; cbn [rbind] in He; [|discriminate|discriminate].
        injection He as <- <-.
        destruct (fastest_block_decodes cs (fr_scratch s) false (b0 :: bt) b cs1 (rest ++ tail) HR ltac:(discriminate) Hb Eb)
          as (ty & d & c & sc' & n & Rh & Dc & Cont & HR').
        rewrite <- app_assoc, Rh. cbn [rbind]. cbn [fr_scratch set_scratch]. rewrite Dc. cbn [rbind].
        set (s1 := set_scratch (set_scratch s (fr_scratch s) 3 0) sc' n 1).
        assert (P1 : Rel cs1 (fr_scratch s1)) by (unfold s1; cbn [set_scratch fr_scratch]; exact HR').
        assert (P2 : (length t < f)%nat) by (cbn [length] in Hf; lia).
        assert (P3 : tail_ok s1 tail) by (unfold tail_ok, checksum_flag, s1 in *; cbn [set_scratch fr_header]; exact Htail).
        destruct (IH f s1 cs1 rest cs2 tail lb bb P1 Er Hsz' Hshape' P2 P3) as (s' & El & F1 & F2 & F3 & F4).
        rewrite El. exists s'. split; [reflexivity|]. split; [exact F1|]. split; [rewrite F2; reflexivity|]. split.
        { rewrite F3. unfold s1. cbn [set_scratch fr_scratch map concat fst]. rewrite Cont, <- app_assoc. reflexivity. }
        rewrite F4. unfold checksum_flag, s1. cbn [set_scratch fr_header fr_checksum]. reflexivity.
  Qed.

  Lemma enc_block_min lv cs last blk b cs1 : enc_block cstate cblock cskip cfallback lv cs last blk = ROk (b, cs1) -> (3 <= length b)%nat.
  Proof.
    destruct lv; cbn [enc_block]; unfold enc_block_fastest.
    - destruct (block_bytes 0 (length blk) last blk) as [x|e|e] eqn:E; cbn [rbind]; [|discriminate|discriminate].
      intros [= <- _]. rewrite (block_bytes_len _ _ _ _ _ E). lia.
    - destruct (all_same blk).
      + destruct (block_bytes 1 (length blk) last [nth 0 blk 0]) as [x|e|e] eqn:E; cbn [rbind]; [|discriminate|discriminate].
        intros [= <- _]. rewrite (block_bytes_len _ _ _ _ _ E). lia.
      + destruct (cblock cs blk) as [body cs2]. destruct (_ || _).
        * destruct (block_bytes 0 (length blk) last blk) as [x|e|e] eqn:E; cbn [rbind]; [|discriminate|discriminate].
          intros [= <- _]. rewrite (block_bytes_len _ _ _ _ _ E). lia.
        * destruct (block_bytes 2 (length body) last body) as [x|e|e] eqn:E; cbn [rbind]; [|discriminate|discriminate].
          intros [= <- _]. rewrite (block_bytes_len _ _ _ _ _ E). lia.
  Qed.

  Lemma enc_blocks_min lv pre : forall cs b bs cs1, Forall (fun x => snd x = false /\ fst x <> []) pre ->
    enc_blocks cstate cblock cskip cfallback lv cs (pre ++ [(b, true)]) = ROk (bs, cs1) -> (length (pre ++ [(b, true)]) <= length bs)%nat.
  Proof.
    induction pre as [|[blk last] t IH]; intros cs b bs cs1 F H; cbn [app enc_blocks length] in *.
    - destruct b as [|b0 bt].
      + destruct (block_bytes 0 0 true []) as [x|e|e] eqn:E; cbn [rbind] in H; [|discriminate|discriminate].
        injection H as <- _. rewrite (block_bytes_len _ _ _ _ _ E). lia.
      + destruct (enc_block cstate cblock cskip cfallback lv cs true (b0 :: bt)) as [[x cs2]|e|e] eqn:E; cbn [rbind] in H; [|discriminate|discriminate].
        injection H as <- _. pose proof (enc_block_min _ _ _ _ _ _ E). lia.
    - inversion F as [|? ? [F1 F2] F']; subst. cbn [snd fst] in *. subst last.
      destruct blk as [|b0 bt]; [congruence|].
      destruct (enc_block cstate cblock cskip cfallback lv cs false (b0 :: bt)) as [[x cs2]|e|e] eqn:E; cbn [rbind] in H; [|discriminate|discriminate].
      destruct (enc_blocks cstate cblock cskip cfallback lv cs2 (t ++ [(b, true)])) as [[rest cs3]|e|e] eqn:Er; cbn [rbind] in H; [|discriminate|discriminate].
      injection H as <- _. rewrite (app_length x rest). pose proof (enc_block_min _ _ _ _ _ _ E). specialize (IH _ _ _ _ F' Er). lia.
  Qed.

  Variable creset : cstate -> cstate.
  (** compress() resets the matcher and forgets the Huffman table; the decoder starts from a new scratch state *)
  Variable Cinit : cstate -> Prop.
  Hypothesis H_reset : forall cs w, Cinit cs -> Rel (creset cs) (scratch_new w).

  (** level Fastest, all inputs / fragmentations / block sizes / reuse: if the block-level encoder meets the four
      obligations, the frame initialises a new decoder, decodes completely with nothing left over, regenerates the
      input and carries the checksum *)
  Theorem fastest_roundtrip slice wsize hash32 cs data script frame cs' r' :
    Cinit cs -> 1 <= Z.of_nat slice <= 131072 -> 1 <= wsize <= 2 ^ 27 ->
    (forall h x, hash32 = Some h -> length (h x) = 4%nat) ->
    compress_frame cstate cblock cskip cfallback creset LFastest slice wsize hash32 cs
      {| rd_data := data; rd_script := script |} = ROk (frame, cs', r') ->
    exists d1 rest evs s1 d2 s2,
      fdec_reset fdec_new frame = ROk (d1, rest, evs) /\ fd_state d1 = Some s1 /\
      fdec_decode_blocks d1 rest SAll = ROk (d2, [], true) /\ fd_state d2 = Some s2 /\
      buf_content s2 = data /\
      fr_checksum s2 = match hash32 with Some h => Some (le_val (h data)) | None => None end.
  Proof.
    intros Hinit Hs Hw Hh Hc.
    destruct (blocks_of_total (S (length data)) slice data) as (Ccat & Cn & Csz); [lia|lia|].
    destruct (blocks_of_shape (S (length data)) slice data) as (pre & lastblk & Eshape & Fshape); [lia|lia|].
    destruct (compress_frame_shape cstate cblock cskip cfallback creset LFastest slice wsize hash32 cs data script frame cs' r' ltac:(lia) Hc)
      as (bs & Ebs & ->).
    set (bl := blocks_of (S (length data)) slice data) in *.
    assert (Hsz : Forall (fun b => Z.of_nat (length (fst b)) <= 131072) bl).
    { eapply Forall_impl; [|exact Csz]. intros b Hb. cbn beta in Hb. lia. }
    set (tail := match hash32 with Some h => h data | None => [] end).
    assert (Hw' : 1 <= Z.max wsize MAX_BLOCK_SIZE <= 2 ^ 27) by (change MAX_BLOCK_SIZE with 131072; change (2 ^ 27) with 134217728 in *; lia).
    destruct (window_descriptor_range _ Hw') as (e & He & Ewd).
    destruct (window_of_descriptor e (is_some hash32) He) as (w & Ew & Ecw).
    unfold frame_header_bytes. rewrite Ewd.
    assert (Efront : frame_front ((le_bytes 4 MAGIC_NUM ++ [(if is_some hash32 then 4 else 0)] ++ [e * 8]) ++ bs ++ tail)
                       (fd_max_window fdec_new) =
                     inl (ROk ({| fh_desc := if is_some hash32 then 4 else 0; fh_wd := e * 8; fh_dict_id := None; fh_fcs := 0 |},
                               6, w, bs ++ tail))).
    { unfold frame_front. rewrite <- !app_assoc, fh_read. unfold fh_window_size. cbn [fh_wd fh_desc fh_fcs].
      rewrite Ew. cbn [rbind]. change (fd_max_window fdec_new) with DEFAULT_MAX_WINDOW_SIZE. rewrite Ecw. cbn [rbind].
      reflexivity. }
    match goal with |- context [fdec_reset fdec_new ?l] =>
      replace l with ((le_bytes 4 MAGIC_NUM ++ [(if is_some hash32 then 4 else 0)] ++ [e * 8]) ++ bs ++ tail)
        by (rewrite <- !app_assoc; reflexivity) end.
    unfold fdec_reset. rewrite Efront. cbn [fd_state fdec_new fh_dict_id].
    eexists _, _, _, _.
    set (s0 := {| fr_header := {| fh_desc := if is_some hash32 then 4 else 0; fh_wd := e * 8; fh_dict_id := None; fh_fcs := 0 |};
                  fr_scratch := scratch_new w; fr_finished := false; fr_blocks := 0; fr_bytes_read := 6;
                  fr_checksum := None; fr_using_dict := None |}).
    assert (Htail : tail_ok s0 tail).
    { unfold tail_ok, checksum_flag, s0, tail. cbn [fr_header fh_desc].
      destruct hash32 as [h|]; cbn [is_some]; [|reflexivity].
      replace (content_checksum_flag 4) with true by reflexivity. apply (Hh h data eq_refl). }
    assert (Hfuel : (length bl < S (S (length (bs ++ tail))))%nat).
    { assert (Hlb : (length bl <= length bs)%nat).
      { rewrite Eshape in *. eapply enc_blocks_min; eassumption. }
      rewrite app_length. lia. }
    destruct (blocks_loop_fastest bl (S (S (length (bs ++ tail)))) s0 (creset cs) bs cs' tail
                (db_len (sc_buf (fr_scratch s0))) (fr_blocks s0) (H_reset cs w Hinit) Ebs Hsz) as (s' & El & F1 & F2 & F3 & F4).
    { exists pre, lastblk. split; assumption. }
    { exact Hfuel. }
    { exact Htail. }
    eexists _, _. split; [reflexivity|]. split; [reflexivity|].
    unfold fdec_decode_blocks. cbn [fd_state]. fold s0. rewrite El. cbn [rbind]. rewrite F1.
    split; [reflexivity|]. split; [reflexivity|].
    split.
    { unfold buf_content. unfold sc_content in F3. rewrite F3, Ccat. reflexivity. }
    rewrite F4. unfold checksum_flag, s0, tail. cbn [fr_header fh_desc fr_checksum].
    destruct hash32 as [h|]; cbn [is_some]; reflexivity.
  Qed.
End Fastest.
