(** C09: dictionary selection at reset *)
Require Import Zrs.lib.RsPrelude Zrs.gen.Generated Zrs.model.Headers Zrs.model.FseDec Zrs.model.HufDec Zrs.model.BlockDec Zrs.model.FrameDec.
Require Import Zrs.proofs.C07_Reuse.
Open Scope Z_scope.

Lemma find_none_by_id (l : list dictionary) id : (forall dd, In dd l -> d_id dd <> id) -> find (fun x => d_id x =? id) l = None.
Proof.
  induction l as [|x t IH]; intros H; [reflexivity|]. cbn [find].
  destruct (d_id x =? id) eqn:E.
  - exfalso. apply (H x); [left; reflexivity|lia].
  - apply IH. intros dd Hin. apply H. right. exact Hin.
Qed.

Theorem missing_dict_is_error d src h n w rest id :
  frame_front src (fd_max_window d) = inl (ROk (h, n, w, rest)) -> fh_dict_id h = Some id ->
  (forall dd, In dd (fd_dicts d) -> d_id dd <> id) ->
  fdec_reset d src = RErr "DictNotProvided".
Proof.
  intros Hf Hid Hno. unfold fdec_reset. rewrite Hf. destruct (fd_state d); cbv beta iota zeta; rewrite Hid, (find_none_by_id _ _ Hno); reflexivity.
Qed.

Theorem dict_is_starting_state d src h n w rest id dd :
  frame_front src (fd_max_window d) = inl (ROk (h, n, w, rest)) -> fh_dict_id h = Some id ->
  find (fun x => d_id x =? id) (fd_dicts d) = Some dd ->
  exists d' evs s, fdec_reset d src = ROk (d', rest, evs) /\ fd_state d' = Some s /\
    sc_hist (fr_scratch s) = d_hist dd /\ db_dict (sc_buf (fr_scratch s)) = d_content dd /\
    db_rev (sc_buf (fr_scratch s)) = [] /\
    t_decode (fs_ll (sc_fse (fr_scratch s))) = t_decode (fs_ll (d_fse dd)) /\
    t_decode (fs_of (sc_fse (fr_scratch s))) = t_decode (fs_of (d_fse dd)) /\
    t_decode (fs_ml (sc_fse (fr_scratch s))) = t_decode (fs_ml (d_fse dd)) /\
    ht_decode (sc_huf (fr_scratch s)) = ht_decode (d_huf dd) /\ fr_using_dict s = Some id.
Proof.
  intros Hf Hid Hfind. unfold fdec_reset. rewrite Hf.
  destruct (fd_state d); cbv beta iota zeta; rewrite Hid, Hfind; do 3 eexists; (split; [reflexivity|]); cbn; repeat split.
Qed.

Lemma init_from_dict_alphabets sc dd : scratch_alphabets_ok sc -> scratch_alphabets_ok (scratch_init_from_dict sc dd).
Proof. intros (A & B & C & D). unfold scratch_alphabets_ok, scratch_init_from_dict. cbn. repeat split; assumption. Qed.

Theorem dict_does_not_outlive_frame sc dd w : scratch_alphabets_ok sc ->
  scratch_reset (scratch_init_from_dict sc dd) w = scratch_new w.
Proof. intros H. apply scratch_reset_eq_new. apply init_from_dict_alphabets. exact H. Qed.
