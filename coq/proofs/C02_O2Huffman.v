(** C02 / C13 / C16: obligation O2 for Huffman-coded literals, for ANY weights.  Whatever weights the compressor chooses
    -- provided the decoder accepts them and every literal has a code --, the section it writes (header, a weight
    description the decoder reads back as those weights, four streams coded with the compressor's own canonical code)
    is read back by the decoder as exactly the literals.  How the weights are chosen (histogram, rank order,
    [distribute_weights]) plays no role for correctness. *)
Require Import Zrs.lib.RsPrelude Zrs.gen.Generated Zrs.model.Headers Zrs.model.BitIO Zrs.model.BitStream Zrs.model.FseDec Zrs.model.HufDec Zrs.model.BlockDec Zrs.model.LitEnc Zrs.model.BlockEnc Zrs.model.HufEnc.
Require Import Zrs.proofs.C03_HufTable Zrs.proofs.C03_HufComplete Zrs.proofs.C13_Stream Zrs.proofs.C13_LitSection Zrs.proofs.C02_HufSide Zrs.proofs.C02_Concrete Zrs.proofs.C02_O2Table.
Require Import Zrs.proofs.C13_Canonical Zrs.proofs.C13_CanonCode Zrs.proofs.C13_EncCanon Zrs.proofs.C13_Agree.
Open Scope Z_scope.

(** the compressor's code as a function of the symbol *)

Lemma hstream_ext c1 c2 data : (forall s, In s data -> c1 s = c2 s) -> hstream c1 data = hstream c2 data.
Proof. intros H. unfold hstream. f_equal. apply map_ext_in. intros s Hs. apply H. apply in_rev. exact Hs. Qed.

Lemma huf4_ext c1 c2 lits : (forall s, In s lits -> c1 s = c2 s) -> huf4_bytes c1 lits = huf4_bytes c2 lits.
Proof.
  intros H. unfold huf4_bytes, split4. set (q := quarter (length lits)).
  assert (A : forall l, (forall x, In x l -> In x lits) -> hstream c1 l = hstream c2 l) by (intros l Hl; apply hstream_ext; intros s Hs; apply H; apply Hl; exact Hs).
  rewrite (A (firstn q lits)) by (intros x Hx; apply (firstn_In' _ _ _ Hx)).
  rewrite (A (firstn q (skipn q lits))) by (intros x Hx; apply firstn_In' in Hx; apply (skipn_In' _ _ _ Hx)).
  rewrite (A (firstn q (skipn (2 * q) lits))) by (intros x Hx; apply firstn_In' in Hx; apply (skipn_In' _ _ _ Hx)).
  rewrite (A (skipn (3 * q) lits)) by (intros x Hx; apply (skipn_In' _ _ _ Hx)). reflexivity.
Qed.

Lemma accepted_weights_have_lengths ws dec M bits ranks idxs : Forall (fun w => 0 <= w) ws ->
  build_table_from_weights ws = ROk (dec, M, bits, ranks, idxs) ->
  length bits = S (length ws) /\
  (forall s, (s < length ws)%nat -> 0 < nth s ws 0 -> 0 < nth s bits 0) /\ 0 < nth (length ws) bits 0.
Proof.
  intros Hnn Hb.
  destruct (build_table_setup ws dec M bits ranks idxs Hnn Hb) as (HM & Lb & Hbits & _ & _ & _ & _ & _ & _ & _ & lw & Hlw & Ebits & Hk).
  split; [exact Lb|]. split.
  - intros s Hs Hpos. rewrite Ebits. rewrite app_nth1 by (rewrite map_length; exact Hs).
    assert (Emap : forall l k, (k < length l)%nat -> nth k (map (fun w => if 0 <? w then M + 1 - w else 0) l) 0 = (if 0 <? nth k l 0 then M + 1 - nth k l 0 else 0)).
    { induction l as [|y u IHu]; intros k Hkk; [cbn in Hkk; lia|]. destruct k; cbn [map nth]; [reflexivity|]. apply IHu. cbn in Hkk. lia. }
    rewrite Emap by exact Hs.
    set (w := nth s ws 0) in *. destruct (Z.ltb_spec 0 w); [|lia].
    (* w = M + 1 would make the sum exceed 2^M: the last weight contributes too *)
    assert (Hin : In w ws) by (apply nth_In; exact Hs).
    assert (Fge : forall l, In w l -> 2 ^ (w - 1) <= fold_right (fun w a => (if 0 <? w then 2 ^ (w - 1) else 0) + a) 0 l).
    { induction l as [|y u IHu]; intros Hy; [contradiction|]. cbn [fold_right].
      assert (0 <= fold_right (fun w a => (if 0 <? w then 2 ^ (w - 1) else 0) + a) 0 u).
      { clear. induction u as [|z v IHv]; cbn [fold_right]; [lia|]. destruct (0 <? z); [|lia]. pose proof (Z.pow_nonneg 2 (z - 1) ltac:(lia)). lia. }
      destruct Hy as [->|Hy]; [destruct (Z.ltb_spec 0 w); lia|]. specialize (IHu Hy). destruct (0 <? y); [|lia]. pose proof (Z.pow_nonneg 2 (y - 1) ltac:(lia)). lia. }
    assert (Fapp : fold_right (fun w a => (if 0 <? w then 2 ^ (w - 1) else 0) + a) 0 (ws ++ [lw]) =
                   fold_right (fun w a => (if 0 <? w then 2 ^ (w - 1) else 0) + a) 0 ws + 2 ^ (lw - 1)).
    { clear - Hlw. induction ws as [|y u IHu]; cbn [app fold_right]; [destruct (Z.ltb_spec 0 lw); lia|]. rewrite IHu. lia. }
    pose proof (Fge ws Hin). pose proof (Z.pow_pos_nonneg 2 (lw - 1) ltac:(lia) ltac:(lia)).
    assert (2 ^ (w - 1) < 2 ^ M) by lia. assert (w - 1 < M) by (apply (Z.pow_lt_mono_r_iff 2); lia). lia.
  - rewrite Ebits. rewrite app_nth2 by (rewrite map_length; lia). rewrite map_length, Nat.sub_diag. cbn [nth]. lia.
Qed.

Theorem huffman_section_for_any_weights h ws desc lits dec M bits ranks idxs ft lw codes :
  Forall (fun w => 0 <= w) ws -> (length ws <= 255)%nat ->
  build_table_from_weights ws = ROk (dec, M, bits, ranks, idxs) ->
  (* the compressor's code, for the same weights plus the last one *)
  enc_build_from_weights (ws ++ [lw]) = ROk codes ->
  (forall t, ht_decode t = dec -> ht_max_bits t = M ->
     forall s, 0 <= s <= Z.of_nat (length ws) -> 0 < nth (Z.to_nat s) (ws ++ [lw]) 0 -> code_of_dec t s = code_fn codes s) ->
  (* every literal has a code *)
  Forall (fun s => 0 <= s <= Z.of_nat (length ws) /\ 0 < nth (Z.to_nat s) (ws ++ [lw]) 0) lits ->
  16 <= Z.of_nat (length lits) <= 131072 ->
  let payload := desc ++ huf4_bytes (code_fn codes) lits in
  (* the description is read back as the weights *)
  read_weights h payload = ROk (ws, ft, zlen desc) ->
  zlen payload < zlen lits ->
  exists t, lit_ok h lits (huf_lit_header 2 (zlen lits) (zlen payload)) payload t.
Proof.
  intros Hnn Hlen Hb Henc Hagree Hlits Hn payload Hrw Hpl.
  set (t := {| ht_decode := dec; ht_len := 2 ^ M; ht_weights := ws; ht_max_bits := M; ht_bits := bits; ht_bit_ranks := ranks;
               ht_rank_indexes := idxs; ht_fse := ft |}).
  exists t.
  assert (Hbuild : huf_build_decoder h payload = ROk (t, zlen desc)).
  { unfold huf_build_decoder. rewrite Hrw. cbn [rbind]. rewrite Hb. reflexivity. }
  assert (Ecodes : forall s, In s lits -> code_fn codes s = code_of_dec t s).
  { intros s Hs. rewrite Forall_forall in Hlits. destruct (Hlits s Hs) as (A & B). symmetry. apply (Hagree t eq_refl eq_refl s A B). }
  assert (Epay : payload = desc ++ huf4_bytes (code_of_dec t) lits) by (unfold payload; rewrite (huf4_ext _ _ lits Ecodes); reflexivity).
  (* every literal is delivered by the table *)
  assert (Hdel : deliverable t lits).
  { destruct (built_table_blocks ws dec M bits ranks idxs Hnn Hlen Hb) as (placed & _ & Hblk & _ & Hsyms).
    destruct (accepted_weights_have_lengths ws dec M bits ranks idxs Hnn Hb) as (Lb & Hmid & Hlast).
    apply Forall_forall. intros s Hs. rewrite Forall_forall in Hlits. destruct (Hlits s Hs) as (A & B).
    assert (Hj : (Z.to_nat s < length bits)%nat) by lia.
    assert (Hpos : 0 < nth (Z.to_nat s) bits 0).
    { destruct (Nat.lt_ge_cases (Z.to_nat s) (length ws)) as [Hlt|Hge].
      - apply Hmid; [exact Hlt|]. rewrite app_nth1 in B by exact Hlt. exact B.
      - replace (Z.to_nat s) with (length ws) by lia. exact Hlast. }
    destruct (Hsyms (Z.to_nat s) Hj Hpos) as (base & Hin & _). destruct (Hblk _ _ _ Hin) as (B1 & B2 & B3 & B4 & B5 & B6).
    exists base. assert (P : 0 < 2 ^ Z.of_nat (Z.to_nat (M - nth (Z.to_nat s) bits 0))) by (apply Z.pow_pos_nonneg; lia).
    cbn [ht_max_bits ht_decode t]. split; [lia|]. rewrite (B6 base ltac:(lia)). cbn [h_sym]. lia. }
  assert (Hb2 : huf_build_decoder h (desc ++ huf4_bytes (code_of_dec t) lits) = ROk (t, zlen desc)) by (rewrite <- Epay; exact Hbuild).
  assert (Hpl2 : zlen (desc ++ huf4_bytes (code_of_dec t) lits) < zlen lits) by (rewrite <- Epay; exact Hpl).
  pose proof (model_section_meets_O2 h t 2 desc lits) as MS. cbv zeta in MS.
  rewrite Epay. apply MS; [|exact Hdel|exact Hn|left; split; [reflexivity|exact Hb2]|exact Hpl2].
  split; [exists h, payload, (zlen desc); exact Hbuild|]. cbn [ht_weights t]. split; [exact Hnn|exact Hlen].
Qed.

(** with the agreement theorem: the last weight is the one the decoder infers, the code the compressor's *)
Corollary huffman_section_meets_O2 ws dec M bits ranks idxs :
  Forall (fun w => 0 <= w) ws -> (length ws <= 255)%nat ->
  build_table_from_weights ws = ROk (dec, M, bits, ranks, idxs) ->
  exists lw codes, 1 <= lw <= M /\ enc_build_from_weights (ws ++ [lw]) = ROk codes /\ bits = map (bits_of M) (ws ++ [lw]) /\
    forall h desc lits ft,
      Forall (fun s => 0 <= s <= Z.of_nat (length ws) /\ 0 < nth (Z.to_nat s) (ws ++ [lw]) 0) lits ->
      16 <= Z.of_nat (length lits) <= 131072 ->
      let payload := desc ++ huf4_bytes (code_fn codes) lits in
      read_weights h payload = ROk (ws, ft, zlen desc) -> zlen payload < zlen lits ->
      exists t, lit_ok h lits (huf_lit_header 2 (zlen lits) (zlen payload)) payload t.
Proof.
  intros Hnn Hlen Hb.
  set (t0 := {| ht_decode := dec; ht_len := 2 ^ M; ht_weights := ws; ht_max_bits := M; ht_bits := bits; ht_bit_ranks := ranks;
                ht_rank_indexes := idxs; ht_fse := fse_new 255 |}).
  destruct (encoder_and_decoder_agree ws dec M bits ranks idxs t0 Hnn Hlen Hb eq_refl eq_refl) as (lw & codes & Hlw & Henc & Hag & Ebits).
  exists lw, codes. split; [exact Hlw|]. split; [exact Henc|]. split; [exact Ebits|].
  intros h desc lits ft Hlits Hn payload Hrw Hpl.
  apply (huffman_section_for_any_weights h ws desc lits dec M bits ranks idxs ft lw codes Hnn Hlen Hb Henc); try assumption.
  intros t Hd Hm s Hs Hpos.
  (* the code read off a table depends on its entries and width only *)
  assert (E : code_of_dec t s = code_of_dec t0 s) by (unfold code_of_dec; rewrite Hd, Hm; reflexivity).
  rewrite E. apply (Hag s Hs Hpos).
Qed.
