(** C01: sequence execution of the decoder model is the reference LZ77 semantics of RFC 8878 3.1.1.4/3.1.1.5:
    append the literal run, resolve the offset through the repeat-offset rules, copy [ml] bytes from [off] bytes back,
    byte by byte ([lz_copy]); at the end append the remaining literals.  Stated for the history "dictionary content
    followed by the output so far", which covers frames with and without a dictionary. *)
Require Import Zrs.lib.RsPrelude Zrs.gen.Generated Zrs.model.BitIO Zrs.model.FseDec Zrs.model.HufDec Zrs.model.BlockDec.
Require Import Zrs.proofs.C06_Drain Zrs.proofs.C05_Block Zrs.proofs.C09_Lz.
Open Scope Z_scope.

(** the reference: [out_rev] is everything produced so far (dictionary content included), newest byte first *)
Fixpoint ref_exec (seqs : list sequence) (lits : list Z) (out_rev : list Z) (h : list Z) : option (list Z * list Z * list Z) :=
  match seqs with
  | [] => Some (out_rev, h, lits)
  | sq :: t =>
      let ll := Z.to_nat (sq_ll sq) in
      if (length lits <? ll)%nat then None else
      let out1 := rev_append (firstn ll lits) out_rev in
      let '(off, h') := do_offset_history (sq_of sq) (sq_ll sq) h in
      if (off <=? 0) || (Z.of_nat (length out1) <? off) then None else
      ref_exec t (skipn ll lits) (lz_copy (Z.to_nat (sq_ml sq)) (Z.to_nat off) out1) h'
  end.

Lemma split_at_firstn n : forall l a b, split_at n l = Some (a, b) -> a = firstn n l /\ b = skipn n l /\ (n <= length l)%nat.
Proof.
  induction n as [|n IH]; intros l a b H; cbn [split_at] in H.
  - injection H as <- <-. cbn. repeat split. lia.
  - destruct l as [|x t]; [discriminate|]. destruct (split_at n t) as [[a' b']|] eqn:E; [|discriminate].
    injection H as <- <-. destruct (IH _ _ _ E) as (-> & -> & L). cbn. repeat split. lia.
Qed.

Lemma flat_push_rev b f a : flat_of b f -> db_rev (db_push f a) = rev_append a (db_rev f).
Proof. intros _. reflexivity. Qed.

(** on a buffer without dictionary (any buffer can be made one: [flat_of]) the loop is the reference *)
Definition seq_pos (sq : sequence) : Prop := 0 <= sq_ll sq /\ 1 <= sq_ml sq /\ 1 <= sq_of sq.

Lemma seq_pos_ok sq : seq_pos sq -> seq_ok sq.
Proof. intros (A & B & C). repeat split; lia. Qed.

Theorem exec_loop_is_reference seqs : forall lits buf hist ssum buf' hist' rest ssum',
  db_wf buf -> db_dict buf = [] -> hist_ok hist -> Forall seq_pos seqs ->
  exec_loop seqs lits buf hist ssum = ROk (buf', hist', rest, ssum') ->
  ref_exec seqs lits (db_rev buf) hist = Some (db_rev buf', hist', rest) /\ db_dict buf' = [] /\ db_wf buf'.
Proof.
  induction seqs as [|sq t IH]; intros lits buf hist ssum buf' hist' rest ssum' W D Hh Hs H.
  - cbn [exec_loop ref_exec] in *. injection H as <- <- <- _. repeat split; assumption.
  - inversion Hs as [|? ? (Hll & Hml & Hof) Hs']; subst.
    cbn [exec_loop] in H. cbn [ref_exec].
    destruct (MAX_BLOCK_SIZE <? ssum + sq_ll sq + sq_ml sq); [discriminate|].
    remember (if 0 <? sq_ll sq
              then match split_at (Z.to_nat (sq_ll sq)) lits with
                   | Some (a, rest0) => ROk (db_push buf a, rest0)
                   | None => RErr "NotEnoughBytesForSequence"
                   end
              else ROk (buf, lits)) as step1 eqn:E.
    destruct step1 as [[buf1 lits1]|e|e]; cbn [rbind] in H; [|discriminate|discriminate]. symmetry in E.
    assert (E1 : (length lits <? Z.to_nat (sq_ll sq))%nat = false /\ lits1 = skipn (Z.to_nat (sq_ll sq)) lits /\
                 db_rev buf1 = rev_append (firstn (Z.to_nat (sq_ll sq)) lits) (db_rev buf) /\ db_wf buf1 /\ db_dict buf1 = []).
    { destruct (Z.ltb_spec 0 (sq_ll sq)) as [Hpos|Hzero].
      - destruct (split_at (Z.to_nat (sq_ll sq)) lits) as [[a r]|] eqn:Es; [|discriminate].
        injection E as <- <-. destruct (split_at_firstn _ _ _ _ Es) as (-> & -> & L).
        split; [apply Nat.ltb_ge; exact L|]. split; [reflexivity|]. split; [reflexivity|].
        split; [apply push_inv; exact W|]. unfold db_push, db_add_total, db_append_raw. cbn [db_dict]. exact D.
      - injection E as <- <-. assert (Hz : sq_ll sq = 0) by lia. rewrite Hz. cbn [Z.to_nat firstn skipn rev_append].
        split; [reflexivity|]. repeat split; assumption. }
    destruct E1 as (El & -> & Er1 & W1 & D1). rewrite El.
    assert (Hof0 : 1 <= sq_of sq) by lia.
    pose proof (offhist_ok (sq_of sq) (sq_ll sq) hist Hof0 Hh) as [Ha Hh1].
    destruct (do_offset_history (sq_of sq) (sq_ll sq) hist) as [actual hist1]. cbn [fst snd] in *.
    destruct (Z.eqb_spec actual 0) as [|Hnz]; [discriminate|].
    destruct (Z.ltb_spec 0 (sq_ml sq)) as [_|]; [|lia].
    destruct (db_repeat buf1 actual (sq_ml sq)) as [buf2|e|e] eqn:E0; cbn [rbind] in H; [|discriminate|discriminate].
    destruct (2 ^ 32 <=? ssum + sq_ml sq + sq_ll sq); [discriminate|].
    assert (Ha1 : 1 <= actual) by lia. assert (Hml0 : 0 <= sq_ml sq) by lia.
    destruct (db_repeat_spec _ _ _ _ W1 Ha1 Hml0 E0) as (Hreach & Hrev & Hd2).
    destruct (db_repeat_inv _ _ _ _ W1 Hml0 Ha E0) as (W2 & _ & _).
    rewrite D1 in Hreach, Hrev, Hd2. unfold zlen in Hreach. cbn [rev length] in Hreach, Hrev. rewrite !app_nil_r in Hrev.
    unfold db_wf in W1.
    destruct (Z.leb_spec actual 0) as [|_]; [lia|].
    rewrite <- Er1. destruct (Z.ltb_spec (Z.of_nat (length (db_rev buf1))) actual) as [|_]; [lia|]. cbn [orb].
    rewrite <- Hrev. eapply IH; eassumption.
Qed.

(** the whole sequence section of a block, with a dictionary or not: the buffer afterwards, seen together with the
    dictionary content, is the reference execution on (output so far ++ dictionary content) followed by the
    remaining literals *)
Theorem execute_sequences_is_reference seqs lits buf hist buf' hist' :
  db_wf buf -> hist_ok hist -> Forall seq_pos seqs ->
  execute_sequences seqs lits buf hist = ROk (buf', hist') ->
  exists out rest, ref_exec seqs lits (db_rev buf ++ rev (db_dict buf)) hist = Some (out, hist', rest) /\
                   db_rev buf' ++ rev (db_dict buf) = rev_append rest out.
Proof.
  intros W Hh Hs H. unfold execute_sequences in H.
  destruct (exec_loop seqs lits buf hist 0) as [[[[b1 h1] rest] ssum]|e|e] eqn:E; cbn [rbind] in H; [|discriminate|discriminate].
  set (flat := {| db_rev := db_rev buf ++ rev (db_dict buf); db_len := db_len buf + zlen (db_dict buf); db_dict := [];
                  db_window := db_window buf; db_total_out := db_total_out buf; db_hashed_rev := db_hashed_rev buf |}).
  assert (F : flat_of buf flat) by (unfold flat_of, flat; cbn; repeat split).
  assert (Hs' : Forall seq_ok seqs) by (eapply Forall_impl; [|exact Hs]; intros; apply seq_pos_ok; assumption).
  destruct (exec_loop_dict_is_history seqs lits buf flat hist 0 b1 h1 rest ssum W Hh Hs' F E) as (f1 & Ef & F1).
  destruct (exec_loop_is_reference seqs lits flat hist 0 f1 h1 rest ssum (flat_wf _ _ W F) eq_refl Hh Hs Ef) as (R & _ & _).
  destruct ((0 <? zlen rest) && (MAX_BLOCK_SIZE <? ssum + zlen rest)); [discriminate|].
  destruct (negb _) in H; [discriminate|]. injection H as <- <-.
  destruct (exec_loop_inv _ _ _ _ _ _ _ _ _ W Hh Hs' (Z.le_refl 0) E) as (_ & _ & (Md & _) & _).
  destruct F1 as (Fr & _ & _). cbn [db_rev flat] in R. rewrite Fr, Md in R.
  exists (db_rev b1 ++ rev (db_dict buf)), rest. split; [exact R|].
  destruct (Z.ltb_spec 0 (zlen rest)) as [Hpos|Hzero].
  - unfold db_push, db_add_total, db_append_raw. cbn [db_rev]. rewrite !rev_append_rev, app_assoc. reflexivity.
  - assert (rest = []) by (destruct rest; [reflexivity|unfold zlen in Hzero; cbn in Hzero; lia]). subst rest. reflexivity.
Qed.

(** every sequence the decoder model reads from a bit stream has a match length of at least 3, a non-negative literal
    length and a positive offset value: the hypothesis of the theorems above is met by construction *)
Lemma lookup_ml_ge3 c v n : lookup_ml_code c = ROk (v, n) -> 3 <= v /\ 0 <= n.
Proof.
  unfold lookup_ml_code. intros H.
  repeat match type of H with
  | (if ?b then _ else _) = _ => destruct b eqn:?; [inversion H; subst; lia|]
  | (let _ := _ in _) = _ => cbv zeta in H
  end. discriminate.
Qed.

Lemma seq_loop_pos n : forall total s ll ml of br done acc acc' br',
  Forall seq_pos acc -> seq_loop n total s ll ml of br done acc = ROk (acc', br') -> Forall seq_pos acc'.
Proof.
  induction n as [|k IH]; intros total s ll ml of br done acc acc' br' HA H; cbn [seq_loop] in H.
  - inversion H; subst. exact HA.
  - bind_inv H. destruct a as [llv llb]. bind_inv H. destruct a as [mlv mlb].
    destruct (MAX_OFFSET_CODE <? code_of (fs_of_rle s) of) eqn:Eo; [discriminate|].
    unfold rbr_get_bits_triple in H.
    pose proof (rbr_get_bits_nonneg br (code_of (fs_of_rle s) of)) as N1.
    destruct (rbr_get_bits br (code_of (fs_of_rle s) of)) as [v1 r1].
    pose proof (rbr_get_bits_nonneg r1 mlb) as N2. destruct (rbr_get_bits r1 mlb) as [v2 r2].
    pose proof (rbr_get_bits_nonneg r2 llb) as N3. destruct (rbr_get_bits r2 llb) as [v3 r3].
    cbn [fst] in *.
    destruct (v1 + 2 ^ code_of (fs_of_rle s) of =? 0) eqn:Ez; [discriminate|].
    bind_inv H. destruct a as [[[ll' ml'] of'] br2].
    destruct (rbr_bits_remaining br2 <? 0); [discriminate|].
    apply (IH _ _ _ _ _ _ _ _ _ _ ) in H; [exact H|].
    constructor; [|exact HA]. unfold seq_pos. cbn [sq_ll sq_ml sq_of].
    apply lookup_ll_nonneg in E. apply lookup_ml_ge3 in E0.
    assert (0 <= 2 ^ code_of (fs_of_rle s) of) by (apply Z.pow_nonneg; lia). lia.
Qed.

Theorem decode_sequences_pos n modes src s s' seqs :
  decode_sequences n modes src s = ROk (s', seqs) -> Forall seq_pos seqs.
Proof.
  unfold decode_sequences. intros H. bind_inv H. destruct a as [s1 used].
  destruct (zlen src <? used); [discriminate|].
  destruct (rbr_skip_padding (rbr_new (drop_z used src))) as [br|]; [|discriminate].
  bind_inv H. destruct a as [ll br1]. bind_inv H. destruct a as [of br2]. bind_inv H. destruct a as [ml br3].
  bind_inv H. destruct a as [acc br4]. destruct (0 <? rbr_bits_remaining br4); [discriminate|].
  inversion H; subst. apply Forall_rev'. eapply seq_loop_pos; [|eassumption]. constructor.
Qed.
