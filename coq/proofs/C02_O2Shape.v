(** C02 / C13: obligation O2 for the weights the compressor uses.  For every alphabet size the compressor's weight
    multiset ([shape n], swept for all n = 2..256) is a complete code of depth at most 11; however those weights are
    distributed over the symbols (the compressor does it by rank of the counts; zeros for unused symbols in between),
    the resulting weight list is complete, so the decoder accepts it and the Huffman-coded literals section is read back. *)
Require Import Zrs.lib.RsPrelude Zrs.gen.Generated Zrs.model.Headers Zrs.model.BitIO Zrs.model.BitStream Zrs.model.FseDec Zrs.model.HufDec Zrs.model.BlockDec Zrs.model.LitEnc Zrs.model.BlockEnc Zrs.model.HufEnc.
Require Import Permutation.
Require Import Zrs.proofs.C13_Huffman Zrs.proofs.C02_Concrete Zrs.proofs.C13_Accepted Zrs.proofs.C02_O2Huffman Zrs.proofs.C02_O2Complete.
Open Scope Z_scope.

Lemma kraft_perm a b : Permutation a b -> kraft a = kraft b.
Proof. unfold kraft. induction 1 as [|x l l' _ IH|x y l|l l' l'' _ IH1 _ IH2]; cbn [fold_right]; lia. Qed.
Lemma kraft_filter W : kraft (filter (fun w => 0 <? w) W) = kraft W.
Proof. unfold kraft. induction W as [|x t IH]; [reflexivity|]. cbn [filter fold_right]. destruct (Z.ltb_spec 0 x); cbn [fold_right]; [destruct (Z.ltb_spec 0 x); lia|lia]. Qed.

Theorem huffman_section_for_every_assignment_of_the_shape n sh W :
  2 <= n <= 256 -> shape n = ROk sh -> Permutation (filter (fun w => 0 <? w) W) sh ->
  Forall (fun w => 0 <= w) W -> (length W <= 256)%nat -> 0 < last W 0 ->
  let ws := removelast W in let lw := last W 0 in
  exists codes, enc_build_from_weights W = ROk codes /\
    forall h desc lits ft,
      Forall (fun s => 0 <= s <= Z.of_nat (length ws) /\ 0 < nth (Z.to_nat s) W 0) lits ->
      16 <= Z.of_nat (length lits) <= 131072 ->
      let payload := desc ++ huf4_bytes (code_fn codes) lits in
      read_weights h payload = ROk (ws, ft, zlen desc) -> zlen payload < zlen lits ->
      exists t, lit_ok h lits (huf_lit_header 2 (zlen lits) (zlen payload)) payload t.
Proof.
  intros Hn Hsh Hperm Hnn Hlen Hlast ws lw.
  destruct (shape_valid n Hn) as (sh' & Esh & Lsh & Hpow & Hrange & _ & H11). rewrite Hsh in Esh. injection Esh as <-.
  assert (HM0 : 0 <= Z.log2 (kraft sh)) by apply Z.log2_nonneg.
  remember (Z.log2 (kraft sh)) as M eqn:EM.
  unfold is_pow2z in Hpow. rewrite <- EM in Hpow. apply andb_prop in Hpow as [Hp1 Hp2]. assert (Hk : kraft sh = 2 ^ M) by lia.
  assert (HWne : W <> []) by (intros ->; cbn in Hlast; lia).
  assert (EW : W = ws ++ [lw]) by (apply app_removelast_last; exact HWne).
  assert (KW : kraft W = 2 ^ M) by (rewrite <- kraft_filter, (kraft_perm _ _ Hperm); exact Hk).
  (* every positive weight of W is a weight of the shape *)
  assert (Hpos_in : forall w, In w W -> 0 < w -> 1 <= w <= M).
  { intros w Hw Hp. assert (In w sh) by (apply (Permutation_in _ Hperm); apply filter_In; split; [exact Hw|apply Z.ltb_lt; exact Hp]).
    rewrite Forall_forall in Hrange. apply Hrange. exact H. }
  assert (Hlw : 1 <= lw <= M) by (apply Hpos_in; [unfold lw; rewrite EW at 2; apply in_or_app; right; left; reflexivity|exact Hlast]).
  assert (Hws : Forall (fun w => 0 <= w <= MAX_MAX_NUM_BITS) ws).
  { apply Forall_forall. intros w Hw. assert (HwW : In w W) by (rewrite EW; apply in_or_app; left; exact Hw).
    rewrite Forall_forall in Hnn. pose proof (Hnn w HwW). unfold MAX_MAX_NUM_BITS. destruct (Z.ltb_spec 0 w) as [Hp|]; [|lia]. pose proof (Hpos_in w HwW Hp). lia. }
  assert (Lws : (length ws <= 255)%nat).
  { assert (length W = S (length ws)) by (rewrite EW at 1; rewrite app_length; cbn [length]; lia). lia. }
  assert (Kapp : kraft W = kraft ws + 2 ^ (lw - 1)).
  { rewrite EW at 1. rewrite kraft_app. unfold kraft at 2. cbn [fold_right]. destruct (Z.ltb_spec 0 lw); lia. }
  assert (Kws : 0 < kraft ws).
  { assert (0 <= kraft ws) by (unfold kraft; clear; induction ws as [|x t IH]; cbn [fold_right]; [lia|]; destruct (0 <? x); [pose proof (Z.pow_nonneg 2 (x - 1) ltac:(lia))|]; lia).
    destruct (Z.eq_dec (kraft ws) 0) as [E0|]; [|lia]. exfalso. rewrite E0 in Kapp.
    assert (2 ^ (lw - 1) = 2 ^ M) by lia. assert (lw - 1 = M) by (apply (Z.pow_inj_r 2); lia). lia. }
  destruct (huffman_section_for_complete_weights ws lw M Hws Lws Hlw ltac:(unfold MAX_MAX_NUM_BITS; lia) Kws ltac:(rewrite <- EW; exact KW)) as (codes & Henc & Hall).
  exists codes. rewrite EW at 1. split; [exact Henc|].
  intros h desc lits ft Hl. rewrite EW in Hl. apply Hall. exact Hl.
Qed.
