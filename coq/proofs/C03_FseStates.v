(** C03: FSE decoding states never leave the table.  For every table the decoder builds from a normalised distribution
    (accuracy log 5..9; the descriptions the format allows for sequences and Huffman weights), initialising a state and
    every state transition index inside the table, whatever the bit stream holds. *)
Require Import Zrs.lib.RsPrelude Zrs.model.BitIO Zrs.model.FseDec Zrs.model.FseEnc.
Require Import Zrs.proofs.C03_HufStream Zrs.proofs.C12_General.
Open Scope Z_scope.

Section States.
  Variable D : fse_table.
  Variable al : Z.
  Hypothesis Hal : 1 <= al.
  Hypothesis Hlog : t_acc_log D = al.
  Hypothesis Hlen : Z.of_nat (length (t_decode D)) = 2 ^ al.
  Hypothesis Hrange : forall e, In e (t_decode D) -> 0 <= e_bits e <= al /\ 0 <= e_base e /\ e_base e + 2 ^ e_bits e <= 2 ^ al.

  Lemma nth_e_in i : 0 <= i < 2 ^ al -> In (nth_e (t_decode D) i) (t_decode D).
  Proof. intros Hi. unfold nth_e. apply nth_In. lia. Qed.

  Theorem init_state_in_table br : rwf br ->
    exists st br', fse_init_state D br = ROk (st, br') /\ In st (t_decode D) /\ rwf br'.
  Proof.
    intros W. unfold fse_init_state, t_len. rewrite Hlog. destruct (Z.eqb_spec al 0); [lia|].
    destruct (get_bits_wf br al W ltac:(lia)) as (W' & V & _). destruct (rbr_get_bits br al) as [v br'] eqn:Eg. cbn [fst snd] in *.
    destruct (Z.leb_spec (2 ^ al) v); [lia|]. eexists _, _. split; [reflexivity|]. split; [apply nth_e_in; lia|exact W'].
  Qed.

  Theorem update_state_in_table st br : In st (t_decode D) -> rwf br ->
    exists st' br', fse_update_state D st br = ROk (st', br') /\ In st' (t_decode D) /\ rwf br'.
  Proof.
    intros Hin W. destruct (Hrange st Hin) as (Hb & H0 & Hr).
    unfold fse_update_state, t_len. rewrite Hlog. destruct (Z.eqb_spec al 0); [lia|].
    destruct (get_bits_wf br (e_bits st) W ltac:(lia)) as (W' & V & _). destruct (rbr_get_bits br (e_bits st)) as [v br'] eqn:Eg. cbn [fst snd] in *.
    destruct (Z.leb_spec (2 ^ al) (e_base st + v)); [lia|]. eexists _, _. split; [reflexivity|]. split; [apply nth_e_in; lia|exact W'].
  Qed.
End States.

(** for the tables built from normalised distributions *)
Theorem built_table_states_stay_inside al probs ms :
  5 <= al <= 9 -> Forall (fun p => -1 <= p) probs -> weight probs = 2 ^ al ->
  (length probs <= 256)%nat -> Z.of_nat (length probs) <= ms + 1 ->
  exists D, fse_build_from_probabilities (fse_new ms) al probs = ROk D /\
    (forall br, rwf br -> exists st br', fse_init_state D br = ROk (st, br') /\ In st (t_decode D) /\ rwf br') /\
    (forall st br, In st (t_decode D) -> rwf br ->
       exists st' br', fse_update_state D st br = ROk (st', br') /\ In st' (t_decode D) /\ rwf br').
Proof.
  intros Hal Hp Hw Hlen Hms. destruct (general_table al probs ms Hal Hp Hw Hlen Hms) as (D & Eb & Hr & Hl & _).
  exists D. split; [exact Eb|].
  assert (Hlog : t_acc_log D = al).
  { unfold fse_build_from_probabilities in Eb. destruct (al =? 0); [discriminate|].
    destruct (build_decoding_table _ al probs) as [[dec counter]|e|e]; cbn [rbind] in Eb; try discriminate. injection Eb as <-. reflexivity. }
  split.
  - intros br W. apply (init_state_in_table D al ltac:(lia) Hlog Hl). exact W.
  - intros st br Hin W. apply (update_state_in_table D al ltac:(lia) Hlog Hl Hr); assumption.
Qed.
