(** C12 / C03: the spreading phase of the FSE table construction in general (with "less than one" probabilities placed
    at the top of the table): the positions it writes are the elements of the step's orbit that lie below the first
    "less than one" slot, in orbit order. *)
Require Import Zrs.lib.RsPrelude Zrs.lib.Sweep Zrs.model.BitIO Zrs.model.FseDec.
Require Import Zrs.proofs.C12_Fse Zrs.proofs.C12_Covers.
Open Scope Z_scope.

Section Walk.
  Variable size neg : Z.
  Hypothesis Hsize : 0 < size.
  Hypothesis Hneg : 0 <= neg <= size.

  Definition small (x : Z) : bool := x <? neg.
  Definition smalls (l : list Z) : list Z := filter small l.

  (** [l] continues the orbit after [x] *)
  Fixpoint chain_from (x : Z) (l : list Z) : Prop :=
    match l with [] => True | y :: t => y = next_position x size /\ chain_from y t end.

  (** drop the future up to and including its n-th small element *)
  Fixpoint ds (l : list Z) (n : nat) : list Z :=
    match l with
    | [] => []
    | y :: t => match n with O => l | S k => if small y then ds t k else ds t (S k) end
    end.

  Lemma smalls_ds l : forall n, smalls (ds l n) = skipn n (smalls l).
  Proof.
    induction l as [|y t IH]; intros n; [destruct n; reflexivity|]. destruct n as [|k]; [reflexivity|].
    cbn [ds smalls filter]. destruct (small y) eqn:E; [rewrite IH; reflexivity|rewrite IH; cbn [smalls]; reflexivity].
  Qed.

  Lemma chain_ds l : forall n x, chain_from x l -> (n <= length (smalls l))%nat ->
    chain_from (nth n (x :: smalls l) 0) (ds l n).
  Proof.
    induction l as [|y t IH]; intros n x Hc Hn.
    - unfold smalls in Hn. cbn in Hn. assert (n = 0%nat) by lia. subst n. exact I.
    - destruct n as [|k]; [cbn [nth ds]; exact Hc|]. destruct Hc as (Ey & Hc).
      cbn [ds smalls filter] in *. destruct (small y) eqn:E.
      + cbn [length] in Hn. cbn [nth]. apply (IH k y Hc). unfold smalls. lia.
      + cbn [nth]. specialize (IH (S k) y Hc Hn). cbn [nth] in IH. exact IH.
  Qed.

  (** skipping the taken positions finds the next small element of the future *)
  Lemma skip_finds g : forall fuel x y rest, chain_from x (g ++ y :: rest) -> Forall (fun z => small z = false) g -> small y = true ->
    (length g < fuel)%nat -> skip_taken fuel (next_position x size) neg size = ROk y.
  Proof.
    induction g as [|z g IH]; intros fuel x y rest Hc Hg Hy Hf.
    - destruct fuel as [|f]; [cbn in Hf; lia|]. cbn [skip_taken]. cbn [app chain_from] in Hc. destruct Hc as (Ey & _).
      rewrite <- Ey. unfold small in Hy. destruct (Z.leb_spec neg y); [lia|reflexivity].
    - destruct fuel as [|f]; [cbn in Hf; lia|]. cbn [skip_taken]. cbn [app chain_from] in Hc. destruct Hc as (Ez & Hc).
      inversion Hg as [|? ? Hz Hg']; subst. unfold small in Hz.
      destruct (Z.leb_spec neg (next_position x size)) as [_|]; [|lia]. apply (IH f _ y rest Hc Hg' Hy). cbn in Hf. lia.
  Qed.

  Lemma split_at_small l : smalls l <> [] -> exists g y rest, l = g ++ y :: rest /\ Forall (fun z => small z = false) g /\ small y = true /\
    smalls l = y :: smalls rest /\ ds l 1 = rest.
  Proof.
    induction l as [|z t IH]; intros Hne; [cbn in Hne; congruence|]. cbn [smalls filter] in Hne. destruct (small z) eqn:E.
    - exists [], z, t. cbn [app smalls filter ds]. rewrite E. repeat split; try constructor. destruct t; reflexivity.
    - destruct (IH Hne) as (g & y & rest & -> & Hg & Hy & Hs & Hd). exists (z :: g), y, rest. cbn [app smalls filter ds]. rewrite E.
      repeat split; try assumption. constructor; assumption.
  Qed.

  (** [n] placements of [sym] starting at the small position [x] *)
  Lemma spread_one_walk n : forall sym x l dec, small x = true -> 0 <= x -> chain_from x l ->
    (n <= length (smalls l))%nat -> (length l <= Z.to_nat size)%nat -> Z.of_nat (length dec) = size ->
    spread_one n sym x neg size dec =
      ROk (nth n (x :: smalls l) 0, write_list dec (map (fun p => (p, sym)) (firstn n (x :: smalls l)))).
  Proof.
    induction n as [|n IH]; intros sym x l dec Hx Hx0 Hc Hn Hl Hd; cbn [spread_one nth firstn map write_list]; [reflexivity|].
    unfold small in Hx. destruct (Z.leb_spec (Z.of_nat (length dec)) x) as [H|_]; [lia|].
    assert (Hne : smalls l <> []) by (destruct (smalls l); [cbn in Hn; lia|discriminate]).
    destruct (split_at_small l Hne) as (g & y & rest & El & Hg & Hy & Hs & Hd1).
    rewrite (skip_finds g (S (Z.to_nat size)) x y rest); [|rewrite <- El; exact Hc|exact Hg|exact Hy|].
    2:{ rewrite El, app_length in Hl. cbn [length] in Hl. lia. }
    cbn [rbind]. fold (set_sym dec x sym).
    assert (Hcy : chain_from y rest).
    { rewrite El in Hc. clear - Hc. revert x Hc. induction g as [|z g IHg]; intros x Hc; cbn [app chain_from] in Hc; [tauto|]. destruct Hc as (_ & Hc). apply (IHg z Hc). }
    rewrite Hs in Hn. cbn [length] in Hn.
    assert (Hy0 : 0 <= y).
    { rewrite El in Hc. clear - Hc Hsize. revert x Hc. induction g as [|z g IHg]; intros x Hc; cbn [app chain_from] in Hc.
      - destruct Hc as (-> & _). apply next_position_range. exact Hsize.
      - destruct Hc as (_ & Hc). apply (IHg z Hc). }
    assert (Hlr : (length rest <= Z.to_nat size)%nat) by (rewrite El, app_length in Hl; cbn [length] in Hl; lia).
    rewrite (IH sym y rest (set_sym dec x sym) Hy Hy0 Hcy ltac:(lia) Hlr ltac:(rewrite set_sym_length; exact Hd)).
    rewrite Hs. reflexivity.
  Qed.

  Lemma ds_length l : forall n, (length (ds l n) <= length l)%nat.
  Proof.
    induction l as [|y t IH]; intros n; [destruct n; cbn; lia|]. destruct n as [|k]; cbn [ds length]; [lia|].
    destruct (small y); [specialize (IH k)|specialize (IH (S k))]; lia.
  Qed.

  Lemma smalls_small l x : In x (smalls l) -> small x = true.
  Proof. unfold smalls. intros H. apply filter_In in H. tauto. Qed.

  Lemma skipn_nth_cons (x : Z) sm : forall n, (n <= length sm)%nat -> skipn n (x :: sm) = nth n (x :: sm) 0 :: skipn n sm.
  Proof.
    revert x. induction sm as [|y t IH]; intros x n Hn.
    - cbn in Hn. assert (n = 0%nat) by lia. subst n. reflexivity.
    - destruct n as [|k]; [reflexivity|]. cbn [skipn nth]. apply IH. cbn in Hn. lia.
  Qed.

  Lemma nth_in_or (x : Z) sm n : (n <= length sm)%nat -> nth n (x :: sm) 0 = x \/ In (nth n (x :: sm) 0) sm.
  Proof. intros Hn. destruct n as [|k]; [left; reflexivity|right]. cbn [nth]. apply nth_In. lia. Qed.

  Lemma combine_app2 (a a' b b' : list Z) : length a = length b -> combine (a ++ a') (b ++ b') = combine a b ++ combine a' b'.
  Proof. revert b. induction a as [|x a IH]; intros b Hl; destruct b as [|y b]; cbn in Hl; try lia; cbn [app combine]; [reflexivity|]. rewrite IH by lia. reflexivity. Qed.

  (** the whole spreading phase from a small position [x] with future [l] *)
  Lemma spread_walk probs : forall sym x l dec, small x = true -> 0 <= x -> chain_from x l ->
    (length (syms probs sym) <= length (smalls l))%nat -> (length l <= Z.to_nat size)%nat -> Z.of_nat (length dec) = size ->
    spread probs sym x neg size dec =
      ROk (write_list dec (combine (firstn (length (syms probs sym)) (x :: smalls l)) (syms probs sym))).
  Proof.
    induction probs as [|p t IH]; intros sym x l dec Hx Hx0 Hc Hn Hl Hd; cbn [spread syms] in *; [reflexivity|].
    destruct (Z.leb_spec p 0) as [Hp0|Hp0]; [cbn [app] in *; apply IH; assumption|].
    rewrite app_length, repeat_length in Hn.
    rewrite (spread_one_walk (Z.to_nat p) (sym mod 256) x l dec Hx Hx0 Hc ltac:(lia) Hl Hd). cbn [rbind].
    set (n := Z.to_nat p) in *.
    assert (Hx' : small (nth n (x :: smalls l) 0) = true).
    { destruct (nth_in_or x (smalls l) n ltac:(lia)) as [->|Hin]; [exact Hx|apply (smalls_small l); exact Hin]. }
    assert (Hx0' : 0 <= nth n (x :: smalls l) 0).
    { destruct (nth_in_or x (smalls l) n ltac:(lia)) as [->|Hin]; [exact Hx0|].
      (* elements of the future are orbit positions *)
      assert (G : forall l0 x0, chain_from x0 l0 -> forall z, In z l0 -> 0 <= z).
      { induction l0 as [|y l0 IHl]; intros x0 Hc0 z Hz; [contradiction|]. cbn [chain_from] in Hc0. destruct Hc0 as (Ey & Hc0).
        destruct Hz as [<-|Hz]; [rewrite Ey; apply next_position_range; exact Hsize|apply (IHl y Hc0 z Hz)]. }
      apply (G l x Hc). unfold smalls in Hin. apply filter_In in Hin. tauto. }
    rewrite (IH (sym + 1) _ (ds l n) _ Hx' Hx0' (chain_ds l n x Hc ltac:(lia))).
    - f_equal. rewrite smalls_ds. rewrite app_length, repeat_length. fold n.
      rewrite <- (skipn_nth_cons x (smalls l) n) by lia.
      rewrite <- write_list_app. f_equal.
      rewrite <- (firstn_skipn n (firstn (n + length (syms t (sym + 1))) (x :: smalls l))).
      rewrite firstn_firstn, Nat.min_l by lia.
      rewrite combine_app2 by (rewrite firstn_length, repeat_length; cbn [length]; lia).
      f_equal.
      + rewrite <- (combine_repeat (firstn n (x :: smalls l)) (sym mod 256)). rewrite firstn_length. cbn [length]. rewrite Nat.min_l by lia. reflexivity.
      + f_equal. rewrite skipn_firstn_comm. f_equal. lia.
    - rewrite smalls_ds, skipn_length. lia.
    - pose proof (ds_length l n). lia.
    - rewrite write_list_length. exact Hd.
  Qed.
End Walk.
