(** C13: for every list of at least two weights (each at most 11, one of them positive) the compressor's normaliser
    (limit 6, avoid-zero-bits) returns a distribution for the histogram of the weights and that distribution has a
    table description: the two facts the FSE-compressed weight description rested on as hypotheses. *)
Require Import Zrs.lib.RsPrelude Zrs.gen.Generated Zrs.model.BitIO Zrs.model.BitStream Zrs.model.FseDec Zrs.model.HufDec Zrs.model.BlockDec Zrs.model.SeqEnc Zrs.model.FseEnc Zrs.model.FseNorm Zrs.model.WeightEnc.
Require Import Zrs.proofs.C12_Desc Zrs.proofs.C12_Norm Zrs.proofs.C12_NormTotal Zrs.proofs.C13_WeightModel.
Open Scope Z_scope.

Theorem weight_description_exists data :
  (2 <= length data)%nat -> Forall (fun w => 0 <= w <= 11) data -> 1 <= zmax_list data ->
  exists al probs d, norm_counts (weight_hist data) 6 true = ROk (al, probs) /\ desc_bytes al probs = Some d.
Proof.
  intros Hl Hw Hmax.
  remember (weight_hist data) as counts eqn:Ec.
  assert (Hne : data <> []) by (intros ->; cbn in Hl; lia).
  assert (Hnn : Forall (fun x => 0 <= x) data) by (eapply Forall_impl; [|exact Hw]; intros a Ha; cbv beta in *; lia).
  assert (Lc : length counts = S (Z.to_nat (zmax_list data))) by (rewrite Ec; unfold weight_hist; rewrite map_length, seq_length; reflexivity).
  assert (Hc0 : Forall (fun c => 0 <= c) counts).
  { rewrite Ec. unfold weight_hist. apply Forall_forall. intros c Hc. apply in_map_iff in Hc as (n & <- & _). unfold occ. lia. }
  assert (Hnth : forall i, (i < length counts)%nat -> nth i counts 0 = occ (Z.of_nat i) data).
  { intros i Hi. rewrite Ec in *. unfold weight_hist in *. rewrite map_length, seq_length in Hi.
    rewrite (nth_indep _ 0 (occ (Z.of_nat 0) data)) by (rewrite map_length, seq_length; exact Hi).
    rewrite (map_nth (fun n => occ (Z.of_nat n) data)), seq_nth by exact Hi. reflexivity. }
  assert (Hzm : zmax_list data <= 11).
  { destruct (zmax_in data Hne Hnn) as [H|H]; [|lia]. rewrite Forall_forall in Hw. specialize (Hw _ H). lia. }
  assert (Hlast : 0 < last counts 0).
  { rewrite last_is_nth by (intros E; rewrite E in Lc; discriminate). rewrite Lc. replace (S (Z.to_nat (zmax_list data)) - 1)%nat with (Z.to_nat (zmax_list data)) by lia.
    rewrite Hnth by lia. rewrite Z2Nat.id by lia. apply occ_pos. destruct (zmax_in data Hne Hnn) as [H|H]; [exact H|lia]. }
  assert (Hlen2 : (2 <= length counts)%nat) by lia.
  assert (Hroom : Z.of_nat (length counts) <= 2 ^ 6) by (change (2 ^ 6) with 64; lia).
  destruct (norm_counts_total_gen counts 6 ltac:(lia) Hc0 Hlast Hlen2 Hroom) as (al & probs & En).
  assert (Hlen256 : (2 <= length counts <= 256)%nat) by lia.
  destruct (norm_counts_normalised counts 6 al probs ltac:(lia) Hc0 Hlast Hlen2 En) as (Hdist & Hal & Lp & _).
  destruct (description_roundtrip al probs 255 6 [0] ltac:(lia) ltac:(lia) Hdist ltac:(rewrite Lp; lia) ltac:(discriminate)) as (d & Ed & _).
  exists al, probs, d. split; [exact En|exact Ed].
Qed.
