(** C12 / C16: the sequences bit stream.  The compressor writes, backwards, for each sequence the three state
    transitions and the three extra-bit fields, and finally the three start states ([encode_sequences] in
    encoding/blocks/compressed.rs); the decoder reads the stream from the end ([seq_loop]).  Theorem: for every list
    of coded sequences and every triple of encoder/decoder tables that AGREE (each encoder state is the decoder's
    entry at its index, and covers the state it is entered from -- a decidable property of two tables, validated on
    the real tables on every run), the decoder model returns exactly the sequences that were written, consuming the
    stream exactly.  Built on the inverse law of backward bit streams (C12_Stream.v). *)
Require Import Zrs.lib.RsPrelude Zrs.gen.Generated Zrs.model.BitIO Zrs.model.FseDec Zrs.model.HufDec Zrs.model.BlockDec.
Require Import Zrs.model.BitStream Zrs.model.SeqEnc Zrs.proofs.C12_Stream.
Open Scope Z_scope.

(** agreement of an encoder table with a decoding table on the symbols [syms] *)
Definition entry_is (D : fse_table) (sym : Z) (s : enc_state) : Prop :=
  0 <= es_index s < t_len D /\
  nth_e (t_decode D) (es_index s) = {| e_base := es_base s; e_bits := Z.of_nat (es_bits s); e_sym := sym |}.
Definition agree (D : fse_table) (E : enc_table) (syms : list Z) : Prop :=
  t_acc_log D = Z.of_nat (et_log E) /\ (0 < et_log E)%nat /\
  forall sym, In sym syms ->
    entry_is D sym (et_start E sym) /\
    forall idx, 0 <= idx < t_len D ->
      entry_is D sym (et_next E sym idx) /\
      es_base (et_next E sym idx) <= idx < es_base (et_next E sym idx) + 2 ^ Z.of_nat (es_bits (et_next E sym idx)).

Definition cseq_ok (q : cseq) : Prop :=
  0 <= a_ll q < 2 ^ Z.of_nat (n_ll q) /\ 0 <= a_ml q < 2 ^ Z.of_nat (n_ml q) /\ 0 <= c_of q <= MAX_OFFSET_CODE /\
  0 <= a_of q < 2 ^ c_of q /\
  (exists b, lookup_ll_code (c_ll q) = ROk (b, Z.of_nat (n_ll q))) /\
  (exists b, lookup_ml_code (c_ml q) = ROk (b, Z.of_nat (n_ml q))).
Definition cseq_value (q : cseq) : option sequence :=
  match lookup_ll_code (c_ll q), lookup_ml_code (c_ml q) with
  | ROk (bl, _), ROk (bm, _) => Some {| sq_ll := bl + a_ll q; sq_ml := bm + a_ml q; sq_of := a_of q + 2 ^ c_of q |}
  | _, _ => None
  end.

Lemma fields_bits_snoc A v n : fields_bits (A ++ [(v, n)]) = fields_bits A ++ byte_bits_lsb n v.
Proof. rewrite fields_bits_app. unfold fields_bits at 2. cbn [flat_map fst snd]. rewrite app_nil_r. reflexivity. Qed.

Lemma read_last_field A v n : 0 <= v < 2 ^ Z.of_nat n ->
  rbr_get_bits (rd (rev (fields_bits (A ++ [(v, n)])))) (Z.of_nat n) = (v, rd (rev (fields_bits A))).
Proof. intros H. rewrite fields_bits_snoc. apply read_field. exact H. Qed.

Lemma snoc3 {T} (B : list T) f1 f2 f3 : B ++ [f1; f2; f3] = ((B ++ [f1]) ++ [f2]) ++ [f3].
Proof. rewrite <- !app_assoc. reflexivity. Qed.

Lemma rd_remaining s : rbr_bits_remaining (rd s) = Z.of_nat (length s).
Proof. unfold rbr_bits_remaining, rd. cbn. lia. Qed.

Section Dec.
  Variables (Ell Eml Eof : enc_table) (Dll Dml Dof : fse_table).
  Variable syms_ll syms_ml syms_of : list Z.
  Hypothesis All : agree Dll Ell syms_ll.
  Hypothesis Aml : agree Dml Eml syms_ml.
  Hypothesis Aof : agree Dof Eof syms_of.

  Definition sc : fse_scratch :=
    {| fs_of := Dof; fs_of_rle := None; fs_ll := Dll; fs_ll_rle := None; fs_ml := Dml; fs_ml_rle := None |}.

  Definition q_in (q : cseq) : Prop := In (c_ll q) syms_ll /\ In (c_ml q) syms_ml /\ In (c_of q) syms_of.

  Lemma update_reads D E syms sym (cur : enc_state) target A :
    agree D E syms -> In sym syms -> 0 <= target < t_len D -> cur = et_next E sym target ->
    fse_update_state D {| e_base := es_base cur; e_bits := Z.of_nat (es_bits cur); e_sym := sym |}
      (rd (rev (fields_bits (A ++ [(target - es_base cur, es_bits cur)]))))
    = ROk (nth_e (t_decode D) target, rd (rev (fields_bits A))).
  Proof.
    intros (Hlog & Hpos & Hag) Hin Ht ->. destruct (Hag sym Hin) as (_ & Hn). destruct (Hn target Ht) as ((Hi & He) & Hr).
    unfold fse_update_state. cbn [e_bits e_base].
    rewrite read_last_field by lia.
    replace (es_base (et_next E sym target) + (target - es_base (et_next E sym target))) with target by lia.
    destruct (Z.leb_spec (t_len D) target) as [|_]; [lia|]. reflexivity.
  Qed.

  Lemma init_reads D E syms (idx : Z) A : agree D E syms -> 0 <= idx < t_len D ->
    fse_init_state D (rd (rev (fields_bits (A ++ [(idx, et_log E)])))) = ROk (nth_e (t_decode D) idx, rd (rev (fields_bits A))).
  Proof.
    intros (Hlog & Hpos & _) Hi. unfold fse_init_state. rewrite Hlog.
    destruct (Z.eqb_spec (Z.of_nat (et_log E)) 0) as [|_]; [lia|].
    assert (Hl : t_len D = 2 ^ Z.of_nat (et_log E)).
    { unfold t_len. rewrite Hlog. destruct (Z.eqb_spec (Z.of_nat (et_log E)) 0); [lia|reflexivity]. }
    rewrite read_last_field by lia. destruct (Z.leb_spec (t_len D) idx) as [|_]; [lia|]. reflexivity.
  Qed.

  (** the loop: started in the states [enc_body] prescribes, on a stream that ends with the fields [enc_body] wrote,
      it returns the values of [qs] and leaves exactly what was written before *)
  Lemma seq_loop_reads qs : forall A total done acc sl sm so fs,
    qs <> [] -> Forall cseq_ok qs -> Forall q_in qs ->
    enc_body Ell Eml Eof qs = (sl, sm, so, fs) -> done + Z.of_nat (length qs) = total ->
    exists vals,
      Forall2 (fun q v => cseq_value q = Some v) qs vals /\
      seq_loop (length qs) total sc (nth_e (t_decode Dll) sl) (nth_e (t_decode Dml) sm) (nth_e (t_decode Dof) so)
               (rd (rev (fields_bits (A ++ fs)))) done acc
      = ROk (rev vals ++ acc, rd (rev (fields_bits A))) /\
      0 <= sl < t_len Dll /\ 0 <= sm < t_len Dml /\ 0 <= so < t_len Dof.
  Proof.
    induction qs as [|q rest IH]; intros A total done acc sl sm so fs Hne Hok Hin Eb Ht; [congruence|].
    inversion Hok as [|? ? Hq Hok']; subst. inversion Hin as [|? ? Hqi Hin']; subst.
    destruct Hq as (Hal & Ham & Hco & Hao & (bl & Ell_) & (bm & Eml_)). destruct Hqi as (Il & Im & Io).
    pose proof All as (Lll & Pll & Gll). pose proof Aml as (Lml & Pml & Gml). pose proof Aof as (Lof & Pof & Gof).
    (* the states we are in *)
    assert (Hst : exists cl cm co, entry_is Dll (c_ll q) cl /\ entry_is Dml (c_ml q) cm /\ entry_is Dof (c_of q) co /\
                  sl = es_index cl /\ sm = es_index cm /\ so = es_index co /\
                  match rest with
                  | [] => fs = extras q
                  | _ => exists sl' sm' so' fs', enc_body Ell Eml Eof rest = (sl', sm', so', fs') /\
                          cl = et_next Ell (c_ll q) sl' /\ cm = et_next Eml (c_ml q) sm' /\ co = et_next Eof (c_of q) so' /\
                          fs = fs' ++ [(so' - es_base co, es_bits co); (sm' - es_base cm, es_bits cm); (sl' - es_base cl, es_bits cl)] ++ extras q
                  end).
    { destruct rest as [|q2 rest2].
      - cbn [enc_body] in Eb. injection Eb as <- <- <- <-.
        exists (et_start Ell (c_ll q)), (et_start Eml (c_ml q)), (et_start Eof (c_of q)).
        split; [exact (proj1 (Gll _ Il))|]. split; [exact (proj1 (Gml _ Im))|]. split; [exact (proj1 (Gof _ Io))|].
        repeat split; reflexivity.
      - remember (q2 :: rest2) as r eqn:Er. cbn [enc_body] in Eb. rewrite Er in Eb. rewrite <- Er in Eb.
        destruct (enc_body Ell Eml Eof r) as [[[sl' sm'] so'] fs'] eqn:Er2.
        destruct (IH [] (0 + Z.of_nat (length r)) 0 [] sl' sm' so' fs' ltac:(rewrite Er; discriminate) Hok' Hin' eq_refl eq_refl) as (_ & _ & _ & Bl & Bm & Bo).
        injection Eb as <- <- <- <-.
        exists (et_next Ell (c_ll q) sl'), (et_next Eml (c_ml q) sm'), (et_next Eof (c_of q) so').
        split; [exact (proj1 (proj2 (Gll _ Il) _ Bl))|]. split; [exact (proj1 (proj2 (Gml _ Im) _ Bm))|]. split; [exact (proj1 (proj2 (Gof _ Io) _ Bo))|].
        split; [reflexivity|]. split; [reflexivity|]. split; [reflexivity|]. exists sl', sm', so', fs'. repeat split; reflexivity. }
    destruct Hst as (cl & cm & co & (Bl & El) & (Bm & Em) & (Bo & Eo) & -> & -> & -> & Hfs).
    cbn [length seq_loop]. unfold code_of. cbn [sc fs_ll_rle fs_ml_rle fs_of_rle fs_ll fs_ml fs_of].
    rewrite El, Em, Eo. cbn [e_sym]. rewrite Ell_, Eml_. cbn [rbind].
    destruct (Z.ltb_spec MAX_OFFSET_CODE (c_of q)) as [|_]; [lia|].
    assert (Hval : cseq_value q = Some {| sq_ll := bl + a_ll q; sq_ml := bm + a_ml q; sq_of := a_of q + 2 ^ c_of q |})
      by (unfold cseq_value; rewrite Ell_, Eml_; reflexivity).
    assert (Hofn : Z.of_nat (Z.to_nat (c_of q)) = c_of q) by lia.
    (* the three extra-bit fields are the last three fields of the stream *)
    assert (Hext : forall B, rbr_get_bits_triple (rd (rev (fields_bits (B ++ extras q)))) (c_of q) (Z.of_nat (n_ml q)) (Z.of_nat (n_ll q))
                             = (a_of q, a_ml q, a_ll q, rd (rev (fields_bits B)))).
    { intros B. unfold rbr_get_bits_triple, extras.
      remember (Z.to_nat (c_of q)) as k eqn:Hk. assert (Hck : c_of q = Z.of_nat k) by lia. rewrite Hck in Hao |- *.
      replace (B ++ [(a_ll q, n_ll q); (a_ml q, n_ml q); (a_of q, k)])
        with (((B ++ [(a_ll q, n_ll q)]) ++ [(a_ml q, n_ml q)]) ++ [(a_of q, k)]) by (rewrite <- !app_assoc; reflexivity).
      rewrite read_last_field by exact Hao.
      rewrite read_last_field by exact Ham. rewrite read_last_field by exact Hal. reflexivity. }
    destruct rest as [|q2 rest2].
    - (* the last sequence *)
      subst fs. rewrite Hext.
      destruct (Z.eqb_spec (a_of q + 2 ^ c_of q) 0) as [Hz|_]; [pose proof (Z.pow_pos_nonneg 2 (c_of q)); lia|].
      cbn [length]. destruct (Z.ltb_spec (done + 1) (done + Z.of_nat 1)) as [Hx|_]; [lia|]. cbn [rbind].
      rewrite rd_remaining. destruct (Z.ltb_spec (Z.of_nat (length (rev (fields_bits A)))) 0) as [|_]; [lia|].
      cbn [seq_loop]. eexists [_]. split; [constructor; [exact Hval|constructor]|]. split; [reflexivity|]. repeat split; lia.
    - destruct Hfs as (sl' & sm' & so' & fs' & Er2 & -> & -> & -> & ->).
      remember (q2 :: rest2) as r eqn:Er.
      destruct (IH A (done + Z.of_nat (length (q :: r))) (done + 1) ({| sq_ll := bl + a_ll q; sq_ml := bm + a_ml q; sq_of := a_of q + 2 ^ c_of q |} :: acc)
                   sl' sm' so' fs' ltac:(rewrite Er; discriminate) Hok' Hin' Er2) as (vals & Hv & Hloop & Bl' & Bm' & Bo').
      { cbn [length]. lia. }
      rewrite !app_assoc. rewrite Hext.
      destruct (Z.eqb_spec (a_of q + 2 ^ c_of q) 0) as [Hz|_]; [pose proof (Z.pow_pos_nonneg 2 (c_of q)); lia|].
      cbn [length]. destruct (Z.ltb_spec (done + 1) (done + Z.of_nat (S (length r)))) as [_|Hx]; [|rewrite Er in Hx; cbn [length] in Hx; lia].
      (* the three transitions, written of, ml, ll -> read ll, ml, of *)
      rewrite snoc3.
      rewrite (update_reads Dll Ell syms_ll (c_ll q) _ sl' _ All Il Bl' eq_refl). cbn [rbind].
      rewrite (update_reads Dml Eml syms_ml (c_ml q) _ sm' _ Aml Im Bm' eq_refl). cbn [rbind].
      rewrite (update_reads Dof Eof syms_of (c_of q) _ so' _ Aof Io Bo' eq_refl). cbn [rbind].
      rewrite rd_remaining. destruct (Z.ltb_spec (Z.of_nat (length (rev (fields_bits (A ++ fs'))))) 0) as [|_]; [lia|].
      cbn [length] in Hloop |- *. rewrite Hloop.
      exists ({| sq_ll := bl + a_ll q; sq_ml := bm + a_ml q; sq_of := a_of q + 2 ^ c_of q |} :: vals).
      split; [constructor; assumption|]. split; [cbn [rev]; rewrite <- app_assoc; reflexivity|]. repeat split; lia.
  Qed.
End Dec.

(** *** the whole sequences bit stream: what the compressor writes, read by the steps of [decode_sequences] *)
Section Whole.
  Variables (Ell Eml Eof : enc_table) (Dll Dml Dof : fse_table).
  Variable syms_ll syms_ml syms_of : list Z.
  Hypothesis All : agree Dll Ell syms_ll.
  Hypothesis Aml : agree Dml Eml syms_ml.
  Hypothesis Aof : agree Dof Eof syms_of.

  Theorem sequences_stream_roundtrip qs : qs <> [] -> Forall cseq_ok qs -> Forall (q_in syms_ll syms_ml syms_of) qs ->
    let bytes := stream_bytes (enc_fields Ell Eml Eof qs) in
    exists r0 ll r1 of r2 ml r3 vals rf,
      rbr_skip_padding (rbr_new bytes) = Some r0 /\
      fse_init_state Dll r0 = ROk (ll, r1) /\ fse_init_state Dof r1 = ROk (of, r2) /\ fse_init_state Dml r2 = ROk (ml, r3) /\
      seq_loop (length qs) (Z.of_nat (length qs)) (sc Dll Dml Dof) ll ml of r3 0 [] = ROk (rev vals, rf) /\
      Forall2 (fun q v => cseq_value q = Some v) qs vals /\
      rbr_bits_remaining rf = 0.
  Proof.
    intros Hne Hok Hin bytes. unfold bytes, enc_fields.
    destruct (enc_body Ell Eml Eof qs) as [[[sl sm] so] fs] eqn:Eb.
    destruct (seq_loop_reads Ell Eml Eof Dll Dml Dof syms_ll syms_ml syms_of All Aml Aof qs [] (0 + Z.of_nat (length qs)) 0 [] sl sm so fs Hne Hok Hin Eb eq_refl)
      as (vals & Hv & Hloop & Bl & Bm & Bo).
    set (F := fs ++ [(sm, et_log Eml); (so, et_log Eof); (sl, et_log Ell)]).
    assert (HF : Forall field_ok F \/ True) by (right; exact I).
    (* skipping the padding only needs the shape of the stream *)
    exists (rd (rev (fields_bits F))).
    assert (Hskip : rbr_skip_padding (rbr_new (stream_bytes F)) = Some (rd (rev (fields_bits F)))).
    { rewrite reader_of_stream. unfold stream_bits. rewrite rev_app_distr. cbn [rev]. rewrite <- app_assoc. cbn [app].
      unfold rbr_skip_padding. rewrite rev_repeat. apply skip_zeros.
      - pose proof (Nat.mod_upper_bound (length (fields_bits F)) 8 ltac:(lia)). lia.
      - lia. }
    exists (nth_e (t_decode Dll) sl), (rd (rev (fields_bits ((fs ++ [(sm, et_log Eml)]) ++ [(so, et_log Eof)])))),
           (nth_e (t_decode Dof) so), (rd (rev (fields_bits (fs ++ [(sm, et_log Eml)])))),
           (nth_e (t_decode Dml) sm), (rd (rev (fields_bits fs))), vals, (rd (rev (fields_bits []))).
    split; [exact Hskip|].
    split; [unfold F; rewrite snoc3; apply (init_reads Dll Ell syms_ll sl _ All Bl)|].
    split; [apply (init_reads Dof Eof syms_of so _ Aof Bo)|].
    split; [apply (init_reads Dml Eml syms_ml sm _ Aml Bm)|].
    cbn [app Z.add] in Hloop. rewrite app_nil_r in Hloop. split; [exact Hloop|]. split; [exact Hv|].
    rewrite rd_remaining. reflexivity.
  Qed.
End Whole.

(** *** the encoder tables derived from the decoding tables agree with them *)
Definition table_wf (D : fse_table) : Prop :=
  Z.of_nat (length (t_decode D)) = t_len D /\ Forall (fun e => 0 <= e_bits e) (t_decode D) /\ 0 < t_acc_log D.
(** every state index is covered by a state of [sym], and [sym] has a state at all (decidable; implied by the tiling
    of the state ranges, C12_state_ranges) *)
Definition covers (D : fse_table) (sym : Z) : Prop :=
  min_base (t_decode D) 0 sym None <> None /\
  forall idx, 0 <= idx < t_len D ->
    find_entry (t_decode D) 0 (fun e => (e_sym e =? sym) && (e_base e <=? idx) && (idx <? e_base e + 2 ^ e_bits e)) <> None.

Lemma find_entry_spec l : forall i p j e, find_entry l i p = Some (j, e) ->
  i <= j < i + Z.of_nat (length l) /\ nth (Z.to_nat (j - i)) l entry0 = e /\ p e = true.
Proof.
  induction l as [|x t IH]; intros i p j e H; cbn [find_entry] in H; [discriminate|].
  destruct (p x) eqn:Ep.
  - injection H as <- <-. cbn [length]. replace (i - i) with 0 by lia. cbn. repeat split; try lia. exact Ep.
  - destruct (IH _ _ _ _ H) as (A & B & C). cbn [length]. split; [lia|]. split; [|exact C].
    replace (Z.to_nat (j - i)) with (S (Z.to_nat (j - (i + 1)))) by lia. exact B.
Qed.

Lemma min_base_spec l : forall i sym best j e, min_base l i sym best = Some (j, e) ->
  best = Some (j, e) \/ (i <= j < i + Z.of_nat (length l) /\ nth (Z.to_nat (j - i)) l entry0 = e /\ e_sym e = sym).
Proof.
  induction l as [|x t IH]; intros i sym best j e H; cbn [min_base] in H; [left; exact H|].
  destruct (IH _ _ _ _ _ H) as [Hb|(A & B & C)].
  - destruct (Z.eqb_spec (e_sym x) sym) as [Es|_]; [|left; exact Hb].
    destruct best as [[bi be]|].
    + destruct (e_base x <? e_base be); [|left; exact Hb]. injection Hb as <- <-. right. cbn [length].
      replace (i - i) with 0 by lia. cbn. repeat split; try lia.
    + injection Hb as <- <-. right. cbn [length]. replace (i - i) with 0 by lia. cbn. repeat split; try lia.
  - right. cbn [length]. split; [lia|]. split; [|exact C].
    replace (Z.to_nat (j - i)) with (S (Z.to_nat (j - (i + 1)))) by lia. exact B.
Qed.

Lemma entry_of_index D sym j e : table_wf D -> 0 <= j < Z.of_nat (length (t_decode D)) ->
  nth (Z.to_nat j) (t_decode D) entry0 = e -> e_sym e = sym ->
  entry_is D sym (to_state (Some (j, e))).
Proof.
  intros (Hl & Hb & _) Hj Hn Hs. unfold entry_is, to_state. cbn [es_index es_bits es_base]. split; [lia|].
  unfold nth_e. rewrite Hn. rewrite Forall_forall in Hb.
  assert (0 <= e_bits e) by (apply Hb; rewrite <- Hn; apply nth_In; lia).
  destruct e as [b n s]. cbn [e_base e_bits e_sym] in *. subst s. f_equal. lia.
Qed.

Theorem derived_encoder_agrees D syms : table_wf D -> Forall (covers D) syms -> agree D (enc_of_dec D) syms.
Proof.
  intros W Hc. pose proof W as (Hl & Hb & Hpos). unfold agree. cbn [et_log enc_of_dec].
  split; [lia|]. split; [lia|].
  intros sym Hin. rewrite Forall_forall in Hc. destruct (Hc sym Hin) as (Hmin & Hcov).
  split.
  - cbn [et_start enc_of_dec]. destruct (min_base (t_decode D) 0 sym None) as [[j e]|] eqn:E; [|congruence].
    destruct (min_base_spec _ _ _ _ _ _ E) as [|(A & B & C)]; [discriminate|].
    replace (j - 0) with j in B by lia. apply (entry_of_index D sym j e W); [lia|exact B|exact C].
  - intros idx Hidx. cbn [et_next enc_of_dec].
    destruct (find_entry (t_decode D) 0 _) as [[j e]|] eqn:E; [|exfalso; exact (Hcov idx Hidx E)].
    destruct (find_entry_spec _ _ _ _ _ E) as (A & B & C).
    apply andb_prop in C. destruct C as [C C3]. apply andb_prop in C. destruct C as [C1 C2].
    apply Z.eqb_eq in C1. apply Z.leb_le in C2. apply Z.ltb_lt in C3.
    rewrite Forall_forall in Hb.
    assert (Hbits : 0 <= e_bits e) by (apply Hb; rewrite <- B; apply nth_In; lia).
    split.
    + replace (j - 0) with j in B by lia. apply (entry_of_index D sym j e W); [lia|exact B|exact C1].
    + unfold to_state. cbn [es_base es_bits]. rewrite Z2Nat.id by exact Hbits. lia.
Qed.

(** hence, with the encoder tables derived from the decoding tables (what the executable model [reencode] uses and
    what the real compressor's stream is compared with on every run): *)
Corollary derived_encoder_roundtrip Dll Dml Dof sl sm so qs :
  table_wf Dll -> table_wf Dml -> table_wf Dof ->
  Forall (covers Dll) sl -> Forall (covers Dml) sm -> Forall (covers Dof) so ->
  qs <> [] -> Forall cseq_ok qs -> Forall (q_in sl sm so) qs ->
  let bytes := stream_bytes (enc_fields (enc_of_dec Dll) (enc_of_dec Dml) (enc_of_dec Dof) qs) in
  exists r0 ll r1 of r2 ml r3 vals rf,
    rbr_skip_padding (rbr_new bytes) = Some r0 /\
    fse_init_state Dll r0 = ROk (ll, r1) /\ fse_init_state Dof r1 = ROk (of, r2) /\ fse_init_state Dml r2 = ROk (ml, r3) /\
    seq_loop (length qs) (Z.of_nat (length qs)) (sc Dll Dml Dof) ll ml of r3 0 [] = ROk (rev vals, rf) /\
    Forall2 (fun q v => cseq_value q = Some v) qs vals /\
    rbr_bits_remaining rf = 0.
Proof.
  intros W1 W2 W3 C1 C2 C3. apply sequences_stream_roundtrip; apply derived_encoder_agrees; assumption.
Qed.
