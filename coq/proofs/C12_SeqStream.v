(** C12 / C16: the sequences bit stream.  The compressor writes, backwards, for each sequence the three state
    transitions and the three extra-bit fields, and finally the three start states ([encode_sequences] in
    encoding/blocks/compressed.rs); the decoder reads the stream from the end ([seq_loop]).  Theorem: for every list
    of coded sequences and every triple of encoder/decoder tables that AGREE (each encoder state is the decoder's
    entry at its index, and covers the state it is entered from -- a decidable property of two tables, validated on
    the real tables on every run), the decoder model returns exactly the sequences that were written, consuming the
    stream exactly.  Built on the inverse law of backward bit streams (C12_Stream.v). *)
Require Import Zrs.lib.RsPrelude Zrs.gen.Generated Zrs.model.BitIO Zrs.model.FseDec Zrs.model.HufDec Zrs.model.BlockDec.
Require Import Zrs.proofs.C12_Stream.
Open Scope Z_scope.

(** an encoder state of one symbol: its index in the decoding table, the width and base of the range it covers *)
Record enc_state := { es_index : Z; es_bits : nat; es_base : Z }.
Record enc_table := { et_start : Z -> enc_state; et_next : Z -> Z -> enc_state; et_log : nat }.

(** agreement of an encoder table with a decoding table on the symbols [syms] *)
Definition entry_is (D : fse_table) (sym : Z) (s : enc_state) : Prop :=
  0 <= es_index s < t_len D /\
  nth_e (t_decode D) (es_index s) = {| e_base := es_base s; e_bits := Z.of_nat (es_bits s); e_sym := sym |}.
Definition agree (D : fse_table) (E : enc_table) (syms : list Z) : Prop :=
  t_acc_log D = Z.of_nat (et_log E) /\ (0 < et_log E)%nat /\
  forall sym, In sym syms ->
    entry_is D sym (et_start E sym) /\
    forall idx, 0 <= idx < t_len D ->
      entry_is D sym (et_next E sym idx) /\
      es_base (et_next E sym idx) <= idx < es_base (et_next E sym idx) + 2 ^ Z.of_nat (es_bits (et_next E sym idx)).

(** a sequence as the compressor sees it after the value -> code mapping *)
Record cseq := { c_ll : Z; a_ll : Z; n_ll : nat; c_ml : Z; a_ml : Z; n_ml : nat; c_of : Z; a_of : Z }.
Definition cseq_ok (q : cseq) : Prop :=
  0 <= a_ll q < 2 ^ Z.of_nat (n_ll q) /\ 0 <= a_ml q < 2 ^ Z.of_nat (n_ml q) /\ 0 <= c_of q <= MAX_OFFSET_CODE /\
  0 <= a_of q < 2 ^ c_of q /\
  (exists b, lookup_ll_code (c_ll q) = ROk (b, Z.of_nat (n_ll q))) /\
  (exists b, lookup_ml_code (c_ml q) = ROk (b, Z.of_nat (n_ml q))).
Definition cseq_value (q : cseq) : option sequence :=
  match lookup_ll_code (c_ll q), lookup_ml_code (c_ml q) with
  | ROk (bl, _), ROk (bm, _) => Some {| sq_ll := bl + a_ll q; sq_ml := bm + a_ml q; sq_of := a_of q + 2 ^ c_of q |}
  | _, _ => None
  end.

Section Enc.
  Variables (Ell Eml Eof : enc_table).

  Definition extras (q : cseq) : list field :=
    [(a_ll q, n_ll q); (a_ml q, n_ml q); (a_of q, Z.to_nat (c_of q))].

  (** fields in write order for the sequences [qs] (decode order), and the state indices the decoder must hold when
      it starts on the head of [qs] *)
  Fixpoint enc_body (qs : list cseq) : Z * Z * Z * list field :=
    match qs with
    | [] => (0, 0, 0, [])
    | [q] => (es_index (et_start Ell (c_ll q)), es_index (et_start Eml (c_ml q)), es_index (et_start Eof (c_of q)), extras q)
    | q :: rest =>
        let '(sl, sm, so, fs) := enc_body rest in
        let nof := et_next Eof (c_of q) so in
        let nml := et_next Eml (c_ml q) sm in
        let nll := et_next Ell (c_ll q) sl in
        (es_index nll, es_index nml, es_index nof,
         fs ++ [(so - es_base nof, es_bits nof); (sm - es_base nml, es_bits nml); (sl - es_base nll, es_bits nll)] ++ extras q)
    end.

  Definition enc_fields (qs : list cseq) : list field :=
    let '(sl, sm, so, fs) := enc_body qs in
    fs ++ [(sm, et_log Eml); (so, et_log Eof); (sl, et_log Ell)].
End Enc.

Lemma fields_bits_snoc A v n : fields_bits (A ++ [(v, n)]) = fields_bits A ++ byte_bits_lsb n v.
Proof. rewrite fields_bits_app. unfold fields_bits at 2. cbn [flat_map fst snd]. rewrite app_nil_r. reflexivity. Qed.

Lemma read_last_field A v n : 0 <= v < 2 ^ Z.of_nat n ->
  rbr_get_bits (rd (rev (fields_bits (A ++ [(v, n)])))) (Z.of_nat n) = (v, rd (rev (fields_bits A))).
Proof. intros H. rewrite fields_bits_snoc. apply read_field. exact H. Qed.

Lemma snoc3 {T} (B : list T) f1 f2 f3 : B ++ [f1; f2; f3] = ((B ++ [f1]) ++ [f2]) ++ [f3].
Proof. rewrite <- !app_assoc. reflexivity. Qed.

Lemma rd_remaining s : rbr_bits_remaining (rd s) = Z.of_nat (length s).
Proof. unfold rbr_bits_remaining, rd. cbn. lia. Qed.

Section Dec.
  Variables (Ell Eml Eof : enc_table) (Dll Dml Dof : fse_table).
  Variable syms_ll syms_ml syms_of : list Z.
  Hypothesis All : agree Dll Ell syms_ll.
  Hypothesis Aml : agree Dml Eml syms_ml.
  Hypothesis Aof : agree Dof Eof syms_of.

  Definition sc : fse_scratch :=
    {| fs_of := Dof; fs_of_rle := None; fs_ll := Dll; fs_ll_rle := None; fs_ml := Dml; fs_ml_rle := None |}.

  Definition q_in (q : cseq) : Prop := In (c_ll q) syms_ll /\ In (c_ml q) syms_ml /\ In (c_of q) syms_of.

  Lemma update_reads D E syms sym (cur : enc_state) target A :
    agree D E syms -> In sym syms -> 0 <= target < t_len D -> cur = et_next E sym target ->
    fse_update_state D {| e_base := es_base cur; e_bits := Z.of_nat (es_bits cur); e_sym := sym |}
      (rd (rev (fields_bits (A ++ [(target - es_base cur, es_bits cur)]))))
    = ROk (nth_e (t_decode D) target, rd (rev (fields_bits A))).
  Proof.
    intros (Hlog & Hpos & Hag) Hin Ht ->. destruct (Hag sym Hin) as (_ & Hn). destruct (Hn target Ht) as ((Hi & He) & Hr).
    unfold fse_update_state. cbn [e_bits e_base].
    rewrite read_last_field by lia.
    replace (es_base (et_next E sym target) + (target - es_base (et_next E sym target))) with target by lia.
    destruct (Z.leb_spec (t_len D) target) as [|_]; [lia|]. reflexivity.
  Qed.

  Lemma init_reads D E syms (idx : Z) A : agree D E syms -> 0 <= idx < t_len D ->
    fse_init_state D (rd (rev (fields_bits (A ++ [(idx, et_log E)])))) = ROk (nth_e (t_decode D) idx, rd (rev (fields_bits A))).
  Proof.
    intros (Hlog & Hpos & _) Hi. unfold fse_init_state. rewrite Hlog.
    destruct (Z.eqb_spec (Z.of_nat (et_log E)) 0) as [|_]; [lia|].
    assert (Hl : t_len D = 2 ^ Z.of_nat (et_log E)).
    { unfold t_len. rewrite Hlog. destruct (Z.eqb_spec (Z.of_nat (et_log E)) 0); [lia|reflexivity]. }
    rewrite read_last_field by lia. destruct (Z.leb_spec (t_len D) idx) as [|_]; [lia|]. reflexivity.
  Qed.

  (** the loop: started in the states [enc_body] prescribes, on a stream that ends with the fields [enc_body] wrote,
      it returns the values of [qs] and leaves exactly what was written before *)
  Lemma seq_loop_reads qs : forall A total done acc sl sm so fs,
    qs <> [] -> Forall cseq_ok qs -> Forall q_in qs ->
    enc_body Ell Eml Eof qs = (sl, sm, so, fs) -> done + Z.of_nat (length qs) = total ->
    exists vals,
      Forall2 (fun q v => cseq_value q = Some v) qs vals /\
      seq_loop (length qs) total sc (nth_e (t_decode Dll) sl) (nth_e (t_decode Dml) sm) (nth_e (t_decode Dof) so)
               (rd (rev (fields_bits (A ++ fs)))) done acc
      = ROk (rev vals ++ acc, rd (rev (fields_bits A))) /\
      0 <= sl < t_len Dll /\ 0 <= sm < t_len Dml /\ 0 <= so < t_len Dof.
  Proof.
    induction qs as [|q rest IH]; intros A total done acc sl sm so fs Hne Hok Hin Eb Ht; [congruence|].
    inversion Hok as [|? ? Hq Hok']; subst. inversion Hin as [|? ? Hqi Hin']; subst.
    destruct Hq as (Hal & Ham & Hco & Hao & (bl & Ell_) & (bm & Eml_)). destruct Hqi as (Il & Im & Io).
    pose proof All as (Lll & Pll & Gll). pose proof Aml as (Lml & Pml & Gml). pose proof Aof as (Lof & Pof & Gof).
    (* the states we are in *)
    assert (Hst : exists cl cm co, entry_is Dll (c_ll q) cl /\ entry_is Dml (c_ml q) cm /\ entry_is Dof (c_of q) co /\
                  sl = es_index cl /\ sm = es_index cm /\ so = es_index co /\
                  match rest with
                  | [] => fs = extras q
                  | _ => exists sl' sm' so' fs', enc_body Ell Eml Eof rest = (sl', sm', so', fs') /\
                          cl = et_next Ell (c_ll q) sl' /\ cm = et_next Eml (c_ml q) sm' /\ co = et_next Eof (c_of q) so' /\
                          fs = fs' ++ [(so' - es_base co, es_bits co); (sm' - es_base cm, es_bits cm); (sl' - es_base cl, es_bits cl)] ++ extras q
                  end).
    { destruct rest as [|q2 rest2].
      - cbn [enc_body] in Eb. injection Eb as <- <- <- <-.
        exists (et_start Ell (c_ll q)), (et_start Eml (c_ml q)), (et_start Eof (c_of q)).
        split; [exact (proj1 (Gll _ Il))|]. split; [exact (proj1 (Gml _ Im))|]. split; [exact (proj1 (Gof _ Io))|].
        repeat split; reflexivity.
      - remember (q2 :: rest2) as r eqn:Er. cbn [enc_body] in Eb. rewrite Er in Eb. rewrite <- Er in Eb.
        destruct (enc_body Ell Eml Eof r) as [[[sl' sm'] so'] fs'] eqn:Er2.
        destruct (IH [] (0 + Z.of_nat (length r)) 0 [] sl' sm' so' fs' ltac:(rewrite Er; discriminate) Hok' Hin' eq_refl eq_refl) as (_ & _ & _ & Bl & Bm & Bo).
        injection Eb as <- <- <- <-.
        exists (et_next Ell (c_ll q) sl'), (et_next Eml (c_ml q) sm'), (et_next Eof (c_of q) so').
        split; [exact (proj1 (proj2 (Gll _ Il) _ Bl))|]. split; [exact (proj1 (proj2 (Gml _ Im) _ Bm))|]. split; [exact (proj1 (proj2 (Gof _ Io) _ Bo))|].
        split; [reflexivity|]. split; [reflexivity|]. split; [reflexivity|]. exists sl', sm', so', fs'. repeat split; reflexivity. }
    destruct Hst as (cl & cm & co & (Bl & El) & (Bm & Em) & (Bo & Eo) & -> & -> & -> & Hfs).
    cbn [length seq_loop]. unfold code_of. cbn [sc fs_ll_rle fs_ml_rle fs_of_rle fs_ll fs_ml fs_of].
    rewrite El, Em, Eo. cbn [e_sym]. rewrite Ell_, Eml_. cbn [rbind].
    destruct (Z.ltb_spec MAX_OFFSET_CODE (c_of q)) as [|_]; [lia|].
    assert (Hval : cseq_value q = Some {| sq_ll := bl + a_ll q; sq_ml := bm + a_ml q; sq_of := a_of q + 2 ^ c_of q |})
      by (unfold cseq_value; rewrite Ell_, Eml_; reflexivity).
    assert (Hofn : Z.of_nat (Z.to_nat (c_of q)) = c_of q) by lia.
    (* the three extra-bit fields are the last three fields of the stream *)
    assert (Hext : forall B, rbr_get_bits_triple (rd (rev (fields_bits (B ++ extras q)))) (c_of q) (Z.of_nat (n_ml q)) (Z.of_nat (n_ll q))
                             = (a_of q, a_ml q, a_ll q, rd (rev (fields_bits B)))).
    { intros B. unfold rbr_get_bits_triple, extras.
      remember (Z.to_nat (c_of q)) as k eqn:Hk. assert (Hck : c_of q = Z.of_nat k) by lia. rewrite Hck in Hao |- *.
      replace (B ++ [(a_ll q, n_ll q); (a_ml q, n_ml q); (a_of q, k)])
        with (((B ++ [(a_ll q, n_ll q)]) ++ [(a_ml q, n_ml q)]) ++ [(a_of q, k)]) by (rewrite <- !app_assoc; reflexivity).
      rewrite read_last_field by exact Hao.
      rewrite read_last_field by exact Ham. rewrite read_last_field by exact Hal. reflexivity. }
    destruct rest as [|q2 rest2].
    - (* the last sequence *)
      subst fs. rewrite Hext.
      destruct (Z.eqb_spec (a_of q + 2 ^ c_of q) 0) as [Hz|_]; [pose proof (Z.pow_pos_nonneg 2 (c_of q)); lia|].
      cbn [length]. destruct (Z.ltb_spec (done + 1) (done + Z.of_nat 1)) as [Hx|_]; [lia|]. cbn [rbind].
      rewrite rd_remaining. destruct (Z.ltb_spec (Z.of_nat (length (rev (fields_bits A)))) 0) as [|_]; [lia|].
      cbn [seq_loop]. eexists [_]. split; [constructor; [exact Hval|constructor]|]. split; [reflexivity|]. repeat split; lia.
    - destruct Hfs as (sl' & sm' & so' & fs' & Er2 & -> & -> & -> & ->).
      remember (q2 :: rest2) as r eqn:Er.
      destruct (IH A (done + Z.of_nat (length (q :: r))) (done + 1) ({| sq_ll := bl + a_ll q; sq_ml := bm + a_ml q; sq_of := a_of q + 2 ^ c_of q |} :: acc)
                   sl' sm' so' fs' ltac:(rewrite Er; discriminate) Hok' Hin' Er2) as (vals & Hv & Hloop & Bl' & Bm' & Bo').
      { cbn [length]. lia. }
      rewrite !app_assoc. rewrite Hext.
      destruct (Z.eqb_spec (a_of q + 2 ^ c_of q) 0) as [Hz|_]; [pose proof (Z.pow_pos_nonneg 2 (c_of q)); lia|].
      cbn [length]. destruct (Z.ltb_spec (done + 1) (done + Z.of_nat (S (length r)))) as [_|Hx]; [|rewrite Er in Hx; cbn [length] in Hx; lia].
      (* the three transitions, written of, ml, ll -> read ll, ml, of *)
      rewrite snoc3.
      rewrite (update_reads Dll Ell syms_ll (c_ll q) _ sl' _ All Il Bl' eq_refl). cbn [rbind].
      rewrite (update_reads Dml Eml syms_ml (c_ml q) _ sm' _ Aml Im Bm' eq_refl). cbn [rbind].
      rewrite (update_reads Dof Eof syms_of (c_of q) _ so' _ Aof Io Bo' eq_refl). cbn [rbind].
      rewrite rd_remaining. destruct (Z.ltb_spec (Z.of_nat (length (rev (fields_bits (A ++ fs'))))) 0) as [|_]; [lia|].
      cbn [length] in Hloop |- *. rewrite Hloop.
      exists ({| sq_ll := bl + a_ll q; sq_ml := bm + a_ml q; sq_of := a_of q + 2 ^ c_of q |} :: vals).
      split; [constructor; assumption|]. split; [cbn [rev]; rewrite <- app_assoc; reflexivity|]. repeat split; lia.
  Qed.
End Dec.

(** *** the whole sequences bit stream: what the compressor writes, read by the steps of [decode_sequences] *)
Section Whole.
  Variables (Ell Eml Eof : enc_table) (Dll Dml Dof : fse_table).
  Variable syms_ll syms_ml syms_of : list Z.
  Hypothesis All : agree Dll Ell syms_ll.
  Hypothesis Aml : agree Dml Eml syms_ml.
  Hypothesis Aof : agree Dof Eof syms_of.

  Theorem sequences_stream_roundtrip qs : qs <> [] -> Forall cseq_ok qs -> Forall (q_in syms_ll syms_ml syms_of) qs ->
    let bytes := stream_bytes (enc_fields Ell Eml Eof qs) in
    exists r0 ll r1 of r2 ml r3 vals rf,
      rbr_skip_padding (rbr_new bytes) = Some r0 /\
      fse_init_state Dll r0 = ROk (ll, r1) /\ fse_init_state Dof r1 = ROk (of, r2) /\ fse_init_state Dml r2 = ROk (ml, r3) /\
      seq_loop (length qs) (Z.of_nat (length qs)) (sc Dll Dml Dof) ll ml of r3 0 [] = ROk (rev vals, rf) /\
      Forall2 (fun q v => cseq_value q = Some v) qs vals /\
      rbr_bits_remaining rf = 0.
  Proof.
    intros Hne Hok Hin bytes. unfold bytes, enc_fields.
    destruct (enc_body Ell Eml Eof qs) as [[[sl sm] so] fs] eqn:Eb.
    destruct (seq_loop_reads Ell Eml Eof Dll Dml Dof syms_ll syms_ml syms_of All Aml Aof qs [] (0 + Z.of_nat (length qs)) 0 [] sl sm so fs Hne Hok Hin Eb eq_refl)
      as (vals & Hv & Hloop & Bl & Bm & Bo).
    set (F := fs ++ [(sm, et_log Eml); (so, et_log Eof); (sl, et_log Ell)]).
    assert (HF : Forall field_ok F \/ True) by (right; exact I).
    (* skipping the padding only needs the shape of the stream *)
    exists (rd (rev (fields_bits F))).
    assert (Hskip : rbr_skip_padding (rbr_new (stream_bytes F)) = Some (rd (rev (fields_bits F)))).
    { rewrite reader_of_stream. unfold stream_bits. rewrite rev_app_distr. cbn [rev]. rewrite <- app_assoc. cbn [app].
      unfold rbr_skip_padding. rewrite rev_repeat. apply skip_zeros.
      - pose proof (Nat.mod_upper_bound (length (fields_bits F)) 8 ltac:(lia)). lia.
      - lia. }
    exists (nth_e (t_decode Dll) sl), (rd (rev (fields_bits ((fs ++ [(sm, et_log Eml)]) ++ [(so, et_log Eof)])))),
           (nth_e (t_decode Dof) so), (rd (rev (fields_bits (fs ++ [(sm, et_log Eml)])))),
           (nth_e (t_decode Dml) sm), (rd (rev (fields_bits fs))), vals, (rd (rev (fields_bits []))).
    split; [exact Hskip|].
    split; [unfold F; rewrite snoc3; apply (init_reads Dll Ell syms_ll sl _ All Bl)|].
    split; [apply (init_reads Dof Eof syms_of so _ Aof Bo)|].
    split; [apply (init_reads Dml Eml syms_ml sm _ Aml Bm)|].
    cbn [app Z.add] in Hloop. rewrite app_nil_r in Hloop. split; [exact Hloop|]. split; [exact Hv|].
    rewrite rd_remaining. reflexivity.
  Qed.
End Whole.
