(** C06 / C08: the drain paths of the decode buffer hand out a prefix of the buffered bytes, exactly once, and feed
    exactly those bytes to the hasher -- for every sink behaviour and every position of the ring buffer's seam. *)
Require Import Zrs.lib.RsPrelude Zrs.model.BlockDec Zrs.model.FrameDec.
Open Scope Z_scope.

(** the buffered bytes, oldest first; the bytes hashed so far, in order *)
Definition db_all (b : dbuf) : list Z := rev (db_rev b).
Definition db_hashed (b : dbuf) : list Z := rev (db_hashed_rev b).
Definition db_wf (b : dbuf) : Prop := db_len b = Z.of_nat (length (db_rev b)).

Lemma rev'_rev {A} (l : list A) : rev' l = rev l.
Proof. unfold rev'. rewrite rev_append_rev, app_nil_r. reflexivity. Qed.

Lemma rev_append_rev' {A} (l m : list A) : rev_append l m = rev l ++ m.
Proof. apply rev_append_rev. Qed.

Lemma take_front_spec b n : db_wf b -> 0 <= n <= db_len b ->
  let '(out, b') := db_take_front b n in
  out ++ db_all b' = db_all b /\ db_hashed b' = db_hashed b ++ out /\
  db_len b' = db_len b - n /\ Z.of_nat (length out) = n /\ db_wf b' /\
  db_dict b' = db_dict b /\ db_window b' = db_window b /\ db_total_out b' = db_total_out b.
Proof.
  intros W Hn. unfold db_take_front, db_all, db_hashed, db_wf, take_z, drop_z in *. cbn [db_rev db_len db_hashed_rev db_dict db_window db_total_out].
  rewrite rev'_rev.
  set (k := Z.to_nat (db_len b - n)).
  assert (k <= length (db_rev b))%nat as Hk by (unfold k; lia).
  repeat split.
  - rewrite <- rev_app_distr. rewrite firstn_skipn. reflexivity.
  - rewrite rev_append_rev', rev_app_distr, rev_involutive. reflexivity.
  - rewrite rev_length, skipn_length. unfold k. lia.
  - rewrite firstn_length. unfold k. lia.
Qed.

(** any sink: [write_all_bytes] never reports more than it was offered *)
Section AnySink.
  Variable St : Type.
  Variable sstep : St -> Z -> sink_resp * St.

  Lemma write_all_bytes_bound fuel : forall st buflen written,
    0 <= written <= buflen ->
    let '(w, ok, st') := write_all_bytes St sstep fuel st buflen written in written <= w <= buflen.
  Proof.
    induction fuel as [|f IH]; intros st buflen written H; cbn [write_all_bytes]; [lia|].
    destruct (written <? buflen) eqn:E; [|lia].
    destruct (sstep st (buflen - written)) as [[n| |] st']; try lia.
    specialize (IH st' buflen (written + Z.min (Z.max n 1) (buflen - written)) ltac:(lia)).
    destruct (write_all_bytes St sstep f st' buflen (written + Z.min (Z.max n 1) (buflen - written))) as [[w ok] st''].
    lia.
  Qed.

  (** no byte is lost or duplicated, whatever the sink does and wherever the ring's seam is:
      what the sink received is a prefix of the buffer, and exactly that prefix left the buffer and was hashed *)
  Theorem drain_to_sink_spec b amount split st : db_wf b -> 0 <= amount <= db_len b ->
    let '(out, b', ok, st') := db_drain_to_sink St sstep b amount split st in
    out ++ db_all b' = db_all b /\ db_hashed b' = db_hashed b ++ out /\ db_wf b' /\
    Z.of_nat (length out) <= amount /\ db_len b' = db_len b - Z.of_nat (length out) /\
    db_dict b' = db_dict b /\ db_window b' = db_window b /\ db_total_out b' = db_total_out b.
  Proof.
    intros W Ha. unfold db_drain_to_sink.
    assert (forall n, 0 <= n <= amount ->
      let '(out, b') := db_take_front b n in
      out ++ db_all b' = db_all b /\ db_hashed b' = db_hashed b ++ out /\ db_wf b' /\
      Z.of_nat (length out) <= amount /\ db_len b' = db_len b - Z.of_nat (length out) /\
      db_dict b' = db_dict b /\ db_window b' = db_window b /\ db_total_out b' = db_total_out b) as TF.
    { intros n Hn. pose proof (take_front_spec b n W ltac:(lia)) as T.
      destruct (db_take_front b n) as [out b']. destruct T as (T1 & T2 & T3 & T4 & T5 & T6 & T7 & T8).
      repeat split; try assumption; lia. }
    destruct (amount =? 0) eqn:E0.
    { cbn. unfold db_all, db_hashed. rewrite app_nil_r. repeat split; try assumption; try lia. }
    set (s1 := if db_len b =? 0 then 0 else Z.min (Z.max split 1) (db_len b)).
    set (n1 := Z.min s1 amount). set (n2 := Z.min (db_len b - s1) (amount - n1)).
    assert (0 <= s1 <= db_len b) as Hs1 by (unfold s1; destruct (db_len b =? 0) eqn:?; lia).
    assert (0 <= n1 <= amount /\ 0 <= n2 /\ n1 + n2 <= amount) as (Hn1 & Hn2 & Hn12) by (unfold n1, n2; lia).
    destruct (n1 =? 0) eqn:E1.
    { cbn. unfold db_all, db_hashed. rewrite app_nil_r. repeat split; try assumption; try lia. }
    pose proof (write_all_bytes_bound (S (Z.to_nat n1)) st n1 0 ltac:(lia)) as B1.
    destruct (write_all_bytes St sstep (S (Z.to_nat n1)) st n1 0) as [[w1 ok1] st1].
    destruct ok1; cbn [negb].
    - destruct ((w1 =? n1) && negb (n2 =? 0)) eqn:E2.
      + pose proof (write_all_bytes_bound (S (Z.to_nat n2)) st1 n2 0 ltac:(lia)) as B2.
        destruct (write_all_bytes St sstep (S (Z.to_nat n2)) st1 n2 0) as [[w2 ok2] st2].
        specialize (TF (w1 + w2) ltac:(lia)). destruct (db_take_front b (w1 + w2)) as [out b']. exact TF.
      + specialize (TF w1 ltac:(lia)). destruct (db_take_front b w1) as [out b']. exact TF.
    - specialize (TF w1 ltac:(lia)). destruct (db_take_front b w1) as [out b']. exact TF.
  Qed.
End AnySink.

(** draining into memory *)
Lemma drain_amount_spec b amount : db_wf b -> 0 <= amount ->
  let '(out, b') := db_drain_amount b amount in
  out ++ db_all b' = db_all b /\ db_hashed b' = db_hashed b ++ out /\ db_wf b' /\
  Z.of_nat (length out) = Z.min amount (db_len b) /\ db_len b' = db_len b - Z.min amount (db_len b) /\
  db_dict b' = db_dict b /\ db_window b' = db_window b /\ db_total_out b' = db_total_out b.
Proof.
  intros W Ha. unfold db_drain_amount.
  assert (0 <= db_len b) as L by (unfold db_wf in W; lia).
  pose proof (take_front_spec b (Z.min amount (db_len b)) W ltac:(lia)) as T.
  destruct (db_take_front b (Z.min amount (db_len b))) as [out b'].
  destruct T as (T1 & T2 & T3 & T4 & T5 & T6 & T7 & T8). repeat split; assumption.
Qed.

(** a window-retaining read keeps at least [window] bytes (or everything, if there is less) *)
Lemma db_read_retains b n : db_wf b -> 0 <= n ->
  let '(out, b') := db_read b n in Z.min (db_window b) (db_len b) <= db_len b'.
Proof.
  intros W Hn. unfold db_read, db_can_drain_to_window.
  assert (0 <= db_len b) as L by (unfold db_wf in W; lia).
  destruct (db_window b <? db_len b) eqn:E.
  - pose proof (drain_amount_spec b (Z.min (db_len b - db_window b) n) W ltac:(lia)) as T.
    destruct (db_drain_amount b (Z.min (db_len b - db_window b) n)) as [out b'].
    destruct T as (_ & _ & _ & _ & T5 & _). lia.
  - pose proof (drain_amount_spec b (Z.min 0 n) W ltac:(lia)) as T.
    destruct (db_drain_amount b (Z.min 0 n)) as [out b'].
    destruct T as (_ & _ & _ & _ & T5 & _). lia.
Qed.
