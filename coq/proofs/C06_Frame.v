(** C06 / C05 / C08: decode_blocks and the drain entry points of the frame decoder as seen by the caller. *)
Require Import Zrs.lib.RsPrelude Zrs.gen.Generated Zrs.model.Headers Zrs.model.BitIO Zrs.model.FseDec Zrs.model.HufDec Zrs.model.BlockDec Zrs.model.FrameDec.
Require Import Zrs.proofs.C06_Drain Zrs.proofs.C05_Block.
Open Scope Z_scope.

(** *** decode_blocks as seen by the caller *)
Definition budget (strat : strategy) : Z :=
  match strat with SAll => 0 | SUptoBytes n => Z.max n 0 | SUptoBlocks k => MAX_BLOCK_SIZE * (Z.max k 1 - 1) end.

Theorem decode_blocks_spec d src strat d' rest fin s :
  fd_state d = Some s -> st_ok s -> bytes_ok src = true ->
  fdec_decode_blocks d src strat = ROk (d', rest, fin) ->
  exists s', fd_state d' = Some s' /\ st_ok s' /\ fd_dicts d' = fd_dicts d /\ fd_max_window d' = fd_max_window d /\
    db_same_meta (st_buf s) (st_buf s') /\ fr_header s' = fr_header s /\
    (* exact consumption *)
    fr_bytes_read s' - fr_bytes_read s = Z.of_nat (length src) - Z.of_nat (length rest) /\
    (* memory bound: what was asked for plus one block *)
    (strat <> SAll -> db_len (st_buf s') <= db_len (st_buf s) + budget strat + MAX_BLOCK_SIZE) /\
    db_len (st_buf s) <= db_len (st_buf s').
Proof.
  intros Hd Hs B H. unfold fdec_decode_blocks in H. rewrite Hd in H.
  bind_inv H. destruct a as [s' r]. injection H as Hd' Hr Hf. subst d' rest fin.
  destruct (decode_blocks_loop_inv _ _ _ _ _ _ _ _ Hs B E) as (I1 & I2 & I3 & I4 & I5 & I6 & I7).
  exists s'. cbn [fdec_with_state fd_state fd_dicts fd_max_window].
  split; [reflexivity|]. split; [exact I1|]. split; [reflexivity|]. split; [reflexivity|].
  split; [exact I2|]. split; [exact I3|]. split; [exact I4|]. split; [|exact I5].
  intros NS. specialize (I7 NS). unfold strat_bound, budget, st_buf in *.
  destruct strat; [exfalso; apply NS; reflexivity| |]; rewrite max_block_size_val in *.
  - replace (n - (fr_blocks s - fr_blocks s)) with n in I7 by lia.
    replace (131072 * (Z.max n 1 - 1) + 131072) with (131072 * Z.max 1 n) by lia. lia.
  - lia.
Qed.

(** *** the drain entry points of the frame decoder: a prefix of the buffer leaves it, is hashed, nothing else changes *)
Definition same_but_buf (s s' : fstate) : Prop :=
  fr_header s' = fr_header s /\ fr_finished s' = fr_finished s /\ fr_blocks s' = fr_blocks s /\
  fr_bytes_read s' = fr_bytes_read s /\ fr_checksum s' = fr_checksum s /\ fr_using_dict s' = fr_using_dict s /\
  sc_huf (fr_scratch s') = sc_huf (fr_scratch s) /\ sc_fse (fr_scratch s') = sc_fse (fr_scratch s) /\
  sc_hist (fr_scratch s') = sc_hist (fr_scratch s) /\
  db_dict (st_buf s') = db_dict (st_buf s) /\ db_window (st_buf s') = db_window (st_buf s) /\
  db_total_out (st_buf s') = db_total_out (st_buf s).

Definition drained (s s' : fstate) (out : list Z) : Prop :=
  same_but_buf s s' /\ st_ok s' /\
  out ++ db_all (st_buf s') = db_all (st_buf s) /\ db_hashed (st_buf s') = db_hashed (st_buf s) ++ out.

Lemma set_buf_drained s b out : st_ok s -> db_wf b ->
  out ++ db_all b = db_all (st_buf s) -> db_hashed b = db_hashed (st_buf s) ++ out ->
  db_dict b = db_dict (st_buf s) -> db_window b = db_window (st_buf s) -> db_total_out b = db_total_out (st_buf s) ->
  drained s (st_set_buf s b) out.
Proof.
  intros [W Hh] Wb A Hs D Wi T. unfold drained, same_but_buf, st_ok, scratch_ok, st_set_buf, st_buf. cbn.
  repeat split; assumption.
Qed.

Lemma wf_len_nonneg b : db_wf b -> 0 <= db_len b.
Proof. unfold db_wf. lia. Qed.

Theorem collect_spec d s out d' : fd_state d = Some s -> st_ok s -> fdec_collect d = (Some out, d') ->
  exists s', fd_state d' = Some s' /\ drained s s' out /\
    (st_is_finished s = false -> Z.min (db_window (st_buf s)) (db_len (st_buf s)) <= db_len (st_buf s')).
Proof.
  intros Hd Hs H. unfold fdec_collect in H. rewrite Hd in H. pose proof Hs as [W _]. fold (st_buf s) in W.
  pose proof (wf_len_nonneg _ W) as L.
  destruct (st_is_finished s) eqn:Ef.
  - unfold db_drain_all in H. pose proof (take_front_spec (st_buf s) (db_len (st_buf s)) W ltac:(lia)) as T.
    destruct (db_take_front (st_buf s) (db_len (st_buf s))) as [o b]. injection H as Ho Hd'. subst out d'.
    destruct T as (T1 & T2 & T3 & T4 & T5 & T6 & T7 & T8).
    eexists. split; [reflexivity|]. split; [apply set_buf_drained; assumption|]. discriminate.
  - unfold db_can_drain_to_window in H. destruct (db_window (st_buf s) <? db_len (st_buf s)) eqn:Ew; [|discriminate].
    pose proof (drain_amount_spec (st_buf s) (db_len (st_buf s) - db_window (st_buf s)) W ltac:(lia)) as T.
    destruct (db_drain_amount (st_buf s) (db_len (st_buf s) - db_window (st_buf s))) as [o b].
    injection H as Ho Hd'. subst out d'. destruct T as (T1 & T2 & T3 & T4 & T5 & T6 & T7 & T8).
    eexists. split; [reflexivity|]. split; [apply set_buf_drained; assumption|].
    intros _. unfold st_set_buf, st_buf. cbn. fold (st_buf s). lia.
Qed.

Theorem read_spec d s n out d' : fd_state d = Some s -> st_ok s -> 0 <= n -> fdec_read d n = (out, d') ->
  exists s', fd_state d' = Some s' /\ drained s s' out /\ Z.of_nat (length out) <= n /\
    (fr_finished s = false -> Z.min (db_window (st_buf s)) (db_len (st_buf s)) <= db_len (st_buf s')).
Proof.
  intros Hd Hs Hn H. unfold fdec_read in H. rewrite Hd in H. pose proof Hs as [W _]. fold (st_buf s) in W.
  pose proof (wf_len_nonneg _ W) as L.
  destruct (fr_finished s) eqn:Ef.
  - unfold db_read_all in H.
    pose proof (drain_amount_spec (st_buf s) (Z.min (db_len (st_buf s)) n) W ltac:(lia)) as T.
    destruct (db_drain_amount (st_buf s) (Z.min (db_len (st_buf s)) n)) as [o b].
    injection H as Ho Hd'. subst out d'. destruct T as (T1 & T2 & T3 & T4 & T5 & T6 & T7 & T8).
    eexists. split; [reflexivity|]. split; [apply set_buf_drained; assumption|]. split; [lia|discriminate].
  - pose proof (db_read_retains (st_buf s) n W Hn) as R. unfold db_read in *.
    set (amt := Z.min match db_can_drain_to_window (st_buf s) with Some x => x | None => 0 end n) in *.
    assert (0 <= amt) as Ha.
    { unfold amt, db_can_drain_to_window. destruct (db_window (st_buf s) <? db_len (st_buf s)) eqn:E; lia. }
    pose proof (drain_amount_spec (st_buf s) amt W Ha) as T.
    destruct (db_drain_amount (st_buf s) amt) as [o b].
    injection H as Ho Hd'. subst out d'. destruct T as (T1 & T2 & T3 & T4 & T5 & T6 & T7 & T8).
    eexists. split; [reflexivity|]. split; [apply set_buf_drained; assumption|]. split; [unfold amt in *; lia|].
    intros _. unfold st_set_buf, st_buf. cbn. fold (st_buf s). exact R.
Qed.

(** sinks of any behaviour *)
Theorem collect_to_writer_spec St (sstep : St -> Z -> sink_resp * St) d s split st out d' ok st' :
  fd_state d = Some s -> st_ok s -> 0 <= db_window (st_buf s) ->
  fdec_collect_to_writer sstep d split st = (out, d', ok, st') ->
  exists s', fd_state d' = Some s' /\ drained s s' out /\
    (st_is_finished s = false -> Z.min (db_window (st_buf s)) (db_len (st_buf s)) <= db_len (st_buf s')).
Proof.
  intros Hd Hs Hw H. unfold fdec_collect_to_writer in H. rewrite Hd in H. pose proof Hs as [W _]. fold (st_buf s) in W.
  pose proof (wf_len_nonneg _ W) as L.
  set (amount := if st_is_finished s then db_len (st_buf s)
                 else match db_can_drain_to_window (st_buf s) with Some n => n | None => 0 end) in *.
  assert (0 <= amount <= db_len (st_buf s) /\ (st_is_finished s = false -> amount <= db_len (st_buf s) - Z.min (db_window (st_buf s)) (db_len (st_buf s)))) as [Ha Hret].
  { unfold amount, db_can_drain_to_window. destruct (st_is_finished s); [split; [lia|intros X; discriminate X]|].
    destruct (db_window (st_buf s) <? db_len (st_buf s)) eqn:E; cbv beta iota; (split; [lia|intros _; lia]). }
  pose proof (drain_to_sink_spec St sstep (st_buf s) amount split st W Ha) as T.
  destruct (db_drain_to_sink St sstep (st_buf s) amount split st) as [[[o b] k] st2].
  injection H as Ho Hd' Hk Hst. subst out d' ok st'.
  destruct T as (T1 & T2 & T3 & T4 & T5 & T6 & T7 & T8).
  eexists. split; [reflexivity|]. split; [apply set_buf_drained; assumption|].
  intros Ef. specialize (Hret Ef). unfold st_set_buf, st_buf. cbn. fold (st_buf s). lia.
Qed.

Lemma drained_trans s s1 s2 o1 o2 : drained s s1 o1 -> drained s1 s2 o2 -> drained s s2 (o1 ++ o2).
Proof.
  intros ((A1&A2&A3&A4&A5&A6&A7&A8&A9&A10&A11&A12) & Ok1 & C1 & H1) ((B1&B2&B3&B4&B5&B6&B7&B8&B9&B10&B11&B12) & Ok2 & C2 & H2).
  split; [|split; [exact Ok2|split]].
  - unfold same_but_buf. repeat split; congruence.
  - rewrite <- app_assoc, C2. exact C1.
  - rewrite H2, H1, app_assoc. reflexivity.
Qed.

Lemma drained_refl s : st_ok s -> drained s s [].
Proof.
  intros Hs. unfold drained. split; [unfold same_but_buf; repeat split|]. split; [exact Hs|]. split; [reflexivity|].
  rewrite app_nil_r. reflexivity.
Qed.

(** *** any interleaving of drain calls, any sinks *)
Section DrainPrograms.
  Variable St : Type.
  Variable sstep : St -> Z -> sink_resp * St.

  Inductive dop := DCollect | DRead (n : Z) | DWrite (split : Z).

  Definition drain_step (d : fdec) (st : St) (o : dop) : list Z * fdec * St :=
    match o with
    | DCollect => let '(r, d') := fdec_collect d in (match r with Some l => l | None => [] end, d', st)
    | DRead n => let '(l, d') := fdec_read d (Z.max n 0) in (l, d', st)
    | DWrite split => let '(l, d', _, st') := fdec_collect_to_writer sstep d split st in (l, d', st')
    end.

  Fixpoint drain_run (d : fdec) (st : St) (ops : list dop) : list Z * fdec * St :=
    match ops with
    | [] => ([], d, st)
    | o :: t => let '(l1, d1, st1) := drain_step d st o in
                let '(l2, d2, st2) := drain_run d1 st1 t in (l1 ++ l2, d2, st2)
    end.

  Lemma drain_step_spec d s st o : fd_state d = Some s -> st_ok s -> 0 <= db_window (st_buf s) ->
    let '(l, d', st') := drain_step d st o in exists s', fd_state d' = Some s' /\ drained s s' l.
  Proof.
    intros Hd Hs Hw. destruct o as [|n|split]; cbn [drain_step].
    - destruct (fdec_collect d) as [[l|] d'] eqn:E.
      + destruct (collect_spec d s l d' Hd Hs E) as (s' & A & B & _). eauto.
      + unfold fdec_collect in E. rewrite Hd in E. destruct (st_is_finished s).
        * destruct (db_drain_all (st_buf s)). discriminate.
        * destruct (db_can_drain_to_window (st_buf s)); [destruct (db_drain_amount (st_buf s) z); discriminate|].
          injection E as <-. exists s. split; [exact Hd|apply drained_refl; exact Hs].
    - destruct (fdec_read d (Z.max n 0)) as [l d'] eqn:E.
      destruct (read_spec d s (Z.max n 0) l d' Hd Hs ltac:(lia) E) as (s' & A & B & _). eauto.
    - destruct (fdec_collect_to_writer sstep d split st) as [[[l d'] ok] st'] eqn:E.
      destruct (collect_to_writer_spec St sstep d s split st l d' ok st' Hd Hs Hw E) as (s' & A & B & _). eauto.
  Qed.

  Theorem drain_run_spec ops : forall d s st, fd_state d = Some s -> st_ok s -> 0 <= db_window (st_buf s) ->
    let '(l, d', st') := drain_run d st ops in exists s', fd_state d' = Some s' /\ drained s s' l.
  Proof.
    induction ops as [|o t IH]; intros d s st Hd Hs Hw; cbn [drain_run].
    - exists s. split; [exact Hd|apply drained_refl; exact Hs].
    - pose proof (drain_step_spec d s st o Hd Hs Hw) as S1.
      destruct (drain_step d st o) as [[l1 d1] st1]. destruct S1 as (s1 & Hd1 & D1).
      assert (0 <= db_window (st_buf s1)) as Hw1.
      { destruct D1 as ((_&_&_&_&_&_&_&_&_&_&W1&_) & _). rewrite W1. exact Hw. }
      destruct D1 as (SB1 & Ok1 & C1 & H1).
      pose proof (IH d1 s1 st1 Hd1 Ok1 Hw1) as S2.
      destruct (drain_run d1 st1 t) as [[l2 d2] st2]. destruct S2 as (s2 & Hd2 & D2).
      exists s2. split; [exact Hd2|]. eapply drained_trans; [|exact D2]. split; [exact SB1|split; [exact Ok1|split; assumption]].
  Qed.
End DrainPrograms.
