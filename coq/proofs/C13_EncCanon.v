(** C13: the compressor's canonical code ([build_from_weights] of huff0_encoder.rs) in closed form.
    Step 1: the list the encoder sorts -- symbols with a weight, by (weight, symbol) -- is the concatenation, over the
    weights 1, 2, ... in order, of the symbols of that weight in increasing order. *)
Require Import Zrs.lib.RsPrelude Zrs.model.HufEnc.
Open Scope Z_scope.

Definition lt_e (e h : Z * Z) : bool := (snd e <? snd h) || ((snd e =? snd h) && (fst e <? fst h)).

Lemma insert_past (e : Z * Z) A B : Forall (fun h => lt_e e h = false) A -> insert_sorted e (A ++ B) = A ++ insert_sorted e B.
Proof.
  induction A as [|h t IH]; intros H; [reflexivity|]. inversion H as [|? ? Hh Ht]; subst. cbn [app insert_sorted].
  unfold lt_e in Hh. rewrite Hh. rewrite IH by exact Ht. reflexivity.
Qed.
Lemma insert_here (e h : Z * Z) B : lt_e e h = true -> insert_sorted e (h :: B) = e :: h :: B.
Proof. intros H. cbn [insert_sorted]. unfold lt_e in H. rewrite H. reflexivity. Qed.

(** symbols of weight [w] among [ws] (numbered from [sym]), in increasing order *)
Fixpoint group (w : Z) (ws : list Z) (sym : Z) : list (Z * Z) :=
  match ws with
  | [] => []
  | x :: t => if x =? w then (sym, w) :: group w t (sym + 1) else group w t (sym + 1)
  end.
(** the groups of the weights lo+1 .. lo+n in order *)
Fixpoint groups (n : nat) (lo : Z) (ws : list Z) (sym : Z) : list (Z * Z) :=
  match n with O => [] | S k => group (lo + 1) ws sym ++ groups k (lo + 1) ws sym end.

Lemma group_syms w ws : forall sym e, In e (group w ws sym) -> snd e = w /\ sym <= fst e.
Proof.
  induction ws as [|x t IH]; intros sym e H; cbn [group] in H; [contradiction|].
  destruct (x =? w).
  - destruct H as [<-|H]; [cbn; lia|]. destruct (IH _ _ H). lia.
  - destruct (IH _ _ H). lia.
Qed.
Lemma groups_syms n : forall lo ws sym e, In e (groups n lo ws sym) -> lo < snd e <= lo + Z.of_nat n /\ sym <= fst e.
Proof.
  induction n as [|n IH]; intros lo ws sym e H; cbn [groups] in H; [contradiction|]. apply in_app_or in H as [H|H].
  - destruct (group_syms _ _ _ _ H). lia.
  - destruct (IH _ _ _ _ H). lia.
Qed.

Lemma groups_cons_other n : forall lo x t sym, ~ (lo < x <= lo + Z.of_nat n) -> groups n lo (x :: t) sym = groups n lo t (sym + 1).
Proof.
  induction n as [|n IH]; intros lo x t sym H; cbn [groups]; [reflexivity|]. cbn [group].
  destruct (Z.eqb_spec x (lo + 1)); [lia|]. rewrite IH by lia. reflexivity.
Qed.

(** inserting the entry of the next symbol (to the left) into the groups of the symbols to its right *)
Lemma insert_into_groups n : forall lo w t sym, lo < w <= lo + Z.of_nat n ->
  insert_sorted (sym, w) (groups n lo t (sym + 1)) = groups n lo (w :: t) sym.
Proof.
  induction n as [|n IH]; intros lo w t sym Hw; [lia|]. cbn [groups].
  destruct (Z.eq_dec w (lo + 1)) as [->|Hne].
  - (* this is the group of w: the new entry goes to its front *)
    cbn [group]. rewrite Z.eqb_refl. rewrite groups_cons_other by lia. cbn [app].
    destruct (group (lo + 1) t (sym + 1) ++ groups n (lo + 1) t (sym + 1)) as [|h B] eqn:E; [reflexivity|].
    assert (Hh : In h (group (lo + 1) t (sym + 1) ++ groups n (lo + 1) t (sym + 1))) by (rewrite E; left; reflexivity).
    rewrite insert_here; [reflexivity|]. unfold lt_e. cbn [fst snd]. apply in_app_or in Hh as [Hh|Hh].
    + destruct (group_syms _ _ _ _ Hh) as (A & B0). rewrite A, Z.ltb_irrefl, Z.eqb_refl. cbn [orb andb]. apply Z.ltb_lt. lia.
    + destruct (groups_syms _ _ _ _ _ Hh) as (A & B0). assert (lo + 1 <? snd h = true) as -> by (apply Z.ltb_lt; lia). reflexivity.
  - (* a heavier symbol: past the whole group lo+1 *)
    cbn [group]. destruct (Z.eqb_spec w (lo + 1)); [lia|].
    rewrite insert_past.
    + rewrite IH by lia. reflexivity.
    + apply Forall_forall. intros h Hh. destruct (group_syms _ _ _ _ Hh) as (A & B0). unfold lt_e. cbn [fst snd]. rewrite A.
      assert (w <? lo + 1 = false) as -> by (apply Z.ltb_ge; lia). assert (w =? lo + 1 = false) as -> by lia. reflexivity.
Qed.

Theorem sorted_entries_groups n ws : forall sym, Forall (fun w => 0 <= w <= Z.of_nat n) ws ->
  sorted_entries ws sym = groups n 0 ws sym.
Proof.
  induction ws as [|w t IH]; intros sym H; cbn [sorted_entries].
  - clear. generalize 0. induction n as [|n IHn]; intros lo; cbn [groups group]; [reflexivity|]. rewrite <- IHn. reflexivity.
  - inversion H as [|? ? Hw Ht]; subst. rewrite IH by exact Ht.
    destruct (Z.ltb_spec 0 w) as [Hpos|Hz].
    + apply insert_into_groups. lia.
    + assert (w = 0) by lia. subst w. rewrite groups_cons_other by lia. reflexivity.
Qed.

(** Step 2: what the code-assignment walk gives each symbol.  [acode]: the (code, length) the walk assigns to [s] *)
Fixpoint acode (es : list (Z * Z)) (max_bits cur_code cur_weight cur_bits : Z) (s : Z) : option (Z * Z) :=
  match es with
  | [] => None
  | (sym, w) :: t =>
      let '(cc, cb, cw) :=
        if negb (cur_weight =? w) then (cur_code / 2 ^ (w - cur_weight), max_bits - w + 1, w)
        else (cur_code, cur_bits, cur_weight) in
      if sym =? s then Some (cc, cb) else acode t max_bits (cc + 1) cw cb s
  end.

Lemma nth_firstn_lt {A} (d : A) : forall i j (l : list A), (j < i)%nat -> nth j (firstn i l) d = nth j l d.
Proof. induction i as [|i IH]; intros j l H; [lia|]. destruct l as [|x t]; [destruct j; reflexivity|]. destruct j; cbn [firstn nth]; [reflexivity|]. apply IH. lia. Qed.
Lemma nth_skipn_add {A} (d : A) : forall n k (l : list A), nth k (skipn n l) d = nth (n + k) l d.
Proof. induction n as [|n IH]; intros k l; [reflexivity|]. destruct l as [|x t]; [destruct k; reflexivity|]. cbn [skipn Nat.add nth]. apply IH. Qed.

Lemma upd_via_firstn {A} (l : list A) (i : nat) (v d : A) (j : nat) : (i < length l)%nat ->
  nth j (firstn i l ++ [v] ++ skipn (S i) l) d = if Nat.eqb j i then v else nth j l d.
Proof.
  intros Hi. destruct (Nat.eqb_spec j i) as [->|Hne].
  - rewrite app_nth2 by (rewrite firstn_length; lia). rewrite firstn_length, Nat.min_l by lia. rewrite Nat.sub_diag. reflexivity.
  - destruct (Nat.lt_ge_cases j i) as [Hlt|Hge].
    + rewrite app_nth1 by (rewrite firstn_length; lia). apply nth_firstn_lt. exact Hlt.
    + rewrite app_nth2 by (rewrite firstn_length; lia). rewrite firstn_length, Nat.min_l by lia.
      destruct (j - i)%nat as [|k] eqn:Ek; [lia|]. cbn [app nth]. rewrite nth_skipn_add. f_equal. lia.
Qed.

Lemma assign_enc_nth es : forall M cc cw cb codes s d,
  NoDup (map fst es) -> Forall (fun e => 0 <= fst e < Z.of_nat (length codes)) es -> 0 <= s ->
  nth (Z.to_nat s) (assign_enc es M cc cw cb codes) d =
    match acode es M cc cw cb s with Some c => c | None => nth (Z.to_nat s) codes d end.
Proof.
  induction es as [|[sym w] t IH]; intros M cc cw cb codes s d Hnd Hr Hs; cbn [assign_enc acode]; [reflexivity|].
  cbn [map fst] in Hnd. inversion Hnd as [|? ? Hnotin Hnd']; subst. inversion Hr as [|? ? Hsym Hr']; subst. cbn [fst] in Hsym.
  destruct (if negb (cw =? w) then (cc / 2 ^ (w - cw), M - w + 1, w) else (cc, cb, cw)) as [[cc1 cb1] cw1] eqn:Est.
  set (codes1 := firstn (Z.to_nat sym) codes ++ [(cc1, cb1)] ++ skipn (S (Z.to_nat sym)) codes).
  assert (L1 : length codes1 = length codes).
  { unfold codes1. rewrite !app_length, firstn_length, skipn_length. cbn [length]. lia. }
  rewrite IH; [|exact Hnd'|rewrite L1; exact Hr'|exact Hs].
  destruct (Z.eqb_spec sym s) as [->|Hne].
  - (* later entries do not touch this symbol *)
    assert (Hn : acode t M (cc1 + 1) cw1 cb1 s = None).
    { clear - Hnotin. revert Hnotin. generalize (cc1 + 1) cw1 cb1. induction t as [|[y v] u IHu]; intros a b c Hn; [reflexivity|]. cbn [acode].
      destruct (if negb (b =? v) then _ else _) as [[p q] r]. destruct (Z.eqb_spec y s) as [->|]; [exfalso; apply Hn; left; reflexivity|].
      apply IHu. intros H. apply Hn. right. exact H. }
    rewrite Hn. unfold codes1. rewrite upd_via_firstn by lia. rewrite Nat.eqb_refl. reflexivity.
  - destruct (acode t M (cc1 + 1) cw1 cb1 s); [reflexivity|].
    unfold codes1. rewrite upd_via_firstn by lia. destruct (Nat.eqb_spec (Z.to_nat s) (Z.to_nat sym)); [lia|reflexivity].
Qed.

Require Import Zrs.proofs.C03_HufTable.

(** inside a group (the walk already is at this weight): the j-th symbol of the group gets the j-th next code *)
Lemma acode_same w M cb ws : forall sym cc rest s,
  acode (group w ws sym ++ rest) M cc w cb s =
    if (sym <=? s) && (s <? sym + Z.of_nat (length ws)) && (nth (Z.to_nat (s - sym)) ws (w - 1) =? w)
    then Some (cc + cnt w (firstn (Z.to_nat (s - sym)) ws), cb)
    else acode rest M (cc + cnt w ws) w cb s.
Proof.
  induction ws as [|x t IH]; intros sym cc rest s; cbn [group app length].
  - replace (cnt w []) with 0 by reflexivity. cbn [Z.of_nat]. rewrite !Z.add_0_r.
    destruct (Z.leb_spec sym s); destruct (Z.ltb_spec s sym); cbn [andb]; try reflexivity; lia.
  - cbn [cnt]. destruct (Z.eqb_spec x w) as [->|Hne].
    + cbn [app acode]. rewrite Z.eqb_refl. cbn [negb].
      destruct (Z.eqb_spec sym s) as [->|Hs].
      * replace (s - s) with 0 by lia. cbn [Z.to_nat nth firstn cnt]. rewrite Z.eqb_refl, Z.leb_refl.
        assert (s <? s + Z.of_nat (S (length t)) = true) as -> by (apply Z.ltb_lt; lia). cbn [andb]. rewrite Z.add_0_r. reflexivity.
      * rewrite IH. destruct (Z.leb_spec (sym + 1) s) as [Hge|Hlt].
        -- assert (sym <=? s = true) as -> by (apply Z.leb_le; lia).
           replace (sym + 1 + Z.of_nat (length t)) with (sym + Z.of_nat (S (length t))) by lia.
           replace (Z.to_nat (s - sym)) with (S (Z.to_nat (s - (sym + 1)))) by lia. cbn [nth firstn cnt]. rewrite Z.eqb_refl.
           destruct (s <? sym + Z.of_nat (S (length t))); cbn [andb]; [|f_equal; lia].
           destruct (nth (Z.to_nat (s - (sym + 1))) t (w - 1) =? w); [f_equal; f_equal; lia|f_equal; lia].
        -- cbn [andb]. destruct (Z.leb_spec sym s); [lia|]. cbn [andb]. f_equal; lia.
    + destruct (Z.eqb_spec sym s) as [->|Hs].
      * rewrite IH. replace (s - s) with 0 by lia. cbn [Z.to_nat nth]. destruct (Z.eqb_spec x w); [lia|]. rewrite andb_false_r.
        destruct (Z.leb_spec (s + 1) s); [lia|]. cbn [andb]. f_equal; lia.
      * rewrite IH. destruct (Z.leb_spec (sym + 1) s) as [Hge|Hlt].
        -- assert (sym <=? s = true) as -> by (apply Z.leb_le; lia).
           replace (sym + 1 + Z.of_nat (length t)) with (sym + Z.of_nat (S (length t))) by lia.
           replace (Z.to_nat (s - sym)) with (S (Z.to_nat (s - (sym + 1)))) by lia. cbn [nth firstn cnt].
           destruct (Z.eqb_spec x w); [lia|]. cbn [Z.add]. 
           destruct (s <? sym + Z.of_nat (S (length t))); cbn [andb]; [|f_equal; lia].
           destruct (nth (Z.to_nat (s - (sym + 1))) t (w - 1) =? w); [f_equal; f_equal; lia|f_equal; lia].
        -- cbn [andb]. destruct (Z.leb_spec sym s); [lia|]. cbn [andb]. f_equal; lia.
Qed.

Lemma acode_enter sym w t M cc cw cb s : cw <> w ->
  acode ((sym, w) :: t) M cc cw cb s = acode ((sym, w) :: t) M (cc / 2 ^ (w - cw)) w (M - w + 1) s.
Proof. intros H. cbn [acode]. destruct (Z.eqb_spec cw w); [lia|]. rewrite Z.eqb_refl. reflexivity. Qed.

Lemma group_empty w ws : forall sym, cnt w ws = 0 -> group w ws sym = [].
Proof.
  induction ws as [|x t IH]; intros sym H; [reflexivity|]. cbn [group cnt] in *. pose proof (cnt_nonneg w t).
  destruct (Z.eqb_spec x w); [lia|]. apply IH. lia.
Qed.
Lemma group_nonempty w ws : forall sym, 0 < cnt w ws -> exists e t, group w ws sym = e :: t /\ snd e = w.
Proof.
  induction ws as [|x t IH]; intros sym H; [cbn in H; lia|]. cbn [group cnt] in *.
  destruct (Z.eqb_spec x w); [eexists _, _; split; reflexivity|]. apply IH. lia.
Qed.

(** total weight (in units of 2^0 for weight 1) of the symbols of weight at most n *)
Fixpoint below (n : nat) (W : list Z) : Z :=
  match n with O => 0 | S k => below k W + cnt (Z.of_nat k + 1) W * 2 ^ Z.of_nat k end.

Lemma acode_groups W M n : forall l0 cc cw cb s,
  0 <= cw <= Z.of_nat l0 -> cc * 2 ^ cw = 2 * below l0 W ->
  (forall k, (l0 <= k < l0 + n)%nat -> 0 < cnt (Z.of_nat k + 1) W -> below k W mod 2 ^ Z.of_nat k = 0) ->
  0 <= s ->
  acode (groups n (Z.of_nat l0) W 0) M cc cw cb s =
    let w := nth (Z.to_nat s) W (-1) in
    if (s <? Z.of_nat (length W)) && (Z.of_nat l0 <? w) && (w <=? Z.of_nat l0 + Z.of_nat n)
    then Some (below (Z.to_nat (w - 1)) W / 2 ^ (w - 1) + cnt w (firstn (Z.to_nat s) W), M - w + 1)
    else None.
Proof.
  induction n as [|n IH]; intros l0 cc cw cb s Hcw Hinv Hdiv Hs; cbn [groups].
  - cbv zeta. cbn [acode]. destruct (s <? Z.of_nat (length W)); cbn [andb]; [|reflexivity].
    destruct (Z.ltb_spec (Z.of_nat l0) (nth (Z.to_nat s) W (-1))); cbn [andb]; [|reflexivity].
    destruct (Z.leb_spec (nth (Z.to_nat s) W (-1)) (Z.of_nat l0 + Z.of_nat 0)); [lia|reflexivity].
  - replace (Z.of_nat l0 + 1) with (Z.of_nat (S l0)) by lia. set (w := Z.of_nat (S l0)). assert (Ew : w = Z.of_nat l0 + 1) by (unfold w; lia).
    pose proof (cnt_nonneg w W) as Hc0.
    assert (P : 0 < 2 ^ Z.of_nat l0) by (apply Z.pow_pos_nonneg; lia).
    assert (Ebelow : below (S l0) W = below l0 W + cnt w W * 2 ^ Z.of_nat l0) by (cbn [below]; rewrite <- Ew; reflexivity).
    destruct (Z.eq_dec (cnt w W) 0) as [Ez|Enz].
    + (* nobody has this weight *)
      rewrite (group_empty w W 0 Ez). cbn [app].
      unfold w at 1. rewrite (IH (S l0) cc cw cb s ltac:(lia) ltac:(rewrite Ebelow, Ez; lia) ltac:(intros k Hk; apply Hdiv; lia) Hs).
      cbv zeta. destruct (Z.ltb_spec s (Z.of_nat (length W))) as [Hlt|]; cbn [andb]; [|reflexivity].
      set (ws := nth (Z.to_nat s) W (-1)).
      assert (Hne : ws <> w).
      { intros E. assert (0 < cnt w W); [|lia]. unfold ws in E. rewrite <- E.
        clear - Hlt Hs. revert s Hlt Hs. induction W as [|x t IHt]; intros s Hlt Hs; [cbn in Hlt; lia|].
        destruct (Z.to_nat s) as [|k] eqn:Ek; cbn [nth cnt].
        - rewrite Z.eqb_refl. pose proof (cnt_nonneg x t). lia.
        - specialize (IHt (Z.of_nat k) ltac:(cbn [length] in Hlt; lia) ltac:(lia)). rewrite Nat2Z.id in IHt.
          destruct (x =? nth k t (-1)); lia. }
      fold w. destruct (Z.ltb_spec (Z.of_nat l0) ws); destruct (Z.ltb_spec w ws); cbn [andb]; try reflexivity; try lia;
        try (replace (w + Z.of_nat n) with (Z.of_nat l0 + Z.of_nat (S n)) by lia; reflexivity);
        try (destruct (Z.leb_spec ws (Z.of_nat l0 + Z.of_nat (S n))); [lia|reflexivity]).
    + (* the group of weight w *)
      destruct (group_nonempty w W 0 ltac:(lia)) as ([sy wy] & t & Eg & Ewy). cbn [snd] in Ewy. subst wy.
      rewrite Eg. cbn [app]. rewrite acode_enter by lia.
      change ((sy, w) :: t ++ groups n w W 0) with (((sy, w) :: t) ++ groups n w W 0). rewrite <- Eg.
      rewrite acode_same.
      (* the first code of the group *)
      pose proof (Hdiv l0 ltac:(lia)) as Hd0. rewrite <- Ew in Hd0. specialize (Hd0 ltac:(lia)).
      apply Z.mod_divide in Hd0; [|lia]. destruct Hd0 as (q & Eq).
      assert (E2w : 2 ^ w = 2 * 2 ^ Z.of_nat l0) by (rewrite Ew, Z.pow_add_r by lia; change (2 ^ 1) with 2; lia).
      assert (Pc : 0 < 2 ^ cw) by (apply Z.pow_pos_nonneg; lia).
      assert (Ecc : cc / 2 ^ (w - cw) = q).
      { assert (E3 : 2 ^ w = 2 ^ (w - cw) * 2 ^ cw) by (rewrite <- Z.pow_add_r by lia; f_equal; lia).
        assert (P3 : 0 < 2 ^ (w - cw)) by (apply Z.pow_pos_nonneg; lia).
        assert (cc = q * 2 ^ (w - cw)) by nia. subst cc. apply Z.div_mul. lia. }
      rewrite Ecc. cbv zeta. rewrite Z.sub_0_r, Z.add_0_l.
      assert (Hq : q = below l0 W / 2 ^ Z.of_nat l0) by (rewrite Eq; symmetry; apply Z.div_mul; lia).
      set (ws := nth (Z.to_nat s) W (-1)).
      assert (Hin : nth (Z.to_nat s) W (w - 1) =? w = ((s <? Z.of_nat (length W)) && (ws =? w))).
      { destruct (Z.ltb_spec s (Z.of_nat (length W))) as [Hlt|Hge]; cbn [andb].
        - unfold ws. rewrite (nth_indep W (w - 1) (-1)) by lia. reflexivity.
        - rewrite nth_overflow by lia. apply Z.eqb_neq. lia. }
      rewrite Hin. assert (0 <=? s = true) as -> by (apply Z.leb_le; exact Hs). cbn [andb].
      destruct (Z.ltb_spec s (Z.of_nat (length W))) as [Hlt|Hge]; cbn [andb].
      * destruct (Z.eqb_spec ws w) as [Ews|Nws].
        -- rewrite Ews. assert (Z.of_nat l0 <? w = true) as -> by (apply Z.ltb_lt; lia).
           assert (w <=? Z.of_nat l0 + Z.of_nat (S n) = true) as -> by (apply Z.leb_le; lia). cbn [andb].
           replace (Z.to_nat (w - 1)) with l0 by lia. replace (w - 1) with (Z.of_nat l0) by lia. rewrite Hq. reflexivity.
        -- change (groups n w W 0) with (groups n (Z.of_nat (S l0)) W 0). rewrite (IH (S l0) (q + cnt w W) w (M - w + 1) s ltac:(lia) ltac:(rewrite Ebelow; nia) ltac:(intros k Hk; apply Hdiv; lia) Hs).
           cbv zeta. fold ws. fold w. assert (s <? Z.of_nat (length W) = true) as -> by (apply Z.ltb_lt; exact Hlt). cbn [andb].
           destruct (Z.ltb_spec (Z.of_nat l0) ws); destruct (Z.ltb_spec w ws); cbn [andb]; try reflexivity; try lia;
             try (replace (w + Z.of_nat n) with (Z.of_nat l0 + Z.of_nat (S n)) by lia; reflexivity);
             try (destruct (Z.leb_spec ws (Z.of_nat l0 + Z.of_nat (S n))); [lia|reflexivity]).
      * change (groups n w W 0) with (groups n (Z.of_nat (S l0)) W 0). rewrite (IH (S l0) (q + cnt w W) w (M - w + 1) s ltac:(lia) ltac:(rewrite Ebelow; nia) ltac:(intros k Hk; apply Hdiv; lia) Hs).
        cbv zeta. assert (s <? Z.of_nat (length W) = false) as -> by (apply Z.ltb_ge; exact Hge). reflexivity.
Qed.

(** the groups mention every symbol at most once, with its own weight *)
Lemma group_spec w ws : forall sym e, In e (group w ws sym) ->
  snd e = w /\ sym <= fst e < sym + Z.of_nat (length ws) /\ nth (Z.to_nat (fst e - sym)) ws (w - 1) = w.
Proof.
  induction ws as [|x t IH]; intros sym e H; cbn [group] in H; [contradiction|]. cbn [length].
  destruct (Z.eqb_spec x w) as [->|Hne].
  - destruct H as [<-|H].
    + cbn [fst snd]. replace (sym - sym) with 0 by lia. cbn. repeat split; lia.
    + destruct (IH _ _ H) as (A & B & C). split; [exact A|]. split; [lia|].
      replace (Z.to_nat (fst e - sym)) with (S (Z.to_nat (fst e - (sym + 1)))) by lia. exact C.
  - destruct (IH _ _ H) as (A & B & C). split; [exact A|]. split; [lia|].
    replace (Z.to_nat (fst e - sym)) with (S (Z.to_nat (fst e - (sym + 1)))) by lia. exact C.
Qed.
Lemma group_nodup w ws : forall sym, NoDup (map fst (group w ws sym)).
Proof.
  induction ws as [|x t IH]; intros sym; cbn [group]; [constructor|]. destruct (x =? w); [|apply IH].
  cbn [map fst]. constructor; [|apply IH]. intros H. apply in_map_iff in H as (e & E & He). destruct (group_spec _ _ _ _ He) as (_ & B & _). lia.
Qed.
Lemma groups_spec n : forall lo ws sym e, In e (groups n lo ws sym) ->
  lo < snd e <= lo + Z.of_nat n /\ sym <= fst e < sym + Z.of_nat (length ws) /\ nth (Z.to_nat (fst e - sym)) ws (snd e - 1) = snd e.
Proof.
  induction n as [|n IH]; intros lo ws sym e H; cbn [groups] in H; [contradiction|]. apply in_app_or in H as [H|H].
  - destruct (group_spec _ _ _ _ H) as (A & B & C). rewrite A. split; [lia|]. split; [exact B|exact C].
  - destruct (IH _ _ _ _ H) as (A & B & C). split; [lia|]. split; assumption.
Qed.
Lemma NoDup_app_intro {A} (a b : list A) : NoDup a -> NoDup b -> (forall x, In x a -> In x b -> False) -> NoDup (a ++ b).
Proof.
  induction a as [|x t IH]; intros Ha Hb Hd; [exact Hb|]. inversion Ha as [|? ? Hn Ht]; subst. cbn [app]. constructor.
  - intros H. apply in_app_or in H as [H|H]; [contradiction|]. apply (Hd x); [left; reflexivity|exact H].
  - apply IH; [exact Ht|exact Hb|]. intros y Hy1 Hy2. apply (Hd y); [right; exact Hy1|exact Hy2].
Qed.
Lemma groups_nodup n : forall lo ws sym, NoDup (map fst (groups n lo ws sym)).
Proof.
  induction n as [|n IH]; intros lo ws sym; cbn [groups]; [constructor|]. rewrite map_app.
  apply NoDup_app_intro; [apply group_nodup|apply IH|].
  intros x Hx Hy. apply in_map_iff in Hx as (e1 & E1 & H1). apply in_map_iff in Hy as (e2 & E2 & H2).
  destruct (group_spec _ _ _ _ H1) as (A1 & B1 & C1). destruct (groups_spec _ _ _ _ _ H2) as (A2 & B2 & C2).
  rewrite E1 in C1. rewrite E2 in C2. 
  assert (L : (Z.to_nat (x - sym) < length ws)%nat) by lia.
  rewrite (nth_indep ws _ 0 L) in C1. rewrite (nth_indep ws _ 0 L) in C2. lia.
Qed.

(** *** Kraft sum and divisibility *)
Lemma below_cons n : forall x t, below n (x :: t) = below n t + (if (0 <? x) && (x <=? Z.of_nat n) then 2 ^ (x - 1) else 0).
Proof.
  induction n as [|n IH]; intros x t; cbn [below].
  - destruct (Z.ltb_spec 0 x); destruct (Z.leb_spec x (Z.of_nat 0)); cbn [andb]; lia.
  - rewrite IH. cbn [cnt]. destruct (Z.eqb_spec x (Z.of_nat n + 1)) as [E|Ne].
    + assert ((0 <? x) && (x <=? Z.of_nat n) = false) as -> by lia. assert ((0 <? x) && (x <=? Z.of_nat (S n)) = true) as -> by lia.
      replace (x - 1) with (Z.of_nat n) by lia. lia.
    + destruct (Z.ltb_spec 0 x); destruct (Z.leb_spec x (Z.of_nat n)); destruct (Z.leb_spec x (Z.of_nat (S n))); cbn [andb]; lia.
Qed.
Lemma kraft_below n W : Forall (fun w => 0 <= w <= Z.of_nat n) W -> kraft W = below n W.
Proof.
  induction 1 as [|x t Hx Ht IH]; [clear; induction n as [|n IHn]; cbn [below cnt kraft fold_right] in *; lia|].
  rewrite below_cons, <- IH. unfold kraft. cbn [fold_right]. assert (x <=? Z.of_nat n = true) as -> by lia. rewrite andb_true_r. lia.
Qed.
Lemma below_nonneg n W : 0 <= below n W.
Proof. induction n as [|n IH]; cbn [below]; [lia|]. pose proof (cnt_nonneg (Z.of_nat n + 1) W). pose proof (Z.pow_nonneg 2 (Z.of_nat n) ltac:(lia)). nia. Qed.
Lemma below_split W k : forall d, exists q, 0 <= q /\ below (k + d) W = below k W + q * 2 ^ Z.of_nat k /\ (0 < cnt (Z.of_nat k + 1) W -> (0 < d)%nat -> 1 <= q).
Proof.
  induction d as [|d (q & Hq & E & Hpos)].
  - exists 0. rewrite Nat.add_0_r. split; [lia|]. split; [lia|lia].
  - replace (k + S d)%nat with (S (k + d)) by lia. cbn [below]. rewrite E.
    pose proof (cnt_nonneg (Z.of_nat (k + d) + 1) W) as Hc.
    exists (q + cnt (Z.of_nat (k + d) + 1) W * 2 ^ Z.of_nat d). 
    assert (P : 0 < 2 ^ Z.of_nat d) by (apply Z.pow_pos_nonneg; lia).
    split; [nia|]. split.
    + rewrite Nat2Z.inj_add, Z.pow_add_r by lia. lia.
    + intros Hk _. destruct d as [|d']; [rewrite Nat.add_0_r in *; cbn [Z.of_nat] in *; change (2 ^ 0) with 1 in *; lia|specialize (Hpos Hk ltac:(lia)); nia].
Qed.

Lemma kraft_divides W n M : Forall (fun w => 0 <= w <= Z.of_nat n) W -> kraft W = 2 ^ M -> 0 <= M ->
  forall k, (k < n)%nat -> 0 < cnt (Z.of_nat k + 1) W -> below k W mod 2 ^ Z.of_nat k = 0.
Proof.
  intros Hw Hk HM k Hkn Hc. rewrite (kraft_below n W Hw) in Hk.
  destruct (below_split W k (n - k)) as (q & Hq & E & Hpos). replace (k + (n - k))%nat with n in E by lia. specialize (Hpos Hc ltac:(lia)).
  assert (P : 0 < 2 ^ Z.of_nat k) by (apply Z.pow_pos_nonneg; lia).
  pose proof (below_nonneg k W) as B0.
  (* M >= k because the total is at least 2^k *)
  assert (HMk : Z.of_nat k <= M).
  { destruct (Z.le_gt_cases (Z.of_nat k) M) as [|Hlt]; [assumption|]. exfalso.
    assert (2 ^ M < 2 ^ Z.of_nat k) by (apply Z.pow_lt_mono_r; lia). nia. }
  assert (E2 : 2 ^ M = 2 ^ (M - Z.of_nat k) * 2 ^ Z.of_nat k) by (rewrite <- Z.pow_add_r by lia; f_equal; lia).
  apply Z.mod_divide; [lia|]. exists (2 ^ (M - Z.of_nat k) - q). lia.
Qed.

(** *** the compressor's code in closed form *)
Theorem enc_codes_closed_form W nmax codes : Forall (fun w => 0 <= w <= Z.of_nat nmax) W ->
  enc_build_from_weights W = ROk codes ->
  forall s, 0 <= s < Z.of_nat (length W) -> let w := nth (Z.to_nat s) W (-1) in 0 < w ->
    nth (Z.to_nat s) codes (0, 0) =
      (below (Z.to_nat (w - 1)) W / 2 ^ (w - 1) + cnt w (firstn (Z.to_nat s) W), Z.log2 (kraft W) - w + 1).
Proof.
  intros Hw Hb s Hs w Hpos. unfold enc_build_from_weights in Hb.
  destruct (is_pow2z (kraft W)) eqn:Ep; cbn [negb] in Hb; [|discriminate]. injection Hb as <-.
  unfold is_pow2z in Ep. apply andb_prop in Ep as [Ep1 Ep2].
  set (M := Z.log2 (kraft W)) in *. assert (HK : kraft W = 2 ^ M) by lia. pose proof (Z.log2_nonneg (kraft W)) as HM0. fold M in HM0.
  rewrite (sorted_entries_groups nmax W 0 Hw).
  rewrite assign_enc_nth; [|apply groups_nodup| |lia].
  2:{ apply Forall_forall. intros e He. destruct (groups_spec _ _ _ _ _ He) as (_ & B & _). rewrite map_length. lia. }
  change 0 with (Z.of_nat 0) at 1.
  rewrite (acode_groups W M nmax 0 0 0 0 s ltac:(lia) ltac:(cbn [below]; lia)); [|intros k Hk; apply (kraft_divides W nmax M Hw HK HM0); lia|lia].
  cbv zeta. fold w. rewrite Forall_forall in Hw. pose proof (Hw w ltac:(apply nth_In; lia)) as Hwr.
  assert (s <? Z.of_nat (length W) = true) as -> by lia. assert (Z.of_nat 0 <? w = true) as -> by lia.
  assert (w <=? Z.of_nat 0 + Z.of_nat nmax = true) as -> by lia. cbn [andb]. reflexivity.
Qed.
