(** C12 / C03: the general FSE table theorem.  For every accuracy log 5..9 and EVERY normalised distribution --
    probabilities >= -1 ("less than one" counting 1) with total weight 2^accuracy_log -- the decoder's table construction
    succeeds; every entry's state range lies inside the table (so no state transition can index out of it); and every
    symbol with a non-zero probability has states covering the whole state space. *)
Require Import Zrs.lib.RsPrelude Zrs.lib.Sweep Zrs.model.BitIO Zrs.model.FseDec Zrs.model.FseEnc Zrs.model.FseNorm.
Require Import Zrs.model.BitStream Zrs.model.SeqEnc Zrs.proofs.C12_Fse Zrs.proofs.C12_Stream Zrs.proofs.C12_SeqStream.
Require Import Zrs.proofs.C12_Norm Zrs.proofs.C12_Covers.
Require Import Zrs.proofs.C12_Walk.
Require Import Permutation.
Open Scope Z_scope.

Fixpoint cneg (probs : list Z) : Z := match probs with [] => 0 | p :: t => (if p =? -1 then 1 else 0) + cneg t end.
Lemma cneg_nonneg probs : 0 <= cneg probs.
Proof. induction probs as [|p t IH]; cbn [cneg]; [lia|]. destruct (p =? -1); lia. Qed.

Lemma nth_e_upd dec i e j : 0 <= i < Z.of_nat (length dec) -> 0 <= j -> nth_e (upd dec (Z.to_nat i) e) j = if j =? i then e else nth_e dec j.
Proof.
  intros Hi Hj. unfold nth_e. destruct (Z.eqb_spec j i) as [->|Hn]; [apply nth_upd_eq; lia|apply nth_upd_neq; lia].
Qed.

Lemma place_negative_spec probs : forall sym al n0 dec size, Z.of_nat (length dec) = size -> cneg probs <= n0 <= size ->
  exists dec', place_negative probs sym al n0 dec = ROk (n0 - cneg probs, dec') /\ length dec' = length dec /\
    (forall i, 0 <= i -> i < n0 - cneg probs \/ n0 <= i -> nth_e dec' i = nth_e dec i) /\
    (forall i, n0 - cneg probs <= i < n0 -> e_base (nth_e dec' i) = 0 /\ e_bits (nth_e dec' i) = al) /\
    (forall k, (k < length probs)%nat -> nth k probs 0 = -1 ->
       exists i, n0 - cneg probs <= i < n0 /\ nth_e dec' i = {| e_base := 0; e_bits := al; e_sym := (sym + Z.of_nat k) mod 256 |}).
Proof.
  induction probs as [|p t IH]; intros sym al n0 dec size Hl Hn; cbn [place_negative cneg] in *.
  - exists dec. replace (n0 - 0) with n0 by lia. repeat split; try reflexivity; try lia. intros k Hk. cbn in Hk. lia.
  - pose proof (cneg_nonneg t) as Hc.
    destruct (Z.eqb_spec p (-1)) as [Ep|Ep].
    + destruct (Z.leb_spec n0 0) as [|_]; [lia|].
      set (e := {| e_base := 0; e_bits := al; e_sym := sym mod 256 |}).
      destruct (IH (sym + 1) al (n0 - 1) (upd dec (Z.to_nat (n0 - 1)) e) size ltac:(rewrite upd_len'; exact Hl) ltac:(lia))
        as (dec' & E & L & Hout & Hin & Hsym).
      exists dec'. replace (n0 - (1 + cneg t)) with (n0 - 1 - cneg t) by lia. split; [exact E|].
      rewrite upd_len' in L. split; [exact L|]. split; [|split].
      * intros i Hi Hor. rewrite Hout by lia. rewrite nth_e_upd by lia. destruct (Z.eqb_spec i (n0 - 1)); [lia|reflexivity].
      * intros i Hi. destruct (Z.lt_ge_cases i (n0 - 1)) as [Hlt|Hge]; [apply Hin; lia|].
        assert (i = n0 - 1) by lia. subst i. rewrite Hout by lia. rewrite nth_e_upd by lia. rewrite Z.eqb_refl. split; reflexivity.
      * intros k Hk Hp. destruct k as [|k].
        -- exists (n0 - 1). split; [lia|]. rewrite Hout by lia. rewrite nth_e_upd by lia. rewrite Z.eqb_refl. unfold e. rewrite Z.add_0_r. reflexivity.
        -- cbn [nth] in Hp. destruct (Hsym k ltac:(cbn in Hk; lia) Hp) as (i & Hi & Ei). exists i. split; [lia|]. rewrite Ei. do 2 f_equal. lia.
    + destruct (IH (sym + 1) al n0 dec size Hl ltac:(lia)) as (dec' & E & L & Hout & Hin & Hsym).
      exists dec'. replace (n0 - (0 + cneg t)) with (n0 - cneg t) by lia. split; [exact E|]. split; [exact L|]. split; [exact Hout|]. split; [exact Hin|].
      intros k Hk Hp. destruct k as [|k]; [cbn in Hp; lia|]. cbn [nth] in Hp.
      destruct (Hsym k ltac:(cbn in Hk; lia) Hp) as (i & Hi & Ei). exists i. split; [exact Hi|]. rewrite Ei. do 2 f_equal. lia.
Qed.

(** the symbols written by the spreading phase: only the positive probabilities count *)
Lemma syms_length_gen probs : forall sym0, Forall (fun p => -1 <= p) probs -> Z.of_nat (length (syms probs sym0)) = weight probs - cneg probs.
Proof.
  induction probs as [|p t IH]; intros sym0 Hp; [reflexivity|]. inversion Hp; subst. cbn [syms weight cneg].
  rewrite app_length, Nat2Z.inj_add, IH by assumption. unfold pw.
  destruct (Z.leb_spec p 0); destruct (Z.eqb_spec p (-1)); cbn [length]; rewrite ?repeat_length; lia.
Qed.

Lemma syms_count_gen probs : forall sym0 i, 0 <= sym0 -> sym0 + Z.of_nat (length probs) <= 256 -> (i < length probs)%nat ->
  count_occ Z.eq_dec (syms probs sym0) (sym0 + Z.of_nat i) = Z.to_nat (nth i probs 0).
Proof.
  induction probs as [|p t IH]; intros sym0 i H0 Hb Hi; [cbn in Hi; lia|].
  cbn [syms length] in *. rewrite count_occ_app. rewrite Z.mod_small by lia.
  destruct i as [|i]; cbn [nth].
  - rewrite Z.add_0_r. rewrite syms_count_before by lia. destruct (Z.leb_spec p 0) as [Hle|Hgt].
    + cbn. lia.
    + rewrite count_repeat. destruct (Z.eq_dec sym0 sym0); [lia|congruence].
  - assert (Hnone : count_occ Z.eq_dec (if p <=? 0 then [] else repeat sym0 (Z.to_nat p)) (sym0 + Z.of_nat (S i)) = 0%nat).
    { destruct (p <=? 0); [reflexivity|]. rewrite count_repeat. destruct (Z.eq_dec sym0 (sym0 + Z.of_nat (S i))); [lia|reflexivity]. }
    rewrite Hnone. replace (sym0 + Z.of_nat (S i)) with (sym0 + 1 + Z.of_nat i) by lia.
    rewrite IH; [reflexivity|lia|lia|lia].
Qed.

(** *** phase 3 when other probabilities may be negative *)
Lemma assign_spec_gen n : forall idx size al probs counter dec,
  0 <= idx -> Z.of_nat (length dec) = size -> idx + Z.of_nat n <= size ->
  (forall i, idx <= i < idx + Z.of_nat n -> 0 <= sym_at dec i < Z.of_nat (length probs) /\ 0 <= nth_z probs (sym_at dec i)) ->
  length counter = length probs ->
  let G := map (sym_at dec) (map (fun k => idx + Z.of_nat k) (seq 0 n)) in
  let out := assign_pure size probs G (nth_z counter) in
  Forall (fun e => e_bits e <= al) out ->
  exists counter', assign n idx size al probs counter dec =
    ROk (counter', firstn (Z.to_nat idx) dec ++ out ++ skipn (Z.to_nat idx + n) dec).
Proof.
  induction n as [|n IH]; intros idx size al probs counter dec Hi Hl Hb Hs Hc G out Hnb.
  - cbn [assign]. exists counter. unfold out, G. cbn [seq map assign_pure app]. rewrite Nat.add_0_r, firstn_skipn. reflexivity.
  - cbn [assign]. unfold out, G in *. cbn [seq map assign_pure] in *. rewrite Z.add_0_r in *.
    fold (sym_at dec idx).
    destruct (Hs idx ltac:(lia)) as ((S0 & S1) & Hpn).
    destruct (Z.leb_spec (Z.of_nat (length probs)) (sym_at dec idx)) as [H|_]; [lia|].
    destruct (Z.ltb_spec (nth_z probs (sym_at dec idx)) 0) as [H|_]; [lia|].
    apply Forall_cons_iff in Hnb as [Hb0 Hrest].
    unfold mk_entry in Hb0 |- *.
    destruct (calc_baseline_and_numbits size (nth_z probs (sym_at dec idx)) (nth_z counter (sym_at dec idx))) as [bl nb] eqn:Ec.
    cbn [e_bits] in Hb0. destruct (Z.ltb_spec al nb) as [H|_]; [lia|].
    set (dec1 := upd dec (Z.to_nat idx) {| e_base := bl; e_bits := nb; e_sym := sym_at dec idx |}).
    set (counter1 := upd counter (Z.to_nat (sym_at dec idx)) (nth_z counter (sym_at dec idx) + 1)).
    assert (Hsym1 : forall i, 0 <= i -> sym_at dec1 i = sym_at dec i).
    { intros i Hi0. unfold sym_at, dec1, nth_e. destruct (Z.eq_dec i idx) as [->|Hn].
      - rewrite nth_upd_eq by lia. reflexivity.
      - rewrite nth_upd_neq by lia. reflexivity. }
    destruct (IH (idx + 1) size al probs counter1 dec1) as (c' & E).
    + lia.
    + unfold dec1. rewrite upd_len'. exact Hl.
    + lia.
    + intros i Hi0. rewrite Hsym1 by lia. apply Hs. lia.
    + unfold counter1. rewrite upd_len'. exact Hc.
    + (* the bit counts of the remaining entries *)
      replace (map (sym_at dec1) (map (fun k => idx + 1 + Z.of_nat k) (seq 0 n)))
        with (map (sym_at dec) (map (fun k => idx + Z.of_nat k) (seq 1 n))).
      2:{ rewrite <- seq_shift, !map_map. apply map_ext_in. intros k Hk. rewrite Hsym1 by lia. f_equal. lia. }
      erewrite (assign_pure_ext size probs _ (nth_z counter1)); [exact Hrest| |].
      * intros x Hx. unfold counter1. rewrite nth_z_upd by lia. reflexivity.
      * apply Forall_forall. intros x Hx. apply in_map_iff in Hx as (i & <- & Hin). apply in_map_iff in Hin as (k & <- & Hk).
        apply in_seq in Hk. apply Hs. lia.
    + exists c'. rewrite E. f_equal. f_equal.
      replace (map (sym_at dec1) (map (fun k => idx + 1 + Z.of_nat k) (seq 0 n)))
        with (map (sym_at dec) (map (fun k => idx + Z.of_nat k) (seq 1 n))).
      2:{ rewrite <- seq_shift, !map_map. apply map_ext_in. intros k Hk. rewrite Hsym1 by lia. f_equal. lia. }
      rewrite (assign_pure_ext size probs _ (nth_z counter1) (fun x => if x =? sym_at dec idx then nth_z counter (sym_at dec idx) + 1 else nth_z counter x)).
      2:{ intros x Hx. unfold counter1. rewrite nth_z_upd by lia. reflexivity. }
      2:{ apply Forall_forall. intros x Hx. apply in_map_iff in Hx as (i & <- & Hin). apply in_map_iff in Hin as (k & <- & Hk).
          apply in_seq in Hk. apply Hs. lia. }
      unfold dec1. replace (Z.to_nat (idx + 1)) with (S (Z.to_nat idx)) by lia.
      rewrite firstn_S_upd by lia. rewrite skipn_S_upd. rewrite <- !app_assoc. reflexivity.
Qed.

(** *** the orbit, once more: it starts at 0 and closes *)
Lemma orbit_cyclic al : 5 <= al <= 9 ->
  let size := 2 ^ al in let O := orbit (Z.to_nat size) 0 size in
  next_position (last O 0) size = 0 /\ exists t, O = 0 :: t.
Proof.
  intros Ha size O. pose proof (spreading_step_is_a_permutation al Ha) as C. unfold orbit_check in C. fold size in C. fold O in C.
  apply andb_prop in C as [_ C]. split; [lia|].
  assert (Hs : 0 < size) by (apply Z.pow_pos_nonneg; lia).
  unfold O. destruct (Z.to_nat size) as [|n] eqn:E; [lia|]. cbn [orbit]. eexists. reflexivity.
Qed.

Lemma orbit_chain n : forall pos size, chain_from size pos (tl (orbit (S n) pos size)).
Proof. induction n as [|n IH]; intros pos size; cbn [orbit tl chain_from]; [exact I|]. split; [reflexivity|]. specialize (IH (next_position pos size) size). cbn [orbit tl] in IH. exact IH. Qed.

Lemma chain_app size x l y : chain_from size x l -> y = next_position (last (x :: l) 0) size -> chain_from size x (l ++ [y]).
Proof.
  revert x. induction l as [|z t IH]; intros x Hc Hy; cbn [app chain_from] in *.
  - split; [exact Hy|exact I].
  - destruct Hc as (Ez & Hc). split; [exact Ez|]. apply IH; [exact Hc|]. rewrite Hy. destruct t; reflexivity.
Qed.

Lemma weight_ge_cneg probs : Forall (fun p => -1 <= p) probs -> cneg probs <= weight probs.
Proof.
  induction 1 as [|p t Hp _ IH]; cbn [cneg weight]; [lia|]. unfold pw. destruct (Z.eqb_spec p (-1)); lia.
Qed.

Lemma smalls_count neg (O : list Z) n : NoDup O -> length O = n -> (forall x, In x O -> 0 <= x < Z.of_nat n) -> 0 <= neg <= Z.of_nat n ->
  NoDup (smalls neg O) /\ Z.of_nat (length (smalls neg O)) = neg /\ Permutation (smalls neg O) (map Z.of_nat (seq 0 (Z.to_nat neg))).
Proof.
  intros Hnd Hl Hr Hn.
  assert (Hp : Permutation O (map Z.of_nat (seq 0 n))).
  { apply NoDup_Permutation_bis; [exact Hnd|rewrite map_length, seq_length; lia|].
    intros x Hx. apply Hr in Hx. apply in_map_iff. exists (Z.to_nat x). split; [lia|apply in_seq; lia]. }
  assert (Hnd' : NoDup (smalls neg O)) by (apply NoDup_filter; exact Hnd).
  assert (Hperm : Permutation (smalls neg O) (map Z.of_nat (seq 0 (Z.to_nat neg)))).
  { apply NoDup_Permutation; [exact Hnd'| |].
    - apply FinFun.Injective_map_NoDup; [intros a b; lia|apply seq_NoDup].
    - intros x. unfold smalls, small. rewrite filter_In. split.
      + intros (Hin & Hlt). apply Hr in Hin. apply in_map_iff. exists (Z.to_nat x). split; [lia|apply in_seq; lia].
      + intros Hin. apply in_map_iff in Hin as (k & <- & Hk). apply in_seq in Hk. split; [|lia].
        apply (Permutation_in _ (Permutation_sym Hp)). apply in_map_iff. exists k. split; [reflexivity|apply in_seq; lia]. }
  split; [exact Hnd'|]. split; [|exact Hperm].
  rewrite (Permutation_length Hperm), map_length, seq_length. lia.
Qed.

Lemma spread_nothing probs : forall sym pos neg size dec, syms probs sym = [] -> spread probs sym pos neg size dec = ROk dec.
Proof.
  induction probs as [|p t IH]; intros sym pos neg size dec H; cbn [spread syms] in *; [reflexivity|].
  destruct (Z.leb_spec p 0) as [_|Hp]; [apply IH; exact H|].
  exfalso. apply (f_equal (@length Z)) in H. rewrite app_length, repeat_length in H. cbn in H. lia.
Qed.

Lemma in_skipn_nth {A} (l : list A) d n e : In e (skipn n l) -> exists k, (n <= k < length l)%nat /\ nth k l d = e.
Proof.
  revert n. induction l as [|x t IH]; intros n H; [rewrite skipn_nil in H; contradiction|].
  destruct n as [|n]; cbn [skipn] in H.
  - apply (In_nth _ _ d) in H as (k & Hk & E). exists k. split; [lia|exact E].
  - destruct (IH n H) as (k & Hk & E). exists (S k). cbn [length nth]. split; [lia|exact E].
Qed.

Lemma nth_skipn' {A} (d : A) : forall n k l, nth k (skipn n l) d = nth (n + k) l d.
Proof. induction n as [|n IH]; intros k l; [reflexivity|]. destruct l as [|x t]; [destruct k; reflexivity|]. cbn [skipn Nat.add nth]. apply IH. Qed.

Lemma syms_pos probs : forall sym0 s, 0 <= sym0 -> sym0 + Z.of_nat (length probs) <= 256 -> In s (syms probs sym0) ->
  sym0 <= s < sym0 + Z.of_nat (length probs) /\ 1 <= nth (Z.to_nat (s - sym0)) probs 0.
Proof.
  induction probs as [|p t IH]; intros sym0 s H0 Hb Hin; [contradiction|]. cbn [syms length] in *.
  apply in_app_or in Hin as [Hin|Hin].
  - destruct (Z.leb_spec p 0); [contradiction|]. apply repeat_spec in Hin. rewrite Z.mod_small in Hin by lia. subst s.
    replace (sym0 - sym0) with 0 by lia. cbn [Z.to_nat nth]. lia.
  - destruct (IH (sym0 + 1) s ltac:(lia) ltac:(lia) Hin) as (A & B). split; [lia|].
    replace (Z.to_nat (s - sym0)) with (S (Z.to_nat (s - (sym0 + 1)))) by lia. exact B.
Qed.

Theorem general_table_full al probs ms :
  5 <= al <= 9 -> Forall (fun p => -1 <= p) probs -> weight probs = 2 ^ al ->
  (length probs <= 256)%nat -> Z.of_nat (length probs) <= ms + 1 ->
  exists D, fse_build_from_probabilities (fse_new ms) al probs = ROk D /\
    (forall e, In e (t_decode D) -> 0 <= e_bits e <= al /\ 0 <= e_base e /\ e_base e + 2 ^ e_bits e <= 2 ^ al) /\
    Z.of_nat (length (t_decode D)) = 2 ^ al /\
    (forall i, (i < length probs)%nat -> nth i probs 0 <> 0 -> covers D (Z.of_nat i)) /\
    (* where every entry comes from: a "less than one" slot, or the k-th state of a symbol of probability p *)
    (forall e, In e (t_decode D) -> e_bits e = al \/
       exists p k, In p probs /\ 1 <= p /\ 0 <= k < p /\ e_bits e = snd (calc_baseline_and_numbits (2 ^ al) p k)).
Proof.
  intros Hal Hp Hw Hlen Hms.
  set (size := 2 ^ al). assert (Hsz : 0 < size) by (apply Z.pow_pos_nonneg; lia).
  set (N := Z.to_nat size). assert (HN : Z.of_nat N = size) by (unfold N; lia).
  destruct (orbit_facts al Hal) as (Ond & Orange & Olen). fold size in Ond, Orange, Olen. fold N in Ond, Orange, Olen.
  destruct (orbit_cyclic al Hal) as (Ocyc & (Ot & EO)). fold size in Ocyc, EO. fold N in Ocyc, EO.
  set (O := orbit N 0 size) in *.
  pose proof (cneg_nonneg probs) as Hc0. pose proof (weight_ge_cneg probs Hp) as Hcw.
  set (neg := size - cneg probs). assert (Hneg : 0 <= neg <= size) by (unfold neg; lia).
  set (dec0 := entries0 N). assert (L0 : Z.of_nat (length dec0) = size) by (unfold dec0; rewrite entries0_length; exact HN).
  destruct (place_negative_spec probs 0 al size dec0 size L0 ltac:(lia)) as (dec1 & E1 & L1 & Hout1 & Hin1 & Hsym1). fold neg in E1, Hout1, Hin1, Hsym1.
  assert (L1' : Z.of_nat (length dec1) = size) by lia.
  set (SY := syms probs 0).
  assert (LS : Z.of_nat (length SY) = neg) by (unfold SY; rewrite syms_length_gen by exact Hp; unfold neg; lia).
  destruct (smalls_count neg O N Ond Olen ltac:(intros x Hx; rewrite HN; apply Orange; exact Hx) ltac:(lia)) as (Vnd & Vlen & Vperm).
  set (V := smalls neg O) in *.
  (* phase 2 *)
  assert (Esp : exists dec2, spread probs 0 0 neg size dec1 = ROk dec2 /\ Z.of_nat (length dec2) = size /\
                  map (sym_at dec2) V = SY /\ (forall i, neg <= i -> nth_e dec2 i = nth_e dec1 i)).
  { destruct (Z.eq_dec neg 0) as [En0|En0].
    - assert (ES : SY = []) by (destruct SY; [reflexivity|cbn [length] in LS; lia]).
      exists dec1. rewrite spread_nothing by exact ES. split; [reflexivity|]. split; [exact L1'|]. split; [|reflexivity].
      assert (V = []) by (destruct V; [reflexivity|cbn [length] in Vlen; lia]). rewrite H, ES. reflexivity.
    - assert (Hs0 : small neg 0 = true) by (unfold small; destruct (Z.ltb_spec 0 neg); [reflexivity|lia]).
      set (l := Ot ++ [0]).
      assert (Hch : chain_from size 0 l).
      { unfold l. apply chain_app.
        - pose proof (orbit_chain (pred N) 0 size) as Hc. replace (S (pred N)) with N in Hc by lia. fold O in Hc. rewrite EO in Hc. exact Hc.
        - rewrite <- EO. symmetry. exact Ocyc. }
      assert (EV : V = 0 :: smalls neg Ot) by (unfold V; rewrite EO; unfold smalls; cbn [filter]; rewrite Hs0; reflexivity).
      assert (Esl : smalls neg l = smalls neg Ot ++ [0]) by (unfold l, smalls; rewrite filter_app; cbn [filter]; rewrite Hs0; reflexivity).
      assert (Lsl : length (smalls neg l) = length V) by (rewrite Esl, EV, app_length; cbn [length]; lia).
      assert (Ll : (length l <= Z.to_nat size)%nat).
      { unfold l. rewrite app_length. cbn [length]. apply (f_equal (@length Z)) in EO. rewrite Olen in EO. cbn [length] in EO. fold N. lia. }
      exists (write_list dec1 (combine V SY)).
      rewrite (spread_walk size neg Hsz Hneg probs 0 0 l dec1 Hs0 ltac:(lia) Hch ltac:(fold SY; lia) Ll L1').
      fold SY. replace (firstn (length SY) (0 :: smalls neg l)) with V.
      2:{ rewrite Esl. replace (0 :: smalls neg Ot ++ [0]) with (V ++ [0]) by (rewrite EV; reflexivity).
          rewrite firstn_app. replace (length SY - length V)%nat with 0%nat by lia. cbn [firstn]. rewrite app_nil_r. rewrite firstn_all2 by lia. reflexivity. }
      split; [reflexivity|]. split; [rewrite write_list_length; exact L1'|].
      assert (Vr : Forall (fun p => 0 <= p < Z.of_nat (length dec1)) V).
      { apply Forall_forall. intros x Hx. unfold V, smalls in Hx. apply filter_In in Hx as (Hx & _). rewrite L1'. apply Orange. exact Hx. }
      split; [apply map_sym_at_combine; [lia|exact Vnd|exact Vr]|].
      intros i Hi. apply write_list_other; [lia| |].
      + apply Forall_forall. intros [p s] Hps. apply in_combine_l in Hps. cbn [fst]. rewrite Forall_forall in Vr. specialize (Vr p Hps). lia.
      + intros Hin. assert (In i V).
        { clear - Hin. revert Hin. generalize SY. induction V as [|v V' IHV]; intros S0 Hin; [contradiction|]. destruct S0 as [|s S0]; [contradiction|].
          cbn [combine map fst In] in Hin. destruct Hin as [<-|Hin]; [left; reflexivity|right; eapply IHV; exact Hin]. }
        unfold V, smalls, small in H. apply filter_In in H as (_ & H). lia. }
  destruct Esp as (dec2 & E2 & L2 & Hmap & Hkeep2).
  (* the symbols in state order *)
  set (idxs := map (fun k => 0 + Z.of_nat k) (seq 0 (Z.to_nat neg))).
  assert (Hperm : Permutation V idxs).
  { eapply Permutation_trans; [exact Vperm|]. unfold idxs. apply Permutation_refl'. apply map_ext. intros k. lia. }
  set (G := map (sym_at dec2) idxs).
  assert (HG : Permutation SY G) by (rewrite <- Hmap; apply Permutation_map; exact Hperm).
  assert (LG : length G = Z.to_nat neg) by (unfold G, idxs; rewrite !map_length, seq_length; reflexivity).
  assert (Hocc : forall s, count_occ Z.eq_dec G s = count_occ Z.eq_dec SY s) by (intros s; symmetry; apply Permutation_count_occ; exact HG).
  assert (Gin : forall x, In x G -> 0 <= x < Z.of_nat (length probs) /\ 1 <= nth_z probs x).
  { intros x Hx. apply (Permutation_in _ (Permutation_sym HG)) in Hx. destruct (syms_pos probs 0 x ltac:(lia) ltac:(lia) Hx) as (A & B).
    split; [lia|]. unfold nth_z. replace (x - 0) with x in B by lia. exact B. }
  assert (Gcount : forall x, In x G -> Z.of_nat (count_occ Z.eq_dec G x) = nth_z probs x).
  { intros x Hx. destruct (Gin x Hx) as ((X0 & X1) & X2). rewrite Hocc. unfold SY.
    replace x with (0 + Z.of_nat (Z.to_nat x)) at 1 by lia. rewrite syms_count_gen by lia.
    unfold nth_z in *. lia. }
  set (out := assign_pure size probs G (nth_z (zeros (length probs)))).
  assert (Hentry : forall k, (k < Z.to_nat neg)%nat -> nth k out entry0 = mk_entry size (nth_z probs (nth k G 0)) (Z.of_nat (count_occ Z.eq_dec (firstn k G) (nth k G 0))) (nth k G 0)).
  { intros k Hk. unfold out. rewrite assign_pure_nth by lia. rewrite nth_z_zeros. reflexivity. }
  assert (Hrange : forall k, (k < Z.to_nat neg)%nat ->
            let e := nth k out entry0 in 0 <= e_bits e <= al /\ 0 <= e_base e /\ e_base e + 2 ^ e_bits e <= size).
  { intros k Hk. cbn zeta. rewrite Hentry by exact Hk.
    assert (Hin : In (nth k G 0) G) by (apply nth_In; lia).
    pose proof (occ_prefix_lt G k ltac:(lia)) as Hlt. pose proof (Gcount _ Hin) as Hc.
    pose proof (count_occ_bound Z.eq_dec (nth k G 0) G) as Hb. rewrite LG in Hb.
    pose proof (state_range_in_table al (nth_z probs (nth k G 0)) (Z.of_nat (count_occ Z.eq_dec (firstn k G) (nth k G 0))) Hal) as R.
    fold size in R. unfold mk_entry. destruct (calc_baseline_and_numbits size _ _) as [bl nb]. cbn [e_bits e_base].
    specialize (R ltac:(lia) ltac:(lia)). lia. }
  assert (Hbits : Forall (fun e => e_bits e <= al) out).
  { apply Forall_forall. intros e He. apply (In_nth _ _ entry0) in He as (k & Hk & <-).
    unfold out in Hk. rewrite assign_pure_length, LG in Hk. specialize (Hrange k Hk). cbn zeta in Hrange. lia. }
  destruct (assign_spec_gen (Z.to_nat neg) 0 size al probs (zeros (length probs)) dec2 ltac:(lia) L2 ltac:(lia)) as (c' & Eas).
  { intros i Hi. assert (In (sym_at dec2 i) G) as Hin.
    { unfold G, idxs. apply in_map. apply in_map_iff. exists (Z.to_nat i). split; [lia|apply in_seq; lia]. }
    destruct (Gin _ Hin) as (A & B). split; [exact A|lia]. }
  { apply zeros_len. }
  { fold idxs. fold G. fold out. exact Hbits. }
  fold idxs in Eas. fold G in Eas. fold out in Eas. cbn [Z.to_nat firstn app Nat.add] in Eas.
  set (D := {| t_max_symbol := ms; t_decode := out ++ skipn (Z.to_nat neg) dec2; t_acc_log := al; t_probs := probs; t_counter := c' |}).
  exists D. split.
  { unfold fse_build_from_probabilities, build_decoding_table, fse_new. cbn [t_max_symbol].
    destruct (Z.eqb_spec al 0); [lia|]. destruct (Z.ltb_spec (ms + 1) (Z.of_nat (length probs))); [lia|].
    fold size. fold N. fold dec0. rewrite E1. cbn [rbind]. rewrite E2. cbn [rbind]. rewrite Eas. cbn [rbind]. reflexivity. }
  (* entries at and above neg are the "less than one" slots *)
  assert (Hhigh : forall e, In e (skipn (Z.to_nat neg) dec2) -> exists i, neg <= i < size /\ e = nth_e dec1 i).
  { intros e He. destruct (in_skipn_nth dec2 entry0 _ e He) as (k & Hk & <-). exists (Z.of_nat k). split; [lia|].
    rewrite <- Hkeep2 by lia. unfold nth_e. rewrite Nat2Z.id. reflexivity. }
  split; [|split; [|split]].
  - intros e He. cbn [t_decode D] in He. apply in_app_or in He as [He|He].
    + apply (In_nth _ _ entry0) in He as (k & Hk & <-). unfold out in Hk. rewrite assign_pure_length, LG in Hk. apply (Hrange k Hk).
    + destruct (Hhigh e He) as (i & Hi & ->). destruct (Hin1 i Hi) as (B0 & B1). rewrite B0, B1. fold size. lia.
  - cbn [t_decode D]. rewrite app_length, skipn_length. unfold out. rewrite assign_pure_length, LG. fold size. lia.
  - intros i Hi Hpi. set (s := Z.of_nat i).
    assert (Hps : nth_z probs s = nth i probs 0) by (unfold nth_z, s; rewrite Nat2Z.id; reflexivity).
    rewrite Forall_forall in Hp. pose proof (Hp (nth i probs 0) ltac:(apply nth_In; exact Hi)) as Hpi1.
    destruct (Z.eq_dec (nth i probs 0) (-1)) as [Em|Em].
    + (* a "less than one" symbol: one state with the full range *)
      destruct (Hsym1 i Hi Em) as (j & Hj & Ej). rewrite Z.add_0_l, Z.mod_small in Ej by lia.
      assert (Hin : In (nth_e dec1 j) (t_decode D)).
      { cbn [t_decode D]. apply in_or_app. right. rewrite <- Hkeep2 by lia. unfold nth_e.
        replace (Z.to_nat j) with (Z.to_nat neg + (Z.to_nat j - Z.to_nat neg))%nat by lia. rewrite <- nth_skipn'. apply nth_In. rewrite skipn_length. lia. }
      unfold covers. split; [eapply min_base_some; [exact Hin|rewrite Ej; reflexivity]|].
      unfold t_len. cbn [t_acc_log D]. destruct (Z.eqb_spec al 0); [lia|]. intros idx Hidx.
      eapply find_entry_some; [exact Hin|]. rewrite Ej. cbn [e_sym e_base e_bits]. fold s. rewrite Z.eqb_refl. cbn [andb].
      apply andb_true_intro. split; lia.
    + assert (Hpos : 1 <= nth i probs 0) by lia.
      assert (Hcs : count_occ Z.eq_dec G s = Z.to_nat (nth i probs 0)).
      { rewrite Hocc. unfold SY, s. replace (Z.of_nat i) with (0 + Z.of_nat i) by lia. apply syms_count_gen; lia. }
      assert (Hex : forall j, 0 <= j < nth i probs 0 -> exists e, In e out /\ e = mk_entry size (nth i probs 0) j s).
      { intros j Hj. destruct (occurrence_exists G s (Z.to_nat j) ltac:(lia)) as (k & Hk & Hn & Hc).
        exists (nth k out entry0). split; [apply nth_In; unfold out; rewrite assign_pure_length; exact Hk|].
        rewrite Hentry by lia. rewrite Hn, Hc, Hps. f_equal. lia. }
      unfold covers. cbn [t_decode D]. split.
      * destruct (Hex 0 ltac:(lia)) as (e & Hin & ->). eapply min_base_some; [apply in_or_app; left; exact Hin|].
        unfold mk_entry. destruct (calc_baseline_and_numbits _ _ _). reflexivity.
      * unfold t_len. cbn [t_acc_log D]. destruct (Z.eqb_spec al 0); [lia|]. fold size. intros idx Hidx.
        pose proof (state_ranges_partition al (nth i probs 0) Hal) as PC.
        assert (Hpb : 1 <= nth i probs 0 <= 2 ^ al).
        { split; [exact Hpos|]. pose proof (count_occ_bound Z.eq_dec s G) as Hb. rewrite LG, Hcs in Hb. fold size. lia. }
        specialize (PC Hpb). unfold partition_check in PC. fold size in PC. apply andb_prop in PC as [PC1 PC2].
        destruct (tile_from 0 _) as [e0|] eqn:Et; [|discriminate].
        assert (He0 : e0 = size) by lia. subst e0.
        destruct (tile_from_covers _ _ _ idx Et) as (bl & nb & Hin & Hr).
        { apply Forall_forall. intros r Hr. apply in_app_or in Hr. rewrite forallb_forall in PC1.
          assert (In r (ranges size (nth i probs 0) 0 (Z.to_nat (nth i probs 0)))) as Hr'.
          { destruct Hr as [Hr|Hr]; [eapply in_skipn'|eapply in_firstn']; exact Hr. }
          specialize (PC1 r Hr'). lia. }
        { lia. }
        assert (Hin' : In (bl, nb) (ranges size (nth i probs 0) 0 (Z.to_nat (nth i probs 0)))).
        { apply in_app_or in Hin. destruct Hin as [H|H]; [eapply in_skipn'|eapply in_firstn']; exact H. }
        destruct (ranges_In _ _ _ _ _ Hin') as (k & Hk & Ek).
        destruct (Hex k ltac:(lia)) as (e & Hine & ->).
        eapply find_entry_some; [apply in_or_app; left; exact Hine|].
        unfold mk_entry. rewrite <- Ek. cbn [e_sym e_base e_bits]. rewrite Z.eqb_refl. cbn [andb].
        apply andb_true_intro. split; lia.
  - intros e He. cbn [t_decode D] in He. apply in_app_or in He as [He|He].
    + right. apply (In_nth _ _ entry0) in He as (k & Hk & <-). unfold out in Hk. rewrite assign_pure_length, LG in Hk.
      rewrite Hentry by exact Hk.
      assert (Hin : In (nth k G 0) G) by (apply nth_In; lia).
      destruct (Gin _ Hin) as ((X0 & X1) & X2).
      pose proof (occ_prefix_lt G k ltac:(lia)) as Hlt. pose proof (Gcount _ Hin) as Hc.
      exists (nth_z probs (nth k G 0)), (Z.of_nat (count_occ Z.eq_dec (firstn k G) (nth k G 0))).
      split; [unfold nth_z; apply nth_In; lia|]. split; [exact X2|]. split; [lia|].
      unfold mk_entry. fold size. destruct (calc_baseline_and_numbits size _ _). reflexivity.
    + left. destruct (Hhigh e He) as (i & Hi & ->). destruct (Hin1 i Hi) as (B0 & B1). exact B1.
Qed.

(** the form used by most clients *)
Theorem general_table al probs ms :
  5 <= al <= 9 -> Forall (fun p => -1 <= p) probs -> weight probs = 2 ^ al ->
  (length probs <= 256)%nat -> Z.of_nat (length probs) <= ms + 1 ->
  exists D, fse_build_from_probabilities (fse_new ms) al probs = ROk D /\
    (forall e, In e (t_decode D) -> 0 <= e_bits e <= al /\ 0 <= e_base e /\ e_base e + 2 ^ e_bits e <= 2 ^ al) /\
    Z.of_nat (length (t_decode D)) = 2 ^ al /\
    (forall i, (i < length probs)%nat -> nth i probs 0 <> 0 -> covers D (Z.of_nat i)).
Proof.
  intros Hal Hp Hw Hlen Hms. destruct (general_table_full al probs ms Hal Hp Hw Hlen Hms) as (D & A & B & C & E & _).
  exists D. split; [exact A|]. split; [exact B|]. split; [exact C|exact E].
Qed.
