(** C13: the whole FSE-compressed weight description as the compressor builds it -- histogram of the weights, the
    normaliser with the avoid-zero-bits option (limit 6), the table description, the two-state stream -- is read back by
    the decoder as exactly the weights: for every weight list for which the normaliser returns a distribution. *)
Require Import Zrs.lib.RsPrelude Zrs.gen.Generated Zrs.model.BitIO Zrs.model.BitStream Zrs.model.FseDec Zrs.model.HufDec Zrs.model.BlockDec Zrs.model.SeqEnc Zrs.model.FseEnc Zrs.model.FseNorm Zrs.model.WeightEnc.
Require Import Zrs.proofs.C12_Desc Zrs.proofs.C12_Norm Zrs.proofs.C12_NormHalf Zrs.proofs.C13_WeightFinal.
Open Scope Z_scope.


Lemma zmax_ge l x : In x l -> x <= zmax_list l.
Proof. induction l as [|y t IH]; [contradiction|]. cbn [zmax_list fold_right]. fold (zmax_list t). intros [->|H]; [lia|]. specialize (IH H). lia. Qed.
Lemma zmax_in l : l <> [] -> Forall (fun x => 0 <= x) l -> In (zmax_list l) l \/ zmax_list l = 0.
Proof.
  induction l as [|y t IH]; [congruence|]. intros _ H. inversion H as [|? ? Hy Ht]; subst. cbn [zmax_list fold_right]. fold (zmax_list t).
  destruct t as [|z u]; [cbn; left; left; lia|].
  destruct (IH ltac:(discriminate) Ht) as [Hin|E0].
  - destruct (Z.max_spec y (zmax_list (z :: u))) as [(_ & ->)|(_ & ->)]; [left; right; exact Hin|left; left; reflexivity].
  - rewrite E0. rewrite Z.max_l by lia. left. left. reflexivity.
Qed.
Lemma occ_pos s l : In s l -> 0 < occ s l.
Proof. intros H. unfold occ. apply (count_occ_In Z.eq_dec) in H. lia. Qed.

Theorem model_weight_description_roundtrip t data al probs d rest :
  t_max_symbol (ht_fse t) = 255 ->
  (2 <= length data <= 257)%nat -> Forall (fun w => 0 <= w <= 255) data -> 1 <= zmax_list data ->
  norm_counts (weight_hist data) 6 true = ROk (al, probs) -> desc_bytes al probs = Some d ->
  exists D, fse_build_from_probabilities (ht_fse t) al probs = ROk D /\
    let stream := stream_bytes (weight_fields (enc_of_dec D) data) in
    let header := zlen d + zlen stream in
    (header < 128 -> read_weights t (header :: d ++ stream ++ rest) = ROk (data, D, 1 + header)).
Proof.
  intros Hms Hl Hw Hmax Hn Hdesc.
  set (counts := weight_hist data) in *.
  assert (Hne : data <> []) by (intros ->; cbn in Hl; lia).
  assert (Hnn : Forall (fun x => 0 <= x) data) by (eapply Forall_impl; [|exact Hw]; intros a Ha; cbv beta in *; lia).
  assert (Lc : length counts = S (Z.to_nat (zmax_list data))) by (unfold counts, weight_hist; rewrite map_length, seq_length; reflexivity).
  assert (Hc0 : Forall (fun c => 0 <= c) counts).
  { unfold counts, weight_hist. apply Forall_forall. intros c Hc. apply in_map_iff in Hc as (n & <- & _). unfold occ. lia. }
  assert (Hnth : forall i, (i < length counts)%nat -> nth i counts 0 = occ (Z.of_nat i) data).
  { intros i Hi. unfold counts, weight_hist in *. rewrite map_length, seq_length in Hi.
    rewrite (nth_indep _ 0 (occ (Z.of_nat 0) data)) by (rewrite map_length, seq_length; exact Hi).
    rewrite (map_nth (fun n => occ (Z.of_nat n) data)), seq_nth by exact Hi. reflexivity. }
  assert (Hlast : 0 < last counts 0).
  { rewrite last_is_nth by (intros E; rewrite E in Lc; discriminate). rewrite Lc. replace (S (Z.to_nat (zmax_list data)) - 1)%nat with (Z.to_nat (zmax_list data)) by lia.
    rewrite Hnth by lia. rewrite Z2Nat.id by lia. apply occ_pos. destruct (zmax_in data Hne Hnn) as [H|H]; [exact H|lia]. }
  destruct (norm_counts_normalised counts 6 al probs ltac:(lia) Hc0 Hlast ltac:(lia) Hn) as ((Hp1 & Hwt & Hlastp) & Hal & Lp & Np & Sp & Keep).
  pose proof (norm_counts_half_bounded counts 6 al probs ltac:(lia) Hc0 Hlast ltac:(lia) Hn) as Hhalf.
  assert (Hpb : Forall (fun p => -1 <= p <= 2 ^ (al - 1)) probs).
  { apply Forall_forall. intros p Hp. rewrite Forall_forall in Np, Hhalf. specialize (Np p Hp). specialize (Hhalf p Hp). lia. }
  assert (Hlen : (length probs <= 256)%nat).
  { rewrite Lp, Lc. assert (zmax_list data <= 255); [|lia]. destruct (zmax_in data Hne Hnn) as [H|H]; [|lia]. rewrite Forall_forall in Hw. specialize (Hw _ H). lia. }
  apply (fse_weight_description_for_every_half_bounded_distribution t al probs d data rest Hms Hal Hpb Hwt Hlastp Hlen Hdesc Hl).
  apply Forall_forall. intros x Hx. rewrite Forall_forall in Hw. pose proof (Hw x Hx) as Hx0. pose proof (zmax_ge data x Hx) as Hxm.
  exists (Z.to_nat x). split; [lia|]. split; [rewrite Lp, Lc; lia|].
  assert (1 <= nth (Z.to_nat x) probs 0); [|lia]. apply Keep. rewrite Hnth by (rewrite Lc; lia). rewrite Z2Nat.id by lia. apply occ_pos. exact Hx.
Qed.
