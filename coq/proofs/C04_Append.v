(** C04: live cells as an indexed family; the generic append step; copy-from-within refines the queue. *)
From Coq Require Import String Arith Bool Lia ZArith List.
Import ListNotations.
From Coq Require Import ZifyBool ZifyNat.
Require Import Zrs.model.RingBuffer Zrs.proofs.C04_Basics Zrs.proofs.C04_Within.

(** cells of the live region are exactly the cells [idx s 0 .. idx s (len s - 1)] *)
Lemma live_idx s i : 0 < cap s -> head s < cap s -> tail s < cap s ->
  (live s i <-> exists k, k < len s /\ i = idx s k).
Proof.
  intros Hc Hh Ht. destruct s as [c h t m]. unfold live, idx. rewrite len_eq. cbn [cap head tail mem] in *.
  destruct (h <=? t) eqn:E.
  - split.
    + intros H. exists (i - h). split; [lia|]. assert (h + (i - h) <? c = true) as -> by lia. lia.
    + intros (k & Hk & ->). assert (h + k <? c = true) as -> by lia. lia.
  - split.
    + intros [H|H].
      * exists (i - h). split; [lia|]. assert (h + (i - h) <? c = true) as -> by lia. lia.
      * exists (c - h + i). split; [lia|]. assert (h + (c - h + i) <? c = false) as -> by lia. lia.
    + intros (k & Hk & ->). destruct (h + k <? c) eqn:E2; lia.
Qed.

Lemma inv_cell_some s k : Inv s -> 0 < cap s -> k < len s -> exists b, mem s (idx s k) = Some b.
Proof.
  intros HI Hc Hk. destruct HI as (_ & HB & HL). destruct (HB Hc) as [Hh Ht].
  apply HL. apply live_idx; try assumption. exists k. split; [assumption|reflexivity].
Qed.

Lemma len_free s : Inv s -> 0 < cap s -> len s + free s = cap s - 1.
Proof.
  intros (_ & HB & _) Hc. destruct (HB Hc) as [Hh Ht]. rewrite len_eq, free_eq.
  destruct (head s <=? tail s) eqn:E1; destruct (tail s <? head s) eqn:E2; lia.
Qed.

(** generic "append n cells" step: all the growing operations end in this shape *)
Lemma append_lemma s n m' data :
  Inv s -> 0 < cap s -> n <= free s -> length data = n ->
  (forall i, i < len s -> m' (idx s i) = mem s (idx s i)) ->
  (forall i, i < n -> m' (idx s (len s + i)) = Some (nth i data 0%Z)) ->
  let s' := mkrb (cap s) (head s) ((tail s + n) mod cap s) m' in
  Inv s' /\ len s' = len s + n /\ abs s' = abs s ++ data.
Proof.
  intros HI Hc Hn Hd H1 H2 s'.
  pose proof (len_free s HI Hc) as LF.
  destruct HI as (HZ & HB & HL). destruct (HB Hc) as [Hh Ht].
  assert (len s' = len s + n) as Hlen.
  { unfold s'. rewrite !len_eq. cbn [cap head tail mem]. rewrite len_eq, free_eq in LF. rewrite free_eq in Hn.
    destruct (head s <=? tail s) eqn:E1; destruct (tail s <? head s) eqn:E2; try (exfalso; lia);
    (rewrite (mod_sub (cap s) (tail s + n)) by lia);
    destruct (tail s + n <? cap s) eqn:E3; try (exfalso; lia);
    match goal with |- context [?a <=? ?b] => destruct (a <=? b) eqn:E4 end; lia. }
  assert (forall k, idx s' k = idx s k) as Hidx by (intros k; reflexivity).
  assert (tail s' < cap s') as Ht'.
  { unfold s'. cbn [cap tail]. apply Nat.mod_upper_bound. lia. }
  split; [|split].
  - split; [|split].
    + unfold s'. cbn [cap]. lia.
    + intros _. split; [exact Hh|exact Ht'].
    + intros i Hi. apply (live_idx s' i Hc Hh Ht') in Hi. destruct Hi as (k & Hk & ->).
      rewrite Hidx. split.
      * change (cap s') with (cap s). unfold idx. destruct (head s + k <? cap s) eqn:E; [lia|]. rewrite Hlen in Hk. lia.
      * cbn [mem s']. rewrite Hlen in Hk. destruct (Nat.lt_ge_cases k (len s)) as [L|L].
        -- rewrite H1 by exact L. apply HL. apply live_idx; try assumption. eauto.
        -- replace k with (len s + (k - len s)) by lia. rewrite H2 by lia. eauto.
  - exact Hlen.
  - apply list_eq_nth.
    + rewrite app_length, !abs_length. lia.
    + intros i Hi. rewrite abs_length in Hi. rewrite abs_nth by exact Hi.
      unfold cell. rewrite Hidx. cbn [mem s'].
      destruct (Nat.lt_ge_cases i (len s)) as [L|L].
      * rewrite app_nth1 by (rewrite abs_length; exact L). rewrite abs_nth by exact L.
        unfold cell. rewrite H1 by exact L. reflexivity.
      * rewrite app_nth2 by (rewrite abs_length; exact L). rewrite abs_length.
        replace i with (len s + (i - len s)) at 1 by lia. rewrite H2 by lia. reflexivity.
Qed.

(** C04, copy-from-within as an operation on the abstract queue *)
Theorem within_refines k s start n :
  Inv s -> 0 < cap s -> start + n <= len s -> n <= free s -> 1 <= k ->
  exists s', extend_from_within_unchecked k s start n = Done s' /\ Inv s' /\
             cap s' = cap s /\ head s' = head s /\ len s' = len s + n /\
             abs s' = abs s ++ firstn n (skipn start (abs s)).
Proof.
  intros HI Hc Hsl Hfr Hk.
  destruct (within_ok k s start n HI Hc Hsl Hfr Hk) as (m' & E & A & B & _).
  eexists. split; [exact E|].
  assert (length (firstn n (skipn start (abs s))) = n) as HL.
  { rewrite firstn_length, skipn_length, abs_length. lia. }
  destruct (append_lemma s n m' (firstn n (skipn start (abs s))) HI Hc Hfr HL A) as (I' & L' & A').
  - intros i Hi. rewrite B by exact Hi.
    destruct (inv_cell_some s (start + i) HI Hc ltac:(lia)) as [b Hb]. rewrite Hb. f_equal.
    rewrite nth_firstn_lt by exact Hi.
    rewrite nth_skipn_add. rewrite abs_nth by lia. unfold cell. rewrite Hb. reflexivity.
  - split; [exact I'|]. split; [reflexivity|]. split; [reflexivity|]. split; [exact L'|exact A'].
Qed.
