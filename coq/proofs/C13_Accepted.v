(** C13: every complete weight list is accepted.  If the weights of all symbols (the last one included) form a complete
    code -- their Kraft sum is 2^M with M <= 11 --, the decoder accepts the list without the last weight, builds a table
    of width M and infers exactly the last weight. *)
Require Import Zrs.lib.RsPrelude Zrs.model.BitIO Zrs.model.FseDec Zrs.model.HufDec Zrs.model.HufEnc.
Require Import Zrs.proofs.C03_Desc Zrs.proofs.C03_HufTable Zrs.proofs.C03_HufComplete Zrs.proofs.C13_Canonical.
Open Scope Z_scope.

Lemma weight_sum_is_kraft ws : forall acc, Forall (fun w => 0 <= w <= MAX_MAX_NUM_BITS) ws -> weight_sum ws acc = ROk (acc + kraft ws).
Proof.
  induction ws as [|w t IH]; intros acc H; cbn [weight_sum].
  - unfold kraft. cbn. f_equal. lia.
  - inversion H as [|? ? Hw Ht]; subst. destruct (Z.ltb_spec MAX_MAX_NUM_BITS w); [lia|]. rewrite IH by exact Ht.
    unfold kraft. cbn [fold_right]. f_equal. lia.
Qed.

Lemma kraft_app a b : kraft (a ++ b) = kraft a + kraft b.
Proof. unfold kraft. induction a as [|x a IH]; cbn [app fold_right]; [lia|]. rewrite IH. lia. Qed.

Lemma count_ranks_no_err bits : forall ranks e, count_ranks bits ranks <> RErr e.
Proof. induction bits as [|b t IH]; intros ranks e; cbn [count_ranks]; [discriminate|]. destruct (_ <=? _); [discriminate|apply IH]. Qed.
Lemma assign_codes_no_err bits : forall sym M idxs dec e, assign_codes bits sym M idxs dec <> RErr e.
Proof.
  induction bits as [|b t IH]; intros sym M idxs dec e; cbn [assign_codes]; [discriminate|].
  destruct (b =? 0); [apply IH|]. destruct (_ <=? _); [discriminate|]. destruct (_ <? _); [discriminate|apply IH].
Qed.

Theorem complete_weights_are_accepted ws lw M :
  Forall (fun w => 0 <= w <= MAX_MAX_NUM_BITS) ws -> 1 <= lw <= M -> M <= MAX_MAX_NUM_BITS ->
  0 < kraft ws -> kraft (ws ++ [lw]) = 2 ^ M ->
  exists dec bits ranks idxs, build_table_from_weights ws = ROk (dec, M, bits, ranks, idxs) /\
    bits = map (fun w => if 0 <? w then M + 1 - w else 0) ws ++ [M + 1 - lw].
Proof.
  intros Hw Hlw HM Hpos Hk. unfold MAX_MAX_NUM_BITS in *.
  rewrite kraft_app in Hk. unfold kraft at 2 in Hk. cbn [fold_right] in Hk. destruct (Z.ltb_spec 0 lw) as [_|]; [|lia]. rewrite Z.add_0_r in Hk.
  set (wsum := kraft ws) in *.
  assert (Pl : 0 < 2 ^ (lw - 1)) by (apply Z.pow_pos_nonneg; lia).
  assert (E2M : 2 ^ M = 2 * 2 ^ (M - 1)) by (rewrite <- Z.pow_succ_r by lia; f_equal; lia).
  assert (Hle : 2 ^ (lw - 1) <= 2 ^ (M - 1)) by (apply Z.pow_le_mono_r; lia).
  (* the width the decoder computes *)
  assert (Hlog : Z.log2 wsum = M - 1).
  { apply Z.log2_unique; [lia|]. replace (Z.succ (M - 1)) with M by lia. lia. }
  assert (Hnn : Forall (fun w => 0 <= w) ws) by (eapply Forall_impl; [|exact Hw]; intros a Ha; cbv beta in *; lia).
  pose proof (build_table_from_weights_never_panics ws Hnn) as NP.
  unfold build_table_from_weights in *. rewrite (weight_sum_is_kraft ws 0) in * by exact Hw. cbn [rbind Z.add] in *. fold wsum in NP |- *.
  destruct (Z.eqb_spec wsum 0); [lia|].
  unfold highest_bit_set in *. rewrite Hlog in *. replace (M - 1 + 1) with M in * by lia.
  replace (2 ^ M - wsum) with (2 ^ (lw - 1)) in * by lia.
  assert (Hp2 : is_pow2 (2 ^ (lw - 1)) = true).
  { unfold is_pow2. rewrite Z.log2_pow2 by lia. apply andb_true_intro. split; lia. }
  rewrite Hp2 in *. cbn [negb] in *. rewrite Z.log2_pow2 in * by lia. replace (lw - 1 + 1) with lw in * by lia.
  unfold MAX_MAX_NUM_BITS in *. destruct (Z.ltb_spec 11 M); [lia|].
  destruct (count_ranks _ _) as [rk|e|e] eqn:Ecr; cbn [rbind] in *; try contradiction.
  - destruct (negb _); [contradiction|]. destruct (assign_codes _ _ _ _ _) as [[ix dc]|e|e] eqn:Eac; cbn [rbind] in *; try contradiction.
    + eexists _, _, _, _. split; reflexivity.
    + exfalso. eapply assign_codes_no_err. eassumption.
  - exfalso. eapply count_ranks_no_err. eassumption.
Qed.
