(** C02: obligation O2 for Huffman-coded literals in terms of the compressor's own data: ANY complete weight list.
    If the weights of all symbols (last one included) form a complete code of depth at most 11, then the decoder accepts
    the list without the last weight, infers the last weight, and the section -- a description read back as the weights,
    four streams in the compressor's canonical code for the full list -- is read back as exactly the literals. *)
Require Import Zrs.lib.RsPrelude Zrs.gen.Generated Zrs.model.Headers Zrs.model.BitIO Zrs.model.BitStream Zrs.model.FseDec Zrs.model.HufDec Zrs.model.BlockDec Zrs.model.LitEnc Zrs.model.BlockEnc Zrs.model.HufEnc.
Require Import Zrs.proofs.C13_Canonical Zrs.proofs.C02_Concrete Zrs.proofs.C13_Agree Zrs.proofs.C02_O2Huffman Zrs.proofs.C13_Accepted.
Open Scope Z_scope.

Theorem huffman_section_for_complete_weights ws lw M :
  Forall (fun w => 0 <= w <= MAX_MAX_NUM_BITS) ws -> (length ws <= 255)%nat -> 1 <= lw <= M -> M <= MAX_MAX_NUM_BITS ->
  0 < kraft ws -> kraft (ws ++ [lw]) = 2 ^ M ->
  exists codes, enc_build_from_weights (ws ++ [lw]) = ROk codes /\
    forall h desc lits ft,
      Forall (fun s => 0 <= s <= Z.of_nat (length ws) /\ 0 < nth (Z.to_nat s) (ws ++ [lw]) 0) lits ->
      16 <= Z.of_nat (length lits) <= 131072 ->
      let payload := desc ++ huf4_bytes (code_fn codes) lits in
      read_weights h payload = ROk (ws, ft, zlen desc) -> zlen payload < zlen lits ->
      exists t, lit_ok h lits (huf_lit_header 2 (zlen lits) (zlen payload)) payload t.
Proof.
  intros Hw Hlen Hlw HM Hpos Hk.
  destruct (complete_weights_are_accepted ws lw M Hw Hlw HM Hpos Hk) as (dec & bits & ranks & idxs & Hb & Ebits).
  assert (Hnn : Forall (fun w => 0 <= w) ws) by (eapply Forall_impl; [|exact Hw]; intros a Ha; cbv beta in *; lia).
  destruct (huffman_section_meets_O2 ws dec M bits ranks idxs Hnn Hlen Hb) as (lw' & codes & Hlw' & Henc & Ebits' & Hall).
  (* the weight the decoder infers is the compressor's last weight *)
  assert (lw' = lw).
  { rewrite Ebits in Ebits'. rewrite map_app in Ebits'. cbn [map] in Ebits'. apply app_inj_tail in Ebits' as [_ E].
    unfold bits_of in E. destruct (Z.ltb_spec 0 lw'); lia. }
  subst lw'. exists codes. split; [exact Henc|exact Hall].
Qed.
