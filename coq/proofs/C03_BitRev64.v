(** C03 / C01: the 64-bit container machine of BitReaderReversed never panics (no out-of-range slice when refilling,
    no u8 overflow or underflow, no oversized shift) for any script of reads of at most 56 bits, and its
    [bits_remaining] counter follows the same law as the abstract reader's: 8 * length - bits requested so far. *)
Require Import Zrs.lib.RsPrelude Zrs.model.BitIO Zrs.model.BitRev64.
Open Scope Z_scope.

Definition BInv (r : brr) : Prop :=
  0 <= b_consumed r <= 64 /\ 0 <= b_index r /\ 0 <= b_extra r /\
  ((b_index r = Z.of_nat (length (b_src r)) /\ b_consumed r = 64) \/ b_index r + 8 <= Z.of_nat (length (b_src r)) \/ b_index r = 0).

Lemma brr_new_inv src : BInv (brr_new src) /\ brr_bits_remaining (brr_new src) = 8 * Z.of_nat (length src).
Proof. unfold BInv, brr_new, brr_bits_remaining. cbn [b_index b_consumed b_extra b_src]. split; [|lia]. split; [lia|]. split; [lia|]. split; [lia|]. left. split; reflexivity. Qed.

Lemma refill_ok r : BInv r ->
  exists r', brr_refill r = ROk r' /\ BInv r' /\ brr_bits_remaining r' = brr_bits_remaining r /\
             b_src r' = b_src r /\ (8 <= b_consumed r -> b_consumed r' < 8) /\ (b_consumed r < 8 -> r' = r).
Proof.
  intros (Hc & Hi & He & Hj). unfold brr_refill, brr_bits_remaining.
  destruct (Z.eqb_spec (b_consumed r / 8) 0) as [H0|Hn0].
  - exists r. repeat split; try assumption; try lia.
  - destruct (Z.leb_spec (b_consumed r / 8) (b_index r)) as [Hle|Hgt].
    + destruct (Z.ltb_spec (Z.of_nat (length (b_src r))) (b_index r - b_consumed r / 8 + 8)) as [Hbad|_]; [lia|].
      eexists. split; [reflexivity|]. cbn [b_index b_consumed b_extra b_src b_cont]. unfold BInv. cbn [b_index b_consumed b_extra b_src].
      repeat split; try lia.
    + destruct (Z.ltb_spec 0 (b_index r)) as [Hpos|Hzero].
      * destruct (Z.ltb_spec (b_consumed r - 8 * b_index r) 0) as [|_]; [exfalso; lia|].
        destruct (Z.leb_spec 64 (b_consumed r - 8 * b_index r)) as [|_]; [exfalso; lia|].
        eexists. split; [reflexivity|]. unfold BInv. cbn [b_index b_consumed b_extra b_src b_cont]. repeat split; try lia.
      * destruct (Z.ltb_spec (b_consumed r) 64) as [Hlt|Hge].
        -- eexists. split; [reflexivity|]. unfold BInv. cbn [b_index b_consumed b_extra b_src b_cont]. repeat split; try lia.
        -- eexists. split; [reflexivity|]. unfold BInv. cbn [b_index b_consumed b_extra b_src b_cont]. repeat split; try lia.
Qed.

Theorem get_bits_ok r n : BInv r -> 0 <= n <= 56 ->
  exists v r', brr_get_bits r n = ROk (v, r') /\ BInv r' /\ brr_bits_remaining r' = brr_bits_remaining r - n /\
               b_src r' = b_src r /\ 0 <= v < 2 ^ n.
Proof.
  intros HI Hn. pose proof HI as (Hc & Hi & He & Hj). unfold brr_get_bits.
  destruct (Z.ltb_spec 255 (b_consumed r + n)) as [|_]; [exfalso; lia|].
  assert (Hr : exists r1, (if 64 <? b_consumed r + n then brr_refill r else ROk r) = ROk r1 /\ BInv r1 /\
                          brr_bits_remaining r1 = brr_bits_remaining r /\ b_src r1 = b_src r /\ b_consumed r1 + n <= 64).
  { destruct (Z.ltb_spec 64 (b_consumed r + n)) as [Hover|Hfit].
    - destruct (refill_ok r HI) as (r1 & E & I1 & R1 & S1 & C1 & _). exists r1.
      split; [exact E|]. split; [exact I1|]. split; [exact R1|]. split; [exact S1|].
      assert (H8 : 8 <= b_consumed r) by lia. specialize (C1 H8). lia.
    - exists r. split; [reflexivity|]. split; [exact HI|]. split; [reflexivity|]. split; [reflexivity|]. lia. }
  destruct Hr as (r1 & E1 & I1 & R1 & S1 & C1). rewrite E1. cbn [rbind].
  pose proof I1 as (Hc1 & Hi1 & He1 & Hj1).
  unfold brr_peek. destruct (Z.eqb_spec n 0) as [->|Hn0]; cbn [rbind].
  - unfold brr_consume. destruct (Z.ltb_spec 255 (b_consumed r1 + 0)) as [|_]; [exfalso; lia|]. cbn [rbind].
    eexists _, _. split; [reflexivity|].
    split; [unfold BInv in *; cbn [b_index b_consumed b_extra b_src]; repeat split; lia|].
    split; [unfold brr_bits_remaining in *; cbn [b_index b_consumed b_extra b_src]; lia|].
    split; [exact S1|]. cbn. lia.
  - destruct (Z.leb_spec 64 n) as [|_]; [exfalso; lia|].
    destruct (Z.ltb_spec (64 - b_consumed r1 - n) 0) as [|_]; [exfalso; lia|]. cbn [rbind].
    unfold brr_consume. destruct (Z.ltb_spec 255 (b_consumed r1 + n)) as [|_]; [exfalso; lia|]. cbn [rbind].
    eexists _, _. split; [reflexivity|].
    split; [unfold BInv in *; cbn [b_index b_consumed b_extra b_src]; repeat split; lia|].
    split; [unfold brr_bits_remaining in *; cbn [b_index b_consumed b_extra b_src]; lia|].
    split; [exact S1|]. apply Z.mod_pos_bound. apply Z.pow_pos_nonneg; lia.
Qed.

Theorem get_bits_triple_ok r n1 n2 n3 : BInv r -> 0 <= n1 <= 56 -> 0 <= n2 <= 56 -> 0 <= n3 <= 56 ->
  exists v r', brr_get_bits_triple r n1 n2 n3 = ROk (v, r') /\ BInv r' /\
               brr_bits_remaining r' = brr_bits_remaining r - (n1 + n2 + n3) /\ b_src r' = b_src r.
Proof.
  intros HI H1 H2 H3. unfold brr_get_bits_triple.
  destruct (Z.ltb_spec 255 (n1 + n2 + n3)) as [|_]; [exfalso; lia|].
  destruct (Z.leb_spec (n1 + n2 + n3) 56) as [Hsmall|Hbig].
  - destruct (refill_ok r HI) as (r1 & E & I1 & R1 & S1 & C1 & C2). rewrite E. cbn [rbind].
    pose proof I1 as (Hc1 & Hi1 & He1 & Hj1).
    assert (Hc8 : b_consumed r1 < 8).
    { destruct (Z.lt_ge_cases (b_consumed r) 8) as [Hl|Hg]; [rewrite (C2 Hl); exact Hl|exact (C1 Hg)]. }
    unfold brr_peek_triple. destruct (Z.eqb_spec (n1 + n2 + n3) 0) as [H0|Hn0]; cbn [rbind].
    + unfold brr_consume. destruct (Z.ltb_spec 255 (b_consumed r1 + (n1 + n2 + n3))) as [|_]; [exfalso; lia|]. cbn [rbind].
      eexists _, _. split; [reflexivity|].
      split; [unfold BInv in *; cbn [b_index b_consumed b_extra b_src]; repeat split; lia|].
      split; [unfold brr_bits_remaining in *; cbn [b_index b_consumed b_extra b_src]; lia|exact S1].
    + destruct (Z.ltb_spec (64 - b_consumed r1 - (n1 + n2 + n3)) 0) as [|_]; [exfalso; lia|]. cbn [rbind].
      unfold brr_consume. destruct (Z.ltb_spec 255 (b_consumed r1 + (n1 + n2 + n3))) as [|_]; [exfalso; lia|]. cbn [rbind].
      eexists _, _. split; [reflexivity|].
      split; [unfold BInv in *; cbn [b_index b_consumed b_extra b_src]; repeat split; lia|].
      split; [unfold brr_bits_remaining in *; cbn [b_index b_consumed b_extra b_src]; lia|exact S1].
  - destruct (get_bits_ok r n1 HI H1) as (v1 & r1 & E1 & I1 & R1 & S1 & _). rewrite E1. cbn [rbind].
    destruct (get_bits_ok r1 n2 I1 H2) as (v2 & r2 & E2 & I2 & R2 & S2 & _). rewrite E2. cbn [rbind].
    destruct (get_bits_ok r2 n3 I2 H3) as (v3 & r3 & E3 & I3 & R3 & S3 & _). rewrite E3. cbn [rbind].
    eexists _, _. split; [reflexivity|]. split; [exact I3|]. split; [lia|]. rewrite S3, S2, S1. reflexivity.
Qed.

(** the abstract reader's counter follows the same law *)
Lemma rbr_get_bits_count r n : 0 <= n -> rbr_bits_remaining (snd (rbr_get_bits r n)) = rbr_bits_remaining r - n.
Proof.
  intros Hn. unfold rbr_get_bits, rbr_bits_remaining.
  destruct (Z.leb_spec n 0) as [H0|Hpos]; [cbn [snd]; lia|].
  destruct (Z.leb_spec n (r_left r)); cbn [snd r_left r_extra]; lia.
Qed.

Definition op_bits (o : Z + Z * Z * Z) : Z := match o with inl n => n | inr (a, b, c) => a + b + c end.
Definition op_ok (o : Z + Z * Z * Z) : Prop :=
  match o with inl n => 0 <= n <= 56 | inr (a, b, c) => 0 <= a <= 56 /\ 0 <= b <= 56 /\ 0 <= c <= 56 end.

(** the counter values a script must produce: the start value minus the bits requested so far *)
Fixpoint counts (start : Z) (ops : list (Z + Z * Z * Z)) : list Z :=
  match ops with [] => [] | o :: t => (start - op_bits o) :: counts (start - op_bits o) t end.

(** any script of reads of at most 56 bits each: no panic, and after every read the counter is the initial one minus
    the bits requested so far *)
Theorem brr_run_ok ops : forall r, BInv r -> Forall op_ok ops ->
  exists out, brr_run r ops = ROk out /\ map snd out = counts (brr_bits_remaining r) ops.
Proof.
  induction ops as [|o t IH]; intros r HI Ho.
  - exists []. split; reflexivity.
  - inversion Ho as [|? ? H1 H2]; subst. cbn [brr_run counts].
    destruct o as [n|[[n1 n2] n3]]; cbn [op_ok op_bits] in *.
    + destruct (get_bits_ok r n HI H1) as (v & r1 & E & I1 & R1 & _). rewrite E. cbn [rbind].
      destruct (IH r1 I1 H2) as (out & Eo & Mo). rewrite Eo. cbn [rbind].
      eexists. split; [reflexivity|]. cbn [map snd]. rewrite Mo, R1. reflexivity.
    + destruct H1 as (A & B & C).
      destruct (get_bits_triple_ok r n1 n2 n3 HI A B C) as (v & r1 & E & I1 & R1 & _). rewrite E. cbn [rbind].
      destruct v as [[v1 v2] v3].
      destruct (IH r1 I1 H2) as (out & Eo & Mo). rewrite Eo. cbn [rbind].
      eexists. split; [reflexivity|]. cbn [map snd]. rewrite Mo, R1. reflexivity.
Qed.

(** the abstract reader produces the same counters for the same script *)
Lemma rbr_triple_count r n1 n2 n3 : 0 <= n1 -> 0 <= n2 -> 0 <= n3 ->
  rbr_bits_remaining (snd (rbr_get_bits_triple r n1 n2 n3)) = rbr_bits_remaining r - (n1 + n2 + n3).
Proof.
  intros H1 H2 H3. unfold rbr_get_bits_triple.
  pose proof (rbr_get_bits_count r n1 H1) as C1. destruct (rbr_get_bits r n1) as [v1 r1]. cbn [snd] in C1.
  pose proof (rbr_get_bits_count r1 n2 H2) as C2. destruct (rbr_get_bits r1 n2) as [v2 r2]. cbn [snd] in C2.
  pose proof (rbr_get_bits_count r2 n3 H3) as C3. destruct (rbr_get_bits r2 n3) as [v3 r3]. cbn [snd] in *. lia.
Qed.

Theorem rbr_run_counts ops : forall r, Forall op_ok ops -> map snd (rbr_run r ops) = counts (rbr_bits_remaining r) ops.
Proof.
  induction ops as [|o t IH]; intros r Ho; [reflexivity|].
  inversion Ho as [|? ? H1 H2]; subst. cbn [rbr_run counts].
  destruct o as [n|[[n1 n2] n3]]; cbn [op_ok op_bits] in *.
  - pose proof (rbr_get_bits_count r n ltac:(lia)) as C. destruct (rbr_get_bits r n) as [v r1]. cbn [snd] in C.
    cbn [map snd]. rewrite (IH r1 H2), C. reflexivity.
  - destruct H1 as (A & B & C0).
    pose proof (rbr_triple_count r n1 n2 n3 ltac:(lia) ltac:(lia) ltac:(lia)) as C.
    destruct (rbr_get_bits_triple r n1 n2 n3) as [[[v1 v2] v3] r1]. cbn [snd] in C.
    cbn [map snd]. rewrite (IH r1 H2), C. reflexivity.
Qed.

(** hence: on every script the container machine and the abstract reader report the same [bits_remaining] after
    every read -- the quantity all "not enough bits" / "extra bits" decisions of the decoder are taken on *)
Corollary counters_agree src ops out : Forall op_ok ops -> brr_run (brr_new src) ops = ROk out ->
  map snd out = map snd (rbr_run (rbr_new src) ops).
Proof.
  intros Ho H. destruct (brr_new_inv src) as (HI & Hr).
  destruct (brr_run_ok ops (brr_new src) HI Ho) as (out' & E & M). rewrite E in H. injection H as <-.
  rewrite M, (rbr_run_counts ops (rbr_new src) Ho), Hr. unfold rbr_bits_remaining, rbr_new. cbn [r_left r_extra]. f_equal. lia.
Qed.
