(** C02: level Fastest, whole frames, with the block encoder spelled out: built-in match finder, [compress_block]'s
    split into literal buffer and triples, any literals-section encoder that the decoder reads back, FSE-coded
    sequence tables from any normaliser whose distributions meet the decidable side conditions.  The four obligations of
    C02_Fastest.v are PROVED for this block encoder; what remains assumed is stated about the two table builders only
    (and is evaluated on every block of every run by the correspondence check). *)
Require Import Zrs.lib.RsPrelude Zrs.gen.Generated Zrs.model.Headers Zrs.model.BitIO Zrs.model.FseDec Zrs.model.HufDec Zrs.model.BlockDec
  Zrs.model.FrameDec Zrs.model.FrameEnc Zrs.model.Matcher.
Require Import Zrs.model.SeqEnc Zrs.model.FseEnc Zrs.model.SeqSection Zrs.model.BlockEnc Zrs.model.LitEnc.
Require Import Zrs.proofs.C06_Drain Zrs.proofs.C09_Lz Zrs.proofs.C17_Matcher Zrs.proofs.C12_SeqStream Zrs.proofs.C12_Desc Zrs.proofs.C12_Section
  Zrs.proofs.C13_Stream Zrs.proofs.C02_Block Zrs.proofs.C02_Roundtrip.
Require Import Zrs.proofs.C17_Shape Zrs.proofs.C02_Glue Zrs.proofs.C02_FastBlock.
Require Import Zrs.proofs.C02_BlockGen Zrs.proofs.C13_LitSection Zrs.proofs.C02_HufBlock Zrs.proofs.C02_FastGen Zrs.proofs.C02_Fastest.
Open Scope Z_scope.

(** *** the side conditions imply that the section can be written *)
Lemma hyps_section_exists dl do dm seqs : section_hyps_b dl do dm seqs = true -> exists sec, section_bytes dl do dm seqs = ROk sec.
Proof.
  unfold section_hyps_b, section_bytes. intros Hh.
  destruct (map_res to_cseq seqs) as [qs|e|e]; try discriminate.
  destruct (build_table MAX_LITERAL_LENGTH_CODE dl) as [Dll|e|e]; try discriminate.
  destruct (build_table MAX_OFFSET_CODE do) as [Dof|e|e]; try discriminate.
  destruct (build_table MAX_MATCH_LENGTH_CODE dm) as [Dml|e|e]; try discriminate.
  cbn [rbind].
  apply andb_prop in Hh as [Hh _]. apply andb_prop in Hh as [Hh _]. apply andb_prop in Hh as [Hh _].
  apply andb_prop in Hh as [Hh _]. apply andb_prop in Hh as [Hh _]. apply andb_prop in Hh as [Hh _].
  apply andb_prop in Hh as [Hh S3]. apply andb_prop in Hh as [S1 S2].
  destruct (dist_side_ok _ _ _ S1) as (D1 & A1 & L1). destruct (dist_side_ok _ _ _ S2) as (D2 & A2 & L2).
  destruct (dist_side_ok _ _ _ S3) as (D3 & A3 & L3).
  unfold LL_MAX_LOG, OF_MAX_LOG, ML_MAX_LOG in *.
  destruct (description_roundtrip (fst dl) (snd dl) MAX_LITERAL_LENGTH_CODE 9 [0] ltac:(lia) ltac:(lia) D1 L1 ltac:(discriminate)) as (a & -> & _).
  destruct (description_roundtrip (fst do) (snd do) MAX_OFFSET_CODE 8 [0] ltac:(lia) ltac:(lia) D2 L2 ltac:(discriminate)) as (b & -> & _).
  destruct (description_roundtrip (fst dm) (snd dm) MAX_MATCH_LENGTH_CODE 9 [0] ltac:(lia) ltac:(lia) D3 L3 ltac:(discriminate)) as (c & -> & _).
  eexists. reflexivity.
Qed.

Lemma seq_part_exists dl do dm seqs : Z.of_nat (length seqs) <= 98047 ->
  (seqs <> [] -> section_hyps_b dl do dm seqs = true) -> exists sp, seq_part dl do dm seqs = ROk sp.
Proof.
  intros Hn Hh. unfold seq_part. destruct seqs as [|q qs]; [eexists; reflexivity|].
  specialize (Hh ltac:(discriminate)). destruct (hyps_section_exists _ _ _ _ Hh) as (sec & ->).
  rewrite encode_seqnum_spec by (cbn [length] in *; lia). cbn [rbind]. eexists. reflexivity.
Qed.

(** *** what the match finder reports is within the coded value ranges *)
Lemma matcher_seqs_in_range w ms : Forall (seq_bounds w) ms -> Z.of_nat w < 2 ^ 31 -> Z.of_nat (mseqs_bytes ms) <= 131072 ->
  forallb seq_range_b (mseqs_seqs ms) = true.
Proof.
  intros Hb Hw. induction Hb as [|s t Hs _ IH]; intros Hl; [reflexivity|].
  cbn [mseqs_bytes] in Hl. unfold mseqs_seqs in *. cbn [flat_map]. rewrite forallb_app. rewrite IH by lia. rewrite andb_true_r.
  destruct s as [l|l off ml]; [reflexivity|]. cbn [seq_bounds mseq_bytes] in *. unfold MIN_MATCH in Hs.
  cbn [forallb]. unfold seq_range_b. cbn [sq_ll sq_ml sq_of]. unfold zlen.
  rewrite andb_true_r. repeat (apply andb_true_intro; split); lia.
Qed.

(** *** the block encoder *)
Record cst := { c_d : mgd; c_ht : option huf_table }.

Definition lit_ok (h : huf_table) (lits hdr payload : list Z) (ht' : huf_table) : Prop :=
  exists ty regen comp streams,
    (forall rest, lit_header_parse (hdr ++ rest) = ROk (zlen hdr, ty, regen, comp, streams)) /\
    match comp with Some x => x | None => if ty =? 1 then 1 else regen end = zlen payload /\
    (regen = zlen lits /\ regen <= MAX_BLOCK_SIZE) /\
    decode_literals {| ls_type := ty; ls_regen := regen; ls_comp := comp; ls_streams := streams |} h payload = ROk (ht', lits, zlen payload).

Lemma raw_lit_ok h lits : zlen lits <= MAX_BLOCK_SIZE -> lit_ok h lits (raw_lit_header (zlen lits)) lits h.
Proof.
  intros Hl. change MAX_BLOCK_SIZE with 131072 in *. exists 0, (zlen lits), None, None.
  assert (H0 : 0 <= zlen lits < 2 ^ 20) by (unfold zlen in *; lia).
  split; [intros rest; rewrite raw_lit_header_parse by exact H0; reflexivity|].
  split; [reflexivity|]. split; [split; [reflexivity|change MAX_BLOCK_SIZE with 131072; exact Hl]|].
  unfold decode_literals. cbn [ls_type ls_regen]. change (0 =? 0) with true. cbv iota.
  destruct (Z.ltb_spec (zlen lits) (zlen lits)) as [H|_]; [lia|].
  unfold take_z, zlen. rewrite Nat2Z.id, firstn_all. reflexivity.
Qed.

Section Concrete.
  (** the two table builders that are not modelled: the normaliser of the three code histograms, and the literals
      encoder (which also decides what table the compressor remembers) *)
  Variable norm : list sequence -> dist * dist * dist.
  Variable litenc : option huf_table -> list Z -> list Z * list Z * option huf_table.
  Hypothesis O1 : forall seqs, seqs <> [] -> forallb seq_range_b seqs = true -> Z.of_nat (length seqs) <= 98047 ->
    let '(dl, do, dm) := norm seqs in section_hyps_b dl do dm seqs = true.
  Hypothesis O2 : forall o lits h, (forall t, o = Some t -> h = t) -> zlen lits <= MAX_BLOCK_SIZE ->
    let '(hdr, payload, o') := litenc o lits in
    exists ht', lit_ok h lits hdr payload ht' /\ (forall t, o' = Some t -> ht' = t).

  Definition cblock (cs : cst) (blk : list Z) : list Z * cst :=
    match mstep (c_d cs) (OpBlock blk false) with
    | ROk (d', Some ms) =>
        let lits := mseqs_lits ms in
        let seqs := mseqs_seqs ms in
        let '(hdr, payload, o') := litenc (c_ht cs) lits in
        let '(dl, do, dm) := norm seqs in
        match seq_part dl do dm seqs with
        | ROk sp => (hdr ++ payload ++ sp, {| c_d := d'; c_ht := o' |})
        | _ => ([], {| c_d := d'; c_ht := o' |})
        end
    | _ => ([], cs)
    end.
  Definition cskip (cs : cst) (blk : list Z) : cst :=
    match mstep (c_d cs) (OpBlock blk true) with
    | ROk (d', _) => {| c_d := d'; c_ht := c_ht cs |}
    | _ => cs
    end.
  Definition cfallback (cs : cst) : cst := {| c_d := c_d cs; c_ht := None |}.
  Definition creset (cs : cst) : cst := {| c_d := mgd_reset (c_d cs); c_ht := None |}.

  Definition alphabets (s : fse_scratch) : Prop :=
    t_max_symbol (fs_ll s) = MAX_LITERAL_LENGTH_CODE /\ t_max_symbol (fs_of s) = MAX_OFFSET_CODE /\
    t_max_symbol (fs_ml s) = MAX_MATCH_LENGTH_CODE.

  Definition Rel (cs : cst) (sc : scratch) : Prop :=
    DInv (c_d cs) /\ 131072 <= Z.of_nat (max_window (c_d cs)) < 2 ^ 31 /\
    db_wf (sc_buf sc) /\ (exists pre, db_rev (sc_buf sc) = rev (retained (c_d cs)) ++ pre) /\
    hist3 (sc_hist sc) /\ alphabets (sc_fse sc) /\ (forall t, c_ht cs = Some t -> sc_huf sc = t).
  Definition Cinit (cs : cst) : Prop := DInv (c_d cs) /\ 131072 <= Z.of_nat (max_window (c_d cs)) < 2 ^ 31.

  Lemma fits cs sc (blk : list Z) : Rel cs sc -> Z.of_nat (length blk) <= 131072 -> (length blk <= max_window (c_d cs))%nat.
  Proof. intros (_ & Hw & _) H. lia. Qed.

  Lemma push_raw_rel cs sc blk d' (ht : option huf_table) dropped H :
    Rel cs sc -> DInv d' -> max_window d' = max_window (c_d cs) ->
    retained (c_d cs) = dropped ++ H -> retained d' = H ++ blk -> (forall t, ht = Some t -> sc_huf sc = t) ->
    Rel {| c_d := d'; c_ht := ht |} (sc_push_raw sc blk).
  Proof.
    intros (HI & Hw & W & (pre & R) & H3 & Al & Ht) HI' Hmw R1 R2 Ht'.
    unfold Rel. cbn [c_d c_ht]. unfold sc_push_raw. cbn [sc_buf sc_hist sc_fse sc_huf].
    split; [exact HI'|]. split; [rewrite Hmw; exact Hw|]. split.
    { unfold db_wf, db_append_raw in *. cbn [db_len db_rev]. rewrite rev_append_rev, app_length, rev_length, W. lia. }
    split.
    { exists (rev dropped ++ pre). unfold db_append_raw. cbn [db_rev]. rewrite rev_append_rev, R, R1, R2, !rev_app_distr, <- !app_assoc. reflexivity. }
    split; [exact H3|]. split; [exact Al|exact Ht'].
  Qed.

  Lemma H_skip : forall cs sc blk, Rel cs sc -> blk <> [] -> Z.of_nat (length blk) <= 131072 ->
    all_same blk = true -> Rel (cskip cs blk) (sc_push_raw sc blk).
  Proof.
    intros cs sc blk HR _ Hsz _. pose proof HR as (HI & Hw & W & (pre & R) & H3 & Al & Ht).
    destruct (mstep_spec (c_d cs) (OpBlock blk true) HI (fits cs sc blk HR Hsz)) as (d' & out & E & HI' & Hmw & dr & H & R1 & R2 & _).
    unfold cskip. rewrite E. eapply push_raw_rel; eassumption.
  Qed.

  Lemma cblock_spec cs sc blk : Rel cs sc -> Z.of_nat (length blk) <= 131072 ->
    exists d' ms hdr payload o' dl do dm sp dr H,
      mstep (c_d cs) (OpBlock blk false) = ROk (d', Some ms) /\
      litenc (c_ht cs) (mseqs_lits ms) = (hdr, payload, o') /\ norm (mseqs_seqs ms) = (dl, do, dm) /\
      seq_part dl do dm (mseqs_seqs ms) = ROk sp /\
      cblock cs blk = (hdr ++ payload ++ sp, {| c_d := d'; c_ht := o' |}) /\
      DInv d' /\ max_window d' = max_window (c_d cs) /\ retained (c_d cs) = dr ++ H /\ retained d' = H ++ blk /\
      (mseqs_seqs ms <> [] -> section_hyps_b dl do dm (mseqs_seqs ms) = true) /\
      Z.of_nat (length (mseqs_seqs ms)) <= 98047 /\ zlen (mseqs_lits ms) <= MAX_BLOCK_SIZE.
  Proof.
    intros HR Hsz. pose proof HR as (HI & Hw & W & (pre & R) & H3 & Al & Ht).
    destruct (mstep_spec (c_d cs) (OpBlock blk false) HI (fits cs sc blk HR Hsz)) as (d' & out & E & HI' & Hmw & dr & H & R1 & R2 & R3 & ms & -> & A & B).
    pose proof (apply_seqs_length _ _ _ A) as Ltot. rewrite app_length in Ltot.
    assert (Hlong : Forall long_enough ms) by (eapply Forall_impl; [|exact B]; intros; eapply seq_bounds_long; eassumption).
    pose proof (mseqs_seqs_count _ Hlong) as Lseq. pose proof (mseqs_lits_length ms) as Llit.
    assert (Hcount : Z.of_nat (length (mseqs_seqs ms)) <= 98047) by lia.
    assert (Hrange : forallb seq_range_b (mseqs_seqs ms) = true) by (apply (matcher_seqs_in_range (max_window (c_d cs))); [exact B|lia|lia]).
    destruct (litenc (c_ht cs) (mseqs_lits ms)) as [[hdr payload] o'] eqn:El.
    destruct (norm (mseqs_seqs ms)) as [[dl do] dm] eqn:En.
    assert (Hh : mseqs_seqs ms <> [] -> section_hyps_b dl do dm (mseqs_seqs ms) = true).
    { intros Hne. pose proof (O1 (mseqs_seqs ms) Hne Hrange Hcount) as Ho. rewrite En in Ho. exact Ho. }
    destruct (seq_part_exists dl do dm (mseqs_seqs ms) Hcount Hh) as (sp & Esp).
    exists d', ms, hdr, payload, o', dl, do, dm, sp, dr, H.
    unfold cblock. rewrite E, El, En, Esp. change MAX_BLOCK_SIZE with 131072. unfold zlen.
    split; [reflexivity|]. split; [reflexivity|]. split; [reflexivity|]. split; [reflexivity|]. split; [reflexivity|].
    split; [exact HI'|]. split; [exact Hmw|]. split; [exact R1|]. split; [exact R2|]. split; [exact Hh|]. split; [exact Hcount|]. lia.
  Qed.

  Lemma H_fallback : forall cs sc blk body cs', Rel cs sc -> blk <> [] -> Z.of_nat (length blk) <= 131072 ->
    cblock cs blk = (body, cs') -> Rel (cfallback cs') (sc_push_raw sc blk).
  Proof.
    intros cs sc blk body cs' HR _ Hsz Hc.
    destruct (cblock_spec cs sc blk HR Hsz) as (d' & ms & hdr & payload & o' & dl & do & dm & sp & dr & H & E & El & En & Esp & Ec & HI' & Hmw & R1 & R2 & _).
    rewrite Ec in Hc. injection Hc as _ <-. unfold cfallback. cbn [c_d c_ht].
    eapply push_raw_rel; try eassumption. discriminate.
  Qed.

  Lemma H_block : forall cs sc blk body cs', Rel cs sc -> blk <> [] -> Z.of_nat (length blk) <= 131072 ->
    cblock cs blk = (body, cs') -> all_same blk = false ->
    (length body < length blk)%nat -> Z.of_nat (length body) <= MAX_BLOCK_SIZE ->
    exists sc', decompress_block (Z.of_nat (length body)) sc body = ROk sc' /\
                sc_content sc' = sc_content sc ++ blk /\ Rel cs' sc'.
  Proof.
    intros cs sc blk body cs' HR _ Hsz Hc _ _ _.
    destruct (cblock_spec cs sc blk HR Hsz) as (d' & ms & hdr & payload & o' & dl & do & dm & sp & dr & H & E & El & En & Esp & Ec & HI' & Hmw & R1 & R2 & Hh & Hcount & Hlit).
    rewrite Ec in Hc. injection Hc as <- <-.
    pose proof HR as (HI & Hw & W & (pre & R) & H3 & (M1 & M2 & M3) & Ht).
    pose proof (O2 (c_ht cs) (mseqs_lits ms) (sc_huf sc) Ht Hlit) as Ho. rewrite El in Ho.
    destruct Ho as (ht' & (ty & regen & comp & streams & L1 & L2 & L3 & L4) & Ho').
    destruct (fastest_block_step hdr payload ty regen comp streams sc ht' (mseqs_lits ms) L1 L2 L3 L4
                (c_d cs) blk d' ms dl do dm sp pre HI (fits cs sc blk HR Hsz) ltac:(change MAX_BLOCK_SIZE with 131072; lia) E eq_refl Esp Hh M1 M2 M3 W R H3)
      as (sc' & pre' & Hdec & Rd & W' & R' & H3' & Hu & _ & _ & N1 & N2 & N3).
    exists sc'. split; [exact Hdec|]. split.
    { unfold sc_content. rewrite Rd, rev_app_distr, rev_involutive. reflexivity. }
    unfold Rel. cbn [c_d c_ht]. split; [exact HI'|]. split; [rewrite Hmw; exact Hw|]. split; [exact W'|].
    split; [exists pre'; exact R'|]. split; [exact H3'|]. split; [repeat split; assumption|].
    intros t Et. rewrite Hu. apply Ho'. exact Et.
  Qed.

  Lemma H_reset : forall cs w, Cinit cs -> Rel (creset cs) (scratch_new w).
  Proof.
    intros cs w (HI & Hw).
    destruct (mstep_spec (c_d cs) OpReset HI I) as (d' & out & E & HI' & Hmw & _ & Hr).
    cbn [mstep] in E. injection E as <- _.
    unfold Rel, creset, scratch_new. cbn [c_d c_ht sc_buf sc_hist sc_fse sc_huf].
    split; [exact HI'|]. split; [rewrite Hmw; exact Hw|]. split; [reflexivity|].
    split; [exists []; rewrite Hr; reflexivity|]. split; [eexists _, _, _; reflexivity|].
    split; [repeat split|]. discriminate.
  Qed.

  (** level Fastest, every input, every fragmentation of the reads, every block size, every reuse history of the
      compressor: the frame initialises a new decoder, decodes completely, leaves nothing behind, regenerates the input
      and carries the checksum *)
  Theorem fastest_roundtrip_concrete slice wsize hash32 cs data script frame cs' r' :
    Cinit cs -> 1 <= Z.of_nat slice <= 131072 -> 1 <= wsize <= 2 ^ 27 ->
    (forall h x, hash32 = Some h -> length (h x) = 4%nat) ->
    compress_frame cst cblock cskip cfallback creset LFastest slice wsize hash32 cs
      {| rd_data := data; rd_script := script |} = ROk (frame, cs', r') ->
    exists d1 rest evs s1 d2 s2,
      fdec_reset fdec_new frame = ROk (d1, rest, evs) /\ fd_state d1 = Some s1 /\
      fdec_decode_blocks d1 rest SAll = ROk (d2, [], true) /\ fd_state d2 = Some s2 /\
      buf_content s2 = data /\
      fr_checksum s2 = match hash32 with Some h => Some (le_val (h data)) | None => None end.
  Proof.
    apply (fastest_roundtrip cst cblock cskip cfallback Rel H_block H_skip H_fallback creset Cinit H_reset).
  Qed.
End Concrete.
