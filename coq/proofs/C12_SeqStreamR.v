(** C12 / C01 / C14: the sequences bit stream when some of the three tables are in RLE mode.  An RLE table contributes
    no bits at all -- neither a start state nor transitions -- and its code is the RLE byte; the writer is the same
    [enc_fields] with the degenerate encoder table [E_rle] (every field it emits has width zero).  Generalises
    C12_SeqStream.v (which is the case of no RLE table). *)
Require Import Zrs.lib.RsPrelude Zrs.gen.Generated Zrs.model.BitIO Zrs.model.FseDec Zrs.model.HufDec Zrs.model.BlockDec.
Require Import Zrs.model.BitStream Zrs.model.SeqEnc Zrs.proofs.C12_Stream Zrs.proofs.C12_SeqStream.
Open Scope Z_scope.

Definition E_rle : enc_table := {| et_start := fun _ => es0; et_next := fun _ _ => es0; et_log := 0 |}.

(** a table as the decoder holds it (with its RLE byte) against the writer's table, on the symbols [syms] *)
Definition tagree (D : fse_table) (rle : option Z) (E : enc_table) (syms : list Z) : Prop :=
  match rle with None => agree D E syms | Some c => E = E_rle /\ syms = [c] end.

(** the decoder's state for the writer's state [cur] of symbol [sym] *)
Definition st_is (D : fse_table) (rle : option Z) (sym : Z) (cur : enc_state) (st : fse_entry) : Prop :=
  match rle with
  | None => entry_is D sym cur /\ st = nth_e (t_decode D) (es_index cur)
  | Some c => st = fse_dec_new D /\ sym = c /\ cur = es0
  end.
Definition idx_ok (D : fse_table) (rle : option Z) (i : Z) : Prop :=
  match rle with None => 0 <= i < t_len D | Some _ => i = 0 end.

Lemma code_of_st D rle sym cur st : st_is D rle sym cur st -> code_of rle st = sym.
Proof.
  unfold st_is, code_of. destruct rle as [c|].
  - intros (_ & -> & _). reflexivity.
  - intros ((_ & He) & ->). rewrite He. reflexivity.
Qed.

Lemma zero_field A v : fields_bits (A ++ [(v, 0%nat)]) = fields_bits A.
Proof. rewrite fields_bits_snoc. cbn [byte_bits_lsb]. apply app_nil_r. Qed.

Definition scr (Dll : fse_table) (rll : option Z) (Dml : fse_table) (rml : option Z) (Dof : fse_table) (rof : option Z) : fse_scratch :=
  {| fs_of := Dof; fs_of_rle := rof; fs_ll := Dll; fs_ll_rle := rll; fs_ml := Dml; fs_ml_rle := rml |}.

(** one transition, either kind of table *)
Lemma step_reads D rle E syms sym st cur target A :
  tagree D rle E syms -> In sym syms -> idx_ok D rle target -> cur = et_next E sym target -> st_is D rle sym cur st ->
  exists st', (match rle with None => fse_update_state D st (rd (rev (fields_bits (A ++ [(target - es_base cur, es_bits cur)])))) 
                            | Some _ => ROk (st, rd (rev (fields_bits (A ++ [(target - es_base cur, es_bits cur)])))) end)
              = ROk (st', rd (rev (fields_bits A))) /\
              (forall sym' , In sym' syms -> True) /\
              match rle with None => st' = nth_e (t_decode D) target | Some _ => st' = fse_dec_new D end.
Proof.
  intros Hag Hin Hidx Hcur Hst. destruct rle as [c|]; cbn [tagree st_is idx_ok] in *.
  - destruct Hag as (-> & ->). destruct Hst as (-> & _ & _). subst cur. cbn [E_rle et_next es0 es_bits es_base].
    rewrite zero_field. eexists. split; [reflexivity|]. split; [auto|reflexivity].
  - destruct Hst as ((_ & He) & ->). rewrite He. subst cur.
    rewrite (update_reads D E syms sym _ target A Hag Hin Hidx eq_refl). eexists. split; [reflexivity|]. split; [auto|reflexivity].
Qed.

Lemma start_reads D rle E syms idx A : tagree D rle E syms -> idx_ok D rle idx ->
  (match rle with None => fse_init_state D (rd (rev (fields_bits (A ++ [(idx, et_log E)]))))
               | Some _ => ROk (fse_dec_new D, rd (rev (fields_bits (A ++ [(idx, et_log E)])))) end)
  = ROk (match rle with None => nth_e (t_decode D) idx | Some _ => fse_dec_new D end, rd (rev (fields_bits A))).
Proof.
  intros Hag Hidx. destruct rle as [c|]; cbn [tagree idx_ok] in *.
  - destruct Hag as (-> & _). cbn [E_rle et_log]. rewrite zero_field. reflexivity.
  - apply (init_reads D E syms idx A Hag Hidx).
Qed.

(** facts about the writer's states *)
Lemma start_state_is D rle E syms sym : tagree D rle E syms -> In sym syms ->
  st_is D rle sym (et_start E sym) (match rle with None => nth_e (t_decode D) (es_index (et_start E sym)) | Some _ => fse_dec_new D end) /\
  idx_ok D rle (es_index (et_start E sym)).
Proof.
  intros Hag Hin. destruct rle as [c|]; cbn [tagree st_is idx_ok] in *.
  - destruct Hag as (-> & ->). destruct Hin as [<-|[]]. cbn. repeat split; reflexivity.
  - destruct Hag as (_ & _ & G). destruct (G sym Hin) as (Hs & _). split; [split; [exact Hs|reflexivity]|exact (proj1 Hs)].
Qed.
Lemma next_state_is D rle E syms sym target : tagree D rle E syms -> In sym syms -> idx_ok D rle target ->
  st_is D rle sym (et_next E sym target) (match rle with None => nth_e (t_decode D) (es_index (et_next E sym target)) | Some _ => fse_dec_new D end) /\
  idx_ok D rle (es_index (et_next E sym target)).
Proof.
  intros Hag Hin Hidx. destruct rle as [c|]; cbn [tagree st_is idx_ok] in *.
  - destruct Hag as (-> & ->). destruct Hin as [<-|[]]. cbn. repeat split; reflexivity.
  - destruct Hag as (_ & _ & G). destruct (G sym Hin) as (_ & Hn). destruct (Hn target Hidx) as (Hs & _).
    split; [split; [exact Hs|reflexivity]|exact (proj1 Hs)].
Qed.

Definition stx (D : fse_table) (rle : option Z) (idx : Z) : fse_entry :=
  match rle with None => nth_e (t_decode D) idx | Some _ => fse_dec_new D end.

Lemma step_reads' D rle E syms sym cur target A :
  tagree D rle E syms -> In sym syms -> idx_ok D rle target -> cur = et_next E sym target ->
  (match rle with None => fse_update_state D (stx D rle (es_index cur)) (rd (rev (fields_bits (A ++ [(target - es_base cur, es_bits cur)]))))
               | Some _ => ROk (stx D rle (es_index cur), rd (rev (fields_bits (A ++ [(target - es_base cur, es_bits cur)])))) end)
  = ROk (stx D rle target, rd (rev (fields_bits A))).
Proof.
  intros Hag Hin Hidx Hcur.
  destruct (next_state_is D rle E syms sym target Hag Hin Hidx) as (Hst & _). rewrite <- Hcur in Hst.
  destruct (step_reads D rle E syms sym _ cur target A Hag Hin Hidx Hcur Hst) as (st' & Hr & _ & Hs').
  unfold stx. destruct rle as [c|]; rewrite Hr, Hs'; reflexivity.
Qed.

Section DecR.
  Variables (Ell Eml Eof : enc_table) (Dll Dml Dof : fse_table) (rll rml rof : option Z).
  Variable syms_ll syms_ml syms_of : list Z.
  Hypothesis All : tagree Dll rll Ell syms_ll.
  Hypothesis Aml : tagree Dml rml Eml syms_ml.
  Hypothesis Aof : tagree Dof rof Eof syms_of.
  Let S := scr Dll rll Dml rml Dof rof.

  Lemma seq_loop_reads_r qs : forall A total done acc sl sm so fs,
    qs <> [] -> Forall cseq_ok qs -> Forall (q_in syms_ll syms_ml syms_of) qs ->
    enc_body Ell Eml Eof qs = (sl, sm, so, fs) -> done + Z.of_nat (length qs) = total ->
    exists vals,
      Forall2 (fun q v => cseq_value q = Some v) qs vals /\
      seq_loop (length qs) total S (stx Dll rll sl) (stx Dml rml sm) (stx Dof rof so)
               (rd (rev (fields_bits (A ++ fs)))) done acc
      = ROk (rev vals ++ acc, rd (rev (fields_bits A))) /\
      idx_ok Dll rll sl /\ idx_ok Dml rml sm /\ idx_ok Dof rof so.
  Proof.
    unfold S. induction qs as [|q rest IH]; intros A total done acc sl sm so fs Hne Hok Hin Eb Ht; [congruence|].
    inversion Hok as [|? ? Hq Hok']; subst. inversion Hin as [|? ? Hqi Hin']; subst.
    destruct Hq as (Hal & Ham & Hco & Hao & (bl & Ell_) & (bm & Eml_)). destruct Hqi as (Il & Im & Io).
    (* the states we are in *)
    assert (Hst : exists cl cm co, st_is Dll rll (c_ll q) cl (stx Dll rll sl) /\ st_is Dml rml (c_ml q) cm (stx Dml rml sm) /\
                  st_is Dof rof (c_of q) co (stx Dof rof so) /\
                  sl = es_index cl /\ sm = es_index cm /\ so = es_index co /\
                  idx_ok Dll rll sl /\ idx_ok Dml rml sm /\ idx_ok Dof rof so /\
                  match rest with
                  | [] => fs = extras q
                  | _ => exists sl' sm' so' fs', enc_body Ell Eml Eof rest = (sl', sm', so', fs') /\
                          cl = et_next Ell (c_ll q) sl' /\ cm = et_next Eml (c_ml q) sm' /\ co = et_next Eof (c_of q) so' /\
                          fs = fs' ++ [(so' - es_base co, es_bits co); (sm' - es_base cm, es_bits cm); (sl' - es_base cl, es_bits cl)] ++ extras q
                  end).
    { destruct rest as [|q2 rest2].
      - cbn [enc_body] in Eb. injection Eb as <- <- <- <-.
        destruct (start_state_is Dll rll Ell syms_ll (c_ll q) All Il) as (S1 & X1).
        destruct (start_state_is Dml rml Eml syms_ml (c_ml q) Aml Im) as (S2 & X2).
        destruct (start_state_is Dof rof Eof syms_of (c_of q) Aof Io) as (S3 & X3).
        exists (et_start Ell (c_ll q)), (et_start Eml (c_ml q)), (et_start Eof (c_of q)). unfold stx.
        repeat split; try assumption; reflexivity.
      - remember (q2 :: rest2) as r eqn:Er. cbn [enc_body] in Eb. rewrite Er in Eb. rewrite <- Er in Eb.
        destruct (enc_body Ell Eml Eof r) as [[[sl' sm'] so'] fs'] eqn:Er2.
        destruct (IH [] (0 + Z.of_nat (length r)) 0 [] sl' sm' so' fs' ltac:(rewrite Er; discriminate) Hok' Hin' eq_refl eq_refl) as (_ & _ & _ & Bl & Bm & Bo).
        injection Eb as <- <- <- <-.
        destruct (next_state_is Dll rll Ell syms_ll (c_ll q) sl' All Il Bl) as (S1 & X1).
        destruct (next_state_is Dml rml Eml syms_ml (c_ml q) sm' Aml Im Bm) as (S2 & X2).
        destruct (next_state_is Dof rof Eof syms_of (c_of q) so' Aof Io Bo) as (S3 & X3).
        exists (et_next Ell (c_ll q) sl'), (et_next Eml (c_ml q) sm'), (et_next Eof (c_of q) so'). unfold stx.
        split; [exact S1|]. split; [exact S2|]. split; [exact S3|]. split; [reflexivity|]. split; [reflexivity|]. split; [reflexivity|].
        split; [exact X1|]. split; [exact X2|]. split; [exact X3|]. exists sl', sm', so', fs'. repeat split; reflexivity. }
    destruct Hst as (cl & cm & co & Sl & Sm & So & El & Em & Eo & Xl & Xm & Xo & Hfs).
    cbn [length seq_loop]. cbn [scr fs_ll_rle fs_ml_rle fs_of_rle fs_ll fs_ml fs_of].
    rewrite (code_of_st _ _ _ _ _ Sl), (code_of_st _ _ _ _ _ Sm), (code_of_st _ _ _ _ _ So).
    rewrite Ell_, Eml_. cbn [rbind].
    destruct (Z.ltb_spec MAX_OFFSET_CODE (c_of q)) as [|_]; [lia|].
    assert (Hval : cseq_value q = Some {| sq_ll := bl + a_ll q; sq_ml := bm + a_ml q; sq_of := a_of q + 2 ^ c_of q |})
      by (unfold cseq_value; rewrite Ell_, Eml_; reflexivity).
    assert (Hext : forall B, rbr_get_bits_triple (rd (rev (fields_bits (B ++ extras q)))) (c_of q) (Z.of_nat (n_ml q)) (Z.of_nat (n_ll q))
                             = (a_of q, a_ml q, a_ll q, rd (rev (fields_bits B)))).
    { intros B. unfold rbr_get_bits_triple, extras.
      remember (Z.to_nat (c_of q)) as k eqn:Hk. assert (Hck : c_of q = Z.of_nat k) by lia. rewrite Hck in Hao |- *.
      replace (B ++ [(a_ll q, n_ll q); (a_ml q, n_ml q); (a_of q, k)])
        with (((B ++ [(a_ll q, n_ll q)]) ++ [(a_ml q, n_ml q)]) ++ [(a_of q, k)]) by (rewrite <- !app_assoc; reflexivity).
      rewrite read_last_field by exact Hao.
      rewrite read_last_field by exact Ham. rewrite read_last_field by exact Hal. reflexivity. }
    destruct rest as [|q2 rest2].
    - subst fs. rewrite Hext.
      destruct (Z.eqb_spec (a_of q + 2 ^ c_of q) 0) as [Hz|_]; [pose proof (Z.pow_pos_nonneg 2 (c_of q)); lia|].
      cbn [length]. destruct (Z.ltb_spec (done + 1) (done + Z.of_nat 1)) as [Hx|_]; [lia|]. cbn [rbind].
      rewrite rd_remaining. destruct (Z.ltb_spec (Z.of_nat (length (rev (fields_bits A)))) 0) as [|_]; [lia|].
      cbn [seq_loop]. eexists [_]. split; [constructor; [exact Hval|constructor]|]. split; [reflexivity|]. repeat split; assumption.
    - destruct Hfs as (sl' & sm' & so' & fs' & Er2 & Ecl & Ecm & Eco & ->).
      remember (q2 :: rest2) as r eqn:Er.
      destruct (IH A (done + Z.of_nat (length (q :: r))) (done + 1) ({| sq_ll := bl + a_ll q; sq_ml := bm + a_ml q; sq_of := a_of q + 2 ^ c_of q |} :: acc)
                   sl' sm' so' fs' ltac:(rewrite Er; discriminate) Hok' Hin' Er2) as (vals & Hv & Hloop & Bl' & Bm' & Bo').
      { cbn [length]. lia. }
      rewrite !app_assoc. rewrite Hext.
      destruct (Z.eqb_spec (a_of q + 2 ^ c_of q) 0) as [Hz|_]; [pose proof (Z.pow_pos_nonneg 2 (c_of q)); lia|].
      cbn [length]. destruct (Z.ltb_spec (done + 1) (done + Z.of_nat (Datatypes.S (length r)))) as [_|Hx]; [|rewrite Er in Hx; cbn [length] in Hx; lia].
      rewrite snoc3.
      rewrite El, Em, Eo.
      rewrite (step_reads' Dll rll Ell syms_ll (c_ll q) cl sl' _ All Il Bl' Ecl). cbn [rbind].
      rewrite (step_reads' Dml rml Eml syms_ml (c_ml q) cm sm' _ Aml Im Bm' Ecm). cbn [rbind].
      rewrite (step_reads' Dof rof Eof syms_of (c_of q) co so' _ Aof Io Bo' Eco). cbn [rbind].
      rewrite rd_remaining. destruct (Z.ltb_spec (Z.of_nat (length (rev (fields_bits (A ++ fs'))))) 0) as [|_]; [lia|].
      cbn [length] in Hloop |- *. rewrite Hloop.
      exists ({| sq_ll := bl + a_ll q; sq_ml := bm + a_ml q; sq_of := a_of q + 2 ^ c_of q |} :: vals).
      split; [constructor; assumption|]. split; [cbn [rev]; rewrite <- app_assoc; reflexivity|].
      split; [|split]; [rewrite <- El; exact Xl|rewrite <- Em; exact Xm|rewrite <- Eo; exact Xo].
  Qed.
End DecR.

Section WholeR.
  Variables (Ell Eml Eof : enc_table) (Dll Dml Dof : fse_table) (rll rml rof : option Z).
  Variable syms_ll syms_ml syms_of : list Z.
  Hypothesis All : tagree Dll rll Ell syms_ll.
  Hypothesis Aml : tagree Dml rml Eml syms_ml.
  Hypothesis Aof : tagree Dof rof Eof syms_of.

  Definition start_of (D : fse_table) (rle : option Z) (br : rbr) : res (fse_entry * rbr) :=
    match rle with None => fse_init_state D br | Some _ => ROk (fse_dec_new D, br) end.

  Theorem sequences_stream_roundtrip_r qs : qs <> [] -> Forall cseq_ok qs -> Forall (q_in syms_ll syms_ml syms_of) qs ->
    let bytes := stream_bytes (enc_fields Ell Eml Eof qs) in
    exists r0 ll r1 of r2 ml r3 vals rf,
      rbr_skip_padding (rbr_new bytes) = Some r0 /\
      start_of Dll rll r0 = ROk (ll, r1) /\ start_of Dof rof r1 = ROk (of, r2) /\ start_of Dml rml r2 = ROk (ml, r3) /\
      seq_loop (length qs) (Z.of_nat (length qs)) (scr Dll rll Dml rml Dof rof) ll ml of r3 0 [] = ROk (rev vals, rf) /\
      Forall2 (fun q v => cseq_value q = Some v) qs vals /\
      rbr_bits_remaining rf = 0.
  Proof.
    intros Hne Hok Hin bytes. unfold bytes, enc_fields.
    destruct (enc_body Ell Eml Eof qs) as [[[sl sm] so] fs] eqn:Eb.
    destruct (seq_loop_reads_r Ell Eml Eof Dll Dml Dof rll rml rof syms_ll syms_ml syms_of All Aml Aof qs [] (0 + Z.of_nat (length qs)) 0 [] sl sm so fs Hne Hok Hin Eb eq_refl)
      as (vals & Hv & Hloop & Bl & Bm & Bo).
    set (F := fs ++ [(sm, et_log Eml); (so, et_log Eof); (sl, et_log Ell)]).
    exists (rd (rev (fields_bits F))).
    assert (Hskip : rbr_skip_padding (rbr_new (stream_bytes F)) = Some (rd (rev (fields_bits F)))).
    { rewrite reader_of_stream. unfold stream_bits. rewrite rev_app_distr. cbn [rev]. rewrite <- app_assoc. cbn [app].
      unfold rbr_skip_padding. rewrite rev_repeat. apply skip_zeros.
      - pose proof (Nat.mod_upper_bound (length (fields_bits F)) 8 ltac:(lia)). lia.
      - lia. }
    exists (stx Dll rll sl), (rd (rev (fields_bits ((fs ++ [(sm, et_log Eml)]) ++ [(so, et_log Eof)])))),
           (stx Dof rof so), (rd (rev (fields_bits (fs ++ [(sm, et_log Eml)])))),
           (stx Dml rml sm), (rd (rev (fields_bits fs))), vals, (rd (rev (fields_bits []))).
    split; [exact Hskip|].
    split; [unfold F; rewrite snoc3; apply (start_reads Dll rll Ell syms_ll sl _ All Bl)|].
    split; [apply (start_reads Dof rof Eof syms_of so _ Aof Bo)|].
    split; [apply (start_reads Dml rml Eml syms_ml sm _ Aml Bm)|].
    cbn [app Z.add] in Hloop. rewrite app_nil_r in Hloop. split; [exact Hloop|]. split; [exact Hv|].
    rewrite rd_remaining. reflexivity.
  Qed.
End WholeR.
