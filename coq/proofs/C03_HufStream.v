(** C03: decoding a Huffman-coded stream never panics and never stands still, for every complete table (in particular
    every table the decoder builds, C03_HufComplete) and every byte string. *)
Require Import Zrs.lib.RsPrelude Zrs.lib.Bits Zrs.model.BitIO Zrs.model.FseDec Zrs.model.HufDec.
Require Import Zrs.proofs.C03_HufTable Zrs.proofs.C13_Stream.
Require Import Zrs.proofs.C03_HufComplete.
Open Scope Z_scope.

Definition rwf (r : rbr) : Prop := r_left r = Z.of_nat (length (r_rest r)) /\ 0 <= r_extra r.

Lemma rbr_new_wf src : rwf (rbr_new src).
Proof.
  unfold rwf, rbr_new. cbn [r_left r_rest r_extra]. split; [|lia].
  unfold bits_of_bytes_rev. unfold rev'. rewrite <- rev_alt.
  assert (forall l : list Z, length (flat_map byte_bits_msb l) = (8 * length l)%nat) as H.
  { induction l as [|x t IH]; [reflexivity|]. cbn [flat_map length]. rewrite app_length, IH. unfold byte_bits_msb. rewrite rev_length.
    assert (L8 : forall n y, length (byte_bits_lsb n y) = n) by (induction n as [|n IHn]; intros y; cbn [byte_bits_lsb length]; [reflexivity|rewrite IHn; reflexivity]).
    rewrite L8. lia. }
  rewrite H, rev_length. lia.
Qed.

Lemma get_bits_wf r n : rwf r -> 0 <= n ->
  rwf (snd (rbr_get_bits r n)) /\ 0 <= fst (rbr_get_bits r n) < 2 ^ n /\
  rbr_bits_remaining (snd (rbr_get_bits r n)) = rbr_bits_remaining r - n.
Proof.
  intros (Hl & He) Hn. unfold rbr_get_bits, rbr_bits_remaining, rwf.
  destruct (Z.leb_spec n 0) as [H0|Hpos]; cbn [fst snd].
  - assert (n = 0) by lia. subst n. repeat split; try assumption; try lia.
  - destruct (Z.leb_spec n (r_left r)) as [Hin|Hout]; cbn [fst snd r_left r_rest r_extra].
    + rewrite skipn_length. split; [split; lia|]. split; [|lia].
      pose proof (msb_bound (firstn (Z.to_nat n) (r_rest r))) as B. rewrite firstn_length, Nat.min_l in B by lia. rewrite Z2Nat.id in B by lia. exact B.
    + cbn [length]. split; [split; lia|]. split; [|lia].
      pose proof (msb_bound (r_rest r)) as B. rewrite <- Hl in B.
      assert (P : 0 < 2 ^ (n - r_left r)) by (apply Z.pow_pos_nonneg; lia).
      assert (E : 2 ^ n = 2 ^ r_left r * 2 ^ (n - r_left r)) by (rewrite <- Z.pow_add_r by lia; f_equal; lia).
      split; [nia|]. rewrite E. nia.
Qed.

Section Stream.
  Variable t : huf_table.
  Variable M : Z.
  Hypothesis HM : 1 <= M.
  Hypothesis Hmax : ht_max_bits t = M.
  Hypothesis Hlen : ht_len t = 2 ^ M.
  Hypothesis Hbits : forall i, 0 <= i < 2 ^ M -> 1 <= h_bits (nth_h (ht_decode t) i) <= M.

  Lemma next_state_ok state br : 0 <= state < 2 ^ M -> rwf br ->
    exists s' br', huf_next_state t state br = ROk (s', br') /\ 0 <= s' < 2 ^ M /\ rwf br' /\
      rbr_bits_remaining br' <= rbr_bits_remaining br - 1.
  Proof.
    intros Hs Hw. unfold huf_next_state. rewrite Hlen. destruct (Z.leb_spec (2 ^ M) state); [lia|].
    set (nb := h_bits (nth_h (ht_decode t) state)). pose proof (Hbits state Hs) as Hnb. fold nb in Hnb.
    destruct (get_bits_wf br nb Hw ltac:(lia)) as (W' & V & Rm).
    destruct (rbr_get_bits br nb) as [v br'] eqn:Eg. cbn [fst snd] in *.
    eexists _, _. split; [reflexivity|]. split; [|split; [exact W'|lia]].
    rewrite land_ones_mod by lia.
    assert (P : 0 < 2 ^ nb) by (apply Z.pow_pos_nonneg; lia).
    assert (E : 2 ^ M = 2 ^ (M - nb) * 2 ^ nb) by (rewrite <- Z.pow_add_r by lia; f_equal; lia).
    assert (Em : (state * 2 ^ nb) mod 2 ^ M = (state mod 2 ^ (M - nb)) * 2 ^ nb).
    { rewrite E. rewrite Z.mul_mod_distr_r by lia. reflexivity. }
    rewrite Em. rewrite Z.lor_comm. rewrite lor_low_shifted by lia.
    assert (P2 : 0 < 2 ^ (M - nb)) by (apply Z.pow_pos_nonneg; lia).
    pose proof (Z.mod_pos_bound state (2 ^ (M - nb)) P2) as Bm. nia.
  Qed.

  Lemma stream_loop_no_panic fuel : forall state br out, 0 <= state < 2 ^ M -> rwf br ->
    Z.max 0 (rbr_bits_remaining br + M) < Z.of_nat fuel ->
    match huf_stream_loop fuel t state br out with RPanic _ => False | _ => True end.
  Proof.
    induction fuel as [|f IH]; intros state br out Hs Hw Hf.
    - exfalso. cbn in Hf. lia.
    - cbn [huf_stream_loop]. rewrite Hmax. destruct (Z.ltb_spec (- M) (rbr_bits_remaining br)) as [Hgo|Hstop]; [|exact I].
      unfold huf_decode_symbol. rewrite Hlen. destruct (Z.leb_spec (2 ^ M) state); [lia|]. cbn [rbind].
      destruct (next_state_ok state br Hs Hw) as (s' & br' & -> & Hs' & Hw' & Hr). cbn [rbind].
      apply IH; [exact Hs'|exact Hw'|lia].
  Qed.

  Theorem decode_stream_no_panic stream out check : match huf_decode_stream t stream out check with RPanic _ => False | _ => True end.
  Proof.
    unfold huf_decode_stream.
    destruct (rbr_skip_padding (rbr_new stream)) as [br|] eqn:Esk; [|exact I].
    (* skipping the padding only reads single bits *)
    assert (Hsk : rwf br /\ rbr_bits_remaining br <= 8 * Z.of_nat (length stream)).
    { unfold rbr_skip_padding in Esk. pose proof (rbr_new_wf stream) as W0.
      assert (R0 : rbr_bits_remaining (rbr_new stream) = 8 * Z.of_nat (length stream)) by (unfold rbr_bits_remaining, rbr_new; cbn; lia).
      rewrite <- R0. clear R0. revert Esk W0. generalize (rbr_new stream) 0 10%nat. intros r sk fuel. revert r sk.
      induction fuel as [|f IH]; intros r sk Esk W; cbn [skip_padding] in Esk; [discriminate|].
      destruct (get_bits_wf r 1 W ltac:(lia)) as (W' & _ & Rm).
      destruct (rbr_get_bits r 1) as [v r'] eqn:Eg. cbn [snd] in *.
      destruct ((v =? 1) || (8 <? sk + 1)).
      - destruct (8 <? sk + 1); [discriminate|]. injection Esk as <-. split; [exact W'|lia].
      - destruct (IH _ _ Esk W') as (A & B). split; [exact A|lia]. }
    destruct Hsk as (W & Hr).
    unfold huf_init_state. rewrite Hmax.
    destruct (get_bits_wf br M W ltac:(lia)) as (W' & V & Rm).
    destruct (rbr_get_bits br M) as [state br'] eqn:Eg. cbn [fst snd] in *.
    pose proof (stream_loop_no_panic (S (8 * length stream + 16)) state br' out V W' ltac:(lia)) as NP.
    destruct (huf_stream_loop _ t state br' out) as [[o b]|e|e]; cbn [rbind].
    - destruct (check && negb (rbr_bits_remaining b =? - M)); exact I.
    - exact I.
    - contradiction.
  Qed.
End Stream.

(** for the tables of the decoder *)
Theorem built_table_stream_no_panic ht src t used stream out check : 
  huf_build_decoder ht src = ROk (t, used) -> Forall (fun w => 0 <= w) (ht_weights t) ->
  match huf_decode_stream t stream out check with RPanic _ => False | _ => True end.
Proof.
  unfold huf_build_decoder. intros H Hw.
  destruct (read_weights ht src) as [[[ws ft] bytes]|e|e]; cbn [rbind] in H; try discriminate.
  destruct (build_table_from_weights ws) as [[[[[dec M] bits] ranks] idxs]|e|e] eqn:Eb; cbn [rbind] in H; try discriminate.
  injection H as <- _. cbn [ht_weights] in Hw.
  destruct (built_huffman_table_complete ws dec M bits ranks idxs Hw Eb) as (Ld & HM & Hbits).
  apply (decode_stream_no_panic _ M); cbn [ht_max_bits ht_len ht_decode]; [lia|reflexivity|reflexivity|exact Hbits].
Qed.
