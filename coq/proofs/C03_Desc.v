(** C03: the FSE table description reader never panics: for every byte string, every alphabet and every table-size limit
    [read_probabilities] returns a result or an error -- its loops always terminate within their fuel (every step
    consumes at least one bit), it never gives back a bit it did not read, and no probability below -1 can arise. *)
Require Import Zrs.lib.RsPrelude Zrs.model.BitIO Zrs.model.FseDec.
Open Scope Z_scope.

Definition no_panic {A} (r : res A) : Prop := match r with RPanic _ => False | _ => True end.

Lemma get_bits_no_panic br n : no_panic (fbr_get_bits br n).
Proof. unfold fbr_get_bits. destruct (64 <? n); [exact I|]. destruct (fbr_bits_left br <? n); exact I. Qed.

Lemma get_bits_ok br n v br' : fbr_get_bits br n = ROk (v, br') -> 0 <= n ->
  fbr_bits_left br' = fbr_bits_left br - n /\ fbr_bits_read br' = fbr_bits_read br + n /\ 0 <= v.
Proof.
  unfold fbr_get_bits. destruct (64 <? n); [discriminate|]. destruct (Z.ltb_spec (fbr_bits_left br) n) as [|Hle]; [discriminate|].
  intros H Hn. injection H as <- <-. unfold fbr_bits_left, fbr_bits_read in *. cbn [f_past f_rest].
  rewrite skipn_length, rev_append_rev, app_length, rev_length, firstn_length. split; [lia|]. split; [lia|].
  generalize (firstn (Z.to_nat n) (f_rest br)). intros l. induction l as [|b t IH]; cbn [bits_val_lsb]; [lia|]. destruct b; cbn [b2z]; lia.
Qed.

Lemma return_one_ok br : 1 <= fbr_bits_read br -> exists br', fbr_return_bits br 1 = ROk br' /\ fbr_bits_left br' = fbr_bits_left br + 1.
Proof.
  intros H. unfold fbr_return_bits. destruct (Z.ltb_spec (fbr_bits_read br) 1); [lia|]. eexists. split; [reflexivity|].
  unfold fbr_bits_left, fbr_bits_read in *. cbn [f_rest]. rewrite rev_append_rev, app_length, rev_length, firstn_length.
  change (Z.to_nat 1) with 1%nat. destruct (f_past br); cbn [length] in *; lia.
Qed.

Lemma read_value_spec br M : 2 <= M ->
  match read_value br M with
  | ROk (v, br') => 0 <= v /\ fbr_bits_left br' < fbr_bits_left br
  | RErr _ => True
  | RPanic _ => False
  end.
Proof.
  intros HM. unfold read_value, highest_bit_set.
  assert (L1 : 1 <= Z.log2 M) by (apply Z.log2_le_pow2; lia).
  destruct (fbr_get_bits br (Z.log2 M + 1)) as [[u br1]|e|e] eqn:Eg; cbn [rbind]; try exact I.
  2:{ pose proof (get_bits_no_panic br (Z.log2 M + 1)) as H. rewrite Eg in H. exact H. }
  destruct (get_bits_ok _ _ _ _ Eg ltac:(lia)) as (B1 & B2 & B3).
  replace (Z.log2 M + 1 - 1) with (Z.log2 M) by lia.
  assert (P : 0 < 2 ^ Z.log2 M) by (apply Z.pow_pos_nonneg; lia).
  destruct (u mod 2 ^ Z.log2 M <? 2 ^ (Z.log2 M + 1) - 1 - M).
  - destruct (return_one_ok br1 ltac:(unfold fbr_bits_read in *; lia)) as (br2 & -> & B4). cbn [rbind].
    split; [apply Z.mod_pos_bound; exact P|lia].
  - pose proof (Z.log2_spec M ltac:(lia)) as (Hlo & Hup). change (Z.succ (Z.log2 M)) with (Z.log2 M + 1) in Hup.
    assert (E2 : 2 ^ (Z.log2 M + 1) = 2 * 2 ^ Z.log2 M) by (rewrite Z.pow_add_r by lia; lia).
    destruct (Z.ltb_spec (2 ^ Z.log2 M - 1) u); (split; [lia|lia]).
Qed.

Lemma skip_zero_spec fuel : forall br acc, fbr_bits_left br < 2 * Z.of_nat fuel ->
  match skip_zero_runs fuel br acc with
  | ROk (br', _) => fbr_bits_left br' <= fbr_bits_left br
  | RErr _ => True
  | RPanic _ => False
  end.
Proof.
  induction fuel as [|f IH]; intros br acc Hf; [unfold fbr_bits_left in Hf; lia|]. cbn [skip_zero_runs].
  destruct (fbr_get_bits br 2) as [[sk br1]|e|e] eqn:Eg; cbn [rbind]; try exact I.
  2:{ pose proof (get_bits_no_panic br 2) as H. rewrite Eg in H. exact H. }
  destruct (get_bits_ok _ _ _ _ Eg ltac:(lia)) as (B1 & _).
  destruct (sk =? 3); [|lia].
  specialize (IH br1 (zeros (Z.to_nat sk) ++ acc) ltac:(lia)).
  destruct (skip_zero_runs f br1 _) as [[br2 a2]|e|e]; try exact I; [lia|exact IH].
Qed.

Lemma read_probs_loop_no_panic fuel : forall br sum counter acc, fbr_bits_left br < Z.of_nat fuel ->
  no_panic (read_probs_loop fuel br sum counter acc).
Proof.
  induction fuel as [|f IH]; intros br sum counter acc Hf; [unfold fbr_bits_left in Hf; lia|]. cbn [read_probs_loop].
  destruct (Z.ltb_spec counter sum) as [Hc|Hc]; [|exact I].
  pose proof (read_value_spec br (sum - counter + 1) ltac:(lia)) as RV.
  destruct (read_value br (sum - counter + 1)) as [[v br2]|e|e]; cbn [rbind]; [|exact I|contradiction].
  destruct RV as (V0 & V1).
  destruct (Z.eqb_spec (v - 1) 0) as [E0|E0].
  - pose proof (skip_zero_spec f br2 ((v - 1) :: acc) ltac:(lia)) as SZ.
    destruct (skip_zero_runs f br2 _) as [[br3 a3]|e|e]; cbn [rbind]; [|exact I|contradiction]. apply IH. lia.
  - destruct (Z.ltb_spec 0 (v - 1)); [apply IH; lia|].
    destruct (Z.eqb_spec (v - 1) (-1)); [apply IH; lia|lia].
Qed.

Lemma fbr_new_left source : fbr_bits_left (fbr_new source) = 8 * Z.of_nat (length source).
Proof.
  unfold fbr_bits_left, fbr_new. cbn [f_rest]. unfold bits_of_bytes_lsb. induction source as [|x t IH]; [reflexivity|].
  cbn [flat_map length]. rewrite app_length, Nat2Z.inj_add, IH.
  assert (L8 : forall n y, length (byte_bits_lsb n y) = n) by (induction n as [|n IHn]; intros y; cbn [byte_bits_lsb length]; [reflexivity|rewrite IHn; reflexivity]).
  rewrite L8. lia.
Qed.

Theorem read_probabilities_never_panics max_symbol source max_log : no_panic (read_probabilities max_symbol source max_log).
Proof.
  unfold read_probabilities.
  destruct (fbr_get_bits (fbr_new source) 4) as [[v br]|e|e] eqn:Eg; cbn [rbind]; try exact I.
  2:{ pose proof (get_bits_no_panic (fbr_new source) 4) as H. rewrite Eg in H. exact H. }
  destruct (max_log <? ACC_LOG_OFFSET + v); [exact I|]. destruct (ACC_LOG_OFFSET + v =? 0); [exact I|].
  destruct (get_bits_ok _ _ _ _ Eg ltac:(lia)) as (B1 & _).
  pose proof (fbr_new_left source) as Hl.
  pose proof (read_probs_loop_no_panic (S (8 * length source)) br (2 ^ (ACC_LOG_OFFSET + v)) 0 [] ltac:(lia)) as NP.
  destruct (read_probs_loop _ br _ 0 []) as [[[br' counter] pr]|e|e]; cbn [rbind]; [|exact I|contradiction].
  destruct (negb (counter =? 2 ^ (ACC_LOG_OFFSET + v))); [exact I|]. destruct (max_symbol + 1 <? Z.of_nat (length pr)); exact I.
Qed.
