(** C10: the multi-frame call is a homomorphism for concatenation.  If [decode_all] turns input [a] into [c1] and then,
    continuing with the decoder and the room that are left, input [b] into [c2], then it turns [a ++ b] into [c1 ++ c2]
    -- for all inputs (any number of frames and skippable frames in each part), every capacity and every decoder. *)
Require Import Zrs.lib.RsPrelude Zrs.gen.Generated Zrs.model.Headers Zrs.model.BitIO Zrs.model.FseDec Zrs.model.HufDec Zrs.model.BlockDec Zrs.model.FrameDec.
Require Import Zrs.proofs.C06_Drain Zrs.proofs.C10_Prefix Zrs.proofs.C11_Reset.
Open Scope Z_scope.

(** the block loop, any strategy: stable under extension of the source *)
Lemma loop_ext_any fuel : forall s src strat lb bb s' rest t,
  decode_blocks_loop fuel s src strat lb bb = ROk (s', rest) ->
  decode_blocks_loop fuel s (src ++ t) strat lb bb = ROk (s', rest ++ t).
Proof.
  induction fuel as [|f IH]; intros s src strat lb bb s' rest t H; [discriminate|].
  cbn [decode_blocks_loop] in *.
  destruct (read_block_header_src src) as [[[[[last ty] d] c] r1]|e|e] eqn:Eh; cbn [rbind] in H; try discriminate.
  rewrite (read_block_header_src_ext _ _ _ t Eh). cbn [rbind].
  destruct (decode_block_content ty d c (fr_scratch (set_scratch s (fr_scratch s) 3 0)) r1) as [[[sc nb] r2]|e|e] eqn:Ec;
    cbn [rbind] in H; try discriminate.
  rewrite (decode_block_content_ext _ _ _ _ _ _ _ _ t Ec). cbn [rbind].
  destruct last.
  - destruct (checksum_flag (set_scratch (set_scratch s (fr_scratch s) 3 0) sc nb 1)).
    + destruct (read_exact 4 r2) as [[ck r3]|] eqn:Ek; [|discriminate]. rewrite (read_exact_ext _ _ _ _ t Ek).
      injection H as <- <-. reflexivity.
    + injection H as <- <-. reflexivity.
  - match type of H with (if ?c then _ else _) = _ => destruct c end.
    + injection H as <- <-. reflexivity.
    + apply IH. exact H.
Qed.

Lemma decode_blocks_ext d src strat d' rest fin t :
  fdec_decode_blocks d src strat = ROk (d', rest, fin) -> fdec_decode_blocks d (src ++ t) strat = ROk (d', rest ++ t, fin).
Proof.
  unfold fdec_decode_blocks. destruct (fd_state d) as [s|]; [|discriminate].
  destruct (decode_blocks_loop (S (S (length src))) s src strat _ _) as [[s' r]|e|e] eqn:El; cbn [rbind]; try discriminate.
  intros [= <- <- <-]. apply (loop_ext_any _ _ _ _ _ _ _ _ t) in El. apply (loop_fuel_mono _ _ _ _ _ _ _ (length t)) in El.
  rewrite app_length. replace (S (S (length src + length t))) with (S (S (length src)) + length t)%nat by lia.
  rewrite El. reflexivity.
Qed.

(** the per-frame loop of decode_all *)
Lemma inner_ext fuel : forall d input room w d' rest room' w' t k,
  decode_all_inner fuel d input room w = ROk (d', rest, room', w') ->
  decode_all_inner (fuel + k) d (input ++ t) room w = ROk (d', rest ++ t, room', w').
Proof.
  induction fuel as [|f IH]; intros d input room w d' rest room' w' t k H; [discriminate|].
  cbn [Nat.add decode_all_inner] in *.
  destruct (fdec_decode_blocks d input (SUptoBytes (1024 * 1024))) as [[[d1 in1] fin]|e|e] eqn:Eb; cbn [rbind] in H; try discriminate.
  rewrite (decode_blocks_ext _ _ _ _ _ _ t Eb). cbn [rbind].
  destruct (fdec_read d1 room) as [out d2].
  destruct (negb _); [discriminate|]. destruct (fdec_is_finished d2).
  - injection H as <- <- <- <-. reflexivity.
  - apply IH. exact H.
Qed.

(** the output accumulator only grows at the front, by what the frame produced, and the room shrinks by as much;
    the rest of the result does not depend on the accumulator *)
Lemma inner_acc fuel : forall d input room w d' rest room' w',
  decode_all_inner fuel d input room w = ROk (d', rest, room', w') ->
  exists c, w' = rev_append c w /\ room' = room - zlen c /\
    forall w0, decode_all_inner fuel d input room w0 = ROk (d', rest, room', rev_append c w0).
Proof.
  induction fuel as [|f IH]; intros d input room w d' rest room' w' H; [discriminate|].
  cbn [decode_all_inner] in *.
  destruct (fdec_decode_blocks d input (SUptoBytes (1024 * 1024))) as [[[d1 in1] fin]|e|e] eqn:Eb; cbn [rbind] in *; try discriminate.
  destruct (fdec_read d1 room) as [out d2].
  destruct (negb _); [discriminate|]. destruct (fdec_is_finished d2).
  - injection H as <- <- <- <-. exists out. split; [reflexivity|]. split; [reflexivity|]. intros w0. reflexivity.
  - destruct (IH _ _ _ _ _ _ _ _ H) as (c & -> & -> & Hw). exists (out ++ c).
    assert (RA : forall x, rev_append (out ++ c) x = rev_append c (rev_append out x)).
    { intros x. rewrite !rev_append_rev, rev_app_distr, app_assoc. reflexivity. }
    split; [rewrite RA; reflexivity|]. split; [unfold zlen; rewrite app_length; lia|].
    intros w0. rewrite RA. apply Hw.
Qed.

Lemma inner_fuel_mono fuel : forall d input room w x k,
  decode_all_inner fuel d input room w = ROk x -> decode_all_inner (fuel + k) d input room w = ROk x.
Proof.
  intros d input room w [[[d' rest] room'] w'] k H. pose proof (inner_ext fuel d input room w d' rest room' w' [] k H) as E.
  rewrite !app_nil_r in E. exact E.
Qed.

(** *** every round consumes input (no invariant needed: it is how the readers are built) *)
Lemma read_exact_split n src a r : read_exact n src = Some (a, r) -> src = a ++ r.
Proof. unfold read_exact, take_z, drop_z. destruct (_ <? _); [discriminate|]. intros [= <- <-]. symmetry. apply firstn_skipn. Qed.

Lemma block_content_shrinks ty d c sc src sc' nb rest :
  decode_block_content ty d c sc src = ROk (sc', nb, rest) -> (length rest <= length src)%nat.
Proof.
  unfold decode_block_content.
  destruct (ty =? 1).
  { destruct (read_exact 1 src) as [[b r]|] eqn:E; [|discriminate]. intros [= <- <- <-]. rewrite (read_exact_split _ _ _ _ E), app_length. lia. }
  destruct (ty =? 0).
  { destruct (read_exact d src) as [[b r]|] eqn:E; [|discriminate]. intros [= <- <- <-]. rewrite (read_exact_split _ _ _ _ E), app_length. lia. }
  destruct (ty =? 2); [|discriminate].
  destruct (read_exact c src) as [[b r]|] eqn:E; [|discriminate].
  destruct (decompress_block c sc b) as [x|e|e]; cbn [rbind]; try discriminate.
  intros [= <- <- <-]. rewrite (read_exact_split _ _ _ _ E), app_length. lia.
Qed.

Lemma loop_shrinks fuel : forall s src strat lb bb s' rest,
  decode_blocks_loop fuel s src strat lb bb = ROk (s', rest) -> (length rest + 3 <= length src)%nat.
Proof.
  induction fuel as [|f IH]; intros s src strat lb bb s' rest H; [discriminate|]. cbn [decode_blocks_loop] in H.
  unfold read_block_header_src in H. destruct (read_exact 3 src) as [[hb r0]|] eqn:E3; [|discriminate].
  assert (L3 : (length src = 3 + length r0)%nat).
  { pose proof (read_exact_split _ _ _ _ E3) as Es. unfold read_exact in E3. destruct (Z.ltb_spec (zlen src) 3) as [|Hl]; [discriminate|].
    injection E3 as <- <-. unfold drop_z, zlen in *. rewrite skipn_length. change (Z.to_nat 3) with 3%nat. lia. }
  destruct (read_block_header _ _ _) as [[[[last ty] d] c]|e|e]; cbn [rbind] in H; try discriminate.
  destruct (decode_block_content ty d c _ r0) as [[[sc nb] r2]|e|e] eqn:Ec; cbn [rbind] in H; try discriminate.
  pose proof (block_content_shrinks _ _ _ _ _ _ _ _ Ec) as L2.
  destruct last.
  - destruct (checksum_flag _).
    + destruct (read_exact 4 r2) as [[ck r3]|] eqn:Ek; [|discriminate]. injection H as _ <-.
      rewrite (read_exact_split _ _ _ _ Ek), app_length in L2. lia.
    + injection H as _ <-. lia.
  - match type of H with (if ?c then _ else _) = _ => destruct c end.
    + injection H as _ <-. lia.
    + apply IH in H. lia.
Qed.

Lemma inner_shrinks fuel : forall d input room w d' rest room' w',
  decode_all_inner fuel d input room w = ROk (d', rest, room', w') -> (length rest + 3 <= length input)%nat.
Proof.
  induction fuel as [|f IH]; intros d input room w d' rest room' w' H; [discriminate|]. cbn [decode_all_inner] in H.
  destruct (fdec_decode_blocks d input (SUptoBytes (1024 * 1024))) as [[[d1 in1] fin]|e|e] eqn:Eb; cbn [rbind] in H; try discriminate.
  assert (L1 : (length in1 + 3 <= length input)%nat).
  { unfold fdec_decode_blocks in Eb. destruct (fd_state d) as [s|]; [|discriminate].
    destruct (decode_blocks_loop _ s input _ _ _) as [[s' r]|e|e] eqn:El; cbn [rbind] in Eb; try discriminate.
    injection Eb as _ <- _. apply (loop_shrinks _ _ _ _ _ _ _ _ El). }
  destruct (fdec_read d1 room) as [out d2].
  destruct (negb _); [discriminate|]. destruct (fdec_is_finished d2).
  - injection H as _ <- _ _. exact L1.
  - apply IH in H. lia.
Qed.

Lemma reset_shrinks d src d1 rest ev : fdec_reset d src = ROk (d1, rest, ev) -> (length rest <= length src)%nat.
Proof.
  unfold fdec_reset, frame_front. destruct (read_frame_header src) as [h n|m len|e|e] eqn:Eh; try discriminate.
  destruct (read_frame_header_consumed _ _ _ Eh) as (hd & rst & Es & Ln & Hn & _).
  destruct (fh_window_size h) as [w|e|e]; cbn [rbind]; try discriminate.
  destruct (check_window_size w _) as [u|e|e]; cbn [rbind]; try discriminate.
  assert (L : (length (drop_z n src) <= length src)%nat) by (unfold drop_z; rewrite skipn_length; lia).
  destruct (fd_state d); cbv beta iota zeta;
    (destruct (fh_dict_id h) as [id|]; [destruct (find (fun dd => d_id dd =? id) (fd_dicts d)); [|discriminate]|]);
    intros [= <- <- <-]; exact L.
Qed.

(** *** the frame loop *)
Lemma tail_not_skip d wd r n m l : rfh_tail d wd r n <> FhSkip m l.
Proof.
  unfold rfh_tail. destruct (dictionary_id_bytes d); try discriminate. destruct (take _ r) as [[? ?]|]; try discriminate.
  destruct (frame_content_size_bytes d); try discriminate. destruct (take _ _) as [[? ?]|]; discriminate.
Qed.

Lemma skip_front_len input mx m len : frame_front input mx = inr (m, len) -> (8 <= length input)%nat.
Proof.
  unfold frame_front. destruct (read_frame_header input) as [h n|m' l'|e|e] eqn:E; try discriminate. intros _.
  unfold read_frame_header in E. destruct (take 4 input) as [[a r1]|] eqn:T1; [|discriminate].
  destruct (take_spec _ _ _ _ T1) as [-> L1].
  destruct (_ && _).
  - destruct (take 4 r1) as [[l r2]|] eqn:T2; [|discriminate]. destruct (take_spec _ _ _ _ T2) as [-> L2].
    rewrite !app_length. lia.
  - destruct (negb _); [discriminate|]. destruct (take 1 r1) as [[dl r2]|]; [|discriminate].
    exfalso. destruct (single_segment_flag _).
    + apply (tail_not_skip (znth dl 0) 0 r2 0 m' l'). exact E.
    + destruct (take 1 r2) as [[w r3]|]; [|discriminate]. apply (tail_not_skip (znth dl 0) (znth w 0) r3 1 m' l'). exact E.
Qed.

Lemma skip_front_ext input mx m len t : frame_front input mx = inr (m, len) -> frame_front (input ++ t) mx = inr (m, len).
Proof.
  unfold frame_front. destruct (read_frame_header input) as [h n|m' l'|e|e] eqn:E; try discriminate. intros [= <- <-].
  assert (E' : read_frame_header (input ++ t) = FhSkip m' l'); [|rewrite E'; reflexivity].
  unfold read_frame_header in *. destruct (take 4 input) as [[a r1]|] eqn:T1; [|discriminate].
  rewrite (take_ext _ _ _ _ t T1).
  destruct (_ && _).
  - destruct (take 4 r1) as [[l r2]|] eqn:T2; [|discriminate]. rewrite (take_ext _ _ _ _ t T2). exact E.
  - destruct (negb _); [discriminate|]. destruct (take 1 r1) as [[dl r2]|]; [|discriminate].
    exfalso. destruct (single_segment_flag _).
    + apply (tail_not_skip (znth dl 0) 0 r2 0 m' l'). exact E.
    + destruct (take 1 r2) as [[w r3]|]; [|discriminate]. apply (tail_not_skip (znth dl 0) (znth w 0) r3 1 m' l'). exact E.
Qed.

Lemma reset_front d src d1 rest ev : fdec_reset d src = ROk (d1, rest, ev) -> exists r, frame_front src (fd_max_window d) = inl r.
Proof. unfold fdec_reset. destruct (frame_front src (fd_max_window d)) as [r|?]; [eexists; reflexivity|discriminate]. Qed.

(** any two sufficient amounts of fuel give the same result *)
Lemma outer_fuel_indep f1 : forall f2 d input room w, (length input < f1)%nat -> (length input < f2)%nat ->
  decode_all_outer f1 d input room w = decode_all_outer f2 d input room w.
Proof.
  induction f1 as [|f1 IH]; intros f2 d input room w H1 H2; [lia|]. destruct f2 as [|f2]; [lia|].
  cbn [decode_all_outer]. destruct input as [|x t] eqn:Ei; [reflexivity|]. rewrite <- Ei in *.
  assert (Hpos : (0 < length input)%nat) by (rewrite Ei; cbn; lia).
  destruct (frame_front input (fd_max_window d)) as [r|[m len]] eqn:Ef.
  - destruct (fdec_reset d input) as [[[d1 in1] ev]|e|e] eqn:Er; cbn [rbind]; try reflexivity.
    pose proof (reset_shrinks _ _ _ _ _ Er) as L1.
    destruct (decode_all_inner _ d1 in1 room w) as [[[[d2 in2] room2] w2]|e|e] eqn:Ein; cbn [rbind]; try reflexivity.
    pose proof (inner_shrinks _ _ _ _ _ _ _ _ _ Ein) as L2. apply IH; lia.
  - pose proof (skip_front_len _ _ _ _ Ef) as L8.
    destruct (_ <? _); [reflexivity|]. apply IH; unfold drop_z; rewrite !skipn_length; change (Z.to_nat 8) with 8%nat; lia.
Qed.

(** the accumulator: the result for one accumulator gives the result for every other *)
Lemma outer_acc fuel : forall d input room w d' o,
  decode_all_outer fuel d input room w = ROk (d', o) ->
  exists c, o = rev' w ++ c /\ forall w0, decode_all_outer fuel d input room w0 = ROk (d', rev' w0 ++ c).
Proof.
  induction fuel as [|f IH]; intros d input room w d' o H; [discriminate|]. cbn [decode_all_outer] in *.
  destruct input as [|x t] eqn:Ei.
  - injection H as <- <-. exists []. rewrite app_nil_r. split; [reflexivity|]. intros w0. rewrite app_nil_r. reflexivity.
  - rewrite <- Ei in *. destruct (frame_front input (fd_max_window d)) as [r|[m len]].
    + destruct (fdec_reset d input) as [[[d1 in1] ev]|e|e]; cbn [rbind] in *; try discriminate.
      destruct (decode_all_inner _ d1 in1 room w) as [[[[d2 in2] room2] w2]|e|e] eqn:Ein; cbn [rbind] in *; try discriminate.
      destruct (inner_acc _ _ _ _ _ _ _ _ _ Ein) as (c1 & -> & -> & Hw).
      destruct (IH _ _ _ _ _ _ H) as (c2 & -> & Hw2).
      exists (c1 ++ c2). split.
      * rewrite !rev'_rev, rev_append_rev, rev_app_distr, rev_involutive, app_assoc. reflexivity.
      * intros w0. rewrite (Hw w0). cbn [rbind]. rewrite (Hw2 (rev_append c1 w0)).
        rewrite !rev'_rev, rev_append_rev, rev_app_distr, rev_involutive, app_assoc. reflexivity.
    + destruct (_ <? _); [discriminate|]. destruct (IH _ _ _ _ _ _ H) as (c & -> & Hw). exists c. split; [reflexivity|exact Hw].
Qed.

(** room accounting *)
Lemma outer_app fa : forall d a room w d1 o1,
  decode_all_outer fa d a room w = ROk (d1, o1) ->
  exists w1 room1, o1 = rev' w1 /\ room1 + zlen w1 = room + zlen w /\
    forall b fb x, decode_all_outer fb d1 b room1 w1 = ROk x -> decode_all_outer (fa + fb) d (a ++ b) room w = ROk x.
Proof.
  induction fa as [|f IH]; intros d a room w d1 o1 H; [discriminate|]. cbn [decode_all_outer] in H.
  destruct a as [|x t] eqn:Ea.
  - injection H as <- <-. exists w, room. split; [reflexivity|]. split; [reflexivity|].
    intros b fb y Hy. cbn [app].
    destruct y as [d2 o2]. 
    assert (M : forall k, decode_all_outer (fb + k) d b room w = ROk (d2, o2)).
    { clear - Hy. revert d b room w Hy. induction fb as [|g IHg]; intros d b room w Hy k; [discriminate|]. cbn [Nat.add decode_all_outer] in *.
      destruct b as [|y u] eqn:Eb; [exact Hy|]. rewrite <- Eb in *.
      destruct (frame_front b (fd_max_window d)) as [r|[m len]].
      - destruct (fdec_reset d b) as [[[d1 in1] ev]|e|e]; cbn [rbind] in *; try discriminate.
        destruct (decode_all_inner _ d1 in1 room w) as [[[[d3 in2] room2] w2]|e|e]; cbn [rbind] in *; try discriminate. apply IHg. exact Hy.
      - destruct (_ <? _); [discriminate|]. apply IHg. exact Hy. }
    replace (S f + fb)%nat with (fb + S f)%nat by lia. apply M.
  - rewrite <- Ea in *. assert (Hne : a ++ [] <> [] -> True) by trivial.
    destruct (frame_front a (fd_max_window d)) as [r|[m len]] eqn:Ef.
    + destruct (fdec_reset d a) as [[[d2 in1] ev]|e|e] eqn:Er; cbn [rbind] in H; try discriminate.
      destruct (decode_all_inner _ d2 in1 room w) as [[[[d3 in2] room2] w2]|e|e] eqn:Ein; cbn [rbind] in H; try discriminate.
      destruct (inner_acc _ _ _ _ _ _ _ _ _ Ein) as (c1 & Ew2 & Er2 & _).
      destruct (IH _ _ _ _ _ _ H) as (w1 & room1 & Eo & Hroom & Hcont).
      exists w1, room1. split; [exact Eo|]. split; [subst w2 room2; unfold zlen in *; rewrite rev_append_rev, app_length, rev_length in Hroom; lia|].
      intros b fb y Hy. cbn [Nat.add decode_all_outer].
      destruct (a ++ b) as [|z u] eqn:Eab; [rewrite Ea in Eab; discriminate|]. rewrite <- Eab.
      destruct (reset_front _ _ _ _ _ Er) as (r0 & Er0). rewrite Ef in Er0.
      assert (FF : exists r', frame_front (a ++ b) (fd_max_window d) = inl r').
      { unfold fdec_reset in Er. rewrite Ef in Er. destruct r as [[[[h n] ww] rr]|e|e]; try discriminate.
        rewrite (frame_front_ext _ _ _ _ _ _ b Ef). eexists; reflexivity. }
      destruct FF as (r' & ->).
      rewrite (fdec_reset_ext _ _ _ _ _ b Er). cbn [rbind].
      pose proof (inner_ext _ _ _ _ _ _ _ _ _ b (length b) Ein) as Ein'.
      rewrite app_length. replace (S (S (length in1 + length b))) with (S (S (length in1)) + length b)%nat by lia.
      rewrite Ein'. cbn [rbind]. apply Hcont. exact Hy.
    + destruct (Z.ltb_spec (zlen (drop_z 8 a)) len) as [|Hlen]; [discriminate|].
      destruct (IH _ _ _ _ _ _ H) as (w1 & room1 & Eo & Hroom & Hcont).
      exists w1, room1. split; [exact Eo|]. split; [exact Hroom|].
      intros b fb y Hy. cbn [Nat.add decode_all_outer].
      destruct (a ++ b) as [|z u] eqn:Eab; [rewrite Ea in Eab; discriminate|]. rewrite <- Eab.
      rewrite (skip_front_ext _ _ _ _ b Ef).
      pose proof (skip_front_len _ _ _ _ Ef) as L8.
      assert (D8 : drop_z 8 (a ++ b) = drop_z 8 a ++ b) by (apply drop_z_app; lia).
      rewrite D8. assert (L0 : 0 <= len \/ len < 0) by lia.
      assert (DL : drop_z len (drop_z 8 a ++ b) = drop_z len (drop_z 8 a) ++ b).
      { destruct L0 as [L0|L0]; [apply drop_z_app; unfold zlen in Hlen; lia|]. unfold drop_z. replace (Z.to_nat len) with 0%nat by lia. reflexivity. }
      rewrite DL. destruct (Z.ltb_spec (zlen (drop_z 8 a ++ b)) len) as [Hbad|_]; [unfold zlen in *; rewrite app_length in Hbad; lia|].
      apply Hcont. exact Hy.
Qed.

(** the multi-frame call is a homomorphism for concatenation *)
Theorem decode_all_app d a b cap d1 c1 d2 c2 :
  fdec_decode_all d a cap = ROk (d1, c1) -> fdec_decode_all d1 b (cap - zlen c1) = ROk (d2, c2) ->
  fdec_decode_all d (a ++ b) cap = ROk (d2, c1 ++ c2).
Proof.
  unfold fdec_decode_all. intros Ha Hb.
  destruct (outer_app _ _ _ _ _ _ _ Ha) as (w1 & room1 & -> & Hroom & Hcont).
  assert (E1 : room1 = cap - zlen (rev' w1)). { unfold zlen in *. rewrite rev'_rev, rev_length. cbn [length] in Hroom. lia. }
  rewrite <- E1 in Hb. destruct (outer_acc _ _ _ _ _ _ _ Hb) as (c & Ec & Hw). cbn in Ec. subst c2.
  specialize (Hcont b _ _ (Hw w1)).
  rewrite (outer_fuel_indep (S (S (length (a ++ b)))) (S (S (length a)) + S (S (length b))) d (a ++ b) cap []); [exact Hcont|lia|rewrite app_length; lia].
Qed.

(** any number of parts *)
Fixpoint decode_parts (d : fdec) (cap : Z) (parts : list (list Z)) : option (fdec * list Z) :=
  match parts with
  | [] => Some (d, [])
  | p :: t =>
      match fdec_decode_all d p cap with
      | ROk (d1, c1) => match decode_parts d1 (cap - zlen c1) t with Some (d2, c2) => Some (d2, c1 ++ c2) | None => None end
      | _ => None
      end
  end.

Theorem decode_all_concat parts : forall d cap d' c,
  decode_parts d cap parts = Some (d', c) -> fdec_decode_all d (concat parts) cap = ROk (d', c).
Proof.
  induction parts as [|p t IH]; intros d cap d' c H; cbn [decode_parts concat] in *.
  - injection H as <- <-. reflexivity.
  - destruct (fdec_decode_all d p cap) as [[d1 c1]|e|e] eqn:E1; try discriminate.
    destruct (decode_parts d1 (cap - zlen c1) t) as [[d2 c2]|] eqn:E2; [|discriminate]. injection H as <- <-.
    apply (decode_all_app d p (concat t) cap d1 c1 d2 c2 E1). apply IH. exact E2.
Qed.

(** a skippable frame contributes nothing and leaves the decoder as it was *)
Theorem skippable_frame_is_skipped d f cap m len :
  frame_front f (fd_max_window d) = inr (m, len) -> zlen (drop_z 8 f) = len -> fdec_decode_all d f cap = ROk (d, []).
Proof.
  intros Ef Hl. pose proof (skip_front_len _ _ _ _ Ef) as L8. unfold fdec_decode_all. cbn [decode_all_outer].
  destruct f as [|x t] eqn:Ei; [cbn in L8; lia|]. rewrite <- Ei in *. rewrite Ef.
  destruct (Z.ltb_spec (zlen (drop_z 8 f)) len); [lia|].
  assert (E : drop_z len (drop_z 8 f) = []).
  { unfold drop_z, zlen in *. apply skipn_all2. lia. }
  rewrite E. destruct (length f); [lia|]. reflexivity.
Qed.
