(** C02 / C16 / C17: one block of the Fastest level with raw literals, end to end: match finder -> literal buffer and
    triples -> block body -> decoder. *)
Require Import Zrs.lib.RsPrelude Zrs.gen.Generated Zrs.model.BitIO Zrs.model.FseDec Zrs.model.HufDec Zrs.model.BlockDec Zrs.model.Matcher.
Require Import Zrs.model.SeqEnc Zrs.model.SeqSection Zrs.model.BlockEnc.
Require Import Zrs.proofs.C06_Drain Zrs.proofs.C09_Lz Zrs.proofs.C17_Matcher Zrs.proofs.C12_SeqStream Zrs.proofs.C02_Block.
Require Import Zrs.proofs.C17_Shape Zrs.proofs.C02_Glue.
Open Scope Z_scope.

(** total bytes a parse accounts for *)
Definition mseq_bytes (s : mseq) : nat := match s with MLit l => length l | MTriple l _ ml => length l + ml end.
Fixpoint mseqs_bytes (ms : list mseq) : nat := match ms with [] => 0 | s :: t => mseq_bytes s + mseqs_bytes t end.

Lemma apply_seqs_length ms : forall h h', apply_seqs h ms = Some h' -> length h' = (length h + mseqs_bytes ms)%nat.
Proof.
  induction ms as [|s t IH]; intros h h' H; cbn [apply_seqs mseqs_bytes] in *.
  - injection H as <-. lia.
  - destruct (apply_seq h s) as [h1|] eqn:E; [|discriminate]. rewrite (IH _ _ H).
    destruct s as [l|l off ml]; cbn [apply_seq mseq_bytes] in *.
    + injection E as <-. rewrite app_length. lia.
    + destruct (_ && _); [|discriminate]. injection E as <-. rewrite rev_length, lz_copy_length, rev_length, app_length. lia.
Qed.

Lemma mseqs_lits_length ms : (length (mseqs_lits ms) <= mseqs_bytes ms)%nat.
Proof.
  induction ms as [|s t IH]; [cbn; lia|]. unfold mseqs_lits in *. cbn [map concat mseqs_bytes]. rewrite app_length.
  destruct s; cbn [mseq_lits mseq_bytes]; lia.
Qed.


Lemma mseqs_seqs_count ms : Forall long_enough ms -> (2 * length (mseqs_seqs ms) <= mseqs_bytes ms)%nat.
Proof.
  induction 1 as [|s t Hs _ IH]; [cbn; lia|]. unfold mseqs_seqs in *. cbn [flat_map mseqs_bytes]. rewrite app_length.
  destruct s; cbn [mseq_bytes length long_enough] in *; lia.
Qed.

Lemma mseqs_seqs_nil ts tail : Forall is_triple ts -> (tail = [] \/ exists l, tail = [MLit l]) ->
  mseqs_seqs (ts ++ tail) = [] -> ts = [].
Proof.
  intros Ht Htail H. destruct ts as [|s t]; [reflexivity|]. inversion Ht as [|? ? Hs _]; subst.
  destruct s; [contradiction|]. discriminate H.
Qed.

(** a block of the Fastest level whose literals go out raw: match finder output -> literal buffer and triples -> block
    body -> decoder: the decoder's buffer grows by exactly the block's data *)
Theorem fastest_raw_literal_block ts tail H data dl do dm body sc pre :
  Forall is_triple ts -> (tail = [] \/ exists l, tail = [MLit l]) -> Forall long_enough (ts ++ tail) ->
  apply_seqs H (ts ++ tail) = Some (H ++ data) -> Z.of_nat (length data) <= MAX_BLOCK_SIZE ->
  block_raw_lits (mseqs_lits (ts ++ tail)) dl do dm (mseqs_seqs (ts ++ tail)) = ROk body ->
  (mseqs_seqs (ts ++ tail) <> [] -> section_hyps_b dl do dm (mseqs_seqs (ts ++ tail)) = true) ->
  t_max_symbol (fs_ll (sc_fse sc)) = MAX_LITERAL_LENGTH_CODE -> t_max_symbol (fs_of (sc_fse sc)) = MAX_OFFSET_CODE ->
  t_max_symbol (fs_ml (sc_fse sc)) = MAX_MATCH_LENGTH_CODE ->
  db_wf (sc_buf sc) -> db_rev (sc_buf sc) = rev H ++ pre -> hist3 (sc_hist sc) ->
  exists sc',
    decompress_block (zlen body) sc body = ROk sc' /\
    db_wf (sc_buf sc') /\ db_rev (sc_buf sc') = rev (H ++ data) ++ pre /\ hist3 (sc_hist sc') /\
    sc_huf sc' = sc_huf sc /\ db_dict (sc_buf sc') = db_dict (sc_buf sc) /\ db_window (sc_buf sc') = db_window (sc_buf sc) /\
    db_hashed_rev (sc_buf sc') = db_hashed_rev (sc_buf sc) /\
    t_max_symbol (fs_ll (sc_fse sc')) = MAX_LITERAL_LENGTH_CODE /\ t_max_symbol (fs_of (sc_fse sc')) = MAX_OFFSET_CODE /\
    t_max_symbol (fs_ml (sc_fse sc')) = MAX_MATCH_LENGTH_CODE.
Proof.
  intros Ht Htail Hlong Ha Hd Hb Hh M1 M2 M3 W R H3.
  pose proof (apply_seqs_length _ _ _ Ha) as Ltot. rewrite app_length in Ltot.
  pose proof (mseqs_lits_length (ts ++ tail)) as Llit. pose proof (mseqs_seqs_count _ Hlong) as Lseq.
  change MAX_BLOCK_SIZE with 131072 in *.
  pose proof (raw_literal_block_decodes _ dl do dm _ body sc Hb ltac:(unfold zlen; change MAX_BLOCK_SIZE with 131072; lia) ltac:(lia) Hh M1 M2 M3) as Hdec.
  destruct (mseqs_seqs (ts ++ tail)) as [|q qs] eqn:Es.
  - (* no match in the block: the literals are the block *)
    pose proof (mseqs_seqs_nil ts tail Ht Htail Es) as ->. cbn [app] in *.
    assert (El : H ++ mseqs_lits tail = H ++ data).
    { destruct Htail as [->|(l & ->)]; cbn [apply_seqs apply_seq] in Ha; injection Ha as Ha; unfold mseqs_lits; cbn; rewrite ?app_nil_r; congruence. }
    apply app_inv_head in El. rewrite El in Hdec.
    eexists. split; [exact Hdec|]. cbn [sc_buf sc_hist sc_huf sc_fse].
    unfold db_wf, db_push, db_add_total, db_append_raw in *. cbn [db_len db_rev db_dict db_window db_hashed_rev].
    rewrite rev_append_rev, R, app_length, rev_length, rev_app_distr, <- app_assoc, W, R.
    repeat split; try assumption; try reflexivity. lia.
  - rewrite <- Es in *.
    destruct (matcher_output_executes ts tail H data (sc_buf sc) (sc_hist sc) pre Ht Htail Ha W R H3 ltac:(change MAX_BLOCK_SIZE with 131072; lia))
      as (buf' & hist' & Ex & W' & R' & H3' & D' & Wi' & Hx').
    rewrite Es in Hdec. rewrite <- Es in Hdec.
    destruct (build_table MAX_LITERAL_LENGTH_CODE dl) as [Dll|e|e] eqn:B1.
    2,3: (specialize (Hh ltac:(rewrite Es; discriminate)); unfold section_hyps_b in Hh; rewrite B1 in Hh;
          destruct (map_res to_cseq (mseqs_seqs (ts ++ tail))); discriminate).
    destruct (build_table MAX_MATCH_LENGTH_CODE dm) as [Dml|e|e] eqn:B2.
    2,3: (specialize (Hh ltac:(rewrite Es; discriminate)); unfold section_hyps_b in Hh; rewrite B1, B2 in Hh;
          destruct (map_res to_cseq (mseqs_seqs (ts ++ tail))); destruct (build_table MAX_OFFSET_CODE do); discriminate).
    destruct (build_table MAX_OFFSET_CODE do) as [Dof|e|e] eqn:B3.
    2,3: (specialize (Hh ltac:(rewrite Es; discriminate)); unfold section_hyps_b in Hh; rewrite B1, B2, B3 in Hh;
          destruct (map_res to_cseq (mseqs_seqs (ts ++ tail))); discriminate).
    rewrite Ex in Hdec. cbn [rbind] in Hdec.
    eexists. split; [exact Hdec|]. cbn [sc_buf sc_hist sc_huf sc_fse]. unfold C12_SeqStream.sc. cbn [fs_ll fs_of fs_ml].
    unfold build_table, fse_build_from_probabilities in B1, B2, B3.
    assert (T : forall ms al P D, (if al =? 0 then RErr "AccLogIsZero"
                                   else let* (dec, counter) := build_decoding_table (t_max_symbol (fse_new ms)) al P in
                                        ROk {| t_max_symbol := t_max_symbol (fse_new ms); t_decode := dec; t_acc_log := al; t_probs := P; t_counter := counter |}) = ROk D ->
                                  t_max_symbol D = ms).
    { intros ms al P D E. destruct (al =? 0); [discriminate|].
      destruct (build_decoding_table _ al P) as [[dec counter]|e|e]; cbn [rbind] in E; try discriminate. injection E as <-. reflexivity. }
    repeat split; try assumption; eapply T; eassumption.
Qed.

(** one block of the Fastest level, end to end: the built-in match finder's step on [data], the block encoder with raw
    literals, the decoder -- the decoder's buffer grows by exactly [data], and still ends with what the match finder
    retains (so the next block's matches are again within the decoder's history) *)
Theorem fastest_step_raw_literals d data d' seqs dl do dm body sc pre :
  DInv d -> (length data <= max_window d)%nat -> Z.of_nat (length data) <= MAX_BLOCK_SIZE ->
  mstep d (OpBlock data false) = ROk (d', Some seqs) ->
  block_raw_lits (mseqs_lits seqs) dl do dm (mseqs_seqs seqs) = ROk body ->
  (mseqs_seqs seqs <> [] -> section_hyps_b dl do dm (mseqs_seqs seqs) = true) ->
  t_max_symbol (fs_ll (sc_fse sc)) = MAX_LITERAL_LENGTH_CODE -> t_max_symbol (fs_of (sc_fse sc)) = MAX_OFFSET_CODE ->
  t_max_symbol (fs_ml (sc_fse sc)) = MAX_MATCH_LENGTH_CODE ->
  db_wf (sc_buf sc) -> db_rev (sc_buf sc) = rev (retained d) ++ pre -> hist3 (sc_hist sc) ->
  exists sc' pre',
    decompress_block (zlen body) sc body = ROk sc' /\
    db_rev (sc_buf sc') = rev data ++ db_rev (sc_buf sc) /\
    db_wf (sc_buf sc') /\ db_rev (sc_buf sc') = rev (retained d') ++ pre' /\ hist3 (sc_hist sc') /\
    sc_huf sc' = sc_huf sc /\ db_dict (sc_buf sc') = db_dict (sc_buf sc) /\ db_window (sc_buf sc') = db_window (sc_buf sc) /\
    t_max_symbol (fs_ll (sc_fse sc')) = MAX_LITERAL_LENGTH_CODE /\ t_max_symbol (fs_of (sc_fse sc')) = MAX_OFFSET_CODE /\
    t_max_symbol (fs_ml (sc_fse sc')) = MAX_MATCH_LENGTH_CODE.
Proof.
  intros HI Hfit Hd Hstep Hb Hh M1 M2 M3 W R H3.
  destruct (mstep_spec d (OpBlock data false) HI Hfit) as (d2 & out & E & _ & _ & dr & H & R1 & R2 & R3 & seqs2 & Eo & A & B).
  rewrite Hstep in E. injection E as <- <-. injection Eo as <-.
  destruct (mstep_block_shape d data d' seqs Hstep) as (ts & tail & -> & Ht & Htail).
  assert (Hlong : Forall long_enough (ts ++ tail)) by (eapply Forall_impl; [|exact B]; intros; eapply seq_bounds_long; eassumption).
  rewrite R1, rev_app_distr, <- app_assoc in R.
  destruct (fastest_raw_literal_block ts tail H data dl do dm body sc (rev dr ++ pre) Ht Htail Hlong A Hd Hb Hh M1 M2 M3 W R H3)
    as (sc' & Hdec & W' & R' & H3' & Hu & Dd & Dw & _ & N1 & N2 & N3).
  exists sc', (rev dr ++ pre). split; [exact Hdec|]. split.
  { rewrite R', R, rev_app_distr, <- app_assoc. reflexivity. }
  split; [exact W'|]. split; [rewrite R2; exact R'|]. repeat split; assumption.
Qed.
