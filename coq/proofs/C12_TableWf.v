(** C12: every table [build_decoding_table] returns is well-formed in the sense the stream theorems need: it has
    2^accuracy_log entries and no entry has a negative bit count -- for every probability vector whatsoever. *)
Require Import Zrs.lib.RsPrelude Zrs.model.BitIO Zrs.model.FseDec.
Require Import Zrs.model.BitStream Zrs.model.SeqEnc Zrs.proofs.C12_Stream Zrs.proofs.C12_SeqStream.
Open Scope Z_scope.

Definition bits_ok (l : list fse_entry) : Prop := Forall (fun e => 0 <= e_bits e) l.

Lemma upd_len {A} (l : list A) : forall i v, length (upd l i v) = length l.
Proof. induction l as [|h t IH]; intros i v; destruct i; cbn [upd length]; try reflexivity. rewrite IH. reflexivity. Qed.

Lemma bits_ok_upd l : forall i e, bits_ok l -> 0 <= e_bits e -> bits_ok (upd l i e).
Proof. induction l as [|h t IH]; intros i e Hl He; destruct i; cbn [upd]; inversion Hl; subst; constructor; auto. apply IH; assumption. Qed.

Lemma nth_e_bits l i : bits_ok l -> 0 <= e_bits (nth_e l i).
Proof.
  intros H. unfold nth_e. generalize (Z.to_nat i). intros n. revert n.
  induction H as [|x t Hx _ IH]; intros n; destruct n; cbn [nth]; try (cbn; lia); auto.
Qed.

Lemma entries0_ok n : bits_ok (entries0 n) /\ length (entries0 n) = n.
Proof.
  induction n as [|n (A & B)]; cbn [entries0 length].
  - split; [constructor|reflexivity].
  - split; [constructor; [cbn; lia|exact A]|congruence].
Qed.

Lemma place_negative_ok probs : forall sym al neg dec neg' dec', 0 <= al -> bits_ok dec ->
  place_negative probs sym al neg dec = ROk (neg', dec') -> bits_ok dec' /\ length dec' = length dec.
Proof.
  induction probs as [|p t IH]; intros sym al neg dec neg' dec' Hal Hd H; cbn [place_negative] in H.
  - injection H as _ <-. split; [exact Hd|reflexivity].
  - destruct (p =? -1).
    + destruct (neg <=? 0); [discriminate|].
      apply IH in H; [|exact Hal|apply bits_ok_upd; [exact Hd|cbn [e_bits]; lia]]. destruct H as (A & B). rewrite upd_len in B. split; assumption.
    + eapply IH; eassumption.
Qed.

Lemma spread_one_ok n : forall sym pos neg size dec pos' dec', bits_ok dec ->
  spread_one n sym pos neg size dec = ROk (pos', dec') -> bits_ok dec' /\ length dec' = length dec.
Proof.
  induction n as [|n IH]; intros sym pos neg size dec pos' dec' Hd H; cbn [spread_one] in H.
  - injection H as _ <-. split; [exact Hd|reflexivity].
  - destruct (Z.of_nat (length dec) <=? pos); [discriminate|].
    destruct (skip_taken _ _ _ _) as [p1|e|e]; cbn [rbind] in H; try discriminate.
    apply IH in H; [|apply bits_ok_upd; [exact Hd|cbn [e_bits]; apply nth_e_bits; exact Hd]]. destruct H as (A & B).
    rewrite upd_len in B. split; assumption.
Qed.

Lemma spread_ok probs : forall sym pos neg size dec dec', bits_ok dec ->
  spread probs sym pos neg size dec = ROk dec' -> bits_ok dec' /\ length dec' = length dec.
Proof.
  induction probs as [|p t IH]; intros sym pos neg size dec dec' Hd H; cbn [spread] in H.
  - injection H as <-. split; [exact Hd|reflexivity].
  - destruct (p <=? 0); [eapply IH; eassumption|].
    destruct (spread_one _ _ _ _ _ _) as [[p1 d1]|e|e] eqn:E1; cbn [rbind] in H; try discriminate.
    destruct (spread_one_ok _ _ _ _ _ _ _ _ Hd E1) as (A & B).
    destruct (IH _ _ _ _ _ _ A H) as (C & D). split; [exact C|congruence].
Qed.

Lemma calc_bits_nonneg total p k : 0 <= snd (calc_baseline_and_numbits total p k).
Proof.
  unfold calc_baseline_and_numbits. destruct (p =? 0); [cbn; lia|]. cbv zeta.
  set (slices := if 2 ^ (highest_bit_set p - 1) =? p then p else 2 ^ highest_bit_set p).
  unfold highest_bit_set at 1 2. pose proof (Z.log2_nonneg (total / slices)).
  destruct (k <? slices - p); cbn [snd]; lia.
Qed.

Lemma assign_ok n : forall idx size al probs counter dec counter' dec', bits_ok dec ->
  assign n idx size al probs counter dec = ROk (counter', dec') -> bits_ok dec' /\ length dec' = length dec.
Proof.
  induction n as [|n IH]; intros idx size al probs counter dec counter' dec' Hd H; cbn [assign] in H.
  - injection H as _ <-. split; [exact Hd|reflexivity].
  - destruct (Z.of_nat (length probs) <=? e_sym (nth_e dec idx)); [discriminate|].
    destruct (calc_baseline_and_numbits _ _ _) as [bl nb] eqn:Ec.
    destruct (al <? nb); [discriminate|].
    pose proof (calc_bits_nonneg size (if nth_z probs (e_sym (nth_e dec idx)) <? 0 then nth_z probs (e_sym (nth_e dec idx)) + 2 ^ 32 else nth_z probs (e_sym (nth_e dec idx)))
                  (nth_z counter (e_sym (nth_e dec idx)))) as Hnb.
    rewrite Ec in Hnb. cbn [snd] in Hnb.
    apply IH in H; [|apply bits_ok_upd; [exact Hd|cbn [e_bits]; exact Hnb]]. destruct H as (A & B).
    rewrite upd_len in B. split; assumption.
Qed.

Theorem built_table_is_well_formed t acc_log probs D : 0 < acc_log ->
  fse_build_from_probabilities t acc_log probs = ROk D -> table_wf D.
Proof.
  intros Hal H. unfold fse_build_from_probabilities in H.
  destruct (acc_log =? 0); [discriminate|].
  unfold build_decoding_table in H.
  destruct (_ <? _); [discriminate|].
  destruct (entries0_ok (Z.to_nat (2 ^ acc_log))) as (E0 & L0).
  destruct (place_negative _ _ _ _ _) as [[neg d1]|e|e] eqn:E1; cbn [rbind] in H; try discriminate.
  assert (Hal0 : 0 <= acc_log) by lia.
  destruct (place_negative_ok _ _ _ _ _ _ _ Hal0 E0 E1) as (B1 & L1).
  destruct (spread _ _ _ _ _ _) as [d2|e|e] eqn:E2; cbn [rbind] in H; try discriminate.
  destruct (spread_ok _ _ _ _ _ _ _ B1 E2) as (B2 & L2).
  destruct (assign _ _ _ _ _ _ _) as [[cn d3]|e|e] eqn:E3; cbn [rbind] in H; try discriminate.
  destruct (assign_ok _ _ _ _ _ _ _ _ _ B2 E3) as (B3 & L3).
  injection H as <-. unfold table_wf, t_len. cbn [t_decode t_acc_log].
  destruct (Z.eqb_spec acc_log 0); [lia|].
  split; [|split; [exact B3|exact Hal]].
  rewrite L3, L2, L1, L0. rewrite Z2Nat.id; [reflexivity|]. apply Z.pow_nonneg. lia.
Qed.
