(** C07: the hypothesis of [reset_eq_fresh] -- every table still has the alphabet bound it was created with -- is an
    invariant of every operation of the decoder model, hence holds in every reachable decoder state. *)
Require Import Zrs.lib.RsPrelude Zrs.gen.Generated Zrs.model.Headers Zrs.model.BitIO Zrs.model.FseDec Zrs.model.HufDec
  Zrs.model.BlockDec Zrs.model.FrameDec.
Require Import Zrs.proofs.C05_Block Zrs.proofs.C07_Reuse.
Open Scope Z_scope.

Lemma fse_build_decoder_max t src ml t' n : fse_build_decoder t src ml = ROk (t', n) -> t_max_symbol t' = t_max_symbol t.
Proof.
  unfold fse_build_decoder. intros H. bind_inv H. destruct a as [[al probs] bytes]. bind_inv H. destruct a as [dec counter].
  injection H as <- _. reflexivity.
Qed.

Lemma fse_build_from_probabilities_max t al probs t' : fse_build_from_probabilities t al probs = ROk t' -> t_max_symbol t' = t_max_symbol t.
Proof.
  unfold fse_build_from_probabilities. intros H.
  repeat match type of H with (if ?c then _ else _) = _ => destruct c; [discriminate|] end.
  bind_inv H. destruct a as [dec counter]. injection H as <-. reflexivity.
Qed.

Lemma update_one_table_max mode src t rle a b c d e t' rle' n :
  update_one_table mode src t rle a b c d e = ROk (t', rle', n) -> t_max_symbol t' = t_max_symbol t.
Proof.
  unfold update_one_table. intros H.
  destruct (mode =? 2).
  { bind_inv H. destruct a0 as [t1 by1]. injection H as <- _ _. eapply fse_build_decoder_max; eassumption. }
  destruct (mode =? 1).
  { destruct src as [|x xs]; [discriminate|]. destruct (b <? x); [discriminate|]. injection H as <- _ _. reflexivity. }
  destruct (mode =? 0).
  { bind_inv H. injection H as <- _ _. eapply fse_build_from_probabilities_max; eassumption. }
  injection H as <- _ _. reflexivity.
Qed.

Definition fse_alphabets_ok (s : fse_scratch) : Prop :=
  t_max_symbol (fs_of s) = MAX_OFFSET_CODE /\ t_max_symbol (fs_ll s) = MAX_LITERAL_LENGTH_CODE /\
  t_max_symbol (fs_ml s) = MAX_MATCH_LENGTH_CODE.

Lemma maybe_update_max modes src s s' n : fse_alphabets_ok s -> maybe_update_fse_tables modes src s = ROk (s', n) -> fse_alphabets_ok s'.
Proof.
  intros (A & B & C) H. unfold maybe_update_fse_tables in H. destruct modes as [m|]; [|discriminate]. cbv zeta in H.
  bind_inv H. destruct a as [[ll llr] n1]. destruct (zlen src <? n1); [discriminate|].
  bind_inv H. destruct a as [[of ofr] n2]. destruct (zlen src <? n1 + n2); [discriminate|].
  bind_inv H. destruct a as [[ml mlr] n3]. injection H as <- _.
  unfold fse_alphabets_ok. cbn [fs_of fs_ll fs_ml].
  rewrite (update_one_table_max _ _ _ _ _ _ _ _ _ _ _ _ E), (update_one_table_max _ _ _ _ _ _ _ _ _ _ _ _ E0),
          (update_one_table_max _ _ _ _ _ _ _ _ _ _ _ _ E1). repeat split; assumption.
Qed.

Lemma decode_sequences_max n modes src s s' seqs : fse_alphabets_ok s -> decode_sequences n modes src s = ROk (s', seqs) -> fse_alphabets_ok s'.
Proof.
  intros Hs H. unfold decode_sequences in H. bind_inv H. destruct a as [s1 used].
  pose proof (maybe_update_max _ _ _ _ _ Hs E) as H1.
  destruct (zlen src <? used); [discriminate|].
  destruct (rbr_skip_padding (rbr_new (drop_z used src))) as [br|]; [|discriminate].
  bind_inv H. destruct a as [ll br1]. bind_inv H. destruct a as [of br2]. bind_inv H. destruct a as [ml br3].
  bind_inv H. destruct a as [acc br4]. destruct (0 <? rbr_bits_remaining br4); [discriminate|].
  injection H as <- _. exact H1.
Qed.

Lemma read_weights_max t src ws ft n : read_weights t src = ROk (ws, ft, n) -> t_max_symbol ft = t_max_symbol (ht_fse t).
Proof.
  unfold read_weights. intros H. destruct src as [|header fs]; [discriminate|].
  destruct (header <? 128).
  - destruct (Z.of_nat (length fs) <? header); [discriminate|].
    bind_inv H. destruct a as [ft0 used]. destruct (header <? used); [discriminate|].
    cbv zeta in H. destruct (_ <? _) in H; [discriminate|].
    destruct (rbr_skip_padding _) as [br|] in H; [|discriminate].
    bind_inv H. destruct a as [s1 br1]. bind_inv H. destruct a as [s2 br2]. bind_inv H.
    injection H as _ <- _. eapply fse_build_decoder_max; eassumption.
  - cbv zeta in H. destruct (_ <? _) in H; [discriminate|]. injection H as _ <- _. reflexivity.
Qed.

Lemma huf_build_decoder_max t src t' n : huf_build_decoder t src = ROk (t', n) -> t_max_symbol (ht_fse t') = t_max_symbol (ht_fse t).
Proof.
  unfold huf_build_decoder. intros H. bind_inv H. destruct a as [[ws ft] bytes]. bind_inv H.
  destruct a as [[[[dec mb] bits] ranks] idxs]. injection H as <- _. cbn [ht_fse]. eapply read_weights_max; eassumption.
Qed.

Lemma decode_literals_max sec ht src ht' lits n : decode_literals sec ht src = ROk (ht', lits, n) ->
  t_max_symbol (ht_fse ht') = t_max_symbol (ht_fse ht).
Proof.
  unfold decode_literals. intros H.
  destruct (ls_type sec =? 0).
  { destruct (zlen src <? ls_regen sec); [discriminate|]. injection H as <- _ _. reflexivity. }
  destruct (ls_type sec =? 1).
  { destruct src; [discriminate|]. injection H as <- _ _. reflexivity. }
  destruct (ls_comp sec) as [cs|]; [|discriminate]. destruct (ls_streams sec) as [ns|]; [|discriminate].
  destruct (zlen src <? cs); [discriminate|]. cbv zeta in H.
  destruct (ls_type sec =? 2) eqn:Et.
  - bind_inv H. destruct a as [ht1 br]. pose proof (huf_build_decoder_max _ _ _ _ E) as M.
    destruct (zlen (take_z cs src) <? br); [discriminate|].
    bind_inv H. destruct a as [o b2]. destruct (negb _) in H; [discriminate|]. injection H as <- _ _. exact M.
  - destruct (ht_max_bits ht =? 0); [discriminate|]. cbn [rbind] in H.
    destruct (zlen (take_z cs src) <? 0); [discriminate|].
    bind_inv H. destruct a as [o b2]. destruct (negb _) in H; [discriminate|]. injection H as <- _ _. reflexivity.
Qed.

Lemma decompress_block_alphabets cs sc raw sc' : scratch_alphabets_ok sc -> decompress_block cs sc raw = ROk sc' -> scratch_alphabets_ok sc'.
Proof.
  intros (A & B & C & D) H. unfold decompress_block in H.
  destruct (lit_header_parse raw) as [[[[[used ty] regen] comp] streams]|e|e]; try discriminate.
  cbv zeta in H. destruct (MAX_BLOCK_SIZE <? regen); [discriminate|].
  destruct (zlen (drop_z used raw) <? _); [discriminate|].
  bind_inv H. destruct a as [[ht lits] used_lit]. pose proof (decode_literals_max _ _ _ _ _ _ E) as Mh. cbn [ls_type] in *.
  destruct (negb (regen =? zlen lits)); [discriminate|]. destruct (negb (used_lit =? _)); [discriminate|].
  destruct (sequences_header_parse 0 None _) as [[[useq nseq] modes]|e|e]; try discriminate.
  destruct (negb (_ =? cs)); [discriminate|].
  destruct (negb (nseq =? 0)).
  - bind_inv H. destruct a as [fs seqs]. bind_inv H. destruct a as [buf hist]. injection H as <-.
    assert (Fa : fse_alphabets_ok (sc_fse sc)) by (repeat split; assumption).
    destruct (decode_sequences_max _ _ _ _ _ _ Fa E0) as (F1 & F2 & F3).
    unfold scratch_alphabets_ok. cbn [sc_fse sc_huf]. repeat split; try assumption. rewrite Mh. exact D.
  - destruct (negb (_ =? 0)); [discriminate|]. injection H as <-.
    unfold scratch_alphabets_ok. cbn [sc_fse sc_huf]. repeat split; try assumption. rewrite Mh. exact D.
Qed.

Lemma decode_block_content_alphabets ty d c sc src sc' n rest : scratch_alphabets_ok sc ->
  decode_block_content ty d c sc src = ROk (sc', n, rest) -> scratch_alphabets_ok sc'.
Proof.
  intros Hs H. unfold decode_block_content in H.
  destruct (ty =? 1). { destruct (read_exact 1 src) as [[b r]|]; [|discriminate]. injection H as <- _ _. exact Hs. }
  destruct (ty =? 0). { destruct (read_exact d src) as [[b r]|]; [|discriminate]. injection H as <- _ _. exact Hs. }
  destruct (ty =? 2); [|discriminate]. destruct (read_exact c src) as [[b r]|]; [|discriminate].
  bind_inv H. injection H as <- _ _. eapply decompress_block_alphabets; eassumption.
Qed.

Definition state_alphabets_ok (d : fdec) : Prop := forall s, fd_state d = Some s -> scratch_alphabets_ok (fr_scratch s).

Lemma loop_alphabets fuel : forall s src strat lb bb s' rest, scratch_alphabets_ok (fr_scratch s) ->
  decode_blocks_loop fuel s src strat lb bb = ROk (s', rest) -> scratch_alphabets_ok (fr_scratch s').
Proof.
  induction fuel as [|f IH]; intros s src strat lb bb s' rest Hs H; [discriminate|]. cbn [decode_blocks_loop] in H.
  bind_inv H. destruct a as [[[[last ty] d] c] r1]. bind_inv H. destruct a as [[sc nb] r2].
  pose proof (decode_block_content_alphabets _ _ _ _ _ _ _ _ Hs E0) as H1.
  destruct last.
  - destruct (checksum_flag _).
    + destruct (read_exact 4 r2) as [[ck r3]|]; [|discriminate]. injection H as <- _. exact H1.
    + injection H as <- _. exact H1.
  - match type of H with (if ?c then _ else _) = _ => destruct c end; [injection H as <- _; exact H1|].
    eapply IH; [|exact H]. exact H1.
Qed.

(** every public operation of the decoder model keeps the invariant *)
Theorem reset_keeps_alphabets d src d' rest ev : state_alphabets_ok d -> fdec_reset d src = ROk (d', rest, ev) -> state_alphabets_ok d'.
Proof.
  intros Hd H. unfold fdec_reset in H.
  destruct (frame_front src (fd_max_window d)) as [[[[[h n] w] r]|e|e]|?]; try discriminate.
  assert (Hsc : scratch_alphabets_ok (match fd_state d with Some s => scratch_reset (fr_scratch s) w | None => scratch_new w end)).
  { destruct (fd_state d) as [s|] eqn:Es; [|apply scratch_new_alphabets]. rewrite (scratch_reset_eq_new _ w (Hd s Es)). apply scratch_new_alphabets. }
  destruct (fd_state d) as [s|]; cbv beta iota zeta in H;
    (destruct (fh_dict_id h) as [id|]; [destruct (find (fun dd => d_id dd =? id) (fd_dicts d)) as [dd|]; [|discriminate]|]);
    injection H as <- _ _; intros s0 [= <-]; cbn [fr_scratch];
    try exact Hsc; destruct Hsc as (A & B & C & D); unfold scratch_alphabets_ok, scratch_init_from_dict; cbn; repeat split; assumption.
Qed.

Theorem decode_blocks_keeps_alphabets d src strat d' rest fin : state_alphabets_ok d ->
  fdec_decode_blocks d src strat = ROk (d', rest, fin) -> state_alphabets_ok d'.
Proof.
  intros Hd H. unfold fdec_decode_blocks in H. destruct (fd_state d) as [s|] eqn:Es; [|discriminate].
  bind_inv H. destruct a as [s' r]. injection H as <- _ _. intros s0 [= <-].
  eapply loop_alphabets; [|exact E]. apply Hd. exact Es.
Qed.

Theorem force_dict_keeps_alphabets d id d' : state_alphabets_ok d -> fdec_force_dict d id = ROk d' -> state_alphabets_ok d'.
Proof.
  intros Hd H. unfold fdec_force_dict in H. destruct (fd_state d) as [s|] eqn:Es; [|discriminate].
  destruct (find _ _) as [dd|]; [|discriminate]. injection H as <-. intros s0 [= <-]. cbn [fr_scratch].
  destruct (Hd s Es) as (A & B & C & D). unfold scratch_alphabets_ok, scratch_init_from_dict. cbn. repeat split; assumption.
Qed.

Lemma new_alphabets : state_alphabets_ok fdec_new.
Proof. intros s H. discriminate. Qed.

Lemma add_dict_keeps_alphabets d dd : state_alphabets_ok d -> state_alphabets_ok (fdec_add_dict d dd).
Proof. intros Hd s H. apply Hd. exact H. Qed.

(** consequently: reset on ANY state reached this way equals first use, for every source *)
Corollary reset_eq_fresh_reachable d src : state_alphabets_ok d ->
  match fdec_reset d src,
        fdec_reset {| fd_state := None; fd_dicts := fd_dicts d; fd_max_window := fd_max_window d |} src with
  | ROk (d1, r1, _), ROk (d2, r2, _) => d1 = d2 /\ r1 = r2
  | RErr e1, RErr e2 => e1 = e2
  | RPanic e1, RPanic e2 => e1 = e2
  | _, _ => False
  end.
Proof. intros H. apply reset_eq_fresh. exact H. Qed.

(** the drain paths only replace the byte buffer *)
Lemma st_set_buf_alphabets s b : scratch_alphabets_ok (fr_scratch s) -> scratch_alphabets_ok (fr_scratch (st_set_buf s b)).
Proof. intros H. exact H. Qed.

Lemma collect_keeps_alphabets d : state_alphabets_ok d -> state_alphabets_ok (snd (fdec_collect d)).
Proof.
  intros Hd. unfold fdec_collect. destruct (fd_state d) as [s|] eqn:Es; [|exact Hd].
  destruct (st_is_finished s).
  - destruct (db_drain_all (st_buf s)) as [out b]. cbn [snd]. intros s0 [= <-]. apply st_set_buf_alphabets, Hd, Es.
  - destruct (db_can_drain_to_window (st_buf s)) as [n|]; [|exact Hd].
    destruct (db_drain_amount (st_buf s) n) as [out b]. cbn [snd]. intros s0 [= <-]. apply st_set_buf_alphabets, Hd, Es.
Qed.

Lemma read_keeps_alphabets d n : state_alphabets_ok d -> state_alphabets_ok (snd (fdec_read d n)).
Proof.
  intros Hd. unfold fdec_read. destruct (fd_state d) as [s|] eqn:Es; [|exact Hd].
  destruct (if fr_finished s then db_read_all (st_buf s) n else db_read (st_buf s) n) as [out b]. cbn [snd].
  intros s0 [= <-]. apply st_set_buf_alphabets, Hd, Es.
Qed.

Lemma collect_to_writer_keeps_alphabets {St} (sstep : St -> Z -> sink_resp * St) d split st :
  state_alphabets_ok d -> state_alphabets_ok (snd (fst (fst (fdec_collect_to_writer sstep d split st)))).
Proof.
  intros Hd. unfold fdec_collect_to_writer. destruct (fd_state d) as [s|] eqn:Es; [|exact Hd].
  destruct (db_drain_to_sink St sstep (st_buf s) _ split st) as [[[out b] ok] st']. cbn [fst snd].
  intros s0 [= <-]. apply st_set_buf_alphabets, Hd, Es.
Qed.

(** all states reachable from a new decoder through the public operations, with any arguments and any sink *)
Inductive reachable : fdec -> Prop :=
| R_new : reachable fdec_new
| R_max d m : reachable d -> reachable (fdec_set_max_window d m)
| R_add d dd : reachable d -> reachable (fdec_add_dict d dd)
| R_reset d src d' rest ev : reachable d -> fdec_reset d src = ROk (d', rest, ev) -> reachable d'
| R_force d id d' : reachable d -> fdec_force_dict d id = ROk d' -> reachable d'
| R_blocks d src strat d' rest fin : reachable d -> fdec_decode_blocks d src strat = ROk (d', rest, fin) -> reachable d'
| R_collect d : reachable d -> reachable (snd (fdec_collect d))
| R_read d n : reachable d -> reachable (snd (fdec_read d n))
| R_writer St (sstep : St -> Z -> sink_resp * St) d split st : reachable d ->
    reachable (snd (fst (fst (fdec_collect_to_writer sstep d split st)))).

Theorem reachable_alphabets d : reachable d -> state_alphabets_ok d.
Proof.
  induction 1.
  - apply new_alphabets.
  - intros s Hs. apply IHreachable. exact Hs.
  - apply add_dict_keeps_alphabets. assumption.
  - eapply reset_keeps_alphabets; eassumption.
  - eapply force_dict_keeps_alphabets; eassumption.
  - eapply decode_blocks_keeps_alphabets; eassumption.
  - apply collect_keeps_alphabets. assumption.
  - apply read_keeps_alphabets. assumption.
  - apply collect_to_writer_keeps_alphabets. assumption.
Qed.

(** the unconditional form of C07: whatever was done with a decoder before, initialising it for a source gives the
    decoder (or the error) that a never-used decoder with the same dictionaries and limit gives *)
Theorem reused_decoder_equals_fresh d src : reachable d ->
  match fdec_reset d src,
        fdec_reset {| fd_state := None; fd_dicts := fd_dicts d; fd_max_window := fd_max_window d |} src with
  | ROk (d1, r1, _), ROk (d2, r2, _) => d1 = d2 /\ r1 = r2
  | RErr e1, RErr e2 => e1 = e2
  | RPanic e1, RPanic e2 => e1 = e2
  | _, _ => False
  end.
Proof. intros H. apply reset_eq_fresh. apply reachable_alphabets. exact H. Qed.
