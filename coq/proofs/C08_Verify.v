(** C08: for every frame (any byte string the decoder decodes), after the whole frame has been decoded by one call and
    the output is taken by ANY drain program, the hasher has received exactly the delivered bytes, and once the buffer
    is empty these are the whole content of the frame. *)
Require Import Zrs.lib.RsPrelude Zrs.gen.Generated Zrs.model.Headers Zrs.model.BlockDec Zrs.model.FrameDec.
Require Import Zrs.proofs.C06_Drain Zrs.proofs.C05_Block Zrs.proofs.C06_Frame Zrs.proofs.C11_Reset Zrs.proofs.C08_Hash.
Require Import Zrs.proofs.C02_Roundtrip.
Require Import Zrs.model.FrameEnc Zrs.model.Matcher Zrs.model.HufDec Zrs.model.LitEnc Zrs.model.SeqNorm Zrs.model.LitComp.
Require Import Zrs.proofs.C02_Concrete Zrs.proofs.C02_O1 Zrs.proofs.C02_LitPart Zrs.proofs.C02_Closed.
Open Scope Z_scope.

Theorem hashed_is_frame_content St (sstep : St -> Z -> sink_resp * St) d frame d1 rest evs d2 rest' fin s2 ops st :
  bytes_ok frame = true -> Forall dict_ok (fd_dicts d) ->
  fdec_reset d frame = ROk (d1, rest, evs) ->
  fdec_decode_blocks d1 rest SAll = ROk (d2, rest', fin) -> fd_state d2 = Some s2 ->
  let '(l, d', st') := drain_run St sstep d2 st ops in
  exists s', fd_state d' = Some s' /\ fr_checksum s' = fr_checksum s2 /\
    l ++ db_all (st_buf s') = buf_content s2 /\ fdec_hashed d' = l /\
    (db_all (st_buf s') = [] -> fdec_hashed d' = buf_content s2).
Proof.
  intros B HD R D S2.
  destruct (fdec_reset_spec _ _ _ _ _ B HD R) as (s1 & hd & Hs1 & Ok1 & Hsrc & _ & _ & Hh1 & Hw1 & _).
  assert (Br : bytes_ok rest = true). { rewrite Hsrc in B. apply bytes_ok_app in B. apply B. }
  destruct (decode_blocks_spec _ _ _ _ _ _ _ Hs1 Ok1 Br D) as (s2' & Hs2 & Ok2 & _ & _ & (_ & Mw & Mh) & _).
  assert (s2' = s2) by congruence. subst s2'.
  assert (Hw2 : 0 <= db_window (st_buf s2)) by (rewrite Mw; exact Hw1).
  assert (Hh2 : fdec_hashed d2 = []). { unfold fdec_hashed. rewrite S2, Mh, Hh1. reflexivity. }
  pose proof (drain_run_spec St sstep ops d2 s2 st S2 Ok2 Hw2) as T.
  pose proof (hash_is_delivered St sstep ops d2 s2 st S2 Ok2 Hw2) as Hd.
  destruct (drain_run St sstep d2 st ops) as [[l d'] st'].
  destruct T as (s' & Hs' & (Sb & _ & Hall & _)).
  exists s'. rewrite Hh2 in Hd. cbn [app] in Hd.
  split; [exact Hs'|]. split; [apply Sb|]. split; [exact Hall|]. split; [exact Hd|].
  intros E. rewrite E, app_nil_r in Hall. rewrite Hd. exact Hall.
Qed.

(** the compressor's frames (level Fastest, hashing on, every input / fragmentation / reuse history of the closed C02
    theorem): decoded and drained by any program until the buffer is empty, the hasher has received exactly the
    compressor's input, and the checksum stored in the frame is the 32-bit hash of exactly those bytes *)
Theorem compressor_frame_checksum_verifies St (sstep : St -> Z -> sink_resp * St) slice wsize h cs data script frame cs' r' :
  Cinit2 _ cs -> 1 <= Z.of_nat slice <= 131072 -> 1 <= wsize <= 2 ^ 27 ->
  (forall x, length (h x) = 4%nat) -> bytes_ok frame = true ->
  compress_frame (cst2 (option codes_t)) (cblock2 norm_model _ litenc_model) (cskip2 _) (cfallback2 _ None) (creset2 _ None) LFastest slice wsize (Some h) cs
    {| rd_data := data; rd_script := script |} = ROk (frame, cs', r') ->
  exists d1 rest evs d2,
    fdec_reset fdec_new frame = ROk (d1, rest, evs) /\ fdec_decode_blocks d1 rest SAll = ROk (d2, [], true) /\
    forall ops st, let '(l, d', st') := drain_run St sstep d2 st ops in
      exists s', fd_state d' = Some s' /\ fdec_hashed d' = l /\ l ++ db_all (st_buf s') = data /\
        (db_all (st_buf s') = [] -> fdec_hashed d' = data /\ fr_checksum s' = Some (le_val (h (fdec_hashed d')))).
Proof.
  intros CI Hs Hw Hh B C.
  destruct (fastest_roundtrip_closed slice wsize (Some h) cs data script frame cs' r' CI Hs Hw) as (d1 & rest & evs & s1 & d2 & s2 & R & S1 & D & S2 & Cont & Ck).
  { intros h0 x E. injection E as <-. apply Hh. }
  { exact C. }
  exists d1, rest, evs, d2. split; [exact R|]. split; [exact D|].
  intros ops st.
  pose proof (hashed_is_frame_content St sstep fdec_new frame d1 rest evs d2 [] true s2 ops st B (Forall_nil _) R D S2) as T.
  destruct (drain_run St sstep d2 st ops) as [[l d'] st'].
  destruct T as (s' & Hs' & Hck & Hall & Hd & He).
  exists s'. split; [exact Hs'|]. split; [exact Hd|]. split; [rewrite <- Cont; exact Hall|].
  intros E. specialize (He E). split; [rewrite He; exact Cont|]. rewrite Hck, Ck, He, Cont. reflexivity.
Qed.
