(** C13 / C01: the remaining layouts of the literals section.  Raw and RLE literals in each of their three size formats
    and Huffman-coded literals in a single stream decode to the literals that were written (the four-stream layout is
    in C13_LitSection.v).  Together: every literals type, stream count and size format of the format. *)
Require Import Zrs.lib.RsPrelude Zrs.gen.Generated Zrs.model.Headers Zrs.model.BitIO Zrs.model.BitStream Zrs.model.FseDec Zrs.model.HufDec Zrs.model.BlockDec Zrs.model.LitEnc.
Require Import Zrs.proofs.C13_Stream Zrs.proofs.C13_LitSection Zrs.proofs.C03_Literals.
Open Scope Z_scope.

(** *** headers of raw (type 0) and RLE (type 1) literals: 1, 2 or 3 bytes *)
Definition plain_header (ty n : Z) : list Z :=
  if n <? 32 then [ty + 8 * n]
  else if n <? 4096 then [ty + 4 + 16 * (n mod 16); n / 16]
  else [ty + 12 + 16 * (n mod 16); (n / 16) mod 256; n / 4096].

Lemma plain_header_parse ty n rest : (ty = 0 \/ ty = 1) -> 0 <= n < 2 ^ 20 ->
  lit_header_parse (plain_header ty n ++ rest) = ROk (zlen (plain_header ty n), ty, n, None, None).
Proof.
  intros Hty Hn. change (2 ^ 20) with 1048576 in Hn. unfold plain_header.
  destruct (Z.ltb_spec n 32) as [H32|H32]; [|destruct (Z.ltb_spec n 4096) as [H4k|H4k]]; cbn [app]; unfold lit_header_parse.
  - remember (ty + 8 * n) as r0 eqn:E0.
    assert (B0 : 0 <= r0 < 256) by lia.
    assert (M4 : r0 mod 4 = ty) by lia. assert (S4 : (r0 / 4) mod 4 = 0 \/ (r0 / 4) mod 4 = 2) by lia.
    destruct (first_byte_facts r0 B0) as (-> & ->). cbn [rbind]. unfold need_spec. cbv zeta. rewrite M4.
    assert ((ty <? 2) = true) as -> by lia.
    assert ((((r0 / 4) mod 4 =? 0) || ((r0 / 4) mod 4 =? 2)) = true) as -> by lia.
    cbn [length]. assert ((Z.of_nat (S (length rest)) <? 1) = false) as -> by lia.
    assert (((ty =? 1) || (ty =? 0)) = true) as -> by lia.
    unfold zlen. cbn [length]. do 5 f_equal; lia.
  - remember (ty + 4 + 16 * (n mod 16)) as r0 eqn:E0.
    assert (B0 : 0 <= r0 < 256) by lia.
    assert (M4 : r0 mod 4 = ty) by lia. assert (S4 : (r0 / 4) mod 4 = 1) by lia.
    destruct (first_byte_facts r0 B0) as (-> & ->). cbn [rbind]. unfold need_spec. cbv zeta. rewrite M4, S4.
    assert ((ty <? 2) = true) as -> by lia. cbn [Z.eqb Pos.eqb orb].
    cbn [length]. assert ((Z.of_nat (S (S (length rest))) <? 2) = false) as -> by lia.
    assert (((ty =? 1) || (ty =? 0)) = true) as -> by lia.
    unfold znth. change (Z.to_nat 1) with 1%nat. cbn [nth].
    unfold zlen. cbn [length]. do 5 f_equal; lia.
  - remember (ty + 12 + 16 * (n mod 16)) as r0 eqn:E0.
    assert (B0 : 0 <= r0 < 256) by lia.
    assert (M4 : r0 mod 4 = ty) by lia. assert (S4 : (r0 / 4) mod 4 = 3) by lia.
    destruct (first_byte_facts r0 B0) as (-> & ->). cbn [rbind]. unfold need_spec. cbv zeta. rewrite M4, S4.
    assert ((ty <? 2) = true) as -> by lia. cbn [Z.eqb Pos.eqb orb].
    cbn [length]. assert ((Z.of_nat (S (S (S (length rest)))) <? 3) = false) as -> by lia.
    assert (((ty =? 1) || (ty =? 0)) = true) as -> by lia.
    unfold znth. change (Z.to_nat 1) with 1%nat. change (Z.to_nat 2) with 2%nat. cbn [nth].
    unfold zlen. cbn [length]. do 5 f_equal; lia.
Qed.

Lemma repeat_z_len' b n : length (repeat_z b n) = n.
Proof. induction n as [|n IH]; cbn [repeat_z length]; congruence. Qed.

(** raw literals: header, then the bytes *)
Theorem raw_literals_decode ht lits : 
  decode_literals {| ls_type := 0; ls_regen := zlen lits; ls_comp := None; ls_streams := None |} ht lits = ROk (ht, lits, zlen lits).
Proof.
  unfold decode_literals. cbn [ls_type ls_regen]. change (0 =? 0) with true. cbv iota.
  destruct (Z.ltb_spec (zlen lits) (zlen lits)); [lia|]. unfold take_z, zlen. rewrite Nat2Z.id, firstn_all. reflexivity.
Qed.

(** RLE literals: header, then the one byte *)
Theorem rle_literals_decode ht b n : 0 <= n ->
  decode_literals {| ls_type := 1; ls_regen := n; ls_comp := None; ls_streams := None |} ht [b] = ROk (ht, repeat_z b (Z.to_nat n), 1).
Proof. intros Hn. unfold decode_literals. cbn [ls_type ls_regen]. change (1 =? 0) with false. change (1 =? 1) with true. reflexivity. Qed.

(** *** Huffman-coded literals in ONE stream (size format 0: 10-bit sizes) *)
Definition huf1_header (ty regen comp : Z) : list Z := le_bytes 3 (ty + 16 * regen + 16 * 1024 * comp).

Lemma huf1_header_parse ty regen comp rest : (ty = 2 \/ ty = 3) -> 0 <= regen < 1024 -> 0 <= comp < 1024 ->
  lit_header_parse (huf1_header ty regen comp ++ rest) = ROk (3, ty, regen, Some comp, Some 1).
Proof.
  intros Hty Hr Hc. unfold huf1_header. cbn [le_bytes app]. unfold lit_header_parse.
  remember (ty + 16 * regen + 16 * 1024 * comp) as v eqn:Ev.
  assert (B0 : 0 <= v mod 256 < 256) by (apply Z.mod_pos_bound; lia).
  assert (M4 : (v mod 256) mod 4 = ty) by lia. assert (S4 : ((v mod 256) / 4) mod 4 = 0) by lia.
  destruct (first_byte_facts (v mod 256) B0) as (-> & ->). cbn [rbind]. unfold need_spec. cbv zeta. rewrite M4, S4.
  assert ((ty <? 2) = false) as -> by lia. cbn [Z.eqb Pos.eqb orb].
  cbn [length]. assert ((Z.of_nat (S (S (S (length rest)))) <? 3) = false) as -> by lia.
  assert (((ty =? 1) || (ty =? 0)) = false) as -> by lia.
  unfold znth. change (Z.to_nat 1) with 1%nat. change (Z.to_nat 2) with 2%nat. cbn [nth].
  do 4 f_equal; [f_equal; lia|f_equal; lia].
Qed.

Lemma stream_true_false t s out x : huf_decode_stream t s out true = ROk x -> huf_decode_stream t s out false = ROk x.
Proof.
  unfold huf_decode_stream. destruct (rbr_skip_padding (rbr_new s)) as [br|]; [|discriminate].
  destruct (huf_init_state t br) as [st b]. destruct (huf_stream_loop _ t st b out) as [[o b2]|e|e]; cbn [rbind]; try discriminate.
  cbn [andb]. destruct (negb _); [discriminate|]. auto.
Qed.

Section One.
  Variable t : huf_table.
  Variable Mn : nat.
  Hypothesis HM : ht_max_bits t = Z.of_nat Mn.
  Hypothesis HM1 : (1 <= Mn)%nat.
  Hypothesis Hlen : ht_len t = 2 ^ Z.of_nat Mn.
  Variable code : Z -> hcode.
  Variable lits : list Z.
  Hypothesis Hne : lits <> [].
  Hypothesis Hok : Forall (code_ok Mn code) lits.
  Hypothesis Hres : Forall (resolves t Mn code) lits.

  (** description (empty when treeless) followed by the single stream *)
  Theorem huffman_one_stream_decodes ty desc ht :
    (ty = 2 /\ huf_build_decoder ht (desc ++ hstream code lits) = ROk (t, zlen desc)) \/ (ty = 3 /\ desc = [] /\ ht = t) ->
    decode_literals {| ls_type := ty; ls_regen := zlen lits; ls_comp := Some (zlen (desc ++ hstream code lits)); ls_streams := Some 1 |}
                    ht (desc ++ hstream code lits) = ROk (t, lits, zlen (desc ++ hstream code lits)).
  Proof.
    intros Hty. unfold decode_literals. cbn [ls_type ls_regen ls_comp ls_streams].
    assert (T0 : ty =? 0 = false) by (destruct Hty as [(-> & _)|(-> & _)]; reflexivity).
    assert (T1 : ty =? 1 = false) by (destruct Hty as [(-> & _)|(-> & _)]; reflexivity).
    rewrite T0, T1.
    destruct (Z.ltb_spec (zlen (desc ++ hstream code lits)) (zlen (desc ++ hstream code lits))) as [H|_]; [lia|].
    replace (take_z (zlen (desc ++ hstream code lits)) (desc ++ hstream code lits)) with (desc ++ hstream code lits)
      by (unfold take_z, zlen; rewrite Nat2Z.id, firstn_all; reflexivity).
    assert (Etab : (if ty =? 2 then huf_build_decoder ht (desc ++ hstream code lits)
                    else if ht_max_bits ht =? 0 then RErr "UninitializedHuffmanTable" else ROk (ht, 0)) = ROk (t, zlen desc)).
    { destruct Hty as [(-> & Hb)|(-> & -> & ->)].
      - exact Hb.
      - change (3 =? 2) with false. cbv iota. rewrite HM. destruct (Z.eqb_spec (Z.of_nat Mn) 0) as [H|_]; [lia|]. reflexivity. }
    rewrite Etab. cbn [rbind].
    destruct (Z.ltb_spec (zlen (desc ++ hstream code lits)) (zlen desc)) as [H|_]; [rewrite zlen_app' in H; pose proof (zlen_nonneg (hstream code lits)); lia|].
    rewrite drop_app1. change (1 =? 4) with false. change (1 =? 1) with true. cbv iota.
    change (hstream code) with (huf_stream_bytes code).
    rewrite (stream_true_false _ _ _ _ (huffman_stream_roundtrip t Mn HM HM1 Hlen code lits [] Hne Hok Hres)). cbn [rbind].
    rewrite app_nil_r. unfold zlen at 1. rewrite rev_length. fold (zlen lits). rewrite Z.eqb_refl. cbn [negb].
    unfold rev'. rewrite <- rev_alt, rev_involutive. do 2 f_equal. rewrite zlen_app'. reflexivity.
  Qed.
End One.

(** four streams with the 10-bit sizes (size format 1) -- the 14- and 18-bit formats are in C13_LitSection.v *)
Definition huf4_header10 (ty regen comp : Z) : list Z := le_bytes 3 (ty + 4 + 16 * regen + 16 * 1024 * comp).
Lemma huf4_header10_parse ty regen comp rest : (ty = 2 \/ ty = 3) -> 0 <= regen < 1024 -> 0 <= comp < 1024 ->
  lit_header_parse (huf4_header10 ty regen comp ++ rest) = ROk (3, ty, regen, Some comp, Some 4).
Proof.
  intros Hty Hr Hc. unfold huf4_header10. cbn [le_bytes app]. unfold lit_header_parse.
  remember (ty + 4 + 16 * regen + 16 * 1024 * comp) as v eqn:Ev.
  assert (B0 : 0 <= v mod 256 < 256) by (apply Z.mod_pos_bound; lia).
  assert (M4 : (v mod 256) mod 4 = ty) by lia. assert (S4 : ((v mod 256) / 4) mod 4 = 1) by lia.
  destruct (first_byte_facts (v mod 256) B0) as (-> & ->). cbn [rbind]. unfold need_spec. cbv zeta. rewrite M4, S4.
  assert ((ty <? 2) = false) as -> by lia. cbn [Z.eqb Pos.eqb orb].
  cbn [length]. assert ((Z.of_nat (S (S (S (length rest)))) <? 3) = false) as -> by lia.
  assert (((ty =? 1) || (ty =? 0)) = false) as -> by lia.
  unfold znth. change (Z.to_nat 1) with 1%nat. change (Z.to_nat 2) with 2%nat. cbn [nth].
  do 4 f_equal; [f_equal; lia|f_equal; lia].
Qed.
