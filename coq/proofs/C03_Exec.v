(** C03: executing sequences never panics -- for every list of sequences with non-negative lengths and positive offset
    values (all the sequence decoder produces), every literals buffer, every well-formed decode buffer with any dictionary
    content and every offset history. *)
Require Import Zrs.lib.RsPrelude Zrs.gen.Generated Zrs.model.Headers Zrs.model.BitIO Zrs.model.FseDec Zrs.model.HufDec Zrs.model.BlockDec.
Require Import Zrs.proofs.C06_Drain Zrs.proofs.C05_Block Zrs.proofs.C03_Desc.
Open Scope Z_scope.

Lemma db_repeat_no_panic b off ml : db_wf b -> 0 <= ml -> 1 <= off -> no_panic (db_repeat b off ml).
Proof.
  intros W Hml Hoff. unfold db_repeat. assert (L : 0 <= db_len b) by (unfold db_wf in W; lia).
  destruct (Z.ltb_spec (db_len b) off) as [Hlt|Hge].
  - destruct (db_total_out b <=? db_window b); [|exact I].
    destruct (Z.ltb_spec (Z.of_nat (length (db_dict b))) (off - db_len b)) as [|Hd]; [exact I|].
    destruct (off - db_len b <? ml); [|exact I].
    cbn [db_len db_add_total db_append_raw]. rewrite skipn_length.
    destruct (Z.eqb_spec (db_len b + Z.of_nat (length (db_dict b) - Z.to_nat (Z.of_nat (length (db_dict b)) - (off - db_len b)))) 0) as [E|]; [lia|exact I].
  - destruct (Z.eqb_spec off 0); [lia|]. cbn [andb]. exact I.
Qed.

Lemma exec_loop_no_panic seqs : forall lits buf hist ssum,
  db_wf buf -> hist_ok hist -> Forall seq_ok seqs -> 0 <= ssum <= MAX_BLOCK_SIZE ->
  no_panic (exec_loop seqs lits buf hist ssum).
Proof.
  induction seqs as [|sq t IH]; intros lits buf hist ssum W Hh Hs Hsum; cbn [exec_loop]; [exact I|].
  inversion Hs as [|? ? (Hll & Hml & Hof) Hs']; subst.
  destruct (Z.ltb_spec MAX_BLOCK_SIZE (ssum + sq_ll sq + sq_ml sq)) as [|Hcap]; [exact I|].
  assert (P1 : match (if 0 <? sq_ll sq then
                        match split_at (Z.to_nat (sq_ll sq)) lits with
                        | None => RErr "NotEnoughBytesForSequence"%string
                        | Some (a, rest) => ROk (db_push buf a, rest)
                        end else ROk (buf, lits)) with
               | ROk (b1, _) => db_wf b1 | RErr _ => True | RPanic _ => False end).
  { destruct (0 <? sq_ll sq); [|exact W]. destruct (split_at _ lits) as [[a r]|]; [|exact I]. apply (push_inv buf a W). }
  destruct (if 0 <? sq_ll sq then _ else _) as [[buf1 lits1]|e|e]; cbn [rbind]; [|exact I|contradiction].
  pose proof (offhist_ok (sq_of sq) (sq_ll sq) hist Hof Hh) as [Ha Hh1].
  destruct (do_offset_history (sq_of sq) (sq_ll sq) hist) as [actual hist1]. cbn [fst snd] in *.
  destruct (Z.eqb_spec actual 0) as [|Hnz]; [exact I|].
  assert (P2 : match (if 0 <? sq_ml sq then db_repeat buf1 actual (sq_ml sq) else ROk buf1) with
               | ROk b2 => db_wf b2 | RErr _ => True | RPanic _ => False end).
  { destruct (0 <? sq_ml sq); [|exact P1].
    pose proof (db_repeat_no_panic buf1 actual (sq_ml sq) P1 Hml ltac:(lia)) as NP.
    destruct (db_repeat buf1 actual (sq_ml sq)) as [b2|e|e] eqn:Er; [|exact I|contradiction].
    apply (db_repeat_inv buf1 actual (sq_ml sq) b2 P1 Hml Ha Er). }
  destruct (if 0 <? sq_ml sq then _ else _) as [buf2|e|e]; cbn [rbind]; [|exact I|contradiction].
  rewrite max_block_size_val in *.
  destruct (Z.leb_spec (2 ^ 32) (ssum + sq_ml sq + sq_ll sq)) as [Hov|]; [change (2 ^ 32) with 4294967296 in Hov; lia|].
  apply IH; [exact P2|exact Hh1|exact Hs'|lia].
Qed.

Theorem execute_sequences_never_panics seqs lits buf hist :
  db_wf buf -> hist_ok hist -> Forall seq_ok seqs ->
  match execute_sequences seqs lits buf hist with
  | ROk (buf', hist') => db_wf buf' /\ hist_ok hist'
  | RErr _ => True
  | RPanic _ => False
  end.
Proof.
  intros W Hh Hs. pose proof (execute_sequences_inv seqs lits buf hist) as INV. unfold execute_sequences in *.
  pose proof (exec_loop_no_panic seqs lits buf hist 0 W Hh Hs ltac:(rewrite max_block_size_val; lia)) as NP.
  destruct (exec_loop seqs lits buf hist 0) as [[[[buf1 hist1] rest] ssum]|e|e] eqn:El; cbn [rbind] in *; [|exact I|contradiction].
  destruct (exec_loop_inv _ _ _ _ _ _ _ _ _ W Hh Hs (Z.le_refl 0) El) as (W1 & Hh1 & M1 & L1 & Le1 & Cap1).
  destruct ((0 <? zlen rest) && (MAX_BLOCK_SIZE <? ssum + zlen rest)) eqn:Ecap; [exact I|].
  assert (Hsm : ssum <= MAX_BLOCK_SIZE).
  { destruct seqs as [|sq t]; [cbn [exec_loop] in El; inversion El; subst; rewrite max_block_size_val; lia|apply Cap1; discriminate]. }
  assert (Hdiff : (ssum + zlen rest) mod 2 ^ 32 = db_len (if 0 <? zlen rest then db_push buf1 rest else buf1) - db_len buf).
  { rewrite max_block_size_val in *. unfold zlen in *. change (2 ^ 32) with 4294967296.
    destruct (Z.ltb_spec 0 (Z.of_nat (length rest))) as [Hr|Hr].
    - cbn [andb] in Ecap. destruct (push_inv buf1 rest W1) as (_ & P2 & _). rewrite P2. rewrite Z.mod_small by lia. lia.
    - rewrite Z.mod_small by lia. lia. }
  destruct (Z.eqb_spec ((ssum + zlen rest) mod 2 ^ 32) (db_len (if 0 <? zlen rest then db_push buf1 rest else buf1) - db_len buf)) as [_|N]; [|contradiction].
  cbn [negb]. destruct (INV _ _ W Hh Hs eq_refl) as (A & B & _). split; assumption.
Qed.
