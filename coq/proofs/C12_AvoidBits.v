(** C12 / C13: a distribution in which no probability exceeds half the table size gives a table in which every state
    carries at least one bit (what the "avoid zero bits" option of the table builder establishes, and what the two-state
    weight stream of the Huffman table description needs to terminate, C13_WeightStream). *)
Require Import Zrs.lib.RsPrelude Zrs.lib.Sweep Zrs.model.BitIO Zrs.model.FseDec Zrs.model.FseEnc Zrs.model.SeqEnc.
Require Import Zrs.proofs.C12_SeqStream Zrs.proofs.C12_General.
Open Scope Z_scope.

Definition bits_pos_check (al : Z) : bool :=
  forallb (fun pn => let p := Z.of_nat pn + 1 in
             forallb (fun kn => 1 <=? snd (calc_baseline_and_numbits (2 ^ al) p (Z.of_nat kn))) (seq 0 (Z.to_nat p)))
          (seq 0 (Z.to_nat (2 ^ (al - 1)))).
Lemma bits_pos_sweep : sweep bits_pos_check 5 10 = true.
Proof. vm_compute. reflexivity. Qed.

Lemma state_bits_positive al p k : 5 <= al <= 9 -> 1 <= p <= 2 ^ (al - 1) -> 0 <= k < p ->
  1 <= snd (calc_baseline_and_numbits (2 ^ al) p k).
Proof.
  intros Hal Hp Hk. pose proof (sweep_spec _ _ _ bits_pos_sweep al ltac:(lia)) as C. unfold bits_pos_check in C.
  rewrite forallb_forall in C. specialize (C (Z.to_nat (p - 1)) ltac:(apply in_seq; lia)). cbv zeta in C.
  replace (Z.of_nat (Z.to_nat (p - 1)) + 1) with p in C by lia.
  rewrite forallb_forall in C. specialize (C (Z.to_nat k) ltac:(apply in_seq; lia)). rewrite Z2Nat.id in C by lia. lia.
Qed.

Definition entries_carry_a_bit (D : fse_table) : Prop :=
  Forall (fun e => 1 <= e_bits e /\ e_base e < t_len D) (t_decode D).

Theorem half_bounded_distribution_carries_bits al probs ms :
  5 <= al <= 9 -> Forall (fun p => -1 <= p <= 2 ^ (al - 1)) probs -> weight probs = 2 ^ al ->
  (length probs <= 256)%nat -> Z.of_nat (length probs) <= ms + 1 ->
  exists D, fse_build_from_probabilities (fse_new ms) al probs = ROk D /\ entries_carry_a_bit D /\ table_wf D /\
    (forall i, (i < length probs)%nat -> nth i probs 0 <> 0 -> covers D (Z.of_nat i)).
Proof.
  intros Hal Hp Hw Hlen Hms.
  assert (Hp1 : Forall (fun p => -1 <= p) probs) by (eapply Forall_impl; [|exact Hp]; intros a Ha; cbv beta in *; lia).
  destruct (general_table_full al probs ms Hal Hp1 Hw Hlen Hms) as (D & Eb & Hr & Hl & Hc & Hfrom).
  exists D. split; [exact Eb|].
  assert (Hlog : t_acc_log D = al).
  { unfold fse_build_from_probabilities in Eb. destruct (al =? 0); [discriminate|].
    destruct (build_decoding_table _ al probs) as [[dec counter]|e|e]; cbn [rbind] in Eb; try discriminate. injection Eb as <-. reflexivity. }
  assert (Hlen' : t_len D = 2 ^ al) by (unfold t_len; rewrite Hlog; destruct (Z.eqb_spec al 0); [lia|reflexivity]).
  split; [|split; [|exact Hc]].
  - apply Forall_forall. intros e He. destruct (Hr e He) as (Hb & H0 & Hrg).
    assert (P : 0 < 2 ^ e_bits e) by (apply Z.pow_pos_nonneg; lia).
    split; [|rewrite Hlen'; lia].
    destruct (Hfrom e He) as [E|(p & k & Hin & Hp1' & Hk & E)]; [lia|].
    rewrite E. rewrite Forall_forall in Hp. specialize (Hp p Hin). apply state_bits_positive; [exact Hal|lia|exact Hk].
  - unfold table_wf. rewrite Hlen'. split; [exact Hl|]. split; [|lia].
    apply Forall_forall. intros e He. destruct (Hr e He) as (Hb & _). lia.
Qed.
