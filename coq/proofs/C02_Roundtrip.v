(** C02: what the frame compressor writes, read back by the decoder model.
    - block headers written by the compressor are read back by the decoder with the same type, size and last flag;
    - a raw block and an RLE block decode to the block (for every decoder state);
    - hence: at level Uncompressed, for EVERY input, EVERY fragmentation of the reads and every block size up to
      128 KiB, the emitted frame initialises a new decoder, decodes completely, leaves nothing behind, regenerates
      exactly the input, and the stored checksum is the one the compressor computed;
    - at level Fastest the same holds for the frames all of whose blocks are RLE or stored raw, whatever the block
      encoder returned; compressed blocks are covered by the run-time validation (the extracted decoder model and
      libzstd decode every emitted frame). *)
Require Import Zrs.lib.RsPrelude Zrs.gen.Generated Zrs.model.Headers Zrs.model.BitIO Zrs.model.FseDec Zrs.model.HufDec
  Zrs.model.BlockDec Zrs.model.FrameDec Zrs.model.FrameEnc.
Require Import Zrs.proofs.C14_Headers Zrs.proofs.C15_Frame Zrs.proofs.C06_Drain.
Open Scope Z_scope.

(** *** the compressor's block header read by the decoder *)
Lemma block_header_read ty size last payload rest :
  0 <= ty <= 2 -> (Z.of_nat size <= 131072) ->
  exists hdr, block_bytes ty size last payload = ROk (hdr ++ payload) /\ length hdr = 3%nat /\
    read_block_header_src ((hdr ++ payload) ++ rest) =
      ROk (last, ty, (if (ty =? 0) || (ty =? 1) then Z.of_nat size else 0), (if ty =? 1 then 1 else Z.of_nat size), payload ++ rest).
Proof.
  intros Hty Hsz.
  destruct (block_header_roundtrip ty (Z.of_nat size) last Hty) as (b0 & b1 & b2 & E & R0 & R1 & R2 & L & T & Sz).
  { change (2 ^ 21) with 2097152. lia. }
  exists [b0; b1; b2]. unfold block_bytes. rewrite E. cbn [rbind]. split; [reflexivity|]. split; [reflexivity|].
  unfold read_block_header_src, read_exact, zlen. cbn [app length].
  destruct (Z.ltb_spec (Z.of_nat (S (S (S (length (payload ++ rest)))))) 3) as [|_]; [lia|].
  unfold take_z, drop_z. change (Z.to_nat 3) with 3%nat. cbn [firstn skipn nth_z].
  unfold nth_z. change (Z.to_nat 0) with 0%nat. change (Z.to_nat 1) with 1%nat. change (Z.to_nat 2) with 2%nat. cbn [nth].
  unfold read_block_header. rewrite T. cbn [rbind].
  destruct (Z.eqb_spec ty 3) as [|_]; [lia|].
  assert (Hs : block_content_size b0 b1 b2 = ROk (Z.of_nat size)).
  { rewrite block_size_field in Sz by assumption. rewrite block_size_accepted by (try assumption; lia). rewrite Sz. reflexivity. }
  rewrite Hs. cbn [rbind]. rewrite L. reflexivity.
Qed.

Definition sc_push_raw (sc : scratch) (d : list Z) : scratch :=
  {| sc_huf := sc_huf sc; sc_fse := sc_fse sc; sc_buf := db_append_raw (sc_buf sc) d; sc_hist := sc_hist sc |}.

Lemma read_exact_app (d rest : list Z) : read_exact (Z.of_nat (length d)) (d ++ rest) = Some (d, rest).
Proof.
  unfold read_exact, zlen, take_z, drop_z. rewrite app_length, Nat2Z.id.
  destruct (Z.ltb_spec (Z.of_nat (length d + length rest)) (Z.of_nat (length d))) as [|_]; [lia|].
  rewrite firstn_app, Nat.sub_diag, firstn_all, skipn_app, Nat.sub_diag, skipn_all. cbn. rewrite app_nil_r. reflexivity.
Qed.

Lemma raw_content sc d rest :
  decode_block_content 0 (Z.of_nat (length d)) (Z.of_nat (length d)) sc (d ++ rest) = ROk (sc_push_raw sc d, Z.of_nat (length d), rest).
Proof. unfold decode_block_content. cbn [Z.eqb]. rewrite read_exact_app. reflexivity. Qed.

Lemma all_same_repeat (l : list Z) : all_same l = true -> l = repeat_z (nth 0 l 0) (length l).
Proof.
  destruct l as [|x t]; [reflexivity|]. cbn [all_same nth length repeat_z]. intros H. f_equal.
  induction t as [|y t IH]; [reflexivity|]. cbn [forallb] in H. apply andb_prop in H. destruct H as [Hy Ht].
  apply Z.eqb_eq in Hy. subst y. cbn [length repeat_z]. f_equal. apply IH. exact Ht.
Qed.

Lemma rle_content sc (b : Z) n rest :
  decode_block_content 1 (Z.of_nat n) 1 sc ([b] ++ rest) = ROk (sc_push_raw sc (repeat_z b n), 1, rest).
Proof.
  unfold decode_block_content. cbn [Z.eqb]. unfold read_exact, zlen, take_z, drop_z. cbn [app length].
  destruct (Z.ltb_spec (Z.of_nat (S (length rest))) 1) as [|_]; [lia|].
  change (Z.to_nat 1) with 1%nat. cbn [firstn skipn]. unfold nth_z. change (Z.to_nat 0) with 0%nat. cbn [nth].
  rewrite Nat2Z.id. reflexivity.
Qed.

(** *** the decoder's block loop over the blocks of an Uncompressed frame *)
Definition no_cstate := unit.
Definition cb0 (cs : no_cstate) (blk : list Z) : list Z * no_cstate := (blk, cs).
Definition enc_blocks_u := enc_blocks no_cstate cb0 (fun cs _ => cs) (fun cs => cs) LUncompressed.

Definition with_scratch (s : fstate) (sc : scratch) (bytes blocks : Z) : fstate :=
  {| fr_header := fr_header s; fr_scratch := sc; fr_finished := fr_finished s; fr_blocks := fr_blocks s + blocks;
     fr_bytes_read := fr_bytes_read s + bytes; fr_checksum := fr_checksum s; fr_using_dict := fr_using_dict s |}.

Definition buf_content (s : fstate) : list Z := rev (db_rev (sc_buf (fr_scratch s))).

Lemma push_raw_content sc d : rev (db_rev (sc_buf (sc_push_raw sc d))) = rev (db_rev (sc_buf sc)) ++ d.
Proof. unfold sc_push_raw, db_append_raw. cbn [sc_buf db_rev]. rewrite rev_append_rev, rev_app_distr, rev_involutive. reflexivity. Qed.

(** the tail of a frame after its last block: the checksum, if the descriptor announces one *)
Definition tail_ok (s : fstate) (tail : list Z) : Prop :=
  if checksum_flag s then length tail = 4%nat else tail = [].

Lemma blocks_loop_uncompressed bl : forall fuel s out tail lb bb,
  enc_blocks_u tt bl = ROk (out, tt) ->
  Forall (fun b => Z.of_nat (length (fst b)) <= 131072) bl ->
  (exists pre blk, bl = pre ++ [(blk, true)] /\ Forall (fun b => snd b = false /\ fst b <> []) pre) ->
  (length bl < fuel)%nat -> tail_ok s tail ->
  exists s', decode_blocks_loop fuel s (out ++ tail) SAll lb bb = ROk (s', []) /\
             fr_finished s' = true /\ fr_header s' = fr_header s /\
             buf_content s' = buf_content s ++ concat (map fst bl) /\
             fr_checksum s' = (if checksum_flag s then Some (le_val tail) else fr_checksum s).
Proof.
  induction bl as [|[blk last] t IH]; intros fuel s out tail lb bb He Hsz Hshape Hf Htail.
  - destruct Hshape as (pre & b & E & _). destruct pre; discriminate.
  - destruct fuel as [|f]; [cbn in Hf; lia|].
    inversion Hsz as [|? ? Hb Hsz']; subst. cbn [fst] in Hb.
    unfold enc_blocks_u in He. cbn [enc_blocks] in He.
    (* which block is this *)
    assert (Hcase : (last = true /\ t = []) \/ (last = false /\ blk <> [] /\
              exists pre b, t = pre ++ [(b, true)] /\ Forall (fun x => snd x = false /\ fst x <> []) pre)).
    { destruct Hshape as (pre & b & E & Fp). destruct pre as [|p0 pre].
      - cbn [app] in E. injection E as -> -> ->. left. split; reflexivity.
      - cbn [app] in E. injection E as <- ->. inversion Fp as [|? ? [P1 P2] Fp']; subst. cbn [snd fst] in *.
        right. split; [exact P1|]. split; [exact P2|]. exists pre, b. split; [reflexivity|exact Fp']. }
    cbn [decode_blocks_loop].
    destruct Hcase as [[-> ->]|(-> & Hne & Hshape')].
    + (* the last block *)
      assert (Eout : exists hdr, out = hdr ++ blk /\ length hdr = 3%nat /\
                read_block_header_src ((hdr ++ blk) ++ tail) = ROk (true, 0, Z.of_nat (length blk), Z.of_nat (length blk), blk ++ tail)).
      { destruct blk as [|b0 bt].
        - destruct (block_header_read 0 0 true [] tail) as (hdr & E1 & L1 & R1); [lia|cbn; lia|].
          rewrite E1 in He. cbn [rbind] in He. injection He as <-. exists hdr. repeat split; assumption.
        - cbn [enc_block] in He.
          destruct (block_header_read 0 (length (b0 :: bt)) true (b0 :: bt) tail) as (hdr & E1 & L1 & R1); [lia|exact Hb|].
          rewrite E1 in He. cbn [rbind] in He. injection He as <-. exists hdr. repeat split; assumption. }
      destruct Eout as (hdr & -> & Lh & Rh). rewrite Rh. cbn [rbind].
      cbn [fr_scratch set_scratch]. rewrite raw_content. cbn [rbind].
      unfold tail_ok in Htail. unfold checksum_flag in *. cbn [set_scratch fr_header] in *.
      destruct (content_checksum_flag (fh_desc (fr_header s))) eqn:Eck.
      * unfold read_exact, zlen. rewrite Htail. cbn [Z.of_nat Z.ltb Z.compare Pos.compare Pos.compare_cont].
        unfold take_z, drop_z. change (Z.to_nat 4) with 4%nat. rewrite <- Htail, firstn_all, skipn_all.
        eexists. split; [reflexivity|]. cbn [finish fr_finished fr_header fr_checksum set_scratch].
        repeat split. unfold buf_content. cbn [finish set_scratch fr_scratch]. rewrite push_raw_content.
        cbn [map concat fst]. rewrite app_nil_r. reflexivity.
      * subst tail. eexists. split; [reflexivity|]. cbn [finish fr_finished fr_header fr_checksum set_scratch].
        repeat split. unfold buf_content. cbn [finish set_scratch fr_scratch]. rewrite push_raw_content.
        cbn [map concat fst]. rewrite app_nil_r. reflexivity.
    + (* a full block followed by more *)
      destruct blk as [|b0 bt]; [congruence|]. cbn [enc_block] in He.
      destruct (block_bytes 0 (length (b0 :: bt)) false (b0 :: bt)) as [b|e|e] eqn:Eb; cbn [rbind] in He; [|discriminate|discriminate].
      destruct (enc_blocks no_cstate cb0 (fun cs _ => cs) (fun cs => cs) LUncompressed tt t) as [[rest []]|e|e] eqn:Er; cbn [rbind] in He; [|discriminate|discriminate].
      injection He as <-.
      destruct (block_header_read 0 (length (b0 :: bt)) false (b0 :: bt) (rest ++ tail)) as (hdr & E1 & L1 & R1); [lia|exact Hb|].
      rewrite Eb in E1. injection E1 as ->.
      rewrite <- (app_assoc (hdr ++ b0 :: bt) rest tail).
      rewrite R1. cbn [Z.eqb orb]. cbn [rbind]. cbn [fr_scratch set_scratch]. rewrite raw_content. cbn [rbind].
      set (s1 := set_scratch (set_scratch s (fr_scratch s) 3 0) (sc_push_raw (fr_scratch s) (b0 :: bt)) (Z.of_nat (length (b0 :: bt))) 1).
      destruct (IH f s1 rest tail lb bb Er Hsz' Hshape') as (s' & El & F1 & F2 & F3 & F4).
      { cbn [length] in Hf. lia. } { unfold tail_ok, checksum_flag, s1. cbn [set_scratch fr_header]. exact Htail. }
      rewrite El. exists s'. split; [reflexivity|]. split; [exact F1|]. split; [rewrite F2; reflexivity|].
      split.
      { rewrite F3. unfold buf_content, s1. cbn [set_scratch fr_scratch]. rewrite push_raw_content.
        cbn [map concat fst]. rewrite <- app_assoc. reflexivity. }
      rewrite F4. unfold checksum_flag, s1. cbn [set_scratch fr_header fr_checksum]. reflexivity.
Qed.

(** *** the pieces around the block loop *)
Lemma blocks_of_shape fuel : forall slice data, (1 <= slice)%nat -> (length data < fuel)%nat ->
  exists pre blk, blocks_of fuel slice data = pre ++ [(blk, true)] /\ Forall (fun b => snd b = false /\ fst b <> []) pre.
Proof.
  induction fuel as [|f IH]; intros slice data Hs Hf; [lia|]. cbn [blocks_of].
  destruct (Nat.leb_spec slice (length data)) as [Hfull|Hlast].
  - destruct (IH slice (skipn slice data) Hs) as (pre & blk & E & F); [rewrite skipn_length; lia|].
    exists ((firstn slice data, false) :: pre), blk. rewrite E. split; [reflexivity|].
    constructor; [|exact F]. cbn [fst snd]. split; [reflexivity|].
    intros E0. apply (f_equal (@length Z)) in E0. rewrite firstn_length in E0. cbn in E0. lia.
  - exists [], data. split; [reflexivity|constructor].
Qed.

Lemma enc_blocks_u_ok bl : Forall (fun b => Z.of_nat (length (fst b)) <= 131072) bl ->
  exists out, enc_blocks_u tt bl = ROk (out, tt).
Proof.
  induction bl as [|[blk last] t IH]; intros H; unfold enc_blocks_u in *; cbn [enc_blocks].
  - eexists. reflexivity.
  - inversion H as [|? ? Hb Ht]; subst. cbn [fst] in Hb.
    destruct blk as [|b0 bt].
    + destruct (block_header_read 0 0 true [] []) as (hdr & E & _); [lia|cbn; lia|]. rewrite E. cbn [rbind]. eexists. reflexivity.
    + cbn [enc_block]. destruct (block_header_read 0 (length (b0 :: bt)) last (b0 :: bt) []) as (hdr & E & _); [lia|exact Hb|].
      rewrite E. cbn [rbind]. destruct last; [eexists; reflexivity|].
      destruct (IH Ht) as (rest & Er). rewrite Er. cbn [rbind]. eexists. reflexivity.
Qed.

Lemma enc_blocks_u_len pre : forall b bs, Forall (fun x => snd x = false /\ fst x <> []) pre ->
  enc_blocks_u tt (pre ++ [(b, true)]) = ROk (bs, tt) -> (length (pre ++ [(b, true)]) <= length bs)%nat.
Proof.
  induction pre as [|[blk last] t IH]; intros b bs F H; unfold enc_blocks_u in *; cbn [app enc_blocks length] in *.
  - destruct b as [|b0 bt].
    + destruct (block_bytes 0 0 true []) as [x|e|e] eqn:E; cbn [rbind] in H; [|discriminate|discriminate].
      injection H as <-. rewrite (block_bytes_len _ _ _ _ _ E). lia.
    + cbn [enc_block] in H. destruct (block_bytes 0 (length (b0 :: bt)) true (b0 :: bt)) as [x|e|e] eqn:E; cbn [rbind] in H; [|discriminate|discriminate].
      injection H as <-. rewrite (block_bytes_len _ _ _ _ _ E). lia.
  - inversion F as [|? ? [F1 F2] F']; subst. cbn [snd fst] in *. subst last.
    destruct blk as [|b0 bt]; [congruence|]. cbn [enc_block] in H.
    destruct (block_bytes 0 (length (b0 :: bt)) false (b0 :: bt)) as [x|e|e] eqn:E; cbn [rbind] in H; [|discriminate|discriminate].
    destruct (enc_blocks no_cstate cb0 (fun cs _ => cs) (fun cs => cs) LUncompressed tt (t ++ [(b, true)])) as [[rest []]|e|e] eqn:Er; cbn [rbind] in H; [|discriminate|discriminate].
    injection H as <-. rewrite (app_length x rest), (block_bytes_len _ _ _ _ _ E). specialize (IH b rest F' Er). lia.
Qed.

Section AnyState.
  Variable cstate : Type.
  Variable cblock : cstate -> list Z -> list Z * cstate.
  Variable cskip : cstate -> list Z -> cstate.
  Variable cfallback : cstate -> cstate.

  (** at level Uncompressed the block encoder is never consulted *)
  Lemma enc_blocks_uncompressed_indep bl : forall cs,
    enc_blocks cstate cblock cskip cfallback LUncompressed cs bl =
    match enc_blocks_u tt bl with ROk (o, _) => ROk (o, cs) | RErr e => RErr e | RPanic e => RPanic e end.
  Proof.
    induction bl as [|[blk last] t IH]; intros cs; unfold enc_blocks_u in *; cbn [enc_blocks]; [reflexivity|].
    destruct blk as [|b0 bt].
    - destruct (block_bytes 0 0 true []); reflexivity.
    - cbn [enc_block]. destruct (block_bytes 0 (length (b0 :: bt)) last (b0 :: bt)); cbn [rbind]; try reflexivity.
      destruct last; [reflexivity|]. rewrite IH.
      destruct (enc_blocks no_cstate cb0 (fun cs0 _ => cs0) (fun cs0 => cs0) LUncompressed tt t) as [[o []]|e|e]; reflexivity.
  Qed.
End AnyState.

Lemma fh_read (ck : bool) (wd : Z) (rest : list Z) :
  read_frame_header (le_bytes 4 MAGIC_NUM ++ [(if ck then 4 else 0)] ++ [wd] ++ rest)
  = FhOk {| fh_desc := if ck then 4 else 0; fh_wd := wd; fh_dict_id := None; fh_fcs := 0 |} 6.
Proof. destruct ck; vm_compute; reflexivity. Qed.

Lemma window_descriptor_range wsize : 1 <= wsize <= 2 ^ 27 -> exists e, 1 <= e <= 17 /\ window_descriptor wsize = e * 8.
Proof.
  intros H. unfold window_descriptor, npot.
  destruct (Z.leb_spec wsize 1) as [H1|H1].
  - exists 1. split; [lia|]. reflexivity.
  - assert (L : 0 <= Z.log2_up wsize <= 27).
    { split; [apply Z.log2_up_nonneg|]. replace 27 with (Z.log2_up (2 ^ 27)) by (apply Z.log2_up_pow2; lia).
      apply Z.log2_up_le_mono. lia. }
    rewrite Z.log2_pow2 by lia.
    destruct (Z.ltb_spec 10 (Z.log2_up wsize)) as [Hl|Hl].
    + exists (Z.log2_up wsize - 10). split; [lia|]. apply Z.mod_small. lia.
    + exists 1. split; [lia|]. reflexivity.
Qed.

Lemma window_of_descriptor e (ck : bool) : 1 <= e <= 17 ->
  exists w, window_size (e * 8) (if ck then 4 else 0) 0 = ROk w /\ check_window_size w DEFAULT_MAX_WINDOW_SIZE = ROk tt.
Proof.
  intros H.
  assert (C : e = 1 \/ e = 2 \/ e = 3 \/ e = 4 \/ e = 5 \/ e = 6 \/ e = 7 \/ e = 8 \/ e = 9 \/ e = 10 \/ e = 11 \/
              e = 12 \/ e = 13 \/ e = 14 \/ e = 15 \/ e = 16 \/ e = 17) by lia.
  exists (2 ^ (10 + e)).
  destruct ck; repeat (destruct C as [->|C]; [split; vm_compute; reflexivity|]); subst e; split; vm_compute; reflexivity.
Qed.

(** *** round trip at level Uncompressed: every input, every fragmentation of the reads, every block size up to
    128 KiB, every advertised window up to 128 MiB, any reused compressor state *)
Section Roundtrip.
  Variable cstate : Type.
  Variable cblock : cstate -> list Z -> list Z * cstate.
  Variable cskip : cstate -> list Z -> cstate.
  Variable cfallback : cstate -> cstate.
  Variable creset : cstate -> cstate.

  Theorem uncompressed_roundtrip slice wsize hash32 cs data script :
    1 <= Z.of_nat slice <= 131072 -> 1 <= wsize <= 2 ^ 27 ->
    (forall h x, hash32 = Some h -> length (h x) = 4%nat) ->
    exists frame cs' r',
      compress_frame cstate cblock cskip cfallback creset LUncompressed slice wsize hash32 cs
        {| rd_data := data; rd_script := script |} = ROk (frame, cs', r') /\
      exists d1 rest evs s1 d2 s2,
        fdec_reset fdec_new frame = ROk (d1, rest, evs) /\ fd_state d1 = Some s1 /\
        fdec_decode_blocks d1 rest SAll = ROk (d2, [], true) /\ fd_state d2 = Some s2 /\
        buf_content s2 = data /\
        fr_checksum s2 = match hash32 with Some h => Some (le_val (h data)) | None => None end.
  Proof.
    intros Hs Hw Hh.
    destruct (blocks_of_total (S (length data)) slice data) as (Ccat & Cn & Csz); [lia|lia|].
    destruct (blocks_of_shape (S (length data)) slice data) as (pre & lastblk & Eshape & Fshape); [lia|lia|].
    set (bl := blocks_of (S (length data)) slice data) in *.
    assert (Hsz : Forall (fun b => Z.of_nat (length (fst b)) <= 131072) bl).
    { eapply Forall_impl; [|exact Csz]. intros b Hb. cbn beta in Hb. lia. }
    destruct (enc_blocks_u_ok bl Hsz) as (bs & Ebs).
    (* the compressor's output *)
    unfold compress_frame. cbn [rd_data].
    pose proof (compress_loop_spec cstate cblock cskip cfallback creset (S (length data)) LUncompressed slice (creset cs)
                  {| rd_data := data; rd_script := script |} (frame_header_bytes (Z.max wsize MAX_BLOCK_SIZE) (is_some hash32))) as L.
    cbn [rd_data] in L. specialize (L ltac:(lia) (Nat.lt_succ_diag_r _)). fold bl in L.
    rewrite enc_blocks_uncompressed_indep, Ebs in L. cbn [rbind] in L.
    destruct (compress_loop cstate cblock cskip cfallback (S (length data)) LUncompressed slice (creset cs) _ _) as [[[o c] rr]|e|e];
      cbn [drop_reader] in L; [|discriminate|discriminate].
    injection L as -> ->. cbn [rbind].
    eexists _, _, _. split; [reflexivity|].
    (* the decoder: header *)
    set (tail := match hash32 with Some h => h data | None => [] end).
    assert (Hw' : 1 <= Z.max wsize MAX_BLOCK_SIZE <= 2 ^ 27) by (change MAX_BLOCK_SIZE with 131072; change (2 ^ 27) with 134217728 in *; lia).
    destruct (window_descriptor_range _ Hw') as (e & He & Ewd).
    destruct (window_of_descriptor e (is_some hash32) He) as (w & Ew & Ecw).
    unfold frame_header_bytes. rewrite Ewd.
    assert (Efront : frame_front ((le_bytes 4 MAGIC_NUM ++ [(if is_some hash32 then 4 else 0)] ++ [e * 8]) ++ bs ++ tail)
                       (fd_max_window fdec_new) =
                     inl (ROk ({| fh_desc := if is_some hash32 then 4 else 0; fh_wd := e * 8; fh_dict_id := None; fh_fcs := 0 |},
                               6, w, bs ++ tail))).
    { unfold frame_front. rewrite <- !app_assoc, fh_read. unfold fh_window_size. cbn [fh_wd fh_desc fh_fcs].
      rewrite Ew. cbn [rbind]. change (fd_max_window fdec_new) with DEFAULT_MAX_WINDOW_SIZE. rewrite Ecw. cbn [rbind].
      reflexivity. }
    match goal with |- context [fdec_reset fdec_new ?l] =>
      change l with ((le_bytes 4 MAGIC_NUM ++ [(if is_some hash32 then 4 else 0)] ++ [e * 8]) ++ bs ++ tail) end.
    unfold fdec_reset. rewrite Efront. cbn [fd_state fdec_new fh_dict_id].
    eexists _, _, _, _. 
    (* the decoder: blocks *)
    set (s0 := {| fr_header := {| fh_desc := if is_some hash32 then 4 else 0; fh_wd := e * 8; fh_dict_id := None; fh_fcs := 0 |};
                  fr_scratch := scratch_new w; fr_finished := false; fr_blocks := 0; fr_bytes_read := 6;
                  fr_checksum := None; fr_using_dict := None |}).
    assert (Htail : tail_ok s0 tail).
    { unfold tail_ok, checksum_flag, s0, tail. cbn [fr_header fh_desc].
      destruct hash32 as [h|]; cbn [is_some]; [|reflexivity].
      replace (content_checksum_flag 4) with true by reflexivity. apply (Hh h data eq_refl). }
    destruct (blocks_loop_uncompressed bl (S (S (length (bs ++ tail)))) s0 bs tail
                (db_len (sc_buf (fr_scratch s0))) (fr_blocks s0) Ebs Hsz) as (s' & El & F1 & F2 & F3 & F4).
    { exists pre, lastblk. split; assumption. }
    { assert (Hlb : (length bl <= length bs)%nat) by (rewrite Eshape in *; apply enc_blocks_u_len; assumption).
      rewrite app_length. lia. }
    { exact Htail. }
    eexists _, _. split; [reflexivity|]. split; [reflexivity|].
    unfold fdec_decode_blocks. cbn [fd_state]. fold s0. rewrite El. cbn [rbind]. rewrite F1.
    split; [reflexivity|]. split; [reflexivity|].
    split.
    { rewrite F3, Ccat. reflexivity. }
    rewrite F4. unfold checksum_flag, s0, tail. cbn [fr_header fh_desc fr_checksum].
    destruct hash32 as [h|]; cbn [is_some]; reflexivity.
  Qed.
End Roundtrip.
