(** C12: the general table theorem for distributions without "less than one" probabilities (what the compressor's
    normaliser produces): for every accuracy log 5..9 and every vector of non-negative probabilities summing to
    2^accuracy_log, [build_decoding_table] succeeds, and every symbol with a positive probability has states whose
    ranges cover the whole state space (the hypothesis [covers] of the stream theorems). *)
Require Import Zrs.lib.RsPrelude Zrs.lib.Sweep Zrs.model.BitIO Zrs.model.FseDec.
Require Import Zrs.model.BitStream Zrs.model.SeqEnc Zrs.proofs.C12_Fse Zrs.proofs.C12_Stream Zrs.proofs.C12_SeqStream.
Require Import Zrs.model.FseNorm Zrs.proofs.C12_Norm.
Require Import Permutation.
Open Scope Z_scope.

(** *** the orbit of the spreading step *)
Lemma mem_z_In x l : mem_z x l = true <-> In x l.
Proof.
  induction l as [|y t IH]; cbn [mem_z In]; [split; [discriminate|tauto]|].
  rewrite Bool.orb_true_iff, IH. split; intros [H|H]; auto; [left; lia|left; lia].
Qed.
Lemma nodup_z_NoDup l : nodup_z l = true -> NoDup l.
Proof.
  induction l as [|x t IH]; cbn [nodup_z]; intros H; [constructor|]. apply andb_prop in H as [H1 H2].
  constructor; [|apply IH; exact H2]. intros Hin. apply mem_z_In in Hin. rewrite Hin in H1. discriminate.
Qed.

Lemma orbit_length n : forall pos size, length (orbit n pos size) = n.
Proof. induction n as [|n IH]; intros pos size; cbn [orbit length]; [reflexivity|]. rewrite IH. reflexivity. Qed.

Fixpoint adv (n : nat) (pos size : Z) : Z := match n with O => pos | S k => adv k (next_position pos size) size end.
Lemma orbit_app n : forall m pos size, orbit (n + m) pos size = orbit n pos size ++ orbit m (adv n pos size) size.
Proof. induction n as [|n IH]; intros m pos size; cbn [Nat.add orbit adv app]; [reflexivity|]. rewrite IH. reflexivity. Qed.

Lemma next_position_range p size : 0 < size -> 0 <= next_position p size < size.
Proof. intros H. unfold next_position. apply Z.mod_pos_bound. exact H. Qed.

Lemma orbit_facts al : 5 <= al <= 9 ->
  let size := 2 ^ al in let O := orbit (Z.to_nat size) 0 size in
  NoDup O /\ (forall x, In x O -> 0 <= x < size) /\ length O = Z.to_nat size.
Proof.
  intros Ha size O. pose proof (spreading_step_is_a_permutation al Ha) as C. unfold orbit_check in C. fold size in C. fold O in C.
  apply andb_prop in C as [C _]. apply andb_prop in C as [C1 C2].
  split; [apply nodup_z_NoDup; exact C1|]. split; [|apply orbit_length].
  intros x Hx. rewrite forallb_forall in C2. specialize (C2 x Hx). lia.
Qed.

(** *** phase 1: nothing to place when no probability is negative *)
Lemma place_negative_none probs : forall sym al neg dec, Forall (fun p => 0 <= p) probs ->
  place_negative probs sym al neg dec = ROk (neg, dec).
Proof.
  induction probs as [|p t IH]; intros sym al neg dec H; cbn [place_negative]; [reflexivity|].
  inversion H; subst. destruct (Z.eqb_spec p (-1)); [lia|]. apply IH. assumption.
Qed.

(** *** phase 2: spreading writes the symbols along the orbit *)
Definition set_sym (dec : list fse_entry) (pos sym : Z) : list fse_entry :=
  upd dec (Z.to_nat pos) {| e_base := e_base (nth_e dec pos); e_bits := e_bits (nth_e dec pos); e_sym := sym |}.
Fixpoint write_list (dec : list fse_entry) (ws : list (Z * Z)) : list fse_entry :=
  match ws with [] => dec | (pos, sym) :: t => write_list (set_sym dec pos sym) t end.

Lemma upd_len' {A} (l : list A) : forall i v, length (upd l i v) = length l.
Proof. induction l as [|h t IH]; intros i v; destruct i; cbn [upd length]; try reflexivity. rewrite IH. reflexivity. Qed.
Lemma set_sym_length dec pos sym : length (set_sym dec pos sym) = length dec.
Proof. apply upd_len'. Qed.
Lemma write_list_length ws : forall dec, length (write_list dec ws) = length dec.
Proof. induction ws as [|[p s] t IH]; intros dec; cbn [write_list]; [reflexivity|]. rewrite IH. apply set_sym_length. Qed.

Lemma skip_none f pos size : 0 <= pos < size -> skip_taken (S f) pos size size = ROk pos.
Proof. intros H. cbn [skip_taken]. destruct (Z.leb_spec size pos); [lia|reflexivity]. Qed.

Lemma spread_one_orbit n : forall sym pos size dec, 0 < size -> 0 <= pos < size -> Z.of_nat (length dec) = size ->
  spread_one n sym pos size size dec =
    ROk (adv n pos size, write_list dec (map (fun p => (p, sym)) (orbit n pos size))).
Proof.
  induction n as [|n IH]; intros sym pos size dec Hs Hp Hl; cbn [spread_one orbit adv map write_list]; [reflexivity|].
  destruct (Z.leb_spec (Z.of_nat (length dec)) pos) as [H|_]; [lia|].
  rewrite skip_none by (apply next_position_range; exact Hs). cbn [rbind].
  fold (set_sym dec pos sym). rewrite IH; [reflexivity|exact Hs|apply next_position_range; exact Hs|rewrite set_sym_length; exact Hl].
Qed.

(** the symbols in the order they are written: symbol [sym0 + i] repeated [p_i] times *)
Fixpoint syms (probs : list Z) (sym : Z) : list Z :=
  match probs with
  | [] => []
  | p :: t => (if p <=? 0 then [] else repeat (sym mod 256) (Z.to_nat p)) ++ syms t (sym + 1)
  end.

Lemma write_list_app a : forall dec b, write_list dec (a ++ b) = write_list (write_list dec a) b.
Proof. induction a as [|[p s] t IH]; intros dec b; cbn [app write_list]; [reflexivity|]. apply IH. Qed.

Lemma combine_repeat (ps : list Z) (s : Z) : combine ps (repeat s (length ps)) = map (fun p => (p, s)) ps.
Proof. induction ps as [|p t IH]; cbn [length repeat combine map]; [reflexivity|]. rewrite IH. reflexivity. Qed.

Lemma spread_orbit probs : forall sym pos size dec, 0 < size -> 0 <= pos < size -> Z.of_nat (length dec) = size ->
  spread probs sym pos size size dec =
    ROk (write_list dec (combine (orbit (length (syms probs sym)) pos size) (syms probs sym))).
Proof.
  induction probs as [|p t IH]; intros sym pos size dec Hs Hp Hl; cbn [spread syms]; [reflexivity|].
  destruct (Z.leb_spec p 0) as [Hp0|Hp0]; [cbn [app]; apply IH; assumption|].
  rewrite spread_one_orbit by assumption. cbn [rbind].
  rewrite IH; [|exact Hs| |rewrite write_list_length; exact Hl].
  2:{ clear - Hs Hp. generalize (Z.to_nat p). intros n. revert pos Hp. induction n as [|n IHn]; intros pos Hp; cbn [adv]; [exact Hp|].
      apply IHn. apply next_position_range. exact Hs. }
  f_equal. rewrite app_length, repeat_length, orbit_app.
  rewrite <- write_list_app. f_equal.
  assert (E : forall (a a' : list Z) (b b' : list Z), length a = length b -> combine (a ++ a') (b ++ b') = combine a b ++ combine a' b').
  { clear. induction a as [|x a IH]; intros a' b b' Hl; destruct b as [|y b]; cbn in Hl; try lia; cbn [app combine]; [reflexivity|].
    rewrite IH by lia. reflexivity. }
  rewrite E by (rewrite orbit_length, repeat_length; reflexivity). f_equal.
  rewrite <- (combine_repeat (orbit (Z.to_nat p) pos size) (sym mod 256)). rewrite orbit_length. reflexivity.
Qed.

(** *** reading the symbols back *)
Definition sym_at (dec : list fse_entry) (i : Z) : Z := e_sym (nth_e dec i).

Lemma nth_upd_eq {A} (l : list A) d : forall i v, (i < length l)%nat -> nth i (upd l i v) d = v.
Proof. induction l as [|h t IH]; intros i v Hi; [cbn in Hi; lia|]. destruct i; cbn [upd nth]; [reflexivity|]. apply IH. cbn in Hi. lia. Qed.
Lemma nth_upd_neq {A} (l : list A) d : forall i j v, i <> j -> nth j (upd l i v) d = nth j l d.
Proof.
  induction l as [|h t IH]; intros i j v Hn; [destruct i; destruct j; reflexivity|].
  destruct i; destruct j; cbn [upd nth]; try reflexivity; try lia. apply IH. lia.
Qed.

Lemma set_sym_same dec pos sym : 0 <= pos < Z.of_nat (length dec) -> sym_at (set_sym dec pos sym) pos = sym.
Proof. intros H. unfold sym_at, set_sym, nth_e. rewrite nth_upd_eq by lia. reflexivity. Qed.
Lemma set_sym_other dec pos sym i : 0 <= pos -> 0 <= i -> i <> pos -> nth_e (set_sym dec pos sym) i = nth_e dec i.
Proof. intros Hp Hi Hn. unfold set_sym, nth_e. apply nth_upd_neq. lia. Qed.

Lemma write_list_other ws : forall dec i, 0 <= i -> Forall (fun w => 0 <= fst w) ws -> ~ In i (map fst ws) ->
  nth_e (write_list dec ws) i = nth_e dec i.
Proof.
  induction ws as [|[p s] t IH]; intros dec i Hi Hnn Hni; cbn [write_list]; [reflexivity|].
  inversion Hnn; subst. cbn [map fst In] in *. rewrite IH; [|exact Hi|assumption|tauto].
  apply set_sym_other; [assumption|exact Hi|intros ->; tauto].
Qed.

Lemma write_list_at ws : forall dec p s, NoDup (map fst ws) -> Forall (fun w => 0 <= fst w < Z.of_nat (length dec)) ws ->
  In (p, s) ws -> sym_at (write_list dec ws) p = s.
Proof.
  induction ws as [|[p0 s0] t IH]; intros dec p s Hnd Hr Hin; [contradiction|].
  cbn [write_list]. inversion Hnd as [|? ? Hni Hnd']; subst. inversion Hr as [|? ? Hr0 Hr']; subst. cbn [fst] in Hr0.
  destruct Hin as [E|Hin].
  - injection E as <- <-. unfold sym_at. rewrite write_list_other; [apply set_sym_same; exact Hr0|lia| |exact Hni].
    eapply Forall_impl; [|exact Hr']. cbn. intros; lia.
  - apply IH; [exact Hnd'| |exact Hin]. eapply Forall_impl; [|exact Hr']. cbn. intros w Hw. rewrite set_sym_length. exact Hw.
Qed.

Lemma map_sym_at_combine O : forall S dec, length O = length S -> NoDup O ->
  Forall (fun p => 0 <= p < Z.of_nat (length dec)) O ->
  map (sym_at (write_list dec (combine O S))) O = S.
Proof.
  intros S dec Hl Hnd Hr.
  assert (Hfst : map fst (combine O S) = O).
  { clear - Hl. revert S Hl. induction O as [|o O IH]; intros S Hl; destruct S as [|s S]; cbn in Hl; try lia; cbn [combine map fst]; [reflexivity|].
    rewrite IH by lia. reflexivity. }
  assert (G : forall k, (k < length O)%nat -> sym_at (write_list dec (combine O S)) (nth k O 0) = nth k S 0).
  { intros k Hk. apply write_list_at.
    - rewrite Hfst. exact Hnd.
    - apply Forall_forall. intros [p s] Hin. cbn [fst]. apply in_combine_l in Hin. rewrite Forall_forall in Hr. apply Hr. exact Hin.
    - rewrite <- (combine_nth O S k 0 0 Hl). apply nth_In. rewrite combine_length. lia. }
  apply nth_ext with (d := 0) (d' := 0); [rewrite map_length; exact Hl|].
  intros k Hk. rewrite map_length in Hk.
  rewrite (nth_indep _ 0 (sym_at (write_list dec (combine O S)) 0)) by (rewrite map_length; exact Hk).
  rewrite map_nth. apply G. exact Hk.
Qed.

(** *** phase 3: baselines and bit counts in state order *)
Definition mk_entry (size p k sym : Z) : fse_entry :=
  let '(bl, nb) := calc_baseline_and_numbits size p k in {| e_base := bl; e_bits := nb; e_sym := sym |}.

(** what [assign] writes for the symbols [G] (in state order), counting occurrences in [cnt] *)
Fixpoint assign_pure (size : Z) (probs : list Z) (G : list Z) (cnt : Z -> Z) : list fse_entry :=
  match G with
  | [] => []
  | s :: t => mk_entry size (nth_z probs s) (cnt s) s :: assign_pure size probs t (fun x => if x =? s then cnt s + 1 else cnt x)
  end.

Lemma assign_pure_ext size probs G : forall c c', (forall x, 0 <= x -> c x = c' x) -> Forall (fun s => 0 <= s) G ->
  assign_pure size probs G c = assign_pure size probs G c'.
Proof.
  induction G as [|s t IH]; intros c c' He Hg; cbn [assign_pure]; [reflexivity|]. inversion Hg; subst.
  rewrite (He s) by assumption. f_equal. apply IH; [|assumption].
  intros x Hx. destruct (x =? s); [reflexivity|apply He; exact Hx].
Qed.

Lemma nth_z_upd counter s v x : 0 <= s < Z.of_nat (length counter) -> 0 <= x ->
  nth_z (upd counter (Z.to_nat s) v) x = if x =? s then v else nth_z counter x.
Proof.
  intros Hs Hx. unfold nth_z. destruct (Z.eqb_spec x s) as [->|Hn].
  - apply nth_upd_eq. lia.
  - apply nth_upd_neq. lia.
Qed.

Lemma firstn_upd_skipn {A} (l : list A) i v : (i < length l)%nat -> upd l i v = firstn i l ++ v :: skipn (S i) l.
Proof.
  revert i. induction l as [|h t IH]; intros i Hi; [cbn in Hi; lia|]. destruct i; cbn [upd firstn skipn app]; [reflexivity|].
  rewrite IH by (cbn in Hi; lia). reflexivity.
Qed.

Lemma firstn_S_upd {A} (l : list A) : forall i v, (i < length l)%nat -> firstn (S i) (upd l i v) = firstn i l ++ [v].
Proof.
  induction l as [|h t IH]; intros i v Hi; [cbn in Hi; lia|]. destruct i; [reflexivity|].
  cbn [upd]. rewrite !firstn_cons. rewrite IH by (cbn in Hi; lia). reflexivity.
Qed.
Lemma skipn_S_upd {A} (l : list A) : forall i n v, skipn (S i + n) (upd l i v) = skipn (i + S n) l.
Proof.
  induction l as [|h t IH]; intros i n v; [destruct i; cbn [upd]; rewrite !skipn_nil; reflexivity|].
  destruct i; cbn [upd Nat.add skipn]; [reflexivity|]. apply IH.
Qed.

Lemma assign_spec n : forall idx size al probs counter dec,
  0 <= idx -> Z.of_nat (length dec) = size -> idx + Z.of_nat n <= size ->
  Forall (fun p => 0 <= p) probs ->
  (forall i, idx <= i < idx + Z.of_nat n -> 0 <= sym_at dec i < Z.of_nat (length probs)) ->
  length counter = length probs ->
  let G := map (sym_at dec) (map (fun k => idx + Z.of_nat k) (seq 0 n)) in
  let out := assign_pure size probs G (nth_z counter) in
  Forall (fun e => e_bits e <= al) out ->
  exists counter', assign n idx size al probs counter dec =
    ROk (counter', firstn (Z.to_nat idx) dec ++ out ++ skipn (Z.to_nat idx + n) dec).
Proof.
  induction n as [|n IH]; intros idx size al probs counter dec Hi Hl Hb Hp Hs Hc G out Hnb.
  - cbn [assign]. exists counter. unfold out, G. cbn [seq map assign_pure app]. rewrite Nat.add_0_r, firstn_skipn. reflexivity.
  - cbn [assign]. unfold out, G in *. cbn [seq map assign_pure] in *. rewrite Z.add_0_r in *.
    fold (sym_at dec idx).
    destruct (Hs idx ltac:(lia)) as (S0 & S1).
    destruct (Z.leb_spec (Z.of_nat (length probs)) (sym_at dec idx)) as [H|_]; [lia|].
    assert (Hpn : 0 <= nth_z probs (sym_at dec idx)).
    { unfold nth_z. clear - Hp. generalize (Z.to_nat (sym_at dec idx)). intros k. revert k. induction Hp; intros k; destruct k; cbn [nth]; try lia; auto. }
    destruct (Z.ltb_spec (nth_z probs (sym_at dec idx)) 0) as [H|_]; [lia|].
    apply Forall_cons_iff in Hnb as [Hb0 Hrest].
    unfold mk_entry in Hb0 |- *.
    destruct (calc_baseline_and_numbits size (nth_z probs (sym_at dec idx)) (nth_z counter (sym_at dec idx))) as [bl nb] eqn:Ec.
    cbn [e_bits] in Hb0. destruct (Z.ltb_spec al nb) as [H|_]; [lia|].
    set (dec1 := upd dec (Z.to_nat idx) {| e_base := bl; e_bits := nb; e_sym := sym_at dec idx |}).
    set (counter1 := upd counter (Z.to_nat (sym_at dec idx)) (nth_z counter (sym_at dec idx) + 1)).
    assert (Hsym1 : forall i, 0 <= i -> sym_at dec1 i = sym_at dec i).
    { intros i Hi0. unfold sym_at, dec1, nth_e. destruct (Z.eq_dec i idx) as [->|Hn].
      - rewrite nth_upd_eq by lia. reflexivity.
      - rewrite nth_upd_neq by lia. reflexivity. }
    destruct (IH (idx + 1) size al probs counter1 dec1) as (c' & E).
    + lia.
    + unfold dec1. rewrite upd_len'. exact Hl.
    + lia.
    + exact Hp.
    + intros i Hi0. rewrite Hsym1 by lia. apply Hs. lia.
    + unfold counter1. rewrite upd_len'. exact Hc.
    + (* the bit counts of the remaining entries *)
      replace (map (sym_at dec1) (map (fun k => idx + 1 + Z.of_nat k) (seq 0 n)))
        with (map (sym_at dec) (map (fun k => idx + Z.of_nat k) (seq 1 n))).
      2:{ rewrite <- seq_shift, !map_map. apply map_ext_in. intros k Hk. rewrite Hsym1 by lia. f_equal. lia. }
      erewrite (assign_pure_ext size probs _ (nth_z counter1)); [exact Hrest| |].
      * intros x Hx. unfold counter1. rewrite nth_z_upd by lia. reflexivity.
      * apply Forall_forall. intros x Hx. apply in_map_iff in Hx as (i & <- & Hin). apply in_map_iff in Hin as (k & <- & Hk).
        apply in_seq in Hk. apply Hs. lia.
    + exists c'. rewrite E. f_equal. f_equal.
      replace (map (sym_at dec1) (map (fun k => idx + 1 + Z.of_nat k) (seq 0 n)))
        with (map (sym_at dec) (map (fun k => idx + Z.of_nat k) (seq 1 n))).
      2:{ rewrite <- seq_shift, !map_map. apply map_ext_in. intros k Hk. rewrite Hsym1 by lia. f_equal. lia. }
      rewrite (assign_pure_ext size probs _ (nth_z counter1) (fun x => if x =? sym_at dec idx then nth_z counter (sym_at dec idx) + 1 else nth_z counter x)).
      2:{ intros x Hx. unfold counter1. rewrite nth_z_upd by lia. reflexivity. }
      2:{ apply Forall_forall. intros x Hx. apply in_map_iff in Hx as (i & <- & Hin). apply in_map_iff in Hin as (k & <- & Hk).
          apply in_seq in Hk. apply Hs. lia. }
      unfold dec1. replace (Z.to_nat (idx + 1)) with (S (Z.to_nat idx)) by lia.
      rewrite firstn_S_upd by lia. rewrite skipn_S_upd. rewrite <- !app_assoc. reflexivity.
Qed.

(** *** counting *)
Notation cnt_occ := (count_occ Z.eq_dec).

Lemma assign_pure_nth size probs G : forall cnt k, (k < length G)%nat ->
  nth k (assign_pure size probs G cnt) entry0 =
    mk_entry size (nth_z probs (nth k G 0)) (cnt (nth k G 0) + Z.of_nat (cnt_occ (firstn k G) (nth k G 0))) (nth k G 0).
Proof.
  induction G as [|s t IH]; intros cnt k Hk; [cbn in Hk; lia|]. destruct k as [|k]; cbn [assign_pure nth firstn].
  - cbn [count_occ]. rewrite Z.add_0_r. reflexivity.
  - rewrite IH by (cbn in Hk; lia). cbn [count_occ]. destruct (Z.eq_dec s (nth k t 0)) as [E|E].
    + rewrite <- E, Z.eqb_refl. f_equal. lia.
    + destruct (Z.eqb_spec (nth k t 0) s); [congruence|]. reflexivity.
Qed.
Lemma assign_pure_length size probs G : forall cnt, length (assign_pure size probs G cnt) = length G.
Proof. induction G as [|s t IH]; intros cnt; cbn [assign_pure length]; [reflexivity|]. rewrite IH. reflexivity. Qed.

Lemma occ_prefix_lt (G : list Z) : forall k, (k < length G)%nat -> (cnt_occ (firstn k G) (nth k G 0%Z) < cnt_occ G (nth k G 0%Z))%nat.
Proof.
  induction G as [|s t IH]; intros k Hk; [cbn in Hk; lia|]. destruct k as [|k]; cbn [firstn nth count_occ].
  - destruct (Z.eq_dec s s); [lia|congruence].
  - specialize (IH k ltac:(cbn in Hk; lia)). destruct (Z.eq_dec s (nth k t 0)); lia.
Qed.

Lemma occurrence_exists (G : list Z) s : forall j, (j < cnt_occ G s)%nat ->
  exists k, (k < length G)%nat /\ nth k G 0 = s /\ cnt_occ (firstn k G) s = j.
Proof.
  induction G as [|x t IH]; intros j Hj; [cbn in Hj; lia|]. cbn [count_occ] in Hj.
  destruct (Z.eq_dec x s) as [E|E].
  - destruct j as [|j].
    + exists 0%nat. cbn [length nth firstn count_occ]. repeat split; [lia|exact E].
    + destruct (IH j ltac:(lia)) as (k & Hk & Hn & Hc). exists (S k). cbn [length nth firstn count_occ].
      destruct (Z.eq_dec x s); [|congruence]. repeat split; [lia|exact Hn|lia].
  - destruct (IH j Hj) as (k & Hk & Hn & Hc). exists (S k). cbn [length nth firstn count_occ].
    destruct (Z.eq_dec x s); [congruence|]. repeat split; [lia|exact Hn|exact Hc].
Qed.

(** how often a symbol is written: its probability *)
Lemma count_repeat (s x : Z) n : cnt_occ (repeat x n) s = if Z.eq_dec x s then n else 0%nat.
Proof. induction n as [|n IH]; cbn [repeat count_occ]; [destruct (Z.eq_dec x s); reflexivity|]. rewrite IH. destruct (Z.eq_dec x s); reflexivity. Qed.

Lemma syms_count_before probs : forall s0 x, 0 <= x < s0 -> s0 + Z.of_nat (length probs) <= 256 -> cnt_occ (syms probs s0) x = 0%nat.
Proof.
  induction probs as [|q t IH]; intros s0 x Hx Hb; cbn [syms]; [reflexivity|]. cbn [length] in Hb.
  rewrite count_occ_app, IH by lia. rewrite Z.mod_small by lia.
  destruct (q <=? 0); [reflexivity|]. rewrite count_repeat. destruct (Z.eq_dec s0 x); [lia|reflexivity].
Qed.

Lemma syms_count probs : forall sym0 i, 0 <= sym0 -> sym0 + Z.of_nat (length probs) <= 256 -> (i < length probs)%nat ->
  Forall (fun p => 0 <= p) probs ->
  cnt_occ (syms probs sym0) (sym0 + Z.of_nat i) = Z.to_nat (nth i probs 0).
Proof.
  induction probs as [|p t IH]; intros sym0 i H0 Hb Hi Hp; [cbn in Hi; lia|]. inversion Hp; subst.
  cbn [syms length] in *. rewrite count_occ_app. rewrite Z.mod_small by lia.
  destruct i as [|i]; cbn [nth].
  - rewrite Z.add_0_r. rewrite syms_count_before by lia. destruct (Z.leb_spec p 0) as [Hle|Hgt].
    + cbn. lia.
    + rewrite count_repeat. destruct (Z.eq_dec sym0 sym0); [lia|congruence].
  - assert (Hnone : cnt_occ (if p <=? 0 then [] else repeat sym0 (Z.to_nat p)) (sym0 + Z.of_nat (S i)) = 0%nat).
    { destruct (p <=? 0); [reflexivity|]. rewrite count_repeat. destruct (Z.eq_dec sym0 (sym0 + Z.of_nat (S i))); [lia|reflexivity]. }
    rewrite Hnone. replace (sym0 + Z.of_nat (S i)) with (sym0 + 1 + Z.of_nat i) by lia.
    rewrite IH; [reflexivity|lia|lia|lia|assumption].
Qed.

Lemma syms_length probs : forall sym0, Forall (fun p => 0 <= p) probs -> Z.of_nat (length (syms probs sym0)) = zsum probs.
Proof.
  induction probs as [|p t IH]; intros sym0 Hp; [reflexivity|]. inversion Hp; subst. cbn [syms zsum fold_right]. fold (zsum t).
  rewrite app_length, Nat2Z.inj_add, IH by assumption. destruct (Z.leb_spec p 0); [cbn; lia|rewrite repeat_length; lia].
Qed.

Lemma syms_range probs : forall sym0 x, 0 <= sym0 -> sym0 + Z.of_nat (length probs) <= 256 -> In x (syms probs sym0) ->
  sym0 <= x < sym0 + Z.of_nat (length probs).
Proof.
  induction probs as [|p t IH]; intros sym0 x H0 Hb Hin; [contradiction|]. cbn [syms length] in *.
  apply in_app_or in Hin as [Hin|Hin].
  - destruct (p <=? 0); [contradiction|]. apply repeat_spec in Hin. rewrite Z.mod_small in Hin by lia. lia.
  - specialize (IH (sym0 + 1) x ltac:(lia) ltac:(lia) Hin). lia.
Qed.

(** *** tiling gives covering *)
Lemma in_firstn' {A} (x : A) n : forall l, In x (firstn n l) -> In x l.
Proof. induction n as [|n IH]; intros l H; [contradiction|]. destruct l as [|h t]; [contradiction|]. cbn [firstn] in H. destruct H as [->|H]; [left; reflexivity|right; apply IH; exact H]. Qed.
Lemma in_skipn' {A} (x : A) n : forall l, In x (skipn n l) -> In x l.
Proof. induction n as [|n IH]; intros l H; [exact H|]. destruct l as [|h t]; [contradiction|]. cbn [skipn] in H. right. apply IH. exact H. Qed.

Lemma tile_from_covers rs : forall start e x, tile_from start rs = Some e -> Forall (fun r => 0 <= snd r) rs -> start <= x < e ->
  exists bl nb, In (bl, nb) rs /\ bl <= x < bl + 2 ^ nb.
Proof.
  induction rs as [|[bl nb] t IH]; intros start e x H Hnn Hx; cbn [tile_from] in H.
  - injection H as <-. lia.
  - destruct (Z.eqb_spec bl start) as [->|]; [|discriminate]. inversion Hnn as [|? ? Hn0 Hnt]; subst. cbn [snd] in Hn0.
    destruct (Z.ltb_spec x (start + 2 ^ nb)) as [Hlt|Hge].
    + exists start, nb. split; [left; reflexivity|lia].
    + destruct (IH _ _ x H Hnt ltac:(lia)) as (b & n & Hin & Hr). exists b, n. split; [right; exact Hin|exact Hr].
Qed.

Lemma ranges_In size p n : forall k0 r, In r (ranges size p k0 n) -> exists k, k0 <= k < k0 + Z.of_nat n /\ r = calc_baseline_and_numbits size p k.
Proof.
  induction n as [|n IH]; intros k0 r Hin; [contradiction|]. cbn [ranges] in Hin. destruct Hin as [<-|Hin].
  - exists k0. split; [lia|reflexivity].
  - destruct (IH _ _ Hin) as (k & Hk & E). exists k. split; [lia|exact E].
Qed.

Lemma find_entry_some l : forall i pred e, In e l -> pred e = true -> find_entry l i pred <> None.
Proof.
  induction l as [|x t IH]; intros i pred e Hin Hp; [contradiction|]. cbn [find_entry].
  destruct (pred x) eqn:Ex; [discriminate|]. destruct Hin as [->|Hin]; [congruence|]. eapply IH; eassumption.
Qed.
Lemma min_base_some l : forall i s best e, In e l -> e_sym e = s -> min_base l i s best <> None.
Proof.
  assert (Keep : forall l0 i s b, b <> None -> min_base l0 i s b <> None).
  { induction l0 as [|x t IH]; intros i s b Hb; cbn [min_base]; [exact Hb|]. apply IH.
    destruct (e_sym x =? s); [|exact Hb]. destruct b as [[bi be]|]; [destruct (_ <? _); discriminate|discriminate]. }
  induction l as [|x t IH]; intros i s best e Hin Hs; [contradiction|]. cbn [min_base]. destruct Hin as [->|Hin].
  - apply Keep. rewrite Hs, Z.eqb_refl. destruct best as [[bi be]|]; [destruct (_ <? _); discriminate|discriminate].
  - eapply IH; eassumption.
Qed.

Lemma nth_z_zeros n x : nth_z (zeros n) x = 0.
Proof. unfold nth_z. generalize (Z.to_nat x). intros k. revert k. induction n as [|n IH]; intros k; destruct k; cbn [zeros nth]; auto. Qed.
Lemma zeros_len n : length (zeros n) = n.
Proof. induction n; cbn [zeros length]; congruence. Qed.
Lemma entries0_length n : length (entries0 n) = n.
Proof. induction n; cbn [entries0 length]; congruence. Qed.

Theorem built_table_covers al probs ms :
  5 <= al <= 9 -> Forall (fun p => 0 <= p) probs -> zsum probs = 2 ^ al ->
  (length probs <= 256)%nat -> Z.of_nat (length probs) <= ms + 1 ->
  exists D, fse_build_from_probabilities (fse_new ms) al probs = ROk D /\
    forall i, (i < length probs)%nat -> 1 <= nth i probs 0 -> covers D (Z.of_nat i).
Proof.
  intros Hal Hp Hsum Hlen Hms.
  set (size := 2 ^ al). assert (Hsz : 0 < size) by (apply Z.pow_pos_nonneg; lia).
  set (N := Z.to_nat size). assert (HN : Z.of_nat N = size) by (unfold N; lia).
  destruct (orbit_facts al Hal) as (Ond & Orange & Olen). fold size in Ond, Orange, Olen. fold N in Ond, Orange, Olen.
  set (O := orbit N 0 size) in *.
  set (S := syms probs 0).
  assert (LS : length S = N) by (pose proof (syms_length probs 0 Hp) as H; fold S in H; unfold N; lia).
  set (dec0 := entries0 N). assert (L0 : Z.of_nat (length dec0) = size) by (unfold dec0; rewrite entries0_length; exact HN).
  set (dec2 := write_list dec0 (combine O S)).
  assert (L2 : Z.of_nat (length dec2) = size) by (unfold dec2; rewrite write_list_length; exact L0).
  assert (Esp : spread probs 0 0 size size dec0 = ROk dec2).
  { rewrite spread_orbit by (try assumption; lia). fold S. rewrite LS. reflexivity. }
  assert (Hmap : map (sym_at dec2) O = S).
  { apply map_sym_at_combine; [rewrite LS; exact Olen|exact Ond|].
    apply Forall_forall. intros x Hx. rewrite L0. apply Orange. exact Hx. }
  set (idxs := map (fun k => 0 + Z.of_nat k) (seq 0 N)).
  assert (Hperm : Permutation O idxs).
  { apply NoDup_Permutation_bis; [exact Ond|unfold idxs; rewrite map_length, seq_length; lia|].
    intros x Hx. apply Orange in Hx. unfold idxs. apply in_map_iff. exists (Z.to_nat x). split; [lia|apply in_seq; lia]. }
  set (G := map (sym_at dec2) idxs).
  assert (HG : Permutation S G) by (rewrite <- Hmap; apply Permutation_map; exact Hperm).
  assert (LG : length G = N) by (unfold G, idxs; rewrite !map_length, seq_length; reflexivity).
  assert (Hocc : forall s, cnt_occ G s = cnt_occ S s) by (intros s; symmetry; apply Permutation_count_occ; exact HG).
  assert (Gin : forall x, In x G -> 0 <= x < Z.of_nat (length probs)).
  { intros x Hx. apply (Permutation_in _ (Permutation_sym HG)) in Hx. pose proof (syms_range probs 0 x ltac:(lia) ltac:(lia) Hx). lia. }
  assert (Gcount : forall x, In x G -> Z.of_nat (cnt_occ G x) = nth_z probs x).
  { intros x Hx. destruct (Gin x Hx) as (X0 & X1). rewrite Hocc. unfold S.
    replace x with (0 + Z.of_nat (Z.to_nat x)) at 1 by lia. rewrite syms_count by (try assumption; lia).
    unfold nth_z. rewrite Z2Nat.id; [reflexivity|]. clear - Hp. generalize (Z.to_nat x). intros k. revert k. induction Hp; intros k; destruct k; cbn [nth]; try lia; auto. }
  set (out := assign_pure size probs G (nth_z (zeros (length probs)))).
  assert (Hentry : forall k, (k < N)%nat -> nth k out entry0 = mk_entry size (nth_z probs (nth k G 0)) (Z.of_nat (cnt_occ (firstn k G) (nth k G 0))) (nth k G 0)).
  { intros k Hk. unfold out. rewrite assign_pure_nth by lia. rewrite nth_z_zeros. reflexivity. }
  assert (Hbits : Forall (fun e => e_bits e <= al) out).
  { apply Forall_forall. intros e He. apply (In_nth _ _ entry0) in He as (k & Hk & <-).
    unfold out in Hk. rewrite assign_pure_length, LG in Hk. rewrite Hentry by exact Hk.
    assert (Hin : In (nth k G 0) G) by (apply nth_In; lia).
    pose proof (occ_prefix_lt G k ltac:(lia)) as Hlt. pose proof (Gcount _ Hin) as Hc.
    pose proof (count_occ_bound Z.eq_dec (nth k G 0) G) as Hb. rewrite LG in Hb.
    pose proof (state_range_in_table al (nth_z probs (nth k G 0)) (Z.of_nat (cnt_occ (firstn k G) (nth k G 0))) Hal) as R.
    fold size in R. unfold mk_entry. destruct (calc_baseline_and_numbits size _ _) as [bl nb]. cbn [e_bits].
    specialize (R ltac:(lia) ltac:(lia)). lia. }
  destruct (assign_spec N 0 size al probs (zeros (length probs)) dec2 ltac:(lia) L2 ltac:(lia) Hp) as (c' & Eas).
  { intros i Hi. apply Gin. unfold G, idxs. apply in_map. apply in_map_iff. exists (Z.to_nat i). split; [lia|apply in_seq; lia]. }
  { apply zeros_len. }
  { fold idxs. fold G. fold out. exact Hbits. }
  fold idxs in Eas. fold G in Eas. fold out in Eas. cbn [Z.to_nat firstn app Nat.add] in Eas.
  rewrite (skipn_all2 dec2) in Eas by lia. rewrite app_nil_r in Eas.
  eexists. split.
  { unfold fse_build_from_probabilities, build_decoding_table, fse_new. cbn [t_max_symbol].
    destruct (Z.eqb_spec al 0); [lia|]. destruct (Z.ltb_spec (ms + 1) (Z.of_nat (length probs))); [lia|].
    fold size. fold N. fold dec0. rewrite place_negative_none by exact Hp. cbn [rbind].
    rewrite Esp. cbn [rbind]. replace (Z.to_nat size) with N by reflexivity. rewrite Eas. cbn [rbind]. reflexivity. }
  intros i Hi Hpi. set (s := Z.of_nat i).
  assert (Hps : nth_z probs s = nth i probs 0) by (unfold nth_z, s; rewrite Nat2Z.id; reflexivity).
  assert (Hcs : cnt_occ G s = Z.to_nat (nth i probs 0)).
  { rewrite Hocc. unfold S, s. replace (Z.of_nat i) with (0 + Z.of_nat i) by lia. apply syms_count; try assumption; lia. }
  assert (Hex : forall j, 0 <= j < nth i probs 0 -> exists e, In e out /\ e = mk_entry size (nth i probs 0) j s).
  { intros j Hj. destruct (occurrence_exists G s (Z.to_nat j) ltac:(lia)) as (k & Hk & Hn & Hc).
    exists (nth k out entry0). split; [apply nth_In; unfold out; rewrite assign_pure_length; exact Hk|].
    rewrite Hentry by lia. rewrite Hn, Hc, Hps. f_equal. lia. }
  unfold covers. cbn [t_decode t_acc_log]. split.
  - destruct (Hex 0 ltac:(lia)) as (e & Hin & ->). eapply min_base_some; [exact Hin|].
    unfold mk_entry. destruct (calc_baseline_and_numbits _ _ _). reflexivity.
  - unfold t_len. cbn [t_acc_log]. destruct (Z.eqb_spec al 0); [lia|]. fold size. intros idx Hidx.
    pose proof (state_ranges_partition al (nth i probs 0) Hal) as PC.
    assert (Hpb : 1 <= nth i probs 0 <= 2 ^ al).
    { split; [exact Hpi|]. pose proof (count_occ_bound Z.eq_dec s G) as Hb. rewrite LG, Hcs in Hb. fold size. lia. }
    specialize (PC Hpb). unfold partition_check in PC. fold size in PC. apply andb_prop in PC as [PC1 PC2].
    destruct (tile_from 0 _) as [e0|] eqn:Et; [|discriminate].
    assert (He0 : e0 = size) by lia. subst e0.
    destruct (tile_from_covers _ _ _ idx Et) as (bl & nb & Hin & Hr).
    { apply Forall_forall. intros r Hr. apply in_app_or in Hr.
      rewrite forallb_forall in PC1.
      assert (In r (ranges size (nth i probs 0) 0 (Z.to_nat (nth i probs 0)))) as Hr'.
      { destruct Hr as [Hr|Hr]; [eapply in_skipn'|eapply in_firstn']; exact Hr. }
      specialize (PC1 r Hr'). lia. }
    { lia. }
    assert (Hin' : In (bl, nb) (ranges size (nth i probs 0) 0 (Z.to_nat (nth i probs 0)))).
    { apply in_app_or in Hin. destruct Hin as [H|H]; [eapply in_skipn'|eapply in_firstn']; exact H. }
    destruct (ranges_In _ _ _ _ _ Hin') as (k & Hk & Ek).
    destruct (Hex k ltac:(lia)) as (e & Hine & ->).
    eapply find_entry_some; [exact Hine|].
    unfold mk_entry. rewrite <- Ek. cbn [e_sym e_base e_bits]. rewrite Z.eqb_refl. cbn [andb].
    apply andb_true_intro. split; lia.
Qed.
