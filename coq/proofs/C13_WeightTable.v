(** C13: the table-side hypotheses of the weight-stream theorem follow from a plain property of the decoding table:
    every entry carries at least one bit and has its baseline inside the table (which is what the "avoid zero bits"
    option of the table builder is for). *)
Require Import Zrs.lib.RsPrelude Zrs.model.BitIO Zrs.model.BitStream Zrs.model.FseDec Zrs.model.HufDec Zrs.model.BlockDec Zrs.model.SeqEnc.
Require Import Zrs.proofs.C12_Stream Zrs.proofs.C12_SeqStream Zrs.proofs.C12_AvoidBits.
Open Scope Z_scope.

Theorem derived_states_carry_a_bit D syms : table_wf D -> entries_carry_a_bit D -> Forall (covers D) syms ->
  (forall sym, In sym syms -> (1 <= es_bits (et_start (enc_of_dec D) sym))%nat /\
                              forall idx, 0 <= idx < t_len D -> (1 <= es_bits (et_next (enc_of_dec D) sym idx))%nat) /\
  (forall sym, In sym syms -> es_base (et_start (enc_of_dec D) sym) < t_len D).
Proof.
  intros W Hb Hc. pose proof W as (Hl & _ & _). unfold entries_carry_a_bit in Hb. rewrite Forall_forall in Hb, Hc.
  assert (Hstart : forall sym, In sym syms -> exists j e, min_base (t_decode D) 0 sym None = Some (j, e) /\ In e (t_decode D)).
  { intros sym Hin. destruct (Hc sym Hin) as (Hmin & _).
    destruct (min_base (t_decode D) 0 sym None) as [[j e]|] eqn:E; [|congruence]. exists j, e. split; [reflexivity|].
    destruct (min_base_spec _ _ _ _ _ _ E) as [|(A & B & C)]; [discriminate|]. rewrite <- B. apply nth_In. lia. }
  split.
  - intros sym Hin. split.
    + destruct (Hstart sym Hin) as (j & e & E & He). cbn [et_start enc_of_dec]. rewrite E. cbn [to_state es_bits].
      destruct (Hb e He). lia.
    + intros idx Hidx. destruct (Hc sym Hin) as (_ & Hcov). cbn [et_next enc_of_dec].
      destruct (find_entry (t_decode D) 0 _) as [[j e]|] eqn:E; [|exfalso; exact (Hcov idx Hidx E)].
      destruct (find_entry_spec _ _ _ _ _ E) as (A & B & C). cbn [to_state es_bits].
      assert (He : In e (t_decode D)) by (rewrite <- B; apply nth_In; lia). destruct (Hb e He). lia.
  - intros sym Hin. destruct (Hstart sym Hin) as (j & e & E & He). cbn [et_start enc_of_dec]. rewrite E. cbn [to_state es_base].
    destruct (Hb e He). lia.
Qed.

Require Import Zrs.model.FseEnc Zrs.model.WeightEnc Zrs.proofs.C12_Desc Zrs.proofs.C13_WeightStream Zrs.proofs.C13_WeightDesc.

(** the whole FSE-compressed description, with the table property in place of the hypotheses on the encoder states *)
Corollary fse_weight_description_roundtrip' t al probs d D syms data rest :
  5 <= al <= 6 -> dist_ok al probs -> Z.of_nat (length probs) <= t_max_symbol (ht_fse t) + 1 ->
  desc_bytes al probs = Some d -> fse_build_from_probabilities (ht_fse t) al probs = ROk D ->
  table_wf D -> entries_carry_a_bit D -> Forall (covers D) syms ->
  (2 <= length data <= 257)%nat -> Forall (fun x => In x syms) data ->
  let stream := stream_bytes (weight_fields (enc_of_dec D) data) in
  let header := zlen d + zlen stream in
  header < 128 ->
  read_weights t (header :: d ++ stream ++ rest) = ROk (data, D, 1 + header).
Proof.
  intros Hal Hd Hlen Hdesc Hb Hwf Hbit Hcov Hl Hin stream header Hh.
  destruct (derived_states_carry_a_bit D syms Hwf Hbit Hcov) as (A & B).
  apply (fse_weight_description_roundtrip t al probs d D syms data rest Hal Hd Hlen Hdesc Hb Hwf Hcov A B Hl Hin Hh).
Qed.
