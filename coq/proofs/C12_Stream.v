(** C12 / C13 / C16: the inverse law of backward bit streams.  FSE-coded sequences, FSE-coded Huffman weights and
    Huffman-coded literals are all written the same way: fields (value, width) are appended least significant bit
    first, a single 1 bit is appended, the last byte is filled with zeros; the decoder reads from the END of the byte
    string, skips the zero padding and the 1 bit, and reads the fields most significant bit first.  Theorem: for every
    list of fields, reading back yields the same values in reverse order, and the stream is then exactly exhausted. *)
Require Import Zrs.lib.RsPrelude Zrs.model.BitIO Zrs.model.BitStream.
Open Scope Z_scope.

(** *** bits and bytes *)
Lemma byte_bits_lsb_length n x : length (byte_bits_lsb n x) = n.
Proof. revert x. induction n as [|n IH]; intros x; cbn [byte_bits_lsb length]; [reflexivity|]. rewrite IH. reflexivity. Qed.

Lemma bits_val_lsb_bound l : 0 <= bits_val_lsb l < 2 ^ Z.of_nat (length l).
Proof.
  induction l as [|b t IH]; cbn [bits_val_lsb length]; [cbn; lia|].
  rewrite Nat2Z.inj_succ, Z.pow_succ_r by lia. unfold b2z. destruct b; lia.
Qed.

Lemma byte_bits_lsb_val l : byte_bits_lsb (length l) (bits_val_lsb l) = l.
Proof.
  induction l as [|b t IH]; cbn [byte_bits_lsb bits_val_lsb length]; [reflexivity|].
  pose proof (bits_val_lsb_bound t) as Hb.
  assert (Hodd : Z.odd (b2z b + 2 * bits_val_lsb t) = b).
  { destruct b; unfold b2z; [rewrite Z.odd_add_mul_2; reflexivity|cbn [Z.add]; rewrite Z.odd_mul; reflexivity]. }
  rewrite Hodd. f_equal.
  replace ((b2z b + 2 * bits_val_lsb t) / 2) with (bits_val_lsb t); [exact IH|].
  unfold b2z. destruct b; [rewrite Z.add_comm, Z.mul_comm, Z.div_add_l by lia; cbn; lia|cbn [Z.add]; rewrite Z.mul_comm, Z.div_mul by lia; reflexivity].
Qed.

Lemma val_of_byte_bits n : forall x, 0 <= x < 2 ^ Z.of_nat n -> bits_val_lsb (byte_bits_lsb n x) = x.
Proof.
  induction n as [|n IH]; intros x Hx; cbn [byte_bits_lsb bits_val_lsb].
  - cbn in Hx. lia.
  - rewrite Nat2Z.inj_succ, Z.pow_succ_r in Hx by lia.
    remember (2 ^ Z.of_nat n) as p eqn:Hp.
    assert (Hq : 0 <= x / 2 < p).
    { split; [apply Z.div_pos; lia|apply Z.div_lt_upper_bound; lia]. }
    rewrite (IH _ Hq).
    pose proof (Z.div_mod x 2 ltac:(lia)) as Hdm. pose proof (Z.mod_pos_bound x 2 ltac:(lia)) as Hm.
    unfold b2z. rewrite Zodd_mod. destruct (Zeq_bool (x mod 2) 1) eqn:E.
    + apply Zeq_bool_eq in E. lia.
    + apply Zeq_bool_neq in E. lia.
Qed.

Lemma bits_of_bytes_of_bits fuel : forall l, (length l <= 8 * fuel)%nat -> (exists k, length l = (8 * k)%nat) ->
  bits_of_bytes_lsb (bytes_of_bits l fuel) = l.
Proof.
  induction fuel as [|f IH]; intros l Hl (k & Hk).
  - destruct l; [reflexivity|cbn in Hl; lia].
  - destruct l as [|b t] eqn:El; [reflexivity|]. rewrite <- El in *. cbn [bytes_of_bits].
    assert (l <> []) by (rewrite El; discriminate). destruct l as [|b' t'] eqn:El2; [congruence|]. rewrite <- El2 in *.
    unfold bits_of_bytes_lsb. cbn [flat_map]. fold (bits_of_bytes_lsb (bytes_of_bits (skipn 8 l) f)).
    assert (Hk1 : (1 <= k)%nat) by (destruct k; [rewrite El2 in Hk; cbn in Hk; lia|lia]).
    rewrite IH.
    + assert (L8 : length (firstn 8 l) = 8%nat) by (rewrite firstn_length; lia).
      rewrite <- L8 at 1. rewrite byte_bits_lsb_val. apply firstn_skipn.
    + rewrite skipn_length. lia.
    + exists (k - 1)%nat. rewrite skipn_length. lia.
Qed.

Lemma flat_map_rev {A B} (f : A -> list B) (l : list A) : flat_map (fun x => rev (f x)) (rev l) = rev (flat_map f l).
Proof.
  induction l as [|x t IH]; [reflexivity|]. cbn [rev flat_map]. rewrite flat_map_app, IH. cbn [flat_map].
  rewrite app_nil_r, rev_app_distr. reflexivity.
Qed.

Lemma rev'_eq {A} (l : list A) : rev' l = rev l.
Proof. unfold rev'. rewrite <- rev_alt. reflexivity. Qed.

(** reading from the end, most significant bit first, is reading the reversed bit sequence *)
Lemma bits_rev_is_rev l : bits_of_bytes_rev l = rev (bits_of_bytes_lsb l).
Proof. unfold bits_of_bytes_rev, bits_of_bytes_lsb, byte_bits_msb. rewrite rev'_eq. apply flat_map_rev. Qed.

Lemma bits_val_msb_acc_app a : forall acc b, bits_val_msb_acc acc (a ++ b) = bits_val_msb_acc (bits_val_msb_acc acc a) b.
Proof. induction a as [|x t IH]; intros acc b; cbn [app bits_val_msb_acc]; [reflexivity|]. apply IH. Qed.

Lemma bits_val_msb_rev l : bits_val_msb (rev l) = bits_val_lsb l.
Proof.
  unfold bits_val_msb. induction l as [|b t IH]; cbn [rev bits_val_lsb]; [reflexivity|].
  rewrite bits_val_msb_acc_app, IH. cbn [bits_val_msb_acc]. lia.
Qed.

(** *** the reader on a reversed stream *)
Definition rd (s : list bit) : rbr := {| r_rest := s; r_left := Z.of_nat (length s); r_extra := 0 |}.

Lemma read_prefix (B R : list bit) : rbr_get_bits (rd (B ++ R)) (Z.of_nat (length B)) = (bits_val_msb B, rd R).
Proof.
  unfold rbr_get_bits, rd. cbn [r_rest r_left r_extra].
  destruct (Z.leb_spec (Z.of_nat (length B)) 0) as [H0|Hpos].
  - destruct B; [reflexivity|cbn in H0; lia].
  - rewrite app_length. destruct (Z.leb_spec (Z.of_nat (length B)) (Z.of_nat (length B + length R))) as [_|]; [|lia].
    rewrite Nat2Z.id, firstn_app, firstn_all, Nat.sub_diag, skipn_app, skipn_all, Nat.sub_diag. cbn [firstn skipn app].
    rewrite app_nil_r. f_equal. f_equal. lia.
Qed.

Lemma read_field n v (a : list bit) : 0 <= v < 2 ^ Z.of_nat n ->
  rbr_get_bits (rd (rev (a ++ byte_bits_lsb n v))) (Z.of_nat n) = (v, rd (rev a)).
Proof.
  intros Hv. rewrite rev_app_distr.
  pose proof (read_prefix (rev (byte_bits_lsb n v)) (rev a)) as H.
  rewrite rev_length, byte_bits_lsb_length in H. rewrite H.
  rewrite bits_val_msb_rev, val_of_byte_bits by exact Hv. reflexivity.
Qed.

(** *** writing fields, reading them back *)
Definition field_ok (f : field) : Prop := 0 <= fst f < 2 ^ Z.of_nat (snd f).

Fixpoint read_fields (r : rbr) (widths : list nat) : list Z * rbr :=
  match widths with
  | [] => ([], r)
  | n :: t => let '(v, r1) := rbr_get_bits r (Z.of_nat n) in let '(vs, r2) := read_fields r1 t in (v :: vs, r2)
  end.

Lemma stream_bits_aligned fs : exists k, length (stream_bits fs) = (8 * k)%nat.
Proof.
  unfold stream_bits. set (b := fields_bits fs). rewrite app_length. cbn [length]. rewrite repeat_length.
  exists (S (length b / 8)). pose proof (Nat.div_mod (length b) 8 ltac:(lia)). pose proof (Nat.mod_upper_bound (length b) 8 ltac:(lia)). lia.
Qed.

Lemma bits_of_bytes_length l : length (bits_of_bytes_lsb l) = (8 * length l)%nat.
Proof. unfold bits_of_bytes_lsb. induction l as [|x t IH]; [reflexivity|]. cbn [length flat_map]. rewrite app_length, byte_bits_lsb_length. lia. Qed.

Lemma reader_of_stream fs : rbr_new (stream_bytes fs) = rd (rev (stream_bits fs)).
Proof.
  unfold rbr_new, rd, stream_bytes. destruct (stream_bits_aligned fs) as (k & Hk).
  set (bytes := bytes_of_bits (stream_bits fs) (S (length (stream_bits fs)))).
  assert (Hb : bits_of_bytes_lsb bytes = stream_bits fs).
  { apply bits_of_bytes_of_bits; [lia|exists k; exact Hk]. }
  assert (Hl : 8 * Z.of_nat (length bytes) = Z.of_nat (length (rev (stream_bits fs)))).
  { rewrite rev_length, <- Hb, bits_of_bytes_length. lia. }
  rewrite bits_rev_is_rev, Hb, Hl. reflexivity.
Qed.

Lemma read_one (c : bit) (R : list bit) : rbr_get_bits (rd (c :: R)) 1 = (b2z c, rd R).
Proof.
  pose proof (read_prefix [c] R) as H. cbn [length app] in H. change (Z.of_nat 1) with 1 in H. rewrite H.
  unfold bits_val_msb. cbn [bits_val_msb_acc]. f_equal.
Qed.

Lemma skip_zeros z : forall fuel sk R, (z < fuel)%nat -> sk + Z.of_nat z + 1 <= 8 ->
  skip_padding fuel (rd (repeat false z ++ true :: R)) sk = Some (rd R).
Proof.
  induction z as [|z IH]; intros fuel sk R Hf Hs; (destruct fuel as [|f]; [lia|]); cbn [repeat app skip_padding].
  - rewrite read_one. cbn [b2z]. cbn [Z.eqb orb]. destruct (Z.ltb_spec 8 (sk + 1)) as [|_]; [lia|reflexivity].
  - rewrite read_one. cbn [b2z]. change (0 =? 1) with false. cbn [orb].
    destruct (Z.ltb_spec 8 (sk + 1)) as [|_]; [lia|]. apply IH; lia.
Qed.

Lemma fields_bits_app a b : fields_bits (a ++ b) = fields_bits a ++ fields_bits b.
Proof. unfold fields_bits. apply flat_map_app. Qed.

Lemma read_fields_rev fs : Forall field_ok fs ->
  read_fields (rd (rev (fields_bits fs))) (map snd (rev fs)) = (map fst (rev fs), rd []).
Proof.
  induction fs as [|f t IH] using rev_ind; intros H; [reflexivity|].
  apply Forall_app in H. destruct H as [Ht Hf]. inversion Hf as [|? ? Hf1 _]; subst.
  rewrite rev_app_distr. cbn [rev app map read_fields]. rewrite fields_bits_app.
  unfold fields_bits at 2. cbn [flat_map]. rewrite app_nil_r.
  rewrite (read_field (snd f) (fst f) (fields_bits t) Hf1). rewrite (IH Ht). reflexivity.
Qed.

Lemma rev_repeat (n : nat) : rev (repeat false n) = repeat false n.
Proof.
  induction n as [|n IH]; [reflexivity|]. cbn [repeat rev]. rewrite IH. clear.
  induction n as [|n IH]; [reflexivity|]. cbn [repeat app]. rewrite IH. reflexivity.
Qed.

(** the inverse law *)
Theorem stream_inverse fs : Forall field_ok fs ->
  exists r, rbr_skip_padding (rbr_new (stream_bytes fs)) = Some r /\
            let '(vals, r') := read_fields r (map snd (rev fs)) in
            vals = map fst (rev fs) /\ rbr_bits_remaining r' = 0.
Proof.
  intros H. exists (rd (rev (fields_bits fs))). split.
  - rewrite reader_of_stream. unfold stream_bits. rewrite rev_app_distr. cbn [rev].
    rewrite <- app_assoc. cbn [app]. unfold rbr_skip_padding.
    rewrite rev_repeat. apply skip_zeros; [|].
    + pose proof (Nat.mod_upper_bound (length (fields_bits fs)) 8 ltac:(lia)). lia.
    + lia.
  - rewrite (read_fields_rev fs H). split; [reflexivity|]. reflexivity.
Qed.
