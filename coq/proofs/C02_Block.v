(** C02 / C16: a compressed block with raw literals, as the compressor lays it out, is decoded by [decompress_block]
    into exactly "execute the coded sequences over the coded literals": the literals header, the literal bytes, the
    sequence count, the mode byte and the sequences section are each read back as written.  Composition of the
    literals-header arithmetic, the sequence-count round trip (C14) and the section round trip (C12_Section). *)
Require Import Zrs.lib.RsPrelude Zrs.lib.Sweep Zrs.gen.Generated Zrs.model.Headers Zrs.model.BitIO Zrs.model.FseDec Zrs.model.HufDec Zrs.model.BlockDec.
Require Import Zrs.model.BitStream Zrs.model.SeqEnc Zrs.model.FseEnc Zrs.model.SeqSection Zrs.model.BlockEnc.
Require Import Zrs.proofs.C12_Stream Zrs.proofs.C12_SeqStream Zrs.proofs.C12_Section.
Open Scope Z_scope.
Ltac Zify.zify_post_hook ::= Z.div_mod_to_equations.

(** *** literals header *)
Lemma raw_lit_header_parse n rest : 0 <= n < 2 ^ 20 ->
  lit_header_parse (raw_lit_header n ++ rest) = ROk (3, 0, n, None, None).
Proof.
  intros Hn. unfold raw_lit_header. cbn [app]. unfold lit_header_parse.
  remember (12 + 16 * (n mod 16)) as r0 eqn:E0.
  assert (M4 : r0 mod 4 = 0) by lia.
  assert (S4 : (r0 / 4) mod 4 = 3) by lia.
  unfold header_bytes_needed, literals_section_type. cbv zeta.
  rewrite Z.mod_mod by lia. rewrite M4. change (2 ^ 2) with 4. rewrite S4.
  cbn [Z.eqb Pos.eqb orb rbind]. cbn [length].
  destruct (Z.ltb_spec (Z.of_nat (S (S (S (length rest))))) 3) as [H|_]; [lia|].
  unfold znth. change (Z.to_nat 1) with 1%nat. change (Z.to_nat 2) with 2%nat. cbn [nth].
  f_equal. f_equal. f_equal. f_equal. lia.
Qed.

(** *** sequence count *)
Definition spec_seqnum_bytes (n : Z) : list Z :=
  if n <=? 127 then [n] else if n <=? 32511 then [n / 256 + 128; n mod 256]
  else [255; (n - 32512) mod 256; (n - 32512) / 256].

Definition seqnum_spec_check (n : Z) : bool :=
  match encode_seqnum n [] with
  | ROk (_, b) => if list_eq_dec Z.eq_dec b (spec_seqnum_bytes n) then true else false
  | _ => false
  end.
Lemma seqnum_spec_sweep : sweep seqnum_spec_check 1 98048 = true.
Proof. vm_compute. reflexivity. Qed.

Lemma encode_seqnum_spec n : 1 <= n <= 98047 -> encode_seqnum n [] = ROk (tt, spec_seqnum_bytes n).
Proof.
  intros H. pose proof (sweep_spec _ _ _ seqnum_spec_sweep n ltac:(lia)) as C. unfold seqnum_spec_check in C.
  destruct (encode_seqnum n []) as [[[] b]|e|e]; try discriminate.
  destruct (list_eq_dec Z.eq_dec b (spec_seqnum_bytes n)) as [->|]; [reflexivity|discriminate].
Qed.

Lemma seq_header_after_seqnum n m rest : 1 <= n <= 98047 ->
  sequences_header_parse 0 None (spec_seqnum_bytes n ++ m :: rest) = ROk (zlen (spec_seqnum_bytes n) + 1, n, Some m).
Proof.
  intros Hn. unfold spec_seqnum_bytes.
  destruct (Z.leb_spec n 127) as [H1|H1]; [|destruct (Z.leb_spec n 32511) as [H2|H2]];
    cbn [app]; unfold sequences_header_parse; cbv zeta; cbn [length Nat.eqb];
    unfold znth; change (Z.to_nat 0) with 0%nat; change (Z.to_nat 1) with 1%nat; change (Z.to_nat 2) with 2%nat;
    change (Z.to_nat 3) with 3%nat; cbn [nth].
  - destruct (Z.eqb_spec n 0) as [H|_]; [lia|].
    destruct (Z.leb_spec 1 n) as [_|H]; [|lia]. destruct (Z.leb_spec n 127) as [_|H]; [|lia]. cbn [andb].
    destruct (Z.ltb_spec (Z.of_nat (S (S (length rest)))) 2) as [H|_]; [lia|]. reflexivity.
  - destruct (Z.eqb_spec (n / 256 + 128) 0) as [H|_]; [lia|].
    destruct (Z.leb_spec 1 (n / 256 + 128)) as [_|H]; [|lia].
    destruct (Z.leb_spec (n / 256 + 128) 127) as [H|_]; [lia|]. cbn [andb].
    destruct (Z.leb_spec 128 (n / 256 + 128)) as [_|H]; [|lia].
    destruct (Z.leb_spec (n / 256 + 128) 254) as [_|H]; [|lia]. cbn [andb].
    destruct (Z.ltb_spec (Z.of_nat (S (S (S (length rest))))) 2) as [H|_]; [lia|].
    change (2 ^ 8) with 256.
    assert (E : ((n / 256 + 128 - 128) * 256) mod 4294967296 + n mod 256 = n) by lia. rewrite E.
    destruct (Z.eqb_spec n 0) as [H|_]; [lia|]. cbn [negb].
    destruct (Z.ltb_spec (Z.of_nat (S (S (S (length rest))))) 3) as [H|_]; [lia|]. reflexivity.
  - change (255 =? 0) with false. change ((1 <=? 255) && (255 <=? 127)) with false.
    change ((128 <=? 255) && (255 <=? 254)) with false. change (255 =? 255) with true. cbv iota.
    destruct (Z.ltb_spec (Z.of_nat (S (S (S (S (length rest)))))) 4) as [H|_]; [lia|].
    change (2 ^ 8) with 256. f_equal. f_equal. f_equal. lia.
Qed.

(** *** the block *)
Lemma take_app (a b : list Z) : take_z (zlen a) (a ++ b) = a.
Proof. unfold take_z, zlen. rewrite Nat2Z.id, firstn_app, Nat.sub_diag, firstn_O, app_nil_r, firstn_all. reflexivity. Qed.

Lemma zlen_app (a b : list Z) : zlen (a ++ b) = zlen a + zlen b.
Proof. unfold zlen. rewrite app_length. lia. Qed.

Lemma drop3 (a b c : Z) rest : drop_z 3 (a :: b :: c :: rest) = rest.
Proof. reflexivity. Qed.

Theorem raw_literal_block_decodes lits dl do dm seqs body sc :
  block_raw_lits lits dl do dm seqs = ROk body ->
  zlen lits <= MAX_BLOCK_SIZE -> Z.of_nat (length seqs) <= 98047 ->
  (seqs <> [] -> section_hyps_b dl do dm seqs = true) ->
  t_max_symbol (fs_ll (sc_fse sc)) = MAX_LITERAL_LENGTH_CODE -> t_max_symbol (fs_of (sc_fse sc)) = MAX_OFFSET_CODE ->
  t_max_symbol (fs_ml (sc_fse sc)) = MAX_MATCH_LENGTH_CODE ->
  decompress_block (zlen body) sc body =
    match seqs with
    | [] => ROk {| sc_huf := sc_huf sc; sc_fse := sc_fse sc; sc_buf := db_push (sc_buf sc) lits; sc_hist := sc_hist sc |}
    | _ =>
        match build_table MAX_LITERAL_LENGTH_CODE dl, build_table MAX_MATCH_LENGTH_CODE dm, build_table MAX_OFFSET_CODE do with
        | ROk Dll, ROk Dml, ROk Dof =>
            let* (buf, hist) := execute_sequences seqs lits (sc_buf sc) (sc_hist sc) in
            ROk {| sc_huf := sc_huf sc; sc_fse := C12_SeqStream.sc Dll Dml Dof; sc_buf := buf; sc_hist := hist |}
        | _, _, _ => RErr "tables"
        end
    end.
Proof.
  intros Hb Hl Hs Hh M1 M2 M3. change MAX_BLOCK_SIZE with 131072 in *.
  assert (Hl0 : 0 <= zlen lits < 2 ^ 20) by (unfold zlen in *; lia).
  unfold block_raw_lits in Hb. unfold decompress_block. change MAX_BLOCK_SIZE with 131072.
  destruct seqs as [|q qs].
  - assert (Eb : body = raw_lit_header (zlen lits) ++ lits ++ [0]) by congruence. subst body. clear Hb.
    rewrite raw_lit_header_parse by exact Hl0.
    unfold raw_lit_header. cbn [app]. rewrite drop3.
    destruct (Z.ltb_spec 131072 (zlen lits)) as [H|_]; [lia|].
    change (0 =? 1) with false. cbv iota.
    destruct (Z.ltb_spec (zlen (lits ++ [0])) (zlen lits)) as [H|_]; [rewrite zlen_app in H; unfold zlen in H; cbn in H; lia|].
    rewrite take_app. unfold decode_literals. cbn [ls_type ls_regen]. change (0 =? 0) with true. cbv iota.
    destruct (Z.ltb_spec (zlen lits) (zlen lits)) as [H|_]; [lia|].
    replace (take_z (zlen lits) lits) with lits by (unfold take_z, zlen; rewrite Nat2Z.id, firstn_all; reflexivity).
    cbn [rbind]. rewrite Z.eqb_refl. cbn [negb].
    rewrite drop_app. unfold sequences_header_parse. cbv zeta. cbn [length Nat.eqb]. unfold znth. change (Z.to_nat 0) with 0%nat. cbn [nth].
    change (0 =? 0) with true. cbv iota. cbn [drop_z Z.to_nat skipn].
    change (drop_z (0 + 1) [0]) with (@nil Z).
    replace (3 + zlen lits + (0 + 1) + zlen [] =? zlen (12 + 16 * (zlen lits mod 16) :: (zlen lits / 16) mod 256 :: zlen lits / 4096 :: lits ++ [0])) with true.
    2:{ symmetry. apply Z.eqb_eq. unfold zlen. cbn [length]. rewrite app_length. cbn [length]. lia. }
    cbn [negb]. change (0 =? 0) with true. cbn [negb]. reflexivity.
  - remember (q :: qs) as seqs eqn:Es.
    assert (Hne : seqs <> []) by (rewrite Es; discriminate).
    specialize (Hh Hne).
    assert (Hn : 1 <= Z.of_nat (length seqs) <= 98047) by (rewrite Es in *; cbn [length] in *; lia).
    rewrite (encode_seqnum_spec _ Hn) in Hb. cbn [rbind] in Hb.
    destruct (section_bytes dl do dm seqs) as [sec|e|e] eqn:Esec; cbn [rbind] in Hb; try discriminate.
    assert (Eb : body = raw_lit_header (zlen lits) ++ lits ++ spec_seqnum_bytes (Z.of_nat (length seqs)) ++ MODES_ALL_ENCODED :: sec) by congruence.
    subst body. clear Hb.
    destruct (section_bytes_roundtrip dl do dm seqs sec (sc_fse sc) Hh Esec M1 M2 M3) as (Dll & Dml & Dof & B1 & B2 & B3 & Hdec).
    rewrite B1, B2, B3.
    rewrite raw_lit_header_parse by exact Hl0.
    unfold raw_lit_header. cbn [app]. rewrite drop3.
    destruct (Z.ltb_spec 131072 (zlen lits)) as [H|_]; [lia|].
    change (0 =? 1) with false. cbv iota.
    remember (spec_seqnum_bytes (Z.of_nat (length seqs)) ++ MODES_ALL_ENCODED :: sec) as tail eqn:Et.
    destruct (Z.ltb_spec (zlen (lits ++ tail)) (zlen lits)) as [H|_]; [rewrite zlen_app in H; unfold zlen in H; lia|].
    rewrite take_app. unfold decode_literals. cbn [ls_type ls_regen]. change (0 =? 0) with true. cbv iota.
    destruct (Z.ltb_spec (zlen lits) (zlen lits)) as [H|_]; [lia|].
    replace (take_z (zlen lits) lits) with lits by (unfold take_z, zlen; rewrite Nat2Z.id, firstn_all; reflexivity).
    cbn [rbind]. rewrite Z.eqb_refl. cbn [negb].
    rewrite drop_app. rewrite Et. rewrite seq_header_after_seqnum by exact Hn.
    replace (drop_z (zlen (spec_seqnum_bytes (Z.of_nat (length seqs))) + 1) (spec_seqnum_bytes (Z.of_nat (length seqs)) ++ MODES_ALL_ENCODED :: sec)) with sec.
    2:{ replace (spec_seqnum_bytes (Z.of_nat (length seqs)) ++ MODES_ALL_ENCODED :: sec)
          with ((spec_seqnum_bytes (Z.of_nat (length seqs)) ++ [MODES_ALL_ENCODED]) ++ sec) by (rewrite <- app_assoc; reflexivity).
        replace (zlen (spec_seqnum_bytes (Z.of_nat (length seqs))) + 1) with (zlen (spec_seqnum_bytes (Z.of_nat (length seqs)) ++ [MODES_ALL_ENCODED]))
          by (rewrite zlen_app; reflexivity).
        rewrite drop_app. reflexivity. }
    match goal with |- context [negb (?a =? ?b)] => replace (a =? b) with true end.
    2:{ symmetry. apply Z.eqb_eq. unfold zlen. cbn [length]. rewrite !app_length. cbn [length]. lia. }
    cbn [negb].
    destruct (Z.eqb_spec (Z.of_nat (length seqs)) 0) as [H|_]; [lia|]. cbn [negb].
    rewrite Hdec. cbn [rbind]. reflexivity.
Qed.
