(** C03: building an FSE decoding table from a serialized description never panics, for any bytes and any table-size limit
    up to 9: what [read_probabilities] accepts is a normalised distribution, and the general table theorem applies. *)
Require Import Zrs.lib.RsPrelude Zrs.model.BitIO Zrs.model.FseDec Zrs.model.FseEnc.
Require Import Zrs.proofs.C03_Desc Zrs.proofs.C12_General Zrs.proofs.C03_FseStates.
Open Scope Z_scope.

Lemma weight_app a b : weight (a ++ b) = weight a + weight b.
Proof. induction a as [|x a IH]; cbn [app weight]; [lia|]. rewrite IH. lia. Qed.
Lemma weight_rev l : weight (rev l) = weight l.
Proof. induction l as [|x l IH]; cbn [rev weight]; [reflexivity|]. rewrite weight_app, IH. cbn [weight]. lia. Qed.
Lemma weight_zeros n : weight (zeros n) = 0.
Proof. induction n as [|n IH]; cbn [zeros weight]; [reflexivity|]. rewrite IH. reflexivity. Qed.
Lemma zeros_ge n : Forall (fun p => -1 <= p) (zeros n).
Proof. induction n; cbn [zeros]; constructor; [lia|assumption]. Qed.


Definition tot (br : fbr) : Z := fbr_bits_read br + fbr_bits_left br.
Lemma get_bits_tot br n v br' : fbr_get_bits br n = ROk (v, br') -> 0 <= n -> tot br' = tot br.
Proof. intros H Hn. destruct (get_bits_ok _ _ _ _ H Hn) as (A & B & _). unfold tot. lia. Qed.
Lemma return_one_tot br br' : fbr_return_bits br 1 = ROk br' -> tot br' = tot br.
Proof.
  unfold fbr_return_bits. destruct (Z.ltb_spec (fbr_bits_read br) 1) as [|Hr]; [discriminate|]. intros H. injection H as <-.
  unfold tot, fbr_bits_left, fbr_bits_read in *. cbn [f_rest f_past]. change (Z.to_nat 1) with 1%nat.
  destruct (f_past br) as [|b t]; cbn [length] in *; [lia|]. cbn [skipn firstn rev_append length]. lia.
Qed.
Lemma read_value_tot br M v br' : 2 <= M -> read_value br M = ROk (v, br') -> tot br' = tot br.
Proof.
  intros HM. unfold read_value, highest_bit_set. assert (L1 : 1 <= Z.log2 M) by (apply Z.log2_le_pow2; lia).
  destruct (fbr_get_bits br (Z.log2 M + 1)) as [[u br1]|e|e] eqn:Eg; cbn [rbind]; try discriminate.
  pose proof (get_bits_tot _ _ _ _ Eg ltac:(lia)) as T1.
  destruct (_ <? _).
  - destruct (fbr_return_bits br1 1) as [b|e|e] eqn:Er; cbn [rbind]; try discriminate. intros H. injection H as _ <-.
    rewrite (return_one_tot _ _ Er). exact T1.
  - destruct (_ <? _); intros H; injection H as _ <-; exact T1.
Qed.
Lemma skip_zero_tot fuel : forall br acc br' acc', skip_zero_runs fuel br acc = ROk (br', acc') -> tot br' = tot br.
Proof.
  induction fuel as [|f IH]; intros br acc br' acc' H; cbn [skip_zero_runs] in H; [discriminate|].
  destruct (fbr_get_bits br 2) as [[sk br1]|e|e] eqn:Eg; cbn [rbind] in H; try discriminate.
  pose proof (get_bits_tot _ _ _ _ Eg ltac:(lia)) as T1.
  destruct (sk =? 3); [rewrite (IH _ _ _ _ H); exact T1|]. injection H as <- _. exact T1.
Qed.

Lemma skip_zero_acc fuel : forall br acc br' acc', skip_zero_runs fuel br acc = ROk (br', acc') ->
  Forall (fun p => -1 <= p) acc -> Forall (fun p => -1 <= p) acc' /\ weight acc' = weight acc.
Proof.
  induction fuel as [|f IH]; intros br acc br' acc' H Ha; cbn [skip_zero_runs] in H; [discriminate|].
  destruct (fbr_get_bits br 2) as [[sk br1]|e|e]; cbn [rbind] in H; try discriminate.
  assert (A1 : Forall (fun p => -1 <= p) (zeros (Z.to_nat sk) ++ acc)) by (apply Forall_app; split; [apply zeros_ge|exact Ha]).
  assert (W1 : weight (zeros (Z.to_nat sk) ++ acc) = weight acc) by (rewrite weight_app, weight_zeros; lia).
  destruct (sk =? 3).
  - destruct (IH _ _ _ _ H A1) as (A & B). split; [exact A|lia].
  - injection H as _ <-. split; [exact A1|exact W1].
Qed.

Lemma read_value_nonneg br M v br' : 2 <= M -> read_value br M = ROk (v, br') -> 0 <= v.
Proof. intros HM H. pose proof (read_value_spec br M HM) as S. rewrite H in S. tauto. Qed.

Lemma read_probs_loop_acc fuel : forall br sum counter acc br' counter' acc',
  read_probs_loop fuel br sum counter acc = ROk (br', counter', acc') ->
  Forall (fun p => -1 <= p) acc -> weight acc = counter ->
  Forall (fun p => -1 <= p) acc' /\ weight acc' = counter' /\ tot br' = tot br.
Proof.
  induction fuel as [|f IH]; intros br sum counter acc br' counter' acc' H Ha Hw; cbn [read_probs_loop] in H; [discriminate|].
  destruct (Z.ltb_spec counter sum) as [Hc|Hc].
  - destruct (read_value br (sum - counter + 1)) as [[v br2]|e|e] eqn:Ev; cbn [rbind] in H; try discriminate.
    assert (HM : 2 <= sum - counter + 1) by lia.
    pose proof (read_value_nonneg _ _ _ _ HM Ev) as Hv.
    pose proof (read_value_tot _ _ _ _ HM Ev) as T2.
    assert (A1 : Forall (fun p => -1 <= p) ((v - 1) :: acc)) by (constructor; [lia|exact Ha]).
    assert (W1 : weight ((v - 1) :: acc) = counter + (if v - 1 =? -1 then 1 else v - 1)).
    { cbn [weight]. unfold pw. destruct (Z.eqb_spec (v - 1) (-1)); lia. }
    destruct (Z.eqb_spec (v - 1) 0) as [E0|E0].
    + destruct (skip_zero_runs f br2 ((v - 1) :: acc)) as [[br3 a3]|e|e] eqn:Es; cbn [rbind] in H; try discriminate.
      destruct (skip_zero_acc _ _ _ _ _ Es A1) as (A3 & W3). pose proof (skip_zero_tot _ _ _ _ _ Es) as T3.
      assert (W4 : weight a3 = counter). { rewrite W3, W1. destruct (Z.eqb_spec (v - 1) (-1)); lia. }
      destruct (IH _ _ _ _ _ _ _ H A3 W4) as (X & Y & T). split; [exact X|]. split; [exact Y|lia].
    + destruct (Z.ltb_spec 0 (v - 1)).
      * assert (W4 : weight ((v - 1) :: acc) = counter + (v - 1)). { rewrite W1. destruct (Z.eqb_spec (v - 1) (-1)); lia. }
        destruct (IH _ _ _ _ _ _ _ H A1 W4) as (X & Y & T). split; [exact X|]. split; [exact Y|lia].
      * destruct (Z.eqb_spec (v - 1) (-1)) as [Em|]; [|discriminate].
        assert (W4 : weight ((v - 1) :: acc) = counter + 1). { rewrite W1. destruct (Z.eqb_spec (v - 1) (-1)); lia. }
        destruct (IH _ _ _ _ _ _ _ H A1 W4) as (X & Y & T). split; [exact X|]. split; [exact Y|lia].
  - injection H as <- <- <-. split; [assumption|]. split; [assumption|reflexivity].
Qed.

(** what [read_probabilities] accepts *)
Theorem read_probabilities_spec max_symbol source max_log al probs bytes :
  read_probabilities max_symbol source max_log = ROk (al, probs, bytes) ->
  5 <= al <= max_log /\ Forall (fun p => -1 <= p) probs /\ weight probs = 2 ^ al /\
  Z.of_nat (length probs) <= max_symbol + 1 /\ 0 <= bytes <= Z.of_nat (length source).
Proof.
  unfold read_probabilities. intros H.
  destruct (fbr_get_bits (fbr_new source) 4) as [[v br]|e|e] eqn:Eg; cbn [rbind] in H; try discriminate.
  destruct (get_bits_ok _ _ _ _ Eg ltac:(lia)) as (B1 & B2 & B3).
  unfold ACC_LOG_OFFSET in *.
  destruct (Z.ltb_spec max_log (5 + v)); [discriminate|]. destruct (Z.eqb_spec (5 + v) 0); [discriminate|].
  destruct (read_probs_loop _ br (2 ^ (5 + v)) 0 []) as [[[br' counter] pr]|e|e] eqn:El; cbn [rbind] in H; try discriminate.
  destruct (read_probs_loop_acc _ _ _ _ _ _ _ _ El ltac:(constructor) eq_refl) as (A & W & T).
  destruct (Z.eqb_spec counter (2 ^ (5 + v))) as [Ec|]; cbn [negb] in H; [|discriminate].
  destruct (Z.ltb_spec (max_symbol + 1) (Z.of_nat (length pr))); [discriminate|].
  assert (Eal : al = 5 + v) by congruence. assert (Epr : probs = rev pr) by congruence.
  assert (Eb : bytes = (if fbr_bits_read br' mod 8 =? 0 then fbr_bits_read br' / 8 else fbr_bits_read br' / 8 + 1)) by congruence.
  clear H. subst al probs bytes.
  split; [lia|]. split; [apply Forall_rev; exact A|]. split; [rewrite weight_rev; lia|]. split; [rewrite rev_length; lia|].
  (* the bits read never exceed the source *)
  assert (Hleft : 0 <= fbr_bits_left br') by (unfold fbr_bits_left; lia).
  assert (Hinv : fbr_bits_read br' + fbr_bits_left br' = 8 * Z.of_nat (length source)).
  { fold (tot br'). rewrite T, (get_bits_tot _ _ _ _ Eg ltac:(lia)). unfold tot. rewrite fbr_new_left. unfold fbr_bits_read, fbr_new. cbn [f_past length]. lia. }
  assert (0 <= fbr_bits_read br') by (unfold fbr_bits_read; lia).
  destruct (Z.eqb_spec (fbr_bits_read br' mod 8) 0); lia.
Qed.

(** *** every entry of a built table carries a symbol of the alphabet *)
Definition syms_ok (L : Z) (l : list fse_entry) : Prop := Forall (fun e => 0 <= e_sym e < L) l.
Lemma syms_ok_upd L l : forall i e, syms_ok L l -> 0 <= e_sym e < L -> syms_ok L (upd l i e).
Proof. induction l as [|h t IH]; intros i e Hl He; destruct i; cbn [upd]; inversion Hl; subst; constructor; auto. apply IH; assumption. Qed.
Lemma nth_e_sym L l i : 0 < L -> syms_ok L l -> 0 <= e_sym (nth_e l i) < L.
Proof.
  intros HL H. unfold nth_e. generalize (Z.to_nat i). intros n. revert n.
  induction H as [|x t Hx _ IH]; intros n; destruct n; cbn [nth]; try (cbn; lia); auto.
Qed.
Lemma entries0_syms L n : 0 < L -> syms_ok L (entries0 n).
Proof. intros HL. induction n as [|n IH]; cbn [entries0]; constructor; [cbn; lia|exact IH]. Qed.
Lemma mod256_bound sym L : 0 <= sym < L -> 0 <= sym mod 256 < L.
Proof. intros H. pose proof (Z.mod_pos_bound sym 256 ltac:(lia)). pose proof (Z.mod_le sym 256 ltac:(lia) ltac:(lia)). lia. Qed.
Lemma place_negative_syms L probs : forall sym al neg dec neg' dec', 0 <= sym -> sym + Z.of_nat (length probs) <= L -> syms_ok L dec ->
  place_negative probs sym al neg dec = ROk (neg', dec') -> syms_ok L dec'.
Proof.
  induction probs as [|p t IH]; intros sym al neg dec neg' dec' H0 HL Hd H; cbn [place_negative] in H.
  - injection H as _ <-. exact Hd.
  - cbn [length] in HL. destruct (p =? -1).
    + destruct (neg <=? 0); [discriminate|].
      apply IH in H; [exact H|lia|lia|]. apply syms_ok_upd; [exact Hd|]. cbn [e_sym]. apply mod256_bound. lia.
    + apply IH in H; [exact H|lia|lia|exact Hd].
Qed.
Lemma spread_one_syms L n : forall sym pos neg size dec pos' dec', 0 <= sym < L -> syms_ok L dec ->
  spread_one n sym pos neg size dec = ROk (pos', dec') -> syms_ok L dec'.
Proof.
  induction n as [|n IH]; intros sym pos neg size dec pos' dec' Hs Hd H; cbn [spread_one] in H.
  - injection H as _ <-. exact Hd.
  - destruct (Z.of_nat (length dec) <=? pos); [discriminate|].
    destruct (skip_taken _ _ _ _) as [p1|e|e]; cbn [rbind] in H; try discriminate.
    apply IH in H; [exact H|exact Hs|]. apply syms_ok_upd; [exact Hd|cbn [e_sym]; exact Hs].
Qed.
Lemma spread_syms L probs : forall sym pos neg size dec dec', 0 <= sym -> sym + Z.of_nat (length probs) <= L -> syms_ok L dec ->
  spread probs sym pos neg size dec = ROk dec' -> syms_ok L dec'.
Proof.
  induction probs as [|p t IH]; intros sym pos neg size dec dec' H0 HL Hd H; cbn [spread] in H.
  - injection H as <-. exact Hd.
  - cbn [length] in HL. destruct (p <=? 0); [apply IH in H; [exact H|lia|lia|exact Hd]|].
    destruct (spread_one _ _ _ _ _ _) as [[p1 d1]|e|e] eqn:E1; cbn [rbind] in H; try discriminate.
    assert (Hm : 0 <= sym mod 256 < L) by (apply mod256_bound; lia).
    apply IH in H; [exact H|lia|lia|]. apply (spread_one_syms L _ _ _ _ _ _ _ _ Hm Hd E1).
Qed.
Lemma assign_syms L n : forall idx size al probs counter dec counter' dec', 0 < L -> syms_ok L dec ->
  assign n idx size al probs counter dec = ROk (counter', dec') -> syms_ok L dec'.
Proof.
  induction n as [|n IH]; intros idx size al probs counter dec counter' dec' HL Hd H; cbn [assign] in H.
  - injection H as _ <-. exact Hd.
  - destruct (Z.of_nat (length probs) <=? e_sym (nth_e dec idx)); [discriminate|].
    destruct (calc_baseline_and_numbits _ _ _) as [bl nb] eqn:Ec.
    destruct (al <? nb); [discriminate|].
    apply IH in H; [exact H|exact HL|]. apply syms_ok_upd; [exact Hd|cbn [e_sym]; apply nth_e_sym; assumption].
Qed.
Lemma build_decoding_table_syms ms al probs dec counter : probs <> [] ->
  build_decoding_table ms al probs = ROk (dec, counter) -> syms_ok (ms + 1) dec.
Proof.
  unfold build_decoding_table. intros Hne H. destruct (Z.ltb_spec (ms + 1) (Z.of_nat (length probs))) as [|Hlen]; [discriminate|].
  assert (HL : 0 < ms + 1) by (destruct probs; [congruence|cbn [length] in Hlen; lia]).
  destruct (place_negative _ _ _ _ _) as [[neg d1]|e|e] eqn:E1; cbn [rbind] in H; try discriminate.
  assert (HL2 : 0 + Z.of_nat (length probs) <= ms + 1) by lia.
  pose proof (place_negative_syms (ms + 1) _ _ _ _ _ _ _ (Z.le_refl 0) HL2 (entries0_syms _ _ HL) E1) as B1.
  destruct (spread _ _ _ _ _ _) as [d2|e|e] eqn:E2; cbn [rbind] in H; try discriminate.
  pose proof (spread_syms (ms + 1) _ _ _ _ _ _ _ (Z.le_refl 0) HL2 B1 E2) as B2.
  destruct (assign _ _ _ _ _ _ _) as [[cn d3]|e|e] eqn:E3; cbn [rbind] in H; try discriminate.
  pose proof (assign_syms (ms + 1) _ _ _ _ _ _ _ _ _ HL B2 E3) as B3. injection H as <- _. exact B3.
Qed.

(** *** the invariant of an FSE table held in the decoder's scratch space: never built, or built from a normalised
    distribution -- in which case every entry keeps every state transition inside the table *)
Definition fse_range (t : fse_table) : Prop :=
  1 <= t_acc_log t /\ Z.of_nat (length (t_decode t)) = 2 ^ t_acc_log t /\
  forall e, In e (t_decode t) ->
    0 <= e_bits e <= t_acc_log t /\ 0 <= e_base e /\ e_base e + 2 ^ e_bits e <= 2 ^ t_acc_log t /\ 0 <= e_sym e <= t_max_symbol t.
Definition fse_good (t : fse_table) : Prop := t_max_symbol t <= 255 /\ (t_acc_log t = 0 \/ fse_range t).

Lemma fse_new_good ms : ms <= 255 -> fse_good (fse_new ms).
Proof. intros H. split; [exact H|left; reflexivity]. Qed.

Lemma build_from_probabilities_good t al probs :
  t_max_symbol t <= 255 -> 5 <= al <= 9 -> Forall (fun p => -1 <= p) probs -> weight probs = 2 ^ al ->
  Z.of_nat (length probs) <= t_max_symbol t + 1 ->
  exists D, fse_build_from_probabilities t al probs = ROk D /\ fse_good D /\ fse_range D /\ t_max_symbol D = t_max_symbol t.
Proof.
  intros Hms Hal Hp Hw Hlen.
  destruct (general_table al probs (t_max_symbol t) Hal Hp Hw ltac:(lia) Hlen) as (D & Eb & Hr & Hl & _).
  unfold fse_build_from_probabilities in *. destruct (Z.eqb_spec al 0); [lia|]. cbn [t_max_symbol fse_new] in Eb.
  destruct (build_decoding_table (t_max_symbol t) al probs) as [[dec counter]|e|e] eqn:Ebd; cbn [rbind] in Eb; try discriminate.
  cbn [rbind]. eexists. split; [reflexivity|].
  assert (Hne : probs <> []) by (intros ->; cbn [weight] in Hw; pose proof (Z.pow_pos_nonneg 2 al ltac:(lia) ltac:(lia)); lia).
  pose proof (build_decoding_table_syms _ _ _ _ _ Hne Ebd) as Hs.
  assert (ED : t_decode D = dec) by (injection Eb as <-; reflexivity).
  assert (R : fse_range {| t_max_symbol := t_max_symbol t; t_decode := dec; t_acc_log := al; t_probs := probs; t_counter := counter |}).
  { unfold fse_range. cbn [t_acc_log t_decode]. split; [lia|]. split; [rewrite <- ED; exact Hl|].
    intros e He. rewrite <- ED in He. destruct (Hr e He) as (A & B & C). rewrite ED in He.
    unfold syms_ok in Hs. rewrite Forall_forall in Hs. specialize (Hs e He). cbn [t_max_symbol]. repeat split; try tauto; lia. }
  split; [split; [exact Hms|right; exact R]|]. split; [exact R|reflexivity].
Qed.

(** [build_decoder]: any bytes, any limit up to 9 *)
Theorem fse_build_decoder_good t source max_log :
  t_max_symbol t <= 255 -> max_log <= 9 ->
  match fse_build_decoder t source max_log with
  | ROk (D, bytes) => fse_good D /\ fse_range D /\ t_max_symbol D = t_max_symbol t /\ 0 <= bytes <= Z.of_nat (length source)
  | RErr _ => True
  | RPanic _ => False
  end.
Proof.
  intros Hms Hml. unfold fse_build_decoder.
  pose proof (read_probabilities_never_panics (t_max_symbol t) source max_log) as NP.
  destruct (read_probabilities (t_max_symbol t) source max_log) as [[[al probs] bytes]|e|e] eqn:Er; cbn [rbind]; [|exact I|contradiction].
  destruct (read_probabilities_spec _ _ _ _ _ _ Er) as (Hal & Hp & Hw & Hlen & Hb).
  destruct (build_from_probabilities_good t al probs Hms ltac:(lia) Hp Hw Hlen) as (D & Eb & G & R & M).
  unfold fse_build_from_probabilities in Eb. destruct (Z.eqb_spec al 0); [lia|].
  destruct (build_decoding_table (t_max_symbol t) al probs) as [[dec counter]|e|e]; cbn [rbind] in Eb |- *; try discriminate.
  injection Eb as <-. tauto.
Qed.
